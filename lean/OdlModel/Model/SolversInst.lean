/-
Executable data used by the C11/C12 drivers to INSTANTIATE the parameters of the solver
state machines (`Model/Solvers.lean`): list vectors with entry-wise operations, matrices,
and a small language of entry-wise maps (closed-form proximals and gradients of the
functionals the harness draws: zero, L1, squared L2, box / non-negativity indicators, their
translates, scalings and convex conjugates through the Moreau identity).
Nothing in here is part of a theorem statement: the theorems hold for ARBITRARY parameters.
-/
import OdlModel.Common
namespace OdlModel.SolversInst

/-- Vectors: lists with entry-wise `+ - •` (shapes are checked by the driver). -/
def Vec (K : Type) := List K

namespace Vec
variable {K : Type}
instance [Add K] : Add (Vec K) := ⟨fun a b => List.zipWith (· + ·) a b⟩
instance [Sub K] : Sub (Vec K) := ⟨fun a b => List.zipWith (· - ·) a b⟩
instance [Neg K] : Neg (Vec K) := ⟨fun a => List.map (fun v => -v) a⟩
instance [Mul K] : SMul K (Vec K) := ⟨fun c a => List.map (fun v => c * v) a⟩
def ofList (l : List K) : Vec K := l
def toList (v : Vec K) : List K := v
def zero [OfNat K 0] (n : Nat) : Vec K := List.replicate n 0
def dot [Add K] [Mul K] [OfNat K 0] (a b : Vec K) : K :=
  (List.zipWith (· * ·) a b).foldl (· + ·) 0
def nsq [Add K] [Mul K] [OfNat K 0] (a : Vec K) : K := dot a a
def mul [Mul K] (a b : Vec K) : Vec K := List.zipWith (· * ·) a b
def div [Div K] (a b : Vec K) : Vec K := List.zipWith (· / ·) a b
def map (f : K → K) (a : Vec K) : Vec K := List.map f a
end Vec

abbrev Mat (K : Type) := List (List K)

def Mat.mulVec {K : Type} [Add K] [Mul K] [OfNat K 0] (A : Mat K) (x : Vec K) : Vec K :=
  A.map (fun row => Vec.dot row x)

def Mat.rows {K : Type} (A : Mat K) : Nat := A.length
def Mat.cols {K : Type} (A : Mat K) : Nat := (A.headD []).length
def Mat.wf {K : Type} (A : Mat K) (r c : Nat) : Bool := A.length = r && A.all (fun row => row.length = c)

/-- Entry-wise maps on the wire. -/
inductive PSpec (K : Type)
  | id                                   -- x
  | soft (s : K)                         -- sign(x) * max(|x| - s, 0)
  | scale (c : K)                        -- c * x
  | clamp (lo hi : K)                    -- min(max(x, lo), hi)
  | lower (lo : K)                       -- max(x, lo)
  | upper (hi : K)                       -- min(x, hi)
  | affine (c : K) (g : List K)          -- c * x + g
  | shift (g : List K) (p : PSpec K)     -- g + p(x - g)
  | moreau (sigma : K) (p : PSpec K)     -- x - sigma * p(x / sigma)
  | lin (M : Mat K) (b : List K)         -- M x + b
  | comp (p q : PSpec K)                 -- p(q(x))

section
variable {K : Type} [Add K] [Sub K] [Mul K] [Div K] [Neg K] [LT K] [DecidableLT K] [OfNat K 0]

def softThr (s x : K) : K := if s < x then x - s else if x < -s then x + s else 0

def PSpec.eval : PSpec K → Vec K → Vec K
  | .id, x => x
  | .soft s, x => Vec.map (softThr s) x
  | .scale c, x => c • x
  | .clamp lo hi, x => Vec.map (fun v => let w := if v < lo then lo else v; if hi < w then hi else w) x
  | .lower lo, x => Vec.map (fun v => if v < lo then lo else v) x
  | .upper hi, x => Vec.map (fun v => if hi < v then hi else v) x
  | .affine c g, x => c • x + Vec.ofList g
  | .shift g p, x => Vec.ofList g + p.eval (x - Vec.ofList g)
  | .moreau sigma p, x => x - sigma • p.eval (Vec.map (fun v => v / sigma) x)
  | .lin M b, x => M.mulVec x + Vec.ofList b
  | .comp p q, x => p.eval (q.eval x)
end

def PSpec.mapK {K K' : Type} (f : K → K') : PSpec K → PSpec K'
  | .id => .id
  | .soft s => .soft (f s)
  | .scale c => .scale (f c)
  | .clamp lo hi => .clamp (f lo) (f hi)
  | .lower lo => .lower (f lo)
  | .upper hi => .upper (f hi)
  | .affine c g => .affine (f c) (g.map f)
  | .shift g p => .shift (g.map f) (p.mapK f)
  | .moreau s p => .moreau (f s) (p.mapK f)
  | .lin M b => .lin (M.map (·.map f)) (b.map f)
  | .comp p q => .comp (p.mapK f) (q.mapK f)

/-- Wire form: `:`-separated prefix notation, e.g. `shift:1,2:soft:1/2`, `lin:1,0;0,1:0,0`. -/
def parsePSpecToks : Nat → List String → Option (PSpec Rat × List String)
  | 0, _ => none
  | _ + 1, "id" :: r => some (.id, r)
  | _ + 1, "soft" :: s :: r => do some (.soft (← parseRat s), r)
  | _ + 1, "scale" :: s :: r => do some (.scale (← parseRat s), r)
  | _ + 1, "clamp" :: a :: b :: r => do some (.clamp (← parseRat a) (← parseRat b), r)
  | _ + 1, "ball" :: a :: r => do let a ← parseRat a; some (.clamp (-a) a, r)   -- L∞ ball of radius a
  | _ + 1, "lower" :: a :: r => do some (.lower (← parseRat a), r)
  | _ + 1, "upper" :: a :: r => do some (.upper (← parseRat a), r)
  | _ + 1, "affine" :: c :: g :: r => do some (.affine (← parseRat c) (← parseRatList g), r)
  | f + 1, "shift" :: g :: r => do
      let g ← parseRatList g
      let (p, r') ← parsePSpecToks f r
      some (.shift g p, r')
  | f + 1, "moreau" :: s :: r => do
      let s ← parseRat s
      if s = 0 then none
      let (p, r') ← parsePSpecToks f r
      some (.moreau s p, r')
  | _ + 1, "lin" :: m :: b :: r => do some (.lin (← parseRatMat m) (← parseRatList b), r)
  | f + 1, "comp" :: r => do
      let (p, r1) ← parsePSpecToks f r
      let (q, r2) ← parsePSpecToks f r1
      some (.comp p q, r2)
  | _ + 1, _ => none

def parsePSpec (s : String) : Option (PSpec Rat) :=
  match parsePSpecToks 64 (s.splitOn ":") with
  | some (p, []) => some p
  | _ => none

def Line.pspec? (l : Line) (k : String) : Option (PSpec Rat) := l.get? k >>= parsePSpec

def Line.matR? (l : Line) (k : String) : Option (Mat Rat) := l.mat? k
def Line.vec? (l : Line) (k : String) : Option (Vec Rat) := l.rats? k

def showVec (v : Vec Rat) : String := showRatList v
def showLog (l : List (Vec Rat)) : String := showRatMat l

/-- `k`-indexed family of line arguments `A0=… A1=…`. -/
def Line.family {α : Type} (l : Line) (key : String) (m : Nat) (f : String → Option α) : Option (List α) :=
  (List.range m).mapM (fun i => l.get? (key ++ toString i) >>= f)

/-! ### Doubles, for the paths through `sqrt` (power method, FISTA momentum). -/

/-- Exact value of a dyadic rational (every IEEE double is one) as a `Float`. -/
def ratToFloat (r : Rat) : Float :=
  -- den is a power of two for the harness' inputs; the general case rounds once more
  Float.ofInt r.num / Float.ofNat r.den

/-- Exact rational value of a finite double. -/
def floatToRat? (x : Float) : Option Rat :=
  if x.isNaN || x.isInf then none else
  let (m, e) := x.frExp           -- x = m * 2^e, 1/2 ≤ |m| < 1
  let mi : Int := (m.scaleB 53).toInt64.toInt
  let e' : Int := e - 53
  some (if e' ≥ 0 then (mi * (2 : Int) ^ e'.toNat : Int) else mkRat mi (2 ^ (-e').toNat))

def showFloatVec (v : Vec Float) : String :=
  match (Vec.toList v).mapM floatToRat? with
  | some l => showRatList l
  | none => "nonfinite"

end OdlModel.SolversInst
