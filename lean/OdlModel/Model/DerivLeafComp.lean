/-
C06 (round 4): a norm-type leaf composed with an expression tree —
`OperatorComp(leaf, tree)` (`leaf * tree`) of `odl/operator/operator.py`, e.g. `‖A x + b‖`,
`dist(y, x²)`, `|(1+2i) x|`, the point-wise norm of a block operator (`|∇x|` of total variation).

`OperatorComp.derivative(x)`: the composition is never flagged linear (the leaf is not), the left
operand is not linear, so the code returns
`OperatorComp(left.derivative(right(x)), right.derivative(x))` — the leaf's closed-form derivative
AT THE INNER VALUE `right(x)`, composed with the tree's derivative at `x`; `left.derivative` is
evaluated first (so a `ValueError` of `NormOperator` / `DistOperator` at `right(x) = 0 / y` wins).

Two scalar types: the tree is evaluated at `K` (the driver: `Rat`, exact), the leaf at `F` (the
driver: `Float`), `cast : K → F` embeds the inner value (exact for the dyadic data of the stream);
the theorems take `K = F = ℝ`, `cast = id`.
-/
import OdlModel.Model.DerivLeaves
namespace OdlModel.Deriv

section
variable {K F : Type} [Add K] [Mul K] [OfNat K 0] [OfNat K 1] [DecidableEq K]
  [Add F] [Sub F] [Mul F] [Div F] [OfNat F 0] [OfNat F 1] [HasSqrt F] [BEq F]

/-- The domain of the leaf is a complex space (`ComplexModulus`). -/
def Leaf.domC : Leaf F → Bool
  | .cmod _ => true
  | _ => false

/-- Constructor check of `OperatorComp(leaf, tree)` (`tree.range == leaf.domain`: same dimension,
same kind of space, not a field) on top of the checks of both operands. -/
def compWf (l : Leaf F) (i : Impl K) : Bool :=
  l.wf && i.wf && i.cwf && (i.ran == l.dom) && !i.ranField && (i.ranC == l.domC)

/-- `OperatorComp(leaf, tree)(x) = leaf(tree(x))`. -/
def compRun (cast : K → F) (l : Leaf F) (i : Impl K) (x : Vec K) : Vec F :=
  l.run fun m => cast (i.run x m)

/-- `OperatorComp(leaf, tree).derivative(x)(d)`; `none` = `derivative` raises. -/
def compDeriv (cast : K → F) (l : Leaf F) (i : Impl K) (x d : Vec K) : Option (Vec F) :=
  match l.deriv (fun m => cast (i.run x m)), i.deriv x with
  | some L, some j => some (L.run fun m => cast (j.run d m))
  | _, _ => none

end
end OdlModel.Deriv
