/-
Model of the operator call protocol of `odl/operator/operator.py` (C03; reused by C10 for the
calculus wrappers):

* `Operator.__new__` : signature-based dispatch of `_call` (`Sig`): out-of-place only
  `_call(self, x)`, in-place only `_call(self, x, out)`, dual use `_call(self, x, out=None)`,
  with the two default bridges `_default_call_out_of_place` / `_default_call_in_place`;
* `Operator.__call__` : domain membership / cast / `OpDomainError`, range membership of `out` /
  `OpRangeError`, `out` with a functional / `TypeError`, the "returned something other than
  `out`" check / `ValueError`, wrapping of a raw out-of-place result with `range.element`;
* the `_call` bodies of the expression classes `OperatorSum`, `OperatorVectorSum`,
  `OperatorComp`, `OperatorPointwiseProduct`, `OperatorLeftScalarMult`,
  `OperatorRightScalarMult`, `OperatorLeftVectorMult`, `OperatorRightVectorMult`,
  `FunctionalLeftVectorMult`, statement for statement, temporaries included;
* on top of these trees, the product-space classes of `pspace_ops.py`:
  `ProductSpaceOperator` (hence `BroadcastOperator`, `ReductionOperator`, `DiagonalOperator`,
  which delegate to one), `ComponentProjection`, `ComponentProjectionAdjoint`; a product-space
  element is a tuple of component objects (`Nat → Nat`, component index ↦ buffer id).

Store, buffers and identity aliasing are those of `Model/ProxProg.lean`.  Leaves are abstract
bodies (`Leaf`): two state transformers about which the theorems assume only the leaf
contract.  `Leaf.ofProg` turns a straight-line program of `ProxProg` into an in-place leaf.
Of the membership checks of the *inner* calls made by the expression classes only the
rejection of `out` by a functional is modelled (it is what `OperatorComp` has to avoid when its
right factor is a functional); the constructors of these classes enforce matching spaces.
-/
import OdlModel.Model.ProxProg

set_option linter.constructorNameAsVariable false
namespace OdlModel.Call
open OdlModel.Prox

/-- Signature class of `_call` as determined by `_dispatch_call_args`. -/
inductive Sig | oop | ip | dual
  deriving DecidableEq, Repr

/-- What an in-place body returns: `None`, the `out` object, or something else. -/
inductive Ret | none | out | other
  deriving DecidableEq, Repr

inductive Err | domain | range | type | value
  deriving DecidableEq, Repr

structure Leaf (K : Type) where
  sig : Sig
  /-- the range is a field (`is_functional`): the value is a scalar, kept at index 0 -/
  fn : Bool
  /-- the out-of-place body returns a raw array which `__call__` wraps by `range.element` -/
  raw : Bool
  /-- the out-of-place body returns something that cannot be cast to the range (a string):
  `op(x)` raises `OpRangeError`, the default in-place bridge lets the `ValueError` of
  `range.element` through -/
  junk : Bool := false
  /-- the map the leaf is supposed to compute -/
  phi : Vec K → Vec K
  /-- body run for `_call(x)` -/
  oop : Nat → St K → Nat × St K
  /-- body run for `_call(x, out)` -/
  ip : Nat → Nat → St K → Ret × St K

inductive Op (K : Type)
  | leaf (l : Leaf K)
  | sum (a b : Op K)
  | vecsum (a : Op K) (v : Vec K)
  | comp (a b : Op K)
  | pwprod (a b : Op K)
  | lscal (a : Op K) (c : K)
  | rscal (a : Op K) (c : K)
  | lvec (a : Op K) (v : Vec K)
  | rvec (a : Op K) (v : Vec K)
  /-- `FunctionalLeftVectorMult(functional, vector)` -/
  | flvm (f : Op K) (v : Vec K)

/-- `is_functional` of a node (the range of every expression class is that of one operand). -/
def Op.fn {K} : Op K → Bool
  | .leaf l => l.fn
  | .sum a _ => a.fn
  | .vecsum _ _ => false
  | .comp a _ => a.fn
  | .pwprod a _ => a.fn
  | .lscal a _ => a.fn
  | .rscal a _ => a.fn
  | .lvec a _ => a.fn
  | .rvec a _ => a.fn
  | .flvm _ _ => false

/-- Outcome of a call: an exception (with the store at that moment) or the returned object. -/
inductive Res (K : Type)
  | err (e : Err) (s : St K)
  | ok (b : Nat) (s : St K)

def Res.bind {K} (r : Res K) (f : Nat → St K → Res K) : Res K :=
  match r with
  | .err e s => .err e s
  | .ok b s => f b s

/-- New object holding `v`. -/
def alloc {K} (s : St K) (v : Vec K) : Nat × St K :=
  (s.next, { mem := fun b => if b = s.next then v else s.mem b, next := s.next + 1 })

section
variable {K : Type} [Add K] [Mul K]

/-- `op(x)` for an `x` already in the domain (`_call_out_of_place` + result wrapping). -/
def callO (jk : Nat → Vec K) : Op K → Nat → St K → Res K
  | .leaf l, x, s =>
      match l.sig with
      | .ip =>
          -- _default_call_out_of_place: out = range.element(); result = _call_in_place(x, out)
          let (o, s1) := alloc s (jk s.next)
          let (ret, s2) := l.ip x o s1
          if ret = .other then .err .value s2 else .ok o s2
      | _ =>
          let (r, s1) := l.oop x s
          if l.junk then .err .range s1 else
          if l.raw then
            -- `if out not in self.range: out = self.range.element(out)`
            let (r', s2) := alloc s1 (s1.mem r)
            .ok r' s2
          else .ok r s1
  | .sum a b, x, s =>
      -- return self.left(x) + self.right(x)
      (callO jk a x s).bind fun ra s1 => (callO jk b x s1).bind fun rb s2 =>
        let (r, s3) := alloc s2 (fun i => s2.mem ra i + s2.mem rb i)
        .ok r s3
  | .vecsum a v, x, s =>
      -- return self.operator(x) + self.vector      (a NEW object: operator(x) may be x itself)
      (callO jk a x s).bind fun r s1 =>
        let (r', s2) := alloc s1 (fun i => s1.mem r i + v i)
        .ok r' s2
  | .comp a b, x, s =>
      -- return self.left(self.right(x))
      (callO jk b x s).bind fun rb s1 => callO jk a rb s1
  | .pwprod a b, x, s =>
      (callO jk a x s).bind fun ra s1 => (callO jk b x s1).bind fun rb s2 =>
        let (r, s3) := alloc s2 (fun i => s2.mem ra i * s2.mem rb i)
        .ok r s3
  | .lscal a c, x, s =>
      -- return self.scalar * self.operator(x)
      (callO jk a x s).bind fun r s1 =>
        let (r', s2) := alloc s1 (fun i => c * s1.mem r i)
        .ok r' s2
  | .rscal a c, x, s =>
      -- return self.operator(self.scalar * x)
      let (t, s1) := alloc s (fun i => c * s.mem x i)
      callO jk a t s1
  | .lvec a v, x, s =>
      -- return self.operator(x) * self.vector
      (callO jk a x s).bind fun r s1 =>
        let (r', s2) := alloc s1 (fun i => s1.mem r i * v i)
        .ok r' s2
  | .rvec a v, x, s =>
      -- return self.operator(x * self.vector)
      let (t, s1) := alloc s (fun i => s.mem x i * v i)
      callO jk a t s1
  | .flvm f v, x, s =>
      -- return self.vector * self.functional(x)
      (callO jk f x s).bind fun r s1 =>
        let (r', s2) := alloc s1 (fun i => v i * s1.mem r 0)
        .ok r' s2

/-- `op(x, out=y)` for `x` in the domain and `y` in the range (`_call_in_place` + the
"returned something other than out" check). -/
def callI (jk : Nat → Vec K) : Op K → Nat → Nat → St K → Res K
  | .leaf l, x, y, s =>
      -- `out` parameter cannot be used when range is a field
      if l.fn then .err .type s else
      match l.sig with
      | .oop =>
          -- _default_call_in_place: out.assign(range.element(_call_out_of_place(x)))
          let (r, s1) := l.oop x s
          if l.junk then .err .value s1 else
          .ok y (s1.write y (s1.mem r))
      | _ =>
          let (ret, s1) := l.ip x y s
          if ret = .other then .err .value s1 else .ok y s1
  | .sum a b, x, y, s =>
      -- tmp = range.element(); left(x, out=tmp); right(x, out=out); out += tmp
      let (t, s0) := alloc s (jk s.next)
      (callI jk a x t s0).bind fun _ s1 => (callI jk b x y s1).bind fun _ s2 =>
        .ok y (s2.write y (fun i => s2.mem y i + s2.mem t i))
  | .vecsum a v, x, y, s =>
      (callI jk a x y s).bind fun _ s1 => .ok y (s1.write y (fun i => s1.mem y i + v i))
  | .comp a b, x, y, s =>
      if b.fn then
        -- elif self.right.is_functional: return self.left(self.right(x), out=out)
        -- (the scalar is an immutable Python number: a new value, never `out` itself)
        (callO jk b x s).bind fun rb s1 =>
          let (t, s2) := alloc s1 (s1.mem rb)
          callI jk a t y s2
      else
        -- tmp = right.range.element(); right(x, out=tmp); return left(tmp, out=out)
        let (t, s0) := alloc s (jk s.next)
        (callI jk b x t s0).bind fun _ s1 => callI jk a t y s1
  | .pwprod a b, x, y, s =>
      -- tmp = right.range.element(); left(x, out=tmp); right(x, out=out); out *= tmp
      let (t, s0) := alloc s (jk s.next)
      (callI jk a x t s0).bind fun _ s1 => (callI jk b x y s1).bind fun _ s2 =>
        .ok y (s2.write y (fun i => s2.mem y i * s2.mem t i))
  | .lscal a c, x, y, s =>
      -- operator(x, out=out); out *= scalar
      (callI jk a x y s).bind fun _ s1 => .ok y (s1.write y (fun i => s1.mem y i * c))
  | .rscal a c, x, y, s =>
      -- tmp = domain.element(); tmp.lincomb(scalar, x); operator(tmp, out=out)
      let (t, s0) := alloc s (jk s.next)
      let s1 := s0.write t (fun i => c * s0.mem x i)
      callI jk a t y s1
  | .lvec a v, x, y, s =>
      -- operator(x, out=out); out *= vector
      (callI jk a x y s).bind fun _ s1 => .ok y (s1.write y (fun i => s1.mem y i * v i))
  | .rvec a v, x, y, s =>
      -- tmp = domain.element(); x.multiply(vector, out=tmp); operator(tmp, out=out)
      let (t, s0) := alloc s (jk s.next)
      let s1 := s0.write t (fun i => s0.mem x i * v i)
      callI jk a t y s1
  | .flvm f v, x, y, s =>
      -- scalar = self.functional(x); out.lincomb(scalar, self.vector)
      (callO jk f x s).bind fun r s1 => .ok y (s1.write y (fun i => s1.mem r 0 * v i))

/-- The argument `x` of the public call. -/
inductive XArg (K : Type)
  | inDomain (b : Nat)          -- `x in self.domain`
  | castable (v : Vec K)        -- `self.domain.element(x)` succeeds (list, array, scalar …)
  | bad                         -- the cast raises TypeError / ValueError

/-- The argument `out` of the public call. -/
inductive OArg
  | none
  | inRange (b : Nat)
  | foreign                     -- an object that is not an element of the range

/-- `Operator.__call__(x, out)`. -/
def call (jk : Nat → Vec K) (e : Op K) (x : XArg K) (o : OArg) (s : St K) : Res K :=
  let go (xb : Nat) (s1 : St K) : Res K :=
    match o with
    | .foreign => .err .range s1
    | .inRange y => if e.fn then .err .type s1 else callI jk e xb y s1
    | .none => callO jk e xb s1
  match x with
  | .bad => .err .domain s
  | .castable v => let (xb, s1) := alloc s v; go xb s1
  | .inDomain b => go b s

/-- What the tree is supposed to compute (out-of-place order of the operands). -/
def den : Op K → Vec K → Vec K
  | .leaf l, x => l.phi x
  | .sum a b, x => fun i => den a x i + den b x i
  | .vecsum a v, x => fun i => den a x i + v i
  | .comp a b, x => den a (den b x)
  | .pwprod a b, x => fun i => den a x i * den b x i
  | .lscal a c, x => fun i => c * den a x i
  | .rscal a c, x => den a (fun i => c * x i)
  | .lvec a v, x => fun i => den a x i * v i
  | .rvec a v, x => den a (fun i => x i * v i)
  | .flvm f v, x => fun i => v i * den f x 0

end

/-! ### Modelled leaves: the dual-use `_call` bodies of `default_ops.py` -/

section
variable {K : Type} [Add K] [Mul K] [OfNat K 0]

/-- `ScalingOperator._call` / `IdentityOperator`: `out = scalar * x` | `out.lincomb(scalar, x)`;
`return out`. -/
def scalingLeaf (c : K) : Leaf K :=
  { sig := .dual, fn := false, raw := false, phi := fun v i => c * v i,
    oop := fun x s => alloc s (fun i => c * s.mem x i),
    ip := fun x y s => (.out, s.write y (fun i => c * s.mem x i)) }

/-- `ConstantOperator._call`: `return range.element(copy(constant))` | `out.assign(constant)`. -/
def constLeaf (v : Vec K) : Leaf K :=
  { sig := .dual, fn := false, raw := false, phi := fun _ => v,
    oop := fun _ s => alloc s v,
    ip := fun _ y s => (.none, s.write y v) }

/-- `MultiplyOperator._call` (element multiplicand): `return x * multiplicand` |
`out.assign(multiplicand * x)` (the product is a new object). -/
def multLeaf (v : Vec K) : Leaf K :=
  { sig := .dual, fn := false, raw := false, phi := fun x i => x i * v i,
    oop := fun x s => alloc s (fun i => s.mem x i * v i),
    ip := fun x y s =>
      let (t, s1) := alloc s (fun i => v i * s.mem x i)
      (.none, s1.write y (s1.mem t)) }

/-- `PowerOperator._call`: `return x ** p` | `out.assign(x); out **= p`. -/
def powLeaf (pw : K → K) : Leaf K :=
  { sig := .dual, fn := false, raw := false, phi := fun x i => pw (x i),
    oop := fun x s => alloc s (fun i => pw (s.mem x i)),
    ip := fun x y s =>
      let s1 := s.write y (s.mem x)
      (.none, s1.write y (fun i => pw (s1.mem y i))) }

/-- `ZeroOperator._call` (domain == range): `out = 0 * x` | `out.lincomb(0, x)`; `return out`. -/
def zeroLeaf : Leaf K :=
  { sig := .dual, fn := false, raw := false, phi := fun x i => 0 * x i,
    oop := fun x s => alloc s (fun i => 0 * s.mem x i),
    ip := fun x y s => (.out, s.write y (fun i => 0 * s.mem x i)) }

/-- `ComplexModulusSquared._call(x)` on a real space (out-of-place only; the in-place call
goes through `_default_call_in_place`): `return x.real ** 2 + x.imag ** 2`, `x.imag = 0`. -/
def modSqLeaf : Leaf K :=
  { sig := .oop, fn := false, raw := false, phi := fun x i => x i * x i + 0 * 0,
    oop := fun x s => alloc s (fun i => s.mem x i * s.mem x i + 0 * 0),
    ip := fun _ _ s => (.other, s) }

/-- Out-of-place-only functional leaf (`InnerProductOperator`, `NormOperator`, … :
`_call(self, x)` returning a scalar); the scalar `f(x)` is kept at every index. -/
def funcLeaf (f : Vec K → K) : Leaf K :=
  { sig := .oop, fn := true, raw := false, phi := fun x _ => f x,
    oop := fun x s => alloc s (fun _ => f (s.mem x)),
    ip := fun _ _ s => (.other, s) }

/-- A leaf that obeys the call protocol but is deliberately NOT alias safe (legal: only
wrappers and proximals promise anything for `out is x`): in-place only,
`out[:] = 0; out.lincomb(1, out, c, x)` — it writes `out` before it has read `x`. Used to
make sure that every wrapper hands a FRESH temporary, never `out` or `x`, to its operand. -/
def accumLeaf (c : K) : Leaf K :=
  { sig := .ip, fn := false, raw := false, phi := fun x i => 0 + c * x i,
    oop := fun x s => (x, s),
    ip := fun x y s =>
      let s1 := s.write y (fun _ => 0)
      (.none, s1.write y (fun i => s1.mem y i + c * s1.mem x i)) }

/-- `MultiplyOperator(v, domain=field)._call`: `return x * multiplicand` |
`out.lincomb(x, multiplicand)` for a scalar `x` (kept at index 0 of its buffer). -/
def scalarMultLeaf (v : Vec K) : Leaf K :=
  { sig := .dual, fn := false, raw := false, phi := fun x i => x 0 * v i,
    oop := fun x s => alloc s (fun i => s.mem x 0 * v i),
    ip := fun x y s => (.none, s.write y (fun i => s.mem x 0 * v i)) }

/-- Synthetic leaf for the dispatch correspondence: body `2·x`-like map `f`, any signature
class, any return behaviour of the in-place body, raw or element out-of-place result. -/
def synthLeaf (sg : Sig) (ret : Ret) (raw : Bool) (fn : Bool) (junk : Bool)
    (f : Vec K → Vec K) : Leaf K :=
  { sig := sg, fn := fn, raw := raw, junk := junk, phi := f,
    oop := fun x s => alloc s (f (s.mem x)),
    ip := fun x y s => (ret, s.write y (f (s.mem x))) }

end

/-! ### Product-space classes (`pspace_ops.py`)

A product-space element is a tuple of component objects: `x : Nat → Nat` maps the component
index to its buffer id.  The entries of the operator matrix are expression trees. -/

/-- One stored block of a `ProductSpaceOperator` (`ops.row[k], ops.col[k], ops.data[k]`). -/
structure Entry (K : Type) where
  row : Nat
  col : Nat
  op : Op K

/-- Outcome of a product-space call: exception, or the rows evaluated and the store. -/
inductive PRes (K : Type)
  | err (e : Err) (s : St K)
  | ok (done : List Nat) (s : St K)

section
variable {K : Type} [Add K] [Mul K] [OfNat K 0]

/-- `out = self.range.zero()` : `m` new component objects `s.next, …, s.next + m - 1`. -/
def allocZeros (s : St K) (m : Nat) : St K :=
  { mem := fun b => if s.next ≤ b ∧ b < s.next + m then (fun _ => 0) else s.mem b,
    next := s.next + m }

/-- `for i, j, op in zip(ops.row, ops.col, ops.data): out[i] += op(x[j])` -/
def psoLoopO (jk : Nat → Vec K) (x o : Nat → Nat) : List (Entry K) → St K → PRes K
  | [], s => .ok [] s
  | e :: rest, s =>
      match callO jk e.op (x e.col) s with
      | .err er s1 => .err er s1
      | .ok r s1 =>
          psoLoopO jk x o rest
            (s1.write (o e.row) (fun k => s1.mem (o e.row) k + s1.mem r k))

/-- `ProductSpaceOperator._call(x)`; the result has the components `s.next + i`, `i < m`. -/
def psoO (jk : Nat → Vec K) (m : Nat) (entries : List (Entry K)) (x : Nat → Nat) (s : St K) :
    PRes K :=
  psoLoopO jk x (fun i => s.next + i) entries (allocZeros s m)

/-- The in-place loop with `has_evaluated_row` (`done`):
`if not has_evaluated_row[i]: op(x[j], out=out[i]) else: out[i] += op(x[j])`. -/
def psoLoopI (jk : Nat → Vec K) (x y : Nat → Nat) :
    List (Entry K) → List Nat → St K → PRes K
  | [], done, s => .ok done s
  | e :: rest, done, s =>
      if e.row ∈ done then
        match callO jk e.op (x e.col) s with
        | .err er s1 => .err er s1
        | .ok r s1 =>
            psoLoopI jk x y rest done
              (s1.write (y e.row) (fun k => s1.mem (y e.row) k + s1.mem r k))
      else
        match callI jk e.op (x e.col) (y e.row) s with
        | .err er s1 => .err er s1
        | .ok _ s1 => psoLoopI jk x y rest (e.row :: done) s1

/-- `for i, evaluated in enumerate(has_evaluated_row): if not evaluated: out[i].set_zero()`
(`set_zero` writes exact zeros). -/
def zeroRows (y : Nat → Nat) (m : Nat) (done : List Nat) (s : St K) : St K :=
  { s with mem := fun b => if ∃ i, i < m ∧ (i ∉ done ∧ y i = b) then (fun _ => 0) else s.mem b }

/-- `ProductSpaceOperator._call(x, out)`. -/
def psoI (jk : Nat → Vec K) (m : Nat) (entries : List (Entry K)) (x y : Nat → Nat) (s : St K) :
    PRes K :=
  match psoLoopI jk x y entries [] s with
  | .err er s1 => .err er s1
  | .ok done s1 => .ok done (zeroRows y m done s1)

/-- Row `i` of the value: `0 + Σ_{entries of row i, in order} ⟦op⟧(x[col])`. -/
def rowDen (xv : Nat → Vec K) : List (Entry K) → Nat → Vec K → Vec K
  | [], _, acc => acc
  | e :: rest, i, acc =>
      rowDen xv rest i (if e.row = i then (fun k => acc k + den e.op (xv e.col) k) else acc)

def denPso (entries : List (Entry K)) (xv : Nat → Vec K) (i : Nat) : Vec K :=
  rowDen xv entries i (fun _ => 0)

/-- `BroadcastOperator(op_0, …)`: `prod_op` has the blocks `(i, 0, op_i)`; `_call` wraps `x`
into a 1-tuple and delegates (`x := fun _ => xb`). -/
def broadcastEntries (ops : List (Op K)) : List (Entry K) :=
  (List.range ops.length).zipWith (fun i op => ⟨i, 0, op⟩) ops

/-- `ReductionOperator(op_0, …)`: blocks `(0, j, op_j)`; `_call(x, out)` wraps `out` into a
1-tuple (`y := fun _ => yb`), `_call(x)` returns component 0 of the result. -/
def reductionEntries (ops : List (Op K)) : List (Entry K) :=
  (List.range ops.length).zipWith (fun j op => ⟨0, j, op⟩) ops

/-- `DiagonalOperator(op_0, …)`: blocks `(i, i, op_i)`. -/
def diagonalEntries (ops : List (Op K)) : List (Entry K) :=
  (List.range ops.length).zipWith (fun i op => ⟨i, i, op⟩) ops

/-- `ComponentProjection(space, i)._call`: `out = x[i].copy()` | `out.assign(x[i])`. -/
def compProjO (i : Nat) (x : Nat → Nat) (s : St K) : Nat × St K := alloc s (s.mem (x i))
def compProjI (i : Nat) (x : Nat → Nat) (y : Nat) (s : St K) : St K := s.write y (s.mem (x i))

/-- `ComponentProjectionAdjoint(space, i)._call`: `out = range.zero()` | `out.set_zero()`;
then `out[i] = x`. The out-of-place result has the components `s.next + k`, `k < m`. -/
def compProjAdjO (m i : Nat) (x : Nat) (s : St K) : St K :=
  (allocZeros s m).write (s.next + i) (s.mem x)
def compProjAdjI (m i : Nat) (x : Nat) (y : Nat → Nat) (s : St K) : St K :=
  let s1 := zeroRows y m [] s
  s1.write (y i) (s1.mem x)

end

/-! ### Round 4: further `default_ops.py` bodies, statement for statement

Executed by the `leaf` / `lincomb` ops of `Drivers/C03.lean`, compared with the real classes by the
`leaf` stream of `tools/harness/c03.py`. -/

section
variable {K : Type} [Add K] [Mul K] [OfNat K 0]

/-- `ZeroOperator._call` with `domain != range` (the `else` branch):
`result = self.range.zero()`; `out = result` | `out.assign(result)`; `return out`.
The input is not read at all. -/
def zeroDiffLeaf : Leaf K :=
  { sig := .dual, fn := false, raw := false, phi := fun _ _ => 0,
    oop := fun _ s => alloc s (fun _ => 0),
    ip := fun _ y s =>
      let (r, s1) := alloc s (fun _ => 0)
      (.out, s1.write y (s1.mem r)) }

/-- Value computed by `_lincomb_impl(a, x1, b, x2, out)` of `odl/space/npy_tensors.py` on its
branch for `size < THRESHOLD_SMALL` (the only one the `leaf` stream reaches):
`if a == 0 and b == 0: out.data[:] = 0` else `out.data[:] = a * x1.data + b * x2.data`
(the right-hand side is evaluated completely before the assignment). `isz` is `· == 0`. -/
def lincombSmall (isz : K → Bool) (a : K) (x1 : Vec K) (b : K) (x2 : Vec K) : Vec K :=
  if isz a && isz b then fun _ => 0 else fun i => a * x1 i + b * x2 i

/-- `MultiplyOperator._call` with a SCALAR multiplicand on a space (`MultiplyOperator(c,
domain=X, range=X)`): `return x * c` (`LinearSpaceElement.__mul__` with `c in field`:
`tmp = space.element(); lincomb(c, x, out=tmp)`, i.e. `_lincomb(c, x, 0, x, tmp)`) |
`out.assign(c * x)` (the product is a new object, then copied). -/
def multScalarLeaf (isz : K → Bool) (jk : Nat → Vec K) (c : K) : Leaf K :=
  { sig := .dual, fn := false, raw := false, phi := fun x => lincombSmall isz c x 0 x,
    oop := fun x s =>
      let (t, s1) := alloc s (jk s.next)
      (t, s1.write t (lincombSmall isz c (s1.mem x) 0 (s1.mem x))),
    ip := fun x y s =>
      let (t, s1) := alloc s (jk s.next)
      let s2 := s1.write t (lincombSmall isz c (s1.mem x) 0 (s1.mem x))
      (.none, s2.write y (s2.mem t)) }

/-- `ImagPart._call` on a real space: `return x.imag`, and `x.imag` of a real tensor is
`self.space.zero()` — a new object; out-of-place only (in-place goes through
`_default_call_in_place`). -/
def imagLeaf : Leaf K :=
  { sig := .oop, fn := false, raw := false, phi := fun _ _ => 0,
    oop := fun _ s => alloc s (fun _ => 0),
    ip := fun _ _ s => (.other, s) }

/-- `ComplexModulus._call` on a real space, with every temporary:
`return (x.real ** 2 + x.imag ** 2).ufuncs.sqrt()`; `x.real is x`, `x.imag` is a new zero
element, `**`, `+` and `sqrt` each return a new object. Out-of-place only. -/
def cmodLeaf (sq : K → K) : Leaf K :=
  { sig := .oop, fn := false, raw := false, phi := fun x i => sq (x i * x i + 0 * 0),
    oop := fun x s =>
      let (t1, s1) := alloc s (fun i => s.mem x i * s.mem x i)        -- x.real ** 2
      let (t2, s2) := alloc s1 (fun _ => 0)                           -- x.imag
      let (t3, s3) := alloc s2 (fun i => s2.mem t2 i * s2.mem t2 i)   -- x.imag ** 2
      let (t4, s4) := alloc s3 (fun i => s3.mem t1 i + s3.mem t3 i)   -- … + …
      alloc s4 (fun i => sq (s4.mem t4 i)),                           -- .ufuncs.sqrt()
    ip := fun _ _ s => (.other, s) }

/-- `LinCombOperator._call(x)` on `X × X` (`x` = tuple of component objects):
`out = self.range.element(); out.lincomb(a, x[0], b, x[1]); return out`. -/
def linCombO (isz : K → Bool) (jk : Nat → Vec K) (a b : K) (x : Nat → Nat) (s : St K) :
    Nat × St K :=
  let (o, s1) := alloc s (jk s.next)
  (o, s1.write o (lincombSmall isz a (s1.mem (x 0)) b (s1.mem (x 1))))

/-- `LinCombOperator._call(x, out)`: `out.lincomb(a, x[0], b, x[1]); return out` (`lincomb`
reads both operands before it writes, also when `out` is one of them: C01). -/
def linCombI (isz : K → Bool) (a b : K) (x : Nat → Nat) (y : Nat) (s : St K) : St K :=
  s.write y (lincombSmall isz a (s.mem (x 0)) b (s.mem (x 1)))

end

/-! ### Round 4: `BroadcastOperator`, `ReductionOperator`, `DiagonalOperator` with the block lists
their constructors build and the identity wrapping of their `_call`

Executed by the `wrap` op of `Drivers/C03.lean` (the driver receives the operand list only; the
block list and the wrapping come from here), compared by the `wrap` lines of the `pso` stream. -/

section
variable {K : Type} [Add K] [Mul K] [OfNat K 0]

/-- Blocks `(k, colOf k, op_0), (k+1, colOf (k+1), op_1), …` in this (COO) order:
`BroadcastOperator.__init__` builds `ProductSpaceOperator([[op_0], [op_1], …])` (`colOf = 0`),
`DiagonalOperator.__init__` the blocks `(i, i, op_i)` (`colOf = id`). -/
def rowsFrom (colOf : Nat → Nat) (k : Nat) : List (Op K) → List (Entry K)
  | [] => []
  | op :: r => ⟨k, colOf k, op⟩ :: rowsFrom colOf (k + 1) r

/-- `ReductionOperator.__init__`: `ProductSpaceOperator([[op_0, op_1, …]])`, blocks `(0, j, op_j)`. -/
def colsFrom (k : Nat) : List (Op K) → List (Entry K)
  | [] => []
  | op :: r => ⟨0, k, op⟩ :: colsFrom (k + 1) r

/-- `BroadcastOperator._call(x)`: `wrapped_x = prod_op.domain.element([x], cast=False)` — a
1-tuple whose only component IS the object `x` (no copy) — `return prod_op(wrapped_x)`. -/
def broadcastO (jk : Nat → Vec K) (ops : List (Op K)) (xb : Nat) (s : St K) : PRes K :=
  psoO jk ops.length (rowsFrom (fun _ => 0) 0 ops) (fun _ => xb) s

/-- `BroadcastOperator._call(x, out)`: `return prod_op(wrapped_x, out=out)`. -/
def broadcastI (jk : Nat → Vec K) (ops : List (Op K)) (xb : Nat) (y : Nat → Nat) (s : St K) :
    PRes K :=
  psoI jk ops.length (rowsFrom (fun _ => 0) 0 ops) (fun _ => xb) y s

/-- `ReductionOperator._call(x)`: `return self.prod_op(x)[0]` — component object 0 of the new
result tuple. -/
def reductionO (jk : Nat → Vec K) (ops : List (Op K)) (x : Nat → Nat) (s : St K) : Res K :=
  match psoO jk 1 (colsFrom 0 ops) x s with
  | .err e s1 => .err e s1
  | .ok _ s1 => .ok s.next s1

/-- `ReductionOperator._call(x, out)`: `wrapped_out = prod_op.range.element([out], cast=False)`
(the 1-tuple whose component IS `out`); `pspace_result = prod_op(x, out=wrapped_out)`;
`return pspace_result[0]` — the object `out` itself. -/
def reductionI (jk : Nat → Vec K) (ops : List (Op K)) (x : Nat → Nat) (yb : Nat) (s : St K) :
    Res K :=
  match psoI jk 1 (colsFrom 0 ops) x (fun _ => yb) s with
  | .err e s1 => .err e s1
  | .ok _ s1 => .ok yb s1

/-- `DiagonalOperator` has no `_call` of its own (it IS a `ProductSpaceOperator`). -/
def diagonalO (jk : Nat → Vec K) (ops : List (Op K)) (x : Nat → Nat) (s : St K) : PRes K :=
  psoO jk ops.length (rowsFrom id 0 ops) x s

def diagonalI (jk : Nat → Vec K) (ops : List (Op K)) (x y : Nat → Nat) (s : St K) : PRes K :=
  psoI jk ops.length (rowsFrom id 0 ops) x y s

/-- Value of a reduction: `((0 + ⟦op_0⟧(x_k)) + ⟦op_1⟧(x_{k+1})) + …`, in this order. -/
def redSum (xv : Nat → Vec K) : Nat → List (Op K) → Vec K → Vec K
  | _, [], acc => acc
  | k, op :: r, acc => redSum xv (k + 1) r (fun j => acc j + den op (xv k) j)

end

/-! ### Round 4: `ComponentProjection` with a LIST index (`pso kind=projl`) -/

section
variable {K : Type}

/-- `ComponentProjection(space, [i_0, i_1, …])._call(x)` (LIST index): `out = x[self.index].copy()`.
`x[list]` is a new TUPLE of the same component objects (no buffer is created); `.copy()` copies
every component, in order, into a new object: the result has the components `s.next + k`. -/
def compProjListO : List Nat → (Nat → Nat) → St K → St K
  | [], _, s => s
  | i :: r, x, s => compProjListO r x (alloc s (s.mem (x i))).2

/-- `ComponentProjection(space, [i_0, …])._call(x, out)`: `out.assign(x[self.index])`, which
`ProductSpaceElement.assign` does componentwise in order: `out[k].assign(x[i_k])`, starting
at component `k`. -/
def compProjListI : List Nat → Nat → (Nat → Nat) → (Nat → Nat) → St K → St K
  | [], _, _, _, s => s
  | i :: r, k, x, y, s => compProjListI r (k + 1) x y (s.write (y k) (s.mem (x i)))

end

/-! ### Round 5: wrappers constructed with a USER temporary (`tmp=`, `tmp_ran=`), and the
in-place loop of `ProductSpaceOperator` with the row-grouping assumption of seed C03-51

The user temporary `t` is an EXISTING object (part of the operator's state). Only the in-place
bodies use it; the out-of-place bodies are those of `callO` (`.rscal`, `.comp`, `.sum`).
Executed by `tree … wrap=rscal|comp|sum` of `Drivers/C03.lean` (content of the temporary
afterwards included), compared by the `tmpw` lines of the tree stream. -/

section
variable {K : Type} [Add K] [Mul K]

/-- `OperatorRightScalarMult(operator, scalar, tmp=t)._call(x, out)`:
`tmp = self.__tmp; tmp.lincomb(self.scalar, x); self.operator(tmp, out=out)`. -/
def rscalTmpI (jk : Nat → Vec K) (a : Op K) (c : K) (t x y : Nat) (s : St K) : Res K :=
  callI jk a t y (s.write t (fun i => c * s.mem x i))

/-- `OperatorRightScalarMult.__init__`: "shortcut in case of repeated multiplications" —
`if isinstance(operator, OperatorRightScalarMult): scalar = scalar * operator.scalar;
operator = operator.operator`. Visible in what the user temporary holds after a call. -/
def rscalCtor (a : Op K) (c : K) : Op K × K :=
  match a with
  | .rscal a' c' => (a', c * c')
  | _ => (a, c)

/-- `OperatorComp(left, right, tmp=t)._call(x, out)`, right factor not a functional:
`tmp = self.__tmp; self.right(x, out=tmp); return self.left(tmp, out=out)`. -/
def compTmpI (jk : Nat → Vec K) (a b : Op K) (t x y : Nat) (s : St K) : Res K :=
  (callI jk b x t s).bind fun _ s1 => callI jk a t y s1

/-- `OperatorSum(left, right, tmp_ran=t)._call(x, out)`:
`tmp = self.__tmp_ran; self.left(x, out=tmp); self.right(x, out=out); out += tmp`. -/
def sumTmpI (jk : Nat → Vec K) (a b : Op K) (t x y : Nat) (s : St K) : Res K :=
  (callI jk a x t s).bind fun _ s1 => (callI jk b x y s1).bind fun _ s2 =>
    .ok y (s2.write y (fun i => s2.mem y i + s2.mem t i))

/-- NOT the code: the out-of-place body of seed C03-52, which also scales into the user
temporary: `tmp.lincomb(scalar, x); return self.operator(tmp)`. -/
def rscalTmpBadO (jk : Nat → Vec K) (a : Op K) (c : K) (t x : Nat) (s : St K) : Res K :=
  callO jk a t (s.write t (fun i => c * s.mem x i))

/-- NOT the code: the in-place loop of seed C03-51, which overwrites `out[i]` whenever the row
differs from the row of the PREVIOUS entry (`prev`) instead of consulting `has_evaluated_row`. -/
def psoLoopPrevRow (jk : Nat → Vec K) (x y : Nat → Nat) :
    List (Entry K) → Option Nat → St K → PRes K
  | [], _, s => .ok [] s
  | e :: rest, prev, s =>
      if prev = some e.row then
        match callO jk e.op (x e.col) s with
        | .err er s1 => .err er s1
        | .ok r s1 =>
            psoLoopPrevRow jk x y rest (some e.row)
              (s1.write (y e.row) (fun k => s1.mem (y e.row) k + s1.mem r k))
      else
        match callI jk e.op (x e.col) (y e.row) s with
        | .err er s1 => .err er s1
        | .ok _ s1 => psoLoopPrevRow jk x y rest (some e.row) s1

end

/-! ### Leaves built from the straight-line programs of `ProxProg` -/

/-- Local view of the store for a program body: buffer 0 is `x`, buffer 1 is `out` (when
distinct), buffers 2–5 the closed-over data `d`. -/
def localMem {K} (s : St K) (x y : Nat) (d : Nat → Vec K) : Nat → Vec K :=
  fun b => if b = 0 then s.mem x else if b = 1 then s.mem y else d b

/-- In-place-only leaf whose body is the program `P`, run on the local view (the body touches
only `x`, `out`, its closed-over data and fresh temporaries — `C10.frame`); its result is
what the aliased run leaves in `x`. -/
def Leaf.ofProg {K} (jk : Nat → Vec K) (P : Stmt K) (d : Nat → Vec K) : Leaf K where
  sig := .ip
  fn := false
  raw := false
  phi := fun v => (run jk P 0 0 (fun b => if b = 0 then v else d b)).mem 0
  oop := fun x s => (x, s)   -- never used: sig = ip
  ip := fun x y s =>
    let ob := if x = y then 0 else 1
    (.none, s.write y ((run jk P 0 ob (localMem s x y d)).mem ob))

end OdlModel.Call
