/-
IEEE-double instantiation of the parameters of `Model/ProxProg.lean` (element-wise functions,
norms, `proj_simplex`, Lambert-W) and wire helpers (doubles travel as their 64-bit patterns in
decimal).  Executable support for the drivers of C03 and C10; nothing here is part of a
theorem statement.
-/
import OdlModel.Common
import OdlModel.Model.ProxProg
import OdlModel.Model.ProxAux

namespace OdlModel.ProxFloat
open OdlModel OdlModel.Prox

def parseBits (s : String) : Option Float := s.toNat?.map fun n => Float.ofBits n.toUInt64
def showBits (f : Float) : String := toString f.toBits.toNat
def _root_.OdlModel.Line.f? (l : Line) (k : String) : Option Float := l.get? k >>= parseBits
def _root_.OdlModel.Line.fs? (l : Line) (k : String) : Option (Array Float) :=
  (l.get? k >>= parseList parseBits).map (·.toArray)

def nanF : Float := 0.0 / 0.0

def sumN (n : Nat) (v : Vec Float) : Float := (List.range n).foldl (fun s i => s + v i) 0.0

/-- Lambert W, principal branch, argument ≥ 0 (Halley iteration). -/
def lambertW (z : Float) : Float :=
  if z == 0.0 then 0.0 else
  let w0 := if z < 2.718281828 then Float.log (1.0 + z) * 0.75 else Float.log z - Float.log (Float.log z)
  (List.range 60).foldl (fun w _ =>
    let e := Float.exp w
    let f := w * e - z
    let d := e * (w + 1.0) - (w + 2.0) * f / (2.0 * w + 2.0)
    if d == 0.0 then w else w - f / d) w0

/-- First `n` entries as an array. -/
def firstN (n : Nat) (v : Vec Float) : Array Float := ((List.range n).map v).toArray

def sortAscF (n : Nat) (v : Vec Float) : Vec Float :=
  let a := (firstN n v).qsort (fun p q => p < q)
  fun i => a.getD i nanF

def revF (n : Nat) (v : Vec Float) : Vec Float := fun i => if i < n then v (n - 1 - i) else nanF

/-- `(1 / j) * (np.cumsum(a) - d)` -/
def cumAvgF (n : Nat) (d : Float) (v : Vec Float) : Vec Float :=
  let (_, out) := (List.range n).foldl (fun (acc : Float × Array Float) k =>
      let c := acc.1 + v k
      (c, acc.2.push ((1.0 / (Float.ofNat (k + 1))) * (c - d)))) (0.0, #[])
  fun i => out.getD i nanF

def lastNonnegF (n : Nat) (v : Vec Float) : Float :=
  Float.ofNat ((List.range n).foldl (fun best k => if v k >= 0.0 then k else best) 0)

/-- `np.argsort(-a)` -/
def argsortDescF (n : Nat) (v : Vec Float) : Vec Float :=
  let idx := (List.range n).toArray.qsort (fun p q => v p > v q)
  fun i => Float.ofNat (idx.getD i 0)

def takeF (v order : Vec Float) : Vec Float := fun i => v (order i).toUInt64.toNat

/-- `(np.cumsum(xo) - d) / np.cumsum(1 / wo)` -/
def wtauF (n : Nat) (d : Float) (xo wo : Vec Float) : Vec Float :=
  let (_, _, out) := (List.range n).foldl (fun (acc : Float × Float × Array Float) k =>
      let c := acc.1 + xo k
      let cw := acc.2.1 + 1.0 / wo k
      (c, cw, acc.2.2.push ((c - d) / cw))) (0.0, 0.0, #[])
  fun i => out.getD i nanF

/-- `n` base size, `mc` number of components (power space), `w` constant weighting,
`p` exponent of PowerOperator. -/
def floatFns (n mc : Nat) (w p : Float) : Fns Float where
  abs := Float.abs
  sign := fun a => if a > 0.0 then 1.0 else if a < 0.0 then -1.0 else a
  sqrt := Float.sqrt
  square := fun a => a * a
  exp := Float.exp
  lambertw := lambertW
  max := fun a b => if a >= b then a else b
  min := fun a b => if a <= b then a else b
  pow := fun a => if p == 2.0 then a * a else if p == 3.0 then a * a * a else Float.pow a p
  lt := fun a b => a < b
  le := fun a b => a <= b
  truthy := fun a => a != 0.0
  ofBool := fun b => if b then 1.0 else 0.0
  inf := 1.0 / 0.0
  half := 0.5
  two := 2.0
  four := 4.0
  norm := fun v => Float.sqrt w * Float.sqrt (sumN (n * mc) (fun i => v i * v i))
  sum := sumN (n * mc)
  invSize := 1.0 / Float.ofNat (n * mc)
  pwnorm := fun v j => Float.sqrt (sumN mc (fun c => v (c * n + j) * v (c * n + j)))
  pdiv := fun a d k => a k / d (k % n)
  sortAsc := sortAscF (n * mc)
  rev := revF (n * mc)
  cumAvg := cumAvgF (n * mc)
  lastNonneg := lastNonnegF (n * mc)
  toIdx := fun k => k.toUInt64.toNat
  argsortDesc := argsortDescF (n * mc)
  take := takeF
  wtau := wtauF (n * mc)
  bidx := fun k => k % n

def parseId (name : String) (f : String) : Option ProxId :=
  let b (i : Nat) : Bool := (f.toList.getD i '0') = '1'
  match name with
  | "box" => some (.box (b 0) (b 1))
  | "l2" => some (.l2 (b 0))
  | "ccL2Sq" => some (.ccL2Sq (b 0) (b 1))
  | "l2Sq" => some (.l2Sq (b 0) (b 1))
  | "ccL1" => some (.ccL1 (b 0))
  | "ccL1L2" => some (.ccL1L2 (b 0))
  | "l1" => some (.l1 (b 0) (b 1))
  | "l1l2" => some (.l1l2 (b 0))
  | "linfty" => some .linfty
  | "ccLinfty" => some .ccLinfty
  | "ccKL" => some (.ccKL (b 0))
  | "ccKLCE" => some (.ccKLCE (b 0))
  | "huber" => some (.huber (b 0))
  | "simplex" => some (.simplex (b 0))
  | "sumc" => some (.sumc (b 0))
  | "scaling" => some .scaling
  | "lincombOp" => some .lincombOp
  | "multiply" => some .multiply
  | "constant" => some .constant
  | "zero" => some .zero
  | "power" => some .power
  | _ => none

/-- Python class name ↦ model program name (the cross-check of the class set: a class of
the module without an entry here is an uncovered obligation). -/
def classTable : List (String × String) :=
  [("ProxOpBoxConstraint", "box"), ("ProximalL2", "l2"),
   ("ProximalConvexConjL2Squared", "ccL2Sq"), ("ProximalL2Squared", "l2Sq"),
   ("ProximalConvexConjL1", "ccL1"), ("ProximalConvexConjL1L2", "ccL1L2"),
   ("ProximalL1", "l1"), ("ProximalL1L2", "l1l2"), ("ProximalLInfty", "linfty"),
   ("ProximalConvexConjLinfty", "ccLinfty"), ("ProximalConvexConjKL", "ccKL"),
   ("ProximalConvexConjKLCrossEntropy", "ccKLCE"), ("ProximalHuber", "huber"),
   ("ProximalSimplex", "simplex"), ("ProximalSum", "sumc"),
   ("ScalingOperator", "scaling"), ("IdentityOperator", "scaling"),
   ("LinCombOperator", "lincombOp"), ("MultiplyOperator", "multiply"),
   ("ConstantOperator", "constant"), ("ZeroOperator", "zero"), ("PowerOperator", "power")]

/-- IEEE-double instantiation of `AuxFns` (round 4: `_abs_pow_ufunc`, gradient operators). -/
def floatAux (n mc : Nat) : AuxFns Float where
  log := Float.log
  isZero := fun a => a == 0.0
  nonzero := fun a => a != 0.0
  allFinite := fun v => (List.range (n * mc)).all (fun i => (v i).isFinite)
  absPow0 := fun a => Float.pow (Float.abs a) 0.0
  ge := fun a b => a >= b
  asg := fun v => if n * mc < 100 then 1.0 * v + 0.0 * v else v

def parseAuxId (name : String) (f : String) : Option AuxId :=
  let b (i : Nat) : Bool := (f.toList.getD i '0') = '1'
  match name with
  | "absPowSqrt" => some .absPowSqrt
  | "absPowSq" => some .absPowSq
  | "absPowGen" => some .absPowGen
  | "gradL1" => some .gradL1
  | "gradL2" => some .gradL2
  | "gradKL" => some (.gradKL (b 0))
  | "gradKLCC" => some (.gradKLCC (b 0))
  | "gradKLCE" => some (.gradKLCE (b 0))
  | "gradKLCECC" => some (.gradKLCECC (b 0))
  | "gradHuber" => some (.gradHuber (b 0))
  | "gradGroupL1" => some .gradGroupL1
  | _ => none

/-- Python class / method name ↦ auxiliary model program (round 4). -/
def auxTable : List (String × String) :=
  [("PointwiseNorm._abs_pow_ufunc", "absPowSqrt|absPowSq|absPowGen"),
   ("L1Gradient", "gradL1"), ("L2Gradient", "gradL2"), ("KLGradient", "gradKL"),
   ("KLCCGradient", "gradKLCC"), ("KLCrossEntropyGradient", "gradKLCE"),
   ("KLCrossEntCCGradient", "gradKLCECC"), ("HuberGradient", "gradHuber"),
   ("GroupL1Gradient", "gradGroupL1"), ("RosenbrockGradient", "rosen")]

/-! ### Complex doubles (round 4): the programs are polymorphic in the scalar type; the
arithmetic-only bodies are executed at `K = CF` and compared with the real code on `cn` /
complex `uniform_discr` spaces. -/

structure CF where
  re : Float
  im : Float

instance : Add CF := ⟨fun a b => ⟨a.re + b.re, a.im + b.im⟩⟩
instance : Sub CF := ⟨fun a b => ⟨a.re - b.re, a.im - b.im⟩⟩
instance : Neg CF := ⟨fun a => ⟨-a.re, -a.im⟩⟩
instance : Mul CF := ⟨fun a b => ⟨a.re * b.re - a.im * b.im, a.re * b.im + a.im * b.re⟩⟩
/-- NumPy's complex division (Smith's algorithm). -/
instance : Div CF := ⟨fun a b =>
  if b.re.abs >= b.im.abs then
    if b.re == 0.0 && b.im == 0.0 then ⟨a.re / b.re.abs, a.im / b.im.abs⟩
    else
      let rat := b.im / b.re
      let scl := 1.0 / (b.re + b.im * rat)
      ⟨(a.re + a.im * rat) * scl, (a.im - a.re * rat) * scl⟩
  else
    let rat := b.re / b.im
    let scl := 1.0 / (b.re * rat + b.im)
    ⟨(a.re * rat + a.im) * scl, (a.im * rat - a.re) * scl⟩⟩
instance : OfNat CF 0 := ⟨⟨0.0, 0.0⟩⟩
instance : OfNat CF 1 := ⟨⟨1.0, 0.0⟩⟩

def cOfF (x : Float) : CF := ⟨x, 0.0⟩
def nanC : CF := ⟨nanF, nanF⟩

/-- The bodies that use ring/field arithmetic only (no `abs`, `max`, `sqrt`, order, norm …):
the ones executed at `K = CF`. -/
def arithOnly : ProxId → Bool
  | .ccL2Sq _ _ | .l2Sq _ _ | .scaling | .lincombOp | .multiply | .constant | .zero => true
  | .box false false => true
  | _ => false

/-- `Fns CF`: only the constants are used by the `arithOnly` bodies (the driver refuses every
other id at `CF`); the remaining fields act on the real part. -/
def complexFns : Fns CF where
  abs := fun a => cOfF (Float.sqrt (a.re * a.re + a.im * a.im))
  sign := fun a => a
  sqrt := fun a => cOfF (Float.sqrt a.re)
  square := fun a => a * a
  exp := fun a => cOfF (Float.exp a.re)
  lambertw := fun a => a
  max := fun a b => if a.re >= b.re then a else b
  min := fun a b => if a.re <= b.re then a else b
  pow := fun a => a * a
  lt := fun a b => a.re < b.re
  le := fun a b => a.re <= b.re
  truthy := fun a => a.re != 0.0 || a.im != 0.0
  ofBool := fun b => if b then cOfF 1.0 else cOfF 0.0
  inf := cOfF (1.0 / 0.0)
  half := cOfF 0.5
  two := cOfF 2.0
  four := cOfF 4.0
  norm := fun _ => nanC
  sum := fun _ => nanC
  invSize := nanC
  pwnorm := fun v => v
  pdiv := fun a _ => a
  sortAsc := fun v => v
  rev := fun v => v
  cumAvg := fun _ v => v
  lastNonneg := fun _ => nanC
  toIdx := fun _ => 0
  argsortDesc := fun v => v
  take := fun v _ => v
  wtau := fun _ v _ => v
  bidx := fun k => k

end OdlModel.ProxFloat