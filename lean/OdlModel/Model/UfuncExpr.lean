/-
Syntax of the `(f, f')` table of `odl/ufunc_ops/ufunc_ops.py::derivative_factory` (C06).
Every branch there returns `MultiplyOperator(<expr>)`; `<expr>` is point-wise in
`point`, `self(point)` and other ufunc operators applied to `point`.  The table itself is
generated (`Gen/UfuncDeriv.lean`); its meaning over `ℝ` and the proof that every entry is the
derivative of its function are in `Props/C06.lean`.
-/
namespace OdlModel.UfuncDeriv

/-- The ufuncs that have a derivative branch. -/
inductive Fn
  | sin | cos | tan | sqrt | square | log | exp | reciprocal | sinh | cosh
  deriving DecidableEq, Repr

/-- Multiplicand expressions. `pt` = `point`, `self` = `self(point)`,
`app g` = `g(self.domain)(point)`. -/
inductive Expr
  | pt
  | self
  | app (g : Fn)
  | const (num : Int) (den : Nat)
  | neg (e : Expr)
  | add (a b : Expr)
  | mul (a b : Expr)
  | div (a b : Expr)
  | pow (e : Expr) (n : Nat)
  | comp (g : Fn) (e : Expr)      -- `g(self.domain) * <functional>` = composition `g ∘ e` (gradient table)
  deriving DecidableEq, Repr

/-- Executable reading at `Float` (the driver compares it with the values computed by the real
code); the reading over `ℝ` used by the theorems is `Fn.real` / `Expr.eval` in
`Lemmas/UfuncDeriv.lean`, clause by clause the same. -/
def Fn.float : Fn → Float → Float
  | .sin => Float.sin | .cos => Float.cos | .tan => Float.tan | .sqrt => Float.sqrt
  | .square => fun t => t * t | .log => Float.log | .exp => Float.exp
  | .reciprocal => fun t => 1.0 / t | .sinh => Float.sinh | .cosh => Float.cosh

def Expr.evalF (f : Fn) (t : Float) : Expr → Float
  | .pt => t
  | .self => f.float t
  | .app g => g.float t
  | .const n d => Float.ofInt n / Float.ofNat d
  | .neg e => - e.evalF f t
  | .add a b => a.evalF f t + b.evalF f t
  | .mul a b => a.evalF f t * b.evalF f t
  | .div a b => a.evalF f t / b.evalF f t
  | .pow e n => (List.replicate n (e.evalF f t)).foldl (· * ·) 1.0
  | .comp g e => g.float (e.evalF f t)

def Fn.ofName? : String → Option Fn
  | "sin" => some .sin | "cos" => some .cos | "tan" => some .tan | "sqrt" => some .sqrt
  | "square" => some .square | "log" => some .log | "exp" => some .exp
  | "reciprocal" => some .reciprocal | "sinh" => some .sinh | "cosh" => some .cosh
  | _ => none

end OdlModel.UfuncDeriv
