/-
Syntax of the `(f, f')` table of `odl/ufunc_ops/ufunc_ops.py::derivative_factory` (C06).
Every branch there returns `MultiplyOperator(<expr>)`; `<expr>` is point-wise in
`point`, `self(point)` and other ufunc operators applied to `point`.  The table itself is
generated (`Gen/UfuncDeriv.lean`); its meaning over `ℝ` and the proof that every entry is the
derivative of its function are in `Props/C06.lean`.
-/
namespace OdlModel.UfuncDeriv

/-- The ufuncs that have a derivative branch. -/
inductive Fn
  | sin | cos | tan | sqrt | square | log | exp | reciprocal | sinh | cosh
  deriving DecidableEq, Repr

/-- Multiplicand expressions. `pt` = `point`, `self` = `self(point)`,
`app g` = `g(self.domain)(point)`. -/
inductive Expr
  | pt
  | self
  | app (g : Fn)
  | const (num : Int) (den : Nat)
  | neg (e : Expr)
  | add (a b : Expr)
  | mul (a b : Expr)
  | div (a b : Expr)
  | pow (e : Expr) (n : Nat)
  deriving DecidableEq, Repr

end OdlModel.UfuncDeriv
