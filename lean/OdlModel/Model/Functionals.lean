/-
Model of `odl/solvers/functional/functional.py` and the rational built-ins of
`default_functionals.py` (C08, C09): values, gradients, `grad_lipschitz` propagation and
`convex_conj` of functional *expressions*, exactly as the constructors compute them.

The model is generic in the vector type `V` through a record of space operations
(`VecOps`): the driver instantiates it with weighted lists over `Rat` (`listOps w`, the
weighted inner product of `rn`, weighted `rn`, `uniform_discr`), the theorems instantiate it
with an arbitrary real inner-product space (calculus, C09) or reason about it through the
algebraic laws only (Fenchel–Young, C08).  Core Lean only.
-/
namespace OdlModel.Functionals

/-- Coordinate-wise built-ins (their values need `|·|`, `max`, comparisons per entry). -/
inductive Builtin (K : Type)
  | l1                 -- L1Norm / LpNorm(exponent=1): `x.ufuncs.absolute().inner(one)`
  | indLinf            -- IndicatorLpUnitBall(exponent=inf): `max|x_i| > 1 ? inf : 0`
  | huber (γ : K)      -- Huber(space, gamma)
  deriving Repr

/-- The operations of the functional's domain used by `functional.py`. `inner` is the
space's OWN inner product (weighted), `mul` is the pointwise product. -/
structure VecOps (V K : Type) where
  add : V → V → V
  sub : V → V → V
  smul : K → V → V
  mul : V → V → V
  inner : V → V → K
  zero : V
  isZero : V → Bool
  cval : Builtin K → V → K
  cdom : Builtin K → V → Bool
  cgrad : Builtin K → V → V

/-- `grad_lipschitz` as a float: `nan` (unknown), `inf`, or the finite number
`r + Σ c·√q` over `roots = [(c, q), …]` (norms of linear terms enter as `√⟨u,u⟩`). -/
inductive Lip (K : Type)
  | nan
  | inf
  | fin (r : K) (roots : List (K × K))
  deriving Repr

/-- Functional expressions: the classes of `functional.py` over built-in leaves. -/
inductive Fn (V K : Type)
  | coord (b : Builtin K)
  | l2sq                                        -- L2NormSquared
  | const (c : K)                               -- ConstantFunctional / ZeroFunctional
  | indZero (c : K)                             -- IndicatorZero(space, constant=c)
  | lin (b : V) (c : K)                         -- QuadraticForm(operator=None, vector=b, constant=c)
  | quad (A At Ainv AinvT : V → V) (hasB : Bool) (b : V) (c : K)
                                                -- QuadraticForm(operator=A, vector=b|None, constant=c)
  | lscal (s : K) (f : Fn V K)                  -- FunctionalLeftScalarMult:  s * f
  | rscal (f : Fn V K) (s : K)                  -- FunctionalRightScalarMult: f(s x)
  | rvec (f : Fn V K) (v vinv : V)              -- FunctionalRightVectorMult: f(v * x)  (vinv = 1/v)
  | sum (f g : Fn V K)                          -- FunctionalSum
  | ssum (f : Fn V K) (c : K)                   -- FunctionalScalarSum
  | trans (f : Fn V K) (t : V)                  -- FunctionalTranslation: f(x - t)
  | qp (f : Fn V K) (a : K) (hasU : Bool) (u : V) (c : K)
                                                -- FunctionalQuadraticPerturb: f + a<x,x> + <x,u> + c
  | prod (f g : Fn V K)                         -- FunctionalProduct
  | quot (f g : Fn V K)                         -- FunctionalQuotient
  | comp (f : Fn V K) (op : V → V) (dAdj : V → V → V) (opLin : Bool)
                                                -- FunctionalComp: f(op x); dAdj x y = op.derivative(x).adjoint(y);
                                                -- opLin = op.is_linear
  | breg (f : Fn V K) (p q : V)                 -- BregmanDistance(f, point=p, subgrad=q)
  | infconv (f g : Fn V K)                      -- InfimalConvolution (no `_call`)
  | menv (f : Fn V K) (P : V → V) (σ : K)       -- MoreauEnvelope(f, σ); P = f.proximal(σ) (no `_call`)
  | dconj (f : Fn V K)                          -- FunctionalDefaultConvexConjugate(f) (no `_call`)

section
variable {V K : Type} [Add K] [Mul K] [Sub K] [Neg K] [Div K] [OfNat K 0] [OfNat K 1]
  [LT K] [DecidableLT K] [LE K] [DecidableLE K] [DecidableEq K]

def absK (a : K) : K := if a < 0 then -a else a
def two : K := 1 + 1

namespace Lip
def add : Lip K → Lip K → Lip K
  | nan, _ => nan
  | _, nan => nan
  | inf, _ => inf
  | _, inf => inf
  | fin r a, fin s b => fin (r + s) (a ++ b)

/-- `m * L` for a non-negative float `m` (IEEE: `0 * inf = nan`). -/
def scale (m : K) : Lip K → Lip K
  | nan => nan
  | inf => if m = 0 then nan else inf
  | fin r a => fin (m * r) (a.map fun cq => (m * cq.1, cq.2))

def ofK (r : K) : Lip K := fin r []
def norm (q : K) : Lip K := fin 0 [(1, q)]
end Lip

variable (o : VecOps V K)

/-- Can the expression be evaluated (`_call` exists)? -/
def Fn.evaluable : Fn V K → Bool
  | .infconv _ _ => false
  | .menv _ _ _ => false
  | .dconj _ => false
  | .lscal _ f | .rscal f _ | .rvec f _ _ | .ssum f _ | .trans f _ | .qp f _ _ _ _
  | .comp f _ _ _ | .breg f _ _ => f.evaluable
  | .sum f g | .prod f g | .quot f g => f.evaluable && g.evaluable
  | _ => true

/-- The finite part of `f(x)` exactly as `_call` computes it (`+∞` is tracked by `dom`). -/
def Fn.value : Fn V K → V → K
  | .coord b, x => o.cval b x
  | .l2sq, x => o.inner x x
  | .const c, _ => c
  | .indZero c, _ => c
  | .lin b c, x => o.inner b x + c
  | .quad A _ _ _ hasB b c, x =>
      if hasB then o.inner x (o.add (A x) b) + c else o.inner x (A x) + c
  | .lscal s f, x => s * f.value x
  | .rscal f s, x => f.value (o.smul s x)
  | .rvec f v _, x => f.value (o.mul v x)
  | .sum f g, x => f.value x + g.value x
  | .ssum f c, x => f.value x + c
  | .trans f t, x => f.value (o.sub x t)
  | .qp f a _ u c, x => f.value x + a * o.inner x x + o.inner x u + c
  | .prod f g, x => f.value x * g.value x
  | .quot f g, x => f.value x / g.value x
  | .comp f op _ _, x => f.value (op x)
  | .breg f p q, x =>
      f.value x + 0 * o.inner x x + o.inner x (o.smul (-1) q) + (-(f.value p) + o.inner q p)
  | .infconv _ _, _ => 0
  | .menv _ _ _, _ => 0
  | .dconj _, _ => 0

/-- `f(x) < +∞` (indicator constraints satisfied). -/
def Fn.dom : Fn V K → V → Bool
  | .coord b, x => o.cdom b x
  | .indZero _, x => o.isZero x
  | .lscal _ f, x => f.dom x
  | .rscal f s, x => f.dom (o.smul s x)
  | .rvec f v _, x => f.dom (o.mul v x)
  | .sum f g, x => f.dom x && g.dom x
  | .ssum f _, x => f.dom x
  | .trans f t, x => f.dom (o.sub x t)
  | .qp f _ _ _ _, x => f.dom x
  | .prod f g, x => f.dom x && g.dom x
  | .quot f g, x => f.dom x && g.dom x
  | .comp f op _ _, x => f.dom (op x)
  | .breg f _ _, x => f.dom x
  | _, _ => true

/-- Does the class implement `gradient`? -/
def Fn.hasGrad : Fn V K → Bool
  | .coord .indLinf => false
  | .indZero _ => false
  | .infconv _ _ => false
  | .dconj _ => false
  | .menv _ _ _ => true
  | .lscal _ f | .rscal f _ | .rvec f _ _ | .ssum f _ | .trans f _ | .qp f _ _ _ _
  | .comp f _ _ _ | .breg f _ _ => f.hasGrad
  | .sum f g | .prod f g | .quot f g => f.hasGrad && g.hasGrad
  | _ => true

/-- `f.gradient(x)` exactly as the `gradient` properties build it. -/
def Fn.grad : Fn V K → V → V
  | .coord b, x => o.cgrad b x
  | .l2sq, x => o.smul two x
  | .const _, _ => o.zero
  | .indZero _, _ => o.zero
  | .lin b _, _ => b
  | .quad A At _ _ hasB b _, x =>
      if hasB then o.add (o.add (A x) (At x)) b else o.add (A x) (At x)
  | .lscal s f, x => o.smul s (f.grad x)
  | .rscal f s, x => o.smul s (f.grad (o.smul s x))
  | .rvec f v _, x => o.mul v (f.grad (o.mul v x))
  | .sum f g, x => o.add (f.grad x) (g.grad x)
  | .ssum f _, x => o.add (f.grad x) o.zero
  | .trans f t, x => f.grad (o.sub x t)
  | .qp f a _ u _, x => o.add (o.add (f.grad x) (o.smul (two * a) x)) u
  | .prod f g, x => o.add (o.smul (g.value o x) (f.grad x)) (o.smul (f.value o x) (g.grad x))
  | .quot f g, x =>
      o.add (o.smul (1 / g.value o x) (f.grad x))
            (o.smul (-(f.value o x) / (g.value o x * g.value o x)) (g.grad x))
  | .comp f op dAdj _, x => dAdj x (f.grad (op x))
  | .breg f _ q, x => o.sub (f.grad x) q
  | .infconv _ _, _ => o.zero
  | .menv _ P σ, x => o.sub (o.smul (1 / σ) x) (o.smul (1 / σ) (P x))
  | .dconj _, _ => o.zero

/-- `f.derivative(x)(d) = f.gradient(x).T(d) = d.inner(f.gradient(x))`. -/
def Fn.deriv (f : Fn V K) (x d : V) : K := o.inner d (f.grad o x)

/-- `grad_lipschitz` exactly as each constructor passes it to `Functional.__init__`. -/
def Fn.lip : Fn V K → Lip K
  | .coord (.huber γ) => if 0 < γ then Lip.ofK (1 / γ) else Lip.inf
  | .coord _ => Lip.nan
  | .l2sq => Lip.ofK two
  | .const _ => Lip.ofK 0
  | .indZero _ => Lip.nan
  | .lin _ _ => Lip.nan
  | .quad .. => Lip.nan
  | .lscal s f => Lip.scale (absK s) f.lip
  | .rscal f s => Lip.scale (absK s * absK s) f.lip
  | .rvec .. => Lip.nan
  | .sum f g => Lip.add f.lip g.lip
  | .ssum f _ => Lip.add f.lip (Lip.ofK 0)
  | .trans f _ => f.lip
  | .qp f a hasU u _ =>
      Lip.add (if hasU then Lip.add f.lip (Lip.norm (o.inner u u)) else f.lip)
        (Lip.ofK (two * absK a))
  | .prod .. => Lip.nan
  | .quot .. => Lip.nan
  | .comp .. => Lip.nan
  | .breg f _ q => Lip.add f.lip (Lip.norm (o.inner q q))
  | .infconv .. => Lip.nan
  | .menv .. => Lip.nan
  | .dconj .. => Lip.nan

/-- `is_linear` flag as the constructors compute it (decides `__mul__`'s branch). -/
def Fn.isLinear : Fn V K → Bool
  | .const c => c = 0
  | .lin _ c => c = 0
  | .lscal _ f => f.isLinear
  | .rscal f _ => f.isLinear
  | .sum f g => f.isLinear && g.isLinear
  | .ssum f c => f.isLinear && (c = 0)
  | .qp f a _ _ c => f.isLinear && (a = 0) && (c = 0)
  | .rvec f _ _ => f.isLinear            -- FunctionalRightVectorMult: linear=func.is_linear
  | .comp f _ _ opLin => f.isLinear && opLin   -- FunctionalComp: func.is_linear and op.is_linear
  | .dconj f => f.isLinear               -- FunctionalDefaultConvexConjugate: linear=func.is_linear
  | _ => false

/-- `f.translated(t)` = `FunctionalTranslation(f, t)`: the constructor MERGES nested
translations (`functional = f.functional`, `translation = f.translation + t`). -/
def Fn.translated (f : Fn V K) (t : V) : Fn V K :=
  match f with
  | .trans g t0 => .trans g (o.add t0 t)
  | _ => .trans f t

/-- `FunctionalLeftScalarMult(f, s)`: `OperatorLeftScalarMult.__init__` MERGES a nested left
scalar multiplication (`scalar = s * f.scalar`, `operator = f.operator`). -/
def Fn.mkLscal (s : K) (f : Fn V K) : Fn V K :=
  match f with
  | .lscal s0 g => .lscal (s * s0) g
  | _ => .lscal s f

/-- `FunctionalRightScalarMult(f, s)`: `OperatorRightScalarMult.__init__` merges likewise. -/
def Fn.mkRscal (f : Fn V K) (s : K) : Fn V K :=
  match f with
  | .rscal g s0 => .rscal g (s * s0)
  | _ => .rscal f s

/-- `f * s` as `Functional.__mul__` dispatches for a scalar `s ≠ 0`. -/
def Fn.mulScalar (f : Fn V K) (s : K) : Fn V K :=
  if f.isLinear then Fn.mkLscal s f else Fn.mkRscal f s

/-- Class skeleton of an expression (constructor names in prefix order), compared by the C08
harness with the class tree of the live `f.convex_conj`. -/
def Fn.skel : Fn V K → List String
  | .coord .l1 => ["l1"]
  | .coord .indLinf => ["indlinf"]
  | .coord (.huber _) => ["huber"]
  | .l2sq => ["l2sq"]
  | .const _ => ["const"]
  | .indZero _ => ["indzero"]
  | .lin _ _ => ["lin"]
  | .quad .. => ["quad"]
  | .lscal _ f => "lscal" :: f.skel
  | .rscal f _ => "rscal" :: f.skel
  | .rvec f _ _ => "rvec" :: f.skel
  | .sum f g => "sum" :: (f.skel ++ g.skel)
  | .ssum f _ => "ssum" :: f.skel
  | .trans f _ => "trans" :: f.skel
  | .qp f _ _ _ _ => "qp" :: f.skel
  | .prod f g => "prod" :: (f.skel ++ g.skel)
  | .quot f g => "quot" :: (f.skel ++ g.skel)
  | .comp f _ _ _ => "comp" :: f.skel
  | .breg f _ _ => "breg" :: f.skel
  | .infconv f g => "infconv" :: (f.skel ++ g.skel)
  | .menv f _ _ => "menv" :: f.skel
  | .dconj f => "dconj" :: f.skel

/-- `f.convex_conj` as the classes build it; `none` = the property raises (`ValueError` for a
non-positive left scalar); classes without an explicit rule get the default wrapper `dconj`
(`FunctionalDefaultConvexConjugate`, not evaluable, whose own conjugate is the original). -/
def Fn.conj : Fn V K → Option (Fn V K)
  | .coord .l1 => some (.coord .indLinf)
  | .coord .indLinf => some (.coord .l1)
  | .coord (.huber γ) => some (.qp (.coord .indLinf) (γ / two) false o.zero 0)
  | .l2sq => some (.lscal (1 / (two * two)) .l2sq)
  | .const c => some (.indZero (-c))
  | .indZero c => some (.const (-c))
  | .lin b c => some (Fn.translated o (.indZero (-c)) b)
  | .quad A At Ainv AinvT hasB b c =>
      -- operator `0.25 * A.inverse` (its inverse: `A.inverse.inverse * 4`), vector
      -- `0.25 * (-Ainv.adjoint(b) - Ainv(b))`, constant `0.25 * <b, Ainv b> - c`
      let q : K := 1 / (two * two)
      let A' : V → V := fun x => o.smul q (Ainv x)
      let At' : V → V := fun x => o.smul q (AinvT x)
      let Ainv' : V → V := fun x => A (o.smul (two * two) x)
      let AinvT' : V → V := fun x => o.smul (two * two) (At x)
      if hasB then
        some (.quad A' At' Ainv' AinvT' true
          (o.smul q (o.sub (o.smul (-1) (AinvT b)) (Ainv b))) (q * o.inner b (Ainv b) - c))
      else some (.quad A' At' Ainv' AinvT' false o.zero (-c))
  | .lscal s f =>
      if s ≤ 0 then none else
      match f.conj with
      | none => none
      | some g => some (Fn.mulScalar (Fn.mkLscal s g) (1 / s))
  | .rscal f s => match f.conj with
      | none => none
      | some g => some (Fn.mulScalar g (1 / s))
  | .rvec f v vinv => match f.conj with
      | none => none
      | some g => some (.rvec g vinv v)
  | .ssum f c => match f.conj with
      | none => none
      | some g => some (.ssum g (-c))
  | .trans f t => match f.conj with
      | none => none
      | some g => some (.qp g 0 true t 0)
  | .qp f a hasU u c =>
      if a = 0 then
        match f.conj with
        | none => none
        | some g => if c = 0 then some (g.translated o u) else some (.ssum (g.translated o u) (-c))
      else some (.dconj (.qp f a hasU u c))
  | .breg f p q =>
      match f.conj with
      | none => none
      | some g =>
        let c := -(f.value o p) + o.inner q p
        let u := o.smul (-1) q
        if c = 0 then some (g.translated o u) else some (.ssum (g.translated o u) (-c))
  | .infconv f g => match f.conj, g.conj with
      | some f', some g' => some (.sum f' g')
      | _, _ => none
  | .dconj f => some f
  | f => some (.dconj f)

end

/-! ### Weighted lists: the concrete spaces (`rn`, weighted `rn`, `uniform_discr`). -/
section
variable {K : Type} [Add K] [Mul K] [Sub K] [Neg K] [Div K] [OfNat K 0] [OfNat K 1]
  [LT K] [DecidableLT K] [LE K] [DecidableLE K] [DecidableEq K]

/-- `⟨x, y⟩_w = Σ wᵢ xᵢ yᵢ`. -/
def innerW : List K → List K → List K → K
  | w :: ws, x :: xs, y :: ys => w * x * y + innerW ws xs ys
  | _, _, _ => 0

/-- `‖x‖₁ = ⟨|x|, 1⟩_w = Σ wᵢ |xᵢ|`. -/
def l1W : List K → List K → K
  | w :: ws, x :: xs => w * absK x + l1W ws xs
  | _, _ => 0

def signK (a : K) : K := if 0 < a then 1 else if a < 0 then -1 else 0

/-- `max |yᵢ| ≤ 1`. -/
def inLinfBall : List K → Bool
  | [] => true
  | y :: ys => decide (absK y ≤ 1) && inLinfBall ys

/-- One entry of `Huber._call`: `t²/(2γ)`, overwritten by `|t| − γ/2` where `|t| ≥ γ`;
`|t|` for `γ = 0`. -/
def huberVal1 (γ t : K) : K :=
  if 0 < γ then
    (if γ ≤ absK t then absK t - γ / two else absK t * absK t * (1 / (two * γ)))
  else absK t

/-- One entry of `Huber.gradient`: `t/γ`, overwritten by `t/|t|` where `|t| ≥ γ`. -/
def huberGrad1 (γ t : K) : K := if γ ≤ absK t then t / absK t else t / γ

def huberW (γ : K) : List K → List K → K
  | w :: ws, x :: xs => w * huberVal1 γ x + huberW γ ws xs
  | _, _ => 0

def listOps (w : List K) : VecOps (List K) K where
  add := List.zipWith (· + ·)
  sub := List.zipWith (· - ·)
  smul s := List.map (s * ·)
  mul := List.zipWith (· * ·)
  inner := innerW w
  zero := w.map fun _ => 0
  isZero x := x.all (· = 0)
  cval
    | .l1, x => l1W w x
    | .indLinf, _ => 0
    | .huber γ, x => huberW γ w x
  cdom
    | .indLinf, x => inLinfBall x
    | _, _ => true
  cgrad
    | .l1, x => x.map signK
    | .indLinf, x => x.map fun _ => 0
    | .huber γ, x => x.map (huberGrad1 γ)

/-- Matrix–vector product (rows). -/
def matVec (M : List (List K)) (x : List K) : List K :=
  M.map fun row => (List.zipWith (· * ·) row x).foldr (· + ·) 0

end
end OdlModel.Functionals
