/-
Model of the array logic of the sampling wrapper of `odl/discr/discr_utils.py` (C15):
`sampling_function` (`_default_oop`, `_default_ip`), `_make_dual_use_func.dual_use_func`
and `point_collocation`, for scalar-valued callables.

The user's callable is represented by what it computes on the input ODL hands to it: the array
`r : Arr V` it returns (out-of-place) or assigns with `out[:] = r` (in place).  Its shape is
whatever NumPy broadcasting of the used coordinates gives: the full output shape, a shape with
unit axes (partial-coordinate functions), `()` (constants) or `(1, n)` (1d functions written
in terms of `x` instead of `x[0]`).

The input ODL hands to the callable is normalised first (a 1d mesh grid and, since the repair of
C15-F9, a flat `(n,)` point array in 1d become `(1, n)`); that step is not modelled — `r` is
recorded inside the real call, after it.

NumPy's part is modelled concretely on shapes `List Nat` and index functions:
`broadcastTo` (`np.broadcast_to`), `reshapeC` (`ndarray.reshape`, C order), `assignTo`
(`out[:] = r`: leading unit axes beyond the rank of `out` are dropped, then broadcasting),
`squeeze`.  ODL's part is `oopPost` (the out-of-place post-processing of `dual_use_func`),
`defaultIp`, `defaultOop` and the dispatch `sample`.
-/
namespace OdlModel.Sampling

structure Arr (V : Type) where
  shape : List Nat
  get : List Nat → V

def size (s : List Nat) : Nat := s.foldr (· * ·) 1

/-- C-order flat index of a multi-index. -/
def ravel : List Nat → List Nat → Nat
  | _ :: ns, i :: is => i * size ns + ravel ns is
  | _, _ => 0

/-- Multi-index of a C-order flat index. -/
def unravel : List Nat → Nat → List Nat
  | [], _ => []
  | n :: ns, k => (k / size ns) % n :: unravel ns (k % size ns)

/-- Index into an array of shape `src` that is broadcast (right-aligned) to a target whose
index is `idx`: axes of length 1 are read at 0. -/
def bcastIndex (src idx : List Nat) : List Nat :=
  List.zipWith (fun n i => if n = 1 then 0 else i) src (idx.drop (idx.length - src.length))

def broadcastable (src tgt : List Nat) : Bool :=
  decide (src.length ≤ tgt.length) &&
    (List.zipWith (fun a b => a == 1 || a == b) src (tgt.drop (tgt.length - src.length))).all id

section
variable {V : Type}

/-- `np.broadcast_to(a, tgt)`. -/
def broadcastTo (a : Arr V) (tgt : List Nat) : Option (Arr V) :=
  if broadcastable a.shape tgt then some ⟨tgt, fun idx => a.get (bcastIndex a.shape idx)⟩
  else none

/-- `a.reshape(tgt)` (C order); `none` = `ValueError` (sizes differ). -/
def reshapeC (a : Arr V) (tgt : List Nat) : Option (Arr V) :=
  if size a.shape ≠ size tgt then none
  else if a.shape = tgt then some a
  else some ⟨tgt, fun idx => a.get (unravel a.shape (ravel tgt idx))⟩

/-- Number of leading unit axes NumPy drops from the right-hand side of an assignment into an
array of rank `rank`. -/
def leadDrop : List Nat → Nat → Nat
  | 1 :: ns, rank => if ns.length + 1 > rank then leadDrop ns rank + 1 else 0
  | _, _ => 0

/-- `out[:] = a` / `out[...] = a` for `out` of shape `outShape`: the array `out` holds
afterwards; `none` = `ValueError` (not broadcastable). -/
def assignTo (outShape : List Nat) (a : Arr V) : Option (Arr V) :=
  let k := leadDrop a.shape outShape.length
  broadcastTo ⟨a.shape.drop k, fun idx => a.get (List.replicate k 0 ++ idx)⟩ outShape

def unsqueezeIdx : List Nat → List Nat → List Nat
  | [], _ => []
  | n :: ns, idx =>
      if n = 1 then 0 :: unsqueezeIdx ns idx
      else match idx with
        | i :: is => i :: unsqueezeIdx ns is
        | [] => 0 :: unsqueezeIdx ns []

/-- `np.squeeze(a)`. -/
def squeeze (a : Arr V) : Arr V :=
  ⟨a.shape.filter (· ≠ 1), fun idx => a.get (unsqueezeIdx a.shape idx)⟩

/-! ### ODL's part -/

inductive CallKind | oopOnly | dual | ipOnly
  deriving Repr, DecidableEq

inductive InputKind | mesh | array | point
  deriving Repr, DecidableEq

/-- `_func_out_type`: `(has_out, out_optional)` ↦ which variants the callable provides. -/
def callKind (hasOut outOptional : Bool) : CallKind :=
  if !hasOut then .oopOnly else if outOptional then .dual else .ipOnly

/-- Does the wrapper pass an `out` array to the USER's function?  (`oopOnly`: never —
`func_ip = partial(_default_ip, func)` calls `func(x)` and assigns; `ipOnly`: always —
`func_oop = partial(_default_oop, func)` allocates `out` and calls `func(x, out=out)`.)
This is the table `sample` below follows; it is compared with the real wrapper through
instrumented callables. -/
def userGetsOut : CallKind → Bool → Bool
  | .oopOnly, _ => false
  | .dual, outGiven => outGiven
  | .ipOnly, _ => true

/-- Out-of-place post-processing in `dual_use_func` (`s` = `scalar_out_shape`; for a single
point `scalar_in` holds and `out_shape = ()`):
`if scalar_in: out = np.squeeze(out)`,
`elif ndim == 1 and out.shape == (1,) + out_shape: out = out.reshape(out_shape)`,
`if out_shape != () and out.shape != out_shape: out = np.broadcast_to(out, out_shape)`. -/
def oopPost (d : Nat) (inp : InputKind) (s : List Nat) (r : Arr V) : Option (Arr V) :=
  let outShape := if inp = .point then [] else s
  let r1 : Option (Arr V) :=
    if inp = .point then some (squeeze r)
    else if d = 1 ∧ r.shape = 1 :: outShape then reshapeC r outShape
    else some r
  r1.bind fun r1 =>
    if outShape ≠ [] ∧ r1.shape ≠ outShape then broadcastTo r1 outShape else some r1

/-- `scalar = out.ravel()[0].item()` for a single point. -/
def scalarOut (r : Arr V) : Arr V := ⟨[], fun _ => r.get (r.shape.map fun _ => 0)⟩

/-- `_default_ip`: `result = func_oop(x)`; `result.reshape(out.shape)` if that works, else the
broadcasting assignment `out[:] = result`. -/
def defaultIp (outShape : List Nat) (r : Arr V) : Option (Arr V) :=
  match reshapeC r outShape with
  | some a => some a
  | none => assignTo outShape r

/-- `_default_oop`: `out = np.empty(val_shape + scalar_out_shape)`; `func_ip(x, out=out)`. -/
def defaultOop (s : List Nat) (r : Arr V) : Option (Arr V) := assignTo s r

/-- `dual_use_func(x, out)` / `point_collocation(func, x, out)` for a scalar-valued callable
of kind `k` whose code computes the array `r` on the input; `s` is ODL's `scalar_out_shape`
(mesh: the broadcast shape of the mesh; point array `(d, N)`: `[N]`; single point: `[1]`).
In-place evaluation at a single point is not modelled (`none`). -/
def sample (k : CallKind) (outGiven : Bool) (d : Nat) (inp : InputKind) (s : List Nat)
    (r : Arr V) : Option (Arr V) :=
  if outGiven then
    if inp = .point then none
    else match k with
      | .oopOnly => defaultIp s r     -- func_ip = partial(_default_ip, func)
      | _ => assignTo s r             -- the user's `out[:] = r`
  else
    let pre : Option (Arr V) := match k with
      | .ipOnly => defaultOop s r     -- func_oop = partial(_default_oop, func)
      | _ => some r
    (pre.bind (oopPost d inp s)).map fun a => if inp = .point then scalarOut a else a

end

end OdlModel.Sampling
