/-
Model of `odl/discr/partition.py` (`RectPartition`, `uniform_partition*`,
`nonuniform_partition`), the parts of `odl/discr/grid.py` (`RectGrid.__init__` checks,
`__getitem__`, `insert`, `squeeze`, `stride`, `uniform_grid_fromintv`),
`odl/set/domain.py` (`IntervalProd.__init__` checks, `__getitem__`, `insert`) and
`odl/util/normalize.py` (`normalized_index_expression`, `normalized_nodes_on_bdry`) that
they use (C14).

A 1-d partition is `⟨n, c, lo, hi⟩`: `n` grid points `c 0 < … < c (n-1)` inside `[lo, hi]`.
Coordinate vectors are functional arrays `Nat → Rat` (the driver reads lists through
`getD`); an n-d partition is the list of its axes (the code keeps one coordinate vector and
one `min_pt/max_pt` entry per axis and never mixes axes).  Every finite double is a
rational, so `Rat` covers all finite float inputs; rounding is outside the model.

The model follows the code as it is, statement by statement where order matters
(assignment order into `bdry`/`csize`, the `start == n` rejection, the double wrap of
negative integers, `np.isclose`/`np.allclose` tolerances as parameters `Tol`).
`none` = the code raises.
-/
namespace OdlModel.Partition

/-! ### scalars -/

def rabs (x : Rat) : Rat := if x < 0 then -x else x

/-- Tolerances of `np.isclose(a, b)`: `|a - b| ≤ atol + rtol * |b|`. -/
structure Tol where
  atol : Rat
  rtol : Rat

/-- NumPy's defaults `atol = 1e-8`, `rtol = 1e-5`. -/
def Tol.numpy : Tol := ⟨1 / 100000000, 1 / 100000⟩
/-- Exact comparison (what the theorems use). -/
def Tol.exact : Tol := ⟨0, 0⟩

def isClose (t : Tol) (a b : Rat) : Bool := decide (rabs (a - b) ≤ t.atol + t.rtol * rabs b)

/-- Python's `round(x)` for a float: nearest integer, ties to even. -/
def roundHalfEven (x : Rat) : Int :=
  let f := x.floor
  let r := x - f
  if r < 1 / 2 then f
  else if 1 / 2 < r then f + 1
  else if f % 2 = 0 then f else f + 1

/-! ### one axis -/

structure Part1 where
  n : Nat
  c : Nat → Rat
  lo : Rat
  hi : Rat

def Part1.ofList (l : List Rat) (lo hi : Rat) : Part1 :=
  let a := l.toArray
  ⟨a.size, fun i => a.getD i 0, lo, hi⟩

def Part1.coords (P : Part1) : List Rat := (List.range P.n).map P.c

/-- The checks of `RectGrid.__init__` (non-empty, sorted, no duplicates),
`IntervalProd.__init__` (`max ≥ min`) and `RectPartition.__init__`
(`intv_prod.contains_set(grid)` with `atol = 0`). -/
def Part1.wf (P : Part1) : Bool :=
  decide (1 ≤ P.n) && (List.range (P.n - 1)).all (fun i => decide (P.c i < P.c (i + 1))) &&
  decide (P.lo ≤ P.hi) && decide (P.lo ≤ P.c 0) && decide (P.c (P.n - 1) ≤ P.hi)

def Part1.mk? (P : Part1) : Option Part1 := if P.wf then some P else none

/-- `RectPartition.__init__`: `bdry[1:-1] = (vec[1:] + vec[:-1]) / 2`, then `bdry[0] = min`,
then `bdry[-1] = max` (length `n + 1`). -/
def Part1.bdry (P : Part1) (k : Nat) : Rat :=
  if P.n ≤ k then P.hi
  else if k = 0 then P.lo
  else (P.c k + P.c (k - 1)) / 2

/-- `cell_sizes_vecs`: the extent for a single point (one cell = the whole interval);
otherwise `csize[1:-1] = (c[2:] - c[:-2])/2`, then `csize[0]`, then `csize[-1]`. -/
def Part1.cellSize (P : Part1) (i : Nat) : Rat :=
  if P.n = 1 then P.hi - P.lo
  else if i + 1 = P.n then P.hi - (P.c (P.n - 2) + P.c (P.n - 1)) / 2
  else if i = 0 then (P.c 0 + P.c 1) / 2 - P.lo
  else (P.c (i + 1) - P.c (i - 1)) / 2

/-- OLD variant (before the repair of finding C14-F2, kept to document the sensitivity):
`cell_sizes_vecs` was `[0.0]` on an axis with a single point. -/
def Part1.cellSizeOld (P : Part1) (i : Nat) : Rat :=
  if P.n = 1 then 0 else P.cellSize i

/-- `boundary_cell_fractions`. -/
def Part1.bdryFrac (P : Part1) : Rat × Rat :=
  if P.n = 1 then (1, 1)
  else (1 / 2 + (P.c 0 - P.lo) / (P.c 1 - P.c 0),
        1 / 2 + (P.hi - P.c (P.n - 1)) / (P.c (P.n - 1) - P.c (P.n - 2)))

/-- One side of `nodes_on_bdry_byaxis`: a grid point lies on the boundary iff its distance to it
is `0` or negligible (`≤ rtol * scale`) compared to the adjacent grid stride. -/
def onBdry (rtol dist scale : Rat) : Bool := decide (dist = 0) || decide (dist ≤ rtol * scale)

/-- `nodes_on_bdry_byaxis` (`RectPartition.__init__`): scale = first / last grid stride, the extent
of the set on an axis with one grid point; `rtol = 1e-5` in the code. -/
def Part1.nodesOnBdry (rtol : Rat) (P : Part1) : Bool × Bool :=
  let sl := if 1 < P.n then P.c 1 - P.c 0 else P.hi - P.lo
  let sr := if 1 < P.n then P.c (P.n - 1) - P.c (P.n - 2) else P.hi - P.lo
  (onBdry rtol (P.c 0 - P.lo) sl, onBdry rtol (P.hi - P.c (P.n - 1)) sr)

/-- OLD variant (before the repair of finding C14-F3, kept to document the sensitivity):
`np.isclose(grid.min_pt, set.min_pt)`, i.e. a tolerance relative to the magnitude of the
coordinates plus an absolute one. -/
def Part1.nodesOnBdryOld (t : Tol) (P : Part1) : Bool × Bool :=
  (isClose t (P.c 0) P.lo, isClose t (P.c (P.n - 1)) P.hi)

/-- `RectGrid.is_uniform_byaxis`: `diff.size == 0 or np.allclose(diff, diff[0], atol=…)` with the
tolerance `t` (see `Part1.uniTol` for the one the code uses). -/
def Part1.isUniform (t : Tol) (P : Part1) : Bool :=
  (List.range (P.n - 1)).all fun i => isClose t (P.c (i + 1) - P.c i) (P.c 1 - P.c 0)

/-- The tolerance of `is_uniform` in the code: `rtol` (`1e-5`) relative to the stride plus the
rounding error of the coordinates `atol = 4 * eps * max |v|` (`eps = 2^-52`; the vector is sorted,
so the maximum is attained at an end). -/
def Part1.uniTol (eps rtol : Rat) (P : Part1) : Tol :=
  ⟨4 * eps * (if rabs (P.c 0) < rabs (P.c (P.n - 1)) then rabs (P.c (P.n - 1)) else rabs (P.c 0)), rtol⟩

/-- `cell_sides`: `grid.stride` (= grid extent / (n-1), `0.0` on a length-1 axis, NaN = `none`
on a non-uniform axis), zeros replaced by the extent of the set. -/
def Part1.cellSide (t : Tol) (P : Part1) : Option Rat :=
  if !P.isUniform t then none
  else
    let s : Rat := if 1 < P.n then (P.c (P.n - 1) - P.c 0) / ((P.n : Rat) - 1) else 0
    some (if s = 0 then P.hi - P.lo else s)

/-! ### point location -/

/-- `np.searchsorted(a, v)` (side `'left'`) on `a = f 0 … f (m-1)`: first `k` with `v ≤ f k`,
`m` if there is none.  (Specification of the external call on sorted input.) -/
def searchFrom (f : Nat → Rat) (v : Rat) : Nat → Nat → Nat
  | 0, k => k
  | fuel + 1, k => if v ≤ f k then k else searchFrom f v fuel (k + 1)

def searchLeft (f : Nat → Rat) (m : Nat) (v : Rat) : Nat := searchFrom f v m 0

/-- `index(value)` on one axis, `floating=False`.  `none`: `value` not in the set
(`self.set.element` raises). -/
def Part1.index (P : Part1) (v : Rat) : Option Int :=
  if v < P.lo ∨ P.hi < v then none
  else
    let ind := searchLeft P.bdry (P.n + 1) v
    if P.bdry ind = v ∧ ind ≠ P.n then some ind else some ((ind : Int) - 1)

/-- `index(value, floating=True)` on one axis. -/
def Part1.indexFloat (P : Part1) (v : Rat) : Option Rat :=
  if v < P.lo ∨ P.hi < v then none
  else
    let ind := searchLeft P.bdry (P.n + 1) v
    if P.bdry ind = v then some ind
    else some ((ind : Rat) - (P.bdry ind - v) / (P.bdry ind - P.bdry (ind - 1)))

/-! ### index expressions -/

inductive Idx
  | int (k : Int)
  | slice (start stop step : Option Int)
  | ellipsis
  | list (l : List Int)   -- a list inside a tuple index: NumPy integer-array indexing of that axis
  deriving Repr, DecidableEq

/-- Python `slice(start, stop, step).indices(len)` without the step (`step ≠ 0`). -/
def sliceIndices (start stop : Option Int) (step : Int) (len : Nat) : Int × Int :=
  let L : Int := len
  let lower : Int := if step < 0 then -1 else 0
  let upper : Int := if step < 0 then L - 1 else L
  let clamp (s : Int) : Int := if s < 0 then max (s + L) lower else min s upper
  let st := match start with
    | none => if step < 0 then upper else lower
    | some s => clamp s
  let sp := match stop with
    | none => if step < 0 then lower else upper
    | some s => clamp s
  (st, sp)

/-- Number of elements selected by normalised `(st, sp, step)`. -/
def sliceLen (st sp step : Int) : Nat :=
  if 0 < step then (if st < sp then ((sp - st - 1) / step + 1).toNat else 0)
  else (if sp < st then ((st - sp - 1) / (-step) + 1).toNat else 0)

/-- `partition[slice]` on one axis.  The new limits come from `slice(start, stop, None)`
applied to `bdry[:-1]` / `bdry[1:]` (the step is dropped on purpose in the code), the new
grid from the full slice.  The first test is the "Slices with empty axes" check of
`normalized_index_expression`. -/
def Part1.getSlice (P : Part1) (start stop step : Option Int) : Option Part1 :=
  if (start.isSome && start == stop) || start == some (P.n : Int) then none
  else
    let stp := step.getD 1
    if stp = 0 then none
    else
      let h := sliceIndices start stop 1 P.n
      let h0 := h.1
      let h1 := h.2
      if h1 ≤ h0 then none
      else
        let g := sliceIndices start stop stp P.n
        let m := sliceLen g.1 g.2 stp
        Part1.mk? ⟨m, fun (i : Nat) => P.c (g.1 + (i : Int) * stp).toNat, P.bdry h0.toNat, P.bdry h1.toNat⟩

/-- Integer index with `int_to_slice=True`: `if idx < 0: idx += n`, then `idx < 0 or idx >= n`
raises, then `slice(idx, idx + 1)`. -/
def Part1.getInt (P : Part1) (k : Int) : Option Part1 :=
  let k' := if k < 0 then k + P.n else k
  if k' < 0 ∨ (P.n : Int) ≤ k' then none
  else P.getSlice (some k') (some (k' + 1)) none

/-- OLD variant (before the repair of finding C14-F4): a still-negative index was not rejected,
so `p[-6]` on 4 cells wrapped a second time inside the slice. -/
def Part1.getIntOld (P : Part1) (k : Int) : Option Part1 :=
  let k' := if k < 0 then k + P.n else k
  if (P.n : Int) ≤ k' then none
  else P.getSlice (some k') (some (k' + 1)) none

/-- NumPy integer-array indexing of a length-`n` vector: negatives wrap once, out of range
raises. -/
def wrapIndex (n : Nat) (k : Int) : Option Nat :=
  if 0 ≤ k ∧ k < n then some k.toNat
  else if -(n : Int) ≤ k ∧ k < 0 then some (k + n).toNat
  else none

/-- `partition[[i0, i1, …]]` on the first axis (non-empty list). -/
def Part1.getList (P : Part1) (l : List Int) : Option Part1 := do
  let idx ← l.mapM (wrapIndex P.n)
  let first ← idx.head?
  let last ← idx.getLast?
  let a := idx.toArray
  Part1.mk? ⟨a.size, fun i => P.c (a.getD i 0), P.bdry first, P.bdry (last + 1)⟩

/-! ### n-d partitions -/

abbrev Part := List Part1

/-- `normalized_index_expression` up to the per-axis processing: fill with an ellipsis,
expand the ellipsis, reject two ellipses and too many indices. -/
def normIdx (idx : List Idx) (ndim : Nat) : Option (List Idx) :=
  let idx := if idx.length < ndim ∧ ¬ idx.contains .ellipsis then idx ++ [.ellipsis] else idx
  let cnt := idx.count .ellipsis
  if 1 < cnt then none
  else
    let idx :=
      if cnt = 1 then
        let e := idx.idxOf .ellipsis
        idx.take e ++ List.replicate (ndim + 1 - idx.length) (.slice none none none) ++
          idx.drop (e + 1)
      else idx
    if ndim < idx.length then none else some idx

def getAxis (P : Part1) : Idx → Option Part1
  | .int k => P.getInt k
  | .slice a b s => P.getSlice a b s
  | .ellipsis => none
  | .list l => P.getList l

/-- `partition[indices]` for a tuple / single index. -/
def getItem (P : Part) (idx : List Idx) : Option Part := do
  let idx ← normIdx idx P.length
  if idx.length ≠ P.length then none
  else (List.zip P idx).mapM fun (p, i) => getAxis p i

/-- `partition[list]`: the list indexes the first axis, an empty list gives the 0-d
partition. -/
def getItemList (P : Part) (l : List Int) : Option Part :=
  match l, P with
  | [], _ => some []
  | _, [] => none
  | l, p :: rest => do
      let q ← p.getList l
      some (q :: rest)

/-- `insert(index, *parts)` after the range check: the code inserts the first part and then
recursively the remaining ones behind it. -/
def insertAt (P : Part) (i : Nat) : List Part → Part
  | [] => P
  | Q :: rest => insertAt (P.take i ++ Q ++ P.drop i) (i + Q.length) rest

def insert (P : Part) (index : Int) (parts : List Part) : Option Part :=
  let nd : Int := P.length
  if index < -nd ∨ nd < index then none
  else
    let i := if index < 0 then index + nd else index
    some (insertAt P i.toNat parts)

def append (P : Part) (parts : List Part) : Option Part := insert P P.length parts

/-- `squeeze(axis)`: `rng = all axes` or `np.arange(ndim)[axis]`; keep axis `i` iff
`i not in rng or len(coord_vectors[i]) > 1`. -/
def squeeze (P : Part) (axis : Option (List Int)) : Option Part := do
  let rng ← match axis with
    | none => some (List.range P.length)
    | some l => l.mapM (wrapIndex P.length)
  let keep := (List.range P.length).filter fun i => !rng.contains i || decide (1 < (P.getD i ⟨0, fun _ => 0, 0, 0⟩).n)
  some (keep.filterMap fun i => P[i]?)

/-! ### the two halves of a partition, as the code keeps and updates them

`RectPartition` holds a `RectGrid` (coordinate vectors) and an `IntervalProd` (`min_pt`, `max_pt`)
and `insert` / `append` / `squeeze` update the two through DIFFERENT methods (grid.py vs
domain.py), re-assembling with `RectPartition(newset, newgrid)`.  `Part` above is the aligned
view; the functions below follow the two code paths separately (they are what the driver runs),
and `C14.insert_two_paths_aligned` / `C14.squeeze_two_paths_aligned` prove that the paths cannot
get out of step. -/

/-- one coordinate vector of a `RectGrid`: length and entries -/
abbrev Vec := Nat × (Nat → Rat)

def Part1.vec (p : Part1) : Vec := (p.n, p.c)
def Part1.intv (p : Part1) : Rat × Rat := (p.lo, p.hi)

/-- `RectPartition(intv_prod, grid)`: equal number of axes, then the per-axis checks. -/
def assemble (G : List Vec) (S : List (Rat × Rat)) : Option Part :=
  if G.length ≠ S.length then none
  else (List.zip G S).mapM fun x => Part1.mk? ⟨x.1.1, x.1.2, x.2.1, x.2.2⟩

/-- `RectGrid.insert(index, *grids)` (grid.py): range check, negative wrap, then insert the first
grid and recursively the others at `index + grids[0].ndim`. -/
def gridInsertAt (G : List Vec) (i : Nat) : List (List Vec) → List Vec
  | [] => G
  | Q :: rest => gridInsertAt (G.take i ++ Q ++ G.drop i) (i + Q.length) rest

def gridInsert (G : List Vec) (index : Int) (grids : List (List Vec)) : Option (List Vec) :=
  let nd : Int := G.length
  if index < -nd ∨ nd < index then none
  else some (gridInsertAt G (if index < 0 then index + nd else index).toNat grids)

/-- `IntervalProd.insert(index, *intvs)` (domain.py): the same scheme written a second time on the
`min_pt` / `max_pt` arrays (`new[:index]`, `new[index:index + intv.ndim]`, `new[index + intv.ndim:]`),
recursing at `index + intvs[0].ndim`. -/
def setInsertAt (S : List (Rat × Rat)) (i : Nat) : List (List (Rat × Rat)) → List (Rat × Rat)
  | [] => S
  | Q :: rest => setInsertAt (S.take i ++ Q ++ S.drop i) (i + Q.length) rest

def setInsert (S : List (Rat × Rat)) (index : Int) (intvs : List (List (Rat × Rat))) :
    Option (List (Rat × Rat)) :=
  let nd : Int := S.length
  if index < -nd ∨ nd < index then none
  else some (setInsertAt S (if index < 0 then index + nd else index).toNat intvs)

/-- `RectPartition.insert`: `newgrid = self.grid.insert(index, *(p.grid …))`,
`newset = self.set.insert(index, *(p.set …))`, `RectPartition(newset, newgrid)`. -/
def insert2 (P : Part) (index : Int) (parts : List Part) : Option Part := do
  let G ← gridInsert (P.map Part1.vec) index (parts.map fun Q => Q.map Part1.vec)
  let S ← setInsert (P.map Part1.intv) index (parts.map fun Q => Q.map Part1.intv)
  assemble G S

def append2 (P : Part) (parts : List Part) : Option Part := insert2 P P.length parts

/-- `RectPartition.squeeze(axis)`: `new_indcs` from `self.grid.nondegen_byaxis`,
`newset = self.set[new_indcs]` (domain.py `__getitem__`), while `self.grid.squeeze(axis)` (grid.py)
recomputes its own index list from its own coordinate vectors. -/
def squeeze2 (P : Part) (axis : Option (List Int)) : Option Part := do
  let G := P.map Part1.vec
  let S := P.map Part1.intv
  let rngP ← match axis with
    | none => some (List.range P.length)
    | some l => l.mapM (wrapIndex P.length)
  let newIndcs := (List.range P.length).filter fun i => !rngP.contains i || decide (1 < (G.getD i (0, fun _ => 0)).1)
  let newset := newIndcs.filterMap fun i => S[i]?
  let rngG ← match axis with
    | none => some (List.range G.length)
    | some l => l.mapM (wrapIndex G.length)
  let gridIndcs := (List.range G.length).filter fun i => !rngG.contains i || decide (1 < (G.getD i (0, fun _ => 0)).1)
  let newgrid := gridIndcs.filterMap fun i => G[i]?
  assemble newgrid newset

/-- `byaxis[int]` / `byaxis[slice]`: `slc = zeros(ndim, object); slc[indices] = slice(None)`,
index the partition with it (`0` on the unselected axes) and squeeze the unselected axes. -/
def byaxisSel (P : Part) (sel : List Nat) : Option Part := do
  let idx := (List.range P.length).map fun i =>
    if sel.contains i then Idx.slice none none none else Idx.int 0
  let unsel := (List.range P.length).filter fun i => !sel.contains i
  let Q ← getItem P idx
  squeeze Q (some (unsel.map fun (i : Nat) => (i : Int)))

def byaxisInt (P : Part) (k : Int) : Option Part := do
  let i ← wrapIndex P.length k
  byaxisSel P [i]

/-- `byaxis[start:stop:step]`: NumPy basic slicing of the object array `slc` selects the axes
`start, start+step, …`; only WHICH axes are selected matters, not their order. -/
def byaxisSlice (P : Part) (start stop step : Option Int) : Option Part :=
  let stp := step.getD 1
  if stp = 0 then none
  else
    let g := sliceIndices start stop stp P.length
    let m := sliceLen g.1 g.2 stp
    byaxisSel P ((List.range m).map fun (i : Nat) => (g.1 + (i : Int) * stp).toNat)

/-- `byaxis[[i0, i1, …]]`: stack `byaxis[i]` with `append`. -/
def byaxisList (P : Part) (l : List Int) : Option Part := do
  let parts ← l.mapM (byaxisInt P)
  match parts with
  | [] => some []
  | p :: rest => append p rest

/-! ### constructors -/

/-- One entry of a `nodes_on_bdry` sequence: a bool or a pair of bools. -/
inductive FlagEntry
  | b (x : Bool)
  | pair (l r : Bool)
  deriving Repr, DecidableEq

/-- The raw Python value passed as `nodes_on_bdry`: a bool or a sequence of entries. -/
inductive Flags
  | global (b : Bool)
  | seq (l : List FlagEntry)
  deriving Repr

def FlagEntry.isBool : FlagEntry → Bool
  | .b _ => true
  | .pair _ _ => false

/-- Python truth value of an entry used as a flag (a non-empty tuple is true). -/
def FlagEntry.truthy : FlagEntry → Bool
  | .b x => x
  | .pair _ _ => true

/-- An entry read per axis: a bool stands for both sides. -/
def FlagEntry.both : FlagEntry → Bool × Bool
  | .b x => (x, x)
  | .pair l r => (l, r)

/-- `normalized_nodes_on_bdry(nodes_on_bdry, ndim)` (odl/util/normalize.py), used by the loops of
`uniform_partition` and `nonuniform_partition`: a bool is global; for `ndim = 1` a sequence of two
bools is ONE `(left, right)` pair; a sequence of length `ndim` is read per axis; anything else
raises. -/
def Flags.loopFlags (f : Flags) (ndim : Nat) : Option (List (Bool × Bool)) :=
  match f with
  | .global b => some (List.replicate ndim (b, b))
  | .seq l =>
    if ndim = 1 ∧ l.length = 2 ∧ l.all FlagEntry.isBool then
      match l with
      | [x, y] => some [(x.truthy, y.truthy)]
      | _ => none
    else if l.length = ndim then some (l.map FlagEntry.both)
    else none

/-- OLD variant (before the repair of finding C14-F1, kept to document the sensitivity):
`normalized_nodes_on_bdry((l, r), 1)` returned the list `[l, r]`; the loop's `zip` then read
the bare bool `l` in axis 0 and `uniform_partition` used it for both sides. -/
def Flags.loopFlagsOld (f : Flags) (ndim : Nat) : Option (List (Bool × Bool)) :=
  match f with
  | .seq [.b l, .b _] => if ndim = 1 then some [(l, l)] else f.loopFlags ndim
  | f => f.loopFlags ndim

/-- The handling of `nodes_on_bdry` inside `uniform_grid_fromintv` (odl/discr/grid.py), a SECOND,
differently written normalisation: a bool is global; for `ndim = 1` ANY sequence of length 2 is
wrapped as the single axis entry and unpacked as `(bdry_l, bdry_r)` (truth values); otherwise the
length must be `ndim` and each entry is unpacked as a pair, a bare bool (`TypeError` on
unpacking) standing for both sides. -/
def Flags.gridFlags (f : Flags) (ndim : Nat) : Option (List (Bool × Bool)) :=
  match f with
  | .global b => some (List.replicate ndim (b, b))
  | .seq l =>
    if ndim = 1 ∧ l.length = 2 then
      match l with
      | [x, y] => some [(x.truthy, y.truthy)]
      | _ => none
    else if l.length ≠ ndim then none
    else some (l.map FlagEntry.both)

/-- The already normalised list as `uniform_partition` hands it on to `uniform_partition_fromintv`. -/
def Flags.ofNormalized (fl : List (Bool × Bool)) : Flags :=
  .seq (fl.map fun p => FlagEntry.pair p.1 p.2)

def halfCount (bl br : Bool) : Rat := ((if bl then 1 else 0) + (if br then 1 else 0)) / 2

/-- Extremal node of `uniform_grid_fromintv` on the left, per `(bdry_l, bdry_r)`. -/
def gminOf (lo hi : Rat) (n : Nat) (bl br : Bool) : Rat :=
  let N : Rat := n
  if bl then lo else if br then lo + (hi - lo) / (2 * N - 1) else lo + (hi - lo) / (2 * N)

/-- Extremal node of `uniform_grid_fromintv` on the right. -/
def gmaxOf (lo hi : Rat) (n : Nat) (bl br : Bool) : Rat :=
  let N : Rat := n
  if br then hi else if bl then hi - (hi - lo) / (2 * N - 1) else hi - (hi - lo) / (2 * N)

/-- Shape of one entry of the node-placement table as the translator reads it from the source
(`Gen/UniformGrid.lean`): `base + sign * (xmax - xmin) / (a * n + b)`. -/
structure Off where
  baseMax : Bool
  sign : Int
  a : Int
  b : Int

def Off.eval (o : Off) (lo hi : Rat) (n : Nat) : Rat :=
  (if o.baseMax then hi else lo) + (o.sign : Rat) * (hi - lo) / ((o.a : Rat) * (n : Rat) + (o.b : Rat))

/-- One axis of `uniform_grid_fromintv` + `np.linspace(gmin, gmax, n)` +
`RectPartition(intv_prod, grid)`. -/
def uniformAxis (lo hi : Rat) (n : Nat) (bl br : Bool) : Part1 :=
  let N : Rat := n
  let gmin := gminOf lo hi n bl br
  let gmax := gmaxOf lo hi n bl br
  let step := (gmax - gmin) / (N - 1)
  ⟨n, fun i => if n ≤ 1 then gmin else gmin + (i : Rat) * step, lo, hi⟩

def fromIntv (lo hi : List Rat) (shape : List Nat) (flags : List (Bool × Bool)) : Option Part :=
  if lo.length ≠ hi.length ∨ shape.length ≠ lo.length ∨ flags.length ≠ lo.length then none
  else (List.zip (List.zip lo hi) (List.zip shape flags)).mapM fun ((a, b), (n, (bl, br))) =>
    if b < a then none else (uniformAxis a b n bl br).mk?

/-- Parameter completion of one axis in `uniform_partition`; returns `(min, max, n)`.
`eps` is the `1e-5` of the integrality test, `t` the `np.isclose` of the 4-parameter check. -/
def completeAxis (t : Tol) (eps : Rat) (xmin xmax : Option Rat) (n : Option Int) (dx : Option Rat)
    (bl br : Bool) : Option (Rat × Rat × Int) :=
  match xmin, xmax, n, dx with
  | none, some b, some n, some d => some (b - ((n : Rat) - halfCount bl br) * d, b, n)
  | some a, none, some n, some d => some (a, a + ((n : Rat) - halfCount bl br) * d, n)
  | some a, some b, none, some d =>
      if d = 0 then none
      else
        let ncalc := (b - a) / d + halfCount bl br
        let nr := roundHalfEven ncalc
        if eps < rabs (ncalc - nr) then none else some (a, b, nr)
  | some a, some b, some n, none => some (a, b, n)
  | some a, some b, some n, some d =>
      let bcalc := a + ((n : Rat) - halfCount bl br) * d
      if isClose t b bcalc then some (a, b, n) else none
  | _, _, _, _ => none

/-- `uniform_partition(min_pt, max_pt, shape, cell_sides, nodes_on_bdry)` (per-axis lists). -/
def uniformPartition (t : Tol) (eps : Rat) (xmin xmax : List (Option Rat)) (shape : List (Option Int))
    (dx : List (Option Rat)) (flags : Flags) : Option Part := do
  let nd := xmin.length
  if xmax.length ≠ nd ∨ shape.length ≠ nd ∨ dx.length ≠ nd then none
  let lf ← flags.loopFlags nd
  let done ← (List.zip (List.zip xmin xmax) (List.zip (List.zip shape dx) lf)).mapM
    fun ((a, b), ((n, d), (bl, br))) => completeAxis t eps a b n d bl br
  -- the NORMALISED list is passed on and normalised a second time by `uniform_grid_fromintv`
  let gf ← (Flags.ofNormalized lf).gridFlags nd
  if done.any (fun (_, _, n) => n < 1) then none
  fromIntv (done.map (·.1)) (done.map (·.2.1)) (done.map (·.2.2.toNat)) gf

/-- One axis of `uniform_partition_fromgrid`. -/
def fromGridAxis (n : Nat) (c : Nat → Rat) (xmin xmax : Option Rat) : Option Part1 := do
  let lo ← match xmin with
    | some a => some a
    | none => if n = 1 then none else some (c 0 - (c 1 - c 0) / 2)
  let hi ← match xmax with
    | some b => some b
    | none => if n = 1 then none else some (c (n - 1) + (c (n - 1) - c (n - 2)) / 2)
  Part1.mk? ⟨n, c, lo, hi⟩

/-- One axis of `nonuniform_partition`. -/
def nonuniformAxis (n : Nat) (c : Nat → Rat) (xmin xmax : Option Rat) (bl br : Bool) :
    Option Part1 :=
  if (xmin.isSome && bl) || (xmax.isSome && br) then none
  else
    let lo := match xmin with
      | some a => a
      | none => if bl || n = 1 then c 0 else c 0 - (c 1 - c 0) / 2
    let hi := match xmax with
      | some b => b
      | none => if br || n = 1 then c (n - 1) else c (n - 1) + (c (n - 1) - c (n - 2)) / 2
    Part1.mk? ⟨n, c, lo, hi⟩

/-! ### n-d derived quantities (round 4): `size`, `is_uniform`, `cell_sides`, `cell_volume`,
`has_isotropic_cells`, `points()` and the n-d `index()` -/

/-- `RectPartition.size` = `np.prod(shape)`. -/
def ndSize : Part → Nat
  | [] => 1
  | p :: rest => p.n * ndSize rest

/-- `RectGrid.is_uniform` = `all(is_uniform_byaxis)`; `tol p` is the `np.allclose` tolerance the code
derives from axis `p` (`Part1.uniTol`). -/
def ndIsUniform (tol : Part1 → Tol) (P : Part) : Bool := P.all fun p => p.isUniform (tol p)

/-- `cell_sides` of all axes; `none` = the array contains a NaN (some axis is not uniform). -/
def ndCellSides (tol : Part1 → Tol) : Part → Option (List Rat)
  | [] => some []
  | p :: rest => do
      let s ← p.cellSide (tol p)
      let r ← ndCellSides tol rest
      some (s :: r)

def prodList : List Rat → Rat
  | [] => 1
  | x :: r => x * prodList r

/-- `cell_volume` = `float(np.prod(self.cell_sides))`; `none` = NaN. -/
def ndCellVolume (tol : Part1 → Tol) (P : Part) : Option Rat := (ndCellSides tol P).map prodList

/-- `np.allclose(a, b)` with tolerance `t` on equally long vectors: `|a - b| ≤ atol + rtol * |b|`
entrywise. -/
def allClose (t : Tol) : List Rat → List Rat → Bool
  | x :: a, y :: b => isClose t x y && allClose t a b
  | _, _ => true

/-- `has_isotropic_cells` = `self.is_uniform and np.allclose(cell_sides[:-1], cell_sides[1:])`
(`t` = NumPy's default tolerances in the code). -/
def ndIsotropic (tol : Part1 → Tol) (t : Tol) (P : Part) : Bool :=
  ndIsUniform tol P &&
  match ndCellSides tol P with
  | none => false
  | some s => allClose t s.dropLast s.tail

/-- `points()` (order `'C'`): all grid points, the last axis varying fastest. -/
def ndPoints : Part → List (List Rat)
  | [] => [[]]
  | p :: rest => p.coords.flatMap fun x => (ndPoints rest).map fun w => x :: w

/-- `index(value)` for an n-d point: `self.set.element(value)` (length and containment), then axis by
axis. -/
def ndIndex : Part → List Rat → Option (List Int)
  | [], [] => some []
  | p :: rest, x :: w => do
      let i ← p.index x
      let r ← ndIndex rest w
      some (i :: r)
  | _, _ => none

/-! ### documented equivalences between the constructors (round 4) -/

/-- `nonuniform_partition(*uniform.coord_vectors, nodes_on_bdry=flags)`: one axis. -/
def reNonuniform (p : Part1) (bl br : Bool) : Option Part1 := nonuniformAxis p.n p.c none none bl br

/-- `uniform_partition_fromgrid(uniform.grid, min_pt={i: lo_i if bl_i}, max_pt={i: hi_i if br_i})`:
one axis (a limit with the node ON it must be given explicitly, the others are recomputed as
"half a cell beyond the outermost node"). -/
def reFromGrid (p : Part1) (bl br : Bool) : Option Part1 :=
  fromGridAxis p.n p.c (if bl then some p.lo else none) (if br then some p.hi else none)

/-! ### the set below the partition (round 5): `IntervalProd.volume`, `IntervalProd.corners`, n-d cell
volumes -/

/-- `IntervalProd.volume` = `measure(ndim=self.ndim)`: the product of the extents of all axes (`0.0` as
soon as one axis is degenerate; both special cases of `measure` return that product's value). -/
def setVolume (P : Part) : Rat := prodList (P.map fun p => p.hi - p.lo)

/-- `IntervalProd.corners()` (order `'C'`): `RectGrid(*minmax_vecs).points()` with `(min, max)` on a
non-degenerate axis and the single value `min` on a degenerate one. -/
def setCorners : Part → List (List Rat)
  | [] => [[]]
  | p :: rest =>
      (if p.lo = p.hi then [p.lo] else [p.lo, p.hi]).flatMap fun x => (setCorners rest).map fun w => x :: w

/-- The volumes of all n-d cells (C order): outer product of the `cell_sizes_vecs`. -/
def ndCellVolumes : Part → List Rat
  | [] => [1]
  | p :: rest => ((List.range p.n).map p.cellSize).flatMap fun x => (ndCellVolumes rest).map fun w => x * w

def sumList : List Rat → Rat
  | [] => 0
  | x :: r => x + sumList r

end OdlModel.Partition
