/-
C05 (round 4): finite-difference leaves of the adjoint model.

`PartialDerivative(S, axis, method, pad_mode)` on a uniformly discretized space of ANY ndim is
`finite_diff` (the C13 model `fd` with the tables `tbl` GENERATED from odl/discr/diff_ops.py)
applied to every line along `axis`: for a tensor of shape `(p, n, q)` in flat C order
(`p`, `q` = products of the axes before / after `axis`) this is `axisRun n n q (fd …)`.
`PartialDerivative.adjoint` returns `-PartialDerivative(range, axis, _ADJ_METHOD[method],
_ADJ_PADDING[pad_mode])`, modelled as coded.  The leaf is an `opaque` leaf whose two actions
are these executable functions; its contract is proved in Props/C05 (`C05.partial_deriv_adj`).
-/
import OdlModel.Model.Adjoint
import OdlModel.Model.FiniteDiff
import OdlModel.Gen.FiniteDiff
namespace OdlModel.Adjoint
open OdlModel.FiniteDiff OdlModel.Gen.FiniteDiff

section
variable {K : Type} [Add K] [Sub K] [Mul K] [Neg K] [Div K] [OfNat K 0] [OfNat K 1] [OfNat K 2]
  [IntCast K] [NatCast K] [DecidableEq K]

/-- a map `A` of 1-d arrays (length `n` → length `m`) applied to every line along the middle
axis of a `(p, n, q)` tensor in flat C order -/
def axisRun (n m q : Nat) (A : (Nat → K) → Nat → K) : El K → El K :=
  fun x _ o => A (fun k => x 0 ((o / (m * q) * n + k) * q + o % q)) ((o / q) % m)

/-- PartialDerivative(S, axis, method=me, pad_mode=pa, pad_const=0) with cell side `dx` along
`axis` (axis length `n`, `q` = product of the later axes), and its coded adjoint.  `D`, `R` are
two descriptions of the same space `S` (they differ only when the operator is a block of a
product-space operator: component of the domain / of the range). -/
def Leaf.partialDeriv (D R : Space K) (n q : Nat) (me : Method) (pa : Pad) (dx : K) : Leaf K :=
  .opaque false D R (axisRun n n q (fd den (tbl me pa) n 0 dx))
    (fun y j o => -(axisRun n n q (fd den (tbl (adjMethod me) (adjPad pa)) n 0 dx) y j o))

/-- `Gradient(S, method, pad_mode)` into the power space `V = S^d`: component `a` is
`finite_diff` along axis `a` with `dx[a]` — the block column of the `d` partial derivatives
(`gradTree … d`; rows are added in the order of `Gradient._call`).  Its model adjoint (COO
transposition, entries adjointed) acts like the coded `-Divergence(_ADJ_METHOD, _ADJ_PADDING)`:
compared exactly with the real code on the stream `model/gradient`. -/
def gradTree (S V : Space K) (sh : List Nat) (me : Method) (pa : Pad) (dx : Nat → K) :
    Nat → Impl K
  | 0 => .pnil .bcast S V
  | a + 1 => .pcons a 0
      (.leaf (Leaf.partialDeriv (S.comp 0) (V.comp a) (sh.getD a 0) (shProd (sh.drop (a + 1)))
        me pa (dx a)))
      (gradTree S V sh me pa dx a)

/-- `Divergence(V = S^d → S, method, pad_mode)`: `out = tmp₀; out += tmp_a` — the block row of
the partial derivatives; the coded adjoint is `-Gradient(_ADJ_METHOD, _ADJ_PADDING)`. -/
def divTree (V S : Space K) (sh : List Nat) (me : Method) (pa : Pad) (dx : Nat → K) :
    Nat → Impl K
  | 0 => .pnil .red V S
  | a + 1 => .pcons 0 a
      (.leaf (Leaf.partialDeriv (V.comp a) (S.comp 0) (sh.getD a 0) (shProd (sh.drop (a + 1)))
        me pa (dx a)))
      (divTree V S sh me pa dx a)

/-- one axis of `Laplacian._call`: `finite_diff(forward, dx²) − finite_diff(backward, dx²)`, same
pad mode -/
def lap1 (n : Nat) (pa : Pad) (dx2 : K) : (Nat → K) → Nat → K :=
  fun f i => fd den (tbl .forward pa) n 0 dx2 f i - fd den (tbl .backward pa) n 0 dx2 f i

/-- the contribution of one axis to the Laplacian; `Laplacian.adjoint` returns
`Laplacian(range, domain, pad_mode=self.pad_mode)` — the same pad mode, `_ADJ_PADDING` is NOT
applied — so the coded adjoint of the contribution is the contribution itself. -/
def Leaf.lapAxis (S : Space K) (n q : Nat) (pa : Pad) (dx2 : K) : Leaf K :=
  .opaque false S S (axisRun n n q (lap1 n pa dx2)) (axisRun n n q (lap1 n pa dx2))

/-- `Laplacian(S, pad_mode)`: `out = 0; for axis: out += fwd(dx²); out -= bwd(dx²)` — the sum
over the axes, in the order of `Laplacian._call`. -/
def lapTree (S : Space K) (sh : List Nat) (pa : Pad) (dx : Nat → K) : Nat → Impl K
  | 0 => .leaf (.zero S S)
  | a + 1 => .sum (lapTree S sh pa dx a)
      (.leaf (Leaf.lapAxis S (sh.getD a 0) (shProd (sh.drop (a + 1))) pa (dx a * dx a)))

end
end OdlModel.Adjoint
