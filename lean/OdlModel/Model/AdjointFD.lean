/-
C05 (round 4): finite-difference leaves of the adjoint model.

`PartialDerivative(S, axis, method, pad_mode)` on a uniformly discretized space of ANY ndim is
`finite_diff` (the C13 model `fd` with the tables `tbl` GENERATED from odl/discr/diff_ops.py)
applied to every line along `axis`: for a tensor of shape `(p, n, q)` in flat C order
(`p`, `q` = products of the axes before / after `axis`) this is `axisRun n n q (fd …)`.
`PartialDerivative.adjoint` returns `-PartialDerivative(range, axis, _ADJ_METHOD[method],
_ADJ_PADDING[pad_mode])`, modelled as coded.  The leaf is an `opaque` leaf whose two actions
are these executable functions; its contract is proved in Props/C05 (`C05.partial_deriv_adj`).
-/
import OdlModel.Model.Adjoint
import OdlModel.Model.FiniteDiff
import OdlModel.Gen.FiniteDiff
namespace OdlModel.Adjoint
open OdlModel.FiniteDiff OdlModel.Gen.FiniteDiff

section
variable {K : Type} [Add K] [Sub K] [Mul K] [Neg K] [Div K] [OfNat K 0] [OfNat K 1] [OfNat K 2]
  [IntCast K] [NatCast K] [DecidableEq K]

/-- a map `A` of 1-d arrays (length `n` → length `m`) applied to every line along the middle
axis of a `(p, n, q)` tensor in flat C order -/
def axisRun (n m q : Nat) (A : (Nat → K) → Nat → K) : El K → El K :=
  fun x _ o => A (fun k => x 0 ((o / (m * q) * n + k) * q + o % q)) ((o / q) % m)

/-- PartialDerivative(S, axis, method=me, pad_mode=pa, pad_const=0) with cell side `dx` along
`axis` (axis length `n`, `q` = product of the later axes), and its coded adjoint. -/
def Leaf.partialDeriv (S : Space K) (n q : Nat) (me : Method) (pa : Pad) (dx : K) : Leaf K :=
  .opaque false S S (axisRun n n q (fd den (tbl me pa) n 0 dx))
    (fun y j o => -(axisRun n n q (fd den (tbl (adjMethod me) (adjPad pa)) n 0 dx) y j o))

end
end OdlModel.Adjoint
