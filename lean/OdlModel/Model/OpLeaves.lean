/-
C04: the executable leaf operators of the correspondence pool as MODEL definitions (the driver
runs exactly these maps), so that the leaf hypotheses `EnvOK` of the value theorems can be
discharged for them: ScalingOperator, IdentityOperator, PowerOperator, the harness operator
ShiftPower, MatrixOperator (any shape, any entries), ConstantFunctional, ZeroFunctional.
-/
import OdlModel.Model.OpAlgebra

namespace OdlModel.OpAlgebra

section
variable {K : Type} [Add K] [Mul K] [OfNat K 0] [OfNat K 1]

def powK (z : K) : Nat → K
  | 0 => 1
  | p + 1 => powK z p * z

/-- `Σ_k row[k] * x[k0 + k]` -/
def dotFrom (x : Vec K) : List K → Nat → K
  | [], _ => 0
  | c :: cs, k => c * x k + dotFrom x cs (k + 1)

inductive LeafSpec (K : Type)
  | scale (n : Nat) (c : K)                       -- ScalingOperator(rn(n), c)
  | ident (n : Nat)                               -- IdentityOperator(rn(n))
  | pow (n p : Nat)                               -- PowerOperator(rn(n), p)
  | shift (n p : Nat)                             -- out[j] = x[(j+1) mod n] ** p
  | mat (nd nr : Nat) (rows : List (List K))      -- MatrixOperator, rn(nd) -> rn(nr)
  | constf (n : Nat) (c : K)                      -- ConstantFunctional(rn(n), c)
  | zerof (n : Nat)                               -- ZeroFunctional(rn(n))

def LeafSpec.map : LeafSpec K → Vec K → Vec K
  | .scale n c => fun x j => if j < n then c * x j else 0
  | .ident n => fun x j => if j < n then x j else 0
  | .pow n p => fun x j => if j < n then powK (x j) p else 0
  | .shift n p => fun x j => if j < n then powK (x ((j + 1) % n)) p else 0
  | .mat _ nr rows => fun x j => if j < nr then dotFrom x (rows.getD j []) 0 else 0
  | .constf _ c => fun _ _ => c
  | .zerof _ => fun _ _ => 0

/-- what the dispatch sees of such a leaf (`is_linear` as the library sets it: powers are
flagged linear only for exponent 1, a constant only if it is 0) -/
def LeafSpec.info [DecidableEq K] (id : Nat) : LeafSpec K → Leaf
  | .scale n _ => ⟨id, .vec n, .vec n, true, false⟩
  | .ident n => ⟨id, .vec n, .vec n, true, false⟩
  | .pow n p => ⟨id, .vec n, .vec n, decide (p = 1), false⟩
  | .shift n p => ⟨id, .vec n, .vec n, decide (p = 1), false⟩
  | .mat nd nr _ => ⟨id, .vec nd, .vec nr, true, false⟩
  | .constf n c => ⟨id, .vec n, .fld, decide (c = 0), true⟩
  | .zerof n => ⟨id, .vec n, .fld, true, true⟩

/-- environment of a tree whose leaf `id` is `specs id` -/
def zooEnv (specs : Nat → LeafSpec K) : Nat → Vec K → Vec K := fun id => (specs id).map

/-- every leaf of the expression carries the flags of its spec -/
def ZooExpr [DecidableEq K] (specs : Nat → LeafSpec K) : Expr K → Prop
  | .leaf i => i = (specs i.id).info i.id
  | .neg a => ZooExpr specs a
  | .pow a _ => ZooExpr specs a
  | .bin _ a b => ZooExpr specs a ∧ ZooExpr specs b
  | .sc _ a _ _ => ZooExpr specs a
  | .vc _ a _ => ZooExpr specs a

end

end OdlModel.OpAlgebra
