/-
C04: the executable leaf operators of the correspondence pool as MODEL definitions (the driver
runs exactly these maps), so that the leaf hypotheses `EnvOK` of the value theorems can be
discharged for them: ScalingOperator, IdentityOperator, PowerOperator, the harness operator
ShiftPower, MatrixOperator (any shape, any entries), ConstantFunctional, ZeroFunctional.
-/
import OdlModel.Model.OpAlgebra
import OdlModel.Model.CRat

namespace OdlModel.OpAlgebra

section
variable {K : Type} [Add K] [Mul K] [OfNat K 0] [OfNat K 1]

def powK (z : K) : Nat → K
  | 0 => 1
  | p + 1 => powK z p * z

/-- `Σ_k row[k] * x[k0 + k]` -/
def dotFrom (x : Vec K) : List K → Nat → K
  | [], _ => 0
  | c :: cs, k => c * x k + dotFrom x cs (k + 1)

inductive LeafSpec (K : Type)
  | scale (n : Nat) (c : K)                       -- ScalingOperator(rn(n), c)
  | ident (n : Nat)                               -- IdentityOperator(rn(n))
  | pow (n p : Nat)                               -- PowerOperator(rn(n), p)
  | shift (n p : Nat)                             -- out[j] = x[(j+1) mod n] ** p
  | mat (nd nr : Nat) (rows : List (List K))      -- MatrixOperator, rn(nd) -> rn(nr)
  | constf (n : Nat) (c : K)                      -- ConstantFunctional(rn(n), c)
  | zerof (n : Nat)                               -- ZeroFunctional(rn(n))

def LeafSpec.map : LeafSpec K → Vec K → Vec K
  | .scale n c => fun x j => if j < n then c * x j else 0
  | .ident n => fun x j => if j < n then x j else 0
  | .pow n p => fun x j => if j < n then powK (x j) p else 0
  | .shift n p => fun x j => if j < n then powK (x ((j + 1) % n)) p else 0
  | .mat _ nr rows => fun x j => if j < nr then dotFrom x (rows.getD j []) 0 else 0
  | .constf _ c => fun _ _ => c
  | .zerof _ => fun _ _ => 0

/-- what the dispatch sees of such a leaf (`is_linear` as the library sets it: powers are
flagged linear only for exponent 1, a constant only if it is 0) -/
def LeafSpec.info [DecidableEq K] (id : Nat) : LeafSpec K → Leaf
  | .scale n _ => ⟨id, .vec n, .vec n, true, false⟩
  | .ident n => ⟨id, .vec n, .vec n, true, false⟩
  | .pow n p => ⟨id, .vec n, .vec n, decide (p = 1), false⟩
  | .shift n p => ⟨id, .vec n, .vec n, decide (p = 1), false⟩
  | .mat nd nr _ => ⟨id, .vec nd, .vec nr, true, false⟩
  | .constf n c => ⟨id, .vec n, .fld, decide (c = 0), true⟩
  | .zerof n => ⟨id, .vec n, .fld, true, true⟩

/-- environment of a tree whose leaf `id` is `specs id` -/
def zooEnv (specs : Nat → LeafSpec K) : Nat → Vec K → Vec K := fun id => (specs id).map

/-- every leaf of the expression carries the flags of its spec -/
def ZooExpr [DecidableEq K] (specs : Nat → LeafSpec K) : Expr K → Prop
  | .leaf i => i = (specs i.id).info i.id
  | .neg a => ZooExpr specs a
  | .pow a _ => ZooExpr specs a
  | .bin _ a b => ZooExpr specs a ∧ ZooExpr specs b
  | .sc _ a _ _ => ZooExpr specs a
  | .vc _ a _ => ZooExpr specs a

end

/-! ### Round 4: the remaining executable leaves of the pool (inner / linf / l2sq / repart /
impart / scalef / powf).  They use the complex structure of the scalars (conjugation, real and
imaginary part embedded in `K`); the driver instantiates it with the Gaussian rationals'
own `conj`, `re`, `im`, the theorems are for ANY three maps with the stated laws. -/

/-- conjugation and the real / imaginary part (as elements of `K` again) -/
structure CStruct (K : Type) where
  conj : K → K
  re : K → K
  im : K → K

section
variable {K : Type} [Add K] [Mul K] [OfNat K 0] [OfNat K 1]

/-- `Σ_k x[k0 + k] * conj(y[k])` (`x.inner(y)` of `rn`/`cn`: linear in `x`) -/
def dotConj (cj : K → K) (x : Vec K) : List K → Nat → K
  | [], _ => 0
  | c :: cs, k => x k * cj c + dotConj cj x cs (k + 1)

/-- `Σ_{k<n} x[k] * conj(x[k])` -/
def sqSum (cj : K → K) (x : Vec K) : Nat → K
  | 0 => 0
  | n + 1 => sqSum cj x n + x n * cj (x n)

inductive LeafSpecC (K : Type)
  | base (s : LeafSpec K)
  | inner (n : Nat) (y : List K) (fn : Bool)  -- InnerProductOperator(y) / a linear Functional x ↦ <x, y>
  | l2sq (n : Nat)                            -- L2NormSquared(space of size n)
  | repart (n : Nat)                          -- ComplexEmbedding ∘ RealPart on cn(n)
  | impart (n : Nat)                          -- ComplexEmbedding ∘ ImagPart on cn(n)
  | scalef (c : K)                            -- ScalingOperator(field, c)
  | powf (p : Nat)                            -- PowerOperator(field, p)

def LeafSpecC.map (cs : CStruct K) : LeafSpecC K → Vec K → Vec K
  | .base s => s.map
  | .inner _ y _ => fun x _ => dotConj cs.conj x y 0
  | .l2sq n => fun x _ => sqSum cs.conj x n
  | .repart n => fun x j => if j < n then cs.re (x j) else 0
  | .impart n => fun x j => if j < n then cs.im (x j) else 0
  | .scalef c => fun x _ => c * x 0
  | .powf p => fun x _ => powK (x 0) p

def LeafSpecC.info [DecidableEq K] (id : Nat) : LeafSpecC K → Leaf
  | .base s => s.info id
  | .inner n _ fn => ⟨id, .vec n, .fld, true, fn⟩
  | .l2sq n => ⟨id, .vec n, .fld, false, true⟩
  | .repart n => ⟨id, .vec n, .vec n, true, false⟩
  | .impart n => ⟨id, .vec n, .vec n, true, false⟩
  | .scalef _ => ⟨id, .fld, .fld, true, false⟩
  | .powf p => ⟨id, .fld, .fld, decide (p = 1), false⟩

/-- linearity class of a leaf map: `all` = homogeneous for every scalar of the field,
`realOnly` = only for the scalars that commute with `re`/`im` (the real ones), `none` = not
claimed linear. -/
inductive LinClass | all | realOnly | none
  deriving DecidableEq, Repr

def LeafSpecC.cls [DecidableEq K] : LeafSpecC K → LinClass
  | .base s => if (s.info 0).lin then .all else .none
  | .inner _ _ _ => .all
  | .l2sq _ => .none
  | .repart _ => .realOnly
  | .impart _ => .realOnly
  | .scalef _ => .all
  | .powf p => if p = 1 then .all else .none

def zooEnvC (cs : CStruct K) (specs : Nat → LeafSpecC K) : Nat → Vec K → Vec K :=
  fun id => (specs id).map cs

/-- every leaf of the expression carries the flags of its spec -/
def ZooExprC [DecidableEq K] (specs : Nat → LeafSpecC K) : Expr K → Prop
  | .leaf i => i = (specs i.id).info i.id
  | .neg a => ZooExprC specs a
  | .pow a _ => ZooExprC specs a
  | .bin _ a b => ZooExprC specs a ∧ ZooExprC specs b
  | .sc _ a _ _ => ZooExprC specs a
  | .vc _ a _ => ZooExprC specs a

end

/-- the complex structure of the Gaussian rationals the driver computes with -/
def cratStruct : CStruct CRat := ⟨CRat.conj, fun z => ⟨z.re, 0⟩, fun z => ⟨z.im, 0⟩⟩

end OdlModel.OpAlgebra
