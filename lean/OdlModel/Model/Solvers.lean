/-
Solver state machines (C11, C12).  Import-free model of the loop bodies of

  odl/solvers/nonsmooth/admm.py                      admm_linearized, admm_linearized_simple
  odl/solvers/nonsmooth/alternating_dual_updates.py  adupdates, adupdates_simple
  odl/solvers/nonsmooth/difference_convex.py         doubleprox_dc, doubleprox_dc_simple
  odl/solvers/nonsmooth/primal_dual_hybrid_gradient.py  pdhg (constant tau, sigma, theta)
  odl/solvers/nonsmooth/proximal_gradient_solvers.py (accelerated_)proximal_gradient
  odl/solvers/nonsmooth/douglas_rachford.py          douglas_rachford_pd
  odl/solvers/nonsmooth/forward_backward.py          forward_backward_pd
  odl/solvers/iterative/iterative.py                 landweber, kaczmarz, conjugate_gradient(_normal)
  odl/solvers/iterative/statistical.py               mlem / osmlem
  odl/solvers/smooth/gradient.py                     steepest_descent
  odl/solvers/util/steplen.py                        BacktrackingLineSearch
  odl/operator/oputils.py                            power_method_opnorm

Every solver is `init` + `step : State → State` over abstract carriers `V` (domain) and `W`
(range) that only need `+ - •`; the operator `L`, its adjoint, proximal maps, gradients,
norms and inner products are PARAMETERS (arbitrary functions).  One state component per
Python buffer (including the reusable temporaries, whose initial content is an arbitrary
"junk" value, as `space.element()` is uninitialised memory); the statements of a loop body
appear as `let`s in program order.  The callback is modelled by `runLog` (called with the
iterate at the end of a loop body) or, where the code calls it somewhere else (kaczmarz/
adupdates inner loop, osmlem, douglas_rachford_pd), by an explicit `log` component.
-/
namespace OdlModel.Solvers

/-- `out.lincomb(a, x, b, y)`; C01 proves that the code computes `a*x + b*y` entry-wise. -/
@[inline] def lincomb {K V : Type} [SMul K V] [Add V] (a : K) (x : V) (b : K) (y : V) : V :=
  a • x + b • y

/-- Pointwise update of a family of buffers (`duals[j].assign(t)`, `tmp_rans[ran] <- t`). -/
def upd {α : Type} (f : Nat → α) (j : Nat) (a : α) : Nat → α := fun k => if k = j then a else f k

/-- `for _ in range(n): s = step(s); callback(obs(s))` -/
def runLog {S O : Type} (step : S → S) (obs : S → O) : Nat → S → List O → S × List O
  | 0, s, log => (s, log)
  | n + 1, s, log => let s' := step s; runLog step obs n s' (log ++ [obs s'])

/-- `for _ in range(n): s = step(s)` (equal to Mathlib's `step^[n]`, lemma `iter_eq`). -/
def iter {S : Type} (step : S → S) : Nat → S → S
  | 0, s => s
  | n + 1, s => iter step n (step s)

/-- `for i in range(m): s = body(i, s)` -/
def forRange {S : Type} (body : Nat → S → S) (m : Nat) (s : S) : S :=
  (List.range m).foldl (fun s i => body i s) s

/-! ## Linearized ADMM (`admm.py`) -/
section Admm
variable {K V W : Type}

structure AdmmP (K V W : Type) where
  L : V → W
  Ladj : W → V
  /-- `f.proximal(tau)` -/
  proxF : V → V
  /-- `g.proximal(sigma)` -/
  proxG : W → W
  tau : K
  sigma : K

structure AdmmOpt (V W : Type) where
  x : V
  z : W
  u : W
  tmpRan : W
  tmpDom : V

structure AdmmSimple (V W : Type) where
  x : V
  z : W
  u : W

variable [OfNat K 1] [Neg K] [Div K] [SMul K V] [Add V] [Sub V] [Add W] [Sub W]

/-- `z = u = L.range.zero(); tmp_ran = L(x); tmp_dom = L.domain.element()` -/
def AdmmP.initOpt (P : AdmmP K V W) (x0 : V) (zeroW : W) (junkV : V) : AdmmOpt V W :=
  ⟨x0, zeroW, zeroW, P.L x0, junkV⟩

/-- Loop body of `admm_linearized`. -/
def AdmmP.stepOpt (P : AdmmP K V W) (s : AdmmOpt V W) : AdmmOpt V W :=
  let t1 := s.tmpRan + s.u                              -- tmp_ran += u
  let t2 := t1 - s.z                                    -- tmp_ran -= z
  let d := P.Ladj t2                                    -- L.adjoint(tmp_ran, out=tmp_dom)
  let x1 := lincomb 1 s.x (-P.tau / P.sigma) d          -- x.lincomb(1, x, -tau / sigma, tmp_dom)
  let x2 := P.proxF x1                                  -- prox_tau_f(x, out=x)
  let t3 := P.L x2                                      -- L(x, out=tmp_ran)
  let z' := P.proxG (t3 + s.u)                          -- prox_sigma_g(tmp_ran + u, out=z)
  let u1 := s.u + t3                                    -- u += tmp_ran
  let u2 := u1 - z'                                     -- u -= z
  ⟨x2, z', u2, t3, d⟩

def AdmmP.initSimple (_P : AdmmP K V W) (x0 : V) (zeroW : W) : AdmmSimple V W := ⟨x0, zeroW, zeroW⟩

/-- Loop body of `admm_linearized_simple`. -/
def AdmmP.stepSimple (P : AdmmP K V W) (s : AdmmSimple V W) : AdmmSimple V W :=
  -- x[:] = f.proximal(tau)(x - tau / sigma * L.adjoint(L(x) + u - z))
  let x' := P.proxF (s.x - (P.tau / P.sigma) • P.Ladj (P.L s.x + s.u - s.z))
  let z' := P.proxG (P.L x' + s.u)                      -- z = g.proximal(sigma)(L(x) + u)
  let u' := P.L x' + s.u - z'                           -- u = L(x) + u - z
  ⟨x', z', u'⟩

end Admm

/-! ## Alternating dual updates (`alternating_dual_updates.py`), fixed order -/
section Adupdates
variable {K V W : Type}

/-- `inner_stepsizes[j]`: a scalar (`np.isscalar`) or anything else (element, array, list), used
through `np.asarray` as a POINTWISE step. -/
inductive InnerSS (K W : Type)
  | scalar (c : K)
  | pointwise (a : W)

structure AduP (K V W : Type) where
  m : Nat
  L : Nat → V → W
  Ladj : Nat → W → V
  /-- `proxs[j]`: the proximal HOISTED out of the loop by `adupdates`
  (`func.convex_conj.proximal(stepsize * inner_ss)` computed once before the iteration) -/
  prox : Nat → W → W
  /-- the proximal that `adupdates_simple` builds from the factory IN EVERY inner iteration
  (`g[j].convex_conj.proximal(stepsize * inner_stepsizes[j])`) -/
  proxSimple : Nat → W → W
  stepsize : K
  inner : Nat → InnerSS K W
  /-- entry-wise product in the range (`array * element`) -/
  mulW : W → W → W
  /-- index of the shared temporary `tmp_rans[L[j].range]` -/
  rid : Nat → Nat
  /-- `callback_loop == 'inner'` -/
  cbInner : Bool

structure AduOpt (V W : Type) where
  x : V
  duals : Nat → W
  tmp : Nat → W
  log : List V

structure AduSimple (V W : Type) where
  x : V
  duals : Nat → W

variable [OfNat K 1] [Div K] [Mul K] [SMul K V] [SMul K W] [Sub V] [Add W] [Sub W]

/-- `for i in range(length): x -= (1.0 / stepsize) * L[i].adjoint(duals[i])` -/
def AduP.primal (P : AduP K V W) (duals : Nat → W) (x : V) : V :=
  forRange (fun i x => x - ((1 : K) / P.stepsize) • P.Ladj i (duals i)) P.m x

/-- `step * w` with `step = stepsize * inner_stepsizes[j] if np.isscalar(inner_stepsizes[j])
else stepsize * np.asarray(inner_stepsizes[j])` -/
def AduP.scaled (P : AduP K V W) (j : Nat) (w : W) : W :=
  match P.inner j with
  | .scalar c => (P.stepsize * c) • w
  | .pointwise a => P.mulW (P.stepsize • a) w

def AduP.innerOpt (P : AduP K V W) (j : Nat) (s : AduOpt V W) : AduOpt V W :=
  let arg := s.duals j + P.scaled j (P.L j s.x)                  -- arg = duals[j] + step * L[j](x)
  -- tmp_ran = tmp_rans[L[j].range]; proxs[j](arg, out=tmp_ran): the result lives in the SHARED buffer
  let tmp' := upd s.tmp (P.rid j) (P.prox j arg)
  -- x -= 1.0 / stepsize * L[j].adjoint(tmp_ran - duals[j])       (reads the buffer)
  let x' := s.x - ((1 : K) / P.stepsize) • P.Ladj j (tmp' (P.rid j) - s.duals j)
  let duals' := upd s.duals j (tmp' (P.rid j))                   -- duals[j].assign(tmp_ran)  (reads the buffer)
  ⟨x', duals', tmp', if P.cbInner then s.log ++ [x'] else s.log⟩

def AduP.stepOpt (P : AduP K V W) (s : AduOpt V W) : AduOpt V W :=
  let s1 : AduOpt V W := { s with x := P.primal s.duals s.x }
  let s2 := forRange P.innerOpt P.m s1
  if P.cbInner then s2 else { s2 with log := s2.log ++ [s2.x] }

def AduP.innerSimple (P : AduP K V W) (j : Nat) (s : AduSimple V W) : AduSimple V W :=
  -- dual_tmp = prox(duals[j] + stepsize * inner_stepsizes[j] * L[j](x))   (scalar branch)
  --            prox(duals[j] + stepsize * np.asarray(inner_stepsizes[j]) * L[j](x))   (otherwise)
  let t := P.proxSimple j (s.duals j + P.scaled j (P.L j s.x))   -- dual_tmp: a fresh element
  let x' := s.x - ((1 : K) / P.stepsize) • P.Ladj j (t - s.duals j)
  ⟨x', upd s.duals j t⟩

def AduP.stepSimple (P : AduP K V W) (s : AduSimple V W) : AduSimple V W :=
  forRange P.innerSimple P.m { s with x := P.primal s.duals s.x }

end Adupdates

/-! ## Double-proximal DC (`difference_convex.py`) -/
section Dpdc
variable {K V W : Type}

structure DpdcP (K V W : Type) where
  Kop : V → W
  Kadj : W → V
  /-- `f.proximal(gamma)` -/
  proxF : V → V
  gradPhi : V → V
  /-- `g.convex_conj.proximal(mu)` -/
  proxGc : W → W
  gamma : K
  mu : K

variable [OfNat K 1] [SMul K V] [SMul K W] [Add V] [Sub V] [Add W]

def DpdcP.stepOpt (P : DpdcP K V W) (s : V × W) : V × W :=
  -- f.proximal(gamma)(x.lincomb(1, x, gamma, K.adjoint(y) - phi.gradient(x)), out=x)
  let x1 := lincomb 1 s.1 P.gamma (P.Kadj s.2 - P.gradPhi s.1)
  let x' := P.proxF x1
  -- g_convex_conj.proximal(mu)(y.lincomb(1, y, mu, K(x)), out=y)
  let y1 := lincomb 1 s.2 P.mu (P.Kop x')
  (x', P.proxGc y1)

def DpdcP.stepSimple (P : DpdcP K V W) (s : V × W) : V × W :=
  -- f.proximal(gamma)(x + gamma * K.adjoint(y) - gamma * phi.gradient(x), out=x)
  let x' := P.proxF (s.1 + P.gamma • P.Kadj s.2 - P.gamma • P.gradPhi s.1)
  -- g.convex_conj.proximal(mu)(y + mu * K(x), out=y)
  (x', P.proxGc (s.2 + P.mu • P.Kop x'))

end Dpdc

/-! ## Landweber and Kaczmarz (`iterative.py`) -/
section Landweber
variable {K V W : Type}

structure LandweberP (K V W : Type) where
  op : V → W
  /-- `op.derivative(x).adjoint` -/
  dAdj : V → W → V
  rhs : W
  omega : K
  /-- `projection` (`none` when not given) -/
  proj : Option (V → V)

structure LandweberS (V W : Type) where
  x : V
  tmpRan : W
  tmpDom : V

def applyProj {V : Type} (proj : Option (V → V)) (x : V) : V :=
  match proj with
  | some p => p x
  | none => x

variable [OfNat K 1] [Neg K] [SMul K V] [Add V] [Sub W]

def LandweberP.init (_P : LandweberP K V W) (x0 : V) (junkW : W) (junkV : V) : LandweberS V W :=
  ⟨x0, junkW, junkV⟩

def LandweberP.step (P : LandweberP K V W) (s : LandweberS V W) : LandweberS V W :=
  let t := P.op s.x                                  -- op(x, out=tmp_ran)
  let t2 := t - P.rhs                                -- tmp_ran -= rhs
  let d := P.dAdj s.x t2                             -- op.derivative(x).adjoint(tmp_ran, out=tmp_dom)
  let x' := lincomb 1 s.x (-P.omega) d               -- x.lincomb(1, x, -omega, tmp_dom)
  ⟨applyProj P.proj x', t2, d⟩

structure KaczmarzP (K V W : Type) where
  m : Nat
  ops : Nat → V → W
  dAdj : Nat → V → W → V
  rhs : Nat → W
  omega : Nat → K
  proj : Option (V → V)
  rid : Nat → Nat
  cbInner : Bool

structure KaczmarzS (V W : Type) where
  x : V
  tmpRan : Nat → W
  tmpDom : V
  log : List V

def KaczmarzP.inner (P : KaczmarzP K V W) (i : Nat) (s : KaczmarzS V W) : KaczmarzS V W :=
  let t := P.ops i s.x                               -- ops[i](x, out=tmp_ran)
  let t2 := t - P.rhs i                              -- tmp_ran -= rhs[i]
  let d := P.dAdj i s.x t2
  let x' := applyProj P.proj (lincomb 1 s.x (-P.omega i) d)
  ⟨x', upd s.tmpRan (P.rid i) t2, d, if P.cbInner then s.log ++ [x'] else s.log⟩

def KaczmarzP.step (P : KaczmarzP K V W) (s : KaczmarzS V W) : KaczmarzS V W :=
  let s2 := forRange P.inner P.m s
  if P.cbInner then s2 else { s2 with log := s2.log ++ [s2.x] }

/-- One sweep visiting the operators in the given `order` (`random=True`: the permutation drawn
by `np.random.permutation` for this sweep; `random=False`: `range(len(ops))`, i.e. `step`).
The relaxation parameter, right-hand side and temporary are those of the OPERATOR `i`. -/
def KaczmarzP.stepOrd (P : KaczmarzP K V W) (order : List Nat) (s : KaczmarzS V W) : KaczmarzS V W :=
  let s2 := order.foldl (fun s i => P.inner i s) s
  if P.cbInner then s2 else { s2 with log := s2.log ++ [s2.x] }

/-- `niter` sweeps with one visiting order per sweep. -/
def KaczmarzP.runOrd (P : KaczmarzP K V W) : List (List Nat) → KaczmarzS V W → KaczmarzS V W
  | [], s => s
  | o :: os, s => P.runOrd os (P.stepOrd o s)

end Landweber

/-! ## Proximal gradient (`proximal_gradient_solvers.py`) -/
section ProxGrad
variable {K V : Type}

structure ProxGradP (K V : Type) where
  /-- `f.proximal(gamma)` -/
  proxF : V → V
  gradG : V → V
  gamma : K
  /-- `lam(k)` -/
  lam : Nat → K

structure ProxGradS (V : Type) where
  x : V
  tmp : V
  k : Nat

variable [OfNat K 1] [Neg K] [Sub K] [SMul K V] [Add V]

def ProxGradP.init (_P : ProxGradP K V) (x0 junk : V) : ProxGradS V := ⟨x0, junk, 0⟩

def ProxGradP.step (P : ProxGradP K V) (s : ProxGradS V) : ProxGradS V :=
  let lamk := P.lam s.k
  let tmp := lincomb 1 s.x (-P.gamma) (P.gradG s.x)     -- tmp.lincomb(1, x, -gamma, g_grad(x))
  let x' := lincomb (1 - lamk) s.x lamk (P.proxF tmp)   -- x.lincomb(1 - lam_k, x, lam_k, f_prox(tmp))
  ⟨x', tmp, s.k + 1⟩

/-- `accelerated_proximal_gradient`; `sqrt` is `np.sqrt`. -/
structure AccProxGradS (K V : Type) where
  x : V
  y : V
  t : K
  tmp : V

variable [Add K] [Mul K] [Div K] [OfNat K 2] [OfNat K 4]

def ProxGradP.accInit (_P : ProxGradP K V) (x0 junk : V) : AccProxGradS K V := ⟨x0, x0, 1, junk⟩

def ProxGradP.accStep (P : ProxGradP K V) (sqrt : K → K) (s : AccProxGradS K V) : AccProxGradS K V :=
  let t' := (1 + sqrt (1 + 4 * (s.t * s.t))) / 2        -- t = (1 + sqrt(1 + 4 t^2)) / 2
  let alpha := (s.t - 1) / t'                            -- alpha = (t_old - 1) / t
  let tmp := lincomb 1 s.y (-P.gamma) (P.gradG s.y)      -- tmp.lincomb(1, y, -gamma, g_grad(y))
  let y1 := s.x                                          -- y.assign(x)
  let x' := P.proxF tmp                                  -- f_prox(tmp, out=x)
  let y' := lincomb (1 + alpha) x' (-alpha) y1           -- y.lincomb(1 + alpha, x, -alpha, y)
  ⟨x', y', t', tmp⟩

end ProxGrad

/-! ## MLEM / OSMLEM (`statistical.py`) -/
section Osmlem
variable {V W : Type}

structure OsmlemP (V W : Type) where
  nOps : Nat
  op : Nat → V → W
  opAdj : Nat → W → V
  data : Nat → W
  /-- `sensitivities[i]` -/
  sens : Nat → V
  /-- `ufuncs.maximum(eps, ·)` -/
  clampW : W → W
  /-- entry-wise `a / b` in the range, in the domain; entry-wise product in the domain -/
  divW : W → W → W
  divV : V → V → V
  mulV : V → V → V

structure OsmlemS (V W : Type) where
  x : V
  tmpDom : V
  tmpRan : Nat → W
  log : List V

def OsmlemP.inner (P : OsmlemP V W) (i : Nat) (s : OsmlemS V W) : OsmlemS V W :=
  let t := P.op i s.x                      -- op[i](x, out=tmp_ran[i])
  let t2 := P.clampW t                     -- tmp_ran[i].ufuncs.maximum(eps, out=tmp_ran[i])
  let t3 := P.divW (P.data i) t2           -- data[i].divide(tmp_ran[i], out=tmp_ran[i])
  let d := P.opAdj i t3                    -- op[i].adjoint(tmp_ran[i], out=tmp_dom)
  let d2 := P.divV d (P.sens i)            -- tmp_dom /= sensitivities[i]
  let x' := P.mulV s.x d2                  -- x *= tmp_dom
  ⟨x', d2, upd s.tmpRan i t3, s.log ++ [x']⟩   -- callback(x) inside the subset loop

def OsmlemP.step (P : OsmlemP V W) (s : OsmlemS V W) : OsmlemS V W := forRange P.inner P.nOps s

end Osmlem

/-! ## Steepest descent and the backtracking line search (`gradient.py`, `steplen.py`) -/
section Steepest
variable {K V : Type}

def absK [OfNat K 0] [LT K] [DecidableLT K] [Neg K] (a : K) : K := if a < 0 then -a else a

/-- `BacktrackingLineSearch.__call__` with `estimate_step=False`: the `while True` loop with
`fuel = max_num_iter + 1 - num_iter` trials left.  `none` = the code raises. -/
def btLoop [OfNat K 0] [OfNat K 1] [LT K] [DecidableLT K] [LE K] [DecidableLE K] [Neg K] [Sub K]
    [Mul K] [SMul K V] [Add V]
    (f : V → K) (x dir : V) (fx dd tau discount : K) : Nat → K → Option K
  | 0, _ => none                                          -- num_iter > max_num_iter: raise
  | fuel + 1, alpha =>
    let point := lincomb 1 x alpha dir                    -- point.lincomb(1, x, alpha, direction)
    let fval := f point
    let expected := absK (alpha * dd * discount)          -- np.abs(alpha * dir_derivative * discount)
    if fval ≤ fx - expected then
      (if fval < fx then some alpha else none)            -- break; assert fval < fx
    else btLoop f x dir fx dd tau discount fuel (alpha * tau)   -- num_iter += 1; alpha *= tau

def backtracking [OfNat K 0] [OfNat K 1] [LT K] [DecidableLT K] [LE K] [DecidableLE K] [Neg K]
    [Sub K] [Mul K] [DecidableEq K] [SMul K V] [Add V]
    (f : V → K) (tau discount : K) (maxNumIter : Nat) (x dir : V) (dd : K) : Option K :=
  if dd = 0 then none                                     -- raise ValueError('dir_derivative == 0')
  else
    let alpha : K := if 0 < dd then -1 else 1             -- alpha = 1.0; if dd > 0: alpha *= -1
    btLoop f x dir (f x) dd tau discount (maxNumIter + 1) alpha

structure SteepestP (K V : Type) where
  grad : V → V
  /-- `grad_x.norm() ** 2` -/
  nsq : V → K
  tol : K
  /-- `line_search(x, direction, dir_derivative)`; `none` = raises -/
  ls : V → V → K → Option K
  proj : Option (V → V)

structure SteepestS (V : Type) where
  x : V
  gradX : V
  /-- `return` was executed (converged) -/
  stopped : Bool
  /-- the line search raised -/
  failed : Bool
  log : List V

variable [OfNat K 0] [OfNat K 1] [LT K] [DecidableLT K] [Neg K] [SMul K V] [Add V] [Neg V]

def SteepestP.step (P : SteepestP K V) (s : SteepestS V) : SteepestS V :=
  if s.stopped || s.failed then s else
  let g := P.grad s.x                                   -- grad(x, out=grad_x)
  let dd := -(P.nsq g)                                  -- dir_derivative = -grad_x.norm() ** 2
  if absK dd < P.tol then { s with gradX := g, stopped := true }
  else match P.ls s.x (-g) dd with                      -- step = line_search(x, -grad_x, dir_derivative)
    | none => { s with gradX := g, failed := true }
    | some st =>
      let x' := applyProj P.proj (lincomb 1 s.x (-st) g)   -- x.lincomb(1, x, -step, grad_x)
      { s with x := x', gradX := g, log := s.log ++ [x'] }

end Steepest

/-! ## PDHG with constant `tau, sigma, theta` (`primal_dual_hybrid_gradient.py`) -/
section Pdhg
variable {K V W : Type}

structure PdhgP (K V W : Type) where
  L : V → W
  /-- `L.derivative(x).adjoint` -/
  dAdj : V → W → V
  /-- `f.proximal(tau)` -/
  proxF : V → V
  /-- `g.convex_conj.proximal(sigma)` -/
  proxGc : W → W
  tau : K
  sigma : K
  theta : K

structure PdhgS (V W : Type) where
  x : V
  xRelax : V
  y : W
  xOld : V
  dualTmp : W
  primalTmp : V

variable [OfNat K 1] [Neg K] [Add K] [SMul K V] [SMul K W] [Add V] [Add W]

/-- `x_relax = kwargs.pop('x_relax', None) or x.copy()`, `y = kwargs.pop('y', None) or zero` -/
def PdhgP.init (_P : PdhgP K V W) (x0 : V) (xRelax : Option V) (y : Option W) (zeroW : W)
    (junkV : V) (junkW : W) : PdhgS V W :=
  ⟨x0, xRelax.getD x0, y.getD zeroW, junkV, junkW, junkV⟩

def PdhgP.step (P : PdhgP K V W) (s : PdhgS V W) : PdhgS V W :=
  let xOld := s.x                                        -- x_old.assign(x)
  let dt := P.L s.xRelax                                 -- L(x_relax, out=dual_tmp)
  let dt2 := lincomb 1 s.y P.sigma dt                    -- dual_tmp.lincomb(1, y, sigma, dual_tmp)
  let y' := P.proxGc dt2                                 -- proximal_dual_sigma(dual_tmp, out=y)
  let pt := P.dAdj s.x y'                                -- L.derivative(x).adjoint(y, out=primal_tmp)
  let pt2 := lincomb 1 s.x (-P.tau) pt                   -- primal_tmp.lincomb(1, x, -tau, primal_tmp)
  let x' := P.proxF pt2                                  -- proximal_primal_tau(primal_tmp, out=x)
  let xr := lincomb (1 + P.theta) x' (-P.theta) xOld     -- x_relax.lincomb(1 + theta, x, -theta, x_old)
  ⟨x', xr, y', xOld, dt2, pt2⟩

end Pdhg

/-! ## Conjugate gradients (`iterative.py`) -/
section CG
variable {K V W : Type}

structure CgP (K V : Type) where
  op : V → V
  rhs : V
  /-- `p.inner(d)` -/
  inner : V → V → K
  /-- `r.norm() ** 2` -/
  nsq : V → K

structure CgS (K V : Type) where
  x : V
  r : V
  p : V
  d : V
  sqnormROld : K
  /-- a `return` was executed -/
  stopped : Bool
  log : List V

variable [OfNat K 0] [OfNat K 1] [Neg K] [Div K] [DecidableEq K] [SMul K V] [Add V]

def CgP.init (P : CgP K V) (x0 junk : V) : CgS K V :=
  let r0 := P.op x0                                  -- r = op(x)
  let r := lincomb 1 P.rhs (-(1 : K)) r0                   -- r.lincomb(1, rhs, -1, r)
  let sq := P.nsq r                                  -- sqnorm_r_old = r.norm() ** 2
  ⟨x0, r, r, junk, sq, sq = 0, []⟩                  -- p = r.copy(); if sqnorm_r_old == 0: return

def CgP.step (P : CgP K V) (s : CgS K V) : CgS K V :=
  if s.stopped then s else
  let d := P.op s.p                                  -- op(p, out=d)
  let ipd := P.inner s.p d                           -- inner_p_d = p.inner(d)
  if ipd = 0 then { s with d := d, stopped := true } else   -- if inner_p_d == 0.0: return
  let alpha := s.sqnormROld / ipd
  let x' := lincomb 1 s.x alpha s.p                  -- x.lincomb(1, x, alpha, p)
  let r' := lincomb 1 s.r (-alpha) d                 -- r.lincomb(1, r, -alpha, d)
  let sqNew := P.nsq r'
  let beta := sqNew / s.sqnormROld
  let p' := lincomb 1 r' beta s.p                    -- p.lincomb(1, r, beta, p)
  ⟨x', r', p', d, sqNew, false, s.log ++ [x']⟩

structure CgnP (K V W : Type) where
  op : V → W
  /-- `op.derivative(x).adjoint` -/
  dAdj : V → W → V
  rhs : W
  nsqV : V → K
  nsqW : W → K

structure CgnS (K V W : Type) where
  x : V
  d : W
  p : V
  s : V
  q : W
  sqnormSOld : K
  stopped : Bool
  log : List V

variable [SMul K W] [Add W]

def CgnP.init (P : CgnP K V W) (x0 : V) (junk : W) : CgnS K V W :=
  let d0 := P.op x0                                  -- d = op(x)
  let d := lincomb 1 P.rhs (-(1 : K)) d0                   -- d.lincomb(1, rhs, -1, d)
  let p := P.dAdj x0 d                               -- p = op.derivative(x).adjoint(d)
  ⟨x0, d, p, p, junk, P.nsqV p, false, []⟩           -- s = p.copy(); sqnorm_s_old = s.norm() ** 2

def CgnP.step (P : CgnP K V W) (s : CgnS K V W) : CgnS K V W :=
  if s.stopped then s else
  let q := P.op s.p                                  -- op(p, out=q)
  let sqq := P.nsqW q
  if sqq = 0 then { s with q := q, stopped := true } else   -- if sqnorm_q == 0.0: return
  let a := s.sqnormSOld / sqq
  let x' := lincomb 1 s.x a s.p                      -- x.lincomb(1, x, a, p)
  let d' := lincomb 1 s.d (-a) q                     -- d.lincomb(1, d, -a, q)
  let s' := P.dAdj s.p d'                            -- op.derivative(p).adjoint(d, out=s)
  let sqNew := P.nsqV s'
  let b := sqNew / s.sqnormSOld
  let p' := lincomb 1 s' b s.p                       -- p.lincomb(1, s, b, p)
  ⟨x', d', p', s', q, sqNew, false, s.log ++ [x']⟩

end CG

/-! ## Power method (`oputils.py`) -/
section Power
variable {K V W : Type}

structure PowerP (K V W : Type) where
  /-- `op.adjoint is op` is false: iterate on `A* A` -/
  op : V → W
  adj : W → V
  norm : V → K
  sqrt : K → K
  /-- `x_norm == 0` -/
  isZero : K → Bool
  /-- `np.isclose(opnorm, opnorm_old, rtol, atol)` -/
  isClose : K → K → Bool

structure PowerS (K V : Type) where
  x : V
  opnorm : K
  /-- `break` executed -/
  done : Bool
  /-- raised `ValueError` -/
  failed : Bool

variable [OfNat K 1] [Div K] [SMul K V]

/-- `x = xstart.copy(); x_norm = x.norm(); if x_norm == 0: raise; x /= x_norm;
opnorm = calc_opnorm(x_norm)` -/
def PowerP.init (P : PowerP K V W) (xstart : V) : PowerS K V :=
  let n := P.norm xstart
  if P.isZero n then ⟨xstart, n, false, true⟩
  else ⟨((1 : K) / n) • xstart, P.sqrt n, false, false⟩

/-- One pass of the loop in the `use_normal` branch (`x /= c` is `(1/c) • x`). -/
def PowerP.stepNormal (P : PowerP K V W) (s : PowerS K V) : PowerS K V :=
  if s.done || s.failed then s else
  let tmp := P.op s.x                                -- op(x, out=tmp)
  let x1 := P.adj tmp                                -- op.adjoint(tmp, out=x)
  let n := P.norm x1                                 -- x_norm = x.norm()
  if P.isZero n then { s with x := x1, failed := true } else
  let est := P.sqrt n                                -- opnorm = calc_opnorm(x_norm)
  if P.isClose est s.opnorm then ⟨x1, est, true, false⟩   -- break
  else ⟨((1 : K) / n) • x1, est, false, false⟩       -- x /= x_norm

/-- `power_method_opnorm(op, xstart, maxiter)` for `op.adjoint is not op`
(`ncalls = maxiter // 2`); `none` = raises. -/
def PowerP.run (P : PowerP K V W) (xstart : V) (ncalls : Nat) : Option K :=
  let s := iter P.stepNormal ncalls (P.init xstart)
  if s.failed then none else some s.opnorm

/-- The self-adjoint branch (`op.adjoint is op`): iterate on `A`, estimate `‖A x‖`. -/
structure PowerSelfP (K V : Type) where
  op : V → V
  norm : V → K
  isZero : K → Bool
  isClose : K → K → Bool

def PowerSelfP.init (P : PowerSelfP K V) (xstart : V) : PowerS K V :=
  let n := P.norm xstart
  if P.isZero n then ⟨xstart, n, false, true⟩
  else ⟨((1 : K) / n) • xstart, n, false, false⟩

def PowerSelfP.step (P : PowerSelfP K V) (s : PowerS K V) : PowerS K V :=
  if s.done || s.failed then s else
  let x1 := P.op s.x                                 -- op(x, out=tmp); x, tmp = tmp, x
  let n := P.norm x1
  if P.isZero n then { s with x := x1, failed := true } else
  if P.isClose n s.opnorm then ⟨x1, n, true, false⟩
  else ⟨((1 : K) / n) • x1, n, false, false⟩

def PowerSelfP.run (P : PowerSelfP K V) (xstart : V) (ncalls : Nat) : Option K :=
  let s := iter P.step ncalls (P.init xstart)
  if s.failed then none else some s.opnorm

end Power

/-! ## Douglas–Rachford primal–dual (`douglas_rachford.py`), `l = None`, constant `lam` -/
section DR
variable {K V W : Type}

structure DrP (K V W : Type) where
  m : Nat
  L : Nat → V → W
  Ladj : Nat → W → V
  /-- `f.proximal(tau)` -/
  proxF : V → V
  /-- `g[i].convex_conj.proximal(sigma[i])` -/
  proxGc : Nat → W → W
  tau : K
  sigma : Nat → K
  lam : K
  /-- `l[i].convex_conj.proximal(sigma[i])` when `l` is given (`none`: `l = None`, the step is omitted) -/
  proxLc : Option (Nat → W → W) := none

structure DrS (V W : Type) where
  x : V
  v : Nat → W
  /-- the iterate shown to the callback (`p1` after the proximal step) -/
  p1 : V
  log : List V

variable [OfNat K 1] [OfNat K 2] [Neg K] [Div K] [SMul K V] [SMul K W] [Add V] [Add W]

/-- `L[0].adjoint(v[0], out=z1); for Li, vi in zip(L[1:], v[1:]): z1 += Li.adjoint(vi)`,
`sumAdj k = Σ_{i ≤ k} L_i^* v_i` (called with `m - 1`). -/
def sumAdj (Ladj : Nat → W → V) (v : Nat → W) : Nat → V
  | 0 => Ladj 0 (v 0)
  | k + 1 => sumAdj Ladj v k + Ladj (k + 1) (v (k + 1))

/-- First half of the loop body, up to the callback: `(p1, w1, x - lam*p1)`. -/
def DrP.half (P : DrP K V W) (s : DrS V W) : V × V × V :=
  let z1 := if P.m = 0 then s.x                                  -- z1.assign(x)
    else lincomb 1 s.x (-P.tau / 2) (sumAdj P.Ladj s.v (P.m - 1))  -- z1.lincomb(1, x, -tau / 2, z1)
  let p1 := P.proxF z1                                   -- f.proximal(tau)(z1, out=p1)
  let w1 := lincomb 2 p1 (-(1 : K)) s.x                        -- w1.lincomb(2, p1, -1, x)
  let xa := lincomb 1 s.x (-P.lam) p1                    -- x.lincomb(1, x, -lam_k, p1)
  (p1, w1, xa)

/-- A full (non-final) loop body. -/
def DrP.step (P : DrP K V W) (zeroV : V) (s : DrS V W) : DrS V W :=
  let (p1, w1, xa) := P.half s
  -- p2[i] = prox(v[i] + sigma[i]/2 * L[i](w1)); w2[i] = 2 p2[i] - v[i]
  let p2 : Nat → W := fun i => P.proxGc i (lincomb 1 (s.v i) (P.sigma i / 2) (P.L i w1))
  let w2 : Nat → W := fun i => lincomb 2 (p2 i) (-(1 : K)) (s.v i)
  let q1 := if P.m = 0 then zeroV else sumAdj P.Ladj w2 (P.m - 1)   -- p1 = sum L_i^* w2_i
  let z1 := lincomb 1 w1 (-P.tau / 2) q1                 -- z1.lincomb(1, w1, -tau / 2, p1)
  let x' := lincomb 1 xa P.lam z1                        -- x.lincomb(1, x, lam_k, z1)
  let r1 := lincomb 2 z1 (-(1 : K)) w1                         -- p1.lincomb(2, z1, -1, w1)
  -- z2i = w2[i] + sigma[i]/2 * L[i](p1); v[i] += lam (z2i - p2[i])  (two lincombs)
  let v' : Nat → W := fun i =>
    let z2 := lincomb 1 (w2 i) (P.sigma i / 2) (P.L i r1)
    let z2 := match P.proxLc with                    -- if l is not None: prox_cc_l[i](sigma[i])(z2i, out=z2i)
      | some pl => pl i z2
      | none => z2
    lincomb 1 (lincomb 1 (s.v i) P.lam z2) (-P.lam) (p2 i)
  ⟨x', v', p1, s.log ++ [p1]⟩

/-- The last loop body: callback, then `x.assign(p1); return`. -/
def DrP.last (P : DrP K V W) (s : DrS V W) : DrS V W :=
  let (p1, _, _) := P.half s
  ⟨p1, s.v, p1, s.log ++ [p1]⟩

/-- `douglas_rachford_pd(x, f, g, L, niter, tau, sigma, lam=lam)` -/
def DrP.run (P : DrP K V W) (zeroV : V) (niter : Nat) (s : DrS V W) : DrS V W :=
  match niter with
  | 0 => s
  | n + 1 => P.last (iter (P.step zeroV) n s)

end DR

/-! ## Forward–backward primal–dual (`forward_backward.py`), `l = None` -/
section FBPD
variable {K V W : Type}

structure FbpdP (K V W : Type) where
  m : Nat
  L : Nat → V → W
  Ladj : Nat → W → V
  /-- `f.proximal(tau)` -/
  proxF : V → V
  gradH : V → V
  /-- `g[i].convex_conj.proximal(sigma[i])` -/
  proxGc : Nat → W → W
  tau : K
  sigma : Nat → K
  /-- `l[i].convex_conj.gradient` when `l` is given (`none`: `l = None`, the gradient step is omitted) -/
  gradLc : Option (Nat → W → W) := none

structure FbpdS (V W : Type) where
  x : V
  v : Nat → W
  y : V

/-- In the code as it exists, `x_old = x` binds a second NAME to the iterate (no copy), so
after the in-place proximal step `x_old` is the NEW iterate (DESIGN §8, F12). -/
def fbpdXOldAliased : Bool := true

variable [OfNat K 1] [OfNat K 2] [Neg K] [SMul K V] [SMul K W] [Add V] [Sub V] [Add W] [Sub W]

def FbpdP.step (P : FbpdP K V W) (aliased : Bool) (s : FbpdS V W) : FbpdS V W :=
  -- tmp_1 = grad_h(x) + sum(Li.adjoint(vi) for Li, vi in zip(L, v))
  let tmp1 := if P.m = 0 then P.gradH s.x else P.gradH s.x + sumAdj P.Ladj s.v (P.m - 1)
  let x' := P.proxF (s.x - P.tau • tmp1)                 -- prox_f(tau)(x - tau * tmp_1, out=x)
  let xOld := if aliased then x' else s.x                -- x_old = x   (alias!)
  let y := lincomb 2 x' (-(1 : K)) xOld                        -- y.lincomb(2.0, x, -1, x_old)
  -- tmp_2 = sigma[i] * (L[i](y) - grad_cc_l[i](v[i]))  if l is not None else  sigma[i] * L[i](y)
  -- prox_cc_g[i](sigma[i])(v[i] + tmp_2, out=v[i])
  let v' : Nat → W := fun i =>
    let tmp2 := match P.gradLc with
      | some gl => P.sigma i • (P.L i y - gl i (s.v i))
      | none => P.sigma i • P.L i y
    P.proxGc i (s.v i + tmp2)
  ⟨x', v', y⟩

end FBPD

/-! ## Default step-size rules (`pdhg_stepsize`, `douglas_rachford_pd_stepsize`, `landweber(omega=None)`) -/
section Stepsize
variable {K : Type} [OfNat K 0] [OfNat K 1] [OfNat K 2] [OfNat K 9] [OfNat K 10] [Add K] [Mul K] [Div K]

/-- `pdhg_stepsize(L, tau, sigma)` with `L_norm = L.norm(estimate=True)` (or the float given). -/
def pdhgStepsize (sqrt : K → K) (Lnorm : K) (tau sigma : Option K) : K × K :=
  match tau, sigma with
  | some t, some s => (t, s)                                   -- returned as-is
  | none, none => let t := sqrt (9 / 10) / Lnorm; (t, t)       -- tau = sigma = sqrt(0.9) / L_norm
  | none, some s => (9 / 10 / (s * (Lnorm * Lnorm)), s)        -- tau = 0.9 / (sigma * L_norm ** 2)
  | some t, none => (t, 9 / 10 / (t * (Lnorm * Lnorm)))        -- sigma = 0.9 / (tau * L_norm ** 2)

def sumK (l : List K) : K := l.foldl (· + ·) 0                 -- Python `sum(...)`

def natK : Nat → K                                             -- `len(L_norms)` as a scalar
  | 0 => 0
  | n + 1 => natK n + 1

/-- `douglas_rachford_pd_stepsize(L, tau, sigma)` on the list of operator norms. -/
def drStepsize (norms : List K) (tau : Option K) (sigma : Option (List K)) : K × List K :=
  let sig (t : K) := norms.map (fun n => 2 / (natK norms.length * t * (n * n)))
  match tau, sigma with
  | none, none => let t := 1 / sumK norms; (t, sig t)          -- tau = 1 / sum(L_norms)
  | none, some s =>                                            -- tau = 2 / sum(si * Li_norm ** 2)
      (2 / sumK (List.zipWith (fun si n => si * (n * n)) s norms), s)
  | some t, none => (t, sig t)
  | some t, some s => (t, s)

/-- `landweber`: `omega = 1 / op.norm(estimate=True) ** 2` when `omega is None`. -/
def landweberDefaultOmega (est : K) : K := 1 / (est * est)

end Stepsize

end OdlModel.Solvers
