/-
C17 — executable model of ODL's NumPy-ufunc glue *as the code exists*:

* `tensorDispatch`   ↔ `odl/space/npy_tensors.py : NumpyTensor.__array_ufunc__`
* `discrDispatch`    ↔ `odl/discr/discr_space.py : DiscretizedSpaceElement.__array_ufunc__`
* `powerDispatch`    ↔ `odl/space/pspace.py : ProductSpaceElement.__array__/__array_wrap__`
                        driven by NumPy's default protocol (no `__array_ufunc__` there)
* `element`          ↔ `NumpyTensorSpace.element(arr)` (no-copy rule, `ndmin` padding)
* `legacyCall`       ↔ `odl/util/ufuncs.py : wrap_ufunc_base`, `TensorSpaceUfuncs.sum/…`

NumPy itself is a PARAMETER: what `ufunc.method(*arrays, **kw)` returns on the unwrapped
arrays (`NpRes`: exception class, or per output `None` / scalar / array of a shape and dtype).
The model is the decision logic around that call.  Core Lean only.
-/
namespace OdlModel.Ufunc

inductive Method | call | reduce | accumulate | outer | at | reduceat
  deriving DecidableEq, Repr

inductive Kind | tensor | discr | power
  deriving DecidableEq, Repr

inductive DType
  | bool | int8 | int16 | int32 | int64 | uint8 | uint16 | uint32 | uint64
  | float16 | float32 | float64 | longdouble | complex64 | complex128 | clongdouble | object
  deriving DecidableEq, Repr

/-- `odl.util.is_floating_dtype`: real or complex floating point. -/
def DType.isFloating : DType → Bool
  | .float16 | .float32 | .float64 | .longdouble | .complex64 | .complex128 | .clongdouble => true
  | _ => false

/-- `odl.util.is_numeric_dtype`: `np.number` subtypes (`bool`, `object` are not). -/
def DType.isNumeric : DType → Bool
  | .bool | .object => false
  | _ => true

/-- `NumpyTensorSpace.available_dtypes()`: everything numeric plus `bool`; `object` is refused
by the space constructor (`ValueError('dtype … not supported')`). -/
def DType.available : DType → Bool
  | .object => false
  | _ => true

/-- kind letter and item bits (per component for complex) -/
inductive DKind | b | i | u | f | c | O
  deriving DecidableEq, Repr

def DType.kind : DType → DKind
  | .bool => .b
  | .int8 | .int16 | .int32 | .int64 => .i
  | .uint8 | .uint16 | .uint32 | .uint64 => .u
  | .float16 | .float32 | .float64 | .longdouble => .f
  | .complex64 | .complex128 | .clongdouble => .c
  | .object => .O

def DType.bits : DType → Nat
  | .bool => 1
  | .int8 | .uint8 => 8
  | .int16 | .uint16 | .float16 => 16
  | .int32 | .uint32 | .float32 | .complex64 => 32
  | .int64 | .uint64 | .float64 | .complex128 => 64
  | .longdouble | .clongdouble => 128
  | .object => 0

/-- integer of `k` bits fits a float of `m` bits (NumPy's safe-cast table) -/
def intFitsFloat (k m : Nat) : Bool := (k ≤ 8 && 16 ≤ m) || (k ≤ 16 && 32 ≤ m) || 64 ≤ m

/-- `np.can_cast(src, dst)` with the default (`safe`) rule, as used by the space constructor
to check a weight array against the space dtype. Checked against the live NumPy table
(`Gen/UfuncLegacy.lean : npCanCast`) by `C17.canCast_matches_numpy`. -/
def DType.canCast (src dst : DType) : Bool :=
  if src = dst then true else
  match src.kind, dst.kind with
  | _, .O => true
  | .O, _ => false
  | .b, _ => true
  | .i, .i => src.bits ≤ dst.bits
  | .u, .u => src.bits ≤ dst.bits
  | .u, .i => src.bits < dst.bits
  | .i, .f | .u, .f | .i, .c | .u, .c => intFitsFloat src.bits dst.bits
  | .f, .f | .f, .c | .c, .c => src.bits ≤ dst.bits
  | _, _ => false

/-- Exponent of a weighting; `none` is `inf`. -/
abbrev Exponent := Option Rat

inductive Weighting
  | const (c : Rat) (exp : Exponent)
  | array (wdt : DType) (exp : Exponent)   -- `…ArrayWeighting`: weight array of dtype `wdt`, opaque values
  | custom (exp : Exponent)                -- `…CustomInner/Norm/Dist`: an opaque object
  deriving DecidableEq, Repr

def Weighting.exp : Weighting → Exponent
  | .const _ e => e
  | .array _ e => e
  | .custom e => e

/-- What a space constructor without `weighting`/`exponent` arguments uses. -/
def Weighting.default : Weighting := .const 1 (some 2)

/-- Cell side of one partition axis: `partition.cell_sides[i]` for a uniform axis
(`(hi-lo)/n`, or `(hi-lo)/(n-1)` etc. with nodes on the boundary — the code's value is
carried, not recomputed), or the grid coordinates of a non-uniform axis. -/
inductive Side
  | uniform (s : Rat)
  | nonuniform (pts : List Rat)
  deriving DecidableEq, Repr

/-- One axis of a partition: `[lo, hi]`, `n` cells, cell side. -/
structure Cell where
  lo : Rat
  hi : Rat
  n : Nat
  side : Side
  deriving DecidableEq, Repr

/-- `partition.cell_volume` of a uniform partition; `none` (NaN in the code) otherwise. -/
def cellVolume : List Cell → Option Rat
  | [] => some 1
  | c :: t =>
    match c.side, cellVolume t with
    | .uniform s, some v => some (s * v)
    | _, _ => Option.none

def isUniform (p : List Cell) : Bool := (cellVolume p).isSome

/-- Kind of one entry of the `out` tuple, as the `isinstance` tests see it.
`own` is `type(self)`; `tensor` is the underlying `NumpyTensor` type when `self` is a
discretized element; `ndarray0` is a 0-d `numpy.ndarray`. -/
inductive OutKind | none | own | tensor | ndarray | ndarray0 | foreign
  deriving DecidableEq, Repr

def OutKind.given : OutKind → Bool
  | .none => false
  | _ => true

/-- Kind of one input operand. -/
inductive InKind | own | tensor | ndarray | scalar | list | foreign
  deriving DecidableEq, Repr

/-- One value returned by NumPy on the unwrapped operands. -/
inductive NpVal
  | none
  | scalar
  | arr (shape : List Nat) (dt : DType)
  deriving DecidableEq, Repr

/-- NumPy's behaviour on the unwrapped call: raised `cls`, or returned these values. -/
inductive NpRes
  | err (cls : String)
  | ok (vals : List NpVal)
  deriving DecidableEq, Repr

/-- One returned object. `given i` is *the very object* passed at position `i` of `out`. -/
inductive Ret
  | given (pos : Nat)
  | none
  | scalar
  | raw (shape : List Nat) (dt : DType)
  | wrapT (shape : List Nat) (dt : DType) (w : Weighting)
  | wrapD (shape : List Nat) (dt : DType) (w : Weighting) (part : List Cell)
  | wrapP (shape : List Nat) (dt : DType)
  deriving DecidableEq, Repr

inductive Outcome
  | notImpl
  | err (cls : String)
  | ok (rets : List Ret)
  deriving DecidableEq, Repr

/-- `axis=` keyword: absent, `None`, or integers as given (negative ones NOT normalised). -/
inductive Axis | absent | none | ints (l : List Int)
  deriving DecidableEq, Repr

/-! ### `NumpyTensorSpace.element(arr)` -/

/-- `np.array(…, ndmin=ndim)` prepends axes of length one. -/
def padShape (ndim : Nat) (s : List Nat) : List Nat :=
  List.replicate (ndim - s.length) 1 ++ s

inductive Order | any | C | F
  deriving DecidableEq, Repr

structure ArrDesc where
  shape : List Nat
  dt : DType
  writeable : Bool
  ccontig : Bool
  fcontig : Bool
  deriving DecidableEq, Repr

inductive ElemOutcome
  | err (cls : String)
  | ok (sharesMemory : Bool)
  deriving DecidableEq, Repr

def orderOk (o : Order) (a : ArrDesc) : Bool :=
  match o with
  | .any => true
  | .C => a.ccontig
  | .F => a.fcontig

/-- `space.element(arr)` for an `ndarray`: `np.array(arr, copy=False, dtype, ndmin, order)`
copies iff dtype differs or the requested order is not met; a read-only result is copied;
then the (padded) shape must be the space shape. -/
def element (sshape : List Nat) (sdt : DType) (a : ArrDesc) (o : Order) : ElemOutcome :=
  if padShape sshape.length a.shape ≠ sshape then .err "ValueError"
  else .ok (a.dt = sdt && orderOk o a && a.writeable)

/-! ### NumPy's axis rule (specification side, compared with the live NumPy) -/

/-- NumPy: which position an `axis` entry denotes. -/
def npAxisPos (ndim : Nat) (a : Int) : Option Nat :=
  if 0 ≤ a ∧ a < (ndim : Int) then some a.toNat
  else if -(ndim : Int) ≤ a ∧ a < 0 then some (a + ndim).toNat
  else none

/-- keep the entries whose running position satisfies `p` -/
def keepIdx {α} (p : Nat → Bool) : List α → Nat → List α
  | [], _ => []
  | x :: t, i => if p i then x :: keepIdx p t (i + 1) else keepIdx p t (i + 1)

/-- positions denoted by an axis list; `none` = NumPy's AxisError -/
def npPositions (ndim : Nat) : List Int → Option (List Nat)
  | [] => some []
  | a :: t =>
    match npAxisPos ndim a, npPositions ndim t with
    | some p, some ps => some (p :: ps)
    | _, _ => none

/-- NumPy's `reduce` over `axis`: delete the denoted positions (AxisError = none).
This is NumPy's rule stated WITHOUT a modulus and without index lists; it is executed by the
driver (`npreduce`) against the live NumPy. -/
def npReduce {α} (l : List α) (axis : List Int) : Option (List α) :=
  match npPositions l.length axis with
  | some pos =>
    if pos.eraseDups.length = pos.length   -- "duplicate value in 'axis'" is an error too
    then some (keepIdx (fun i => !pos.contains i) l 0) else Option.none
  | Option.none => Option.none

/-! ### Tensor level -/

structure TSelf where
  shape : List Nat
  w : Weighting
  deriving DecidableEq, Repr

/-- Number of `out` entries accepted per method. -/
def arityOk (m : Method) (nout n : Nat) : Bool :=
  if m = .call then n = 0 || n = nout else n = 0 || n = 1

def validOutT : OutKind → Bool
  | .none | .own | .ndarray | .ndarray0 => true
  | _ => false

/-- `type(self.space)(shape, dtype, weighting=w)` / `…(shape, dtype)`: the weighting of the
new space, or the constructor's `ValueError` (unsupported dtype; a weighting for a
non-numeric dtype; a weight array that cannot be cast safely to the dtype). -/
def ctorT (dt : DType) (w : Option Weighting) : Except String Weighting :=
  if !dt.available then .error "ValueError" else
  match w with
  | Option.none => .ok Weighting.default
  | some (.array wdt e) =>
      if !dt.isNumeric then .error "ValueError"
      else if wdt.canCast dt then .ok (.array wdt e) else .error "ValueError"
  | some (.const c e) => if !dt.isNumeric then .error "ValueError" else .ok (.const c e)
  | some (.custom e) => if !dt.isNumeric then .error "ValueError" else .ok (.custom e)

/-- Wrapping in `__call__`: the space is built with `res.shape` and `res.dtype`. With one
output (`prop`) the weighting is propagated iff the result is floating and has the element's
shape (constant 1 with the same exponent if broadcasting enlarged it); two-output ufuncs get
the default weighting. -/
def wrapCall (s : TSelf) (prop : Bool) (v : NpVal) : Except String Ret :=
  match v with
  | .arr sh dt =>
      let w : Option Weighting :=
        if prop && dt.isFloating then
          (if sh ≠ s.shape then some (.const 1 s.w.exp) else some s.w)
        else Option.none
      match ctorT dt w with
      | .error e => .error e
      | .ok w => .ok (.wrapT sh dt w)
  | _ => .error "AttributeError"

/-- Wrapping for the other methods: space built with `res.shape`; weighting propagated iff
floating and unchanged shape, else constant 1 with the same exponent; default if non-floating. -/
def wrapMethod (s : TSelf) (sh : List Nat) (dt : DType) : Except String Ret :=
  let w : Option Weighting :=
    if dt.isFloating then
      (if sh ≠ s.shape then some (.const 1 s.w.exp) else some s.w)
    else Option.none
  match ctorT dt w with
  | .error e => .error e
  | .ok w => .ok (.wrapT sh dt w)

/-- One result: the constructor's / `element`'s exception propagates. -/
def out1 (a : Except String Ret) : Outcome :=
  match a with
  | .error e => .err e
  | .ok r => .ok [r]

/-- Two results, built in order (the first exception wins). -/
def out2 (a b : Except String Ret) : Outcome :=
  match a, b with
  | .error e, _ => .err e
  | .ok _, .error e => .err e
  | .ok r1, .ok r2 => .ok [r1, r2]

/-- `NumpyTensor.__array_ufunc__(ufunc, method, *inputs, out=outs, **kw)`. -/
def tensorDispatch (s : TSelf) (m : Method) (nout : Nat) (outs : List OutKind) (np : NpRes) :
    Outcome :=
  if !arityOk m nout outs.length then .err "ValueError"
  else if !outs.all validOutT then .notImpl
  else
    match np with
    | .err c => .err c
    | .ok vals =>
      match m with
      | .call =>
        if nout = 1 then
          match vals with
          | [v] => if (outs.getD 0 .none).given then .ok [.given 0]
                   else out1 (wrapCall s true v)
          | _ => .err "ValueError"
        else if nout = 2 then
          match vals with
          | [v1, v2] =>
            out2 (if (outs.getD 0 .none).given then .ok (.given 0) else wrapCall s false v1)
                 (if (outs.getD 1 .none).given then .ok (.given 1) else wrapCall s false v2)
          | _ => .err "ValueError"
        else .err "NotImplementedError"
      | _ =>
        match vals with
        | [.none] => .ok [.none]
        | [.scalar] => .ok [.scalar]
        | [.arr sh dt] =>
          if (outs.getD 0 .none).given then .ok [.given 0]
          else out1 (wrapMethod s sh dt)
        | _ => .err "ValueError"

/-! ### Discretized level -/

structure DSelf where
  part : List Cell
  dt : DType
  w : Weighting       -- weighting of `space.tspace` (constant cell volume by default)
  deriving DecidableEq, Repr

def DSelf.shape (s : DSelf) : List Nat := s.part.map (·.n)
def DSelf.toT (s : DSelf) : TSelf := ⟨s.shape, s.w⟩

def validOutD : OutKind → Bool
  | .foreign => false
  | _ => true

/-- `getattr(o, 'tensor', o)` -/
def unwrapOut : OutKind → OutKind
  | .own => .own
  | .tensor => .own
  | o => o

/-- `reduced_axes` of the code: the axes that REMAIN. `axis` absent or `None` gives
`range(1, ndim)`; otherwise `axis = tuple(int(a) % ndim for a in axis)` and
`[i for i in range(ndim) if i not in axis]`. -/
def reducedAxes (ndim : Nat) : Axis → List Nat
  | .absent | .none => (List.range ndim).drop 1
  | .ints l =>
      (List.range ndim).filter (fun i => !(l.map (· % (ndim : Int))).contains (i : Int))

def cellDefault : Cell := ⟨0, 0, 0, .uniform 0⟩

/-- `DiscretizedSpace(self.partition, res_tens.space)` around a tensor-level result. -/
def rewrapSame (s : DSelf) : Ret → Except String Ret
  | .wrapT sh dt w => if sh = s.shape then .ok (.wrapD sh dt w s.part) else .error "ValueError"
  | r => .ok r

/-- `space.byaxis_in[kept]`: weighting of the sub-space. Constant weighting on a uniform
sub-partition → its cell volume (whatever the constant was); otherwise `tspace.byaxis[kept]`:
a constant or custom weighting is carried over, an ARRAY weighting is indexed along its first
axis (`array[kept]`), which never has the new shape → the constructor raises. -/
def byaxisWeighting (w : Weighting) (part' : List Cell) : Except String Weighting :=
  match w, cellVolume part' with
  | .const _ e, some v => .ok (.const v e)
  | .const c e, Option.none => .ok (.const c e)
  | .array _ _, _ => .error "ValueError"
  | .custom e, _ => .ok (.custom e)

/-- `self.space.byaxis_in[reduced_axes].astype(res.dtype).element(res_tens)`. -/
def reduceWrap (s : DSelf) (axis : Axis) : Ret → Except String Ret
  | .wrapT sh dt _ =>
      let kept := reducedAxes s.part.length axis
      let part' := kept.map (fun i => s.part.getD i cellDefault)
      let newshape := part'.map (·.n)
      match byaxisWeighting s.w part' with
      | .error e => .error e
      | .ok w0 =>
        -- `.astype(dt)`: same dtype → same space; floating → weighting kept; else default
        let w : Weighting := if dt = s.dt then w0 else if dt.isFloating then w0 else .default
        if !dt.available then .error "ValueError"
        else if padShape newshape.length sh = newshape then .ok (.wrapD newshape dt w part')
        else .error "ValueError"
  | r => .ok r

/-- `outer`: partitions appended; if the result dtype is numeric and BOTH weightings are
constant the constants are multiplied and the tensor space rebuilt with that weighting and the
result tensor's exponent; otherwise the result tensor's own space is used. -/
def outerWrap (p1 p2 : DSelf) : Ret → Except String Ret
  | .wrapT sh dt wT =>
      if sh = (p1.part ++ p2.part).map (·.n) then
        let w : Weighting :=
          match dt.isNumeric, p1.w, p2.w with
          | true, .const c1 _, .const c2 _ => .const (c1 * c2) wT.exp
          | _, _, _ => wT
        .ok (.wrapD sh dt w (p1.part ++ p2.part))
      else .error "ValueError"
  | r => .ok r

def bindOutcome (o : Outcome) (f : List Ret → Outcome) : Outcome :=
  match o with
  | .ok l => f l
  | other => other

/-- `DiscretizedSpaceElement.__array_ufunc__`. `ins` are the kinds of the inputs, `inParts`
the spaces of the two inputs of `outer` (when both are discretized elements). -/
def discrDispatch (s : DSelf) (m : Method) (nout : Nat) (outs : List OutKind)
    (ins : List InKind) (inParts : List DSelf) (axis : Axis) (keepdims : Bool) (np : NpRes) :
    Outcome :=
  if !arityOk m nout outs.length then .err "ValueError"
  else if !outs.all validOutD then .notImpl
  else
    match m with
    | .call =>
      if nout = 1 then
        let o := outs.getD 0 .none
        bindOutcome (tensorDispatch s.toT .call 1 [unwrapOut o] np) fun l =>
          match l with
          | [r] => if o.given then .ok [.given 0] else out1 (rewrapSame s r)
          | _ => .err "ValueError"
      else if nout = 2 then
        let o1 := outs.getD 0 .none
        let o2 := outs.getD 1 .none
        bindOutcome (tensorDispatch s.toT .call 2 [unwrapOut o1, unwrapOut o2] np) fun l =>
          match l with
          | [r1, r2] =>
            out2 (if o1.given then .ok (.given 0) else rewrapSame s r1)
                 (if o2.given then .ok (.given 1) else rewrapSame s r2)
          | _ => .err "ValueError"
      else .err "NotImplementedError"
    | _ =>
      if m = .reduce && keepdims then .err "ValueError"
      else if m = .reduceat then .err "ValueError"
      else if m = .outer && !ins.all (· = .own) then .err "TypeError"
      else
        let o := outs.getD 0 .none
        let touts := if m = .at then [] else [unwrapOut o]
        bindOutcome (tensorDispatch s.toT m nout touts np) fun l =>
          match l with
          | [.scalar] => .ok [.scalar]
          | [.none] => .ok [.none]
          | [r] =>
            if o.given then .ok [.given 0]
            else match m with
              | .accumulate => out1 (rewrapSame s r)
              | .outer =>
                match inParts with
                | [p1, p2] => out1 (outerWrap p1 p2 r)
                | _ => .err "ValueError"
              | .reduce => out1 (reduceWrap s axis r)
              | _ => .err "RuntimeError"
          | _ => .err "ValueError"

/-! ### Power spaces: NumPy's default protocol around `__array__` / `__array_wrap__` -/

structure PSelf where
  shape : List Nat
  dt : DType
  deriving DecidableEq, Repr

/-- `ProductSpaceElement.__array_wrap__(array)`: `()`-shaped → Python scalar; otherwise
`self.space.astype(array.dtype).element(array)`: the array must have the space's shape; the
wrapping power space has the ARRAY's dtype. -/
def powerWrap (s : PSelf) : NpVal → Except String Ret
  | .none => .ok .none
  | .scalar => .ok .scalar
  | .arr sh dt => if sh = [] then .ok .scalar
                  else if sh = s.shape then .ok (.wrapP s.shape dt) else .error "ValueError"

/-- NumPy (no `__array_ufunc__` on the element): a non-array `out` is a `TypeError`,
`at` needs a real array, `outer` results are not passed to `__array_wrap__`. -/
def powerDispatch (s : PSelf) (m : Method) (nin nout : Nat) (outs : List OutKind) (np : NpRes) :
    Outcome :=
  if outs.any (fun o => o = .own || o = .tensor || o = .foreign) then .err "TypeError"
  else if m = .at && nin ≤ 2 && nout = 1 then .err "TypeError"   -- "first operand must be array"
  else
    match np with
    | .err c => .err c
    | .ok vals =>
      if m = .at then .err "TypeError" else
      let one (i : Nat) (v : NpVal) : Except String Ret :=
        if (outs.getD i .none).given then .ok (.given i)
        else if m = .outer then
          (match v with
           | .arr sh dt => .ok (.raw sh dt)
           | .scalar => .ok .scalar
           | .none => .ok .none)
        else powerWrap s v
      match vals with
      | [v] => out1 (one 0 v)
      | [v1, v2] => out2 (one 0 v1) (one 1 v2)
      | _ => .err "ValueError"

/-! ### Top level -/

structure Req where
  kind : Kind
  shape : List Nat
  dt : DType
  w : Weighting
  part : List Cell
  method : Method
  nin : Nat
  nout : Nat
  outs : List OutKind
  ins : List InKind
  inParts : List DSelf
  axis : Axis
  keepdims : Bool
  np : NpRes
  deriving Repr

def Req.dself (r : Req) : DSelf := ⟨r.part, r.dt, r.w⟩

def dispatch (r : Req) : Outcome :=
  match r.kind with
  | .tensor => tensorDispatch ⟨r.shape, r.w⟩ r.method r.nout r.outs r.np
  | .discr => discrDispatch r.dself r.method r.nout r.outs r.ins r.inParts r.axis r.keepdims r.np
  | .power => powerDispatch ⟨r.shape, r.dt⟩ r.method r.nin r.nout r.outs r.np

/-! ### Legacy `x.ufuncs.<name>` interface -/

/-- How `wrap_ufunc_base` turns the user's `out` argument into the tuple it forwards. -/
inductive OutRule
  | tupleIfNoneOrOwn   -- `if out is None or isinstance(out, (type(elem), type(elem.data))): out = (out,)`
  | pairIfNone         -- `if out is None: out = (None, None)`
  | tupleAlways        -- `out=(out,)`
  deriving DecidableEq, Repr

/-- The user's `out=`: absent, a single object, or an explicit tuple. -/
inductive LegacyOut
  | absent
  | single (o : OutKind)
  | tuple (l : List OutKind)
  deriving DecidableEq, Repr

/-- The `out` tuple handed to `__array_ufunc__`; `none` = the object is forwarded raw
(not a tuple; not modelled). -/
def legacyOutTuple : OutRule → LegacyOut → Option (List OutKind)
  | .tupleIfNoneOrOwn, .absent => some [.none]
  | .tupleIfNoneOrOwn, .single o =>
      if o = .none || o = .own || o = .ndarray || o = .ndarray0 then some [o] else Option.none
  | .tupleIfNoneOrOwn, .tuple l => some l
  | .pairIfNone, .absent => some [.none, .none]
  | .pairIfNone, .tuple l => some l
  | .pairIfNone, .single _ => Option.none
  | .tupleAlways, .absent => some [.none]
  | .tupleAlways, .single o => some [o]
  | .tupleAlways, .tuple _ => Option.none

/-- `x.ufuncs.<name>(…, out=…)`: look the name up in NumPy's table, pick the wrapper rule of
its `(nin, nout)`, forward to `__array_ufunc__(np.<name>, '__call__', …)`.
Returns the NumPy ufunc the call is forwarded to and the request. -/
def legacyCall (names : List String) (rules : List ((Nat × Nat) × OutRule))
    (npTable : List (String × String × Nat × Nat)) (name : String) (out : LegacyOut)
    (base : Req) : Option (String × Req) := do
  if !names.contains name then Option.none
  let (_, uname, nin, nout) ← npTable.find? (·.1 = name)
  let (_, rule) ← rules.find? (·.1 = (nin, nout))
  let outs ← legacyOutTuple rule out
  some (uname, { base with method := .call, nin := nin, nout := nout, outs := outs })

/-! ### Legacy interface on product spaces (`ProductSpaceUfuncs`) -/

/-- The three wrappers of `wrap_ufunc_productspace`. -/
inductive PLegacyRule
  | mapOrInto   -- (1,1): no out → `space.element([x.ufuncs.f() for x in elem])`; else into `out`
  | twoOut      -- (1,2): missing outs are fresh elements OF THE SPACE; component calls write into them
  | binary      -- (2,1): like `mapOrInto`, second operand zipped if it is in the space
  deriving DecidableEq, Repr

/-- bool < integers < floats < complex: NumPy's `same_kind` casting between these kinds. -/
def DType.kindRank : DType → Nat
  | .bool => 0
  | .int8 | .int16 | .int32 | .int64 | .uint8 | .uint16 | .uint32 | .uint64 => 1
  | .float16 | .float32 | .float64 | .longdouble => 2
  | .complex64 | .complex128 | .clongdouble => 3
  | .object => 4

def castSameKind (src dst : DType) : Bool := src.kindRank ≤ dst.kindRank

/-- `px.ufuncs.<name>(…)`: results are collected component-wise (NumPy's result is the
parameter) and stored in an element of the ORIGINAL space (`self.elem.space.element(…)`):
the wrapping space keeps the space's dtype whatever NumPy's result dtype is (open part of
C17-F6).  A given `out` is returned itself. -/
def powerLegacy (s : PSelf) (rule : PLegacyRule) (outs : List OutKind) (np : NpRes) : Outcome :=
  match np with
  | .err c => .err c
  | .ok vals =>
    match rule with
    | .mapOrInto | .binary =>
      (match vals with
       | [.arr sh _] =>
         if (outs.getD 0 .none).given then .ok [.given 0]
         else if sh = s.shape then .ok [.wrapP s.shape s.dt] else .err "ValueError"
       | _ => .err "ValueError")
    | .twoOut =>
      (match vals with
       | [.arr _ d1, .arr _ d2] =>
         let g1 := (outs.getD 0 .none).given
         let g2 := (outs.getD 1 .none).given
         -- a fresh out has the space's dtype: the component ufunc must cast into it
         if (g1 || castSameKind d1 s.dt) && (g2 || castSameKind d2 s.dt) then
           .ok [if g1 then .given 0 else .wrapP s.shape s.dt,
                if g2 then .given 1 else .wrapP s.shape s.dt]
         else .err "UFuncTypeError"
       | _ => .err "ValueError")

/-- The `(1,2)` wrapper of `wrap_ufunc_productspace` (as of /repo 1021b41):
`def wrapper(self, out1=None, out2=None, out=None, **kwargs)` with
`if out is not None: out1, out2 = out` — the tuple form (the one the wrapper itself passes to
its parts, which may be product spaces again) takes precedence over `out1`/`out2`. -/
def twoOutArgs (out1 out2 : OutKind) (out : Option (OutKind × OutKind)) : List OutKind :=
  match out with
  | some (a, b) => [a, b]
  | Option.none => [out1, out2]

/-- `px.ufuncs.<name>` through the tables. -/
def powerLegacyCall (names : List String) (rules : List ((Nat × Nat) × PLegacyRule))
    (npTable : List (String × String × Nat × Nat)) (name : String) (s : PSelf)
    (outs : List OutKind) (np : NpRes) : Option (String × Outcome) := do
  if !names.contains name then Option.none
  let (_, uname, nin, nout) ← npTable.find? (·.1 = name)
  let (_, rule) ← rules.find? (·.1 = (nin, nout))
  some (uname, powerLegacy s rule outs np)

end OdlModel.Ufunc
