/-
C17 — VALUE model of the legacy `x.ufuncs.<name>` interface on (nested, weighted or not)
product spaces: `odl/util/ufuncs.py : ProductSpaceUfuncs.sum/prod/min/max` and the three
wrappers of `wrap_ufunc_productspace` (ODL's own recursion over the parts; the arithmetic at the
leaves is NumPy's and is a PARAMETER: the scalar function `f`, the binary `op`, the reduction
`red` on a flat list).

An element of a product space is a tree: a leaf is a tensor / discretized element, given by its
values in C order; a node is a `ProductSpaceElement` with its parts.  Weightings of the product
space do not enter these code paths (and the model has none).

The second half is a BUFFER-level model of the `out=` branch of the wrappers: elements are trees
of buffer ids into a heap; the wrappers write part by part, in order, through
`zip(self.elem, out)` after a part-count check (since /repo 2fbe3b2; before, `zip` truncated
silently: `psMapIntoOld`).

Core Lean only; executed by `Drivers/C17.lean` (ops `psred`, `psmap`, `psbin`, `psinto`).
-/
namespace OdlModel.UfuncValue

/-- Values of an element of a (nested) product space. -/
inductive PTree (K : Type) where
  | leaf (vals : List K)
  | node (parts : List (PTree K))
  deriving Repr

variable {K : Type}

mutual
/-- All values in the order of `np.concatenate([p.asarray().ravel() for p in parts])`,
recursively: what NumPy sees of the element. -/
def PTree.flatten : PTree K → List K
  | .leaf v => v
  | .node ps => flattenParts ps
def flattenParts : List (PTree K) → List K
  | [] => []
  | p :: t => p.flatten ++ flattenParts t
end

mutual
/-- `x2 in self.elem.space` for spaces that differ only by their structure: same nesting, same
number of parts, same sizes of the leaves. -/
def PTree.sameShape : PTree K → PTree K → Bool
  | .leaf v, .leaf w => v.length == w.length
  | .node ps, .node qs => sameShapeParts ps qs
  | _, _ => false
def sameShapeParts : List (PTree K) → List (PTree K) → Bool
  | [], [] => true
  | p :: ps, q :: qs => p.sameShape q && sameShapeParts ps qs
  | _, _ => false
end

/-! ### Reductions: `ProductSpaceUfuncs.sum/prod/min/max` -/

mutual
/-- `px.ufuncs.<red>()`: `results = [x.ufuncs.<red>() for x in self.elem]; return np.<red>(results)`;
on a tensor leaf `x.ufuncs.<red>()` is NumPy's reduction of the whole array.  `red` is NumPy's
reduction of a flat list (`none` = it raises, e.g. `min` of nothing). -/
def psReduce (red : List K → Option K) : PTree K → Option K
  | .leaf v => red v
  | .node ps =>
    match psReduceParts red ps with
    | some rs => red rs
    | none => none
def psReduceParts (red : List K → Option K) : List (PTree K) → Option (List K)
  | [] => some []
  | p :: t =>
    match psReduce red p, psReduceParts red t with
    | some a, some r => some (a :: r)
    | _, _ => none
end

/-- NumPy's reduction with an identity (`np.sum`, `np.prod`): a left fold; never raises. -/
def foldId (op : K → K → K) (e : K) (l : List K) : Option K := some (l.foldl op e)

/-- NumPy's reduction without identity (`np.min`, `np.max`): raises on an empty list. -/
def fold1 (op : K → K → K) : List K → Option K
  | [] => none
  | a :: l => some (l.foldl op a)

/-! ### Element-wise wrappers without `out` -/

mutual
/-- `(1,1)` wrapper, `out is None`:
`self.elem.space.element([getattr(x.ufuncs, name)() for x in self.elem])`. -/
def psMap (f : K → K) : PTree K → PTree K
  | .leaf v => .leaf (v.map f)
  | .node ps => .node (psMapParts f ps)
def psMapParts (f : K → K) : List (PTree K) → List (PTree K)
  | [] => []
  | p :: t => psMap f p :: psMapParts f t
end

/-- The second operand of a binary legacy call: a Python scalar or an element. -/
inductive PArg (K : Type) where
  | scalar (c : K)
  | elem (t : PTree K)

mutual
/-- `(2,1)` wrapper, `out is None`: if `x2 in self.elem.space` the parts are zipped, otherwise
the SAME `x2` is handed to every part (where the test is made again, one level down).  At a
tensor leaf NumPy combines the arrays: modelled for a scalar and for an array of the same size
(`none`: a combination the model does not describe — NumPy broadcasting of unequal sizes, an
element where an array is expected). -/
def psBin (op : K → K → K) : PTree K → PArg K → Option (PTree K)
  | .leaf v, .scalar c => some (.leaf (v.map (fun a => op a c)))
  | .leaf v, .elem (.leaf w) =>
      if v.length = w.length then some (.leaf (List.zipWith op v w)) else none
  | .leaf _, .elem (.node _) => none
  | .node ps, .scalar c => (psBinAll op ps (.scalar c)).map .node
  | .node ps, .elem (.leaf w) => (psBinAll op ps (.elem (.leaf w))).map .node
  | .node ps, .elem (.node qs) =>
      if sameShapeParts ps qs then (psBinZip op ps qs).map .node
      else (psBinAll op ps (.elem (.node qs))).map .node
/-- `[x.ufuncs.f(x2) for x in self.elem]` -/
def psBinAll (op : K → K → K) : List (PTree K) → PArg K → Option (List (PTree K))
  | [], _ => some []
  | p :: t, a =>
    match psBin op p a, psBinAll op t a with
    | some r, some rs => some (r :: rs)
    | _, _ => none
/-- `[x.ufuncs.f(x2p) for x, x2p in zip(self.elem, x2)]` -/
def psBinZip (op : K → K → K) : List (PTree K) → List (PTree K) → Option (List (PTree K))
  | p :: ps, q :: qs =>
    match psBin op p (.elem q), psBinZip op ps qs with
    | some r, some rs => some (r :: rs)
    | _, _ => none
  | _, _ => some []
end

/-! ### Buffer level: the `out=` branch -/

/-- An element as a tree of buffer ids (positions in the heap). -/
inductive BTree where
  | buf (id : Nat)
  | node (parts : List BTree)
  deriving Repr

/-- The heap: contents of every buffer. -/
abbrev Heap (K : Type) := List (List K)

mutual
/-- buffer ids of an element, in order -/
def BTree.bufs : BTree → List Nat
  | .buf i => [i]
  | .node ps => bufsParts ps
def bufsParts : List BTree → List Nat
  | [] => []
  | p :: t => p.bufs ++ bufsParts t
end

mutual
/-- `(1,1)` wrapper with `out` given (code as of /repo 2fbe3b2):
`if len(out) != len(self.elem): raise ValueError`;
`for x, out_x in zip(self.elem, out): getattr(x.ufuncs, name)(out=out_x)`; `return out`.
The part-count check comes BEFORE the loop, at every level of nesting (the parts' own wrappers
make it again), so a rejected call at the top level has written nothing (`none`: no heap).
At a leaf NumPy writes `f(x)` into the out buffer (sizes must agree, else its `ValueError`:
`none`); the writes happen in order, each reading the heap as the previous writes left it
(aliasing is not checked by the code).  A leaf against a node is not described (`none`). -/
def psMapInto (f : K → K) (h : Heap K) : BTree → BTree → Option (Heap K)
  | .buf i, .buf j =>
      match h[i]?, h[j]? with
      | some v, some w => if v.length = w.length then some (h.set j (v.map f)) else none
      | _, _ => none
  | .node ps, .node qs =>
      if ps.length = qs.length then psMapIntoParts f h ps qs else none
  | _, _ => none
def psMapIntoParts (f : K → K) (h : Heap K) : List BTree → List BTree → Option (Heap K)
  | p :: ps, q :: qs =>
    match psMapInto f h p q with
    | some h' => psMapIntoParts f h' ps qs
    | none => none
  | _, _ => some h
end

mutual
/-- OLD VARIANT (the wrapper BEFORE /repo 2fbe3b2, defect C17-F14): no part-count check, `zip`
stops at the shorter of the two part lists without an error.  Kept only for the sensitivity
theorem `C17.psMapInto_part_count_unchecked_fails`; not the code any more. -/
def psMapIntoOld (f : K → K) (h : Heap K) : BTree → BTree → Option (Heap K)
  | .buf i, .buf j =>
      match h[i]?, h[j]? with
      | some v, some w => if v.length = w.length then some (h.set j (v.map f)) else none
      | _, _ => none
  | .node ps, .node qs => psMapIntoPartsOld f h ps qs
  | _, _ => none
def psMapIntoPartsOld (f : K → K) (h : Heap K) : List BTree → List BTree → Option (Heap K)
  | p :: ps, q :: qs =>
    match psMapIntoOld f h p q with
    | some h' => psMapIntoPartsOld f h' ps qs
    | none => none
  | _, _ => some h
end

mutual
/-- the element stored in the heap under a tree of buffer ids (`none`: dangling id) -/
def BTree.read (h : Heap K) : BTree → Option (PTree K)
  | .buf i => (h[i]?).map .leaf
  | .node ps => (readParts h ps).map .node
def readParts (h : Heap K) : List BTree → Option (List (PTree K))
  | [] => some []
  | p :: t =>
    match p.read h, readParts h t with
    | some a, some r => some (a :: r)
    | _, _ => none
end

mutual
/-- same nesting and same numbers of parts (sizes of the buffers are not looked at) -/
def BTree.sameTree : BTree → BTree → Bool
  | .buf _, .buf _ => true
  | .node ps, .node qs => sameTreeParts ps qs
  | _, _ => false
def sameTreeParts : List BTree → List BTree → Bool
  | [], [] => true
  | p :: ps, q :: qs => p.sameTree q && sameTreeParts ps qs
  | _, _ => false
end

/-- `(2,1)` wrapper with a SCALAR second operand and `out` given (`px.ufuncs.f(c, out=o)`):
`c in self.elem.space` is false at every level, so the code takes the branch
`if len(out) != len(self.elem): raise …; for x, outp in zip(self.elem, out): x.ufuncs.f(c, out=outp)`,
which has the loop structure of the `(1,1)` wrapper with the unary function `a ↦ op a c` at the
leaves (NumPy's `op(x, c, out=out)`). The model states exactly that (by construction); the
driver executes it (`psinto … arg=s:c`) against the real binary wrapper. -/
def psBinScalarInto (op : K → K → K) (c : K) (h : Heap K) (x o : BTree) : Option (Heap K) :=
  psMapInto (fun a => op a c) h x o

end OdlModel.UfuncValue
