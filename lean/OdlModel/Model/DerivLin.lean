/-
C06 (round 5): the LINEAR point-wise operators of `odl/operator/tensor_ops.py` as operators in their
own right — `PointwiseInner(rn(n)^m, G)` and `PointwiseSum(rn(n)^m)` (= `PointwiseInner` with the
field of ones, unweighted) — and `Operator.derivative` for an operator flagged linear
(`odl/operator/operator.py: Operator.derivative`: `if self.is_linear: return self`).
Their evaluation is `Lin.run` of `Model/DerivLeaves.lean` (`out = F_0·G_0; out += F_i·G_i`), the same
definition the derivative of `PointwiseNorm` returns.
-/
import OdlModel.Model.DerivLeaves
namespace OdlModel.Deriv

section
variable {K : Type} [OfNat K 1]

/-- `Operator.derivative(x)` of an operator flagged linear: the operator itself, at every `x`. -/
def Lin.deriv (j : Lin K) (_x : Vec K) : Lin K := j

/-- `PointwiseSum(ProductSpace(rn(n), m))`: `PointwiseInner` with `vecfield = one()`. -/
def Lin.pwsum (m n : Nat) : Lin K := .pwinner m n fun _ => 1

/-- What the stream covers: at least one component and one point. -/
def Lin.wf : Lin K → Bool
  | .pwinner m n _ => decide (1 ≤ m) && decide (1 ≤ n)
  | _ => true

end
end OdlModel.Deriv
