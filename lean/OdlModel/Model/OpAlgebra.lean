/-
Model of the operator arithmetic of `odl/operator/operator.py` and of the `Functional`
overrides in `odl/solvers/functional/functional.py` (C04).

Two layers.

* Surface: `Expr` — what the user writes (`A + B`, `A - v`, `s * A`, `A * s`, `A / s`,
  `A ** n`, `v * A`, …) and `den`, the documented table applied recursively.
* Implementation: `build : Expr → Option Impl` replays the overload dispatch AS CODED
  (`Functional.__mul__` before `OperatorRightScalarMult.__mul__` before `Operator.__mul__`
  by MRO, the reflected-operand rule of Python for `+`, the zero-scalar shortcuts, the
  scalar merging inside the constructors, `A - B ↦ A + (-1)*B`, `A / s ↦ A * (1.0/s)`,
  `A ** n` as right-nested `OperatorComp`), producing the tree of expression-class
  instances `Impl`; `run` is each class's `_call` (out-of-place branch), `runIn` the
  in-place (`out=`) branch.  `none` = the Python expression raises.

Encoding.  All spaces of one expression are over one field `K` (an all-real or an
all-complex tree).  A space is `Sp.vec n` (an `rn(n)`/`cn(n)`) or `Sp.fld` (the field
itself, range of functionals).  A value is an entry family `Vec K = Nat → K`; the value `c`
of a functional is the constant family `fun _ => c`, so that "vector * scalar" is the
entry-wise product.  Leaves are opaque: `env id : Vec K → Vec K` is arbitrary
(nonlinear allowed); a leaf only carries its domain, range, `is_linear` flag and whether
its class derives from `Functional` (that decides which overloads Python picks).
-/
namespace OdlModel.OpAlgebra

abbrev Vec (K : Type) := Nat → K

inductive Sp
  | vec (n : Nat)
  | fld
  deriving DecidableEq, Repr

/-- What the dispatch can see of a leaf operator. -/
structure Leaf where
  id : Nat
  dom : Sp
  ran : Sp
  lin : Bool
  /-- `isinstance(leaf, Functional)` -/
  fn : Bool
  deriving DecidableEq, Repr

/-- An element of `rn(n)` / `cn(n)`. -/
structure VecLit (K : Type) where
  n : Nat
  val : Vec K

inductive BOp | add | sub | mul | pprod | quot
  deriving DecidableEq, Repr
/-- operator ∘ scalar forms: `s*A`, `A*s`, `A/s`, `A+s`, `s+A`, `A-s`, `s-A` -/
inductive SOp | lmul | rmul | div | add | radd | sub | rsub
  deriving DecidableEq, Repr
/-- operator ∘ vector forms: `v*A`, `A*v`, `A+v`, `v+A`, `A-v`, `v-A` -/
inductive VOp | lmul | rmul | add | radd | sub | rsub
  deriving DecidableEq, Repr

/-- Surface expressions. In `sc o a s real` the flag `real` is `isinstance(s, numbers.Real)`
(a Python `int`/`float`, as opposed to a `complex` object): the only thing besides its value
the dispatch looks at.  `bin .mul` is `A * B` (also `A @ B`), `bin .pprod` / `bin .quot`
are the explicit constructor calls `OperatorPointwiseProduct/FunctionalProduct(A, B)` and
`FunctionalQuotient(A, B)` (no overload reaches them). -/
inductive Expr (K : Type)
  | leaf (i : Leaf)
  | neg (a : Expr K)
  | pow (a : Expr K) (n : Nat)
  | bin (o : BOp) (a b : Expr K)
  | sc (o : SOp) (a : Expr K) (s : K) (real : Bool)
  | vc (o : VOp) (a : Expr K) (v : VecLit K)

/-- Tree of expression-class instances. The `Bool` is "the Functional subclass"
(`FunctionalSum` vs `OperatorSum`, …). -/
inductive Impl (K : Type)
  | leaf (i : Leaf)
  | sum (fn : Bool) (l r : Impl K)          -- OperatorSum / FunctionalSum
  | scalSum (f : Impl K) (c : K)            -- FunctionalScalarSum(f, c)
  | vecSum (a : Impl K) (v : Vec K)         -- OperatorVectorSum(a, v)
  | comp (fn : Bool) (l r : Impl K)         -- OperatorComp / FunctionalComp
  | pprod (fn : Bool) (l r : Impl K)        -- OperatorPointwiseProduct / FunctionalProduct
  | quot (l r : Impl K)                     -- FunctionalQuotient
  | lscal (fn : Bool) (a : Impl K) (s : K)  -- Operator/FunctionalLeftScalarMult
  | rscal (fn : Bool) (a : Impl K) (s : K)  -- Operator/FunctionalRightScalarMult
  | lvec (a : Impl K) (v : Vec K)           -- OperatorLeftVectorMult
  | rvec (fn : Bool) (a : Impl K) (v : Vec K) -- Operator/FunctionalRightVectorMult
  | flvec (a : Impl K) (v : VecLit K)       -- FunctionalLeftVectorMult
  | const (d : Sp) (c : Vec K)              -- ConstantFunctional(d, c) (c a constant family)
  | zero (d : Sp)                           -- ZeroFunctional(d)

/-- Type of an operator as the dispatch sees it: domain, range, Functional-instance. -/
structure Ty where
  dom : Sp
  ran : Sp
  fn : Bool
  deriving DecidableEq, Repr

def iter {α : Type} (f : α → α) : Nat → α → α
  | 0, x => x
  | n + 1, x => f (iter f n x)

section
variable {K : Type} [Add K] [Mul K] [Neg K] [Sub K] [Div K] [OfNat K 0] [OfNat K 1]

/-! ### Surface semantics: the documented table -/

def den (env : Nat → Vec K → Vec K) : Expr K → Vec K → Vec K
  | .leaf i => fun x => env i.id x
  | .neg a => fun x j => -(den env a x j)
  | .pow a n => fun x => iter (den env a) n x
  | .bin o a b =>
    match o with
    | .add => fun x j => den env a x j + den env b x j
    | .sub => fun x j => den env a x j - den env b x j
    | .mul => fun x => den env a (den env b x)
    | .pprod => fun x j => den env a x j * den env b x j
    | .quot => fun x j => den env a x j / den env b x j
  | .sc o a s _ =>
    match o with
    | .lmul => fun x j => s * den env a x j
    | .rmul => fun x => den env a (fun j => s * x j)
    | .div => fun x => den env a (fun j => x j / s)
    | .add => fun x j => den env a x j + s
    | .radd => fun x j => s + den env a x j
    | .sub => fun x j => den env a x j - s
    | .rsub => fun x j => s - den env a x j
  | .vc o a v =>
    match o with
    | .lmul => fun x j => v.val j * den env a x j
    | .rmul => fun x => den env a (fun j => v.val j * x j)
    | .add => fun x j => den env a x j + v.val j
    | .radd => fun x j => v.val j + den env a x j
    | .sub => fun x j => den env a x j - v.val j
    | .rsub => fun x j => v.val j - den env a x j

/-! ### Attributes of the expression classes (what their `__init__` passes to
`Operator.__init__`, the LAST base-class initialiser winning) -/

def Impl.dom : Impl K → Sp
  | .leaf i => i.dom
  | .sum _ l _ => l.dom
  | .scalSum f _ => f.dom
  | .vecSum a _ => a.dom
  | .comp _ _ r => r.dom
  | .pprod _ l _ => l.dom
  | .quot l _ => l.dom
  | .lscal _ a _ => a.dom
  | .rscal _ a _ => a.dom
  | .lvec a _ => a.dom
  | .rvec _ a _ => a.dom
  | .flvec a _ => a.dom
  | .const d _ => d
  | .zero d => d

def Impl.ran : Impl K → Sp
  | .leaf i => i.ran
  | .sum _ l _ => l.ran
  | .scalSum f _ => f.ran
  | .vecSum a _ => a.ran
  | .comp _ l _ => l.ran
  | .pprod _ l _ => l.ran
  | .quot _ _ => .fld
  | .lscal _ a _ => a.ran
  | .rscal _ a _ => a.ran
  | .lvec a _ => a.ran
  | .rvec _ a _ => a.ran
  | .flvec _ v => .vec v.n
  | .const _ _ => .fld
  | .zero _ => .fld

/-- `isinstance(op, Functional)` -/
def Impl.isFn : Impl K → Bool
  | .leaf i => i.fn
  | .sum fn _ _ => fn
  | .scalSum _ _ => true
  | .vecSum _ _ => false
  | .comp fn _ _ => fn
  | .pprod fn _ _ => fn
  | .quot _ _ => true
  | .lscal fn _ _ => fn
  | .rscal fn _ _ => fn
  | .lvec _ _ => false
  | .rvec fn _ _ => fn
  | .flvec _ _ => false
  | .const _ _ => true
  | .zero _ => true

def Impl.ty (a : Impl K) : Ty := ⟨a.dom, a.ran, a.isFn⟩

variable [DecidableEq K]

/-- `is_linear` as the constructors set it. `OperatorVectorSum`, the pointwise product and
the quotient say `False`; `ConstantFunctional` says `constant == 0`; every other class
passes the flag(s) of its operand(s) on (`FunctionalRightVectorMult` too, since the repair
of C04-F1: `Functional.__init__(space, linear=func.is_linear)`). -/
def Impl.lin : Impl K → Bool
  | .leaf i => i.lin
  | .sum _ l r => l.lin && r.lin
  | .scalSum f c => f.lin && decide (c = 0)
  | .vecSum _ _ => false
  | .comp _ l r => l.lin && r.lin
  | .pprod _ _ _ => false
  | .quot _ _ => false
  | .lscal _ a _ => a.lin
  | .rscal _ a _ => a.lin
  | .lvec a _ => a.lin
  | .rvec _ a _ => a.lin
  | .flvec a _ => a.lin
  | .const _ c => decide (c 0 = 0)
  | .zero _ => true

/-! ### `_call`, out-of-place branch -/

def run (env : Nat → Vec K → Vec K) : Impl K → Vec K → Vec K
  | .leaf i => fun x => env i.id x
  | .sum _ l r => fun x j => run env l x j + run env r x j
  | .scalSum f c => fun x j => run env f x j + c
  | .vecSum a v => fun x j => run env a x j + v j
  | .comp _ l r => fun x => run env l (run env r x)
  | .pprod _ l r => fun x j => run env l x j * run env r x j
  | .quot l r => fun x j => run env l x j / run env r x j
  | .lscal _ a s => fun x j => s * run env a x j
  | .rscal _ a s => fun x => run env a (fun j => s * x j)
  | .lvec a v => fun x j => run env a x j * v j
  | .rvec _ a v => fun x => run env a (fun j => x j * v j)
  | .flvec a v => fun x j => v.val j * run env a x j
  | .const _ c => fun _ => c
  | .zero _ => fun _ _ => 0

/-- `_call(x, out)`, in-place branch, in the statement order of the code
(`tmp ← left(x); out ← right(x); out += tmp`, `out ← op(x); out *= s`, …). Classes whose
range is a field have no in-place branch; for them `runIn = run`. -/
def runIn (env : Nat → Vec K → Vec K) : Impl K → Vec K → Vec K
  | .leaf i => fun x => env i.id x
  | .sum _ l r => fun x j => runIn env r x j + runIn env l x j
  | .scalSum f c => fun x j => run env f x j + c
  | .vecSum a v => fun x j => runIn env a x j + v j
  | .comp _ l r => fun x => runIn env l (runIn env r x)
  | .pprod _ l r => fun x j => runIn env r x j * runIn env l x j
  | .quot l r => fun x j => run env l x j / run env r x j
  | .lscal _ a s => fun x j => runIn env a x j * s
  | .rscal _ a s => fun x => runIn env a (fun j => s * x j)
  | .lvec a v => fun x j => runIn env a x j * v j
  | .rvec _ a v => fun x => runIn env a (fun j => x j * v j)
  | .flvec a v => fun x j => run env a x j * v.val j
  | .const _ c => fun _ => c
  | .zero _ => fun _ _ => 0

/-! ### Constructors with their scalar-merging shortcuts -/

/-- `OperatorLeftScalarMult.__init__`: `s * (t * A)` stores `(s * t, A)`. -/
def mkLScal (fn : Bool) (a : Impl K) (s : K) : Impl K :=
  match a with
  | .lscal _ a' t => .lscal fn a' (s * t)
  | _ => .lscal fn a s

/-- `OperatorRightScalarMult.__init__`: `(A * t) * s` stores `(s * t, A)`. -/
def mkRScal (fn : Bool) (a : Impl K) (s : K) : Impl K :=
  match a with
  | .rscal _ a' t => .rscal fn a' (s * t)
  | _ => .rscal fn a s

/-- `OperatorSum.__init__` / `FunctionalSum.__init__` checks. -/
def mkSum (a b : Impl K) : Option (Impl K) :=
  if a.dom = b.dom ∧ a.ran = b.ran then some (.sum (a.isFn && b.isFn) a b) else none

/-- Python tries the reflected method of the right operand FIRST when its type is a proper
subclass of the left operand's type that overrides the reflected method: the right operand
is the `Functional…` subclass of the left operand's expression class (`Functional.__radd__`
differs from `Operator.__radd__`). -/
def reflectedFirst (a b : Impl K) : Bool :=
  match a, b with
  | .sum false _ _, .sum true _ _ => true
  | .sum false _ _, .scalSum _ _ => true
  | .comp false _ _, .comp true _ _ => true
  | .pprod false _ _, .pprod true _ _ => true
  | .lscal false _ _, .lscal true _ _ => true
  | .rscal false _ _, .rscal true _ _ => true
  | .rvec false _ _, .rvec true _ _ => true
  | _, _ => false

/-! ### Normal form of the scalar factors -/

def Impl.isLScal : Impl K → Bool
  | .lscal _ _ _ => true
  | _ => false

def Impl.isRScal : Impl K → Bool
  | .rscal _ _ _ => true
  | _ => false

/-- Scalar factors are merged: nowhere in the tree is a left scalar multiplication applied
directly to a left scalar multiplication, nor a right one to a right one (what the
`isinstance(operator, OwnClass)` shortcut of the two constructors is for). -/
def Impl.merged : Impl K → Bool
  | .leaf _ => true
  | .sum _ l r => l.merged && r.merged
  | .scalSum f _ => f.merged
  | .vecSum a _ => a.merged
  | .comp _ l r => l.merged && r.merged
  | .pprod _ l r => l.merged && r.merged
  | .quot l r => l.merged && r.merged
  | .lscal _ a _ => a.merged && !a.isLScal
  | .rscal _ a _ => a.merged && !a.isRScal
  | .lvec a _ => a.merged
  | .rvec _ a _ => a.merged
  | .flvec a _ => a.merged
  | .const _ _ => true
  | .zero _ => true

/-! ### The overloads -/

/-- `a + b`, both operators. `Functional.__add__` gives `FunctionalSum` when both are
functionals, everything else ends in `OperatorSum`. -/
def opAdd (a b : Impl K) : Option (Impl K) :=
  if reflectedFirst a b then mkSum b a else mkSum a b

/-- `s * a` (`__rmul__` with a number). -/
def opRMulScal (s : K) (a : Impl K) : Impl K :=
  if a.isFn then
    if s = 0 then .zero a.dom else mkLScal true a s
  else mkLScal false a s

/-- `isinstance(a, OperatorRightScalarMult)`: its `(operator, scalar)`. -/
def rscalParts (a : Impl K) : Option (Impl K × K) :=
  match a with
  | .rscal _ a' t => some (a', t)
  | _ => none

/-- `a * s` (`__mul__` with a number; `real` = `isinstance(s, Real)`).  The rewriting
`A * s ↦ s * A` of flagged-linear operators is applied to REAL scalars only (repair of
C04-F2: `is_linear` does not tell real-linear from complex-linear operators). -/
def opMulScal (env : Nat → Vec K → Vec K) (a : Impl K) (s : K) (real : Bool) : Impl K :=
  if a.isFn then
    -- Functional.__mul__
    if s = 0 then .const a.dom (run env a (fun _ => 0))
    else if a.lin && real then mkLScal true a s
    else mkRScal true a s
  else
    match rscalParts a with
    | some (a', t) => mkRScal false a' (t * s)       -- OperatorRightScalarMult.__mul__
    | none => if a.lin && real then opRMulScal s a else mkRScal false a s   -- Operator.__mul__

/-- `a * b`, both operators (`FunctionalComp` iff the left one is a functional). -/
def opMul (a b : Impl K) : Option (Impl K) :=
  if b.ran = a.dom then some (.comp a.isFn a b) else none

/-- `a * v`. -/
def opMulVec (a : Impl K) (v : VecLit K) : Option (Impl K) :=
  if a.dom = .vec v.n then some (.rvec a.isFn a v.val) else none

/-- `v * a` (`v.__mul__` defers to `a.__rmul__` by `__array_priority__`). -/
def opRMulVec (v : VecLit K) (a : Impl K) : Option (Impl K) :=
  if a.ran = .vec v.n then some (.lvec a v.val)
  else if a.ran = .fld then some (.flvec a v)
  else none

/-- `a + v`, `v + a`. -/
def opAddVec (a : Impl K) (v : Vec K) (n : Nat) : Option (Impl K) :=
  if a.ran = .vec n then some (.vecSum a v) else none

/-- `a + s`, `s + a`: `FunctionalScalarSum` for a functional, `OperatorVectorSum(a, s*one)`
for an operator with a vector-space range, `TypeError` (from `OperatorVectorSum.__init__`)
for a non-`Functional` operator whose range is a field. -/
def opAddScal (a : Impl K) (s : K) : Option (Impl K) :=
  if a.isFn then some (.scalSum a s)
  else match a.ran with
    | .vec _ => some (.vecSum a (fun _ => s * 1))
    | .fld => none

def powAux (a : Impl K) : Nat → Impl K
  | 0 => a
  | k + 1 => .comp false a (powAux a k)

/-- `a ** n`. -/
def opPow (a : Impl K) (n : Nat) : Option (Impl K) :=
  match n with
  | 0 => none
  | 1 => some a
  | k + 2 => if a.ran = a.dom then some (powAux a (k + 1)) else none

def mkPProd (a b : Impl K) : Option (Impl K) :=
  if a.dom = b.dom ∧ a.ran = b.ran then some (.pprod (a.isFn && b.isFn) a b) else none

def mkQuot (a b : Impl K) : Option (Impl K) :=
  if a.isFn ∧ b.isFn ∧ a.dom = b.dom then some (.quot a b) else none

/-- The whole dispatch. -/
def build (env : Nat → Vec K → Vec K) : Expr K → Option (Impl K)
  | .leaf i => some (.leaf i)
  | .neg a => (build env a).map (opRMulScal (-1))                       -- -1 * self
  | .pow a n => (build env a).bind (opPow · n)
  | .bin o a b =>
    match build env a, build env b with
    | some a', some b' =>
      match o with
      | .add => opAdd a' b'
      | .sub => opAdd a' (opRMulScal (-1) b')                           -- self + (-1) * other
      | .mul => opMul a' b'
      | .pprod => mkPProd a' b'
      | .quot => mkQuot a' b'
    | _, _ => none
  | .sc o a s re =>
    match build env a with
    | some a' =>
      match o with
      | .lmul => some (opRMulScal s a')
      | .rmul => some (opMulScal env a' s re)
      | .div => if s = 0 then none else some (opMulScal env a' (1 / s) re)  -- self * (1.0 / other)
      | .add => opAddScal a' s
      | .radd => opAddScal a' s
      | .sub => opAddScal a' (-1 * s)                                   -- self + (-1) * other
      | .rsub => opAddScal (opRMulScal (-1) a') s                       -- (-1) * self + other
    | none => none
  | .vc o a v =>
    match build env a with
    | some a' =>
      match o with
      | .lmul => opRMulVec v a'
      | .rmul => opMulVec a' v
      | .add => opAddVec a' v.val v.n
      | .radd => opAddVec a' v.val v.n
      | .sub => opAddVec a' (fun j => -1 * v.val j) v.n                 -- self + (-1) * other
      | .rsub => opAddVec (opRMulScal (-1) a') v.val v.n                -- (-1) * self + other
    | none => none

/-! ### Typing of surface expressions (independent of `build`) -/

def typeOf : Expr K → Option Ty
  | .leaf i => some ⟨i.dom, i.ran, i.fn⟩
  | .neg a => typeOf a
  | .pow a n =>
    match typeOf a, n with
    | some t, 1 => some t
    | some t, _ + 2 => if t.ran = t.dom then some ⟨t.dom, t.ran, false⟩ else none
    | _, _ => none
  | .bin o a b =>
    match typeOf a, typeOf b with
    | some s, some t =>
      match o with
      | .add => if s.dom = t.dom ∧ s.ran = t.ran then some ⟨s.dom, s.ran, s.fn && t.fn⟩ else none
      | .sub => if s.dom = t.dom ∧ s.ran = t.ran then some ⟨s.dom, s.ran, s.fn && t.fn⟩ else none
      | .mul => if t.ran = s.dom then some ⟨t.dom, s.ran, s.fn⟩ else none
      | .pprod => if s.dom = t.dom ∧ s.ran = t.ran then some ⟨s.dom, s.ran, s.fn && t.fn⟩ else none
      | .quot => if s.fn ∧ t.fn ∧ s.dom = t.dom then some ⟨s.dom, .fld, true⟩ else none
    | _, _ => none
  | .sc o a s _ =>
    match typeOf a with
    | some t =>
      match o with
      | .lmul => some t
      | .rmul => some t
      | .div => if s = 0 then none else some t
      | _ => if t.fn then some t else match t.ran with
          | .vec _ => some t
          | .fld => none
    | none => none
  | .vc o a v =>
    match typeOf a with
    | some t =>
      match o with
      | .lmul => if t.ran = .vec v.n then some ⟨t.dom, t.ran, false⟩
                 else if t.ran = .fld then some ⟨t.dom, .vec v.n, false⟩ else none
      | .rmul => if t.dom = .vec v.n then some t else none
      | _ => if t.ran = .vec v.n then some ⟨t.dom, t.ran, false⟩ else none
    | none => none

/-- `is_linear` implied by the expression (documented rule): sums, compositions, scalar and
vector multiples of linear operators are linear; `+ vector`, `+ scalar`, pointwise products
and quotients are not claimed to be. -/
def linOf : Expr K → Bool
  | .leaf i => i.lin
  | .neg a => linOf a
  | .pow a _ => linOf a
  | .bin o a b =>
    match o with
    | .add => linOf a && linOf b
    | .sub => linOf a && linOf b
    | .mul => linOf a && linOf b
    | _ => false
  | .sc o a _ _ =>
    match o with
    | .lmul => linOf a
    | .rmul => linOf a
    | .div => linOf a
    | _ => false
  | .vc o a _ =>
    match o with
    | .lmul => linOf a
    | .rmul => linOf a
    | _ => false

end

end OdlModel.OpAlgebra
