/-
Model of ODL's own part of the wavelet transform (C18):
  odl/trafos/backends/pywt_bindings.py  pywt_pad_mode (table regenerated into
                                        Gen/WaveletPad.lean), precompute_raveled_slices
  odl/trafos/wavelet.py                 WaveletTransformInverse._call (crop-by-one rule),
                                        WaveletTransform(.Inverse).adjoint (scaling)
PyWavelets' filter bank (`wavedecn`/`waverecn`) is a PARAMETER of the model.
Import-free and executable.
-/
import OdlModel.Common
namespace OdlModel.Wavelet

/-- `pywt_pad_mode(pad_mode, pad_const)`: lower-case the name, reject a non-zero constant
for `'constant'`, look the name up in `PAD_MODES_ODL2PYWT`. -/
def padMode (table : List (String × String)) (mode : String) (padConstZero : Bool) :
    Except String String :=
  let m := mode.toLower
  if m == "constant" && !padConstZero then .error "err:value"
  else match table.lookup m with
    | some v => .ok v
    | none => .error "err:value"

def prod (l : List Nat) : Nat := l.foldl (· * ·) 1

/-- Consecutive slices `[offset, offset+size)` for a list of block sizes: the loop
`sl = slice(offset, offset + size); offset += size` of `precompute_raveled_slices`. -/
def slicesFrom (offset : Nat) : List Nat → List (Nat × Nat)
  | [] => []
  | sz :: rest => (offset, offset + sz) :: slicesFrom (offset + sz) rest

/-- `keys = sorted(shape_dict.keys())`. -/
def sortKeys {α : Type} (d : List (String × α)) : List (String × α) :=
  d.mergeSort (fun a b => decide (a.1 ≤ b.1))

/-- The blocks of a coefficient list in raveled order: the approximation array, then for
every detail level the entries in sorted key order (what both `pywt.ravel_coeffs` and
`precompute_raveled_slices` use). -/
def blockOrder {α : Type} (a : α) (details : List (List (String × α))) : List (String × α) :=
  ("a", a) :: (details.map sortKeys).flatten

/-- `precompute_raveled_slices(coeff_shapes)`: `(key, start, stop)` per block, in raveled
order.  Sizes are `np.prod(shape)`. -/
def ravelSlices (aShape : List Nat) (details : List (List (String × List Nat))) :
    List (String × Nat × Nat) :=
  let blocks := blockOrder aShape details
  (blocks.map (·.1)).zip (slicesFrom 0 (blocks.map fun b => prod b.2))

/-- Flattening of coefficient blocks (each block already raveled in C order). -/
def ravel {K : Type} (blocks : List (List K)) : List K := blocks.flatten

/-- `pywt.unravel_coeffs` with precomputed slices: cut the flat array at the slices. -/
def unravel {K : Type} (slices : List (Nat × Nat)) (flat : List K) : List (List K) :=
  slices.map fun (a, b) => (flat.drop a).take (b - a)

/-- `WaveletTransformBase.scales`: the coefficient list the code builds — `np.full(shapes[0], 0)`
for the approximation and `{k: np.full(shapes[i][k], i)}` for detail level `i` — as raveled blocks
(`pywt.ravel_coeffs`: approximation, then per level the sorted keys). -/
def scaleBlocks (aShape : List Nat) (details : List (List (String × List Nat))) : List (List Nat) :=
  List.replicate (prod aShape) 0 ::
    (details.zipIdx.map fun (d, i) => (sortKeys d).map fun b => List.replicate (prod b.2) (i + 1)).flatten

/-- `scales()`: the flat array of level indices. -/
def scalesOf (aShape : List Nat) (details : List (List (String × List Nat))) : List Nat :=
  ravel (scaleBlocks aShape details)

/-- Assumption on PyWavelets (measured by the harness on every case): along a transformed
axis of original length `n`, `pywt.waverecn` returns `n` entries, or `n + 1` when `n` is odd
(decimation keeps `ceil(n/2)` samples, reconstruction doubles). -/
def reconLenOk (n r : Nat) : Bool := r == n || (r == n + 1 && n % 2 == 1)

/-- The crop rule of `WaveletTransformInverse._call` on one axis: `slice(-1)` if the
reconstruction is one too long, `slice(None)` if it fits, otherwise `ValueError`.
Returns the number of leading entries kept. -/
def cropLen (nRecon nIntended : Nat) : Except String Nat :=
  if nRecon = nIntended + 1 then .ok (nRecon - 1)
  else if nRecon = nIntended then .ok nRecon
  else .error "err:value"

/-- The whole crop: only entered when the shapes differ. -/
def cropShape (recon intended : List Nat) : Except String (List Nat) :=
  if recon = intended then .ok recon
  else (recon.zip intended).mapM fun (r, n) => cropLen r n

/-- C-order multi-index of a flat index. -/
def unravelIndex (shape : List Nat) (flat : Nat) : List Nat :=
  (shape.foldr (fun n (acc : List Nat × Nat) => ((acc.2 % n) :: acc.1, acc.2 / n)) ([], flat)).1

/-- `_inner_product_weights(space)` (wavelet.py): the pointwise weight `w` with
`space.inner(x, y) = Σ w·x·ȳ`: the weighting constant, times — for grid points on the
boundary (`not is_uniformly_weighted`) — the fraction `frac_l` at index 0 and `frac_r` at index
`n-1` of every axis (both on a one-point axis).  For the default `uniform_discr` the constant is
the cell volume and all fractions are 1. -/
def innerWeight {K : Type} [Mul K] [OfNat K 1] (const : K) (fracs : List (K × K))
    (shape idx : List Nat) : K :=
  (fracs.zip (shape.zip idx)).foldl
    (fun acc (t : (K × K) × Nat × Nat) =>
      (acc * (if t.2.2 = 0 then t.1.1 else 1)) * (if t.2.2 + 1 = t.2.1 then t.1.2 else 1)) const

/-- `WaveletTransform.adjoint` applied to coefficients `c`: the inverse (`inv = W⁻¹ c`) divided
pointwise by the weights (`(1/w₀) * inverse` when all weights are equal, else
`MultiplyOperator(1/w) ∘ inverse`). -/
def adjointForward {K : Type} [Mul K] [Div K] [OfNat K 1] (w inv : Nat → K) (i : Nat) : K :=
  (1 / w i) * inv i

/-- `WaveletTransformInverse.adjoint` applied to an image `x`: the forward transform `W` of
the pointwise weighted image (`w₀ * W` resp. `W ∘ MultiplyOperator(w)`). -/
def adjointInverse {K : Type} [Mul K] (W : (Nat → K) → Nat → K) (w x : Nat → K) : Nat → K :=
  W (fun i => w i * x i)

/-- `WaveletTransform(.Inverse).adjoint` is exposed only for ORTHOGONAL wavelets (and a known,
constant-type weighting); otherwise `OpNotImplementedError` (`super().adjoint`). -/
def adjointExposed (orthogonal weightsKnown : Bool) : Bool := orthogonal && weightsKnown

end OdlModel.Wavelet
