/-
Buffer-language model of the `_call` bodies of
`odl/solvers/nonsmooth/proximal_operators.py` (and of the proximal classes nested in
`default_functionals.py`, and of the `default_ops` operators the solvers apply in place),
written statement for statement (C10; reused as modelled leaves by C03).

* A Python object holding array data is a buffer id (`Buf = Nat`); *identity* aliasing
  (`x is out`) is equality of ids.  A buffer's content is a functional array `Nat → K`.
* Python *names* are variables (`Var`); `x = x.copy()` rebinds the name `x` to a fresh
  buffer, `diff = x` binds a second name to the same buffer.
* One statement = one NumPy/ODL call: all sources are read, then the destination buffer is
  overwritten (`set`), or a new object is created (`new`).  Deviations from "statement for
  statement": pure right-hand-side expressions are one `new`; the per-component loops of
  `ProximalHuber`, `ProximalConvexConjL1L2`, `ProximalL1L2` (independent statements on component
  `i` of a power-space element) are merged into one statement on the flattened element.  Element-wise functions, norms,
  the simplex projection, Lambert-W … are PARAMETERS (`Fns K`): the theorems hold for every
  choice, the driver instantiates them at `Float`.
* `space.element()` without data is uninitialised memory: its content comes from an
  arbitrary junk oracle `jk`.
-/
set_option linter.constructorNameAsVariable false
namespace OdlModel.Prox

/-- Buffer ids are natural numbers (written `Nat` in the signatures so that `omega` sees them). -/
abbrev Buf := Nat
abbrev Vec (K : Type) := Nat → K

/-- Store: contents of every buffer and the allocation counter. -/
structure St (K : Type) where
  mem : Nat → Vec K
  next : Nat

def St.write {K} (s : St K) (b : Nat) (v : Vec K) : St K :=
  { s with mem := fun b' => if b' = b then v else s.mem b' }

/-- Python names used in the bodies. `g sig lo up` are the closed-over data (`g`, element
`sigma`/multiplicand, `lower`, `upper`); the rest are locals. -/
inductive Var
  | x | out | g | sig | lo | up
  | diff | tmp | denom | u | v | t1 | t2 | step | xnorm | mask | signx | offset | lambw | nrm
  | xs | avrg | crit | idx | order | xarr
  deriving DecidableEq, Repr

abbrev Env := Var → Nat

def Env.set (e : Env) (v : Var) (b : Nat) : Env := fun w => if w = v then b else e w

/-- Statements. `F` receives the values of the listed sources by position. -/
inductive Stmt (K : Type)
  | skip
  | seq (s t : Stmt K)
  /-- in-place write into the existing object bound to `dst` (ufunc with `out=`, `lincomb`,
  `assign`, `out[:] = …`, `out[mask] = …`, `/=`, `+=`) -/
  | set (dst : Var) (srcs : List Var) (F : (Nat → Vec K) → Vec K)
  /-- `v = <expression creating a new object>` (`x.copy()`, `x - g`, `x.ufuncs.absolute()`,
  a Python float computed from arrays …) -/
  | new (v : Var) (srcs : List Var) (F : (Nat → Vec K) → Vec K)
  /-- `v = space.element()` : new uninitialised object -/
  | newJunk (v : Var)
  /-- `v = w` : second name for the same object -/
  | bind (v w : Var)
  /-- `if a is b: t else: e` -/
  | ifIs (a b : Var) (t e : Stmt K)
  /-- `if <test on the value of a>: t else: e` -/
  | ifC (a : Var) (c : Vec K → Bool) (t e : Stmt K)

infixr:60 " ;; " => Stmt.seq

def srcVals {K} (env : Env) (s : St K) (dflt : Var) (srcs : List Var) : Nat → Vec K :=
  fun k => s.mem (env (srcs.getD k dflt))

def exec {K} (jk : Nat → Vec K) : Stmt K → Env × St K → Env × St K
  | .skip, es => es
  | .seq s t, es => exec jk t (exec jk s es)
  | .set dst srcs F, (env, s) => (env, s.write (env dst) (F (srcVals env s dst srcs)))
  | .new w srcs F, (env, s) =>
      (env.set w s.next,
       { mem := fun b => if b = s.next then F (srcVals env s w srcs) else s.mem b,
         next := s.next + 1 })
  | .newJunk w, (env, s) =>
      (env.set w s.next,
       { mem := fun b => if b = s.next then jk s.next else s.mem b, next := s.next + 1 })
  | .bind w w', (env, s) => (env.set w (env w'), s)
  | .ifIs a b t e, (env, s) => if env a = env b then exec jk t (env, s) else exec jk e (env, s)
  | .ifC a c t e, (env, s) => if c (s.mem (env a)) then exec jk t (env, s) else exec jk e (env, s)

/-- Buffer ids of the closed-over data. Locals are unbound (bound to id 9) until assigned. -/
def env0 (xb ob : Nat) : Env
  | .x => xb | .out => ob | .g => 2 | .sig => 3 | .lo => 4 | .up => 5 | _ => 9

/-- Run a body with `x ↦ xb`, `out ↦ ob` on initial memory `m`; fresh ids start at 10. -/
def run {K} (jk : Nat → Vec K) (P : Stmt K) (xb ob : Nat) (m : Nat → Vec K) : St K :=
  (exec jk P (env0 xb ob, { mem := m, next := 10 })).2

/-- The store after `n` aliased calls `P(x, out=x)` on the same store (each call with its own
junk in uninitialised temporaries) — what a solver does with `prox(x, out=x)` in every
iteration. -/
def aliasedCalls {K} (jks : Nat → Nat → Vec K) (P : Stmt K) : Nat → (Nat → Vec K) → (Nat → Vec K)
  | 0, m => m
  | n + 1, m => (run (jks n) P 0 0 (aliasedCalls jks P n m)).mem

/-- `n`-fold application of a map (outermost last). -/
def iter {α} (T : α → α) : Nat → α → α
  | 0, v => v
  | n + 1, v => T (iter T n v)

/-! ### Parameters: scalar type operations that are not notation, and external functions -/

structure Fns (K : Type) where
  abs : K → K
  sign : K → K
  sqrt : K → K
  square : K → K
  exp : K → K
  lambertw : K → K
  max : K → K → K
  min : K → K → K
  pow : K → K          -- `x ** exponent` for the operator's exponent
  lt : K → K → Bool
  le : K → K → Bool
  /-- truth value of a mask entry -/
  truthy : K → Bool
  ofBool : Bool → K
  inf : K
  half : K
  two : K
  four : K
  /-- `x.norm()` (space norm incl. weighting) -/
  norm : Vec K → K
  /-- `x.ufuncs.sum()` -/
  sum : Vec K → K
  /-- `1 / x.size` -/
  invSize : K
  /-- `PointwiseNorm(domain, 2)(x)` on a power space (flattened component-major) -/
  pwnorm : Vec K → Vec K
  /-- `for out_i, diff_i in zip(out, diff): diff_i.divide(denom, out=out_i)` -/
  pdiv : Vec K → Vec K → Vec K
  /-- `ndarray.sort()` (ascending) -/
  sortAsc : Vec K → Vec K
  /-- `a[::-1]` -/
  rev : Vec K → Vec K
  /-- `(1 / j) * (np.cumsum(a) - d)` with `j = 1 … size` (first argument `d`) -/
  cumAvg : K → Vec K → Vec K
  /-- `np.argwhere(a >= 0).flatten().max()` (the index as a scalar) -/
  lastNonneg : Vec K → K
  /-- integer value of an index scalar -/
  toIdx : K → Nat
  /-- `np.argsort(-a)` (indices as scalars) -/
  argsortDesc : Vec K → Vec K
  /-- `a[order]` -/
  take : Vec K → Vec K → Vec K
  /-- `(np.cumsum(xo) - d) / np.cumsum(1 / wo)` (arguments `d`, `xo`, `wo`) -/
  wtau : K → Vec K → Vec K → Vec K
  /-- base index of a flat index of a power-space element (`k % n`; identity otherwise) -/
  bidx : Nat → Nat

/-- Scalars closed over by the factories. -/
structure Par (K : Type) where
  lam : K
  sigma : K
  gamma : K
  radius : K      -- also `diameter`, `sum_value`
  eps : K
  /-- `_const_weight(space)`: constant weight of the inner product (cell volume), else 1 -/
  cw : K
  a : K           -- scalars of ScalingOperator / LinCombOperator
  b : K

/-- The modelled bodies. Flags: `g` = data term given, `se` = `sigma` is a space element. -/
inductive ProxId
  | box (lo up : Bool)
  | l2 (g : Bool)
  | ccL2Sq (se g : Bool)
  | l2Sq (se g : Bool)
  | ccL1 (g : Bool)
  | ccL1L2 (g : Bool)
  | l1 (se g : Bool)
  | l1l2 (g : Bool)
  | linfty
  | ccLinfty
  | ccKL (g : Bool)
  | ccKLCE (g : Bool)
  | huber (ps : Bool)        -- ps: the domain is a product (power) space
  | simplex (aw : Bool)      -- aw: array-weighted space (weights = buffer `sig`)
  | sumc (aw : Bool)
  -- default_ops applied in place by solvers / calculus wrappers
  | scaling | lincombOp | multiply | constant | zero | power
  deriving DecidableEq, Repr

section
variable {K : Type} [Add K] [Sub K] [Mul K] [Div K] [Neg K] [OfNat K 0] [OfNat K 1]

open Stmt Var

def cst (c : K) : Vec K := fun _ => c

/-- `proj_simplex(src, r, out)`, statement for statement. -/
def simplexStmt (F : Fns K) (r : K) (src : Var) : Stmt K :=
  -- x_sor = x.asarray().flatten()        (`flatten` always copies)
  .new xs [src] (fun a => a 0) ;;
  -- x_sor.sort()                         (in place, on the copy)
  .set xs [xs] (fun a => F.sortAsc (a 0)) ;;
  -- x_sor = x_sor[::-1]                  (the name is rebound; the old object is dropped)
  .new xs [xs] (fun a => F.rev (a 0)) ;;
  -- j = np.arange(1, x.size + 1); x_avrg = (1 / j) * (np.cumsum(x_sor) - diameter)
  .new avrg [xs] (fun a => F.cumAvg r (a 0)) ;;
  -- crit = x_sor - x_avrg
  .new crit [xs, avrg] (fun a i => a 0 i - a 1 i) ;;
  -- i = np.argwhere(crit >= 0).flatten().max()
  .new idx [crit] (fun a => cst (F.lastNonneg (a 0))) ;;
  -- out[:] = np.maximum(x - x_avrg[i], 0)
  .set out [src, avrg, idx] (fun a i => F.max (a 0 i - a 1 (F.toIdx (a 2 0))) 0)

/-- `proj_l1(x, r, out)` -/
def projL1 (F : Fns K) (r : K) : Stmt K :=
  .new u [x] (fun a i => F.abs (a 0 i)) ;;
  .ifC u (fun uv => F.le (F.sum uv) r)
    (.set out [x] (fun a => a 0))
    (.new v [x] (fun a i => F.sign (a 0 i)) ;;
     simplexStmt F r u ;;
     .set out [out, v] (fun a i => a 0 i * a 1 i))

/-- `x_norm → step` of ProximalL2: `step = sigma*lam/x_norm if x_norm > 0 else inf`. -/
def l2Step (F : Fns K) (P : Par K) : Stmt K :=
  .new step [xnorm] (fun a => cst (if F.lt 0 (a 0 0) then P.sigma * P.lam / a 0 0 else F.inf))

def prog (F : Fns K) (P : Par K) : ProxId → Stmt K
  -- ProxOpBoxConstraint._call
  | .box true false => .set out [x, lo] (fun a i => F.max (a 0 i) (a 1 i))
  | .box false true => .set out [x, up] (fun a i => F.min (a 0 i) (a 1 i))
  | .box true true =>
      .set out [x, lo] (fun a i => F.max (a 0 i) (a 1 i)) ;;
      .set out [out, up] (fun a i => F.min (a 0 i) (a 1 i))
  | .box false false => .set out [x] (fun a => a 0)
  -- ProximalL2._call
  | .l2 false =>
      .new xnorm [x] (fun a => cst (F.norm (a 0) * (1 + P.eps))) ;;
      l2Step F P ;;
      .ifC step (fun s => F.lt (s 0) 1)
        (.set out [x, step] (fun a i => (1 - a 1 0) * a 0 i))
        -- out.set_zero() = `space.lincomb(0, out, 0, out, out=out)`; `_lincomb_impl` writes exact
        -- zeros when a = b = 0, without reading any operand
        (.set out [] (fun _ => cst 0))
  | .l2 true =>
      .new t1 [x, g] (fun a i => a 0 i - a 1 i) ;;
      .new xnorm [t1] (fun a => cst (F.norm (a 0) * (1 + P.eps))) ;;
      l2Step F P ;;
      .ifC step (fun s => F.lt (s 0) 1)
        (.set out [x, g, step] (fun a i => (1 - a 2 0) * a 0 i + a 2 0 * a 1 i))
        (.set out [g] (fun a => a 0))
  -- ProximalConvexConjL2Squared._call
  | .ccL2Sq false false =>
      .set out [x] (fun a i => (1 / (1 + F.half * P.sigma / P.lam)) * a 0 i)
  | .ccL2Sq false true =>
      .set out [x, g] (fun a i => (1 / (1 + F.half * P.sigma / P.lam)) * a 0 i +
                                  (-P.sigma / (1 + F.half * P.sigma / P.lam)) * a 1 i)
  | .ccL2Sq true false =>
      -- if sig is out: sig = sig.copy()          (/repo bc301ca)
      .ifIs sig out (.new sig [sig] (fun a => a 0)) .skip ;;
      .new t1 [sig] (fun a i => 1 + F.half / P.lam * a 0 i) ;;
      .set out [x, t1] (fun a i => a 0 i / a 1 i)
  | .ccL2Sq true true =>
      .ifIs sig out (.new sig [sig] (fun a => a 0)) .skip ;;
      .ifIs x out
        (.new tmp [sig, g] (fun a i => a 0 i * a 1 i) ;;
         .set out [x, tmp] (fun a i => 1 * a 0 i + (-1) * a 1 i))
        (.set out [sig, g] (fun a i => a 0 i * a 1 i) ;;
         .set out [x, out] (fun a i => 1 * a 0 i + (-1) * a 1 i)) ;;
      .new t1 [sig] (fun a i => 1 + F.half / P.lam * a 0 i) ;;
      .set out [out, t1] (fun a i => a 0 i / a 1 i)
  -- ProximalL2Squared._call
  | .l2Sq false false =>
      .set out [x] (fun a i => (1 / (1 + F.two * P.sigma * P.lam)) * a 0 i)
  | .l2Sq false true =>
      .set out [x, g] (fun a i => (1 / (1 + F.two * P.sigma * P.lam)) * a 0 i +
          (F.two * P.sigma * P.lam / (1 + F.two * P.sigma * P.lam)) * a 1 i)
  | .l2Sq true false =>
      -- if sig is out: sig = sig.copy()          (/repo bc301ca)
      .ifIs sig out (.new sig [sig] (fun a => a 0)) .skip ;;
      .new t1 [sig] (fun a i => 1 + F.two * a 0 i * P.lam) ;;
      .set out [x, t1] (fun a i => a 0 i / a 1 i)
  | .l2Sq true true =>
      .ifIs sig out (.new sig [sig] (fun a => a 0)) .skip ;;
      .ifIs x out
        (.new t2 [g] (fun a i => F.two * P.lam * a 0 i) ;;
         .new tmp [sig, t2] (fun a i => a 0 i * a 1 i) ;;
         .set out [x, tmp] (fun a i => 1 * a 0 i + 1 * a 1 i))
        (.new t2 [g] (fun a i => F.two * P.lam * a 0 i) ;;
         .set out [sig, t2] (fun a i => a 0 i * a 1 i) ;;
         .set out [x, out] (fun a i => 1 * a 0 i + 1 * a 1 i)) ;;
      .new t1 [sig] (fun a i => 1 + F.two * a 0 i * P.lam) ;;
      .set out [out, t1] (fun a i => a 0 i / a 1 i)
  -- ProximalConvexConjL1._call
  | .ccL1 hasG =>
      (if hasG then
        .newJunk diff ;;
        .set diff [x, Var.g] (fun a i => 1 * a 0 i + (-P.sigma) * a 1 i)
       else
        .ifIs x out (.new diff [x] (fun a => a 0)) (.bind diff x)) ;;
      .set out [diff] (fun a i => F.abs (a 0 i)) ;;
      .set out [out] (fun a i => F.max (a 0 i) P.lam) ;;
      .set out [out] (fun a i => a 0 i / P.lam) ;;
      .set out [diff, out] (fun a i => a 0 i / a 1 i)
  -- ProximalConvexConjL1L2._call
  | .ccL1L2 hasG =>
      (if hasG then
        .newJunk diff ;;
        .set diff [x, Var.g] (fun a i => 1 * a 0 i + (-P.sigma) * a 1 i)
       else .bind diff x) ;;
      .new denom [diff] (fun a => F.pwnorm (a 0)) ;;
      .set denom [denom] (fun a i => F.max (a 0 i) P.lam) ;;
      .set denom [denom] (fun a i => a 0 i / P.lam) ;;
      .set out [diff, denom] (fun a => F.pdiv (a 0) (a 1))
  -- ProximalL1._call
  | .l1 se hasG =>
      .ifIs x out (.new x [x] (fun a => a 0)) .skip ;;
      (if hasG then .new diff [x, Var.g] (fun a i => a 0 i - a 1 i) else .bind diff x) ;;
      .new denom [diff] (fun a i => F.abs (a 0 i)) ;;
      (if se then
        .new t1 [sig] (fun a i => a 0 i * P.lam) ;;
        .set denom [denom, t1] (fun a i => a 0 i / a 1 i)
       else .set denom [denom] (fun a i => a 0 i / (P.sigma * P.lam))) ;;
      .set denom [denom] (fun a i => F.max (a 0 i) 1) ;;
      .set out [diff, denom] (fun a i => a 0 i / a 1 i) ;;
      .set out [x, out] (fun a i => 1 * a 0 i + (-1) * a 1 i)
  -- ProximalL1L2._call
  | .l1l2 hasG =>
      .ifIs x out (.new x [x] (fun a => a 0)) .skip ;;
      (if hasG then .new diff [x, Var.g] (fun a i => a 0 i - a 1 i) else .bind diff x) ;;
      .new denom [diff] (fun a => F.pwnorm (a 0)) ;;
      .set denom [denom] (fun a i => a 0 i / (P.sigma * P.lam)) ;;
      .set denom [denom] (fun a i => F.max (a 0 i) 1) ;;
      .set out [diff, denom] (fun a => F.pdiv (a 0) (a 1)) ;;
      .set out [x, out] (fun a i => 1 * a 0 i + (-1) * a 1 i)
  -- ProximalLInfty._call
  | .linfty =>
      .ifIs x out (.new x [x] (fun a => a 0)) .skip ;;
      -- radius = self.sigma / _const_weight(self.domain)
      projL1 F (P.sigma / P.cw) ;;
      .set out [out, x] (fun a i => (-1) * a 0 i + 1 * a 1 i)
  -- ProximalConvexConjLinfty._call
  | .ccLinfty => projL1 F (1 / P.cw)
  -- ProximalConvexConjKL._call
  | .ccKL hasG =>
      .ifIs x out (.new x [x] (fun a => a 0)) (.set out [x] (fun a => a 0)) ;;
      .set out [out] (fun a i => a 0 i - P.lam) ;;
      .set out [out] (fun a i => F.square (a 0 i)) ;;
      -- out.lincomb(1, out, 4*lam*sigma, x if g is out else g)      (/repo 94ea956)
      (if hasG then
        .ifIs Var.g out
          (.set out [out, x] (fun a i => 1 * a 0 i + (F.four * P.lam * P.sigma) * a 1 i))
          (.set out [out, Var.g] (fun a i => 1 * a 0 i + (F.four * P.lam * P.sigma) * a 1 i))
       else .set out [out] (fun a i => a 0 i + F.four * P.lam * P.sigma)) ;;
      .set out [out] (fun a i => F.sqrt (a 0 i)) ;;
      .set out [x, out] (fun a i => 1 * a 0 i + (-1) * a 1 i) ;;
      .set out [out] (fun a i => a 0 i + P.lam) ;;
      .set out [out] (fun a i => a 0 i / F.two)
  -- ProximalConvexConjKLCrossEntropy._call
  | .ccKLCE hasG =>
      (if hasG then
        .new lambw [x, Var.g]
          (fun a i => F.lambertw ((P.sigma / P.lam) * a 1 i * F.exp (a 0 i / P.lam)))
       else
        .new lambw [x] (fun a i => F.lambertw ((P.sigma / P.lam) * F.exp (a 0 i / P.lam)))) ;;
      .set out [x, lambw] (fun a i => 1 * a 0 i + (-P.lam) * a 1 i)
  -- ProximalHuber._call
  | .huber ps =>
      -- norm = PointwiseNorm(domain, 2)(x) | x.ufuncs.absolute()
      (if ps then .new nrm [x] (fun a => F.pwnorm (a 0))
       else .new nrm [x] (fun a i => F.abs (a 0 i))) ;;
      -- small = norm_arr <= gamma + sigma;  large = np.logical_not(small)
      .new mask [nrm] (fun a i => F.ofBool (F.le (a 0 i) (P.gamma + P.sigma))) ;;
      .new t2 [mask] (fun a i => F.ofBool (!F.truthy (a 0 i))) ;;
      -- per component (merged): x_arr = x_i.asarray() is a VIEW of x; res = np.empty_like(x_arr)
      .newJunk tmp ;;
      .set tmp [tmp, x, mask]
        (fun a i => if F.truthy (a 2 (F.bidx i)) then P.gamma / (P.gamma + P.sigma) * a 1 i
                    else a 0 i) ;;
      .set tmp [tmp, x, t2, nrm]
        (fun a i => if F.truthy (a 2 (F.bidx i))
                    then a 1 i - P.sigma * (a 1 i / a 3 (F.bidx i)) else a 0 i) ;;
      -- out_i[:] = res
      .set out [tmp] (fun a => a 0)
  -- IndicatorSimplex.proximal : ProximalSimplex._call
  | .simplex false => simplexStmt F P.radius x
  | .simplex true =>
      -- x_arr = x.asarray()                  (a VIEW of x)
      .bind xarr x ;;
      -- wx_sor = (weights * x_arr).ravel()
      .new t1 [sig, xarr] (fun a i => a 0 i * a 1 i) ;;
      -- order = np.argsort(-wx_sor)
      .new order [t1] (fun a => F.argsortDesc (a 0)) ;;
      -- tau = (np.cumsum(x_arr.ravel()[order]) - diameter) / np.cumsum(1 / np.ravel(weights)[order])
      .new t2 [xarr, order, sig]
        (fun a => F.wtau P.radius (F.take (a 0) (a 1)) (F.take (a 2) (a 1))) ;;
      -- i = np.argwhere(wx_sor[order] - tau >= 0).flatten().max()
      .new crit [t1, order, t2] (fun a i => F.take (a 0) (a 1) i - a 2 i) ;;
      .new idx [crit] (fun a => cst (F.lastNonneg (a 0))) ;;
      -- out[:] = np.maximum(x_arr - tau[i] / weights, 0)
      .set out [xarr, t2, idx, sig]
        (fun a i => F.max (a 0 i - a 1 (F.toIdx (a 2 0)) / a 3 i) 0)
  -- IndicatorSumConstraint.proximal : ProximalSum._call
  | .sumc false =>
      .new offset [x] (fun a => cst (F.invSize * (P.radius - F.sum (a 0)))) ;;
      .set out [x] (fun a => a 0) ;;
      .set out [out, offset] (fun a i => a 0 i + a 1 0)
  | .sumc true =>
      -- tau = (sum_value - x.ufuncs.sum()) / np.sum(1 / weights)
      .new offset [x, sig] (fun a => cst ((P.radius - F.sum (a 0)) / F.sum (fun i => 1 / a 1 i))) ;;
      -- out[:] = x.asarray() + tau / weights
      .set out [x, offset, sig] (fun a i => a 0 i + a 1 0 / a 2 i)
  -- ScalingOperator / IdentityOperator._call(x, out)
  | .scaling => .set out [x] (fun a i => P.a * a 0 i)
  -- LinCombOperator._call(x, out), x = (x[0], x[1]); x[1] is the buffer named `g`
  | .lincombOp => .set out [x, Var.g] (fun a i => P.a * a 0 i + P.b * a 1 i)
  -- MultiplyOperator._call(x, out) with element multiplicand (buffer `sig`)
  | .multiply =>
      .new tmp [sig, x] (fun a i => a 0 i * a 1 i) ;;
      .set out [tmp] (fun a => a 0)
  -- ConstantOperator._call(x, out), constant = buffer `g`
  | .constant => .set out [Var.g] (fun a => a 0)
  -- ZeroOperator._call(x, out), domain == range
  | .zero => .set out [x] (fun a i => 0 * a 0 i)
  -- PowerOperator._call(x, out)
  | .power =>
      .set out [x] (fun a => a 0) ;;
      .set out [out] (fun a i => F.pow (a 0 i))

end

end OdlModel.Prox
