/-
Bridge between the functional expressions of `functional.py` (C08's `Fn`, with the coded
`convex_conj` = `Fn.conj`) and the proximal factories of `proximal_operators.py` (C07's
`Prox.Fn` with `Prox.Fn.prox`): which factory the `proximal` PROPERTY of every class returns.

`moreauPair` is what the C08 driver executes for the op `moreau`:
  p1 = f.proximal(σ)(x),   p2 = f.convex_conj.proximal(1/σ)(x/σ),   lhs = p1 + σ·p2
and the C08 harness compares p1, p2 with the real objects.  Core Lean only.
-/
import OdlModel.Model.Functionals
import OdlModel.Model.Prox
namespace OdlModel.Functionals

section
variable {K : Type} [Add K] [Mul K] [Sub K] [Neg K] [Div K] [OfNat K 0] [OfNat K 1]
  [LT K] [DecidableLT K] [LE K] [DecidableLE K] [DecidableEq K]

/-- The proximal factory returned by `f.proximal` (class by class); `none` = the property (or
the factory call) raises: `NotImplementedError` of `Functional.proximal` for classes without a
proximal, `ValueError` of `FunctionalLeftScalarMult.proximal` for a negative scalar, `TypeError`
of `FunctionalQuadraticPerturb.proximal` for a negative quadratic coefficient.
`lamF` is the fudged radius `float(1 * (1 - eps))` of `proximal_convex_conj_l1`.
`FunctionalQuadraticPerturb` always stores a linear term (the zero element when none was given)
and passes it as `u`; the wire sends a zero term as absent (`hasU = false`) and the model then
uses the `u = None` form of `proximal_quadratic_perturbation`: `c·x − σ·c·0 = c·x` exactly, in
floats as well. -/
def Fn.toProx (lamF : K) : Fn (List K) K → Option (Prox.Fn K)
  | .coord .l1 => some (.l1 1 none)                 -- LpNorm.proximal: proximal_l1(space)
  | .coord .indLinf => some (.ccl1 lamF none)       -- IndicatorLpUnitBall: proximal_convex_conj_l1
  | .coord (.huber γ) => some (.huber γ)            -- Huber.proximal: proximal_huber(space, gamma)
  | .l2sq => some (.l2sq 1 none)                    -- proximal_l2_squared(space)
  | .const _ => some .const                         -- proximal_const_func
  | .indZero _ => some .izero                       -- ZeroOperator
  | .lscal s f =>
      if s < 0 then none
      else if s = 0 then some .const
      else (f.toProx lamF).map fun F => .leftScale F s
  | .rscal f s => (f.toProx lamF).map fun F => .argScale F s
  | .ssum f _ => f.toProx lamF                      -- FunctionalScalarSum: self.left.proximal
  | .trans f t => (f.toProx lamF).map fun F => .trans F t
  | .qp f a hasU u _ =>
      if a < 0 then none
      else (f.toProx lamF).map fun F => .quad F a (if hasU then some u else none)
  | .breg f _ q =>                                  -- the inner FunctionalQuadraticPerturb(f, -q)
      (f.toProx lamF).map fun F => .quad F 0 (some (q.map ((-1) * ·)))
  | .dconj f => (f.toProx lamF).map fun F => .conj F   -- proximal_convex_conj(f.proximal)
  | _ => none

/-- `p1 + σ·p2`, entry by entry (`p1 + sigma * p2` of the Moreau decomposition). -/
def moreauLhs (σ : K) (p1 p2 : List K) : List K := List.zipWith (fun a b => a + σ * b) p1 p2

/-- Outcome of the two proximal evaluations of the Moreau decomposition. -/
inductive MoreauOut (K : Type)
  | noconj                      -- `f.convex_conj` raises
  | noprox1                     -- `f.proximal(σ)(x)` raises
  | noprox2                     -- `f.convex_conj.proximal(1/σ)(x/σ)` raises
  | ok (p1 p2 lhs : List K)

/-- The two sides of the Moreau decomposition as the code computes them:
`f.proximal(σ)(x)` and `f.convex_conj.proximal(1/σ)(x/σ)` with the CODED conjugate `Fn.conj`. -/
def moreauPair (E : Prox.Env K) (lamF : K) (w : List K) (f : Fn (List K) K) (σ : K)
    (x : List K) : MoreauOut K :=
  match f.conj (listOps w) with
  | none => .noconj
  | some g =>
    match f.toProx lamF with
    | none => .noprox1
    | some F =>
      match g.toProx lamF with
      | none => .noprox2
      | some G =>
        let p1 := F.prox E w (.sc σ) x
        let p2 := G.prox E w (.sc (1 / σ)) (x.map (· / σ))
        .ok p1 p2 (moreauLhs σ p1 p2)

end

/-- Rational square root: exact when the argument is the square of a rational, otherwise
accurate to a relative 2^-64 (same as the C07 driver's). -/
def ratSqrt (r : Rat) : Rat :=
  if r ≤ 0 then 0 else
  let k : Nat := 64
  let n := r.num.toNat * r.den * 4 ^ k
  mkRat (Nat.sqrt n) (r.den * 2 ^ k)

end OdlModel.Functionals
