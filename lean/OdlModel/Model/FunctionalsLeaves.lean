/-
Model of leaf functionals of `odl/solvers/functional/default_functionals.py` that are NOT part of
the expression language `Model/Functionals.lean` (C09, round 4):

* `KullbackLeibler.gradient` (`KLGradient._call`: `(-prior) / x + 1`, prior `None` = 1) and
  `KullbackLeiblerConvexConj.gradient` (`KLCCGradient._call`: `prior / (1 - x)`), with the
  points at which NumPy's division is by zero (`x_i = 0`, resp. `x_i = 1`: non-finite entry)
  and the points at which `_call` returns `inf`;
* `L2Norm._call` / `L2Norm.gradient` (`x / ‖x‖`, the zero vector at `x = 0`);
* `IndicatorBox._call` / `IndicatorNonnegativity._call` exactly as coded: project with
  `proximal_box_constraint` (C07's `boxCode`: `minimum(maximum(x, lower), upper)`), then
  `inf if x.dist(proj) > 0 else 0` in the space's own (weighted) distance;
* `SeparableSum._call` / `.gradient` / `derivative` on a product space: the parts are
  expressions of `Model/Functionals.lean`, each on its own weighted list space; the argument is
  the flat concatenation of the parts.

Core Lean only; polymorphic in the scalar type like `Model/Functionals.lean`.
-/
import OdlModel.Model.Functionals
import OdlModel.Model.Prox
namespace OdlModel.FunctionalsLeaves
open OdlModel.Functionals

section
variable {K : Type} [Add K] [Mul K] [Sub K] [Neg K] [Div K] [OfNat K 0] [OfNat K 1]
  [LT K] [DecidableLT K] [LE K] [DecidableLE K] [DecidableEq K]

/-! ### Kullback–Leibler gradients -/

/-- One entry of `KLGradient._call`: `(-prior) / x + 1`. -/
def klGrad1 (g x : K) : K := (-g) / x + 1

/-- One entry of `KLCCGradient._call`: `prior / (1 - x)`. -/
def klccGrad1 (g x : K) : K := g / (1 - x)

/-- `KullbackLeibler(space, prior=g).gradient(x)` (prior `None` is sent as all ones). -/
def klGrad (g x : List K) : List K := List.zipWith klGrad1 g x

/-- `KullbackLeiblerConvexConj(space, prior=g).gradient(x)`. -/
def klccGrad (g x : List K) : List K := List.zipWith klccGrad1 g x

/-- No division by zero in `KLGradient._call` (all entries of the result finite). -/
def klGradFinite (x : List K) : Bool := x.all fun t => !(t = 0)

/-- No division by zero in `KLCCGradient._call`. -/
def klccGradFinite (x : List K) : Bool := x.all fun t => !(t = 1)

/-- `KullbackLeibler._call` is finite (for a positive prior): every entry of `x` positive. -/
def klDom (x : List K) : Bool := x.all fun t => decide (0 < t)

/-- `KullbackLeiblerConvexConj._call` is finite (for a positive prior): every entry `< 1`. -/
def klccDom (x : List K) : Bool := x.all fun t => decide (t < 1)

/-! ### L2Norm (`LpNorm` with exponent 2) -/

/-- `L2Norm._call`: `np.sqrt(x.inner(x))` (`sqrt` is a parameter, as in C07: the driver supplies
the exact rational root when there is one and a 2^-64 accurate one otherwise; the theorems use
`Real.sqrt`). -/
def l2Val (sqrt : K → K) (w x : List K) : K := sqrt (innerW w x x)

/-- `L2Gradient._call`: `x / x.norm()`, and the ZERO vector when `x.norm() == 0`. -/
def l2Grad (sqrt : K → K) (w x : List K) : List K :=
  if sqrt (innerW w x x) = 0 then x.map (fun _ => 0) else x.map (· / sqrt (innerW w x x))

/-! ### IndicatorBox -/

/-- One entry of the box: weight, lower bound, upper bound (`none` = absent), argument. -/
structure BoxEntry (K : Type) where
  w : K
  lo : Option K
  hi : Option K
  x : K

/-- `‖x − proj‖²` in the weighted inner product, `proj = ProxOpBoxConstraint(x)`. -/
def boxDist2 : List (BoxEntry K) → K
  | [] => 0
  | e :: r =>
      e.w * (e.x - OdlModel.Prox.boxCode e.lo e.hi e.x) * (e.x - OdlModel.Prox.boxCode e.lo e.hi e.x)
        + boxDist2 r

/-- `IndicatorBox._call` returns `inf`: `x.dist(proj) > 0`. -/
def boxIsInf (es : List (BoxEntry K)) : Bool := decide (0 < boxDist2 es)

def mkBox : List K → List (Option K) → List (Option K) → List K → List (BoxEntry K)
  | w :: ws, l :: ls, h :: hs, x :: xs => ⟨w, l, h, x⟩ :: mkBox ws ls hs xs
  | _, _, _, _ => []

/-! ### SeparableSum on a product space -/

/-- One summand: the weights of its own space, its expression, its part of the argument (and of
the direction, for `derivative`). -/
structure SepPart (K : Type) where
  w : List K
  f : Fn (List K) K
  x : List K
  d : List K

/-- `SeparableSum._call`: `sum(fi(xi))`. -/
def sepValue : List (SepPart K) → K
  | [] => 0
  | p :: r => p.f.value (listOps p.w) p.x + sepValue r

/-- All summands finite. -/
def sepDom : List (SepPart K) → Bool
  | [] => true
  | p :: r => p.f.dom (listOps p.w) p.x && sepDom r

def sepHasGrad : List (SepPart K) → Bool
  | [] => true
  | p :: r => p.f.hasGrad && sepHasGrad r

/-- `SeparableSum.gradient(x)` = `DiagonalOperator(*gradients)(x)`, flat. -/
def sepGrad : List (SepPart K) → List K
  | [] => []
  | p :: r => p.f.grad (listOps p.w) p.x ++ sepGrad r

/-- The product space's own inner product of the flat vectors `a`, `b`, part by part
(`ProductSpace` with the default weighting: the sum of the parts' inner products). The parts
give the split (`p.x.length` entries each) and the weights. -/
def sepInner : List (SepPart K) → List K → List K → K
  | [], _, _ => 0
  | p :: r, a, b =>
      innerW p.w (a.take p.x.length) (b.take p.x.length)
        + sepInner r (a.drop p.x.length) (b.drop p.x.length)

/-- The direction of `derivative(x)(d)`, flat. -/
def sepDir : List (SepPart K) → List K
  | [] => []
  | p :: r => p.d ++ sepDir r

/-- `SeparableSum.derivative(x)(d) = d.inner(gradient(x))` in the product space. -/
def sepDeriv (ps : List (SepPart K)) : K := sepInner ps (sepDir ps) (sepGrad ps)

end
end OdlModel.FunctionalsLeaves
