/-
Model of leaf functionals of `odl/solvers/functional/default_functionals.py` that are NOT part of
the expression language `Model/Functionals.lean` (C09, round 4):

* `KullbackLeibler.gradient` (`KLGradient._call`: `(-prior) / x + 1`, prior `None` = 1) and
  `KullbackLeiblerConvexConj.gradient` (`KLCCGradient._call`: `prior / (1 - x)`), with the
  points at which NumPy's division is by zero (`x_i = 0`, resp. `x_i = 1`: non-finite entry)
  and the points at which `_call` returns `inf`;
* `L2Norm._call` / `L2Norm.gradient` (`x / ‖x‖`, the zero vector at `x = 0`);
* `IndicatorBox._call` / `IndicatorNonnegativity._call` exactly as coded: project with
  `proximal_box_constraint` (C07's `boxCode`: `minimum(maximum(x, lower), upper)`), then
  `inf if x.dist(proj) > 0 else 0` in the space's own (weighted) distance;
* `SeparableSum._call` / `.gradient` / `derivative` on a product space: the parts are
  expressions of `Model/Functionals.lean`, each on its own weighted list space; the argument is
  the flat concatenation of the parts.

Core Lean only; polymorphic in the scalar type like `Model/Functionals.lean`.
-/
import OdlModel.Model.Functionals
import OdlModel.Model.Prox
namespace OdlModel.FunctionalsLeaves
open OdlModel.Functionals

section
variable {K : Type} [Add K] [Mul K] [Sub K] [Neg K] [Div K] [OfNat K 0] [OfNat K 1]
  [LT K] [DecidableLT K] [LE K] [DecidableLE K] [DecidableEq K]

/-! ### Kullback–Leibler gradients -/

/-- One entry of `KLGradient._call`: `(-prior) / x + 1`. -/
def klGrad1 (g x : K) : K := (-g) / x + 1

/-- One entry of `KLCCGradient._call`: `prior / (1 - x)`. -/
def klccGrad1 (g x : K) : K := g / (1 - x)

/-- `KullbackLeibler(space, prior=g).gradient(x)` (prior `None` is sent as all ones). -/
def klGrad (g x : List K) : List K := List.zipWith klGrad1 g x

/-- `KullbackLeiblerConvexConj(space, prior=g).gradient(x)`. -/
def klccGrad (g x : List K) : List K := List.zipWith klccGrad1 g x

/-- No division by zero in `KLGradient._call` (all entries of the result finite). -/
def klGradFinite (x : List K) : Bool := x.all fun t => !(t = 0)

/-- No division by zero in `KLCCGradient._call`. -/
def klccGradFinite (x : List K) : Bool := x.all fun t => !(t = 1)

/-- `KullbackLeibler._call` is finite (for a positive prior): every entry of `x` positive. -/
def klDom (x : List K) : Bool := x.all fun t => decide (0 < t)

/-- `KullbackLeiblerConvexConj._call` is finite (for a positive prior): every entry `< 1`. -/
def klccDom (x : List K) : Bool := x.all fun t => decide (t < 1)

/-! ### L2Norm (`LpNorm` with exponent 2) -/

/-- `L2Norm._call`: `np.sqrt(x.inner(x))` (`sqrt` is a parameter, as in C07: the driver supplies
the exact rational root when there is one and a 2^-64 accurate one otherwise; the theorems use
`Real.sqrt`). -/
def l2Val (sqrt : K → K) (w x : List K) : K := sqrt (innerW w x x)

/-- `L2Gradient._call`: `x / x.norm()`, and the ZERO vector when `x.norm() == 0`. -/
def l2Grad (sqrt : K → K) (w x : List K) : List K :=
  if sqrt (innerW w x x) = 0 then x.map (fun _ => 0) else x.map (· / sqrt (innerW w x x))

/-! ### IndicatorBox -/

/-- One entry of the box: weight, lower bound, upper bound (`none` = absent), argument. -/
structure BoxEntry (K : Type) where
  w : K
  lo : Option K
  hi : Option K
  x : K

/-- `‖x − proj‖²` in the weighted inner product, `proj = ProxOpBoxConstraint(x)`. -/
def boxDist2 : List (BoxEntry K) → K
  | [] => 0
  | e :: r =>
      e.w * (e.x - OdlModel.Prox.boxCode e.lo e.hi e.x) * (e.x - OdlModel.Prox.boxCode e.lo e.hi e.x)
        + boxDist2 r

/-- `IndicatorBox._call` returns `inf`: `x.dist(proj) > 0`. -/
def boxIsInf (es : List (BoxEntry K)) : Bool := decide (0 < boxDist2 es)

def mkBox : List K → List (Option K) → List (Option K) → List K → List (BoxEntry K)
  | w :: ws, l :: ls, h :: hs, x :: xs => ⟨w, l, h, x⟩ :: mkBox ws ls hs xs
  | _, _, _, _ => []

/-! ### SeparableSum on a product space -/

/-- One summand: the weights of its own space, its expression, its part of the argument (and of
the direction, for `derivative`). -/
structure SepPart (K : Type) where
  w : List K
  f : Fn (List K) K
  x : List K
  d : List K

/-- `SeparableSum._call`: `sum(fi(xi))`. -/
def sepValue : List (SepPart K) → K
  | [] => 0
  | p :: r => p.f.value (listOps p.w) p.x + sepValue r

/-- All summands finite. -/
def sepDom : List (SepPart K) → Bool
  | [] => true
  | p :: r => p.f.dom (listOps p.w) p.x && sepDom r

def sepHasGrad : List (SepPart K) → Bool
  | [] => true
  | p :: r => p.f.hasGrad && sepHasGrad r

/-- `SeparableSum.gradient(x)` = `DiagonalOperator(*gradients)(x)`, flat. -/
def sepGrad : List (SepPart K) → List K
  | [] => []
  | p :: r => p.f.grad (listOps p.w) p.x ++ sepGrad r

/-- The product space's own inner product of the flat vectors `a`, `b`, part by part
(`ProductSpace` with the default weighting: the sum of the parts' inner products). The parts
give the split (`p.x.length` entries each) and the weights. -/
def sepInner : List (SepPart K) → List K → List K → K
  | [], _, _ => 0
  | p :: r, a, b =>
      innerW p.w (a.take p.x.length) (b.take p.x.length)
        + sepInner r (a.drop p.x.length) (b.drop p.x.length)

/-- The direction of `derivative(x)(d)`, flat. -/
def sepDir : List (SepPart K) → List K
  | [] => []
  | p :: r => p.d ++ sepDir r

/-- `SeparableSum.derivative(x)(d) = d.inner(gradient(x))` in the product space. -/
def sepDeriv (ps : List (SepPart K)) : K := sepInner ps (sepDir ps) (sepGrad ps)

/-! ### ROUND 5: expression trees OVER the new leaves

`Fn` (shared with C08) cannot get new constructors without breaking C08's exhaustive inductions,
so the trees over KL / KL-conjugate / L2-norm leaves are a second, C09-owned language: a leaf is
either a whole `Fn` tree (`base`) or one of the new leaves, and the derived nodes are the
classes of `functional.py` under which such leaves occur in practice. Gradients are built exactly
as in `Fn.grad`. -/

/-- The new leaves' operations on the vector type (`klVal` contains `log` and is only
instantiated in the theorems; the driver never evaluates it). -/
structure LeafOps (V K : Type) where
  klVal : V → V → K          -- prior, x
  klGrad : V → V → V
  klOk : V → Bool            -- no division by zero in `KLGradient._call`
  klccVal : V → V → K
  klccGrad : V → V → V
  klccOk : V → Bool
  l2Val : V → K
  l2Grad : V → V

inductive FnX (V K : Type)
  | base (t : Fn V K)                           -- any tree of the shared language
  | kl (g : V)                                  -- KullbackLeibler(space, prior=g)
  | klcc (g : V)                                -- KullbackLeiblerConvexConj(space, prior=g)
  | l2                                          -- L2Norm / LpNorm(exponent=2)
  | lscal (s : K) (f : FnX V K)                 -- FunctionalLeftScalarMult
  | rscal (f : FnX V K) (s : K)                 -- FunctionalRightScalarMult
  | sum (f g : FnX V K)                         -- FunctionalSum
  | ssum (f : FnX V K) (c : K)                  -- FunctionalScalarSum
  | trans (f : FnX V K) (t : V)                 -- FunctionalTranslation
  | qp (f : FnX V K) (a : K) (u : V) (c : K)    -- FunctionalQuadraticPerturb

variable {V : Type} (o : VecOps V K) (lo : LeafOps V K)

/-- Does the tree contain a leaf whose value is not executable (`log`)? -/
def FnX.hasLog : FnX V K → Bool
  | .kl _ | .klcc _ => true
  | .base _ | .l2 => false
  | .lscal _ f | .rscal f _ | .ssum f _ | .trans f _ | .qp f _ _ _ => f.hasLog
  | .sum f g => f.hasLog || g.hasLog

def FnX.value : FnX V K → V → K
  | .base t, x => t.value o x
  | .kl g, x => lo.klVal g x
  | .klcc g, x => lo.klccVal g x
  | .l2, x => lo.l2Val x
  | .lscal s f, x => s * f.value x
  | .rscal f s, x => f.value (o.smul s x)
  | .sum f g, x => f.value x + g.value x
  | .ssum f c, x => f.value x + c
  | .trans f t, x => f.value (o.sub x t)
  | .qp f a u c, x => f.value x + a * o.inner x x + o.inner x u + c

def FnX.hasGrad : FnX V K → Bool
  | .base t => t.hasGrad
  | .kl _ | .klcc _ | .l2 => true
  | .lscal _ f | .rscal f _ | .ssum f _ | .trans f _ | .qp f _ _ _ => f.hasGrad
  | .sum f g => f.hasGrad && g.hasGrad

/-- No division by zero anywhere in the evaluation of the gradient at `x`. -/
def FnX.gradOk : FnX V K → V → Bool
  | .kl _, x => lo.klOk x
  | .klcc _, x => lo.klccOk x
  | .base _, _ | .l2, _ => true
  | .lscal _ f, x | .ssum f _, x | .qp f _ _ _, x => f.gradOk x
  | .rscal f s, x => f.gradOk (o.smul s x)
  | .trans f t, x => f.gradOk (o.sub x t)
  | .sum f g, x => f.gradOk x && g.gradOk x

/-- `f.gradient(x)`, node by node as in `Fn.grad`. -/
def FnX.grad : FnX V K → V → V
  | .base t, x => t.grad o x
  | .kl g, x => lo.klGrad g x
  | .klcc g, x => lo.klccGrad g x
  | .l2, x => lo.l2Grad x
  | .lscal s f, x => o.smul s (f.grad x)
  | .rscal f s, x => o.smul s (f.grad (o.smul s x))
  | .sum f g, x => o.add (f.grad x) (g.grad x)
  | .ssum f _, x => o.add (f.grad x) o.zero
  | .trans f t, x => f.grad (o.sub x t)
  | .qp f a u _, x => o.add (o.add (f.grad x) (o.smul (two * a) x)) u

/-- `f.derivative(x)(d) = d.inner(f.gradient(x))`. -/
def FnX.deriv (f : FnX V K) (x d : V) : K := o.inner d (f.grad o lo x)

/-- The leaves on weighted lists, as the driver executes them (`sqrt` a parameter). -/
def listLeafOps (sqrt : K → K) (w : List K) : LeafOps (List K) K where
  klVal := fun _ _ => 0        -- never evaluated (`hasLog`)
  klGrad := klGrad
  klOk := klGradFinite
  klccVal := fun _ _ => 0      -- never evaluated
  klccGrad := klccGrad
  klccOk := klccGradFinite
  l2Val := l2Val sqrt w
  l2Grad := l2Grad sqrt w

end
end OdlModel.FunctionalsLeaves
