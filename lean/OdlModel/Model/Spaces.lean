/-
Model of the `__eq__` / `__hash__` / `__contains__` / `element` logic of ODL's sets, spaces,
grids, partitions and weightings (C20).  Hand-written from the code AS IT EXISTS in
  odl/set/sets.py, odl/set/domain.py, odl/space/weighting.py, odl/space/base_tensors.py,
  odl/space/npy_tensors.py, odl/space/pspace.py, odl/discr/grid.py, odl/discr/partition.py,
  odl/discr/discr_space.py.

Conventions
* A *descriptor* holds exactly the attributes the Python methods look at; the harness reads
  the same attributes from live objects (`tools/harness/c20.py::describe`).
* `…eqI` / `…eqO` is the model of `a.__eq__(b)` as coded (`eqO : Option Bool`, `none` = the
  Python code raises).  `other is self` short-cuts are not modelled separately: identity of
  objects implies equality of descriptors, so they are subsumed by reflexivity of the slow
  path (proved in Props/C20).
* `…hk` is the model of `__hash__`: a token list that is equal for two objects iff the
  tuples handed to Python's `hash` are equal component-wise (`HKey`).  For frozenset-based
  hashes the key is a multiset (`SHKey.fset`).
* Floats: `Fl` distinguishes `-0.0` from `0.0` (they compare equal with `==` and have equal
  Python hashes but different `tobytes()`); NaN is excluded (constructors reject it for
  interval products / grids / constants; NaN exponents are outside the model).
* Identity-compared attributes (weighting arrays, custom callables) are `Nat` tokens.
-/
namespace OdlModel.Spaces

/-! ## floats as seen by `==`, `hash` and `tobytes` -/

inductive Fl
  | fin (r : Rat)
  | negZero
  | posInf
  | negInf
  deriving DecidableEq, Repr

/-- What `==` and Python's `hash(float)` see: `-0.0` is `0.0`. -/
def Fl.canon : Fl → Fl
  | .negZero => .fin 0
  | x => x

/-- IEEE `==` on non-NaN floats. -/
def Fl.numEq (a b : Fl) : Bool := decide (a.canon = b.canon)

/-- element-wise `==` reduced with `all` over two arrays of the SAME length -/
def flAllEq : List Fl → List Fl → Bool
  | a :: l, b :: l' => a.numEq b && flAllEq l l'
  | _, _ => true

/-- `np.array_equal(a, b)` for 1-d arrays: shapes equal and all entries `==`. -/
def arrayEqual (a b : List Fl) : Bool := decide (a.length = b.length) && flAllEq a b

/-- `np.all(a == b)` for 1-d float arrays WITH NumPy broadcasting: equal lengths compare
entry-wise, a length-1 operand is broadcast, anything else raises `ValueError`. -/
def npAllEq (a b : List Fl) : Option Bool :=
  if a.length = b.length then some (flAllEq a b)
  else match a, b with
    | [x], _ => some (b.all (fun y => x.numEq y))
    | _, [y] => some (a.all (fun x => x.numEq y))
    | _, _ => none

/-! ## dtypes -/

inductive DType
  | bool | int8 | int16 | int32 | int64 | uint8 | uint16 | uint32 | uint64
  | float16 | float32 | float64 | float128 | complex64 | complex128 | complex256
  | bytes (width : Nat) | str (width : Nat)   -- 'S<width>' / 'U<width>'
  deriving DecidableEq, Repr

/-! ## hash keys -/

/-- Class objects (`type(self)`) and other constants occurring in hashed tuples. -/
inductive Tag
  | EmptySet | UniversalSet | Strings | ComplexNumbers | RealNumbers | Integers
  | CartesianProduct | SetUnion | SetIntersection | FiniteSet
  | IntervalProd | RectGrid | RectPartition
  | NumpyTensorSpace | DiscretizedSpace | ProductSpace
  | ConstWeighting | ArrayWeighting | CustomInner | CustomNorm | CustomDist  -- + family
  | implNumpy | fn
  deriving DecidableEq, Repr

inductive HTok
  | tag (t : Tag)
  | fam (np : Bool)
  | str (s : String)
  | fl (f : Fl)
  | nat (n : Nat)
  | int (i : Int)
  | dt (d : DType)
  | bytes (digest : String)
  | op
  | cl
  deriving DecidableEq, Repr

abbrev HKey := List HTok

def tup (parts : List HKey) : HKey := [HTok.op] ++ parts.flatten ++ [HTok.cl]

/-- Python `hash(float)`: canonical value (so `hash(-0.0) = hash(0.0)`, `hash(2.0) = hash(2)`). -/
def hkFloat (f : Fl) : HKey := [HTok.fl f.canon]
/-- `ndarray.tobytes()` of a float64 vector: raw entries (`-0.0` and `0.0` differ). -/
def hkBytes (v : List Fl) : HKey := tup [v.map HTok.fl]

/-! ## weightings (odl/space/weighting.py and the two `impl='numpy'` families) -/

/-- `np`: `NumpyTensorSpace…Weighting/Custom…`, `ps`: `ProductSpace…`.  Both have
`impl == 'numpy'`; `Weighting.__eq__` and `__hash__` both look at `type(self)`. -/
inductive WCls | np | ps
  deriving DecidableEq, Repr

inductive Weighting
  | const (cls : WCls) (c : Fl) (e : Fl)     -- ConstWeighting: const, exponent
  | array (cls : WCls) (arr : Nat) (e : Fl)  -- ArrayWeighting: identity of the array, exponent
  | inner (cls : WCls) (f : Nat)             -- CustomInner: identity of the callable
  | norm (cls : WCls) (f : Nat)              -- CustomNorm
  | dist (cls : WCls) (f : Nat)              -- CustomDist
  deriving DecidableEq, Repr

def Weighting.cls : Weighting → WCls
  | .const c _ _ | .array c _ _ | .inner c _ | .norm c _ | .dist c _ => c

def Weighting.exponent : Weighting → Fl
  | .const _ _ e | .array _ _ e => e
  | _ => .fin 2

/-- `Weighting.__eq__` (base class): `type(other) is type(self) and self.impl ==
other.impl and self.exponent == other.exponent` (impl is `'numpy'` throughout; the kind part
of the type test is the `match` in `eqI`, the family part is `cls`). -/
def Weighting.baseEq (a b : Weighting) : Bool :=
  decide (a.cls = b.cls) && a.exponent.numEq b.exponent

/-- `a.__eq__(b)` for the five weighting kinds as coded:
`ConstWeighting`: base and `self.const == getattr(other, 'const', None)`;
`ArrayWeighting`: base and `self.array is getattr(other, 'array', None)`;
`CustomInner/Norm/Dist`: base and `self.inner == other.inner` (the attribute of a
non-custom weighting is a bound method, never equal to a plain function). -/
def Weighting.eqI (a b : Weighting) : Bool :=
  a.baseEq b &&
  match a, b with
  | .const _ c _, .const _ c' _ => c.numEq c'
  | .array _ i _, .array _ j _ => decide (i = j)
  | .inner _ f, .inner _ g => decide (f = g)
  | .norm _ f, .norm _ g => decide (f = g)
  | .dist _ f, .dist _ g => decide (f = g)
  | _, _ => false

def WCls.tok : WCls → HTok
  | .np => .fam true | .ps => .fam false

/-- `Weighting.__hash__` base: `hash((type(self), self.impl, self.exponent))`. -/
def Weighting.baseHk (kind : Tag) (c : WCls) (e : Fl) : HKey :=
  tup [[c.tok, HTok.tag kind], [HTok.tag .implNumpy], hkFloat e]

/-- `__hash__` per class; `heap i` is the digest of `array.tobytes()` of the array with
identity token `i`.  `NumpyTensorSpaceArrayWeighting` overrides `__hash__` with
`hash((type(self), self.array.tobytes(), self.exponent))`. -/
def Weighting.hk (heap : Nat → String) : Weighting → HKey
  | .const c v e => tup [Weighting.baseHk .ConstWeighting c e, hkFloat v]
  | .array .np i e => tup [[WCls.np.tok, HTok.tag .ArrayWeighting], [HTok.bytes (heap i)],
                          hkFloat e]
  | .array .ps i e => tup [Weighting.baseHk .ArrayWeighting .ps e, [HTok.bytes (heap i)]]
  | .inner c f => tup [Weighting.baseHk .CustomInner c (.fin 2), [HTok.tag .fn, HTok.nat f]]
  | .norm c f => tup [Weighting.baseHk .CustomNorm c (.fin 2), [HTok.tag .fn, HTok.nat f]]
  | .dist c f => tup [Weighting.baseHk .CustomDist c (.fin 2), [HTok.tag .fn, HTok.nat f]]

/-! ## interval products, grids, partitions -/

structure IntervalProd where
  lo : List Fl
  hi : List Fl
  deriving DecidableEq, Repr

def IntervalProd.ndim (a : IntervalProd) : Nat := a.lo.length

/-- `IntervalProd.__eq__` before the repair: `np.all(self.min_pt == other.min_pt) and
np.all(self.max_pt == other.max_pt)` — NumPy broadcasting included (see `npAllEq`). -/
def IntervalProd.eqOld (a b : IntervalProd) : Option Bool :=
  match npAllEq a.lo b.lo with
  | none => none
  | some false => some false
  | some true => npAllEq a.hi b.hi

/-- `IntervalProd.__eq__`: `self.ndim == other.ndim and np.all(self.min_pt == other.min_pt)
and np.all(self.max_pt == other.max_pt)`. -/
def IntervalProd.eqO (a b : IntervalProd) : Option Bool :=
  if a.ndim = b.ndim then a.eqOld b else some false

/-- `hash((type(self), tuple(self.min_pt), tuple(self.max_pt)))` -/
def IntervalProd.hk (a : IntervalProd) : HKey :=
  tup [[HTok.tag .IntervalProd], tup (a.lo.map hkFloat), tup (a.hi.map hkFloat)]

structure Grid where
  vecs : List (List Fl)
  deriving DecidableEq, Repr

def Grid.shape (g : Grid) : List Nat := g.vecs.map List.length

def vecsAllEq : List (List Fl) → List (List Fl) → Bool
  | a :: l, b :: l' => arrayEqual a b && vecsAllEq l l'
  | _, _ => true

/-- `RectGrid.__eq__`: same type, `self.shape == other.shape`, `np.array_equal` per axis. -/
def Grid.eqI (a b : Grid) : Bool := decide (a.shape = b.shape) && vecsAllEq a.vecs b.vecs

/-- `hash((type(self), tuple((cv + 0.0).tobytes() for cv in self.coord_vectors)))`;
adding `0.0` turns `-0.0` into `0.0` and changes nothing else. -/
def Grid.hk (g : Grid) : HKey :=
  tup [[HTok.tag .RectGrid], tup (g.vecs.map fun v => hkBytes (v.map Fl.canon))]

/-- the hash before the repair: raw bytes, `-0.0` and `0.0` differ -/
def Grid.hkOld (g : Grid) : HKey := tup [[HTok.tag .RectGrid], tup (g.vecs.map hkBytes)]

structure Partition where
  set : IntervalProd
  grid : Grid
  deriving DecidableEq, Repr

/-- `RectPartition.__eq__`: same type and `self.set == other.set and self.grid == other.grid`. -/
def Partition.eqO (a b : Partition) : Option Bool :=
  match a.set.eqO b.set with
  | none => none
  | some false => some false
  | some true => some (a.grid.eqI b.grid)

def Partition.hk (p : Partition) : HKey := tup [[HTok.tag .RectPartition], p.set.hk, p.grid.hk]

/-! ## tensor spaces, discretized spaces, product spaces -/

structure TSpace where
  shape : List Nat
  dtype : DType
  w : Weighting
  deriving DecidableEq, Repr

/-- `NumpyTensorSpace.__eq__`: `TensorSpace.__eq__` (type, shape, dtype) and
`self.weighting == other.weighting`. -/
def TSpace.eqI (a b : TSpace) : Bool :=
  decide (a.shape = b.shape) && decide (a.dtype = b.dtype) && a.w.eqI b.w

/-- `TensorSpace.__hash__`: `hash((type(self), self.shape, self.dtype))` -/
def baseTensorHk (cls : Tag) (shape : List Nat) (d : DType) : HKey :=
  tup [[HTok.tag cls], tup (shape.map fun n => [HTok.nat n]), [HTok.dt d]]

def TSpace.hk (heap : Nat → String) (t : TSpace) : HKey :=
  tup [baseTensorHk .NumpyTensorSpace t.shape t.dtype, t.w.hk heap]

/-- One axis of a discretized space: `partition.set.min_pt[i]`, `max_pt[i]`,
`partition.grid.coord_vectors[i]`.  (Keeping them per axis makes `set.ndim = grid.ndim`,
enforced by `RectPartition.__init__`, hold by construction.) -/
structure Axis where
  lo : Fl
  hi : Fl
  pts : List Fl
  deriving DecidableEq, Repr

structure Discr where
  axes : List Axis
  dtype : DType
  w : Weighting        -- `tspace.weighting`
  labels : List String -- `axis_labels`: looked at by neither `__eq__` nor `__hash__`
  deriving DecidableEq, Repr

def Discr.shape (d : Discr) : List Nat := d.axes.map (fun a => a.pts.length)
def Discr.tspace (d : Discr) : TSpace := ⟨d.shape, d.dtype, d.w⟩
def Discr.part (d : Discr) : Partition :=
  ⟨⟨d.axes.map (·.lo), d.axes.map (·.hi)⟩, ⟨d.axes.map (·.pts)⟩⟩

/-- `DiscretizedSpace.__eq__`: `TensorSpace.__eq__(self, other) and other.tspace ==
self.tspace and other.partition == self.partition` (note the swapped operands).  The
partition comparison cannot raise once the shapes are equal (`Discr.part_eq_total`). -/
def Discr.eqI (a b : Discr) : Bool :=
  decide (a.shape = b.shape) && decide (a.dtype = b.dtype) && b.tspace.eqI a.tspace &&
    (Partition.eqO b.part a.part == some true)

def Discr.hk (heap : Nat → String) (d : Discr) : HKey :=
  tup [baseTensorHk .DiscretizedSpace d.shape d.dtype, d.tspace.hk heap, d.part.hk]

inductive Fld | real | complex | none
  deriving DecidableEq, Repr

inductive Space
  | tensor (t : TSpace)
  | discr (d : Discr)
  | prod (parts : List Space) (w : Weighting) (fld : Fld)
  deriving Repr

mutual
/-- `a.__eq__(b)` on spaces.  `ProductSpace.__eq__`: `isinstance(other, ProductSpace) and
len(self) == len(other) and self.weighting == other.weighting and all(x == y for x, y in
zip(self.spaces, other.spaces))`; the field is not compared. -/
def Space.eqI : Space → Space → Bool
  | .tensor a, .tensor b => a.eqI b
  | .discr a, .discr b => a.eqI b
  | .prod l w _, .prod l' w' _ => decide (l.length = l'.length) && w.eqI w' && Space.eqL l l'
  | _, _ => false
/-- `all(x == y for x, y in zip(l, l'))` -/
def Space.eqL : List Space → List Space → Bool
  | a :: l, b :: l' => a.eqI b && Space.eqL l l'
  | _, _ => true
end

mutual
/-- `ProductSpace.__hash__`: `hash((type(self), self.spaces, self.weighting))` -/
def Space.hk (heap : Nat → String) : Space → HKey
  | .tensor t => t.hk heap
  | .discr d => d.hk heap
  | .prod l w _ => tup [[HTok.tag .ProductSpace], tup [Space.hkL heap l], w.hk heap]
def Space.hkL (heap : Nat → String) : List Space → HKey
  | [] => []
  | a :: l => a.hk heap ++ Space.hkL heap l
end

/-- `x in S` for every `LinearSpace` / `TensorSpace`: `getattr(x, 'space', None) == S`,
i.e. `x.space.__eq__(S)`; objects without a `space` attribute (`none`) are never members. -/
def Space.contains (S : Space) (xspace : Option Space) : Bool :=
  match xspace with
  | none => false
  | some X => X.eqI S

/-! ## plain sets (odl/set/sets.py) -/

inductive Atom | int (i : Int) | str (s : String)
  deriving DecidableEq, Repr

/-- Non-composite sets. -/
inductive Leaf
  | emptySet | universalSet | strings (n : Nat) | complexNumbers | realNumbers | integers
  | interval (ip : IntervalProd)
  | grid (g : Grid)
  | space (s : Space)
  | finite (elems : List Atom)
  deriving Repr

/-- `all(el in other for el in self) and all(el in self for el in other)` with
`el in other := el in other.elements` (tuple containment, atoms compare structurally). -/
def finiteEq (a b : List Atom) : Bool :=
  a.all (fun x => b.contains x) && b.all (fun x => a.contains x)

/-- `a.__eq__(b)` for non-composite sets (`none` = raises).  Every cross-class pair is
`False`: `isinstance` / `type(...) ==` tests fail. -/
def Leaf.eqO : Leaf → Leaf → Option Bool
  | .emptySet, .emptySet => some true
  | .universalSet, .universalSet => some true
  | .strings n, .strings m => some (decide (m = n))
  | .complexNumbers, .complexNumbers => some true
  | .realNumbers, .realNumbers => some true
  | .integers, .integers => some true
  | .interval a, .interval b => a.eqO b
  | .grid a, .grid b => some (a.eqI b)
  | .space a, .space b => some (a.eqI b)
  | .finite a, .finite b => some (finiteEq a b)
  | _, _ => some false

def atomHk : Atom → HKey
  | .int i => [HTok.int i]
  | .str s => [HTok.str s]

/-- Hash keys of sets: a plain tuple key, or (frozenset-based hashes) a class tag with the
MULTISET of the member keys. -/
inductive SHKey
  | plain (k : HKey)
  | fset (cls : Tag) (members : List HKey)
  deriving Repr

/-- Equality of Python hashes as far as the hashed tuples determine it: plain keys
component-wise, frozensets as multisets (Python's frozenset hash is a symmetric function of
the member hashes). -/
def SHKey.eqv : SHKey → SHKey → Bool
  | .plain a, .plain b => decide (a = b)
  | .fset c a, .fset c' b => decide (c = c') && a.isPerm b
  | _, _ => false

def Leaf.hkPlain (heap : Nat → String) : Leaf → HKey
  | .emptySet => [HTok.tag .EmptySet]
  | .universalSet => [HTok.tag .UniversalSet]
  | .strings n => tup [[HTok.tag .Strings], [HTok.nat n]]
  | .complexNumbers => [HTok.tag .ComplexNumbers]
  | .realNumbers => [HTok.tag .RealNumbers]
  | .integers => [HTok.tag .Integers]
  | .interval a => a.hk
  | .grid g => g.hk
  | .space s => s.hk heap
  | .finite _ => []

def Leaf.hk (heap : Nat → String) : Leaf → SHKey
  | .finite els => .fset .FiniteSet (els.map atomHk)
  | l => .plain (l.hkPlain heap)

/-- short-circuiting `all` / `any` over possibly raising tests -/
def allO {α} (p : α → Option Bool) : List α → Option Bool
  | [] => some true
  | x :: l => match p x with
    | none => none
    | some false => some false
    | some true => allO p l

def anyO {α} (p : α → Option Bool) : List α → Option Bool
  | [] => some false
  | x :: l => match p x with
    | none => none
    | some true => some true
    | some false => anyO p l

/-- CPython tuple `==`: first differing pair decides (no early exit on the lengths),
then the lengths. -/
def tupleEqO {α} (e : α → α → Option Bool) : List α → List α → Option Bool
  | [], [] => some true
  | a :: l, b :: l' => match e a b with
    | none => none
    | some false => some false
    | some true => tupleEqO e l l'
  | _, _ => some false

/-- `x in tup` for a tuple: `any(item == x for item in tup)`. -/
def memO {α} (e : α → α → Option Bool) (x : α) (tupl : List α) : Option Bool :=
  anyO (fun item => e item x) tupl

/-- `SetUnion.__eq__` / `SetIntersection.__eq__` after commit 02921b9:
`all(s in other.sets for s in self.sets) and all(s in self.sets for s in other.sets)`. -/
def mutualInclO {α} (e : α → α → Option Bool) (a b : List α) : Option Bool :=
  match allO (fun s => memO e s b) a with
  | none => none
  | some false => some false
  | some true => allO (fun s => memO e s a) b

/-- All classes with `__eq__`/`__hash__` that the zoo contains. -/
inductive Obj
  | leaf (l : Leaf)
  | cartesian (ms : List Leaf)
  | union (ms : List Leaf)
  | inter (ms : List Leaf)
  | partition (p : Partition)
  | weighting (w : Weighting)
  deriving Repr

def Obj.eqO : Obj → Obj → Option Bool
  | .leaf a, .leaf b => a.eqO b
  | .cartesian a, .cartesian b => tupleEqO Leaf.eqO a b
  | .union a, .union b => mutualInclO Leaf.eqO a b
  | .inter a, .inter b => mutualInclO Leaf.eqO a b
  | .partition a, .partition b => a.eqO b
  | .weighting a, .weighting b => some (a.eqI b)
  | _, _ => some false

/-- Hash key of the members of a composite set: `none` if a member is itself hashed through
a frozenset (FiniteSet inside a union: the combined key is still well defined in Python, but
outside this model). -/
def memberKeys (heap : Nat → String) (ms : List Leaf) : List HKey := ms.map (Leaf.hkPlain heap)

def Obj.hk (heap : Nat → String) : Obj → SHKey
  | .leaf l => l.hk heap
  | .cartesian ms => .plain (tup [[HTok.tag .CartesianProduct], tup (memberKeys heap ms)])
  | .union ms => .fset .SetUnion (memberKeys heap ms)
  | .inter ms => .fset .SetIntersection (memberKeys heap ms)
  | .partition p => .plain p.hk
  | .weighting w => .plain (w.hk heap)

/-! ## element creation (`space.element(inp)`) -/

/-- What is offered to `element`: the attributes the code looks at. -/
inductive Inp
  /-- a `NumpyTensor` / `DiscretizedSpaceElement`: its `.space`, and shape / dtype / values of
  `np.asarray(inp)` -/
  | elem (sp : Space) (shape : List Nat) (dt : DType) (vals : List Rat)
  /-- an array-like without `.space` (`nd`: it is an `ndarray`, so no-copy wrapping is
  observable) -/
  | arr (nd : Bool) (shape : List Nat) (dt : DType) (vals : List Rat)
  /-- a `ProductSpaceElement`: its `.space` and its parts -/
  | pelem (sp : Space) (parts : List Inp)
  /-- a plain Python sequence -/
  | seq (parts : List Inp)
  deriving Repr

def Inp.space? : Inp → Option Space
  | .elem sp _ _ _ => some sp
  | .pelem sp _ => some sp
  | _ => none

inductive Res
  /-- the input object itself is returned -/
  | same
  /-- a new `NumpyTensor` in the space: values, and whether it shares memory with the input -/
  | tensor (dt : DType) (shape : List Nat) (vals : List Rat) (shares : Bool)
  /-- a new `DiscretizedSpaceElement`; `wraps`: its `.tensor` IS the input object -/
  | discr (wraps : Bool) (inner : Res)
  /-- a new `ProductSpaceElement`; `sameParts`: its parts ARE the input's items -/
  | prod (sameParts : Bool) (parts : List Res)
  | errValue   -- ValueError (shape / length mismatch)
  | errType    -- TypeError
  /-- the input values are outside the range on which the conversion is modelled exactly
  (see `castVal?`): no statement -/
  | outside
  deriving Repr

/-- Tables about dtypes that are regenerated from the live module (`Gen/DTypeTables.lean`). -/
structure DTables where
  r2c : DType → Option DType
  c2r : DType → Option DType
  isNumeric : DType → Bool
  isInt : DType → Bool
  isReal : DType → Bool
  isRealFloating : DType → Bool
  isComplexFloating : DType → Bool
  isFloating : DType → Bool
  available : DType → Bool

/-- truncation toward zero (C cast float → integer) -/
def truncRat (r : Rat) : Rat := if r < 0 then -((-r).floor : Int) else (r.floor : Int)

/-- `np.array(values, dtype=d)` on exactly representable real inputs: integer kinds truncate,
`bool` tests against zero, float / complex kinds keep the value. -/
def castVal (T : DTables) (d : DType) (r : Rat) : Rat :=
  if d = .bool then (if r = 0 then 0 else 1)
  else if T.isInt d then truncRat r
  else r

def DType.isUnsigned : DType → Bool
  | .uint8 | .uint16 | .uint32 | .uint64 => true
  | _ => false

/-- Values on which `np.array(values, dtype=d)` is modelled exactly for EVERY numeric `d`:
dyadic with at most 11 significant bits (exact in float16 and wider) and of magnitude below
128 (fits int8 / uint8 after truncation). -/
def smallDyadic (r : Rat) : Bool :=
  decide (1024 % r.den = 0) && decide (r.num.natAbs < 2048) && decide (-128 < r) && decide (r < 128)

/-- `castVal` where it is exact; `none` outside (negative → unsigned wraps around, large or
non-dyadic values are rounded / overflow in NumPy: not modelled). -/
def castVal? (T : DTables) (d : DType) (r : Rat) : Option Rat :=
  if !smallDyadic r then none
  else if d.isUnsigned && decide (r < 0) then none
  else some (castVal T d r)

/-- `ndmin=self.ndim`: NumPy prepends axes of length 1. -/
def padShape (ndim : Nat) (shape : List Nat) : List Nat :=
  List.replicate (ndim - shape.length) 1 ++ shape

/-- `space.is_power_space`: all components equal the first -/
def Space.isPower : Space → Bool
  | .prod (s :: l) _ _ => l.all (fun t => t.eqI s)
  | .prod [] _ _ => true
  | _ => false

mutual
/-- array view (is-ndarray, shape, dtype, values) of an input, if it has one.  Since /repo
7818edc (`ProductSpaceElement.__array__(dtype)`) an element of a POWER space has one:
`asarray()` stacks the parts into a NEW array of shape `(len,) + part shape` (so nothing is
shared with the input); for a product space that is not a power space `asarray` raises
`ValueError`. -/
def Inp.view? : Inp → Option (Bool × List Nat × DType × List Rat)
  | .elem _ sh dt v => some (true, sh, dt, v)
  | .arr nd sh dt v => some (nd, sh, dt, v)
  | .pelem sp ps =>
      if sp.isPower then
        match Inp.viewL ps with
        | some (n, sh, dt, v) => some (false, n :: sh, dt, v)
        | none => none
      else none
  | .seq _ => none
/-- the stacked view of the parts: number of parts, common shape and dtype, values in order -/
def Inp.viewL : List Inp → Option (Nat × List Nat × DType × List Rat)
  | [] => none
  | [p] => match p.view? with
      | some (_, sh, dt, v) => some (1, sh, dt, v)
      | none => none
  | p :: q :: ps => match p.view?, Inp.viewL (q :: ps) with
      | some (_, sh, dt, v), some (n, sh', dt', v') =>
          if sh = sh' ∧ dt = dt' then some (n + 1, sh, dt, v ++ v') else none
      | _, _ => none
end

/-- `NumpyTensorSpace.element(inp, order=…)` for `inp is not None` (`forced`: an `order` was
given): `inp in self and order is None → inp`; otherwise `np.array(inp, copy=False,
dtype=self.dtype, ndmin=self.ndim, order=order)` and the shape test. -/
def TSpace.element (T : DTables) (S : TSpace) (forced : Bool) (inp : Inp) : Res :=
  if (Space.tensor S).contains inp.space? && !forced then .same
  else match inp.view? with
    | none => .errValue   -- ragged sequence / element of a non-power product space: ValueError
    | some (nd, sh, dt, v) =>
      if padShape S.shape.length sh = S.shape then
        match v.mapM (castVal? T S.dtype) with
        | some v' => .tensor S.dtype S.shape v' (nd && decide (dt = S.dtype))
        | none => .outside
      else .errValue

/-- `DiscretizedSpace.element(inp, order=…)` for non-callable `inp is not None`. -/
def Discr.element (T : DTables) (S : Discr) (forced : Bool) (inp : Inp) : Res :=
  if (Space.discr S).contains inp.space? && !forced then .same
  else if (Space.tensor S.tspace).contains inp.space? && !forced then .discr true .same
  else match S.tspace.element T forced inp with
    | .errValue => .errValue
    | .errType => .errType
    | .outside => .outside
    | r => .discr false r

/-- `len(inp)` / `list(inp)` as `ProductSpace.element` uses them: the parts of a product
space element, the items of a sequence, the sub-arrays along the first axis of an array-like
(elements of tensor spaces offered to a product space are outside the model). -/
def Inp.parts? : Inp → Option (List Inp)
  | .pelem _ ps => some ps
  | .seq ps => some ps
  | .arr nd (n :: rest) dt vals =>
      let k := rest.foldl (· * ·) 1
      some ((List.range n).map fun i => .arr nd rest dt ((vals.drop (i * k)).take k))
  | _ => none

mutual
/-- `space.element(inp)` (`order=None`, `cast=True`).  `ProductSpace.element`: `inp in self →
inp`; `len(inp) != len(self) → ValueError`; all items already elements of the respective
component → wrap them; otherwise delegate item-wise to the components' `element`. -/
def Space.element (T : DTables) : Space → Inp → Res
  | .tensor S, inp => S.element T false inp
  | .discr S, inp => S.element T false inp
  | .prod l w f, inp =>
    if (Space.prod l w f).contains inp.space? then .same
    else match inp.parts? with
      | none => .errType      -- no usable `len`: outside the model
      | some ps =>
        if ps.length ≠ l.length then .errValue
        else if Space.allMember l ps then .prod true []
        else Space.elementL T l ps []
/-- `all(isinstance(v, LinearSpaceElement) and v.space == space for v, space in zip(…))` -/
def Space.allMember : List Space → List Inp → Bool
  | s :: l, p :: ps => (match p.space? with
      | none => false
      | some X => X.eqI s) && Space.allMember l ps
  | _, _ => true
/-- `[space.element(arg) for arg, space in zip(inp, self.spaces)]`: the first failing
component raises. -/
def Space.elementL (T : DTables) : List Space → List Inp → List Res → Res
  | s :: l, p :: ps, acc => match Space.element T s p with
      | .errValue => .errValue
      | .errType => .errType
      | .outside => .outside
      | r => Space.elementL T l ps (r :: acc)
  | _, _, acc => .prod false acc.reverse
end

/-- `space.element(inp, cast=cast)` (`order=None`): as `Space.element`, except that a product
space with `cast=False` raises `TypeError` instead of delegating item-wise when not all items
are elements of the respective components (`cast` is not passed down: the components'
`element` is only reached with `cast=True`). -/
def Space.elementC (T : DTables) (cast : Bool) : Space → Inp → Res
  | .prod l w f, inp =>
    if (Space.prod l w f).contains inp.space? then .same
    else match inp.parts? with
      | none => .errType
      | some ps =>
        if ps.length ≠ l.length then .errValue
        else if Space.allMember l ps then .prod true []
        else if cast then Space.elementL T l ps []
        else .errType
  | s, inp => s.element T inp

/-! ## derived spaces -/

/-- the weighting a space gets when none is passed on: constant 1.0, exponent 2.0 -/
def defaultW (c : WCls) : Weighting := .const c (.fin 1) (.fin 2)

/-- `TensorSpace.astype(dtype)` / `_astype` on descriptors (`none` = raises).
`castOk` = `np.can_cast(weighting.array.dtype, dtype)` (consulted by the constructor for
array weightings only).  The weighting object is passed on for floating-point targets only;
otherwise the new space is unweighted with exponent 2. -/
def TSpace.astype (T : DTables) (t : TSpace) (dt : DType) (castOk : Bool) : Option TSpace :=
  if dt = t.dtype then some t
  else if !T.available dt then none
  else if T.isFloating dt then
    (match t.w with
     | .array _ _ _ => if castOk then some ⟨t.shape, dt, t.w⟩ else none
     | _ => some ⟨t.shape, dt, t.w⟩)
  else some ⟨t.shape, dt, defaultW .np⟩

/-- `self.real_dtype` as set in `TensorSpace.__init__` (`none`: attribute undefined / None) -/
def realDtype (T : DTables) (d : DType) : Option DType :=
  if T.isReal d then some d else if T.isComplexFloating d then T.c2r d else none
def complexDtype (T : DTables) (d : DType) : Option DType :=
  if T.isReal d then T.r2c d else if T.isComplexFloating d then some d else none

/-- `real_space`: `ValueError` for non-numeric dtypes, else `astype(real_dtype)`. -/
def TSpace.realSpace (T : DTables) (t : TSpace) (castOk : Bool) : Option TSpace :=
  if !T.isNumeric t.dtype then none
  else match realDtype T t.dtype with
    | none => none
    | some d => t.astype T d castOk
/-- `complex_space`: `astype(complex_dtype)`; `complex_dtype` is `None` for integer dtypes and
`astype(None)` raises. -/
def TSpace.complexSpace (T : DTables) (t : TSpace) (castOk : Bool) : Option TSpace :=
  if !T.isNumeric t.dtype then none
  else match complexDtype T t.dtype with
    | none => none
    | some d => t.astype T d castOk

/-- `DiscretizedSpace._astype`: `tspace.astype(dtype)` on the same partition and labels. -/
def Discr.astype (T : DTables) (d : Discr) (dt : DType) (castOk : Bool) : Option Discr :=
  (d.tspace.astype T dt castOk).map fun t => { d with dtype := t.dtype, w := t.w }

/-- field of a space as `LinearSpace.field` reports it -/
def Space.field (T : DTables) : Space → Fld
  | .tensor t => if T.isReal t.dtype then .real else if T.isComplexFloating t.dtype then .complex
                 else .none
  | .discr d => if T.isReal d.dtype then .real else if T.isComplexFloating d.dtype then .complex
                else .none
  | .prod _ _ f => f

/-- `ProductSpace(*spaces)` without further arguments: unweighted, exponent 2, field of the
first space; raises for an empty list. -/
def mkProd (T : DTables) (l : List Space) : Option Space :=
  match l with
  | [] => none
  | s :: _ => some (.prod l (defaultW .ps) (s.field T))

/-- `ProductSpace(*spaces, weighting=w)`: field of the first space; raises for an empty list. -/
def mkProdW (T : DTables) (l : List Space) (w : Weighting) : Option Space :=
  match l with
  | [] => none
  | s :: _ => some (.prod l w (s.field T))

/-- `ProductSpace(*spaces, field=f)` -/
def mkProdF (l : List Space) (f : Fld) : Space := .prod l (defaultW .ps) f

/-- the weighting `ProductSpace.__getitem__` passes on to a selection: a constant weighting
(with its exponent) as is; array and custom weightings are not passed on (finding C20-F4,
open for those). -/
def selW : Weighting → Weighting
  | .const c v e => .const c v e
  | _ => defaultW .ps

/-- common dtype of the components (`ProductSpace.dtype`; `none` = AttributeError) -/
def commonDtype : List Space → Option DType
  | [] => none   -- `dtypes[0]` raises IndexError inside the property: getattr default applies
  | .tensor t :: l => if l.all (fun s => match s with
        | .tensor t' => t'.dtype = t.dtype | .discr d' => d'.dtype = t.dtype | _ => false)
      then some t.dtype else none
  | .discr d :: l => if l.all (fun s => match s with
        | .tensor t' => t'.dtype = d.dtype | .discr d' => d'.dtype = d.dtype | _ => false)
      then some d.dtype else none
  | _ => none

mutual
/-- `space.astype(dtype)` for all space classes.  `ProductSpace.astype`: `self` if the common
dtype already is `dtype`, else `ProductSpace(*[s.astype(dtype) for s in self.spaces])` with the weighting object of `self`
passed on for floating-point targets (as in `TensorSpace.astype`).  `castOk` is taken to hold
for every array-weighted component (the harness only offers such cases). -/
def Space.astype (T : DTables) : Space → DType → Option Space
  | .tensor t, dt => (t.astype T dt true).map .tensor
  | .discr d, dt => (d.astype T dt true).map .discr
  | .prod l w f, dt =>
    if Space.dtypeIs l dt then some (.prod l w f)
    else match Space.astypeL T l dt with
      | none => none
      | some l' => if T.isFloating dt then mkProdW T l' w else mkProd T l'
def Space.astypeL (T : DTables) : List Space → DType → Option (List Space)
  | [], _ => some []
  | s :: l, dt => match Space.astype T s dt, Space.astypeL T l dt with
      | some s', some l' => some (s' :: l')
      | _, _ => none
/-- `dtype == getattr(self, 'dtype', object)` for a product space with components `l` -/
def Space.dtypeIs : List Space → DType → Bool
  | [], _ => false
  | l, dt => Space.dtypeAll l dt
def Space.dtypeAll : List Space → DType → Bool
  | [], _ => true
  | .tensor t :: l, dt => decide (t.dtype = dt) && Space.dtypeAll l dt
  | .discr d :: l, dt => decide (d.dtype = dt) && Space.dtypeAll l dt
  | .prod l' _ _ :: l, dt => Space.dtypeIs l' dt && Space.dtypeAll l dt
end

/-! ### indexing -/

/-- Python slice `start:stop:step` already normalised by `slice.indices(len)`. -/
structure NSlice where
  start : Nat
  count : Nat
  step : Int
  deriving DecidableEq, Repr

/-- items selected by a normalised slice / by a list of (non-negative, in-range) indices -/
def selSlice {α} (l : List α) (s : NSlice) : List α :=
  (List.range s.count).filterMap fun (k : Nat) => l[(((s.start : Int) + (k : Int) * s.step).toNat)]?
def selList {α} (l : List α) (idx : List Nat) : Option (List α) := idx.mapM fun i => l[i]?

inductive PIdx
  | int (i : Nat)
  | slice (s : NSlice)
  | list (idx : List Nat)
  deriving Repr

/-- `ProductSpace.__getitem__` for an integer, slice or list index: a component, or
`ProductSpace(*selected, field=self.field[, weighting=self.weighting])`, the weighting being
passed on iff it is a constant weighting (`selW`). -/
def Space.pindex : Space → PIdx → Option Space
  | .prod l _ _, .int i => l[i]?
  | .prod l w f, .slice s => some (.prod (selSlice l s) (selW w) f)
  | .prod l w f, .list idx => (selList l idx).map fun l' => .prod l' (selW w) f
  | _, _ => none

/-- shape of `arr[indices]` for an array of shape `sh` indexed ALONG ITS FIRST AXIS by an
integer, a slice (`flen` = `len(range(*slice.indices(sh[0])))`: the SAME Python slice
normalised against the first axis instead of against the number of axes) or a list of
in-range integers; `none` = IndexError -/
def firstAxisIndexShape (sh : List Nat) (flen : Nat) : PIdx → Option (List Nat)
  | .int i => match sh with
      | n :: rest => if i < n then some rest else none
      | [] => none
  | .slice _ => match sh with
      | _ :: rest => some (flen :: rest)
      | [] => none
  | .list idx => match sh with
      | n :: rest => if idx.all (· < n) then some (idx.length :: rest) else none
      | [] => none

/-- the shape entries selected by `byaxis[indices]` (`none` = IndexError) -/
def selShape (sh : List Nat) : PIdx → Option (List Nat)
  | .int i => (sh[i]?).map fun n => [n]
  | .slice s => some (selSlice sh s)
  | .list idx => selList sh idx

/-- `NumpyTensorSpace.byaxis[indices]` as coded: the shape entries selected, same dtype; the
weighting object is passed on, EXCEPT for an array weighting, where the code builds
`NumpyTensorSpaceArrayWeighting(space.weighting.array[indices], exponent)` — the weight array
indexed along its FIRST axis by the AXIS index — and the constructor then rejects it unless
its shape happens to equal the new shape (`fresh`: identity token of the new array).
`none` = raises. -/
def TSpace.byaxis (T : DTables) (t : TSpace) (idx : PIdx) (fresh : Nat) (flen : Nat := 0) :
    Option TSpace :=
  match selShape t.shape idx with
  | none => none
  | some newShape =>
    -- non-numeric spaces accept no `weighting`: `type(space)(newshape, dtype, exponent=…)`
    if !T.isNumeric t.dtype then some ⟨newShape, t.dtype, .const .np (.fin 1) t.w.exponent⟩ else
    match t.w with
    | .array _ _ e =>
      (match firstAxisIndexShape t.shape flen idx with
       | none => none
       | some wsh => if wsh = newShape then some ⟨newShape, t.dtype, .array .np fresh e⟩ else none)
    | w => some ⟨newShape, t.dtype, w⟩

/-- Space of `x[indices]` for a `NumpyTensor` `x` when the result is not a scalar:
`type(space)(arr.shape, dtype, exponent=space.exponent, weighting=w)` with `w` the weighting
object of the space, except that an array weighting is replaced by a NEW
`NumpyTensorSpaceArrayWeighting(weights[indices], exponent)` (`fresh` = identity token of the
new array). -/
def TSpace.indexSpace (t : TSpace) (newShape : List Nat) (fresh : Nat) : Option TSpace :=
  match t.w with
  | .array _ _ e => some ⟨newShape, t.dtype, .array .np fresh e⟩
  | _ => some ⟨newShape, t.dtype, t.w⟩

/-! ## membership `x in S`, `S.contains_set(S')`, `S.contains_all(array)` for plain sets
(odl/set/sets.py, odl/set/domain.py; round 4) -/

/-- Python scalars offered to `in` (`real`: a finite Python / NumPy float; `str`: text that does
not parse as a number; NumPy integer / floating / complex scalars are registered with the same
`numbers` ABCs as the Python types and are described by the same constructors; `np.bool_` is
NOT `Integral` and is outside the model). -/
inductive Scalar
  | pynone
  | bool (b : Bool)
  | int (i : Int)
  | real (r : Rat)
  /-- a complex number; `np`: a NumPy complex scalar (`np.complex64/128`), not a Python `complex` -/
  | cplx (re im : Rat) (np : Bool)
  | str (s : String)
  deriving DecidableEq, Repr

inductive Val
  | sc (s : Scalar)
  /-- a tuple or list -/
  | tuple (vs : List Val)
  deriving Repr

/-- the value of a number (`isinstance(x, numbers.Complex)`) as a complex number -/
def Scalar.num? : Scalar → Option (Rat × Rat)
  | .bool b => some (if b then 1 else 0, 0)
  | .int i => some ((i : Rat), 0)
  | .real r => some (r, 0)
  | .cplx a b _ => some (a, b)
  | _ => none

/-- the value of an `isinstance(x, numbers.Real)` object (`bool`, `int`, `float`; never a
`complex`, whatever its imaginary part) -/
def Scalar.real? : Scalar → Option Rat
  | .bool b => some (if b then 1 else 0)
  | .int i => some (i : Rat)
  | .real r => some r
  | _ => none

/-- `isinstance(x, numbers.Integral)` -/
def Scalar.isIntegral : Scalar → Bool
  | .bool _ | .int _ => true
  | _ => false

/-- Python `a == b` on scalars: numbers by value across types (`True == 1 == 1.0 == 1+0j`),
strings by content, `None` only with `None`. -/
def Scalar.pyEq (a b : Scalar) : Bool :=
  match a.num?, b.num? with
  | some x, some y => decide (x = y)
  | none, none => decide (a = b)
  | _, _ => false

/-- `(self.min_pt <= point).all() and (point <= self.max_pt).all()` for equal lengths -/
def boxMem : List Rat → List Rat → List Rat → Bool
  | l :: lo, h :: hi, x :: p => decide (l ≤ x) && decide (x ≤ h) && boxMem lo hi p
  | _, _, _ => true

/-- Conversion of one scalar by `IntervalProd.__contains__` (since /repo 1a77968, the repair of
C20-F13: `if np.iscomplexobj(other): return False`, then `np.array(other, dtype=float)`): a real
number converts; EVERY complex value — Python `complex` (`TypeError` before the repair) or
NumPy complex scalar — is rejected; `None` becomes NaN (every comparison is then `False`) and
text raises `ValueError` — both end in `False`. -/
def Scalar.floatConv? (s : Scalar) : Option Rat := s.real?

/-- OLD variant (before 1a77968), kept for the sensitivity theorem only, not executed: a NUMPY
complex scalar was converted with a `ComplexWarning`, its imaginary part DISCARDED. -/
def Scalar.floatConvOld? : Scalar → Option Rat
  | .cplx re _ true => some re
  | s => s.real?

/-- entry of a sequence handed to `np.array(…, dtype=float)`; a nested sequence gives a 2-d or
ragged array, which ends in `False`. -/
def Val.coord? : Val → Option Rat
  | .sc s => s.floatConv?
  | .tuple _ => none

/-- `IntervalProd.__contains__`: `point = np.array(other, dtype=float, ndmin=1)` (`False` on
`ValueError` / `TypeError`), `point.shape == (ndim,)` and the bounds test. -/
def intervalMem (lo hi : List Rat) : Val → Bool
  | .sc s => match s.floatConv? with
      | some x => decide (lo.length = 1) && boxMem lo hi [x]
      | none => false
  | .tuple vs => match vs.mapM Val.coord? with
      | some p => decide (p.length = lo.length) && boxMem lo hi p
      | none => false

/-- OLD `IntervalProd.__contains__` (before 1a77968), for the sensitivity theorem only. -/
def intervalMemOld (lo hi : List Rat) : Val → Bool
  | .sc s => match s.floatConvOld? with
      | some x => decide (lo.length = 1) && boxMem lo hi [x]
      | none => false
  | .tuple vs => match vs.mapM (fun v => match v with | .sc s => s.floatConvOld? | .tuple _ => none) with
      | some p => decide (p.length = lo.length) && boxMem lo hi p
      | none => false

/-- Non-composite plain sets with `__contains__` (interval products with FINITE bounds). -/
inductive PLeaf
  | empty | universal | strings (n : Nat) | complex | real | integers
  | interval (lo hi : List Rat)
  | finite (elems : List Scalar)
  deriving Repr

/-- `x in S` for the non-composite sets, as coded. -/
def PLeaf.mem : PLeaf → Val → Bool
  | .empty, .sc .pynone => true                   -- `other is None`
  | .empty, _ => false
  | .universal, _ => true
  | .strings n, .sc (.str s) => decide (s.length = n)
  | .strings _, _ => false
  | .complex, .sc s => s.num?.isSome            -- `isinstance(other, Complex)`
  | .complex, _ => false
  | .real, .sc s => s.real?.isSome              -- `isinstance(other, Real)`
  | .real, _ => false
  | .integers, .sc s => s.isIntegral            -- `isinstance(other, Integral)`
  | .integers, _ => false
  | .interval lo hi, v => intervalMem lo hi v
  | .finite els, .sc s => els.any (fun e => e.pyEq s)   -- `other in self.elements`
  | .finite _, .tuple _ => false

/-- Plain sets, composites nested to any depth. -/
inductive PSet
  | leaf (l : PLeaf)
  | cartesian (ms : List PSet)
  | union (ms : List PSet)
  | inter (ms : List PSet)
  deriving Repr

/-- `len(other)` / iteration as `CartesianProduct.__contains__` uses them: items of a
sequence, the characters of a string; `None` and numbers have no `len` (→ `False`). -/
def Val.items? : Val → Option (List Val)
  | .tuple vs => some vs
  | .sc (.str s) => some (s.toList.map fun c => .sc (.str (String.singleton c)))
  | _ => none

mutual
/-- `x in S`: `SetUnion`: `any(other in set for set in self.sets)`; `SetIntersection`:
`all(…)`; `CartesianProduct`: `len(other) == len(self) and all(p in set_ for set_, p in
zip(self.sets, other))` (`False` if `other` has no `len`). -/
def PSet.mem : PSet → Val → Bool
  | .leaf l, v => l.mem v
  | .cartesian ms, v => match v.items? with
      | none => false
      | some ps => decide (ps.length = ms.length) && PSet.memZip ms ps
  | .union ms, v => PSet.memAny ms v
  | .inter ms, v => PSet.memAll ms v
def PSet.memZip : List PSet → List Val → Bool
  | s :: l, p :: ps => s.mem p && PSet.memZip l ps
  | _, _ => true
def PSet.memAny : List PSet → Val → Bool
  | [], _ => false
  | s :: l, v => s.mem v || PSet.memAny l v
def PSet.memAll : List PSet → Val → Bool
  | [], _ => true
  | s :: l, v => s.mem v && PSet.memAll l v
end

/-- `IntervalProd.dist(point, exponent=inf)` for a point of the right length: the largest
violation of a bound, `0.0` if there is none. -/
def distInf : List Rat → List Rat → List Rat → Rat
  | l :: lo, h :: hi, x :: p =>
      let v := if x > h then x - h else if x < l then l - x else 0
      max v (distInf lo hi p)
  | _, _, _ => 0

/-- `IntervalProd.approx_contains(point, atol)` for a float array `point`: an EMPTY point is
contained in everything (`point.size == 0 → True`), a point of the wrong length in nothing,
otherwise `dist(point, inf) <= atol`. -/
def approxContains (lo hi p : List Rat) (atol : Rat) : Bool :=
  if p.isEmpty then true
  else if p.length ≠ lo.length then false
  else decide (distInf lo hi p ≤ atol)

/-- `__eq__` of the classes that inherit `Set.contains_set` (`return self == other`):
`Strings` (same length), `FiniteSet` (mutual containment of the element tuples); any other
pairing is `False`. -/
def PLeaf.eqB : PLeaf → PLeaf → Bool
  | .strings n, .strings m => decide (m = n)
  | .finite a, .finite b =>
      a.all (fun x => b.any (fun e => e.pyEq x)) && b.all (fun x => a.any (fun e => e.pyEq x))
  | _, _ => false

/-- `A.contains_set(B[, atol])` for two DISTINCT objects as coded (`none` = raises
`AttributeError`: an interval product asked about a set without `min` / `max`).  `atol` is
only looked at by interval products. -/
def PLeaf.containsSetDistinct (atol : Rat) : PLeaf → PLeaf → Option Bool
  | .empty, .empty => some true
  | .empty, _ => some false
  | .universal, _ => some true
  | .complex, .complex | .complex, .real | .complex, .integers => some true
  | .complex, _ => some false
  | .real, .real | .real, .integers => some true
  | .real, _ => some false
  | .integers, .integers => some true
  | .integers, _ => some false
  | .interval lo hi, .interval lo' hi' =>
      some (approxContains lo hi lo' atol && approxContains lo hi hi' atol)
  | .interval _ _, _ => none
  | a, b => some (a.eqB b)

/-- `A.contains_set(B[, atol])`; `same`: `B is A` — `IntervalProd.contains_set` (like the
number sets) starts with `if self is other: return True`, which is observable for a negative
`atol` (an equal but distinct interval product is then NOT contained). -/
def PLeaf.containsSet (atol : Rat) (same : Bool) (A B : PLeaf) : Option Bool :=
  match A, same with
  | .interval _ _, true => some true
  | _, _ => A.containsSetDistinct atol B

/-- `F.contains_all(array)` for the three number sets: a test on the dtype of the array
against the classifier tables of `odl.util.utility` (`is_numeric_dtype`, `is_real_dtype`,
`is_int_dtype`; regenerated by the translator).  `none`: not a number set. -/
def PLeaf.containsAllDtype (T : DTables) : PLeaf → DType → Option Bool
  | .complex, d => some (T.isNumeric d)
  | .real, d => some (T.isReal d)
  | .integers, d => some (T.isInt d)
  | _, _ => none

/-! ### `IntervalProd.approx_equals` (round 5) -/

/-- `|a - b| <= atol` entry-wise, reduced with `all`, for two arrays of the SAME length
(`np.isclose` with `rtol=0`) -/
def closeAll (atol : Rat) : List Rat → List Rat → Bool
  | a :: l, b :: l' => decide (a - b ≤ atol) && decide (b - a ≤ atol) && closeAll atol l l'
  | _, _ => true

/-- `np.allclose(a, b, atol=atol, rtol=0.0)` for 1-d finite float arrays WITH NumPy
broadcasting: equal lengths compare entry-wise, a length-1 operand is broadcast, anything else
raises `ValueError`. -/
def npAllClose (atol : Rat) (a b : List Rat) : Option Bool :=
  if a.length = b.length then some (closeAll atol a b)
  else match a, b with
    | [x], _ => some (b.all fun y => decide (x - y ≤ atol) && decide (y - x ≤ atol))
    | _, [y] => some (a.all fun x => decide (x - y ≤ atol) && decide (y - x ≤ atol))
    | _, _ => none

/-- OLD `IntervalProd.approx_equals` (before /repo b059927), kept for the sensitivity theorem and
as the equal-dimension core of the current definition: `np.allclose(self.min_pt, other.min_pt,
atol=atol, rtol=0.0) and np.allclose(self.max_pt, other.max_pt, …)` WITHOUT an `ndim` guard
(finding C20-F18), so NumPy broadcasting applied (`none` = raised `ValueError`). -/
def intervalApproxEqOld (atol : Rat) (lo hi lo' hi' : List Rat) : Option Bool :=
  match npAllClose atol lo lo' with
  | none => none
  | some false => some false
  | some true => npAllClose atol hi hi'

/-- `A.approx_equals(B, atol)` for two DISTINCT interval products as coded since /repo b059927
(the repair of C20-F18): `self.ndim == other.ndim and np.allclose(min_pt …) and
np.allclose(max_pt …)` — interval products of different dimension are never approximately
equal and the comparison cannot raise (`ndim = len(min_pt)`). -/
def intervalApproxEq (atol : Rat) (lo hi lo' hi' : List Rat) : Option Bool :=
  if lo.length = lo'.length then intervalApproxEqOld atol lo hi lo' hi' else some false

end OdlModel.Spaces
