/-
Model of the `__eq__` / `__hash__` / `__contains__` / `element` logic of ODL's sets, spaces,
grids, partitions and weightings (C20).  Hand-written from the code AS IT EXISTS in
  odl/set/sets.py, odl/set/domain.py, odl/space/weighting.py, odl/space/base_tensors.py,
  odl/space/npy_tensors.py, odl/space/pspace.py, odl/discr/grid.py, odl/discr/partition.py,
  odl/discr/discr_space.py.

Conventions
* A *descriptor* holds exactly the attributes the Python methods look at; the harness reads
  the same attributes from live objects (`tools/harness/c20.py::describe`).
* `…eqI` / `…eqO` is the model of `a.__eq__(b)` as coded (`eqO : Option Bool`, `none` = the
  Python code raises).  `other is self` short-cuts are not modelled separately: identity of
  objects implies equality of descriptors, so they are subsumed by reflexivity of the slow
  path (proved in Props/C20).
* `…hk` is the model of `__hash__`: a token list that is equal for two objects iff the
  tuples handed to Python's `hash` are equal component-wise (`HKey`).  For frozenset-based
  hashes the key is a multiset (`SHKey.fset`).
* Floats: `Fl` distinguishes `-0.0` from `0.0` (they compare equal with `==` and have equal
  Python hashes but different `tobytes()`); NaN is excluded (constructors reject it for
  interval products / grids / constants; NaN exponents are outside the model).
* Identity-compared attributes (weighting arrays, custom callables) are `Nat` tokens.
-/
namespace OdlModel.Spaces

/-! ## floats as seen by `==`, `hash` and `tobytes` -/

inductive Fl
  | fin (r : Rat)
  | negZero
  | posInf
  | negInf
  deriving DecidableEq, Repr

/-- What `==` and Python's `hash(float)` see: `-0.0` is `0.0`. -/
def Fl.canon : Fl → Fl
  | .negZero => .fin 0
  | x => x

/-- IEEE `==` on non-NaN floats. -/
def Fl.numEq (a b : Fl) : Bool := decide (a.canon = b.canon)

/-- element-wise `==` reduced with `all` over two arrays of the SAME length -/
def flAllEq : List Fl → List Fl → Bool
  | a :: l, b :: l' => a.numEq b && flAllEq l l'
  | _, _ => true

/-- `np.array_equal(a, b)` for 1-d arrays: shapes equal and all entries `==`. -/
def arrayEqual (a b : List Fl) : Bool := decide (a.length = b.length) && flAllEq a b

/-- `np.all(a == b)` for 1-d float arrays WITH NumPy broadcasting: equal lengths compare
entry-wise, a length-1 operand is broadcast, anything else raises `ValueError`. -/
def npAllEq (a b : List Fl) : Option Bool :=
  if a.length = b.length then some (flAllEq a b)
  else match a, b with
    | [x], _ => some (b.all (fun y => x.numEq y))
    | _, [y] => some (a.all (fun x => x.numEq y))
    | _, _ => none

/-! ## dtypes -/

inductive DType
  | bool | int8 | int16 | int32 | int64 | uint8 | uint16 | uint32 | uint64
  | float16 | float32 | float64 | float128 | complex64 | complex128 | complex256
  | bytes | str
  deriving DecidableEq, Repr

/-! ## hash keys -/

/-- Class objects (`type(self)`) and other constants occurring in hashed tuples. -/
inductive Tag
  | EmptySet | UniversalSet | Strings | ComplexNumbers | RealNumbers | Integers
  | CartesianProduct | SetUnion | SetIntersection | FiniteSet
  | IntervalProd | RectGrid | RectPartition
  | NumpyTensorSpace | DiscretizedSpace | ProductSpace
  | ConstWeighting | ArrayWeighting | CustomInner | CustomNorm | CustomDist  -- + family
  | implNumpy | fn
  deriving DecidableEq, Repr

inductive HTok
  | tag (t : Tag)
  | fam (np : Bool)
  | str (s : String)
  | fl (f : Fl)
  | nat (n : Nat)
  | int (i : Int)
  | dt (d : DType)
  | bytes (digest : String)
  | op
  | cl
  deriving DecidableEq, Repr

abbrev HKey := List HTok

def tup (parts : List HKey) : HKey := [HTok.op] ++ parts.flatten ++ [HTok.cl]

/-- Python `hash(float)`: canonical value (so `hash(-0.0) = hash(0.0)`, `hash(2.0) = hash(2)`). -/
def hkFloat (f : Fl) : HKey := [HTok.fl f.canon]
/-- `ndarray.tobytes()` of a float64 vector: raw entries (`-0.0` and `0.0` differ). -/
def hkBytes (v : List Fl) : HKey := tup [v.map HTok.fl]

/-! ## weightings (odl/space/weighting.py and the two `impl='numpy'` families) -/

/-- `np`: `NumpyTensorSpace…Weighting/Custom…`, `ps`: `ProductSpace…`.  Both have
`impl == 'numpy'`, so `Weighting.__eq__` cannot tell them apart, `__hash__` (which contains
`type(self)`) can. -/
inductive WCls | np | ps
  deriving DecidableEq, Repr

inductive Weighting
  | const (cls : WCls) (c : Fl) (e : Fl)     -- ConstWeighting: const, exponent
  | array (cls : WCls) (arr : Nat) (e : Fl)  -- ArrayWeighting: identity of the array, exponent
  | inner (cls : WCls) (f : Nat)             -- CustomInner: identity of the callable
  | norm (cls : WCls) (f : Nat)              -- CustomNorm
  | dist (cls : WCls) (f : Nat)              -- CustomDist
  deriving DecidableEq, Repr

def Weighting.cls : Weighting → WCls
  | .const c _ _ | .array c _ _ | .inner c _ | .norm c _ | .dist c _ => c

def Weighting.exponent : Weighting → Fl
  | .const _ _ e | .array _ _ e => e
  | _ => .fin 2

/-- `Weighting.__eq__` (base class): `isinstance(other, Weighting) and self.impl ==
other.impl and self.exponent == other.exponent` (impl is `'numpy'` throughout). -/
def Weighting.baseEq (a b : Weighting) : Bool := a.exponent.numEq b.exponent

/-- `a.__eq__(b)` for the five weighting kinds as coded:
`ConstWeighting`: base and `self.const == getattr(other, 'const', None)`;
`ArrayWeighting`: base and `self.array is getattr(other, 'array', None)`;
`CustomInner/Norm/Dist`: base and `self.inner == other.inner` (the attribute of a
non-custom weighting is a bound method, never equal to a plain function). -/
def Weighting.eqI (a b : Weighting) : Bool :=
  a.baseEq b &&
  match a, b with
  | .const _ c _, .const _ c' _ => c.numEq c'
  | .array _ i _, .array _ j _ => decide (i = j)
  | .inner _ f, .inner _ g => decide (f = g)
  | .norm _ f, .norm _ g => decide (f = g)
  | .dist _ f, .dist _ g => decide (f = g)
  | _, _ => false

def WCls.tok : WCls → HTok
  | .np => .fam true | .ps => .fam false

/-- `Weighting.__hash__` base: `hash((type(self), self.impl, self.exponent))`. -/
def Weighting.baseHk (kind : Tag) (c : WCls) (e : Fl) : HKey :=
  tup [[c.tok, HTok.tag kind], [HTok.tag .implNumpy], hkFloat e]

/-- `__hash__` per class; `heap i` is the digest of `array.tobytes()` of the array with
identity token `i`.  `NumpyTensorSpaceArrayWeighting` overrides `__hash__` with
`hash((type(self), self.array.tobytes(), self.exponent))`. -/
def Weighting.hk (heap : Nat → String) : Weighting → HKey
  | .const c v e => tup [Weighting.baseHk .ConstWeighting c e, hkFloat v]
  | .array .np i e => tup [[WCls.np.tok, HTok.tag .ArrayWeighting], [HTok.bytes (heap i)],
                          hkFloat e]
  | .array .ps i e => tup [Weighting.baseHk .ArrayWeighting .ps e, [HTok.bytes (heap i)]]
  | .inner c f => tup [Weighting.baseHk .CustomInner c (.fin 2), [HTok.tag .fn, HTok.nat f]]
  | .norm c f => tup [Weighting.baseHk .CustomNorm c (.fin 2), [HTok.tag .fn, HTok.nat f]]
  | .dist c f => tup [Weighting.baseHk .CustomDist c (.fin 2), [HTok.tag .fn, HTok.nat f]]

/-! ## interval products, grids, partitions -/

structure IntervalProd where
  lo : List Fl
  hi : List Fl
  deriving DecidableEq, Repr

def IntervalProd.ndim (a : IntervalProd) : Nat := a.lo.length

/-- `IntervalProd.__eq__`: `np.all(self.min_pt == other.min_pt) and np.all(self.max_pt ==
other.max_pt)` — NumPy broadcasting included (see `npAllEq`). -/
def IntervalProd.eqO (a b : IntervalProd) : Option Bool :=
  match npAllEq a.lo b.lo with
  | none => none
  | some false => some false
  | some true => npAllEq a.hi b.hi

/-- `hash((type(self), tuple(self.min_pt), tuple(self.max_pt)))` -/
def IntervalProd.hk (a : IntervalProd) : HKey :=
  tup [[HTok.tag .IntervalProd], tup (a.lo.map hkFloat), tup (a.hi.map hkFloat)]

structure Grid where
  vecs : List (List Fl)
  deriving DecidableEq, Repr

def Grid.shape (g : Grid) : List Nat := g.vecs.map List.length

def vecsAllEq : List (List Fl) → List (List Fl) → Bool
  | a :: l, b :: l' => arrayEqual a b && vecsAllEq l l'
  | _, _ => true

/-- `RectGrid.__eq__`: same type, `self.shape == other.shape`, `np.array_equal` per axis. -/
def Grid.eqI (a b : Grid) : Bool := decide (a.shape = b.shape) && vecsAllEq a.vecs b.vecs

/-- `hash((type(self), tuple(cv.tobytes() for cv in self.coord_vectors)))` -/
def Grid.hk (g : Grid) : HKey := tup [[HTok.tag .RectGrid], tup (g.vecs.map hkBytes)]

structure Partition where
  set : IntervalProd
  grid : Grid
  deriving DecidableEq, Repr

/-- `RectPartition.__eq__`: same type and `self.set == other.set and self.grid == other.grid`. -/
def Partition.eqO (a b : Partition) : Option Bool :=
  match a.set.eqO b.set with
  | none => none
  | some false => some false
  | some true => some (a.grid.eqI b.grid)

def Partition.hk (p : Partition) : HKey := tup [[HTok.tag .RectPartition], p.set.hk, p.grid.hk]

/-! ## tensor spaces, discretized spaces, product spaces -/

structure TSpace where
  shape : List Nat
  dtype : DType
  w : Weighting
  deriving DecidableEq, Repr

/-- `NumpyTensorSpace.__eq__`: `TensorSpace.__eq__` (type, shape, dtype) and
`self.weighting == other.weighting`. -/
def TSpace.eqI (a b : TSpace) : Bool :=
  decide (a.shape = b.shape) && decide (a.dtype = b.dtype) && a.w.eqI b.w

/-- `TensorSpace.__hash__`: `hash((type(self), self.shape, self.dtype))` -/
def baseTensorHk (cls : Tag) (shape : List Nat) (d : DType) : HKey :=
  tup [[HTok.tag cls], tup (shape.map fun n => [HTok.nat n]), [HTok.dt d]]

def TSpace.hk (heap : Nat → String) (t : TSpace) : HKey :=
  tup [baseTensorHk .NumpyTensorSpace t.shape t.dtype, t.w.hk heap]

/-- One axis of a discretized space: `partition.set.min_pt[i]`, `max_pt[i]`,
`partition.grid.coord_vectors[i]`.  (Keeping them per axis makes `set.ndim = grid.ndim`,
enforced by `RectPartition.__init__`, hold by construction.) -/
structure Axis where
  lo : Fl
  hi : Fl
  pts : List Fl
  deriving DecidableEq, Repr

structure Discr where
  axes : List Axis
  dtype : DType
  w : Weighting        -- `tspace.weighting`
  labels : List String -- `axis_labels`: looked at by neither `__eq__` nor `__hash__`
  deriving DecidableEq, Repr

def Discr.shape (d : Discr) : List Nat := d.axes.map (fun a => a.pts.length)
def Discr.tspace (d : Discr) : TSpace := ⟨d.shape, d.dtype, d.w⟩
def Discr.part (d : Discr) : Partition :=
  ⟨⟨d.axes.map (·.lo), d.axes.map (·.hi)⟩, ⟨d.axes.map (·.pts)⟩⟩

/-- `DiscretizedSpace.__eq__`: `TensorSpace.__eq__(self, other) and other.tspace ==
self.tspace and other.partition == self.partition` (note the swapped operands).  The
partition comparison cannot raise once the shapes are equal (`Discr.part_eq_total`). -/
def Discr.eqI (a b : Discr) : Bool :=
  decide (a.shape = b.shape) && decide (a.dtype = b.dtype) && b.tspace.eqI a.tspace &&
    (Partition.eqO b.part a.part == some true)

def Discr.hk (heap : Nat → String) (d : Discr) : HKey :=
  tup [baseTensorHk .DiscretizedSpace d.shape d.dtype, d.tspace.hk heap, d.part.hk]

inductive Fld | real | complex | none
  deriving DecidableEq, Repr

inductive Space
  | tensor (t : TSpace)
  | discr (d : Discr)
  | prod (parts : List Space) (w : Weighting) (fld : Fld)
  deriving Repr

mutual
/-- `a.__eq__(b)` on spaces.  `ProductSpace.__eq__`: `isinstance(other, ProductSpace) and
len(self) == len(other) and self.weighting == other.weighting and all(x == y for x, y in
zip(self.spaces, other.spaces))`; the field is not compared. -/
def Space.eqI : Space → Space → Bool
  | .tensor a, .tensor b => a.eqI b
  | .discr a, .discr b => a.eqI b
  | .prod l w _, .prod l' w' _ => decide (l.length = l'.length) && w.eqI w' && Space.eqL l l'
  | _, _ => false
/-- `all(x == y for x, y in zip(l, l'))` -/
def Space.eqL : List Space → List Space → Bool
  | a :: l, b :: l' => a.eqI b && Space.eqL l l'
  | _, _ => true
end

mutual
/-- `ProductSpace.__hash__`: `hash((type(self), self.spaces, self.weighting))` -/
def Space.hk (heap : Nat → String) : Space → HKey
  | .tensor t => t.hk heap
  | .discr d => d.hk heap
  | .prod l w _ => tup [[HTok.tag .ProductSpace], tup [Space.hkL heap l], w.hk heap]
def Space.hkL (heap : Nat → String) : List Space → HKey
  | [] => []
  | a :: l => a.hk heap ++ Space.hkL heap l
end

/-- `x in S` for every `LinearSpace` / `TensorSpace`: `getattr(x, 'space', None) == S`,
i.e. `x.space.__eq__(S)`; objects without a `space` attribute (`none`) are never members. -/
def Space.contains (S : Space) (xspace : Option Space) : Bool :=
  match xspace with
  | none => false
  | some X => X.eqI S

/-! ## plain sets (odl/set/sets.py) -/

inductive Atom | int (i : Int) | str (s : String)
  deriving DecidableEq, Repr

/-- Non-composite sets. -/
inductive Leaf
  | emptySet | universalSet | strings (n : Nat) | complexNumbers | realNumbers | integers
  | interval (ip : IntervalProd)
  | grid (g : Grid)
  | space (s : Space)
  | finite (elems : List Atom)
  deriving Repr

/-- `all(el in other for el in self) and all(el in self for el in other)` with
`el in other := el in other.elements` (tuple containment, atoms compare structurally). -/
def finiteEq (a b : List Atom) : Bool :=
  a.all (fun x => b.contains x) && b.all (fun x => a.contains x)

/-- `a.__eq__(b)` for non-composite sets (`none` = raises).  Every cross-class pair is
`False`: `isinstance` / `type(...) ==` tests fail. -/
def Leaf.eqO : Leaf → Leaf → Option Bool
  | .emptySet, .emptySet => some true
  | .universalSet, .universalSet => some true
  | .strings n, .strings m => some (decide (m = n))
  | .complexNumbers, .complexNumbers => some true
  | .realNumbers, .realNumbers => some true
  | .integers, .integers => some true
  | .interval a, .interval b => a.eqO b
  | .grid a, .grid b => some (a.eqI b)
  | .space a, .space b => some (a.eqI b)
  | .finite a, .finite b => some (finiteEq a b)
  | _, _ => some false

def atomHk : Atom → HKey
  | .int i => [HTok.int i]
  | .str s => [HTok.str s]

/-- Hash keys of sets: a plain tuple key, or (frozenset-based hashes) a class tag with the
MULTISET of the member keys. -/
inductive SHKey
  | plain (k : HKey)
  | fset (cls : Tag) (members : List HKey)
  deriving Repr

/-- Equality of Python hashes as far as the hashed tuples determine it: plain keys
component-wise, frozensets as multisets (Python's frozenset hash is a symmetric function of
the member hashes). -/
def SHKey.eqv : SHKey → SHKey → Bool
  | .plain a, .plain b => decide (a = b)
  | .fset c a, .fset c' b => decide (c = c') && a.isPerm b
  | _, _ => false

def Leaf.hkPlain (heap : Nat → String) : Leaf → HKey
  | .emptySet => [HTok.tag .EmptySet]
  | .universalSet => [HTok.tag .UniversalSet]
  | .strings n => tup [[HTok.tag .Strings], [HTok.nat n]]
  | .complexNumbers => [HTok.tag .ComplexNumbers]
  | .realNumbers => [HTok.tag .RealNumbers]
  | .integers => [HTok.tag .Integers]
  | .interval a => a.hk
  | .grid g => g.hk
  | .space s => s.hk heap
  | .finite _ => []

def Leaf.hk (heap : Nat → String) : Leaf → SHKey
  | .finite els => .fset .FiniteSet (els.map atomHk)
  | l => .plain (l.hkPlain heap)

/-- short-circuiting `all` / `any` over possibly raising tests -/
def allO {α} (p : α → Option Bool) : List α → Option Bool
  | [] => some true
  | x :: l => match p x with
    | none => none
    | some false => some false
    | some true => allO p l

def anyO {α} (p : α → Option Bool) : List α → Option Bool
  | [] => some false
  | x :: l => match p x with
    | none => none
    | some true => some true
    | some false => anyO p l

/-- CPython tuple `==`: first differing pair decides (no early exit on the lengths),
then the lengths. -/
def tupleEqO {α} (e : α → α → Option Bool) : List α → List α → Option Bool
  | [], [] => some true
  | a :: l, b :: l' => match e a b with
    | none => none
    | some false => some false
    | some true => tupleEqO e l l'
  | _, _ => some false

/-- `x in tup` for a tuple: `any(item == x for item in tup)`. -/
def memO {α} (e : α → α → Option Bool) (x : α) (tupl : List α) : Option Bool :=
  anyO (fun item => e item x) tupl

/-- `SetUnion.__eq__` / `SetIntersection.__eq__` after commit 02921b9:
`all(s in other.sets for s in self.sets) and all(s in self.sets for s in other.sets)`. -/
def mutualInclO {α} (e : α → α → Option Bool) (a b : List α) : Option Bool :=
  match allO (fun s => memO e s b) a with
  | none => none
  | some false => some false
  | some true => allO (fun s => memO e s a) b

/-- All classes with `__eq__`/`__hash__` that the zoo contains. -/
inductive Obj
  | leaf (l : Leaf)
  | cartesian (ms : List Leaf)
  | union (ms : List Leaf)
  | inter (ms : List Leaf)
  | partition (p : Partition)
  | weighting (w : Weighting)
  deriving Repr

def Obj.eqO : Obj → Obj → Option Bool
  | .leaf a, .leaf b => a.eqO b
  | .cartesian a, .cartesian b => tupleEqO Leaf.eqO a b
  | .union a, .union b => mutualInclO Leaf.eqO a b
  | .inter a, .inter b => mutualInclO Leaf.eqO a b
  | .partition a, .partition b => a.eqO b
  | .weighting a, .weighting b => some (a.eqI b)
  | _, _ => some false

/-- Hash key of the members of a composite set: `none` if a member is itself hashed through
a frozenset (FiniteSet inside a union: the combined key is still well defined in Python, but
outside this model). -/
def memberKeys (heap : Nat → String) (ms : List Leaf) : List HKey := ms.map (Leaf.hkPlain heap)

def Obj.hk (heap : Nat → String) : Obj → SHKey
  | .leaf l => l.hk heap
  | .cartesian ms => .plain (tup [[HTok.tag .CartesianProduct], tup (memberKeys heap ms)])
  | .union ms => .fset .SetUnion (memberKeys heap ms)
  | .inter ms => .fset .SetIntersection (memberKeys heap ms)
  | .partition p => .plain p.hk
  | .weighting w => .plain (w.hk heap)

end OdlModel.Spaces
