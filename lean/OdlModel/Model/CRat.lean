/-
Gaussian rationals: the executable stand-in for complex (and real) floating point data on
the exact stream.  Only the operations the models use; wire form `re` or `re:im`.
-/
import OdlModel.Common
namespace OdlModel

structure CRat where
  re : Rat
  im : Rat
  deriving DecidableEq, Repr

namespace CRat
instance : Add CRat := ⟨fun x y => ⟨x.re + y.re, x.im + y.im⟩⟩
instance : Sub CRat := ⟨fun x y => ⟨x.re - y.re, x.im - y.im⟩⟩
instance : Neg CRat := ⟨fun x => ⟨-x.re, -x.im⟩⟩
instance : Mul CRat := ⟨fun x y => ⟨x.re * y.re - x.im * y.im, x.re * y.im + x.im * y.re⟩⟩
instance : OfNat CRat n := ⟨⟨(n : Rat), 0⟩⟩
def conj (x : CRat) : CRat := ⟨x.re, -x.im⟩
def normSq (x : CRat) : Rat := x.re * x.re + x.im * x.im
def inv (x : CRat) : CRat := let d := x.normSq; ⟨x.re / d, -x.im / d⟩
instance : Div CRat := ⟨fun x y => x * y.inv⟩
def ofRat (r : Rat) : CRat := ⟨r, 0⟩

def parse (s : String) : Option CRat :=
  match s.splitOn ":" with
  | [a] => (parseRat a).map ofRat
  | [a, b] => do let r ← parseRat a; let i ← parseRat b; pure ⟨r, i⟩
  | _ => none

def str (x : CRat) : String :=
  if x.im = 0 then showRat x.re else s!"{showRat x.re}:{showRat x.im}"
end CRat

def parseCList (s : String) : Option (List CRat) := parseList CRat.parse s
def showCList (l : List CRat) : String := showList CRat.str l
def Line.crat? (l : Line) (k : String) : Option CRat := l.get? k >>= CRat.parse
def Line.crats? (l : Line) (k : String) : Option (List CRat) := l.get? k >>= parseCList

end OdlModel
