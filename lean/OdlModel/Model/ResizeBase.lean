/-
Base vocabulary of the resize/padding model (C16): pad modes, directions, error kinds and
*Python slice semantics* for the only two steps the code uses (`+1`, `-1`).

`pySlice` is CPython's `PySlice_AdjustIndices` + slice length: negative bounds count from
the end, out-of-range bounds are clipped, `None` means "from/to the end in the direction of
travel".  The symmetric mode of `_padding_slices_inner` depends on exactly these rules
(a stop of `-1` would mean "last index", hence the `None` fix-up in the source).
-/
namespace OdlModel.Resize

/-- `_SUPPORTED_RESIZE_PAD_MODES`. -/
inductive Mode | constant | symmetric | periodic | order0 | order1
  deriving DecidableEq, Repr

inductive Dir | forward | adjoint
  deriving DecidableEq, Repr

/-- The ways `resize_array` refuses an input.  All are `ValueError` in the code.
`offset`: the offset is not in `[0, |n_new - n_orig|]` (there is then no placement of the
smaller array inside the larger one). -/
inductive Err
  | padConstAdjoint | order0Empty | order1Short | periodicTooLong | symmetricTooLong
  | offset
  deriving DecidableEq, Repr

/-- A Python `slice(start, stop, step)` with `step = -1` iff `rev`. -/
structure SliceSpec where
  start : Option Int
  stop : Option Int
  rev : Bool
  deriving Repr

/-- A slice resolved against an axis length: the indices `start, start ± 1, …` (`count` many). -/
structure Slc where
  start : Int
  count : Nat
  rev : Bool
  deriving Repr

/-- `slice.indices(len)` and the slice length, for steps `±1`. -/
def pySlice (s : SliceSpec) (len : Nat) : Slc :=
  let n : Int := len
  if s.rev then
    let clip (v : Int) : Int :=
      if v < 0 then (if v + n < 0 then -1 else v + n) else if v ≥ n then n - 1 else v
    let a := match s.start with | none => n - 1 | some v => clip v
    let b := match s.stop with | none => -1 | some v => clip v
    ⟨a, (a - b).toNat, true⟩
  else
    let clip (v : Int) : Int :=
      if v < 0 then (if v + n < 0 then 0 else v + n) else if v ≥ n then n else v
    let a := match s.start with | none => 0 | some v => clip v
    let b := match s.stop with | none => n | some v => clip v
    ⟨a, (b - a).toNat, false⟩

/-- `k`-th index selected by the slice. -/
def Slc.idx (s : Slc) (k : Nat) : Nat :=
  (if s.rev then s.start - (k : Int) else s.start + (k : Int)).toNat

/-- Signed position of array index `i` relative to the slice start, in the direction of travel:
`i` is selected iff `0 ≤ s.rel i < s.count`, and then it is entry number `s.rel i`. -/
def Slc.rel (s : Slc) (i : Nat) : Int :=
  if s.rev then s.start - (i : Int) else (i : Int) - s.start

/-- `slice(None)`. -/
def SliceSpec.full : SliceSpec := ⟨none, none, false⟩

/-- The source's fix-up `if istop_r == -1: istop_r = None`. -/
def noneIfMinusOne (v : Int) : Option Int := if v = -1 then none else some v

end OdlModel.Resize
