/-
Model of `odl/util/numerics.py::resize_array` (with `_intersection_slice_tuples`,
`_assign_intersection`, `_padding_slices_outer/_inner`, `_apply_padding`) and of the range
construction of `odl/discr/discr_ops.py::ResizingOperator` (`_resize_discr`,
`_offset_from_spaces`) — property C16.

One axis: arrays are `Nat → K` together with their length; every NumPy statement of the
source (`a[s] = a[t]`, `a[s] += a[t]`, `np.sum`, `np.diff`, `np.arange`) is one `setSlc` /
`addSlc` / `sumN` over slices resolved with Python's slice rules (`pySlice`), in the order in
which the source executes them.  The per-mode inner/outer slices are NOT written here: they
are regenerated from the source into `Gen/PadSlices.lean` on every run, together with the
guard table and the pad lengths of `_apply_padding`.  The STATEMENT SEQUENCE of `_apply_padding`
after the guards (`=` vs `+=`, which side is read, the moments and the `(-1, 1)` signs of
order1), the fill, the offset range check and the `pad_const` check of `resize_array` are
hand-written here and tied to the source by the correspondence run only.

N axes: `resize_array` treats the axes one after the other on the fibres of the array
(`working_slc`); the model composes the one-axis map along the axes (`alongAxis`, `resizeND`).
That NumPy's basic slicing realises this fibre view is modelled, and checked by the
correspondence run in 1–3 dimensions, not proved.
-/
import OdlModel.Model.ResizeBase
import OdlModel.Gen.PadSlices

namespace OdlModel.Resize
open OdlModel.Gen

section oneAxis
variable {K : Type}

/-- `a[s]` as a sequence. -/
def getS (a : Nat → K) (s : Slc) : Nat → K := fun k => a (s.idx k)

/-- `a[d] = v` (entry `k` of `v` goes to the `k`-th selected index). -/
def setSlc (a : Nat → K) (d : Slc) (v : Nat → K) : Nat → K :=
  fun i => if 0 ≤ d.rel i ∧ d.rel i < (d.count : Int) then v (d.rel i).toNat else a i

/-- `a[d] += v`. -/
def addSlc [Add K] (a : Nat → K) (d : Slc) (v : Nat → K) : Nat → K :=
  fun i => if 0 ≤ d.rel i ∧ d.rel i < (d.count : Int) then a i + v (d.rel i).toNat else a i

/-- `np.sum` of the first `n` entries of a sequence. -/
def sumN [Zero K] [Add K] : Nat → (Nat → K) → K
  | 0, _ => 0
  | n + 1, f => sumN n f + f n

/-- `_assign_intersection(lhs, rhs, offset)`:  `lhs[lhs_slc] = rhs[rhs_slc]` with the slices of
`_intersection_slice_tuples`. -/
def assignIntersection (lhs : Nat → K) (nL : Nat) (rhs : Nat → K) (nR off : Nat) : Nat → K :=
  let istart : Int := off
  let istop : Int := istart + (min nL nR : Nat)
  let innerSlc : SliceSpec := ⟨some istart, some istop, false⟩
  if nL > nR then
    setSlc lhs (pySlice innerSlc nL) (getS rhs (pySlice .full nR))
  else if nL < nR then
    setSlc lhs (pySlice .full nL) (getS rhs (pySlice innerSlc nR))
  else
    setSlc lhs (pySlice .full nL) (getS rhs (pySlice .full nR))

/-- The explicit `raise ValueError` branches of `_apply_padding` (`n_lhs > n_rhs` is the
condition for entering them): the GENERATED guard table, in source order. -/
def paddingGuards (mode : Mode) (nL nR off : Nat) : Option Err :=
  PadSlices.guards mode (off : Int) (nL : Int) (nR : Int)

def SliceSpec.widenStop (s : SliceSpec) : SliceSpec := ⟨s.start, s.stop.map (· + 1), s.rev⟩
def SliceSpec.widenStart (s : SliceSpec) : SliceSpec := ⟨s.start.map (· - 1), s.stop, s.rev⟩

variable [Zero K] [Add K] [Sub K] [Mul K] [IntCast K]

/-- Body of the axis loop of `_apply_padding(lhs_arr, rhs_arr, offset, pad_mode, direction)`
for one axis; `nL`, `nR` are the lengths of `lhs_arr`, `rhs_arr` (only the SHAPE of `rhs_arr`
is used by the source). -/
def applyPadding (mode : Mode) (dir : Dir) (lhs : Nat → K) (nL nR off : Nat) : Nat → K :=
  if nL ≤ nR then lhs else
  -- the primitive quantities the generated slice arithmetic is written in
  let offI : Int := off
  let nLarge : Int := (max nL nR : Nat)
  let nSmall : Int := (min nL nR : Nat)
  -- `n_pad_l`, `n_pad_r` of `_apply_padding` itself (used by the `np.arange`s of order1)
  let nPadL : Int := PadSlices.nPadL offI nL nR
  let nPadR : Int := PadSlices.nPadR offI nL nR
  let outerL := pySlice (PadSlices.outer offI nLarge nSmall).1 nL
  let outerR := pySlice (PadSlices.outer offI nLarge nSmall).2 nL
  let innerSpec := PadSlices.inner mode offI nLarge nSmall
  let innerL := pySlice innerSpec.1 nL
  let innerR := pySlice innerSpec.2 nL
  match mode with
  | .constant => lhs
  | .periodic | .symmetric =>
    match dir with
    | .forward =>
      let a1 := setSlc lhs outerL (getS lhs innerL)
      setSlc a1 outerR (getS a1 innerR)
    | .adjoint =>
      let a1 := addSlc lhs innerL (getS lhs outerL)
      addSlc a1 innerR (getS a1 outerR)
  | .order0 =>
    match dir with
    | .forward =>
      -- the length-1 boundary slice is broadcast over the outer part
      let a1 := setSlc lhs outerL (fun _ => getS lhs innerL 0)
      setSlc a1 outerR (fun _ => getS a1 innerR 0)
    | .adjoint =>
      let a1 := addSlc lhs innerL (fun _ => sumN outerL.count (getS lhs outerL))
      addSlc a1 innerR (fun _ => sumN outerR.count (getS a1 outerR))
  | .order1 =>
    let slopeL := pySlice innerSpec.1.widenStop nL
    let slopeR := pySlice innerSpec.2.widenStart nL
    -- np.arange(-n_pad_l, 0)[k], np.arange(1, n_pad_r + 1)[k]
    let arangeL : Nat → K := fun k => ((-nPadL + (k : Int) : Int) : K)
    let arangeR : Nat → K := fun k => ((1 + (k : Int) : Int) : K)
    match dir with
    | .forward =>
      let sl := getS lhs slopeL 1 - getS lhs slopeL 0     -- np.diff
      let sr := getS lhs slopeR 1 - getS lhs slopeR 0
      let a1 := setSlc lhs outerL (fun k => getS lhs innerL 0 + arangeL k * sl)
      setSlc a1 outerR (fun k => getS a1 innerR 0 + arangeR k * sr)
    | .adjoint =>
      let a1 := addSlc lhs innerL (fun _ => sumN outerL.count (getS lhs outerL))
      let a2 := addSlc a1 innerR (fun _ => sumN outerR.count (getS a1 outerR))
      let m1l := sumN outerL.count (fun k => arangeL k * getS a2 outerL k)
      let m1r := sumN outerR.count (fun k => arangeR k * getS a2 outerR k)
      let sign : Nat → K := fun k => (((if k = 0 then -1 else 1) : Int) : K)
      let a3 := addSlc a2 slopeL (fun k => m1l * sign k)
      addSlc a3 slopeR (fun k => m1r * sign k)

variable [DecidableEq K]

/-- Everything `resize_array` refuses, in source order: the offset range
(`0 ≤ offset ≤ |n_new - n_orig|` on a resized axis; offsets are naturals here; on an axis
of unchanged length the offset is ignored), `pad_const ≠ 0` in the adjoint
direction, then the guards of `_apply_padding`. -/
def check (mode : Mode) (dir : Dir) (nIn nOut off : Nat) (c : K) : Option Err :=
  if nIn ≠ nOut ∧ off + min nIn nOut > max nIn nOut then some .offset
  else if dir = .adjoint ∧ mode = .constant ∧ c ≠ 0 then some .padConstAdjoint
  else if mode = .constant then none
  else match dir with
    | .forward => if nOut > nIn then paddingGuards mode nOut nIn off else none
    | .adjoint => if nIn > nOut then paddingGuards mode nIn nOut off else none

/-- `resize_array` after its argument checks, one axis. -/
def resizeCore (mode : Mode) (dir : Dir) (nIn nOut off : Nat) (c : K) (arr : Nat → K) :
    Nat → K :=
  let out0 : Nat → K :=
    fun _ => if dir = .forward ∧ mode = .constant ∧ c ≠ 0 then c else 0
  match dir with
  | .forward =>
    let out1 := assignIntersection out0 nOut arr nIn off
    if mode = .constant then out1 else applyPadding mode .forward out1 nOut nIn off
  | .adjoint =>
    if mode = .constant then assignIntersection out0 nOut arr nIn off
    else
      let tmp := applyPadding mode .adjoint arr nIn nOut off
      assignIntersection out0 nOut tmp nIn off

/-- `resize_array(arr, (nOut,), offset=off, pad_mode, pad_const=c, direction)` for a 1-d `arr`
of length `nIn`; the result is meaningful on `[0, nOut)`. -/
def resize1d (mode : Mode) (dir : Dir) (nIn nOut off : Nat) (c : K) (arr : Nat → K) :
    Except Err (Nat → K) :=
  match check mode dir nIn nOut off c with
  | some e => .error e
  | none => .ok (resizeCore mode dir nIn nOut off c arr)

end oneAxis

/-! ### `ResizingOperator.adjoint`: weightings and fractional boundary cells -/
section opAdjoint
variable {K : Type} [Zero K] [Add K] [Sub K] [Mul K] [Div K] [IntCast K] [DecidableEq K]

/-- Relative weight of the cells of one axis of length `n` in `DiscretizedSpace.inner`:
`fl` for the first and `fr` for the last cell (`partition.boundary_cell_fractions`, `1/2` for a
node on the boundary), `one` inside; a single cell gets both factors (`apply_on_boundary` with
`only_once=False`). -/
def bdryFrac (one : K) (n : Nat) (fl fr : K) : Nat → K :=
  fun i => (if i = 0 then fl else one) * (if i + 1 = n then fr else one)

/-- The weighting of the tensor space behind a discretized space: a constant (by default the
cell volume) or an array (`_inner_weights` of discr_ops.py). -/
inductive Weighting (K : Type)
  | const (c : K)
  | array (w : Nat → K)

def Weighting.at : Weighting K → Nat → K
  | .const c, _ => c
  | .array w, i => w i

/-- Weight of entry `i` in `DiscretizedSpace.inner`: tensor-space weight times boundary-cell
fraction. -/
def innerWeight (w : Weighting K) (frac : Nat → K) : Nat → K := fun i => w.at i * frac i

/-- `ResizingOperatorAdjoint._call` (one axis), statement by statement: scale by the
boundary-cell fractions `fR` of the range; if both weightings are constants remember their
ratio, otherwise multiply by the range weights; `resize_array(..., direction='adjoint')`;
divide by the fractions `fD` of the domain; divide by the domain weights resp. multiply by the
ratio. -/
def opAdjointW (mode : Mode) (m n off : Nat) (wR : Weighting K) (fR : Nat → K)
    (wD : Weighting K) (fD : Nat → K) (y : Nat → K) : Except Err (Nat → K) :=
  let x1 : Nat → K := fun i => y i * fR i
  match wR, wD with
  | .const a, .const b =>
    match resize1d mode .adjoint m n off 0 x1 with
    | .ok r => .ok (fun j => r j / fD j * (a / b))
    | .error e => .error e
  | _, _ =>
    match resize1d mode .adjoint m n off 0 (fun i => x1 i * wR.at i) with
    | .ok r => .ok (fun j => r j / fD j / wD.at j)
    | .error e => .error e

end opAdjoint

/-! ### NumPy's padding as index formulas (the reference the property names) -/
section reference
variable {K : Type}

/-- `np.pad(x, (off, nOut - n - off), mode='constant', constant_values=c)`. -/
def npConstant (n off : Nat) (c : K) (x : Nat → K) : Nat → K :=
  fun i => if off ≤ i ∧ i < off + n then x (i - off) else c

/-- `mode='wrap'`: index `(i - off) mod n`. -/
def npWrap (n off : Nat) (x : Nat → K) : Nat → K :=
  fun i => x (((i : Int) - off) % (n : Int)).toNat

/-- Reflection without repeating the edge, any number of folds (period `2(n-1)`). -/
def reflectIdx (t : Int) (n : Nat) : Nat :=
  let p : Int := 2 * ((n : Int) - 1)
  let m := t % p
  (if m < n then m else p - m).toNat

/-- `mode='reflect'`. -/
def npReflect (n off : Nat) (x : Nat → K) : Nat → K :=
  fun i => x (reflectIdx ((i : Int) - off) n)

/-- `mode='edge'`: clamp the index. -/
def npEdge (n off : Nat) (x : Nat → K) : Nat → K :=
  fun i => x (if i < off then 0 else if i ≥ off + n then n - 1 else i - off)

/-- Linear extrapolation through the two outermost samples on each side. -/
def linExtrap [Add K] [Sub K] [Mul K] [IntCast K] (n off : Nat) (x : Nat → K) : Nat → K :=
  fun i =>
    if i < off then x 0 + (((i : Int) - off : Int) : K) * (x 1 - x 0)
    else if i ≥ off + n then
      x (n - 1) + (((i : Int) - (off + n - 1) : Int) : K) * (x (n - 1) - x (n - 2))
    else x (i - off)

end reference

/-! ### N axes -/
section nd
variable {K : Type}

/-- Apply a one-axis map along axis `ax` of an array indexed by multi-indices: it acts on
every fibre `j ↦ A (idx with idx[ax] := j)` independently. -/
def alongAxis (ax : Nat) (L : (Nat → K) → (Nat → K)) (A : List Nat → K) : List Nat → K :=
  fun idx => L (fun j => A (idx.set ax j)) (idx.getD ax 0)

/-- Sum over the box `[0, shape₀) × [0, shape₁) × …`. -/
def sumBox [Zero K] [Add K] : List Nat → (List Nat → K) → K
  | [], f => f []
  | n :: rest, f => sumN n (fun i => sumBox rest (fun idx => f (i :: idx)))

variable [Zero K] [Add K] [Sub K] [Mul K] [IntCast K] [DecidableEq K]

/-- The offset range check of `resize_array` runs over all axes before anything else. -/
def offsetsBad : List Nat → List Nat → List Nat → Bool
  | nIn :: sIn, nOut :: sOut, off :: offs =>
    decide (nIn ≠ nOut ∧ off + min nIn nOut > max nIn nOut) || offsetsBad sIn sOut offs
  | _, _, _ => false

/-- First refusal over the axes (any axis with an inadmissible configuration). -/
def checkAxes (mode : Mode) (dir : Dir) (c : K) : List Nat → List Nat → List Nat → Option Err
  | nIn :: sIn, nOut :: sOut, off :: offs =>
    match check mode dir nIn nOut off c with
    | some e => some e
    | none => checkAxes mode dir c sIn sOut offs
  | _, _, _ => none

/-- Refusals of the n-d call in source order: offsets of all axes first, then per axis. -/
def checkND (mode : Mode) (dir : Dir) (c : K) (sIn sOut offs : List Nat) : Option Err :=
  if offsetsBad sIn sOut offs then some .offset else checkAxes mode dir c sIn sOut offs

/-- Axes `ax, ax+1, …` one after the other (the loop of `_apply_padding`, each axis acting on
the result of the previous ones). -/
def resizeAxes (mode : Mode) (dir : Dir) (c : K) :
    Nat → List Nat → List Nat → List Nat → (List Nat → K) → (List Nat → K)
  | ax, nIn :: sIn, nOut :: sOut, off :: offs, A =>
    resizeAxes mode dir c (ax + 1) sIn sOut offs
      (alongAxis ax (resizeCore mode dir nIn nOut off c) A)
  | _, _, _, _, A => A

/-- The same with the LAST axis first (the transpose of a composition is the reversed
composition of the transposes). -/
def resizeAxesRev (mode : Mode) (dir : Dir) (c : K) :
    Nat → List Nat → List Nat → List Nat → (List Nat → K) → (List Nat → K)
  | ax, nIn :: sIn, nOut :: sOut, off :: offs, A =>
    alongAxis ax (resizeCore mode dir nIn nOut off c)
      (resizeAxesRev mode dir c (ax + 1) sIn sOut offs A)
  | _, _, _, _, A => A

/-- `resize_array` on an n-d array. -/
def resizeND (mode : Mode) (dir : Dir) (sIn sOut offs : List Nat) (c : K) (A : List Nat → K) :
    Except Err (List Nat → K) :=
  match checkND mode dir c sIn sOut offs with
  | some e => .error e
  | none => .ok (resizeAxes mode dir c 0 sIn sOut offs A)

/-- `ResizingOperatorAdjoint._call` on n axes with the diagonal weights `WR`, `WD` of the inner
products of range and domain (tensor-space weighting times the product of the boundary-cell
fractions over the axes): `W_D⁻¹ Rᵀ W_R`. -/
def opAdjointND [Div K] (mode : Mode) (sOut sIn offs : List Nat) (WR WD : List Nat → K)
    (Y : List Nat → K) : List Nat → K :=
  fun idx => resizeAxes mode .adjoint (0 : K) 0 sOut sIn offs (fun i => WR i * Y i) idx / WD idx

end nd

/-! ### `ResizingOperator`: range partition (`_resize_discr`) for one uniformly discretised axis -/
section operator
variable {K : Type}

/-- One axis of a uniform partition: `[lo, hi]` in `n` cells; `bl`/`br` say whether the
first/last grid node sits on the boundary (`nodes_on_bdry`). -/
structure Axis (K : Type) where
  lo : K
  hi : K
  n : Nat
  bl : Bool
  br : Bool

/-- `(num_l, num_r)` of `_resize_discr`: cells added on the left/right (negative: removed).
`off = none` distributes evenly with preference for the left. -/
def numLR (nOrig nNew : Nat) (off : Option Int) : Int × Int :=
  if nOrig = nNew then (0, 0) else
  let nDiff : Int := (nNew : Int) - nOrig
  match off with
  | none => let r := nDiff / 2; (nDiff - r, r)   -- Python floor division
  | some o =>
    -- `o` cells are added (extension) or removed (restriction) on the left
    let l := if nDiff > 0 then o else -o
    (l, nDiff - l)

variable [Add K] [Sub K] [Mul K] [Div K] [IntCast K]

/-- `cell_sides` of `uniform_partition(lo, hi, n, nodes_on_bdry=(bl, br))`. -/
def Axis.cell (a : Axis K) : K :=
  let half : K := ((1 : Int) : K) / ((2 : Int) : K)
  let zero : K := ((0 : Int) : K)
  (a.hi - a.lo) /
    (((a.n : Int) : K) - (if a.bl then half else zero) - (if a.br then half else zero))

/-- first / last grid point -/
def Axis.gridMin (a : Axis K) : K := if a.bl then a.lo else a.lo + a.cell / ((2 : Int) : K)
def Axis.gridMax (a : Axis K) : K := if a.br then a.hi else a.hi - a.cell / ((2 : Int) : K)

/-- `_resize_discr` for one affected uniform axis; `bl'`, `br'` come from `discr_kwargs`
(default `False`). -/
def resizeAxis (a : Axis K) (nNew : Nat) (off : Option Int) (bl' br' : Bool) : Axis K :=
  let num := numLR a.n nNew off
  let h := a.cell
  let half : K := h / ((2 : Int) : K)
  { lo := if bl' then a.gridMin - ((num.1 : Int) : K) * h
          else a.gridMin - (((num.1 : Int) : K) * h + half)
    hi := if br' then a.gridMax + ((num.2 : Int) : K) * h
          else a.gridMax + (((num.2 : Int) : K) * h + half)
    n := nNew, bl := bl', br := br' }

end operator

/-! ### `_offset_from_spaces` (exact arithmetic; the code rounds and compares with `np.isclose`) -/

/-- Refusals of `_offset_from_spaces`. -/
inductive ShiftErr
  | notMultiple     -- range shifted by a non-multiple of the cell side
  | notContained    -- the smaller grid does not lie inside the larger one
  | shiftedUnchanged  -- the grids differ in an axis of unchanged length
  deriving DecidableEq, Repr

/-- Signed number of cells by which the LARGER grid starts to the left of the smaller one. -/
def shiftCells (dom ran : Axis Rat) : Rat :=
  (if ran.n > dom.n then 1 else -1) * (dom.gridMin - ran.gridMin) / dom.cell

/-- Array offset of one axis from the two partitions: `shiftCells` must be an integer in
`[0, |n_ran - n_dom|]` (the smaller grid lies inside the larger one).  In an axis of unchanged
length the two grids must coincide; the offset is 0. -/
def offsetFromAxes (dom ran : Axis Rat) : Except ShiftErr Nat :=
  if dom.n = ran.n then
    (if dom.gridMin = ran.gridMin then .ok 0 else .error .shiftedUnchanged)
  else if (shiftCells dom ran).den ≠ 1 then .error .notMultiple
  else if (shiftCells dom ran).num < 0 ∨
      (shiftCells dom ran).num > ((ran.n : Int) - dom.n).natAbs then .error .notContained
  else .ok (shiftCells dom ran).num.toNat

end OdlModel.Resize
