/-
Model of ODL's Fourier transform code (C18):
  odl/trafos/util/ft_utils.py   reciprocal_grid, realspace_grid, dft_preprocess_data,
                                dft_postprocess_data (fmin/fmax table, phase, kernel)
  odl/trafos/fourier.py         DiscreteFourierTransform(Inverse)._call_numpy/_call_pyfftw,
                                FourierTransform(Inverse)._call_numpy
  odl/trafos/backends/pyfftw_bindings.py  pyfftw_call (normalisation flags only)

Units.  A real-space axis has `n` points `x_k = x0 + k*s`.  All reciprocal-space
quantities are RATIONAL multiples of `π/s`; all phases are `exp(iπ q)` with `q` rational
(so the algebra of phases is exact arithmetic of exponents modulo 2).  The FFT libraries are
parameters: their specification is the naive `O(n²)` sum over a primitive root of unity.

Import-free (core Lean only) and executable; nothing here is a theorem.
-/
import OdlModel.Common
import OdlModel.Model.CRat
namespace OdlModel.Fourier

/-! ### Grids (`uniform_grid(min, max, shape)`, one axis) -/

structure Grid where
  min : Rat
  max : Rat
  shape : Nat
  deriving DecidableEq, Repr

/-- `RectGrid.stride`: `(max - min)/(shape - 1)`, and 0 on a one-point axis. -/
def Grid.stride (g : Grid) : Rat :=
  if g.shape ≤ 1 then 0 else (g.max - g.min) / ((g.shape - 1 : Nat) : Rat)

/-- `RectGrid.coord_vectors[ax][j]` (`linspace(min, max, shape)`). -/
def Grid.point (g : Grid) (j : Nat) : Rat := g.min + (j : Rat) * g.stride

/-- Half-complex length `n // 2 + 1`. -/
def hcLen (n : Nat) : Nat := n / 2 + 1

/-- `reciprocal_grid` on one transformed axis with `n` points, in units of `π/s`
(`s` = real-space stride; the code replaces a zero stride by 1).  Follows the code:
shifted axes `rmin = -π/s`, `rmax = -rmin - 2π/(s n)`; non-shifted axes
`rmin = (-1 + 1/n) π/s`, `rmax = -rmin`; with `halfcomplex` the shape of the last axis
becomes `n//2+1` and `rmax` is taken from the odd/shift case table. -/
def recipGrid (n : Nat) (shift halfcomplex : Bool) : Grid :=
  let nq : Rat := (n : Rat)
  let rmin : Rat := if shift then -1 else (-1 + 1 / nq)
  let rmax : Rat := if shift then -rmin - 2 / nq else -rmin
  if halfcomplex then
    let odd := n % 2 == 1
    let half : Rat := 1 / nq
    let rmaxH : Rat :=
      if odd && shift then -half
      else if !odd && !shift then half
      else 0
    ⟨rmin, rmaxH, hcLen n⟩
  else ⟨rmin, rmax, n⟩

/-- Output length of the half-complex inverse in the halved axis (`realspace_grid`,
`halfcx_parity`): `2m-2` for even, `2m-1` for odd. -/
def irLen (m : Nat) (odd : Bool) : Nat := if odd then 2 * m - 1 else 2 * m - 2

/-- What `numpy.fft.irfftn(x, axes)` produces WITHOUT the `s` argument: always `2(m-1)`.
Not used by the model of the (repaired) code, which passes `s=` everywhere; kept to state why
the argument is necessary (`C18.irfftn_without_s_loses_odd_length`). -/
def irLenNumpyDefault (m : Nat) : Nat := 2 * (m - 1)

/-- `realspace_grid` shape on the (last) transformed axis. -/
def realShape (m : Nat) (halfcomplex odd : Bool) : Nat := if halfcomplex then irLen m odd else m

/-- `realspace_grid` stride in units of `s`, from the reciprocal stride `c` (units `π/s`):
`2π / (N · rstride)`. -/
def realStride (N : Nat) (c : Rat) : Rat := 2 / ((N : Rat) * c)

/-! ### Pre- and post-processing (`dft_preprocess_data`, `dft_postprocess_data`) -/

/-- Sign of the exponent: `'-' ↦ -1`, `'+' ↦ +1` (`imag = sgn · 1j`). -/
def sgnOf (plus : Bool) : Rat := if plus then 1 else -1

/-- Exponent `q` of the pre-processing factor `p[k] = exp(iπ q)`:
shifted: `factor[1::2] = -1`, i.e. `(-1)^k`;
otherwise `exp(k · (-imag) · π (1 - 1/n))`. -/
def preExp (n : Nat) (shift plus : Bool) (k : Nat) : Rat :=
  if shift then ((k % 2 : Nat) : Rat)
  else (k : Rat) * (-(sgnOf plus)) * (1 - 1 / (n : Rat))

/-- Exponent of the phase part of the post-processing factor `exp(imag · x0 · ξ_j)`,
`t = x0/s`, `c = ξ_j /(π/s)`. -/
def postExp (plus : Bool) (t c : Rat) : Rat := sgnOf plus * t * c

/-- The `fmin/fmax` table of `dft_postprocess_data`: normalised frequencies
`linspace(fmin, fmax, len_dft)` fed to the interpolation-kernel FT.  `lenDft` is the length
of the reciprocal axis; the code DETECTS half-complex by `len_dft < len_orig`. -/
def interpFreqs (n lenDft : Nat) (shift : Bool) : Grid :=
  let nq : Rat := (n : Rat)
  let halfcomplex := lenDft < n
  let odd := n % 2 == 1
  let fmin : Rat := if shift then -1/2 else -1/2 + 1 / (2 * nq)
  let fmax : Rat :=
    if halfcomplex then
      if shift && odd then -(1 / (2 * nq))
      else if !shift && !odd then 1 / (2 * nq)
      else 0
    else
      if shift then 1/2 - 1 / nq else 1/2 - 1 / (2 * nq)
  ⟨fmin, fmax, lenDft⟩

/-- Canonical representative in `[0, 2)` of an exponent modulo 2. -/
def mod2 (q : Rat) : Rat := q - 2 * ((q / 2).floor : Rat)

/-! ### The DFT as a naive sum over a root of unity -/

section generic
variable {K : Type} [Add K] [Mul K] [Div K] [OfNat K 0] [OfNat K 1] [NatCast K]

def sumTo (n : Nat) (g : Nat → K) : K :=
  match n with
  | 0 => 0
  | m + 1 => sumTo m g + g m

def pw (x : K) : Nat → K
  | 0 => 1
  | m + 1 => pw x m * x

/-- `Σ_{j<n} f j · w^(j k)`: `numpy.fft.fft` for `w = exp(-2πi/n)`; the un-normalised
backward FFTW transform for `w = exp(+2πi/n)`. -/
def dftSum (w : K) (n : Nat) (f : Nat → K) (k : Nat) : K :=
  sumTo n (fun j => f j * pw w (j * k))

/-- `numpy.fft.ifft`: root `winv = exp(+2πi/n)` and the factor `1/n`. -/
def npIfft (winv : K) (n : Nat) (f : Nat → K) (k : Nat) : K :=
  dftSum winv n f k / (n : K)

/-- `DiscreteFourierTransform._call_numpy` on one axis (`plus` = sign `'+'`):
`fftn` for `'-'`, `prod(shape[axes]) * ifftn` for `'+'`. -/
def dftForwardNp (plus : Bool) (w winv : K) (n : Nat) (f : Nat → K) (k : Nat) : K :=
  if plus then (n : K) * npIfft winv n f k else dftSum w n f k

/-- `DiscreteFourierTransformInverse._call_numpy` on one axis: `ifftn` for `'+'`,
`fftn / prod(shape[axes])` for `'-'`. -/
def dftInverseNp (plus : Bool) (w winv : K) (n : Nat) (f : Nat → K) (k : Nat) : K :=
  if plus then npIfft winv n f k else dftSum w n f k / (n : K)

/-- What a `pyfftw.FFTW` plan computes when called with `normalise_idft`: forward is never
scaled, backward is divided by `n` iff `normalise_idft`. -/
def fftwPlan (backward normalise : Bool) (w winv : K) (n : Nat) (f : Nat → K) (k : Nat) : K :=
  if backward then
    (if normalise then dftSum winv n f k / (n : K) else dftSum winv n f k)
  else dftSum w n f k

/-- `pyfftw_call(..., normalise_idft=ni)`: `if not ni and direction == 'forward':
plan(normalise_idft=True) else plan(normalise_idft=ni)`. -/
def pyfftwCall (backward ni : Bool) (w winv : K) (n : Nat) (f : Nat → K) (k : Nat) : K :=
  if !ni && !backward then fftwPlan backward true w winv n f k
  else fftwPlan backward ni w winv n f k

/-- `DiscreteFourierTransform._call_pyfftw`: direction from the sign, `normalise_idft=False`. -/
def dftForwardFftw (plus : Bool) (w winv : K) (n : Nat) (f : Nat → K) (k : Nat) : K :=
  pyfftwCall plus false w winv n f k

/-- `DiscreteFourierTransformInverse._call_pyfftw`: `normalise_idft=True`, and for sign `'-'`
(direction forward) the explicit `out /= prod(shape[axes])`. -/
def dftInverseFftw (plus : Bool) (w winv : K) (n : Nat) (f : Nat → K) (k : Nat) : K :=
  if plus then pyfftwCall true true w winv n f k
  else pyfftwCall false true w winv n f k / (n : K)

/-- Hermitian extension used by complex-to-real transforms: entries above `n/2` are the
conjugates of the mirrored ones. -/
def hermExt (conj : K → K) (n : Nat) (g : Nat → K) (k : Nat) : K :=
  if k ≤ n / 2 then g k else conj (g (n - k))

/-- `numpy.fft.irfft(g, n)` (before taking the real part). -/
def npIrfft (conj : K → K) (winv : K) (n : Nat) (g : Nat → K) (k : Nat) : K :=
  npIfft winv n (hermExt conj n g) k

/-- One axis of `FourierTransform._call_numpy`: pre-process, FFT with the coded
normalisation, post-process.  `e q` stands for `exp(iπ q)`, `amp j` for the real factor
`s · sinc(freq_j)^p / sqrt(2π)`, `t = x0/s`, `c j` the reciprocal grid point in `π/s`. -/
def ftForwardAxis (e : Rat → K) (amp : Nat → K) (c : Nat → Rat) (t : Rat)
    (shift plus : Bool) (w winv : K) (n : Nat) (f : Nat → K) (j : Nat) : K :=
  (e (postExp plus t (c j)) * amp j) *
    dftForwardNp plus w winv n (fun k => e (preExp n shift plus k) * f k) j

/-- One axis of `FourierTransformInverse._call_numpy` with sign `plus` (the sign of the
INVERSE operator, i.e. the flipped forward sign): divide by the kernel and multiply by the
phase with this sign, inverse FFT, then `dft_preprocess_data` with this sign. -/
def ftInverseAxis (e : Rat → K) (amp : Nat → K) (c : Nat → Rat) (t : Rat)
    (shift plus : Bool) (w winv : K) (n : Nat) (g : Nat → K) (k : Nat) : K :=
  e (preExp n shift plus k) *
    dftInverseNp plus w winv n (fun j => (e (postExp plus t (c j)) / amp j) * g j) k

/-- One HALVED axis of `FourierTransformInverse._call_numpy` (half-complex: the axis is
shifted, the inverse has sign `'+'`): divide by the kernel and multiply by the phase on the
`n/2+1` stored nodes, complex-to-real inverse `irfft(…, n)`, then the real factors `(-1)^k`.
The forward counterpart stores `ftForwardAxis … shift=true plus=false` on the nodes `j ≤ n/2`
(`rfft` = prefix of `fft`; `C18.recip_halfcomplex_prefix` for the nodes). -/
def ftInverseAxisHc (e : Rat → K) (conj : K → K) (amp : Nat → K) (c : Nat → Rat) (t : Rat)
    (winv : K) (n : Nat) (g : Nat → K) (k : Nat) : K :=
  e (preExp n true true k) *
    npIrfft conj winv n (fun j => (e (postExp true t (c j)) / amp j) * g j) k

end generic

/-! ### Arrays: a 1-d map applied along one axis of a C-ordered n-d array -/

/-- `outer`, `len`, `inner` of `axis` in `shape` (C order). -/
def axisSplit (shape : List Nat) (axis : Nat) : Nat × Nat × Nat :=
  ((shape.take axis).foldl (· * ·) 1, shape.getD axis 1, (shape.drop (axis + 1)).foldl (· * ·) 1)

/-- Apply `F` (a map on 1-d signals of length `len`, producing `outLen` entries) to every
fibre along an axis. -/
def alongAxis {K : Type} [Inhabited K] (outer len inner outLen : Nat)
    (F : (Nat → K) → Nat → K) (x : Array K) : Array K :=
  Array.ofFn (n := outer * outLen * inner) fun idx =>
    let i := idx.val % inner
    let r := idx.val / inner
    let k' := r % outLen
    let o := r / outLen
    F (fun k => x.getD ((o * len + k) * inner + i) default) k'

/-- A sequence of per-axis steps `(axis, outLen, F)` applied to an array of the given shape. -/
def applyAxes {K : Type} [Inhabited K] (shape : List Nat)
    (steps : List (Nat × Nat × ((Nat → K) → Nat → K))) (x : Array K) : List Nat × Array K :=
  steps.foldl (fun (acc : List Nat × Array K) (st : Nat × Nat × ((Nat → K) → Nat → K)) =>
    let (o, l, i) := axisSplit acc.1 st.1
    (acc.1.set st.1 st.2.1, alongAxis o l i st.2.1 st.2.2 acc.2)) (shape, x)

/-! ### n-d discrete transforms as the code composes them -/

section nd
variable {K : Type} [Add K] [Mul K] [Div K] [OfNat K 0] [OfNat K 1] [NatCast K] [Inhabited K]

/-- `DiscreteFourierTransform._call_numpy/_call_pyfftw` on an n-d array: the library applies
the 1-d transform along the axes, last axis first; with `hc` the last axis keeps `n/2+1`
entries.  `roots n = (exp(-2πi/n), exp(2πi/n))`. -/
def dftForwardNd (roots : Nat → Option (K × K)) (fftw plus hc : Bool) (rshape axes : List Nat)
    (x : Array K) : Option (List Nat × Array K) := do
  let last := axes.getLast?
  let steps ← axes.reverse.mapM fun a => do
    let n := rshape.getD a 1
    let (w, winv) ← roots n
    let F : (Nat → K) → Nat → K :=
      if fftw then dftForwardFftw plus w winv n else dftForwardNp plus w winv n
    pure (a, (if hc && some a == last then hcLen n else n), F)
  pure (applyAxes rshape steps x)

/-- `DiscreteFourierTransformInverse._call_numpy/_call_pyfftw`.  `rshape` is the shape of the
real-space side (the operator's range).  With `hc` the complex inverse runs over all axes but
the last, then the complex-to-real transform over the last one, whose output length is the
range's (`irfftn(x, s=…, axes)`; pyfftw: shape of the output array).  A real range without
`hc` receives the real part of the complex result (NumPy: assignment to the real array;
pyfftw: complex temporary, `out[:] = tmp.real`) — applied by the caller through `re`. -/
def dftInverseNd (roots : Nat → Option (K × K)) (conj re : K → K) (fftw plus hc : Bool)
    (rshape axes : List Nat) (x : Array K) : Option (List Nat × Array K) := do
  let last := axes.getLast?
  let fshape := rshape.zipIdx.map fun (n, a) => if hc && some a == last then hcLen n else n
  let order := if hc then axes else axes.reverse
  let steps ← order.mapM fun a => do
    let n := rshape.getD a 1
    let (w, winv) ← roots n
    let F : (Nat → K) → Nat → K :=
      if hc && some a == last then fun g k => re (npIrfft conj winv n g k)
      else if fftw then dftInverseFftw plus w winv n else dftInverseNp plus w winv n
    pure (a, n, F)
  pure (applyAxes fshape steps x)

/-- `DiscreteFourierTransformBase.adjoint` (both plain DFT operators): defined only for
exponent 2 on both sides, otherwise `NotImplementedError`. -/
def dftAdjointStatus (domExp2 ranExp2 : Bool) : Option String :=
  if domExp2 && ranExp2 then none else some "err:NotImplementedError"

/-- One axis of what `DiscreteFourierTransform(sign).adjoint` computes: the code returns
`self.inverse`, i.e. `DiscreteFourierTransformInverse` with the flipped sign (`ifftn` resp.
`fftn / prod`), NOT `prod ·` that (open finding F59 of C05; `C18.dft_true_adjoint`). -/
def dftAdjointAxis (plus : Bool) (w winv : K) (n : Nat) (f : Nat → K) (k : Nat) : K :=
  dftInverseNp (!plus) w winv n f k

/-- One axis of `DiscreteFourierTransformInverse(sign).adjoint` = its `inverse`, the forward
operator with the flipped sign. -/
def dftInvAdjointAxis (plus : Bool) (w winv : K) (n : Nat) (f : Nat → K) (k : Nat) : K :=
  dftForwardNp (!plus) w winv n f k

/-- `op.adjoint(x)` for the two plain DFT operators on n-d arrays (`inv`: the operator is a
`DiscreteFourierTransformInverse`; `plus`: the operator's own sign).  The property `inverse`
does not pass `impl` on, so the returned operator runs on the DEFAULT back-end (`fftw`:
whether that is pyfftw). -/
def dftAdjointNd (roots : Nat → Option (K × K)) (conj re : K → K) (fftw inv plus hc : Bool)
    (rshape axes : List Nat) (x : Array K) : Option (List Nat × Array K) :=
  if inv then dftForwardNd roots fftw (!plus) hc rshape axes x
  else dftInverseNd roots conj re fftw (!plus) hc rshape axes x

/-- `DiscreteFourierTransformBase.__init__` with `range=None`: extent of the default range
`uniform_discr([0]*d, np.maximum(shape - 1, 1), shape, nodes_on_bdry=True)` along an axis of the range
with `n` points (/repo fix 02139e2). -/
def dftDefaultRangeExtent (n : Nat) : Nat := max (n - 1) 1

/-- The extent before the repair, `shape - 1` (kept for the sensitivity statement only). -/
def dftDefaultRangeExtentOld (n : Nat) : Nat := n - 1

/-- Status of the construction of the default range for a given extent rule: an axis of extent 0
(transformed or not) gives cell volume 0, which the space's weighting rejects with `ValueError`.
`fshape`: the range shape.  With a given range nothing is constructed. -/
def dftDefaultRangeStatusOf (extent : Nat → Nat) (fshape : List Nat) (rangeGiven : Bool) :
    Option String :=
  if !rangeGiven && fshape.any (fun n => extent n == 0) then some "err:value" else none

/-- The code as it is. -/
def dftDefaultRangeStatus (fshape : List Nat) (rangeGiven : Bool) : Option String :=
  dftDefaultRangeStatusOf dftDefaultRangeExtent fshape rangeGiven

/-- The code before 02139e2. -/
def dftDefaultRangeStatusOld (fshape : List Nat) (rangeGiven : Bool) : Option String :=
  dftDefaultRangeStatusOf dftDefaultRangeExtentOld fshape rangeGiven

/-- `self.halfcomplex`: forced to `False` on complex domains. -/
def dftHalfcomplexFlag (complexDom hcArg : Bool) : Bool := if complexDom then false else hcArg

/-- `DiscreteFourierTransformBase.__init__`: the range shape in the last transformed axis,
`reciprocal_grid(domain.grid, shift=False, halfcomplex=self.halfcomplex, axes=axes).shape`. -/
def dftRangeLen (n : Nat) (complexDom hcArg : Bool) : Nat :=
  (recipGrid n false (dftHalfcomplexFlag complexDom hcArg)).shape

/-- The range length of the code before the repair: computed from the `halfcomplex`
ARGUMENT instead of `self.halfcomplex` (kept for the sensitivity statement only). -/
def dftRangeLenOld (n : Nat) (hcArg : Bool) : Nat := (recipGrid n false hcArg).shape

/-- Length of the array the transform actually produces on the last axis. -/
def dftOutLen (n : Nat) (complexDom hcArg : Bool) : Nat :=
  if dftHalfcomplexFlag complexDom hcArg then hcLen n else n

/-- `array_in_copied`: real input without `halfcomplex` is cast to complex first. -/
def arrayInCopied (realIn hc : Bool) : Bool := realIn && !hc

/-- `must_copy_array_in = fftw_plan_in is None and planner_destroys`
(`planner_destroys`: every planning effort but `estimate` overwrites BOTH planning arrays). -/
def mustCopy (freshPlan plannerDestroys : Bool) : Bool := freshPlan && plannerDestroys

/-- `pyfftw_call`: is the plan's INPUT array the array that holds the data?
`plan_arr_in = np.empty_like(array_in) if must_copy_array_in else array_in`. -/
def planInIsData (mustCopy : Bool) : Bool := !mustCopy

/-- `pyfftw_call`: is the plan's OUTPUT array an array that holds the data?  Only for an
in-place call (`array_out is array_in`, as in the `FourierTransform` pyfftw branches), and then
`plan_arr_out = plan_arr_in if must_copy_array_in and array_out is array_in else array_out`. -/
def planOutIsData (mustCopy inPlace : Bool) : Bool := inPlace && !mustCopy

/-- The data reaches the transform intact iff a destroying planner runs on no array that
holds it. -/
def dataSurvivesPlanning (freshPlan plannerDestroys inPlace : Bool) : Bool :=
  let mc := mustCopy freshPlan plannerDestroys
  !(freshPlan && plannerDestroys && (planInIsData mc || planOutIsData mc inPlace))

/-- Earlier versions of the two guards, kept for the sensitivity statements only:
`if must_copy_array_in and not array_in_copied` for the input, and the output array always
`array_out` itself. -/
def dataSurvivesPlanningOld (realIn hc freshPlan plannerDestroys inPlace : Bool) : Bool :=
  let mc := mustCopy freshPlan plannerDestroys
  !(freshPlan && plannerDestroys &&
    (!(mc && !arrayInCopied realIn hc) || inPlace))

/-- `pyfftw_call`, reuse of a given (cached) plan: it is used only if its in-place-ness
(`plan.input_array is plan.output_array`) equals that of the call (`array_out is array_in`);
otherwise a new plan is made for the call.  Result: the in-place-ness of the plan that is
EXECUTED.  (`given = none`: no cached plan.) -/
def executedPlanInPlace (given : Option Bool) (callInPlace : Bool) : Bool :=
  match given with
  | some p => if p == callInPlace then p else callInPlace
  | none => callInPlace

/-- Before the repair a given plan was always executed. -/
def executedPlanInPlaceOld (given : Option Bool) (callInPlace : Bool) : Bool :=
  match given with
  | some p => p
  | none => callInPlace

/-- `normalized_axes_tuple(axes, ndim)`: `None` = all axes, an integer = that one axis,
negative entries count from the end; out-of-range or repeated entries are rejected. -/
def normAxes (ndim : Nat) (axes : Option (List Int)) : Option (List Nat) :=
  match axes with
  | none => some (List.range ndim)
  | some l =>
    let r := l.map fun a => if a < 0 then a + (ndim : Int) else a
    if r.all (fun a => 0 ≤ a && a < (ndim : Int)) && r.eraseDups.length == r.length
    then some (r.map Int.toNat) else none

/-- Constructors reject a forward sign `'+'` combined with `halfcomplex` (both operator
families; `fwdPlus` is the sign of the FORWARD transform) and, for `FourierTransform`, a
non-shifted halved axis. -/
def dftCtorStatus (fwdPlus hc : Bool) : Option String :=
  if fwdPlus && hc then some "err:value" else none

def ftCtorStatus (fwdPlus hc lastShift : Bool) : Option String :=
  if fwdPlus && hc then some "err:value"
  else if hc && !lastShift then some "err:value" else none

/-- Does the code hold COMPLEX data after `dft_preprocess_data`?  Real input stays real only
if every axis is shifted (factors `±1`). -/
def preprocComplex (realDom : Bool) (shifts : List Bool) : Bool := !realDom || !shifts.all id

/-- Status of `FourierTransform._call_*` before any arithmetic: the pyfftw branch asserts a
real pre-processed array in the half-complex case. -/
def ftForwardStatus (fftw realDom hc : Bool) (shifts : List Bool) : Option String :=
  if fftw && hc && preprocComplex realDom shifts then some "err:assert" else none

/-- Status of `FourierTransformInverse._call_*`: in the half-complex case the result of the
complex-to-real transform is a REAL array which `dft_preprocess_data` multiplies in place;
with a non-shifted axis the factors are complex and NumPy raises a casting error (both
back-ends).  (The real-range full-complex case works on the complex array and takes the real
part afterwards.) -/
def ftInverseStatus (hc : Bool) (shifts : List Bool) : Option String :=
  if hc && !shifts.all id then some "err:cast" else none

/-- `FourierTransform._call_numpy` / `_call_pyfftw`: pre-process ALL axes, (NumPy's `rfftn`
discards the imaginary part of complex input; the pyfftw branch asserts instead, see
`ftForwardStatus`), transform (`fftn`/`rfftn`/`n·ifftn`, resp. `pyfftw_call(…,
normalise_idft=False)`), post-process all axes. -/
def ftForwardNd (roots : Nat → Option (K × K)) (e : Rat → K) (re : K → K)
    (amp : Nat → Nat → K) (c : Nat → Nat → Rat) (t : Nat → Rat)
    (fftw plus hc : Bool) (rshape axes : List Nat) (shifts : List Bool) (x : Array K) :
    Option (List Nat × Array K) := do
  let pre : List (Nat × Nat × ((Nat → K) → Nat → K)) := (axes.zip shifts).map fun (a, sh) =>
    let n := rshape.getD a 1
    (a, n, fun f k => e (preExp n sh plus k) * f k)
  let (_, x1) := applyAxes rshape pre x
  let x2 := if hc then x1.map re else x1
  let (fshape, y) ← dftForwardNd roots fftw plus hc rshape axes x2
  let post : List (Nat × Nat × ((Nat → K) → Nat → K)) := axes.map fun a =>
    (a, fshape.getD a 1, fun f j => (e (postExp plus (t a) (c a j)) * amp a j) * f j)
  pure (applyAxes fshape post y)

/-- `FourierTransformInverse._call_numpy` / `_call_pyfftw` (`plus` is the sign of the inverse
operator; pyfftw: `pyfftw_call(…, normalise_idft=True)` and `/= prod` for sign `'-'`; a real
range without `halfcomplex` receives the real part of the post-processed complex array). -/
def ftInverseNd (roots : Nat → Option (K × K)) (e : Rat → K) (conj re : K → K)
    (amp : Nat → Nat → K) (c : Nat → Nat → Rat) (t : Nat → Rat)
    (fftw plus hc realRan : Bool) (rshape axes : List Nat) (shifts : List Bool) (x : Array K) :
    Option (List Nat × Array K) := do
  let last := axes.getLast?
  let fshape := rshape.zipIdx.map fun (n, a) => if hc && some a == last then hcLen n else n
  let pre : List (Nat × Nat × ((Nat → K) → Nat → K)) := axes.map fun a =>
    (a, fshape.getD a 1, fun g j => (e (postExp plus (t a) (c a j)) / amp a j) * g j)
  let (_, x1) := applyAxes fshape pre x
  let (_, y) ← dftInverseNd roots conj re fftw plus hc rshape axes x1
  let post : List (Nat × Nat × ((Nat → K) → Nat → K)) := (axes.zip shifts).map fun (a, sh) =>
    let n := rshape.getD a 1
    (a, n, fun f k => e (preExp n sh plus k) * f k)
  let (sh, z) := applyAxes rshape post y
  pure (sh, if realRan then z.map re else z)

/-- The non-half-complex `FourierTransform` as the per-axis composition of the one-axis map
`ftForwardAxis` (the object of `C18.ft_inverse` / `C18.ft_forward_is_fourier_sum`), applied
fibre-wise, last axis first.  The code stages the work differently (all pre-processing, n-d
FFT, all post-processing — `ftForwardNd`); both are executed by the driver and compared with
the real code. -/
def ftForwardSepNd (roots : Nat → Option (K × K)) (e : Rat → K)
    (amp : Nat → Nat → K) (c : Nat → Nat → Rat) (t : Nat → Rat)
    (plus : Bool) (rshape axes : List Nat) (shifts : List Bool) (x : Array K) :
    Option (List Nat × Array K) := do
  let steps ← (axes.zip shifts).reverse.mapM fun (a, sh) => do
    let n := rshape.getD a 1
    let (w, winv) ← roots n
    pure (a, n, ftForwardAxis e (amp a) (c a) (t a) sh plus w winv n)
  pure (applyAxes rshape steps x)

/-- The non-half-complex `FourierTransformInverse` as the per-axis composition of
`ftInverseAxis` (`plus` is the sign of the inverse operator). -/
def ftInverseSepNd (roots : Nat → Option (K × K)) (e : Rat → K)
    (amp : Nat → Nat → K) (c : Nat → Nat → Rat) (t : Nat → Rat)
    (plus : Bool) (rshape axes : List Nat) (shifts : List Bool) (x : Array K) :
    Option (List Nat × Array K) := do
  let steps ← (axes.zip shifts).reverse.mapM fun (a, sh) => do
    let n := rshape.getD a 1
    let (w, winv) ← roots n
    pure (a, n, ftInverseAxis e (amp a) (c a) (t a) sh plus w winv n)
  pure (applyAxes rshape steps x)

end nd

/-! ### Scalars for the driver: exact Gaussian rationals (n ∈ {1,2,4}) and Float pairs -/

instance : NatCast CRat := ⟨fun n => ⟨(n : Rat), 0⟩⟩
instance : Inhabited CRat := ⟨0⟩

/-- Primitive `n`-th root of unity `exp(-2πi/n)` in `ℚ(i)`, which exists only for
`n ∈ {1, 2, 4}`. -/
def exactRoot : Nat → Option CRat
  | 1 => some 1
  | 2 => some ⟨-1, 0⟩
  | 4 => some ⟨0, -1⟩
  | _ => none

structure CF where
  re : Float
  im : Float
  deriving Inhabited

namespace CF
instance : Add CF := ⟨fun x y => ⟨x.re + y.re, x.im + y.im⟩⟩
instance : Sub CF := ⟨fun x y => ⟨x.re - y.re, x.im - y.im⟩⟩
instance : Mul CF := ⟨fun x y => ⟨x.re * y.re - x.im * y.im, x.re * y.im + x.im * y.re⟩⟩
instance : Div CF := ⟨fun x y =>
  let d := y.re * y.re + y.im * y.im
  ⟨(x.re * y.re + x.im * y.im) / d, (x.im * y.re - x.re * y.im) / d⟩⟩
instance : OfNat CF n := ⟨⟨Float.ofNat n, 0⟩⟩
instance : NatCast CF := ⟨fun n => ⟨Float.ofNat n, 0⟩⟩
def conj (x : CF) : CF := ⟨x.re, -x.im⟩
def ofReal (r : Float) : CF := ⟨r, 0⟩
end CF

def ratToFloat (r : Rat) : Float := Float.ofInt r.num / Float.ofNat r.den

def piF : Float := 3.141592653589793

/-- `exp(iπ q)`; exact at the multiples of 1/2 so that `(-1)^k` and `±i` carry no rounding. -/
def ePi (q : Rat) : CF :=
  let r := mod2 q
  if r = 0 then ⟨1, 0⟩ else if r = 1 then ⟨-1, 0⟩
  else if r = 1/2 then ⟨0, 1⟩ else if r = 3/2 then ⟨0, -1⟩
  else let a := piF * ratToFloat r; ⟨Float.cos a, Float.sin a⟩

/-- `numpy.sinc(f) = sin(π f)/(π f)`. -/
def sincF (f : Rat) : Float :=
  if f = 0 then 1 else let a := piF * ratToFloat f; Float.sin a / a

/-- `_interp_kernel_ft(freqs, interp) * stride`: `sinc^p / sqrt(2π) · s`. -/
def kernelAmp (p : Nat) (s : Rat) (f : Rat) : Float :=
  let k := sincF f
  (if p = 2 then k * k else k) / Float.sqrt (2 * piF) * ratToFloat s

/-- Fixed-point wire form of a Float: nearest multiple of `2^-40` as an exact rational. -/
def showFloat (x : Float) : String :=
  if x.isNaN || x.isInf then "nan"
  else showRat (mkRat (Float.round (x * 1099511627776.0)).toInt64.toInt 1099511627776)

def CF.str (z : CF) : String := s!"{showFloat z.re}:{showFloat z.im}"

end OdlModel.Fourier
