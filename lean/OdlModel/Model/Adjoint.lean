/-
Model of the adjoint rules of ODL (C05): `odl/operator/operator.py` (expression classes),
`default_ops.py`, `tensor_ops.py` (leaf operators) and `pspace_ops.py` (block operators).

Elements.  Every ODL element is viewed as a two-level family `x j i` (`j` = component of a
product space, `i` = flat C-order index inside the component); tensor / discretized spaces
and the scalar fields have the single component `j = 0`.  A space is described by its
component sizes, one weight per entry (constant / array / cell-volume / product-space
weights all fold into `W`) and the flag `real` (real spaces hold conjugation-invariant
entries only).  The scalar type `K` is arbitrary (core notation classes only) with an
explicit conjugation `cj` and imaginary unit `I`; the driver evaluates at Gaussian rationals.

`adj` returns `none` where the Python property raises (non-linear operand).  The model follows
the code as it exists (after the `fix:` commits for MatrixOperator, Sampling, Flattening,
RealPart/ImagPart and the field-domain MultiplyOperator): e.g. `MatrixOperator.adjoint` is
`W_dom⁻¹ Mᴴ W_ran`, and `RealPart(C).adjoint` is `ComplexEmbedding(C.real_space)`.
-/
namespace OdlModel.Adjoint

abbrev El (K : Type) := Nat → Nat → K

structure Space (K : Type) where
  m : Nat                 -- number of components
  n : Nat → Nat           -- size of component j
  W : Nat → Nat → K       -- weight of entry (j, i)
  real : Bool             -- real space

/-- Component `c` of a product space, as a single-component space. -/
def Space.comp {K} (S : Space K) (c : Nat) : Space K :=
  ⟨1, fun _ => S.n c, fun _ i => S.W c i, S.real⟩

section
variable {K : Type} [Add K] [Sub K] [Mul K] [Neg K] [Div K] [OfNat K 0] [OfNat K 1] [OfNat K 2]
  [DecidableEq K]

/-- `Σ_{i<n} f i` -/
def sumTo : Nat → (Nat → K) → K
  | 0, _ => 0
  | n + 1, f => sumTo n f + f n

/-- The space's own sesquilinear pairing `Σ_j Σ_i W j i * x j i * conj (y j i)`. -/
def dot (cj : K → K) (S : Space K) (x y : El K) : K :=
  sumTo S.m fun j => sumTo (S.n j) fun i => S.W j i * x j i * cj (y j i)

def reK (cj : K → K) (a : K) : K := (a + cj a) / 2
def imK (cj : K → K) (I : K) (a : K) : K := (cj a - a) * I / 2

/-- Leaf operators (classes of default_ops.py / tensor_ops.py / pspace_ops.py) plus
unmodelled operators (`opaque`: forward action and the action of the adjoint the code
returns) and non-linear operators. -/
inductive Leaf (K : Type)
  | opaque (reOnly : Bool) (dom ran : Space K) (f g : El K → El K)
  | nonlin (dom ran : Space K) (f : El K → El K)
  | scaling (S : Space K) (s : K)                      -- ScalingOperator / IdentityOperator
  | zero (dom ran : Space K)                           -- ZeroOperator
  | multiply (dom ran : Space K) (v : El K)            -- MultiplyOperator(v) on a space
  | multField (S F : Space K) (v : El K)               -- MultiplyOperator(v, domain=field): F → S
  | inner (S F : Space K) (v : El K)                   -- InnerProductOperator(v): S → F
  | realPart (S R : Space K)                           -- RealPart(S): S → R = S.real_space
  | imagPart (S R : Space K)
  | cembed (S C : Space K) (s : K)                     -- ComplexEmbedding(S, s): S → C
  | matrix (dom ran : Space K) (M : Nat → Nat → K)     -- MatrixOperator, 1-d, M i k
  | pwInner (V X : Space K) (G : El K) (w v : Nat → K) -- PointwiseInner / PointwiseSum: V = X^d → X; v = weights of V
  | pwInnerAdj (X V : Space K) (G : El K) (w v : Nat → K)  -- v = weights of the range V
  | sampling (S R : Space K) (idx : Nat → Nat) (integrate : Bool) (cv : K)
  | wsum (R S : Space K) (idx : Nat → Nat) (dirac : Bool) (cv : K)
  | flatten (S R : Space K)                            -- FlatteningOperator, order 'C'
  | flattenInv (R S : Space K)
  | proj (P Q : Space K) (idx : Nat → Nat)             -- ComponentProjection
  | projAdj (Q P : Space K) (idx : Nat → Nat)          -- ComponentProjectionAdjoint

inductive BKind | pso | bcast | red | diag
  deriving DecidableEq, Repr

def BKind.adj : BKind → BKind
  | .pso => .pso | .bcast => .red | .red => .bcast | .diag => .diag

/-- Expression trees.  `pnil/pcons` encode the COO list of a `ProductSpaceOperator`
(`BroadcastOperator`, `ReductionOperator`, `DiagonalOperator` are the same with a tag). -/
inductive Impl (K : Type)
  | leaf (l : Leaf K)
  | sum (a b : Impl K)                  -- OperatorSum(a, b)
  | comp (a b : Impl K)                 -- OperatorComp(a, b) = a ∘ b
  | lscal (a : Impl K) (s : K)          -- OperatorLeftScalarMult(a, s) = s * a(x)
  | rscal (a : Impl K) (s : K)          -- OperatorRightScalarMult(a, s) = a(s * x)
  | lvec (a : Impl K) (v : El K)        -- OperatorLeftVectorMult(a, v) = v * a(x)
  | rvec (a : Impl K) (v : El K)        -- OperatorRightVectorMult(a, v) = a(v * x)
  | flvec (f : Impl K) (V F : Space K) (v : El K)  -- FunctionalLeftVectorMult(f, v) = v * f(x)
  | pnil (k : BKind) (dom ran : Space K)
  | pcons (r c : Nat) (a : Impl K) (rest : Impl K)

def Leaf.dom : Leaf K → Space K
  | .opaque _ d _ _ _ => d | .nonlin d _ _ => d | .scaling S _ => S | .zero d _ => d
  | .multiply d _ _ => d | .multField _ F _ => F | .inner S _ _ => S | .realPart S _ => S
  | .imagPart S _ => S | .cembed S _ _ => S | .matrix d _ _ => d | .pwInner V _ _ _ _ => V
  | .pwInnerAdj X _ _ _ _ => X | .sampling S _ _ _ _ => S | .wsum R _ _ _ _ => R
  | .flatten S _ => S | .flattenInv R _ => R | .proj P _ _ => P | .projAdj Q _ _ => Q

def Leaf.ran : Leaf K → Space K
  | .opaque _ _ r _ _ => r | .nonlin _ r _ => r | .scaling S _ => S | .zero _ r => r
  | .multiply _ r _ => r | .multField S _ _ => S | .inner _ F _ => F | .realPart _ R => R
  | .imagPart _ R => R | .cembed _ C _ => C | .matrix _ r _ => r | .pwInner _ X _ _ _ => X
  | .pwInnerAdj _ V _ _ _ => V | .sampling _ R _ _ _ => R | .wsum _ S _ _ _ => S
  | .flatten _ R => R | .flattenInv _ S => S | .proj _ Q _ => Q | .projAdj _ P _ => P

/-- `out = zero; out[index] = x` of ComponentProjectionAdjoint: a later index wins. -/
def assignTo (idx : Nat → Nat) (y : El K) (j i : Nat) : Nat → K
  | 0 => 0
  | k + 1 => if idx k = j then y k i else assignTo idx y j i k

def Leaf.run (cj : K → K) (I : K) : Leaf K → El K → El K
  | .opaque _ _ _ f _ => f
  | .nonlin _ _ f => f
  | .scaling _ s => fun x j i => s * x j i
  | .zero _ _ => fun _ _ _ => 0
  | .multiply _ _ v => fun x j i => x j i * v j i
  | .multField _ _ v => fun x j i => x 0 0 * v j i
  | .inner S _ v => fun x _ _ => dot cj S x v
  | .realPart _ _ => fun x j i => reK cj (x j i)
  | .imagPart _ _ => fun x j i => imK cj I (x j i)
  | .cembed S _ s => fun x j i =>
      if S.real then reK cj s * x j i + I * (imK cj I s * x j i) else s * x j i
  | .matrix d _ M => fun x _ i => sumTo (d.n 0) fun k => M i k * x 0 k
  | .pwInner V _ G w _ => fun x _ i =>
      sumTo V.m fun j => w j * (x j i * (if V.real then G j i else cj (G j i)))
  | .pwInnerAdj _ _ G w v => fun h j i =>
      if v j = w j then G j i * h 0 i else G j i * h 0 i * (w j / v j)
  | .sampling _ _ idx integrate cv => fun x _ k =>
      x 0 (idx k) * (if integrate then cv else 1)
  | .wsum R _ idx dirac cv => fun y _ i =>
      (sumTo (R.n 0) fun k => if idx k = i then y 0 k else 0) / (if dirac then cv else 1)
  | .flatten _ _ => fun x _ i => x 0 i
  | .flattenInv _ _ => fun y _ i => y 0 i
  | .proj _ _ idx => fun x j i => x (idx j) i
  | .projAdj Q _ idx => fun y j i => assignTo idx y j i Q.m

def Impl.isBlock : Impl K → Bool
  | .pnil _ _ _ => true
  | .pcons _ _ _ _ => true
  | _ => false

def Impl.dom : Impl K → Space K
  | .leaf l => l.dom
  | .sum a _ => a.dom
  | .comp _ b => b.dom
  | .lscal a _ => a.dom
  | .rscal a _ => a.dom
  | .lvec a _ => a.dom
  | .rvec a _ => a.dom
  | .flvec f _ _ _ => f.dom
  | .pnil _ d _ => d
  | .pcons _ _ _ rest => rest.dom

def Impl.ran : Impl K → Space K
  | .leaf l => l.ran
  | .sum a _ => a.ran
  | .comp a _ => a.ran
  | .lscal a _ => a.ran
  | .rscal a _ => a.ran
  | .lvec a _ => a.ran
  | .rvec a _ => a.ran
  | .flvec _ V _ _ => V
  | .pnil _ _ r => r
  | .pcons _ _ _ rest => rest.ran

def Impl.run (cj : K → K) (I : K) : Impl K → El K → El K
  | .leaf l => l.run cj I
  | .sum a b => fun x j i => a.run cj I x j i + b.run cj I x j i
  | .comp a b => fun x => a.run cj I (b.run cj I x)
  | .lscal a s => fun x j i => s * a.run cj I x j i
  | .rscal a s => fun x => a.run cj I (fun j i => s * x j i)
  | .lvec a v => fun x j i => a.run cj I x j i * v j i
  | .rvec a v => fun x => a.run cj I (fun j i => x j i * v j i)
  | .flvec f _ _ v => fun x j i => v j i * f.run cj I x 0 0
  | .pnil _ _ _ => fun _ _ _ => 0
  | .pcons r c a rest => fun x j i =>
      if j = r then rest.run cj I x j i + a.run cj I (fun _ i' => x c i') 0 i
      else rest.run cj I x j i

/-- Leaf adjoints exactly as coded. -/
def Leaf.adj (cj : K → K) (I : K) : Leaf K → Option (Impl K)
  | .opaque re d r f g => some (.leaf (.opaque re r d g f))
  | .nonlin _ _ _ => none
  -- ScalingOperator.adjoint: `self` if the scalar is real, else the conjugated scalar
  | .scaling S s => some (.leaf (if imK cj I s = 0 then .scaling S s else .scaling S (cj s)))
  | .zero d r => some (.leaf (.zero r d))
  -- MultiplyOperator.adjoint: conj only if the domain is complex
  | .multiply d r v =>
      some (.leaf (if d.real then .multiply r d v else .multiply r d (fun j i => cj (v j i))))
  -- field domain (RealNumbers or ComplexNumbers): InnerProductOperator(v)
  | .multField S F v => some (.leaf (.inner S F v))
  | .inner S F v => some (.leaf (.multField S F v))
  -- complex S: ComplexEmbedding(self.range, 1) resp. (self.range, 1j), i.e. R → S
  | .realPart S R => some (.leaf (if S.real then .realPart S R else .cembed R S 1))
  | .imagPart S R => some (.leaf (if S.real then .zero S S else .cembed R S I))
  | .cembed S C s =>
      if S.real then
        if reK cj s = s then some (.lscal (.leaf (.realPart C S)) (reK cj s))
        else if I * imK cj I s = s then some (.lscal (.leaf (.imagPart C S)) (imK cj I s))
        else some (.sum (.lscal (.leaf (.realPart C S)) (reK cj s))
                        (.lscal (.leaf (.imagPart C S)) (imK cj I s)))
      else some (.leaf (.cembed C C (cj s)))
  -- MatrixOperator.adjoint: W_dom⁻¹ Mᴴ W_ran (the code multiplies by the scalar ratio for two
  -- constant weightings and by the weight arrays otherwise: the same matrix)
  | .matrix d r M => some (.leaf (.matrix r d fun i k => cj (M k i) * r.W 0 k / d.W 0 i))
  | .pwInner V X G w v => some (.leaf (.pwInnerAdj X V G w v))
  | .pwInnerAdj X V G w v => some (.leaf (.pwInner V X G w v))
  -- Sampling ↔ WeightedSumSampling, corrected by the ratio cell_volume / weighting of the
  -- discretized space (the code returns the bare operator when the ratio is 1, a scalar
  -- multiple for a constant and a vector multiple for an array weighting: same action)
  | .sampling S R idx integrate cv =>
      some (.lvec (.leaf (.wsum R S idx (!integrate) cv)) fun j i => cv / S.W j i)
  | .wsum R S idx dirac cv =>
      some (.rvec (.leaf (.sampling S R idx (!dirac) cv)) fun j i => S.W j i / cv)
  -- Flattening: (1 / weighting) * inverse, resp. op * weighting (scalar or vector multiple)
  | .flatten S R => some (.lvec (.leaf (.flattenInv R S)) fun j i => 1 / S.W j i)
  | .flattenInv R S => some (.rvec (.leaf (.flatten S R)) fun j i => S.W j i)
  -- ComponentProjection ↔ ComponentProjectionAdjoint, composed with the component-wise
  -- weight ratios of sub-space and product space (the code omits the factor when all are 1)
  | .proj P Q idx => some (.comp (.leaf (.projAdj Q P idx))
      (.leaf (.multiply Q Q fun k i => Q.W k i / P.W (idx k) i)))
  | .projAdj Q P idx => some (.comp (.leaf (.multiply Q Q fun k i => P.W (idx k) i / Q.W k i))
      (.leaf (.proj P Q idx)))

/-- `.adjoint` of the expression classes exactly as coded (operator.py, pspace_ops.py). -/
def Impl.adj (cj : K → K) (I : K) : Impl K → Option (Impl K)
  | .leaf l => l.adj cj I
  | .sum a b => do
      let a' ← a.adj cj I; let b' ← b.adj cj I
      pure (.sum a' b')
  | .comp a b => do
      let a' ← a.adj cj I; let b' ← b.adj cj I
      pure (.comp b' a')                         -- order reversal
  | .lscal a s => do
      let a' ← a.adj cj I
      -- real conj(s): conj(s) * op.adjoint; else OperatorRightScalarMult(op.adjoint, conj(s)),
      -- i.e. y ↦ A*(conj(s)·y) (A* need not be complex linear)
      pure (if imK cj I (cj s) = 0 then .lscal a' (cj s) else .rscal a' (cj s))
  | .rscal a s => do
      let a' ← a.adj cj I
      pure (.lscal a' (cj s))                    -- OperatorLeftScalarMult(op.adjoint, conj(s))
  | .lvec a v => do
      let a' ← a.adj cj I
      pure (.rvec a' (if a.ran.real then v else fun j i => cj (v j i)))
  | .rvec a v => do
      let a' ← a.adj cj I
      pure (.lvec a' (if a.dom.real then v else fun j i => cj (v j i)))
  | .flvec f V F v => do
      let f' ← f.adj cj I
      pure (.comp f' (.leaf (.inner V F v)))     -- OperatorComp(functional.adjoint, vector.T)
  | .pnil k d r => some (.pnil k.adj r d)
  | .pcons r c a rest => do
      let a' ← a.adj cj I; let rest' ← rest.adj cj I
      pure (.pcons c r a' rest')                 -- COO rows/cols swapped, entries adjointed

/-! ### n-d index arithmetic and the leaves built on it (round 4)

`SamplingOperator` / `WeightedSumSamplingOperator` on n-d spaces index the raveled array with
`np.ravel_multi_index(sampling_points, shape)`; `FlatteningOperator(order='F')` is
`np.ravel(x, order='F')`, i.e. the permutation `cOfF` of the flat C-order view, and its inverse
`np.reshape(y, shape, order='F')` is the permutation `fOfC`; `MatrixOperator(axis=a)` on an n-d
tensor is `np.moveaxis(np.tensordot(M, x, (1, a)), 0, a)`: with `p` = product of the axes
before `a` and `q` = product of the axes after, `out[(u, i, v)] = Σ_k M[i, k] x[(u, k, v)]`. -/

/-- product of a shape -/
def shProd : List Nat → Nat
  | [] => 1
  | n :: sh => n * shProd sh

/-- `np.ravel_multi_index(mi, sh)` (C order). -/
def ravelC : List Nat → List Nat → Nat
  | _ :: sh, i :: mi => i * shProd sh + ravelC sh mi
  | _, _ => 0

/-- flat index of the `k`-th sampling point, given one index array per axis (the normal form
of `_normalize_sampling_points`). -/
def sampIdx (sh : List Nat) (pts : List (List Nat)) (k : Nat) : Nat :=
  ravelC sh (pts.map fun a => a.getD k 0)

/-- flat C-order index of the element that is number `i` in Fortran order. -/
def cOfF : List Nat → Nat → Nat
  | [], _ => 0
  | n :: sh, i => (i % n) * shProd sh + cOfF sh (i / n)

/-- Fortran-order position of the element with flat C-order index `k`. -/
def fOfC : List Nat → Nat → Nat
  | [], _ => 0
  | n :: sh, k => k / shProd sh + n * fOfC sh (k % shProd sh)

/-- `np.ravel(x, order='F')` on the flat C-order view. -/
def flatFRun (sh : List Nat) : El K → El K := fun x _ i => x 0 (cOfF sh i)

/-- `np.reshape(y, shape, order='F')` on the flat C-order view. -/
def flatFInvRun (sh : List Nat) : El K → El K := fun y _ k => y 0 (fOfC sh k)

/-- FlatteningOperator(S, order='F') with the adjoint as coded: `(1 / weighting) * inverse`
(scalar or vector multiple).  An `opaque` leaf whose two actions are executable model
functions (its contract is PROVED: `C05.flatten_F_adj`). -/
def Leaf.flattenF (S R : Space K) (sh : List Nat) : Leaf K :=
  .opaque false S R (flatFRun sh) (fun y j k => flatFInvRun sh y j k * (1 / S.W j k))

/-- FlatteningOperator(S, order='F').inverse with the adjoint as coded: `op * weighting`. -/
def Leaf.flattenFInv (R S : Space K) (sh : List Nat) : Leaf K :=
  .opaque false R S (flatFInvRun sh) (fun x => flatFRun sh (fun j k => x j k * S.W j k))

/-- MatrixOperator(M, axis) on a tensor of shape `(p, n, q)` (flat C order) → `(p, m, q)`. -/
def matAxisRun (n m q : Nat) (M : Nat → Nat → K) : El K → El K :=
  fun x _ o => sumTo n fun k => M ((o / q) % m) k * x 0 ((o / (m * q) * n + k) * q + o % q)

/-- The matrix of `MatrixOperator.adjoint` on n-d tensors as coded: the conjugate transpose,
times `ran_const / dom_const` when both weightings are constants and differ; the bare
conjugate transpose for every other weighting (`cw = none`: array weighting of an n-d space,
custom inner product — open finding F7). -/
def matAxisAdjM (cj : K → K) (cw : Option (K × K)) (M : Nat → Nat → K) : Nat → Nat → K :=
  fun k i => match cw with
    | some (wd, wr) => if wd = wr then cj (M i k) else cj (M i k) * (wr / wd)
    | none => cj (M i k)

/-- MatrixOperator(M, domain=d, range=r, axis) on n-d tensors with its coded adjoint
`MatrixOperator(adj_matrix, domain=r, range=d, axis)`. -/
def Leaf.matrixAxis (cj : K → K) (d r : Space K) (n m q : Nat) (cw : Option (K × K))
    (M : Nat → Nat → K) : Leaf K :=
  .opaque false d r (matAxisRun n m q M) (matAxisRun m n q (matAxisAdjM cj cw M))

end
end OdlModel.Adjoint
