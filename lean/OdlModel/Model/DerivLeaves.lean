/-
Model of the NORM-TYPE nonlinear leaves of C06 and of their closed-form `derivative` (round 4):

* `NormOperator(rn(n))`            `odl/operator/default_ops.py: NormOperator.derivative`
* `DistOperator(y)`                `odl/operator/default_ops.py: DistOperator.derivative`
* `L2Norm(rn(n))` (functional)     `odl/solvers/functional/functional.py: Functional.derivative`
                                   `= gradient(point).T`, gradient =
                                   `default_functionals.py: LpNorm.gradient / L2Gradient`
* `ComplexModulus(cn(n))`          `default_ops.py: ComplexModulus.derivative` (`C = R²`)
* `PointwiseNorm(rn(n)^m)`, exponent 2, unweighted, `m ≥ 2`
                                   `odl/operator/tensor_ops.py: PointwiseNorm.derivative`

All five compute `sqrt` of a sum of squares (`Leaf.ssq`).  The scalar type is arbitrary (core
notation classes + a `sqrt`, `HasSqrt`): the driver evaluates at `Float` (IEEE double, the same
correctly rounded `+ - * / sqrt` as NumPy, in the same order for the element-wise operations),
the theorems are stated at `ℝ` with `Real.sqrt`.

`Leaf.deriv` follows the code as written: which class RAISES at its non-differentiable point
(`NormOperator`, `DistOperator`: `none`), which returns the zero functional there (`L2Norm`),
which divides by zero (`ComplexModulus`: `0/0`), which leaves the zero components undivided
(`PointwiseNorm`), which difference is divided (`point - vector` over `vector.dist(point)`), and that an element
divided by a SCALAR is `lincomb(1.0 / scalar, element)` (`LinearSpaceElement.__truediv__`: the
reciprocal is rounded first — found by the bit-exact comparison), while element / element and
array / array are true divisions.
Vectors: `cn(n)` is the flat real `[re, im]`, `rn(n)^m` is the flat concatenation of its `m`
components (`x (i * n + k)` = entry `k` of component `i`), as in `Model/Deriv.lean`.
-/
import OdlModel.Model.Deriv
namespace OdlModel.Deriv

/-- The square root of the scalar type (`Float.sqrt` / `Real.sqrt`). -/
class HasSqrt (K : Type) where
  sqrt : K → K

instance : HasSqrt Float := ⟨Float.sqrt⟩

/-- Norm-type leaves. -/
inductive Leaf (K : Type) where
  | norm (n : Nat)                 -- NormOperator(rn(n)) : rn(n) → R
  | dist (n : Nat) (y : Vec K)     -- DistOperator(y), y ∈ rn(n)
  | l2norm (n : Nat)               -- odl.solvers.L2Norm(rn(n))
  | cmod (n : Nat)                 -- ComplexModulus(cn(n)) : cn(n) → rn(n)
  | pwnorm (m n : Nat)             -- PointwiseNorm(ProductSpace(rn(n), m)), exponent 2

/-- The linear operators returned by `derivative`. -/
inductive Lin (K : Type) where
  | inner (n : Nat) (v : Vec K)        -- InnerProductOperator(v)
  | cmodd (n : Nat) (p : Vec K)        -- ComplexModulusDerivative at `p`
  | pwinner (m n : Nat) (g : Vec K)    -- PointwiseInner(rn(n)^m, g)

section
variable {K : Type} [Add K] [Sub K] [Mul K] [Div K] [OfNat K 0] [OfNat K 1] [HasSqrt K]

namespace Leaf

def dom : Leaf K → Nat
  | norm n => n | dist n _ => n | l2norm n => n | cmod n => n + n | pwnorm m n => m * n

def ran : Leaf K → Nat
  | norm _ => 1 | dist _ _ => 1 | l2norm _ => 1 | cmod n => n | pwnorm _ n => n

/-- What the model covers: `PointwiseNorm` with one component takes another code path
(`absolute` instead of `sqrt` of a square) — not modelled. -/
def wf : Leaf K → Bool
  | pwnorm m n => decide (2 ≤ m) && decide (1 ≤ n)
  | _ => true

/-- The sum of squares under the square root, per output entry.
`dist`: `vector.dist(x) = ‖vector - x‖`; `cmod`: `x.real ** 2 + x.imag ** 2`;
`pwnorm`: `out = F_0 * F_0; out += F_i * F_i` in component order. -/
def ssq : Leaf K → Vec K → Vec K
  | norm n, x => fun _ => sumTo n fun j => x j * x j
  | dist n y, x => fun _ => sumTo n fun j => (y j - x j) * (y j - x j)
  | l2norm n, x => fun _ => sumTo n fun j => x j * x j
  | cmod n, x => fun k => x k * x k + x (n + k) * x (n + k)
  | pwnorm m n, x => fun k => sumTo m fun i => x (i * n + k) * x (i * n + k)

/-- `op(x)`. -/
def run (l : Leaf K) (x : Vec K) : Vec K := fun k => HasSqrt.sqrt (l.ssq x k)

end Leaf

/-- `D(d)` for the returned linear operators.
`inner`: `d.inner(v)`; `cmodd`: `out = Re p · Re y; out += Im p · Im y; out /= op(p)`;
`pwinner`: `out = y_0 · g_0; out += y_i · g_i`. -/
def Lin.run : Lin K → Vec K → Vec K
  | .inner n v, d => fun _ => sumTo n fun j => d j * v j
  | .cmodd n p, y => fun k =>
      (p k * y k + p (n + k) * y (n + k)) / HasSqrt.sqrt (p k * p k + p (n + k) * p (n + k))
  | .pwinner m n g, y => fun k => sumTo m fun i => y (i * n + k) * g (i * n + k)

def Lin.dom : Lin K → Nat
  | .inner n _ => n | .cmodd n _ => n + n | .pwinner m n _ => m * n

def Lin.ran : Lin K → Nat
  | .inner _ _ => 1 | .cmodd n _ => n | .pwinner _ n _ => n

/-- The vector the returned operator holds (`InnerProductOperator.vector`,
`PointwiseInner.vecfield`, the point of `ComplexModulusDerivative`), first `dom` entries. -/
def Lin.vec : Lin K → Vec K
  | .inner _ v => v | .cmodd _ p => p | .pwinner _ _ g => g

variable [BEq K]

/-- `op.derivative(x)`; `none` = the code raises `ValueError`. -/
def Leaf.deriv : Leaf K → Vec K → Option (Lin K)
  -- `norm = point.norm(); if norm == 0: raise; InnerProductOperator(point / norm)`
  | .norm n, x =>
      let nrm := (Leaf.norm n : Leaf K).run x 0
      if nrm == 0 then none else some (.inner n fun k => (1 / nrm) * x k)
  -- `diff = point - vector; dist = vector.dist(point); if dist == 0: raise;
  --  InnerProductOperator(diff / dist)`
  | .dist n y, x =>
      let dst := (Leaf.dist n y).run x 0
      if dst == 0 then none else some (.inner n fun k => (1 / dst) * (x k - y k))
  -- `Functional.derivative = gradient(point).T`; `L2Gradient`: `zero` if `x.norm() == 0`
  -- else `x / norm`  (no raise)
  | .l2norm n, x =>
      let nrm := (Leaf.l2norm n : Leaf K).run x 0
      if nrm == 0 then some (.inner n fun _ => 0) else some (.inner n fun k => (1 / nrm) * x k)
  | .cmod n, x => some (.cmodd n x)
  -- exponent 2: `fac = self(vf)`; every component `g_i = vf_i` (times `|vf_i| ** 0`), divided by
  -- `fac` only where `fac != 0`
  | .pwnorm m n, x =>
      some (.pwinner m n fun t =>
        let fac := (Leaf.pwnorm m n : Leaf K).run x (t % n)
        if fac == 0 then x t else x t / fac)

end
end OdlModel.Deriv
