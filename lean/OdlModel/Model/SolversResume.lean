/-
Solver state machines added for C11 (round 4): the paths whose resumption needs MORE than the
iterate.

  odl/solvers/nonsmooth/primal_dual_hybrid_gradient.py  pdhg with `gamma_primal` / `gamma_dual`
      (accelerated: `tau`, `sigma`, `theta` are loop-carried locals, the proximals are rebuilt
      from the factories `f.proximal`, `g.convex_conj.proximal` in EVERY iteration)
  odl/solvers/nonsmooth/proximal_gradient_solvers.py    proximal_gradient with a CALLABLE `lam`
      (the loop counter `k` of `for k in range(niter)` is state: `Solvers.ProxGradP.step`)

Same conventions as `Model/Solvers.lean`: one `let` per Python statement, operators /
proximal factories / `sqrt` are PARAMETERS.
-/
import OdlModel.Model.Solvers
namespace OdlModel.Solvers

/-! ## PDHG, the loop body as written (constant AND accelerated) -/
section PdhgAcc
variable {K V W : Type}

structure PdhgAccP (K V W : Type) where
  L : V → W
  /-- `L.derivative(x).adjoint` -/
  dAdj : V → W → V
  /-- `f.proximal` (the FACTORY: step ↦ proximal operator) -/
  proxF : K → V → V
  /-- `g.convex_conj.proximal` (factory) -/
  proxGc : K → W → W
  /-- `gamma_primal` / `gamma_dual` (`none`: not given; both given: the code raises before the loop) -/
  gammaPrimal : Option K
  gammaDual : Option K
  /-- `np.sqrt` -/
  sqrt : K → K

structure PdhgAccS (K V W : Type) where
  x : V
  xRelax : V
  y : W
  tau : K
  sigma : K
  theta : K
  xOld : V
  dualTmp : W
  primalTmp : V

variable [OfNat K 1] [OfNat K 2] [Neg K] [Add K] [Mul K] [Div K] [SMul K V] [SMul K W] [Add V] [Add W]

/-- State before the loop: `tau, sigma` from `pdhg_stepsize` (both given: returned as-is), `theta`
the keyword (default 1), `x_relax` / `y` the keywords or `x.copy()` / `L.range.zero()`. -/
def PdhgAccP.init (_P : PdhgAccP K V W) (x0 : V) (xRelax : Option V) (y : Option W) (zeroW : W)
    (tau sigma theta : K) (junkV : V) (junkW : W) : PdhgAccS K V W :=
  ⟨x0, xRelax.getD x0, y.getD zeroW, tau, sigma, theta, junkV, junkW, junkV⟩

/-- The update of `(tau, sigma, theta)` at the end of a loop body ("Acceleration").  It reads
nothing but `(tau, sigma, theta)` themselves. -/
def PdhgAccP.accel (P : PdhgAccP K V W) (t : K × K × K) : K × K × K :=
  let (tau, sigma, theta) := t
  let t1 : K × K × K := match P.gammaPrimal with          -- if gamma_primal is not None:
    | some g =>
      let th := 1 / P.sqrt (1 + 2 * g * tau)              --   theta = float(1 / np.sqrt(1 + 2 * gamma_primal * tau))
      (tau * th, sigma / th, th)                          --   tau *= theta; sigma /= theta
    | none => (tau, sigma, theta)
  match P.gammaDual with                                  -- if gamma_dual is not None:
  | some g =>
    let th := 1 / P.sqrt (1 + 2 * g * t1.2.1)             --   theta = float(1 / np.sqrt(1 + 2 * gamma_dual * sigma))
    (t1.1 / th, t1.2.1 * th, th)                          --   tau /= theta; sigma *= theta
  | none => t1

/-- Loop body of `pdhg` with the proximals taken from the factories at the CURRENT `sigma`, `tau`
(`if not proximal_constant: proximal_dual_sigma = proximal_dual(sigma)`; in the constant case the
code hoists the two factory calls out of the loop — `Solvers.PdhgP.step` — and
`C11.pdhg_acc_constant_refines` shows that this is the same run). -/
def PdhgAccP.step (P : PdhgAccP K V W) (s : PdhgAccS K V W) : PdhgAccS K V W :=
  let xOld := s.x                                        -- x_old.assign(x)
  let dt := P.L s.xRelax                                 -- L(x_relax, out=dual_tmp)
  let dt2 := lincomb 1 s.y s.sigma dt                    -- dual_tmp.lincomb(1, y, sigma, dual_tmp)
  let y' := P.proxGc s.sigma dt2                         -- proximal_dual(sigma)(dual_tmp, out=y)
  let pt := P.dAdj s.x y'                                -- L.derivative(x).adjoint(y, out=primal_tmp)
  let pt2 := lincomb 1 s.x (-s.tau) pt                   -- primal_tmp.lincomb(1, x, -tau, primal_tmp)
  let x' := P.proxF s.tau pt2                            -- proximal_primal(tau)(primal_tmp, out=x)
  let a := P.accel (s.tau, s.sigma, s.theta)             -- Acceleration
  let xr := lincomb (1 + a.2.2) x' (-a.2.2) xOld         -- x_relax.lincomb(1 + theta, x, -theta, x_old)
  ⟨x', xr, y', a.1, a.2.1, a.2.2, xOld, dt2, pt2⟩

end PdhgAcc

/-! ## Conjugate gradient restarted (`conjugate_gradient` called again with the returned `x`) -/
section CgRestart
variable {K V : Type} [OfNat K 0] [OfNat K 1] [Neg K] [Div K] [DecidableEq K] [SMul K V] [Add V]

/-- `conjugate_gradient(op, x, rhs, niter=n)` then `conjugate_gradient(op, x, rhs, niter=m)`: the
second call rebuilds `r`, `p`, `sqnorm_r_old` from the returned `x` (`CgP.init`); its callback log
continues the first one. -/
def CgP.runSplit (P : CgP K V) (x0 junk junk' : V) (n m : Nat) : CgS K V :=
  let a := iter P.step n (P.init x0 junk)
  let b := iter P.step m (P.init a.x junk')
  { b with log := a.log ++ b.log }

variable {W : Type} [SMul K W] [Add W]

/-- The same for `conjugate_gradient_normal`: the second call rebuilds `d`, `p`, `s`,
`sqnorm_s_old` from the returned `x` (`CgnP.init`). -/
def CgnP.runSplit (P : CgnP K V W) (x0 : V) (junk junk' : W) (n m : Nat) : CgnS K V W :=
  let a := iter P.step n (P.init x0 junk)
  let b := iter P.step m (P.init a.x junk')
  { b with log := a.log ++ b.log }

end CgRestart

/-! ## Accelerated proximal gradient called again with the returned `x` -/
section ApgRestart
variable {K V : Type} [OfNat K 1] [OfNat K 2] [OfNat K 4] [Neg K] [Sub K] [Add K] [Mul K] [Div K]
  [SMul K V] [Add V]

/-- `accelerated_proximal_gradient(x, f, g, gamma, n)` then `…(x, f, g, gamma, m)`: the second call
re-initialises `y = x.copy()`, `t = 1` (`ProxGradP.accInit`); the callback log of both calls. -/
def ProxGradP.accRunSplit (P : ProxGradP K V) (sqrt : K → K) (x0 junk junk' : V) (n m : Nat) :
    AccProxGradS K V × List V :=
  let a := runLog (P.accStep sqrt) (·.x) n (P.accInit x0 junk) []
  let b := runLog (P.accStep sqrt) (·.x) m (P.accInit a.1.x junk') []
  (b.1, a.2 ++ b.2)

end ApgRestart

/-! ## Douglas–Rachford primal–dual called again with the returned `x` -/
section DrRestart
variable {K V W : Type} [OfNat K 1] [OfNat K 2] [Neg K] [Div K] [SMul K V] [SMul K W] [Add V] [Add W]

/-- `douglas_rachford_pd(x, …, niter=n)` then `…(x, …, niter=m)`: the dual variables `v` are locals
that start at zero in every call. -/
def DrP.runSplit (P : DrP K V W) (zeroV : V) (zeroW : Nat → W) (x0 : V) (n m : Nat) : DrS V W :=
  let a := P.run zeroV n ⟨x0, zeroW, zeroV, []⟩
  let b := P.run zeroV m ⟨a.x, zeroW, zeroV, []⟩
  { b with log := a.log ++ b.log }

end DrRestart

end OdlModel.Solvers
