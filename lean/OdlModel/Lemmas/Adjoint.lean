/-
Definitions used in the statements of C05 (carriers, the adjoint contract `Pair`,
well-formedness `WT`) and helper lemmas about the weighted pairing.
-/
import OdlModel.Model.Adjoint
import Mathlib.Algebra.BigOperators.Ring.Finset
import Mathlib.Algebra.BigOperators.Group.Finset.Sigma
import Mathlib.Algebra.BigOperators.Field
import Mathlib.Algebra.Field.Basic
import Mathlib.Tactic.Ring
import Mathlib.Tactic.FieldSimp
import Mathlib.Tactic.LinearCombination
import Mathlib.Algebra.BigOperators.Intervals

namespace OdlModel.Adjoint
open Finset

variable {K : Type} [Field K] [DecidableEq K]

/-- Carrier of a space: real spaces hold conjugation-invariant entries only. -/
def mem (cj : K → K) (S : Space K) (x : El K) : Prop :=
  S.real = true → ∀ j i, cj (x j i) = x j i

/-- The contract between an operator action `f : d → r` and the action `g` of the adjoint
the code returns.  `re` says that only the real-part identity is claimed (operators between
a real and a complex space): then `φ` ranges over additive maps invariant under conjugation
(`φ = Re`), otherwise over ALL additive maps (`φ = id` gives the full complex identity). -/
structure Pair (cj : K → K) (re : Prop) (d r : Space K) (f g : El K → El K) : Prop where
  maps : ∀ x, mem cj d x → mem cj r (f x)
  amaps : ∀ y, mem cj r y → mem cj d (g y)
  adj : ∀ φ : K →+ K, (re → ∀ a, φ (cj a) = φ a) → ∀ x y, mem cj d x → mem cj r y →
    φ (dot cj r (f x) y) = φ (dot cj d x (g y))

/-- The scalar field of a space, as a one-entry space. -/
def fieldSpace (real : Bool) : Space K := ⟨1, fun _ => 1, fun _ _ => 1, real⟩

/-- `K = R[i]`-like structure needed by RealPart / ImagPart / ComplexEmbedding. -/
structure CxOK (cj : K → K) (I : K) : Prop where
  II : I * I = -1
  cjI : cj I = -I

def realW (cj : K → K) (S : Space K) : Prop := ∀ j i, cj (S.W j i) = S.W j i

/-- Leaves for which only the real-part identity is claimed. -/
def Leaf.needRe : Leaf K → Prop
  | .opaque re _ _ _ _ => re = true
  | .realPart S _ => S.real = false
  | .imagPart S _ => S.real = false
  | .cembed S _ _ => S.real = true
  | _ => False

/-- The adjoint contract of a leaf, taken as a hypothesis (unmodelled operators and the
leaves whose proof is not part of this development): established by the matrix oracle on
small spaces only. -/
def Leaf.Assumed (cj : K → K) (I : K) (l : Leaf K) : Prop :=
  ∀ t', l.adj cj I = some t' → Pair cj l.needRe l.dom l.ran (l.run cj I) (t'.run cj I)

/-- Conditions under which the coded leaf adjoint is PROVED correct.  What they exclude
(constructible in ODL, NOT covered by the theorems; decided by the matrix oracle only):
* `multiply`: domain ≠ range (MultiplyOperator between two differently weighted spaces:
  recorded open finding F61 — the adjoint ignores the weight ratio);
* `matrix`: only 1-d spaces whose weighting the code can see (`.const` / `.array`, non-zero and
  real) and the same field on both sides (a complex matrix on a real domain has no adjoint:
  the code raises); n-d tensors with `axis`, sparse matrices, array weightings of n-d spaces
  and custom inner products (bare transpose: open finding F7) are outside the model;
* `multField` / `inner` / `realPart` / `imagPart` / `cembed` / `proj`: real weights (every ODL
  weighting is real); `realPart`/`imagPart`/`cembed`: range = `real_space` resp.
  `complex_space` of the domain; `imagPart`/`cembed` need `I² = -1`, `conj I = -I`, `2 ≠ 0`;
* `pwInner(Adj)`: `V` is the power space of `X` with product weights `v ≠ 0`, real weights;
* `sampling` / `wsum` / `flatten(Inv)`: 1-d (flat C-order) view, unweighted `rn(N)` on the flat
  side, non-zero real weights on the other, indices inside the space (F order and n-d index
  arrays are outside the model);
* `proj(Adj)`: distinct indices (a repeated index is outside), non-zero real weights;
* `opaque`: the contract itself is the hypothesis (operators without an executable model). -/
def Leaf.WT (cj : K → K) (I : K) : Leaf K → Prop
  | .opaque re d r f g => Pair cj (re = true) d r f g
  | .nonlin _ _ _ => True
  | .scaling S s => (S.real = true → cj s = s) ∧ (imK cj I s = 0 → cj s = s)
  | .zero _ _ => True
  | .multiply d r v => r = d ∧ mem cj d v
  | .multField S F v => F = fieldSpace S.real ∧ mem cj S v ∧ realW cj S
  | .inner S F v => F = fieldSpace S.real ∧ mem cj S v ∧ realW cj S
  | .realPart S R => R = { S with real := true } ∧ realW cj S ∧ (2 : K) ≠ 0
  | .imagPart S R => R = { S with real := true } ∧ realW cj S ∧ (2 : K) ≠ 0 ∧
      (S.real = false → CxOK cj I)
  | .cembed S C s => C = { S with real := false } ∧
      (S.real = true → realW cj S ∧ (2 : K) ≠ 0 ∧ CxOK cj I)
  | .matrix d r M => d.m = 1 ∧ r.m = 1 ∧ (∀ i, d.W 0 i ≠ 0) ∧ realW cj d ∧ realW cj r ∧
      d.real = r.real ∧ (d.real = true → ∀ i k, cj (M i k) = M i k)
  | .pwInner V X G w v => X.m = 1 ∧ (∀ j i, V.W j i = v j * X.W 0 i) ∧
      (∀ j, j < V.m → V.n j = X.n 0) ∧ (∀ j, j < V.m → v j ≠ 0) ∧ V.real = X.real ∧
      mem cj V G ∧ (∀ j, cj (w j) = w j ∧ cj (v j) = v j)
  | .pwInnerAdj X V G w v => X.m = 1 ∧ (∀ j i, V.W j i = v j * X.W 0 i) ∧
      (∀ j, j < V.m → V.n j = X.n 0) ∧ (∀ j, j < V.m → v j ≠ 0) ∧ V.real = X.real ∧
      mem cj V G ∧ (∀ j, cj (w j) = w j ∧ cj (v j) = v j)
  | .sampling S R idx _ cv => S.m = 1 ∧ R.m = 1 ∧ (∀ i, S.W 0 i ≠ 0) ∧ realW cj S ∧
      (∀ k, R.W 0 k = 1) ∧ cv ≠ 0 ∧ cj cv = cv ∧ (∀ k, k < R.n 0 → idx k < S.n 0) ∧
      R.real = S.real
  | .wsum R S idx _ cv => S.m = 1 ∧ R.m = 1 ∧ (∀ i, S.W 0 i ≠ 0) ∧ realW cj S ∧
      (∀ k, R.W 0 k = 1) ∧ cv ≠ 0 ∧ cj cv = cv ∧ (∀ k, k < R.n 0 → idx k < S.n 0) ∧
      R.real = S.real
  | .flatten S R => S.m = 1 ∧ R.m = 1 ∧ R.n 0 = S.n 0 ∧ (∀ i, S.W 0 i ≠ 0) ∧ realW cj S ∧
      (∀ k, R.W 0 k = 1) ∧ R.real = S.real
  | .flattenInv R S => S.m = 1 ∧ R.m = 1 ∧ R.n 0 = S.n 0 ∧ (∀ i, S.W 0 i ≠ 0) ∧ realW cj S ∧
      (∀ k, R.W 0 k = 1) ∧ R.real = S.real
  | .proj P Q idx => Q.real = P.real ∧ (∀ k, k < Q.m → idx k < P.m ∧ Q.n k = P.n (idx k) ∧
      ∀ i, P.W (idx k) i ≠ 0 ∧ Q.W k i ≠ 0) ∧ realW cj P ∧ realW cj Q ∧
      (∀ k l, k < Q.m → l < Q.m → idx k = idx l → k = l)
  | .projAdj Q P idx => Q.real = P.real ∧ (∀ k, k < Q.m → idx k < P.m ∧ Q.n k = P.n (idx k) ∧
      ∀ i, P.W (idx k) i ≠ 0 ∧ Q.W k i ≠ 0) ∧ realW cj P ∧ realW cj Q ∧
      (∀ k l, k < Q.m → l < Q.m → idx k = idx l → k = l)

def Impl.needRe : Impl K → Prop
  | .leaf l => l.needRe
  | .sum a b => a.needRe ∨ b.needRe
  | .comp a b => a.needRe ∨ b.needRe
  | .lscal a _ => a.needRe
  | .rscal a _ => a.needRe
  | .lvec a _ => a.needRe
  | .rvec a _ => a.needRe
  | .flvec f _ _ _ => f.needRe
  | .pnil _ _ _ => False
  | .pcons _ _ a rest => a.needRe ∨ rest.needRe

/-- Well-formed expression trees.  Each clause is what the ODL constructor of the class checks
(`OperatorSum`: equal domains and ranges; `OperatorComp`: `right.range == left.domain`;
Left/RightScalarMult: `scalar in range.field` resp. `domain.field`; vector multiples: the
vector is an element of the range resp. domain; FunctionalLeftVectorMult: the functional maps
into the field of the vector's space), plus:
* `lscal`: `Im(conj s) = 0 → conj s = s`, a fact about the scalar type (true for `cj = id` and
  for ℂ), needed because the code branches on `complex(conj s).imag == 0`;
* `flvec`: real weights on the vector's space (every ODL weighting is real);
* `pcons`: the block `a` acts between COMPONENTS of the product spaces, i.e. the product spaces
  are UNWEIGHTED (weight 1 per block) — `ProductSpaceOperator` raises for weighted product
  spaces, so block operators on weighted product spaces are outside the theorems;
* the leaf conditions `Leaf.WT`. -/
def Impl.WT (cj : K → K) (I : K) : Impl K → Prop
  | .leaf l => l.WT cj I
  | .sum a b => a.WT cj I ∧ b.WT cj I ∧ b.dom = a.dom ∧ b.ran = a.ran
  | .comp a b => a.WT cj I ∧ b.WT cj I ∧ b.ran = a.dom
  | .lscal a s => a.WT cj I ∧ (a.ran.real = true → cj s = s) ∧
      (imK cj I (cj s) = 0 → cj s = s)
  | .rscal a s => a.WT cj I ∧ (a.dom.real = true → cj s = s)
  | .lvec a v => a.WT cj I ∧ mem cj a.ran v
  | .rvec a v => a.WT cj I ∧ mem cj a.dom v
  | .flvec f V F v => f.WT cj I ∧ f.ran = F ∧ F = fieldSpace V.real ∧ mem cj V v ∧ realW cj V
  | .pnil _ _ _ => True
  | .pcons r c a rest => a.WT cj I ∧ rest.WT cj I ∧ rest.isBlock = true ∧
      r < rest.ran.m ∧ c < rest.dom.m ∧ a.dom = rest.dom.comp c ∧ a.ran = rest.ran.comp r

/-! ### sums -/

theorem sumTo_eq (n : Nat) (f : Nat → K) : sumTo n f = ∑ i ∈ range n, f i := by
  induction n with
  | zero => simp [sumTo]
  | succ n ih => simp [sumTo, ih, sum_range_succ]

theorem dot_eq (cj : K → K) (S : Space K) (x y : El K) :
    dot cj S x y = ∑ j ∈ range S.m, ∑ i ∈ range (S.n j), S.W j i * x j i * cj (y j i) := by
  simp [dot, sumTo_eq]

end OdlModel.Adjoint

namespace OdlModel.Adjoint
open Finset

variable {K : Type} [Field K] [DecidableEq K] (cj : K →+* K)

/-! ### carriers -/

theorem mem_add {S : Space K} {x y : El K} (hx : mem cj S x) (hy : mem cj S y) :
    mem cj S (fun j i => x j i + y j i) := by
  intro h j i; simp [hx h j i, hy h j i]

theorem mem_mul {S : Space K} {x y : El K} (hx : mem cj S x) (hy : mem cj S y) :
    mem cj S (fun j i => x j i * y j i) := by
  intro h j i; simp [hx h j i, hy h j i]

theorem mem_smul {S : Space K} {x : El K} {s : K} (hx : mem cj S x)
    (hs : S.real = true → cj s = s) : mem cj S (fun j i => s * x j i) := by
  intro h j i; simp [hx h j i, hs h]

theorem mem_zero {S : Space K} : mem cj S (fun _ _ => 0) := by
  intro _ j i; simp

theorem mem_conj {S : Space K} {x : El K} (hx : mem cj S x) :
    mem cj S (fun j i => cj (x j i)) := by
  intro h j i; simp [hx h j i]

/-! ### pairing -/

theorem dot_add_left (S : Space K) (x x' y : El K) :
    dot cj S (fun j i => x j i + x' j i) y = dot cj S x y + dot cj S x' y := by
  simp only [dot_eq, ← sum_add_distrib]
  exact sum_congr rfl fun j _ => sum_congr rfl fun i _ => by ring

theorem dot_add_right (S : Space K) (x y y' : El K) :
    dot cj S x (fun j i => y j i + y' j i) = dot cj S x y + dot cj S x y' := by
  simp only [dot_eq, ← sum_add_distrib, map_add]
  exact sum_congr rfl fun j _ => sum_congr rfl fun i _ => by ring

theorem dot_smul_left (S : Space K) (s : K) (x y : El K) :
    dot cj S (fun j i => s * x j i) y = s * dot cj S x y := by
  simp only [dot_eq, mul_sum]
  exact sum_congr rfl fun j _ => sum_congr rfl fun i _ => by ring

theorem dot_smul_right (hcj : ∀ a, cj (cj a) = a) (S : Space K) (s : K) (x y : El K) :
    dot cj S x (fun j i => cj s * y j i) = s * dot cj S x y := by
  simp only [dot_eq, mul_sum, map_mul, hcj]
  exact sum_congr rfl fun j _ => sum_congr rfl fun i _ => by ring

theorem dot_mul_left (hcj : ∀ a, cj (cj a) = a) (S : Space K) (v x y : El K) :
    dot cj S (fun j i => x j i * v j i) y = dot cj S x (fun j i => y j i * cj (v j i)) := by
  simp only [dot_eq, map_mul, hcj]
  exact sum_congr rfl fun j _ => sum_congr rfl fun i _ => by ring

theorem dot_comp_eq (S : Space K) (r : Nat) (x y : El K) :
    dot cj (S.comp r) x y = ∑ i ∈ range (S.n r), S.W r i * x 0 i * cj (y 0 i) := by
  simp [dot_eq, Space.comp]

theorem dot_zero_left (S : Space K) (y : El K) : dot cj S (fun _ _ => 0) y = 0 := by
  simp [dot_eq]

theorem dot_zero_right (S : Space K) (x : El K) : dot cj S x (fun _ _ => 0) = 0 := by
  simp [dot_eq]

/-- adding a vector to the single component `r` -/
theorem dot_embed_left (S : Space K) (r : Nat) (hr : r < S.m) (z : El K) (u : Nat → K) (y : El K) :
    dot cj S (fun j i => if j = r then z j i + u i else z j i) y =
      dot cj S z y + dot cj (S.comp r) (fun _ i => u i) (fun _ i => y r i) := by
  simp only [dot_eq, Space.comp, sum_range_one]
  have : ∀ j ∈ range S.m, (∑ i ∈ range (S.n j), S.W j i * (if j = r then z j i + u i else z j i) *
      cj (y j i)) = (∑ i ∈ range (S.n j), S.W j i * z j i * cj (y j i)) +
      (if j = r then ∑ i ∈ range (S.n r), S.W r i * u i * cj (y r i) else 0) := by
    intro j _
    by_cases h : j = r
    · subst h; simp only [if_true, ← sum_add_distrib]
      exact sum_congr rfl fun i _ => by ring
    · simp [h]
  rw [sum_congr rfl this, sum_add_distrib, sum_ite_eq' (range S.m) r]
  simp [hr]

theorem dot_embed_right (S : Space K) (r : Nat) (hr : r < S.m) (z : El K) (u : Nat → K) (x : El K) :
    dot cj S x (fun j i => if j = r then z j i + u i else z j i) =
      dot cj S x z + dot cj (S.comp r) (fun _ i => x r i) (fun _ i => u i) := by
  simp only [dot_eq, Space.comp, sum_range_one]
  have : ∀ j ∈ range S.m, (∑ i ∈ range (S.n j), S.W j i * x j i *
      cj (if j = r then z j i + u i else z j i)) =
      (∑ i ∈ range (S.n j), S.W j i * x j i * cj (z j i)) +
      (if j = r then ∑ i ∈ range (S.n r), S.W r i * x r i * cj (u i) else 0) := by
    intro j _
    by_cases h : j = r
    · subst h; simp only [if_true, ← sum_add_distrib, map_add]
      exact sum_congr rfl fun i _ => by ring
    · simp [h]
  rw [sum_congr rfl this, sum_add_distrib, sum_ite_eq' (range S.m) r]
  simp [hr]

/-! ### real and imaginary parts -/

theorem cj_reK (hcj : ∀ a, cj (cj a) = a) (a : K) : cj (reK cj a) = reK cj a := by
  simp only [reK, map_div₀, map_add, hcj, map_ofNat, add_comm]

theorem reK_of_real {a : K} (h : cj a = a) (h2 : (2 : K) ≠ 0) : reK cj a = a := by
  simp only [reK, h]; field_simp; ring

theorem imK_of_real (I : K) {a : K} (h : cj a = a) : imK cj I a = 0 := by
  simp [imK, h]

theorem cj_imK (hcj : ∀ a, cj (cj a) = a) {I : K} (hI : cj I = -I) (a : K) :
    cj (imK cj I a) = imK cj I a := by
  simp only [imK, map_div₀, map_mul, map_sub, hcj, hI, map_ofNat]; ring

/-- `φ (Re a) = φ a` for every additive, conjugation-invariant `φ`. -/
theorem phi_re (φ : K →+ K) (hφ : ∀ a, φ (cj a) = φ a) (h2 : (2 : K) ≠ 0) (a : K) :
    φ ((a + cj a) / 2) = φ a := by
  have e : (a + cj a) / 2 = a / 2 + cj (a / 2) := by
    rw [map_div₀, map_ofNat]; ring
  rw [e, map_add, hφ, ← map_add]
  congr 1; field_simp; ring

/-- Core of ComplexEmbedding on a real space: `x ↦ (p + i q) x` (`p = Re s`, `q = Im s`) and
`g y = p·Re y + q·Im y` satisfy the real-part contract. -/
theorem cembed_pair (hcj : ∀ a, cj (cj a) = a) (I : K) (S : Space K) (s : K)
    (hr : S.real = true) (hW : realW cj S) (h2 : (2 : K) ≠ 0) (hcx : CxOK cj I)
    (re : Prop) (hre : re) (g : El K → El K)
    (hg : ∀ y, g y = fun j i => reK cj s * reK cj (y j i) + imK cj I s * imK cj I (y j i)) :
    Pair cj re S { S with real := false }
      (fun x j i => reK cj s * x j i + I * (imK cj I s * x j i)) g := by
  have cp := cj_reK cj hcj s
  have cq := cj_imK cj hcj hcx.cjI s
  refine ⟨fun x _ h => by simp at h, ?_, ?_⟩
  · intro y _ _ j i
    rw [hg]
    simp only [map_add, map_mul, cp, cq, cj_reK cj hcj, cj_imK cj hcj hcx.cjI]
  · intro φ hφ x y hx _
    have hxr : ∀ j i, cj (x j i) = x j i := hx hr
    have e1 : dot cj { S with real := false }
        (fun j i => reK cj s * x j i + I * (imK cj I s * x j i)) y =
        (reK cj s + I * imK cj I s) * dot cj S x y := by
      simp only [dot_eq, mul_sum]
      exact sum_congr rfl fun j _ => sum_congr rfl fun i _ => by ring
    have e2 : dot cj S x (g y) =
        ((reK cj s + I * imK cj I s) * dot cj S x y +
          cj ((reK cj s + I * imK cj I s) * dot cj S x y)) / 2 := by
      rw [hg]
      simp only [dot_eq, map_sum, map_mul, map_add, hcj, hW _ _, hxr _ _, hcx.cjI, cp, cq,
        cj_reK cj hcj, cj_imK cj hcj hcx.cjI, mul_sum, ← sum_add_distrib, sum_div]
      refine sum_congr rfl fun j _ => sum_congr rfl fun i _ => ?_
      simp only [reK, imK]; ring
    rw [e1, e2, phi_re cj φ (hφ hre) h2]

/-! ### component projections -/

omit [DecidableEq K] in
/-- `out = 0; out[index] = x` equals the sum over the (distinct) indices. -/
theorem assignTo_eq_sum (idx : Nat → Nat) (y : El K) (j i : Nat) (m : Nat)
    (hinj : ∀ k l, k < m → l < m → idx k = idx l → k = l) :
    assignTo idx y j i m = ∑ k ∈ range m, if idx k = j then y k i else 0 := by
  induction m with
  | zero => simp [assignTo]
  | succ m ih =>
    rw [assignTo, sum_range_succ, ih (fun k l hk hl => hinj k l (by omega) (by omega))]
    by_cases e : idx m = j
    · simp only [e, if_true]
      have : ∑ k ∈ range m, (if idx k = j then y k i else 0) = 0 := by
        refine sum_eq_zero fun k hk => ?_
        have hk' := mem_range.mp hk
        have : idx k ≠ j := fun h => by
          have := hinj k m (by omega) (by omega) (h.trans e.symm); omega
        simp [this]
      rw [this, zero_add]
    · simp [e]

/-- The pairing identity of ComponentProjection / ComponentProjectionAdjoint. -/
theorem proj_dot (P Q : Space K) (idx : Nat → Nat)
    (hk : ∀ k, k < Q.m → idx k < P.m ∧ Q.n k = P.n (idx k) ∧ ∀ i, Q.W k i = P.W (idx k) i)
    (hinj : ∀ k l, k < Q.m → l < Q.m → idx k = idx l → k = l) (x y : El K) :
    dot cj Q (fun j i => x (idx j) i) y =
      dot cj P x (fun j i => assignTo idx y j i Q.m) := by
  simp only [dot_eq]
  have key : ∀ j ∈ range P.m, ∀ i ∈ range (P.n j),
      P.W j i * x j i * cj (assignTo idx y j i Q.m) =
      ∑ k ∈ range Q.m, if idx k = j then P.W j i * x j i * cj (y k i) else 0 := by
    intro j _ i _
    rw [assignTo_eq_sum idx y j i Q.m hinj, map_sum, mul_sum]
    refine sum_congr rfl fun k _ => ?_
    by_cases e : idx k = j <;> simp [e]
  rw [sum_congr rfl fun j hj => sum_congr rfl fun i hi => key j hj i hi]
  rw [sum_congr rfl fun j _ => sum_comm, sum_comm]
  refine sum_congr rfl fun k hk' => ?_
  obtain ⟨h1, h2, h3⟩ := hk k (mem_range.mp hk')
  have : ∀ j ∈ range P.m, (∑ i ∈ range (P.n j),
      if idx k = j then P.W j i * x j i * cj (y k i) else 0) =
      if idx k = j then ∑ i ∈ range (P.n j), P.W j i * x j i * cj (y k i) else 0 := by
    intro j _; by_cases e : idx k = j <;> simp [e]
  rw [sum_congr rfl this, sum_ite_eq (range P.m) (idx k)]
  simp only [mem_range, h1, if_true, h2, h3]

/-- The same identity with the roles of the two arguments exchanged. -/
theorem proj_dot' (P Q : Space K) (idx : Nat → Nat)
    (hk : ∀ k, k < Q.m → idx k < P.m ∧ Q.n k = P.n (idx k) ∧ ∀ i, Q.W k i = P.W (idx k) i)
    (hinj : ∀ k l, k < Q.m → l < Q.m → idx k = idx l → k = l) (y x : El K) :
    dot cj P (fun j i => assignTo idx y j i Q.m) x =
      dot cj Q y (fun j i => x (idx j) i) := by
  simp only [dot_eq]
  have key : ∀ j ∈ range P.m, ∀ i ∈ range (P.n j),
      P.W j i * assignTo idx y j i Q.m * cj (x j i) =
      ∑ k ∈ range Q.m, if idx k = j then P.W j i * y k i * cj (x j i) else 0 := by
    intro j _ i _
    rw [assignTo_eq_sum idx y j i Q.m hinj, mul_sum, sum_mul]
    refine sum_congr rfl fun k _ => ?_
    by_cases e : idx k = j <;> simp [e]
  rw [sum_congr rfl fun j hj => sum_congr rfl fun i hi => key j hj i hi]
  rw [sum_congr rfl fun j _ => sum_comm, sum_comm]
  refine sum_congr rfl fun k hk' => ?_
  obtain ⟨h1, h2, h3⟩ := hk k (mem_range.mp hk')
  have : ∀ j ∈ range P.m, (∑ i ∈ range (P.n j),
      if idx k = j then P.W j i * y k i * cj (x j i) else 0) =
      if idx k = j then ∑ i ∈ range (P.n j), P.W j i * y k i * cj (x j i) else 0 := by
    intro j _; by_cases e : idx k = j <;> simp [e]
  rw [sum_congr rfl this, sum_ite_eq (range P.m) (idx k)]
  simp only [mem_range, h1, if_true, h2, h3]

end OdlModel.Adjoint

/-! ### n-d index arithmetic (round 4): ravel_multi_index, Fortran-order permutation -/

namespace OdlModel.Adjoint
open Finset

theorem shProd_pos_of_lt {sh : List Nat} {i : Nat} (h : i < shProd sh) : 0 < shProd sh := by omega

theorem ravelC_lt : ∀ (sh mi : List Nat), List.Forall₂ (· < ·) mi sh → ravelC sh mi < shProd sh
  | [], [], _ => by simp [ravelC, shProd]
  | n :: sh, i :: mi, h => by
    cases h with
    | cons h1 h2 =>
      have ih := ravelC_lt sh mi h2
      simp only [ravelC, shProd]
      calc i * shProd sh + ravelC sh mi < i * shProd sh + shProd sh := by omega
        _ = (i + 1) * shProd sh := by ring
        _ ≤ n * shProd sh := Nat.mul_le_mul_right _ h1
  | [], _ :: _, h => by cases h
  | _ :: _, [], h => by cases h

theorem cOfF_lt : ∀ (sh : List Nat) (i : Nat), i < shProd sh → cOfF sh i < shProd sh
  | [], i, h => by simp [cOfF, shProd]
  | n :: sh, i, h => by
    simp only [shProd] at h
    have hn : 0 < n := Nat.pos_of_ne_zero (by rintro rfl; simp at h)
    have h1 : i / n < shProd sh := Nat.div_lt_of_lt_mul h
    have ih := cOfF_lt sh (i / n) h1
    have h2 : i % n < n := Nat.mod_lt _ hn
    simp only [cOfF, shProd]
    calc i % n * shProd sh + cOfF sh (i / n) < i % n * shProd sh + shProd sh := by omega
      _ = (i % n + 1) * shProd sh := by ring
      _ ≤ n * shProd sh := Nat.mul_le_mul_right _ h2

theorem fOfC_lt : ∀ (sh : List Nat) (k : Nat), k < shProd sh → fOfC sh k < shProd sh
  | [], k, h => by simp [fOfC, shProd]
  | n :: sh, k, h => by
    simp only [shProd] at h
    have hP : 0 < shProd sh := Nat.pos_of_ne_zero (by intro e; rw [e] at h; simp at h)
    have h1 : k / shProd sh < n := Nat.div_lt_of_lt_mul (by rwa [Nat.mul_comm])
    have ih := fOfC_lt sh (k % shProd sh) (Nat.mod_lt _ hP)
    simp only [fOfC, shProd]
    calc k / shProd sh + n * fOfC sh (k % shProd sh)
        < n + n * fOfC sh (k % shProd sh) := by omega
      _ = n * (fOfC sh (k % shProd sh) + 1) := by ring
      _ ≤ n * shProd sh := Nat.mul_le_mul_left _ ih

theorem fOfC_cOfF : ∀ (sh : List Nat) (i : Nat), i < shProd sh → fOfC sh (cOfF sh i) = i
  | [], i, h => by simp [shProd] at h; simp [fOfC, h]
  | n :: sh, i, h => by
    simp only [shProd] at h
    have hn : 0 < n := Nat.pos_of_ne_zero (by rintro rfl; simp at h)
    have h1 : i / n < shProd sh := Nat.div_lt_of_lt_mul h
    have hc := cOfF_lt sh (i / n) h1
    have ih := fOfC_cOfF sh (i / n) h1
    simp only [cOfF, fOfC]
    have e1 : (i % n * shProd sh + cOfF sh (i / n)) / shProd sh = i % n := by
      rw [Nat.mul_comm, Nat.mul_add_div (by omega), Nat.div_eq_of_lt hc]; simp
    have e2 : (i % n * shProd sh + cOfF sh (i / n)) % shProd sh = cOfF sh (i / n) := by
      rw [Nat.mul_comm, Nat.mul_add_mod, Nat.mod_eq_of_lt hc]
    rw [e1, e2, ih]
    exact Nat.mod_add_div i n

theorem cOfF_fOfC : ∀ (sh : List Nat) (k : Nat), k < shProd sh → cOfF sh (fOfC sh k) = k
  | [], k, h => by simp [shProd] at h; simp [cOfF, h]
  | n :: sh, k, h => by
    simp only [shProd] at h
    have hP : 0 < shProd sh := Nat.pos_of_ne_zero (by intro e; rw [e] at h; simp at h)
    have hn : 0 < n := Nat.pos_of_ne_zero (by rintro rfl; simp at h)
    have h1 : k / shProd sh < n := Nat.div_lt_of_lt_mul (by rwa [Nat.mul_comm])
    have ih := cOfF_fOfC sh (k % shProd sh) (Nat.mod_lt _ hP)
    simp only [cOfF, fOfC]
    have e1 : (k / shProd sh + n * fOfC sh (k % shProd sh)) % n = k / shProd sh := by
      rw [Nat.add_mul_mod_self_left, Nat.mod_eq_of_lt h1]
    have e2 : (k / shProd sh + n * fOfC sh (k % shProd sh)) / n = fOfC sh (k % shProd sh) := by
      rw [Nat.add_mul_div_left _ _ hn, Nat.div_eq_of_lt h1]; simp
    rw [e1, e2, ih]
    exact Nat.div_add_mod' k (shProd sh)

variable {K : Type} [Field K]

/-- reindexing a sum over the flat C-order view by Fortran order -/
theorem sum_cOfF (sh : List Nat) (g : Nat → K) :
    ∑ i ∈ range (shProd sh), g (cOfF sh i) = ∑ k ∈ range (shProd sh), g k := by
  refine sum_nbij' (cOfF sh) (fOfC sh) ?_ ?_ ?_ ?_ ?_
  · intro i hi; exact mem_range.mpr (cOfF_lt sh i (mem_range.mp hi))
  · intro k hk; exact mem_range.mpr (fOfC_lt sh k (mem_range.mp hk))
  · intro i hi; exact fOfC_cOfF sh i (mem_range.mp hi)
  · intro k hk; exact cOfF_fOfC sh k (mem_range.mp hk)
  · intro i _; rfl

theorem sum_range_mul (m n : Nat) (f : Nat → K) :
    ∑ o ∈ range (m * n), f o = ∑ a ∈ range m, ∑ b ∈ range n, f (a * n + b) := by
  induction m with
  | zero => simp
  | succ m ih => rw [Nat.succ_mul, sum_range_add, ih, sum_range_succ]

end OdlModel.Adjoint

/-! ### MatrixOperator along one axis of an n-d tensor (round 4) -/

namespace OdlModel.Adjoint
open Finset

theorem idx3 (u i v m q : Nat) (hi : i < m) (hv : v < q) :
    (u * (m * q) + (i * q + v)) / (m * q) = u ∧ ((u * (m * q) + (i * q + v)) / q) % m = i ∧
      (u * (m * q) + (i * q + v)) % q = v := by
  have ht : i * q + v < m * q := by
    calc i * q + v < i * q + q := by omega
      _ = (i + 1) * q := by ring
      _ ≤ m * q := Nat.mul_le_mul_right _ hi
  have e : u * (m * q) + (i * q + v) = v + (u * m + i) * q := by ring
  refine ⟨?_, ?_, ?_⟩
  · rw [Nat.add_comm, Nat.add_mul_div_right _ _ (by omega), Nat.div_eq_of_lt ht]; simp
  · rw [e, Nat.add_mul_div_right _ _ (by omega), Nat.div_eq_of_lt hv, Nat.zero_add,
      Nat.add_comm, Nat.add_mul_mod_self_right, Nat.mod_eq_of_lt hi]
  · rw [e, Nat.add_mul_mod_self_right, Nat.mod_eq_of_lt hv]

variable {K : Type} [Field K]

/-- the action of MatrixOperator(axis) at the output position `(u, i, v)` -/
theorem matAxisRun_at [DecidableEq K] (n m q : Nat) (M : Nat → Nat → K) (x : El K) (j u i v : Nat)
    (hi : i < m) (hv : v < q) :
    matAxisRun n m q M x j (u * (m * q) + (i * q + v)) =
      ∑ k ∈ range n, M i k * x 0 (u * (n * q) + (k * q + v)) := by
  obtain ⟨e1, e2, e3⟩ := idx3 u i v m q hi hv
  simp only [matAxisRun, sumTo_eq, e1, e2, e3]
  refine sum_congr rfl fun k _ => ?_
  congr 2; ring

/-- transposition along one axis of a `(p, ·, q)` tensor: the unweighted pairing identity -/
theorem matAxis_dot [DecidableEq K] (cj : K →+* K) (p n m q : Nat) (M N : Nat → Nat → K)
    (c c' : K) (hN : ∀ k i, c' * cj (N k i) = c * M i k) (x y : El K) :
    ∑ o ∈ range (p * (m * q)), c * matAxisRun n m q M x 0 o * cj (y 0 o) =
      ∑ o ∈ range (p * (n * q)), c' * x 0 o * cj (matAxisRun m n q N y 0 o) := by
  rw [sum_range_mul, sum_range_mul]
  refine sum_congr rfl fun u _ => ?_
  rw [sum_range_mul, sum_range_mul]
  have L : ∀ i ∈ range m, ∀ v ∈ range q,
      c * matAxisRun n m q M x 0 (u * (m * q) + (i * q + v)) * cj (y 0 (u * (m * q) + (i * q + v))) =
      ∑ k ∈ range n, c * (M i k * x 0 (u * (n * q) + (k * q + v))) *
        cj (y 0 (u * (m * q) + (i * q + v))) := by
    intro i hi v hv
    rw [matAxisRun_at n m q M x 0 u i v (mem_range.mp hi) (mem_range.mp hv), mul_sum, sum_mul]
  have Rr : ∀ k ∈ range n, ∀ v ∈ range q,
      c' * x 0 (u * (n * q) + (k * q + v)) * cj (matAxisRun m n q N y 0 (u * (n * q) + (k * q + v))) =
      ∑ i ∈ range m, c * (M i k * x 0 (u * (n * q) + (k * q + v))) *
        cj (y 0 (u * (m * q) + (i * q + v))) := by
    intro k hk v hv
    rw [matAxisRun_at m n q N y 0 u k v (mem_range.mp hk) (mem_range.mp hv), map_sum, mul_sum]
    refine sum_congr rfl fun i _ => ?_
    rw [map_mul]
    linear_combination (x 0 (u * (n * q) + (k * q + v)) * cj (y 0 (u * (m * q) + (i * q + v)))) * hN k i
  rw [sum_congr rfl fun i hi => sum_congr rfl fun v hv => L i hi v hv,
    sum_congr rfl fun k hk => sum_congr rfl fun v hv => Rr k hk v hv]
  calc ∑ i ∈ range m, ∑ v ∈ range q, ∑ k ∈ range n, _
      = ∑ i ∈ range m, ∑ k ∈ range n, ∑ v ∈ range q, _ := sum_congr rfl fun i _ => sum_comm
    _ = ∑ k ∈ range n, ∑ i ∈ range m, ∑ v ∈ range q, _ := sum_comm
    _ = ∑ k ∈ range n, ∑ v ∈ range q, ∑ i ∈ range m, _ := sum_congr rfl fun k _ => sum_comm

end OdlModel.Adjoint
