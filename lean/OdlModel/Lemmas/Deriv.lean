/-
Helper lemmas for C06: dual numbers `R[ε]/(ε²)` over a commutative ring, the embedding of an
expression tree into the dual numbers, and the structural inductions behind the property
theorems of `Props/C06.lean`.
-/
import OdlModel.Model.Deriv
import Mathlib.Tactic.Ring
import Mathlib.Tactic.LinearCombination

namespace OdlModel.Deriv

/-- Dual numbers `a + b ε`, `ε² = 0`. -/
structure Dual (R : Type) where
  re : R
  eps : R

namespace Dual
variable {R : Type} [CommRing R]

instance : Add (Dual R) := ⟨fun a b => ⟨a.re + b.re, a.eps + b.eps⟩⟩
instance : Mul (Dual R) := ⟨fun a b => ⟨a.re * b.re, a.re * b.eps + a.eps * b.re⟩⟩
instance : OfNat (Dual R) 0 := ⟨⟨0, 0⟩⟩
instance : OfNat (Dual R) 1 := ⟨⟨1, 0⟩⟩

/-- Constants. -/
def C (r : R) : Dual R := ⟨r, 0⟩

@[simp] theorem re_add (a b : Dual R) : (a + b).re = a.re + b.re := rfl
@[simp] theorem eps_add (a b : Dual R) : (a + b).eps = a.eps + b.eps := rfl
@[simp] theorem re_mul (a b : Dual R) : (a * b).re = a.re * b.re := rfl
@[simp] theorem eps_mul (a b : Dual R) : (a * b).eps = a.re * b.eps + a.eps * b.re := rfl
@[simp] theorem re_zero : (0 : Dual R).re = 0 := rfl
@[simp] theorem eps_zero : (0 : Dual R).eps = 0 := rfl
@[simp] theorem re_one : (1 : Dual R).re = 1 := rfl
@[simp] theorem eps_one : (1 : Dual R).eps = 0 := rfl
@[simp] theorem re_C (r : R) : (C r).re = r := rfl
@[simp] theorem eps_C (r : R) : (C r).eps = 0 := rfl

end Dual

/-- Change of scalars of a tree. -/
def Impl.map {K K' : Type} (f : K → K') : Impl K → Impl K'
  | .identity n => .identity n
  | .scaling n s => .scaling n (f s)
  | .multiply n v => .multiply n (fun k => f (v k))
  | .matrix m n a => .matrix m n (fun i j => f (a i j))
  | .zero n m => .zero n m
  | .const n m c => .const n m (fun k => f (c k))
  | .power n p => .power n p
  | .inner n v => .inner n (fun k => f (v k))
  | .normsq n => .normsq n
  | .sum l r tr td => .sum (l.map f) (r.map f) tr td
  | .vecsum op v => .vecsum (op.map f) (fun k => f (v k))
  | .comp l r tmp => .comp (l.map f) (r.map f) tmp
  | .lscal op s => .lscal (op.map f) (f s)
  | .rscal op s => .rscal (op.map f) (f s)
  | .lvec op v => .lvec (op.map f) (fun k => f (v k))
  | .rvec op v => .rvec (op.map f) (fun k => f (v k))
  | .pprod l r => .pprod (l.map f) (r.map f)
  | .flvec g m v => .flvec (g.map f) m (fun k => f (v k))
  | .bnil n => .bnil n
  | .bcons op rest => .bcons (op.map f) (rest.map f)
  | .rnil m => .rnil m
  | .rcons op rest => .rcons (op.map f) (rest.map f)
  | .dnil => .dnil
  | .dcons op rest => .dcons (op.map f) (rest.map f)
  | .psnil n m => .psnil n m
  | .pscons ro co op rest => .pscons ro co (op.map f) (rest.map f)
  | .cmodsq n => .cmodsq n
  | .cmodsqd n p => .cmodsqd n (fun k => f (p k))
  | .realpart n => .realpart n
  | .imagpart n => .imagpart n
  | .cembed n a b => .cembed n (f a) (f b)
  | .clscal n op a b nb => .clscal n (op.map f) (f a) (f b) (f nb)
  | .crscal n op a b nb => .crscal n (op.map f) (f a) (f b) (f nb)

section basics
variable {K K' : Type}

@[simp] theorem Impl.dom_map (f : K → K') (i : Impl K) : (i.map f).dom = i.dom := by
  induction i <;> simp_all [Impl.map, Impl.dom]

@[simp] theorem Impl.ran_map (f : K → K') (i : Impl K) : (i.map f).ran = i.ran := by
  induction i <;> simp_all [Impl.map, Impl.ran]

end basics

section dual
variable {R : Type} [CommRing R]
open Dual

theorem natK_re (p : Nat) : (natK p : Dual R).re = natK p := by
  induction p with
  | zero => rfl
  | succ p ih => simp [natK, ih]

theorem natK_eps (p : Nat) : (natK p : Dual R).eps = 0 := by
  induction p with
  | zero => rfl
  | succ p ih => simp [natK, ih]

theorem cmulV_re (n : Nat) (a b nb : R) (X : Nat → Dual R) (k : Nat) :
    (cmulV n (C a) (C b) (C nb) X k).re = cmulV n a b nb (fun k => (X k).re) k := by
  simp only [cmulV]; split <;> simp

theorem cmulV_eps (n : Nat) (a b nb : R) (X : Nat → Dual R) (k : Nat) :
    (cmulV n (C a) (C b) (C nb) X k).eps = cmulV n a b nb (fun k => (X k).eps) k := by
  simp only [cmulV]; split <;> simp

theorem cmulV_lin (n : Nat) (a b nb c : R) (x y : Nat → R) :
    cmulV n a b nb (fun k => c * x k + y k) = fun k => c * cmulV n a b nb x k + cmulV n a b nb y k := by
  funext k; simp only [cmulV]; split <;> ring

theorem pw_re (X : Dual R) (p : Nat) : (pw X p).re = pw X.re p := by
  induction p with
  | zero => rfl
  | succ p ih => simp [pw, ih]

theorem pw_succ (a : R) (p : Nat) : pw a (p + 1) = pw a p * a := rfl

theorem pw_eps (X : Dual R) (p : Nat) :
    (pw X p).eps = natK p * pw X.re (p - 1) * X.eps := by
  induction p with
  | zero => simp [pw, natK]
  | succ p ih =>
    cases p with
    | zero => simp [pw, natK]
    | succ q =>
      have h1 : (pw X (q + 1 + 1)).eps
          = (pw X (q + 1)).re * X.eps + (pw X (q + 1)).eps * X.re := rfl
      rw [h1, ih, pw_re]
      simp only [Nat.add_sub_cancel, pw_succ]
      show _ = (natK (q + 1) + 1) * _ * _
      ring

theorem sumTo_re (n : Nat) (F : Nat → Dual R) :
    (sumTo n F).re = sumTo n (fun j => (F j).re) := by
  induction n with
  | zero => rfl
  | succ n ih => simp [sumTo, ih]

theorem sumTo_eps (n : Nat) (F : Nat → Dual R) :
    (sumTo n F).eps = sumTo n (fun j => (F j).eps) := by
  induction n with
  | zero => rfl
  | succ n ih => simp [sumTo, ih]

theorem sumTo_add (n : Nat) (f g : Nat → R) :
    sumTo n (fun j => f j + g j) = sumTo n f + sumTo n g := by
  induction n with
  | zero => simp [sumTo]
  | succ n ih => simp only [sumTo, ih]; ring

theorem sumTo_mul_left (n : Nat) (a : R) (f : Nat → R) :
    sumTo n (fun j => a * f j) = a * sumTo n f := by
  induction n with
  | zero => simp [sumTo]
  | succ n ih => simp only [sumTo, ih]; ring

theorem sumTo_zero (n : Nat) : sumTo n (fun _ => (0 : R)) = 0 := by
  induction n with
  | zero => rfl
  | succ n ih => simp [sumTo, ih]

theorem sumTo_congr (n : Nat) (f g : Nat → R) (h : ∀ j, f j = g j) : sumTo n f = sumTo n g := by
  have : f = g := funext h
  rw [this]

/-- The real part of the dual evaluation is the evaluation. -/
theorem run_map_re (i : Impl R) : ∀ (X : Vec (Dual R)) (k : Nat),
    ((i.map C).run X k).re = i.run (fun k => (X k).re) k := by
  induction i with
  | identity n => intro X k; rfl
  | scaling n s => intro X k; simp [Impl.map, Impl.run]
  | multiply n v => intro X k; simp [Impl.map, Impl.run]
  | matrix m n a => intro X k; simp [Impl.map, Impl.run, sumTo_re]
  | zero n m => intro X k; simp [Impl.map, Impl.run]
  | const n m c => intro X k; simp only [Impl.map, Impl.run]; split <;> simp
  | power n p => intro X k; simp [Impl.map, Impl.run, pw_re]
  | inner n v => intro X k; simp [Impl.map, Impl.run, sumTo_re]
  | normsq n => intro X k; simp [Impl.map, Impl.run, sumTo_re]
  | sum l r tr td ihl ihr => intro X k; simp [Impl.map, Impl.run, ihl, ihr]
  | vecsum op v ih => intro X k; simp [Impl.map, Impl.run, ih]
  | comp l r tmp ihl ihr =>
    intro X k
    simp only [Impl.map, Impl.run]
    rw [ihl]
    congr 1
    funext j
    exact ihr X j
  | lscal op s ih => intro X k; simp [Impl.map, Impl.run, ih]
  | rscal op s ih => intro X k; simp [Impl.map, Impl.run, ih]
  | lvec op v ih => intro X k; simp [Impl.map, Impl.run, ih]
  | rvec op v ih => intro X k; simp [Impl.map, Impl.run, ih]
  | pprod l r ihl ihr => intro X k; simp [Impl.map, Impl.run, ihl, ihr]
  | flvec g m v ih => intro X k; simp [Impl.map, Impl.run, ih]
  | bnil n => intro X k; simp [Impl.map, Impl.run]
  | bcons op rest iho ihr =>
    intro X k; simp only [Impl.map, Impl.run, Impl.ran_map]; split <;> simp [iho, ihr]
  | rnil m => intro X k; simp [Impl.map, Impl.run]
  | rcons op rest iho ihr => intro X k; simp [Impl.map, Impl.run, iho, ihr]
  | dnil => intro X k; simp [Impl.map, Impl.run]
  | dcons op rest iho ihr =>
    intro X k; simp only [Impl.map, Impl.run, Impl.ran_map, Impl.dom_map]
    split <;> simp [iho, ihr]
  | psnil n m => intro X k; simp [Impl.map, Impl.run]
  | pscons ro co op rest iho ihr =>
    intro X k; simp only [Impl.map, Impl.run, Impl.ran_map, Dual.re_add]
    split <;> simp [iho, ihr]
  | cmodsq n => intro X k; simp [Impl.map, Impl.run]
  | cmodsqd n p => intro X k; simp [Impl.map, Impl.run, natK_re]
  | realpart n => intro X k; rfl
  | imagpart n => intro X k; rfl
  | cembed n a b => intro X k; simp only [Impl.map, Impl.run]; split <;> simp
  | clscal n op a b nb ih =>
    intro X k; simp only [Impl.map, Impl.run]
    rw [cmulV_re]; simp only [cmulV]; split <;> simp [ih]
  | crscal n op a b nb ih =>
    intro X k; simp only [Impl.map, Impl.run]
    rw [ih]; congr 1; funext q; exact cmulV_re n a b nb X q

end dual

section typing
set_option linter.unusedSectionVars false
open Impl
variable {R : Type} [CommRing R] [DecidableEq R]

@[simp] theorem dom_mkLscal (op : Impl R) (s : R) : (mkLscal op s).dom = op.dom := by
  cases op <;> rfl
@[simp] theorem ran_mkLscal (op : Impl R) (s : R) : (mkLscal op s).ran = op.ran := by
  cases op <;> rfl
@[simp] theorem ranField_mkLscal (op : Impl R) (s : R) : (mkLscal op s).ranField = op.ranField := by
  cases op <;> rfl
@[simp] theorem isLinear_mkLscal (op : Impl R) (s : R) : (mkLscal op s).isLinear = op.isLinear := by
  cases op <;> rfl
@[simp] theorem wf_mkLscal (op : Impl R) (s : R) : (mkLscal op s).wf = op.wf := by
  cases op <;> rfl
theorem run_mkLscal (op : Impl R) (s : R) (x : Vec R) (k : Nat) :
    (mkLscal op s).run x k = s * op.run x k := by
  cases op <;> simp [mkLscal, Impl.run]
  ring

@[simp] theorem dom_mkRscal (op : Impl R) (s : R) : (mkRscal op s).dom = op.dom := by
  cases op <;> rfl
@[simp] theorem ran_mkRscal (op : Impl R) (s : R) : (mkRscal op s).ran = op.ran := by
  cases op <;> rfl
@[simp] theorem ranField_mkRscal (op : Impl R) (s : R) : (mkRscal op s).ranField = op.ranField := by
  cases op <;> rfl
@[simp] theorem isLinear_mkRscal (op : Impl R) (s : R) : (mkRscal op s).isLinear = op.isLinear := by
  cases op <;> rfl
@[simp] theorem wf_mkRscal (op : Impl R) (s : R) : (mkRscal op s).wf = op.wf := by
  cases op <;> rfl
theorem run_mkRscal (op : Impl R) (s : R) (x : Vec R) (k : Nat) :
    (mkRscal op s).run x k = op.run (fun k => s * x k) k := by
  cases op <;> simp only [mkRscal, Impl.run]
  congr 1; funext q; ring

@[simp] theorem dom_mkLmul (op : Impl R) (v : Vec R) : (mkLmul op v).dom = op.dom := by
  unfold mkLmul; split <;> simp [Impl.dom]
@[simp] theorem ran_mkLmul (op : Impl R) (v : Vec R) : (mkLmul op v).ran = op.ran := by
  unfold mkLmul; split <;> simp [Impl.ran]
@[simp] theorem ranField_mkLmul (op : Impl R) (v : Vec R) : (mkLmul op v).ranField = op.ranField := by
  unfold mkLmul; split <;> simp_all [Impl.ranField]
@[simp] theorem isLinear_mkLmul (op : Impl R) (v : Vec R) : (mkLmul op v).isLinear = op.isLinear := by
  unfold mkLmul; split <;> simp [Impl.isLinear]
@[simp] theorem wf_mkLmul (op : Impl R) (v : Vec R) : (mkLmul op v).wf = op.wf := by
  unfold mkLmul; split <;> simp_all [Impl.wf]

theorem deriv_type (i : Impl R) : ∀ x : Vec R, i.wf = true →
    ∃ j, i.deriv x = some j ∧ j.wf = true ∧ j.dom = i.dom ∧ j.ran = i.ran ∧
      j.ranField = i.ranField ∧ j.isLinear = true := by
  induction i with
  | identity n => intro x h; exact ⟨_, rfl, rfl, rfl, rfl, rfl, rfl⟩
  | scaling n s => intro x h; exact ⟨_, rfl, rfl, rfl, rfl, rfl, rfl⟩
  | multiply n v => intro x h; exact ⟨_, rfl, rfl, rfl, rfl, rfl, rfl⟩
  | matrix m n a => intro x h; exact ⟨_, rfl, rfl, rfl, rfl, rfl, rfl⟩
  | zero n m => intro x h; exact ⟨_, rfl, rfl, rfl, rfl, rfl, rfl⟩
  | const n m c => intro x h; exact ⟨_, rfl, rfl, rfl, rfl, rfl, rfl⟩
  | power n p => intro x h; exact ⟨_, rfl, by simp [Impl.wf], by simp [Impl.dom], by simp [Impl.ran], by simp [Impl.ranField], by simp [Impl.isLinear]⟩
  | inner n v => intro x h; exact ⟨_, rfl, rfl, rfl, rfl, rfl, rfl⟩
  | normsq n => intro x h; exact ⟨_, rfl, rfl, rfl, rfl, rfl, rfl⟩
  | sum l r tr td ihl ihr =>
    intro x h
    simp only [Impl.wf, Bool.and_eq_true, beq_iff_eq] at h
    obtain ⟨l', e1, w1, d1, r1, f1, n1⟩ := ihl x h.1.1.1.1.1.1
    obtain ⟨r', e2, w2, d2, r2, f2, n2⟩ := ihr x h.1.1.1.1.1.2
    simp only [Impl.deriv]
    split
    · refine ⟨_, rfl, ?_, rfl, rfl, rfl, ?_⟩ <;> grind [Impl.wf, Impl.isLinear]
    · rw [e1, e2]; grind [mkSum, Impl.wf, Impl.dom, Impl.ran, Impl.ranField, Impl.isLinear]
  | vecsum op v ih =>
    intro x h
    simp only [Impl.wf, Bool.and_eq_true] at h
    obtain ⟨j, e, w, d, r, f, n⟩ := ih x h.1
    refine ⟨j, by simpa [Impl.deriv] using e, w, d, r, ?_, n⟩
    grind [Impl.ranField]
  | comp l r tmp ihl ihr =>
    intro x h
    simp only [Impl.wf, Bool.and_eq_true, beq_iff_eq] at h
    obtain ⟨l', e1, w1, d1, r1, f1, n1⟩ := ihl (r.run x) h.1.1.1.1
    obtain ⟨r', e2, w2, d2, r2, f2, n2⟩ := ihr x h.1.1.1.2
    simp only [Impl.deriv]
    split
    · refine ⟨_, rfl, ?_, rfl, rfl, rfl, ?_⟩ <;> grind [Impl.wf, Impl.isLinear]
    · rw [e1, e2]
      split <;> grind [mkComp, Impl.wf, Impl.dom, Impl.ran, Impl.ranField, Impl.isLinear]
  | lscal op s ih =>
    intro x h
    simp only [Impl.wf] at h
    obtain ⟨j, e, w, d, r, f, n⟩ := ih x h
    simp only [Impl.deriv]
    split
    · refine ⟨_, rfl, ?_, rfl, rfl, rfl, ?_⟩ <;> grind [Impl.wf, Impl.isLinear]
    · rw [e]; simp [*, Impl.dom, Impl.ran, Impl.ranField]
  | rscal op s ih =>
    intro x h
    simp only [Impl.wf] at h
    obtain ⟨j, e, w, d, r, f, n⟩ := ih (fun k => s * x k) h
    simp only [Impl.deriv]
    rw [e]; simp [*, Impl.dom, Impl.ran, Impl.ranField]
  | lvec op v ih =>
    intro x h
    simp only [Impl.wf, Bool.and_eq_true] at h
    obtain ⟨j, e, w, d, r, f, n⟩ := ih x h.1
    simp only [Impl.deriv]
    split
    · refine ⟨_, rfl, ?_, rfl, rfl, rfl, ?_⟩ <;> grind [Impl.wf, Impl.isLinear]
    · rw [e]; grind [Impl.wf, Impl.dom, Impl.ran, Impl.ranField, Impl.isLinear]
  | rvec op v ih =>
    intro x h
    simp only [Impl.wf] at h
    obtain ⟨j, e, w, d, r, f, n⟩ := ih (fun k => v k * x k) h
    simp only [Impl.deriv]
    split
    · refine ⟨_, rfl, ?_, rfl, rfl, rfl, ?_⟩ <;> grind [Impl.wf, Impl.isLinear]
    · rw [e]; grind [Impl.wf, Impl.dom, Impl.ran, Impl.ranField, Impl.isLinear]
  | pprod l r ihl ihr =>
    intro x h
    simp only [Impl.wf, Bool.and_eq_true, beq_iff_eq] at h
    obtain ⟨l', e1, w1, d1, r1, f1, n1⟩ := ihl x h.1.1.1.1
    obtain ⟨r', e2, w2, d2, r2, f2, n2⟩ := ihr x h.1.1.1.2
    simp only [Impl.deriv]
    rw [e1, e2]
    simp [mkSum, tmpOk, *, Impl.wf, Impl.dom, Impl.ran, Impl.ranField, Impl.isLinear]
  | flvec g m v ih =>
    intro x h
    simp only [Impl.wf, Bool.and_eq_true] at h
    obtain ⟨j, e, w, d, r, f, n⟩ := ih x h.1
    simp only [Impl.deriv]
    split
    · refine ⟨_, rfl, ?_, rfl, rfl, rfl, ?_⟩ <;> grind [Impl.wf, Impl.isLinear]
    · rw [e]; grind [Impl.wf, Impl.dom, Impl.ran, Impl.ranField, Impl.isLinear]
  | bnil n => intro x h; exact ⟨_, rfl, rfl, rfl, rfl, rfl, rfl⟩
  | bcons op rest iho ihr =>
    intro x h
    simp only [Impl.wf, Bool.and_eq_true, beq_iff_eq] at h
    obtain ⟨o', e1, w1, d1, r1, f1, n1⟩ := iho x h.1.1.1
    obtain ⟨r', e2, w2, d2, r2, f2, n2⟩ := ihr x h.1.1.2
    simp only [Impl.deriv]
    rw [e1, e2]; grind [Impl.wf, Impl.dom, Impl.ran, Impl.ranField, Impl.isLinear]
  | rnil n => intro x h; exact ⟨_, rfl, rfl, rfl, rfl, rfl, rfl⟩
  | rcons op rest iho ihr =>
    intro x h
    simp only [Impl.wf, Bool.and_eq_true, beq_iff_eq] at h
    obtain ⟨o', e1, w1, d1, r1, f1, n1⟩ := iho x h.1.1.1
    obtain ⟨r', e2, w2, d2, r2, f2, n2⟩ := ihr (fun j => x (op.dom + j)) h.1.1.2
    simp only [Impl.deriv]
    rw [e1, e2]; grind [Impl.wf, Impl.dom, Impl.ran, Impl.ranField, Impl.isLinear]
  | dnil => intro x h; exact ⟨_, rfl, rfl, rfl, rfl, rfl, rfl⟩
  | dcons op rest iho ihr =>
    intro x h
    simp only [Impl.wf, Bool.and_eq_true] at h
    obtain ⟨o', e1, w1, d1, r1, f1, n1⟩ := iho x h.1.1
    obtain ⟨r', e2, w2, d2, r2, f2, n2⟩ := ihr (fun j => x (op.dom + j)) h.1.2
    simp only [Impl.deriv]
    rw [e1, e2]; grind [Impl.wf, Impl.dom, Impl.ran, Impl.ranField, Impl.isLinear]
  | psnil n m => intro x h; exact ⟨_, rfl, rfl, rfl, rfl, rfl, rfl⟩
  | pscons ro co op rest iho ihr =>
    intro x h
    simp only [Impl.wf, Bool.and_eq_true, decide_eq_true_eq] at h
    obtain ⟨o', e1, w1, d1, r1, f1, n1⟩ := iho (fun j => x (co + j)) h.1.1.1.1
    obtain ⟨r', e2, w2, d2, r2, f2, n2⟩ := ihr x h.1.1.1.2
    simp only [Impl.deriv]
    split
    · refine ⟨_, rfl, ?_, rfl, rfl, rfl, ?_⟩ <;> grind [Impl.wf, Impl.isLinear]
    · rw [e1, e2]; grind [Impl.wf, Impl.dom, Impl.ran, Impl.ranField, Impl.isLinear]
  | cmodsq n => intro x h; exact ⟨_, rfl, rfl, rfl, rfl, rfl, rfl⟩
  | cmodsqd n p => intro x h; exact ⟨_, rfl, rfl, rfl, rfl, rfl, rfl⟩
  | realpart n => intro x h; exact ⟨_, rfl, rfl, rfl, rfl, rfl, rfl⟩
  | imagpart n => intro x h; exact ⟨_, rfl, rfl, rfl, rfl, rfl, rfl⟩
  | cembed n a b => intro x h; exact ⟨_, rfl, rfl, rfl, rfl, rfl, rfl⟩
  | clscal n op a b nb ih =>
    intro x h
    simp only [Impl.wf, Bool.and_eq_true, beq_iff_eq] at h
    obtain ⟨j, e, w, d, r, f, n'⟩ := ih x h.1.1
    simp only [Impl.deriv]
    split
    · refine ⟨_, rfl, ?_, rfl, rfl, rfl, ?_⟩ <;> grind [Impl.wf, Impl.isLinear]
    · rw [e]; grind [Impl.wf, Impl.dom, Impl.ran, Impl.ranField, Impl.isLinear]
  | crscal n op a b nb ih =>
    intro x h
    simp only [Impl.wf, Bool.and_eq_true, beq_iff_eq] at h
    obtain ⟨j, e, w, d, r, f, n'⟩ := ih (cmulV n a b nb x) h.1
    simp only [Impl.deriv]
    rw [e]; grind [Impl.wf, Impl.dom, Impl.ran, Impl.ranField, Impl.isLinear]
end typing

section linearity
set_option linter.unusedSectionVars false
open Impl
variable {R : Type} [CommRing R] [DecidableEq R]

theorem allZero_spec (m : Nat) (c : Vec R) (h : allZero m c = true) (k : Nat) (hk : k < m) :
    c k = 0 := by
  simp only [allZero, List.all_eq_true, List.mem_range, decide_eq_true_eq] at h
  exact h k hk

theorem pw_one (a : R) : pw a 1 = a := by simp [pw]

/-- Trees flagged linear are linear maps. -/
theorem linear_sem (i : Impl R) : i.wf = true → i.isLinear = true →
    ∀ (a : R) (x y : Vec R) (k : Nat),
      i.run (fun k => a * x k + y k) k = a * i.run x k + i.run y k := by
  induction i with
  | identity n => intro _ _ a x y k; rfl
  | scaling n s => intro _ _ a x y k; simp only [Impl.run]; ring
  | multiply n v => intro _ _ a x y k; simp only [Impl.run]; ring
  | matrix m n c =>
    intro _ _ a x y k; simp only [Impl.run]
    rw [← sumTo_mul_left, ← sumTo_add]; apply sumTo_congr; intro j; ring
  | zero n m => intro _ _ a x y k; simp [Impl.run]
  | const n m c =>
    intro _ hl a x y k; simp only [Impl.run, Impl.isLinear] at *
    split
    · rw [allZero_spec m c hl k ‹_›]; ring
    · ring
  | power n p =>
    intro _ hl a x y k; simp only [Impl.run, Impl.isLinear, beq_iff_eq] at *
    subst hl; simp [pw_one]
  | inner n v =>
    intro _ _ a x y k; simp only [Impl.run]
    rw [← sumTo_mul_left, ← sumTo_add]; apply sumTo_congr; intro j; ring
  | normsq n => intro _ hl; simp [Impl.isLinear] at hl
  | sum l r tr td ihl ihr =>
    intro hw hl a x y k
    simp only [Impl.wf, Impl.isLinear, Bool.and_eq_true] at hw hl
    simp only [Impl.run, ihl hw.1.1.1.1.1.1 hl.1, ihr hw.1.1.1.1.1.2 hl.2]; ring
  | vecsum op v ih => intro _ hl; simp [Impl.isLinear] at hl
  | comp l r tmp ihl ihr =>
    intro hw hl a x y k
    simp only [Impl.wf, Impl.isLinear, Bool.and_eq_true] at hw hl
    simp only [Impl.run]
    have : r.run (fun k => a * x k + y k) = fun k => a * r.run x k + r.run y k :=
      funext (ihr hw.1.1.1.2 hl.2 a x y)
    rw [this, ihl hw.1.1.1.1 hl.1]
  | lscal op s ih =>
    intro hw hl a x y k
    simp only [Impl.wf, Impl.isLinear] at hw hl
    simp only [Impl.run, ih hw hl]; ring
  | rscal op s ih =>
    intro hw hl a x y k
    simp only [Impl.wf, Impl.isLinear] at hw hl
    simp only [Impl.run]
    have : (fun k => s * (a * x k + y k)) = fun k => a * (s * x k) + s * y k := by
      funext k; ring
    rw [this, ih hw hl]
  | lvec op v ih =>
    intro hw hl a x y k
    simp only [Impl.wf, Impl.isLinear, Bool.and_eq_true] at hw hl
    simp only [Impl.run, ih hw.1 hl]; ring
  | rvec op v ih =>
    intro hw hl a x y k
    simp only [Impl.wf, Impl.isLinear] at hw hl
    simp only [Impl.run]
    have : (fun k => (a * x k + y k) * v k) = fun k => a * (x k * v k) + y k * v k := by
      funext k; ring
    rw [this, ih hw hl]
  | pprod l r ihl ihr => intro _ hl; simp [Impl.isLinear] at hl
  | flvec g m v ih =>
    intro hw hl a x y k
    simp only [Impl.wf, Impl.isLinear, Bool.and_eq_true] at hw hl
    simp only [Impl.run, ih hw.1 hl]; ring
  | bnil n => intro _ _ a x y k; simp [Impl.run]
  | bcons op rest iho ihr =>
    intro hw hl a x y k
    simp only [Impl.wf, Impl.isLinear, Bool.and_eq_true] at hw hl
    simp only [Impl.run]
    split
    · exact iho hw.1.1.1 hl.1 a x y k
    · exact ihr hw.1.1.2 hl.2 a x y _
  | rnil n => intro _ _ a x y k; simp [Impl.run]
  | rcons op rest iho ihr =>
    intro hw hl a x y k
    simp only [Impl.wf, Impl.isLinear, Bool.and_eq_true] at hw hl
    simp only [Impl.run, iho hw.1.1.1 hl.1]
    rw [ihr hw.1.1.2 hl.2 a (fun j => x (op.dom + j)) (fun j => y (op.dom + j))]; ring
  | dnil => intro _ _ a x y k; simp [Impl.run]
  | dcons op rest iho ihr =>
    intro hw hl a x y k
    simp only [Impl.wf, Impl.isLinear, Bool.and_eq_true] at hw hl
    simp only [Impl.run]
    split
    · exact iho hw.1.1 hl.1 a x y k
    · exact ihr hw.1.2 hl.2 a (fun j => x (op.dom + j)) (fun j => y (op.dom + j)) _
  | psnil n m => intro _ _ a x y k; simp [Impl.run]
  | pscons ro co op rest iho ihr =>
    intro hw hl a x y k
    simp only [Impl.wf, Impl.isLinear, Bool.and_eq_true] at hw hl
    simp only [Impl.run, ihr hw.1.1.1.2 hl.2]
    split
    · rw [iho hw.1.1.1.1 hl.1 a (fun j => x (co + j)) (fun j => y (co + j))]; ring
    · ring
  | cmodsq n => intro _ hl; simp [Impl.isLinear] at hl
  | cmodsqd n p => intro _ _ a x y k; simp only [Impl.run]; ring
  | realpart n => intro _ _ a x y k; rfl
  | imagpart n => intro _ _ a x y k; rfl
  | cembed n a b => intro _ _ a' x y k; simp only [Impl.run]; split <;> ring
  | clscal n op a b nb ih =>
    intro hw hl c x y k
    simp only [Impl.wf, Impl.isLinear, Bool.and_eq_true] at hw hl
    simp only [Impl.run]
    have : op.run (fun k => c * x k + y k) = fun k => c * op.run x k + op.run y k :=
      funext (ih hw.1.1 hl c x y)
    rw [this, cmulV_lin]
  | crscal n op a b nb ih =>
    intro hw hl c x y k
    simp only [Impl.wf, Impl.isLinear, Bool.and_eq_true] at hw hl
    simp only [Impl.run]
    rw [cmulV_lin, ih hw.1 hl]

theorem linear_zero (i : Impl R) (hw : i.wf = true) (hl : i.isLinear = true) (k : Nat) :
    i.run (fun _ => 0) k = 0 := by
  have h := linear_sem i hw hl 1 (fun _ => 0) (fun _ => 0) k
  simp only [mul_zero, add_zero, one_mul] at h
  have : i.run (fun _ => 0) k + 0 = i.run (fun _ => 0) k + i.run (fun _ => 0) k := by
    rw [add_zero]; exact h
  exact (add_left_cancel this).symm

theorem linear_smul (i : Impl R) (hw : i.wf = true) (hl : i.isLinear = true) (a : R)
    (x : Vec R) (k : Nat) : i.run (fun k => a * x k) k = a * i.run x k := by
  have h := linear_sem i hw hl a x (fun _ => 0) k
  simp only [add_zero] at h
  rw [h, linear_zero i hw hl, add_zero]

/-- Functionals return the same number at every index (a field has dimension 1). -/
theorem ranField_const (i : Impl R) : i.wf = true → i.ranField = true →
    ∀ (x : Vec R) (k : Nat), i.run x k = i.run x 0 := by
  induction i with
  | inner n v => intro _ _ x k; rfl
  | normsq n => intro _ _ x k; rfl
  | sum l r tr td ihl ihr =>
    intro hw hf x k
    simp only [Impl.wf, Impl.ranField, Bool.and_eq_true, beq_iff_eq] at hw hf
    simp only [Impl.run]
    rw [ihl hw.1.1.1.1.1.1 hf x k, ihr hw.1.1.1.1.1.2 (by rw [← hw.1.1.2]; exact hf) x k]
  | comp l r tmp ihl ihr =>
    intro hw hf x k
    simp only [Impl.wf, Impl.ranField, Bool.and_eq_true] at hw hf
    simp only [Impl.run]; exact ihl hw.1.1.1.1 hf _ k
  | lscal op s ih =>
    intro hw hf x k; simp only [Impl.wf, Impl.ranField] at hw hf
    simp only [Impl.run]; rw [ih hw hf x k]
  | rscal op s ih =>
    intro hw hf x k; simp only [Impl.wf, Impl.ranField] at hw hf
    simp only [Impl.run]; exact ih hw hf _ k
  | rvec op v ih =>
    intro hw hf x k; simp only [Impl.wf, Impl.ranField] at hw hf
    simp only [Impl.run]; exact ih hw hf _ k
  | pprod l r ihl ihr =>
    intro hw hf x k
    simp only [Impl.wf, Impl.ranField, Bool.and_eq_true, beq_iff_eq] at hw hf
    simp only [Impl.run]
    rw [ihl hw.1.1.1.1 hf x k, ihr hw.1.1.1.2 (by rw [← hw.2]; exact hf) x k]
  | crscal n op a b nb ih =>
    intro hw hf x k; simp only [Impl.wf, Impl.ranField, Bool.and_eq_true] at hw hf
    simp only [Impl.run]; exact ih hw.1 hf _ k
  | _ => intro _ hf; simp [Impl.ranField] at hf


/-- For a tree flagged linear the derivative acts like the tree itself (it is the tree
itself except for `PowerOperator(1)`, zero `ConstantOperator`s, `OperatorRightScalarMult`
and the block operators, which rebuild an equivalent operator). -/
theorem deriv_linear (i : Impl R) : i.wf = true → i.isLinear = true →
    ∀ (x : Vec R) (j : Impl R), i.deriv x = some j → ∀ (d : Vec R) (k : Nat),
      j.run d k = i.run d k := by
  induction i with
  | identity n => intro _ _ x j e d k; cases e; rfl
  | scaling n s => intro _ _ x j e d k; cases e; rfl
  | multiply n v => intro _ _ x j e d k; cases e; rfl
  | matrix m n c => intro _ _ x j e d k; cases e; rfl
  | zero n m => intro _ _ x j e d k; cases e; rfl
  | inner n v => intro _ _ x j e d k; cases e; rfl
  | const n m c =>
    intro _ hl x j e d k; cases e
    simp only [Impl.run, Impl.isLinear] at *
    split
    · rw [allZero_spec m c hl k ‹_›]
    · rfl
  | power n p =>
    intro _ hl x j e d k
    simp only [Impl.isLinear, beq_iff_eq] at hl
    subst hl
    simp only [Impl.deriv, Option.some.injEq] at e
    subst e
    rw [run_mkLscal]
    simp [Impl.run, pw, natK]
  | normsq n => intro _ hl; simp [Impl.isLinear] at hl
  | vecsum op v ih => intro _ hl; simp [Impl.isLinear] at hl
  | pprod l r ihl ihr => intro _ hl; simp [Impl.isLinear] at hl
  | sum l r tr td ihl ihr =>
    intro hw hl x j e d k
    simp only [Impl.isLinear] at hl
    simp only [Impl.deriv, hl, if_true, Option.some.injEq] at e
    subst e; rfl
  | comp l r tmp ihl ihr =>
    intro hw hl x j e d k
    simp only [Impl.isLinear] at hl
    simp only [Impl.deriv, hl, if_true, Option.some.injEq] at e
    subst e; rfl
  | lscal op s ih =>
    intro hw hl x j e d k
    simp only [Impl.isLinear] at hl
    simp only [Impl.deriv, hl, if_true, Option.some.injEq] at e
    subst e; rfl
  | lvec op v ih =>
    intro hw hl x j e d k
    simp only [Impl.isLinear] at hl
    simp only [Impl.deriv, hl, if_true, Option.some.injEq] at e
    subst e; rfl
  | rvec op v ih =>
    intro hw hl x j e d k
    simp only [Impl.isLinear] at hl
    simp only [Impl.deriv, hl, if_true, Option.some.injEq] at e
    subst e; rfl
  | flvec g m v ih =>
    intro hw hl x j e d k
    simp only [Impl.isLinear] at hl
    simp only [Impl.deriv, hl, if_true, Option.some.injEq] at e
    subst e; rfl
  | rscal op s ih =>
    intro hw hl x j e d k
    simp only [Impl.isLinear, Impl.wf] at hl hw
    simp only [Impl.deriv] at e
    split at e
    · rename_i o' eo
      cases e
      rw [run_mkRscal, ih hw hl _ o' eo]
      rfl
    · cases e
  | bnil n => intro _ _ x j e d k; cases e; rfl
  | rnil n => intro _ _ x j e d k; cases e; rfl
  | dnil => intro _ _ x j e d k; cases e; rfl
  | bcons op rest iho ihr =>
    intro hw hl x j e d k
    simp only [Impl.wf, Impl.isLinear, Bool.and_eq_true] at hw hl
    simp only [Impl.deriv] at e
    split at e
    · rename_i o' r' eo er
      cases e
      obtain ⟨o'', eo', _, _, hr, _, _⟩ := deriv_type op x hw.1.1.1
      rw [eo] at eo'; cases eo'
      simp only [Impl.run, hr]
      split
      · exact iho hw.1.1.1 hl.1 _ _ eo d k
      · exact ihr hw.1.1.2 hl.2 _ _ er d _
    · cases e
  | rcons op rest iho ihr =>
    intro hw hl x j e d k
    simp only [Impl.wf, Impl.isLinear, Bool.and_eq_true] at hw hl
    simp only [Impl.deriv] at e
    split at e
    · rename_i o' r' eo er
      cases e
      obtain ⟨o'', eo', _, hd, hr, _, _⟩ := deriv_type op x hw.1.1.1
      rw [eo] at eo'; cases eo'
      simp only [Impl.run, hd]
      rw [iho hw.1.1.1 hl.1 _ _ eo d k, ihr hw.1.1.2 hl.2 _ _ er _ k]
    · cases e
  | dcons op rest iho ihr =>
    intro hw hl x j e d k
    simp only [Impl.wf, Impl.isLinear, Bool.and_eq_true] at hw hl
    simp only [Impl.deriv] at e
    split at e
    · rename_i o' r' eo er
      cases e
      obtain ⟨o'', eo', _, hd, hr, _, _⟩ := deriv_type op x hw.1.1
      rw [eo] at eo'; cases eo'
      simp only [Impl.run, hr, hd]
      split
      · exact iho hw.1.1 hl.1 _ _ eo d k
      · exact ihr hw.1.2 hl.2 _ _ er _ _
    · cases e
  | psnil n m => intro _ _ x j e d k; cases e; rfl
  | pscons ro co op rest iho ihr =>
    intro hw hl x j e d k
    simp only [Impl.isLinear] at hl
    simp only [Impl.deriv, hl, if_true, Option.some.injEq] at e
    subst e; rfl
  | cmodsq n => intro _ hl; simp [Impl.isLinear] at hl
  | cmodsqd n p => intro _ _ x j e d k; cases e; rfl
  | realpart n => intro _ _ x j e d k; cases e; rfl
  | imagpart n => intro _ _ x j e d k; cases e; rfl
  | cembed n a b => intro _ _ x j e d k; cases e; rfl
  | clscal n op a b nb ih =>
    intro hw hl x j e d k
    simp only [Impl.isLinear] at hl
    simp only [Impl.deriv, hl, if_true, Option.some.injEq] at e
    subst e; rfl
  | crscal n op a b nb ih =>
    intro hw hl x j e d k
    simp only [Impl.isLinear, Impl.wf, Bool.and_eq_true] at hl hw
    simp only [Impl.deriv] at e
    split at e
    · rename_i o' eo
      cases e
      simp only [Impl.run]
      exact ih hw.1 hl _ o' eo _ k
    · cases e

end linearity

section soundness
set_option linter.unusedSectionVars false
open Impl Dual
variable {R : Type} [CommRing R] [DecidableEq R]

theorem run_mkLmul (op : Impl R) (v : Vec R) (x : Vec R) (k : Nat) :
    (mkLmul op v).run x k = if op.ranField then v 0 * op.run x k else op.run x k * v k := by
  unfold mkLmul; split
  · rw [run_mkLscal]
  · rfl

theorem mkSum_some (l r : Impl R) (tr td : Option Nat) (j : Impl R)
    (h : mkSum l r tr td = some j) : j = .sum l r tr td := by
  unfold mkSum at h; split at h
  · cases h; rfl
  · cases h

theorem mkComp_some (l r : Impl R) (tmp : Option Nat) (j : Impl R)
    (h : mkComp l r tmp = some j) : j = .comp l r tmp := by
  unfold mkComp at h; split at h
  · cases h; rfl
  · cases h

abbrev reV (X : Vec (Dual R)) : Vec R := fun k => (X k).re
abbrev epsV (X : Vec (Dual R)) : Vec R := fun k => (X k).eps

/-- The ε-statement for a subtree, used as induction hypothesis. -/
def EpsOK (t : Impl R) : Prop :=
  ∀ (X : Vec (Dual R)) (j : Impl R), t.deriv (reV X) = some j →
    ∀ k, ((t.map C).run X k).eps = j.run (epsV X) k

theorem eps_of_linear (t : Impl R) (hw : t.wf = true) (hl : t.isLinear = true)
    (ih : EpsOK t) (X : Vec (Dual R)) (k : Nat) :
    ((t.map C).run X k).eps = t.run (epsV X) k := by
  obtain ⟨j, e, _⟩ := deriv_type t (reV X) hw
  rw [ih X j e k, deriv_linear t hw hl _ j e]

theorem run_map_eps (i : Impl R) : i.wf = true → EpsOK i := by
  induction i with
  | identity n => intro _ X j e k; cases e; rfl
  | scaling n s => intro _ X j e k; cases e; simp [Impl.map, Impl.run]
  | multiply n v => intro _ X j e k; cases e; simp [Impl.map, Impl.run]
  | matrix m n c => intro _ X j e k; cases e; simp [Impl.map, Impl.run, sumTo_eps]
  | zero n m => intro _ X j e k; cases e; simp [Impl.map, Impl.run]
  | inner n v => intro _ X j e k; cases e; simp [Impl.map, Impl.run, sumTo_eps]
  | const n m c =>
    intro _ X j e k; cases e; simp only [Impl.map, Impl.run]; split <;> simp
  | power n p =>
    intro _ X j e k
    simp only [Impl.deriv, Option.some.injEq] at e
    subst e
    rw [run_mkLscal]
    simp only [Impl.map, Impl.run, pw_eps]
    ring
  | normsq n =>
    intro _ X j e k
    simp only [Impl.deriv, Option.some.injEq] at e
    subst e
    simp only [Impl.map, Impl.run, sumTo_eps]
    apply sumTo_congr; intro j
    simp [natK]; ring
  | sum l r tr td ihl ihr =>
    intro hw X j e k
    simp only [Impl.wf, Bool.and_eq_true] at hw
    have hwl := hw.1.1.1.1.1.1
    have hwr := hw.1.1.1.1.1.2
    simp only [Impl.deriv] at e
    split at e
    · rename_i hl
      simp only [Bool.and_eq_true] at hl
      cases e
      simp only [Impl.map, Impl.run, Dual.eps_add]
      rw [eps_of_linear l hwl hl.1 (ihl hwl), eps_of_linear r hwr hl.2 (ihr hwr)]
    · split at e
      · rename_i l' r' el er
        have := mkSum_some _ _ _ _ _ e
        subst this
        simp only [Impl.map, Impl.run, Dual.eps_add]
        rw [ihl hwl X l' el, ihr hwr X r' er]
      · cases e
  | vecsum op v ih =>
    intro hw X j e k
    simp only [Impl.wf, Bool.and_eq_true] at hw
    simp only [Impl.deriv] at e
    simp only [Impl.map, Impl.run, Dual.eps_add, Dual.eps_C, add_zero]
    exact ih hw.1 X j e k
  | comp l r tmp ihl ihr =>
    intro hw X j e k
    simp only [Impl.wf, Bool.and_eq_true] at hw
    have hwl := hw.1.1.1.1
    have hwr := hw.1.1.1.2
    have hre : reV ((r.map C).run X) = r.run (reV X) := funext (run_map_re r X)
    simp only [Impl.deriv] at e
    split at e
    · rename_i hl
      simp only [Bool.and_eq_true] at hl
      cases e
      simp only [Impl.map, Impl.run]
      rw [eps_of_linear l hwl hl.1 (ihl hwl)]
      congr 1
      funext q
      exact eps_of_linear r hwr hl.2 (ihr hwr) X q
    · split at e
      · rename_i l' r' el er
        have := mkComp_some _ _ _ _ e
        subst this
        simp only [Impl.map, Impl.run]
        have hr : epsV ((r.map C).run X) = r'.run (epsV X) := funext (ihr hwr X r' er)
        split at el
        · rename_i hl
          cases el
          rw [eps_of_linear l hwl hl (ihl hwl), hr]
        · rw [← hre] at el
          rw [ihl hwl _ l' el, hr]
      · cases e
  | lscal op s ih =>
    intro hw X j e k
    simp only [Impl.wf] at hw
    simp only [Impl.deriv] at e
    split at e
    · rename_i hl
      cases e
      simp only [Impl.map, Impl.run, Dual.eps_mul, Dual.eps_C, Dual.re_C, zero_mul, add_zero]
      rw [eps_of_linear op hw hl (ih hw)]
    · split at e
      · rename_i o' eo
        cases e
        rw [run_mkLscal]
        simp only [Impl.map, Impl.run, Dual.eps_mul, Dual.eps_C, Dual.re_C, zero_mul, add_zero]
        rw [ih hw X o' eo]
      · cases e
  | rscal op s ih =>
    intro hw X j e k
    simp only [Impl.wf] at hw
    simp only [Impl.deriv] at e
    split at e
    · rename_i o' eo
      cases e
      rw [run_mkRscal]
      simp only [Impl.map, Impl.run]
      have h1 := ih hw (fun k => C s * X k) o' eo k
      rw [h1]
      have h2 : epsV (fun k => C s * X k) = fun k => s * (X k).eps := by
        funext q; simp
      rw [h2]
    · cases e
  | lvec op v ih =>
    intro hw X j e k
    simp only [Impl.wf, Bool.and_eq_true] at hw
    simp only [Impl.deriv] at e
    split at e
    · rename_i hl
      cases e
      simp only [Impl.map, Impl.run, Dual.eps_mul, Dual.eps_C, Dual.re_C, mul_zero, zero_add]
      rw [eps_of_linear op hw.1 hl (ih hw.1)]
    · split at e
      · rename_i o' eo
        cases e
        simp only [Impl.map, Impl.run, Dual.eps_mul, Dual.eps_C, Dual.re_C, mul_zero, zero_add]
        rw [ih hw.1 X o' eo]
      · cases e
  | rvec op v ih =>
    intro hw X j e k
    simp only [Impl.wf] at hw
    have h2 : epsV (fun k => X k * C (v k)) = fun k => (X k).eps * v k := by
      funext q; simp
    simp only [Impl.deriv] at e
    split at e
    · rename_i hl
      cases e
      simp only [Impl.map, Impl.run]
      rw [eps_of_linear op hw hl (ih hw), h2]
    · split at e
      · rename_i o' eo
        cases e
        simp only [Impl.map, Impl.run]
        have h3 : (fun k => v k * reV X k) = reV (fun k => X k * C (v k)) := by
          funext q; simp [mul_comm]
        rw [h3] at eo
        rw [ih hw _ o' eo, h2]
      · cases e
  | pprod l r ihl ihr =>
    intro hw X j e k
    simp only [Impl.wf, Bool.and_eq_true, beq_iff_eq] at hw
    have hwl := hw.1.1.1.1
    have hwr := hw.1.1.1.2
    simp only [Impl.deriv] at e
    split at e
    · rename_i l' r' el er
      have := mkSum_some _ _ _ _ _ e
      subst this
      obtain ⟨l'', el', _, _, _, fl, _⟩ := deriv_type l (reV X) hwl
      rw [el] at el'; cases el'
      obtain ⟨r'', er', _, _, _, fr, _⟩ := deriv_type r (reV X) hwr
      rw [er] at er'; cases er'
      simp only [Impl.map, Impl.run, Dual.eps_mul, run_mkLmul, run_map_re]
      rw [ihl hwl X l' el, ihr hwr X r' er, fl, fr]
      by_cases hf : l.ranField = true
      · have hf' : r.ranField = true := by rw [← hw.2]; exact hf
        rw [if_pos hf, if_pos hf', ranField_const l hwl hf _ k, ranField_const r hwr hf' _ k]
        ring
      · have hf' : ¬ r.ranField = true := by rw [← hw.2]; exact hf
        rw [if_neg hf, if_neg hf']
        ring
    · cases e
  | flvec g m v ih =>
    intro hw X j e k
    simp only [Impl.wf, Bool.and_eq_true] at hw
    simp only [Impl.deriv] at e
    split at e
    · rename_i hl
      cases e
      simp only [Impl.map, Impl.run, Dual.eps_mul, Dual.eps_C, Dual.re_C, zero_mul, add_zero]
      rw [eps_of_linear g hw.1 hl (ih hw.1)]
    · split at e
      · rename_i o' eo
        cases e
        simp only [Impl.map, Impl.run, Dual.eps_mul, Dual.eps_C, Dual.re_C, zero_mul, add_zero]
        rw [ih hw.1 X o' eo]
      · cases e
  | bnil n => intro _ X j e k; cases e; rfl
  | rnil n => intro _ X j e k; cases e; rfl
  | dnil => intro _ X j e k; cases e; rfl
  | bcons op rest iho ihr =>
    intro hw X j e k
    simp only [Impl.wf, Bool.and_eq_true] at hw
    simp only [Impl.deriv] at e
    split at e
    · rename_i o' r' eo er
      cases e
      obtain ⟨o'', eo', _, _, hr, _, _⟩ := deriv_type op (reV X) hw.1.1.1
      rw [eo] at eo'; cases eo'
      simp only [Impl.map, Impl.run, hr, Impl.ran_map]
      split
      · exact iho hw.1.1.1 X _ eo k
      · exact ihr hw.1.1.2 X _ er _
    · cases e
  | rcons op rest iho ihr =>
    intro hw X j e k
    simp only [Impl.wf, Bool.and_eq_true] at hw
    simp only [Impl.deriv] at e
    split at e
    · rename_i o' r' eo er
      cases e
      obtain ⟨o'', eo', _, hd, hr, _, _⟩ := deriv_type op (reV X) hw.1.1.1
      rw [eo] at eo'; cases eo'
      simp only [Impl.map, Impl.run, hd, Impl.dom_map, Dual.eps_add]
      rw [iho hw.1.1.1 X _ eo k]
      rw [ihr hw.1.1.2 (fun j => X (op.dom + j)) _ er k]
    · cases e
  | dcons op rest iho ihr =>
    intro hw X j e k
    simp only [Impl.wf, Bool.and_eq_true] at hw
    simp only [Impl.deriv] at e
    split at e
    · rename_i o' r' eo er
      cases e
      obtain ⟨o'', eo', _, hd, hr, _, _⟩ := deriv_type op (reV X) hw.1.1
      rw [eo] at eo'; cases eo'
      simp only [Impl.map, Impl.run, hr, hd, Impl.ran_map, Impl.dom_map]
      split
      · exact iho hw.1.1 X _ eo k
      · exact ihr hw.1.2 (fun j => X (op.dom + j)) _ er _
    · cases e
  | psnil n m => intro _ X j e k; cases e; rfl
  | pscons ro co op rest iho ihr =>
    intro hw X j e k
    simp only [Impl.wf, Bool.and_eq_true] at hw
    have hwo := hw.1.1.1.1
    have hwr := hw.1.1.1.2
    simp only [Impl.deriv] at e
    split at e
    · rename_i hl
      simp only [Bool.and_eq_true] at hl
      cases e
      simp only [Impl.map, Impl.run, Dual.eps_add, Impl.ran_map]
      rw [eps_of_linear rest hwr hl.2 (ihr hwr)]
      split
      · rw [eps_of_linear op hwo hl.1 (iho hwo)]
      · rfl
    · split at e
      · rename_i o' r' eo er
        cases e
        obtain ⟨o'', eo', _, _, hr, _, _⟩ := deriv_type op (fun j => reV X (co + j)) hwo
        rw [eo] at eo'; cases eo'
        simp only [Impl.map, Impl.run, Dual.eps_add, Impl.ran_map, hr]
        rw [ihr hwr X _ er k]
        split
        · rw [iho hwo (fun j => X (co + j)) _ eo]
        · rfl
      · cases e
  | cmodsq n =>
    intro _ X j e k
    simp only [Impl.deriv, Option.some.injEq] at e
    subst e
    simp only [Impl.map, Impl.run, Dual.eps_add, Dual.eps_mul]
    simp [natK]; ring
  | cmodsqd n p =>
    intro _ X j e k; cases e
    simp only [Impl.map, Impl.run, Dual.eps_add, Dual.eps_mul, Dual.re_add, Dual.re_mul, Dual.eps_C,
      Dual.re_C, natK_eps, natK_re]
    ring
  | realpart n => intro _ X j e k; cases e; rfl
  | imagpart n => intro _ X j e k; cases e; rfl
  | cembed n a b =>
    intro _ X j e k; cases e
    simp only [Impl.map, Impl.run]; split <;> simp
  | clscal n op a b nb ih =>
    intro hw X j e k
    simp only [Impl.wf, Bool.and_eq_true] at hw
    simp only [Impl.deriv] at e
    split at e
    · rename_i hl
      cases e
      simp only [Impl.map, Impl.run]
      rw [cmulV_eps]
      congr 1; funext q
      exact eps_of_linear op hw.1.1 hl (ih hw.1.1) X q
    · split at e
      · rename_i o' eo
        cases e
        simp only [Impl.map, Impl.run]
        rw [cmulV_eps]
        congr 1; funext q
        exact ih hw.1.1 X o' eo q
      · cases e
  | crscal n op a b nb ih =>
    intro hw X j e k
    simp only [Impl.wf, Bool.and_eq_true] at hw
    simp only [Impl.deriv] at e
    split at e
    · rename_i o' eo
      cases e
      simp only [Impl.map, Impl.run]
      have h3 : cmulV n a b nb (reV X) = reV (cmulV n (C a) (C b) (C nb) X) := by
        funext q; exact (cmulV_re n a b nb X q).symm
      rw [h3] at eo
      rw [ih hw.1 _ o' eo]
      congr 1; funext q; exact cmulV_eps n a b nb X q
    · cases e

end soundness

section centraldiff
set_option linter.unusedSectionVars false
open Impl

section hom
variable {K K' : Type} [Add K] [Mul K] [OfNat K 0] [OfNat K 1]
  [Add K'] [Mul K'] [OfNat K' 0] [OfNat K' 1]

/-- Maps preserving `+`, `*`, `0`, `1` (ring homomorphisms in the notation-class setting). -/
structure IsHom (φ : K → K') : Prop where
  add : ∀ a b, φ (a + b) = φ a + φ b
  mul : ∀ a b, φ (a * b) = φ a * φ b
  zero : φ 0 = 0
  one : φ 1 = 1

theorem IsHom.pw {φ : K → K'} (h : IsHom φ) (a : K) (p : Nat) : φ (pw a p) = pw (φ a) p := by
  induction p with
  | zero => exact h.one
  | succ p ih => simp only [Deriv.pw, h.mul, ih]

theorem IsHom.natK {φ : K → K'} (h : IsHom φ) (p : Nat) : φ (natK p) = natK p := by
  induction p with
  | zero => exact h.zero
  | succ p ih => simp only [Deriv.natK, h.add, ih, h.one]

theorem IsHom.cmulV {φ : K → K'} (h : IsHom φ) (n : Nat) (a b nb : K) (x : Nat → K) (k : Nat) :
    φ (cmulV n a b nb x k) = Deriv.cmulV n (φ a) (φ b) (φ nb) (fun k => φ (x k)) k := by
  simp only [Deriv.cmulV]; split <;> simp only [h.add, h.mul]

theorem IsHom.sumTo {φ : K → K'} (h : IsHom φ) (n : Nat) (f : Nat → K) :
    φ (sumTo n f) = sumTo n (fun j => φ (f j)) := by
  induction n with
  | zero => exact h.zero
  | succ n ih => simp only [Deriv.sumTo, h.add, ih]

/-- Evaluation commutes with homomorphisms of the scalars. -/
theorem run_map_hom {φ : K → K'} (h : IsHom φ) (i : Impl K) : ∀ (x : Vec K) (k : Nat),
    (i.map φ).run (fun k => φ (x k)) k = φ (i.run x k) := by
  induction i with
  | identity n => intro x k; rfl
  | scaling n s => intro x k; simp only [Impl.map, Impl.run, h.mul]
  | multiply n v => intro x k; simp only [Impl.map, Impl.run, h.mul]
  | matrix m n a => intro x k; simp only [Impl.map, Impl.run, h.sumTo, h.mul]
  | zero n m => intro x k; simp only [Impl.map, Impl.run, h.zero]
  | const n m c => intro x k; simp only [Impl.map, Impl.run]; split <;> simp [h.zero]
  | power n p => intro x k; simp only [Impl.map, Impl.run, h.pw]
  | inner n v => intro x k; simp only [Impl.map, Impl.run, h.sumTo, h.mul]
  | normsq n => intro x k; simp only [Impl.map, Impl.run, h.sumTo, h.mul]
  | sum l r tr td ihl ihr => intro x k; simp only [Impl.map, Impl.run, h.add, ihl, ihr]
  | vecsum op v ih => intro x k; simp only [Impl.map, Impl.run, h.add, ih]
  | comp l r tmp ihl ihr =>
    intro x k
    simp only [Impl.map, Impl.run]
    have : (r.map φ).run (fun k => φ (x k)) = fun k => φ (r.run x k) := funext (ihr x)
    rw [this, ihl]
  | lscal op s ih => intro x k; simp only [Impl.map, Impl.run, h.mul, ih]
  | rscal op s ih =>
    intro x k
    simp only [Impl.map, Impl.run]
    have : (fun k => φ s * φ (x k)) = fun k => φ (s * x k) := by funext q; rw [h.mul]
    rw [this, ih]
  | lvec op v ih => intro x k; simp only [Impl.map, Impl.run, h.mul, ih]
  | rvec op v ih =>
    intro x k
    simp only [Impl.map, Impl.run]
    have : (fun k => φ (x k) * φ (v k)) = fun k => φ (x k * v k) := by funext q; rw [h.mul]
    rw [this, ih]
  | pprod l r ihl ihr => intro x k; simp only [Impl.map, Impl.run, h.mul, ihl, ihr]
  | flvec g m v ih => intro x k; simp only [Impl.map, Impl.run, h.mul, ih]
  | bnil n => intro x k; simp only [Impl.map, Impl.run, h.zero]
  | bcons op rest iho ihr =>
    intro x k; simp only [Impl.map, Impl.run, Impl.ran_map]; split
    · exact iho x k
    · exact ihr x _
  | rnil m => intro x k; simp only [Impl.map, Impl.run, h.zero]
  | rcons op rest iho ihr =>
    intro x k; simp only [Impl.map, Impl.run, Impl.dom_map, h.add, iho]
    rw [ihr (fun j => x (op.dom + j)) k]
  | dnil => intro x k; simp only [Impl.map, Impl.run, h.zero]
  | dcons op rest iho ihr =>
    intro x k; simp only [Impl.map, Impl.run, Impl.ran_map, Impl.dom_map]; split
    · exact iho x k
    · exact ihr (fun j => x (op.dom + j)) _
  | psnil n m => intro x k; simp only [Impl.map, Impl.run, h.zero]
  | pscons ro co op rest iho ihr =>
    intro x k; simp only [Impl.map, Impl.run, Impl.ran_map, h.add, ihr]; split
    · rw [iho (fun j => x (co + j))]
    · rw [h.zero]
  | cmodsq n => intro x k; simp only [Impl.map, Impl.run, h.add, h.mul]
  | cmodsqd n p => intro x k; simp only [Impl.map, Impl.run, h.add, h.mul, h.natK]
  | realpart n => intro x k; rfl
  | imagpart n => intro x k; rfl
  | cembed n a b => intro x k; simp only [Impl.map, Impl.run]; split <;> simp [h.mul]
  | clscal n op a b nb ih =>
    intro x k; simp only [Impl.map, Impl.run]
    rw [h.cmulV]; congr 1; funext q; exact ih x q
  | crscal n op a b nb ih =>
    intro x k; simp only [Impl.map, Impl.run]
    have : Deriv.cmulV n (φ a) (φ b) (φ nb) (fun k => φ (x k)) = fun k => φ (cmulV n a b nb x k) := by
      funext q; exact (h.cmulV n a b nb x q).symm
    rw [this, ih]

end hom

theorem map_map {K K' K'' : Type} (f : K → K') (g : K' → K'') (i : Impl K) :
    (i.map f).map g = i.map (fun a => g (f a)) := by
  induction i <;> simp_all [Impl.map]

/-- Polynomials in `h` truncated at `h³`: `a + b h + c h²`. -/
structure Trunc3 (R : Type) where
  a : R
  b : R
  c : R

namespace Trunc3
variable {R : Type} [CommRing R]
instance : Add (Trunc3 R) := ⟨fun p q => ⟨p.a + q.a, p.b + q.b, p.c + q.c⟩⟩
instance : Mul (Trunc3 R) :=
  ⟨fun p q => ⟨p.a * q.a, p.a * q.b + p.b * q.a, p.a * q.c + p.b * q.b + p.c * q.a⟩⟩
instance : OfNat (Trunc3 R) 0 := ⟨⟨0, 0, 0⟩⟩
instance : OfNat (Trunc3 R) 1 := ⟨⟨1, 0, 0⟩⟩
/-- Constants. -/
def C (r : R) : Trunc3 R := ⟨r, 0, 0⟩
/-- `h ↦ -h`. -/
def flip (p : Trunc3 R) : Trunc3 R := ⟨p.a, -p.b, p.c⟩
/-- Truncation mod `h²` (`h ↦ ε`). -/
def toDual (p : Trunc3 R) : Dual R := ⟨p.a, p.b⟩

theorem ext' {p q : Trunc3 R} (h1 : p.a = q.a) (h2 : p.b = q.b) (h3 : p.c = q.c) : p = q := by
  cases p; cases q; simp_all

@[simp] theorem add_a (p q : Trunc3 R) : (p + q).a = p.a + q.a := rfl
@[simp] theorem add_b (p q : Trunc3 R) : (p + q).b = p.b + q.b := rfl
@[simp] theorem add_c (p q : Trunc3 R) : (p + q).c = p.c + q.c := rfl
@[simp] theorem mul_a (p q : Trunc3 R) : (p * q).a = p.a * q.a := rfl
@[simp] theorem mul_b (p q : Trunc3 R) : (p * q).b = p.a * q.b + p.b * q.a := rfl
@[simp] theorem mul_c (p q : Trunc3 R) : (p * q).c = p.a * q.c + p.b * q.b + p.c * q.a := rfl
@[simp] theorem zero_a : (0 : Trunc3 R).a = 0 := rfl
@[simp] theorem zero_b : (0 : Trunc3 R).b = 0 := rfl
@[simp] theorem zero_c : (0 : Trunc3 R).c = 0 := rfl
@[simp] theorem one_a : (1 : Trunc3 R).a = 1 := rfl
@[simp] theorem one_b : (1 : Trunc3 R).b = 0 := rfl
@[simp] theorem one_c : (1 : Trunc3 R).c = 0 := rfl

theorem flip_hom : IsHom (Trunc3.flip : Trunc3 R → Trunc3 R) where
  add p q := by apply ext' <;> simp [Trunc3.flip]; ring
  mul p q := by apply ext' <;> simp [Trunc3.flip]; ring
  zero := by apply ext' <;> simp [Trunc3.flip]
  one := by apply ext' <;> simp [Trunc3.flip]

theorem toDual_hom : IsHom (toDual : Trunc3 R → Dual R) where
  add _ _ := rfl
  mul _ _ := rfl
  zero := rfl
  one := rfl

end Trunc3

section cd
variable {R : Type} [CommRing R] [DecidableEq R]
open Trunc3

theorem dual_ext {p q : Dual R} (h1 : p.re = q.re) (h2 : p.eps = q.eps) : p = q := by
  cases p; cases q; simp_all

/-- Evaluate on `x + h d` and on `x - h d` over `R[h]/(h³)`. -/
theorem central_diff (i : Impl R) (hwf : i.wf = true) (x d : Vec R) (j : Impl R)
    (hj : i.deriv x = some j) (k : Nat) :
    let P := (i.map Trunc3.C).run (fun k => ⟨x k, d k, 0⟩) k
    let M := (i.map Trunc3.C).run (fun k => ⟨x k, - d k, 0⟩) k
    P.a = i.run x k ∧ M.a = i.run x k ∧ P.b = j.run d k ∧ M.b = - j.run d k ∧ P.c = M.c := by
  intro P M
  -- M is the image of P under h ↦ -h
  have hM : M = Trunc3.flip P := by
    have h1 := run_map_hom (flip_hom (R := R)) (i.map Trunc3.C) (fun k => ⟨x k, d k, 0⟩) k
    rw [map_map] at h1
    have e1 : (fun a : R => Trunc3.flip (Trunc3.C a)) = Trunc3.C := by
      funext a; simp [Trunc3.flip, Trunc3.C]
    have e2 : (fun k => Trunc3.flip (⟨x k, d k, 0⟩ : Trunc3 R)) = fun k => ⟨x k, - d k, 0⟩ := by
      funext q; simp [Trunc3.flip]
    rw [e1, e2] at h1
    exact h1
  -- the image of P mod h² is the dual-number evaluation
  have hD : toDual P = ⟨i.run x k, j.run d k⟩ := by
    have h1 := run_map_hom (toDual_hom (R := R)) (i.map Trunc3.C) (fun k => ⟨x k, d k, 0⟩) k
    rw [map_map] at h1
    have e1 : (fun a : R => toDual (Trunc3.C a)) = Dual.C := by
      funext a; rfl
    rw [e1] at h1
    rw [← h1]
    have h2 := run_map_re i (fun k => (⟨x k, d k⟩ : Dual R)) k
    have h3 := run_map_eps i hwf (fun k => (⟨x k, d k⟩ : Dual R)) j hj k
    exact dual_ext h2 h3
  have ha : P.a = i.run x k := congrArg Dual.re hD
  have hb : P.b = j.run d k := congrArg Dual.eps hD
  rw [hM]
  refine ⟨ha, ha, hb, ?_, rfl⟩
  show -P.b = _
  rw [hb]

end cd
end centraldiff

end OdlModel.Deriv
