/-
C06, analytic version: expression trees over OPAQUE leaves on a commutative normed `ℝ`-algebra
`𝔸` (`ℝⁿ` with the point-wise product, `ℝ`), `derivative` as coded in `operator.py`
(`is_linear` short cuts, inner points, which scalar/vector multiplies what), and the proof
that leaf-wise Fréchet derivatives give the Fréchet derivative of every tree.
THIS IS A SEPARATE TRANSCRIPTION of the nine expression-class rules, not the executed model
(`Model/Deriv.lean`, which the driver runs against /repo): it is noncomputable, all operators are
endomorphisms of ONE algebra (no dom ≠ ran, no block operators, no functionals), and nothing but
reading ties it to the code.  The theorems about it are named `…_of_leaf_hyps`.
-/
import Mathlib.Analysis.Calculus.FDeriv.Mul
import Mathlib.Analysis.Calculus.FDeriv.Add
import Mathlib.Analysis.Calculus.FDeriv.Comp
import Mathlib.Analysis.Calculus.FDeriv.Linear
import Mathlib.Analysis.Calculus.Deriv.Slope
import Mathlib.Analysis.Calculus.LineDeriv.Basic
import Mathlib.Analysis.Calculus.Deriv.Comp
import Mathlib.Analysis.Calculus.Deriv.Add

namespace OdlModel.DerivAnalytic

variable {𝔸 : Type} [NormedCommRing 𝔸] [NormedAlgebra ℝ 𝔸] {ι : Type}

/-- Opaque leaves: the map, the derivative returned by the class, the `is_linear` flag, and for
flagged leaves the operator itself as a continuous linear map (`Operator.derivative` returns
`self`). -/
structure Leaves (𝔸 : Type) [NormedCommRing 𝔸] [NormedAlgebra ℝ 𝔸] (ι : Type) where
  f : ι → 𝔸 → 𝔸
  f' : ι → 𝔸 → (𝔸 →L[ℝ] 𝔸)
  lin : ι → Bool
  A : ι → (𝔸 →L[ℝ] 𝔸)

/-- The leaf contract. -/
structure LeafOK (L : Leaves 𝔸 ι) : Prop where
  deriv : ∀ i x, L.lin i = false → HasFDerivAt (L.f i) (L.f' i x) x
  linear : ∀ i, L.lin i = true → L.f i = fun x => L.A i x

inductive Tree (𝔸 ι : Type) where
  | leaf (i : ι)
  | sum (l r : Tree 𝔸 ι)
  | vecsum (op : Tree 𝔸 ι) (v : 𝔸)
  | comp (l r : Tree 𝔸 ι)
  | lscal (op : Tree 𝔸 ι) (s : ℝ)
  | rscal (op : Tree 𝔸 ι) (s : ℝ)
  | lvec (op : Tree 𝔸 ι) (v : 𝔸)
  | rvec (op : Tree 𝔸 ι) (v : 𝔸)
  | pprod (l r : Tree 𝔸 ι)

namespace Tree
variable (L : Leaves 𝔸 ι)

def run : Tree 𝔸 ι → 𝔸 → 𝔸
  | leaf i, x => L.f i x
  | sum l r, x => l.run x + r.run x
  | vecsum op v, x => op.run x + v
  | comp l r, x => l.run (r.run x)
  | lscal op s, x => s • op.run x
  | rscal op s, x => op.run (s • x)
  | lvec op v, x => op.run x * v
  | rvec op v, x => op.run (x * v)
  | pprod l r, x => l.run x * r.run x

def isLin : Tree 𝔸 ι → Bool
  | leaf i => L.lin i
  | sum l r => l.isLin && r.isLin
  | vecsum _ _ => false
  | comp l r => l.isLin && r.isLin
  | lscal op _ => op.isLin
  | rscal op _ => op.isLin
  | lvec op _ => op.isLin
  | rvec op _ => op.isLin
  | pprod _ _ => false

/-- The operator itself as a continuous linear map (meaningful for trees flagged linear). -/
noncomputable def self : Tree 𝔸 ι → (𝔸 →L[ℝ] 𝔸)
  | leaf i => L.A i
  | sum l r => l.self + r.self
  | vecsum op _ => op.self
  | comp l r => l.self.comp r.self
  | lscal op s => s • op.self
  | rscal op s => op.self.comp (s • ContinuousLinearMap.id ℝ 𝔸)
  | lvec op v => v • op.self
  | rvec op v => op.self.comp (v • ContinuousLinearMap.id ℝ 𝔸)
  | pprod _ _ => 0

/-- `op.derivative(x)` as coded in `operator.py`. -/
noncomputable def deriv : Tree 𝔸 ι → 𝔸 → (𝔸 →L[ℝ] 𝔸)
  | leaf i, x => if L.lin i then L.A i else L.f' i x
  | sum l r, x => if l.isLin L && r.isLin L then (sum l r).self L else l.deriv x + r.deriv x
  | vecsum op _, x => op.deriv x
  | comp l r, x =>
      if l.isLin L && r.isLin L then (comp l r).self L
      else (if l.isLin L then l.self L else l.deriv (r.run L x)).comp (r.deriv x)
  | lscal op s, x => if op.isLin L then (lscal op s).self L else s • op.deriv x
  | rscal op s, x => (op.deriv (s • x)).comp (s • ContinuousLinearMap.id ℝ 𝔸)
  | lvec op v, x => if op.isLin L then (lvec op v).self L else v • op.deriv x
  | rvec op v, x =>
      if op.isLin L then (rvec op v).self L
      else (op.deriv (v * x)).comp (v • ContinuousLinearMap.id ℝ 𝔸)
  | pprod l r, x => r.run L x • l.deriv x + l.run L x • r.deriv x

variable {L}

theorem run_eq_self (h : LeafOK L) (t : Tree 𝔸 ι) : t.isLin L = true → t.run L = fun x => t.self L x := by
  induction t with
  | leaf i => intro hl; exact h.linear i hl
  | sum l r ihl ihr =>
    intro hl; simp only [isLin, Bool.and_eq_true] at hl
    funext x; simp [run, self, ihl hl.1, ihr hl.2]
  | vecsum op v ih => intro hl; simp [isLin] at hl
  | comp l r ihl ihr =>
    intro hl; simp only [isLin, Bool.and_eq_true] at hl
    funext x; simp [run, self, ihl hl.1, ihr hl.2]
  | lscal op s ih => intro hl; funext x; simp [run, self, ih hl]
  | rscal op s ih => intro hl; funext x; simp [run, self, ih hl]
  | lvec op v ih => intro hl; funext x; simp [run, self, ih hl, mul_comm]
  | rvec op v ih => intro hl; funext x; simp [run, self, ih hl, mul_comm]
  | pprod l r _ _ => intro hl; simp [isLin] at hl

theorem hasFDerivAt_of_isLin (h : LeafOK L) (t : Tree 𝔸 ι) (hl : t.isLin L = true) (x : 𝔸) :
    HasFDerivAt (t.run L) (t.self L) x := by
  rw [run_eq_self h t hl]; exact (t.self L).hasFDerivAt

theorem deriv_sound (h : LeafOK L) (t : Tree 𝔸 ι) : ∀ x, HasFDerivAt (t.run L) (t.deriv L x) x := by
  induction t with
  | leaf i =>
    intro x; simp only [deriv]
    split
    · rename_i hl; exact hasFDerivAt_of_isLin h (leaf i) hl x
    · rename_i hl; exact h.deriv i x (by simpa using hl)
  | sum l r ihl ihr =>
    intro x; simp only [deriv]
    split
    · rename_i hl; exact hasFDerivAt_of_isLin h (sum l r) hl x
    · exact (ihl x).add (ihr x)
  | vecsum op v ih => intro x; exact (ih x).add_const v
  | comp l r ihl ihr =>
    intro x; simp only [deriv]
    split
    · rename_i hl; exact hasFDerivAt_of_isLin h (comp l r) hl x
    · split
      · rename_i hl
        exact (hasFDerivAt_of_isLin h l hl (r.run L x)).comp x (ihr x)
      · exact (ihl (r.run L x)).comp x (ihr x)
  | lscal op s ih =>
    intro x; simp only [deriv]
    split
    · rename_i hl; exact hasFDerivAt_of_isLin h (lscal op s) hl x
    · exact (ih x).const_smul s
  | rscal op s ih =>
    intro x; simp only [deriv]
    have h1 : HasFDerivAt (fun y : 𝔸 => s • y) (s • ContinuousLinearMap.id ℝ 𝔸) x :=
      (hasFDerivAt_id x).const_smul s
    exact (ih (s • x)).comp x h1
  | lvec op v ih =>
    intro x; simp only [deriv]
    split
    · rename_i hl; exact hasFDerivAt_of_isLin h (lvec op v) hl x
    · exact (ih x).mul_const v
  | rvec op v ih =>
    intro x; simp only [deriv]
    split
    · rename_i hl; exact hasFDerivAt_of_isLin h (rvec op v) hl x
    · have h1 : HasFDerivAt (fun y : 𝔸 => y * v) (v • ContinuousLinearMap.id ℝ 𝔸) x :=
        (hasFDerivAt_id x).mul_const v
      have h2 := (ih (x * v)).comp x h1
      rw [mul_comm v x]
      exact h2
  | pprod l r ihl ihr =>
    intro x; simp only [deriv]
    have := (ihl x).mul (ihr x)
    rw [add_comm]
    exact this

end Tree

open Filter Topology in

theorem central_diff_tendsto_of_hasDerivAt {F : Type} [NormedAddCommGroup F] [NormedSpace ℝ F]
    (g : ℝ → F) (g' : F) (hg : HasDerivAt g g' 0) :
    Tendsto (fun h : ℝ => (2 * h)⁻¹ • (g h - g (-h))) (𝓝[≠] 0) (𝓝 g') := by
  have h1 : Tendsto (fun t : ℝ => t⁻¹ • (g (0 + t) - g 0)) (𝓝[≠] 0) (𝓝 g') :=
    hg.tendsto_slope_zero
  have hneg : HasDerivAt (fun t : ℝ => g (-t)) (-g') 0 := by
    have := HasDerivAt.scomp (𝕜 := ℝ) (x := (0:ℝ)) (h := fun t : ℝ => -t) (g₁ := g) (g₁' := g')
      (h' := -1) (by simpa using hg) (by simpa using (hasDerivAt_neg (0:ℝ)))
    simpa [Function.comp_def] using this
  have h2 : Tendsto (fun t : ℝ => t⁻¹ • (g (-(0 + t)) - g (-0))) (𝓝[≠] 0) (𝓝 (-g')) :=
    hneg.tendsto_slope_zero
  have h3 := (h1.sub h2).const_smul (2⁻¹ : ℝ)
  have e : (2⁻¹ : ℝ) • (g' - -g') = g' := by
    rw [sub_neg_eq_add, ← two_smul ℝ g', smul_smul]; norm_num
  rw [e] at h3
  refine h3.congr' ?_
  filter_upwards [self_mem_nhdsWithin] with h hh
  simp only [zero_add, neg_zero]
  rw [← smul_sub, smul_smul, mul_inv, mul_comm]
  congr 1
  abel

open Filter Topology in
/-- Central differences of a Fréchet-differentiable map converge to the derivative. -/
theorem central_diff_tendsto_of_hasFDerivAt {E F : Type} [NormedAddCommGroup E] [NormedSpace ℝ E]
    [NormedAddCommGroup F] [NormedSpace ℝ F] (f : E → F) (f' : E →L[ℝ] F) (x d : E)
    (hf : HasFDerivAt f f' x) :
    Tendsto (fun h : ℝ => (2 * h)⁻¹ • (f (x + h • d) - f (x - h • d))) (𝓝[≠] 0) (𝓝 (f' d)) := by
  have hl : HasDerivAt (fun s : ℝ => f (x + s • d)) (f' d) 0 := hf.hasLineDerivAt d
  have := central_diff_tendsto_of_hasDerivAt (fun s : ℝ => f (x + s • d)) (f' d) hl
  simpa [sub_eq_add_neg] using this

end OdlModel.DerivAnalytic
