/-
Helper lemmas for C16: Python slices in range resolve to the expected index blocks, and each
branch of `assignIntersection` / `applyPadding` has a closed form as an index map.
-/
import OdlModel.Model.Resize
import Mathlib.Tactic.Ring
import Mathlib.Tactic.Linarith
import Mathlib.Algebra.BigOperators.Intervals
import Mathlib.Algebra.BigOperators.Ring.Finset
open OdlModel.Resize OdlModel.Gen

set_option linter.unusedTactic false
set_option linter.unreachableTactic false
set_option linter.unusedVariables false
set_option linter.unnecessarySeqFocus false

namespace OdlModel.Resize

theorem pySlice_full (len : Nat) : pySlice .full len = ⟨0, len, false⟩ := by
  simp [pySlice, SliceSpec.full]

theorem pySlice_fwd (a b : Int) (len : Nat) (h0 : 0 ≤ a) (h1 : a ≤ b) (h2 : b ≤ len) :
    pySlice ⟨some a, some b, false⟩ len = ⟨a, (b - a).toNat, false⟩ := by
  simp only [pySlice]
  split_ifs <;> simp_all <;> omega

theorem pySlice_upto (b : Int) (len : Nat) (h0 : 0 ≤ b) (h2 : b ≤ len) :
    pySlice ⟨none, some b, false⟩ len = ⟨0, b.toNat, false⟩ := by
  simp only [pySlice]
  split_ifs <;> simp_all <;> omega

theorem pySlice_from (a : Int) (len : Nat) (h0 : 0 ≤ a) (h2 : a ≤ len) :
    pySlice ⟨some a, none, false⟩ len = ⟨a, ((len : Int) - a).toNat, false⟩ := by
  simp only [pySlice]
  split_ifs <;> simp_all <;> omega

theorem pySlice_rev (a b : Int) (len : Nat) (h0 : 0 ≤ b) (h1 : b ≤ a) (h2 : a < len) :
    pySlice ⟨some a, some b, true⟩ len = ⟨a, (a - b).toNat, true⟩ := by
  simp only [pySlice]
  split_ifs <;> simp_all <;> omega

theorem pySlice_rev_none (a : Int) (len : Nat) (h0 : 0 ≤ a) (h2 : a < len) :
    pySlice ⟨some a, none, true⟩ len = ⟨a, (a + 1).toNat, true⟩ := by
  simp only [pySlice]
  split_ifs <;> simp_all <;> omega

theorem pySlice_rev_fix (a b : Int) (len : Nat) (ha : 0 ≤ a) (h0 : -1 ≤ b) (h1 : b ≤ a)
    (h2 : a < len) :
    pySlice ⟨some a, noneIfMinusOne b, true⟩ len = ⟨a, (a - b).toNat, true⟩ := by
  unfold noneIfMinusOne
  split_ifs with hb
  · rw [pySlice_rev_none a len ha h2]; subst hb; simp
  · exact pySlice_rev _ _ _ (by omega) h1 h2

variable {K : Type}

theorem assignIntersection_grow (lhs rhs : Nat → K) (nL nR off : Nat) (h : nR < nL)
    (hoff : off + nR ≤ nL) :
    assignIntersection lhs nL rhs nR off =
      fun i => if off ≤ i ∧ i < off + nR then rhs (i - off) else lhs i := by
  funext i
  have hmin : min nL nR = nR := by omega
  simp only [assignIntersection, hmin, if_pos h, pySlice_full]
  rw [pySlice_fwd _ _ _ (by omega) (by omega) (by omega)]
  simp only [setSlc, getS, Slc.rel, Slc.idx, Bool.false_eq_true, ↓reduceIte]
  split_ifs <;> first | rfl | omega | (congr 1 <;> omega)


theorem assignIntersection_shrink (lhs rhs : Nat → K) (nL nR off : Nat) (h : nL < nR)
    (hoff : off + nL ≤ nR) :
    assignIntersection lhs nL rhs nR off =
      fun i => if i < nL then rhs (off + i) else lhs i := by
  funext i
  have hmin : min nL nR = nL := by omega
  simp only [assignIntersection, hmin, if_neg (Nat.not_lt.2 (Nat.le_of_lt h)), if_pos h, pySlice_full]
  rw [pySlice_fwd _ _ _ (by omega) (by omega) (by omega)]
  simp only [setSlc, getS, Slc.rel, Slc.idx, Bool.false_eq_true, ↓reduceIte]
  split_ifs <;> first | rfl | omega | (congr 1 <;> omega)

theorem assignIntersection_same (lhs rhs : Nat → K) (n off : Nat) :
    assignIntersection lhs n rhs n off = fun i => if i < n then rhs i else lhs i := by
  funext i
  simp only [assignIntersection, Nat.lt_irrefl, ↓reduceIte, pySlice_full]
  simp only [setSlc, getS, Slc.rel, Slc.idx, Bool.false_eq_true, ↓reduceIte]
  split_ifs <;> first | rfl | omega | (congr 1 <;> omega)

section pad
variable [Zero K] [Add K] [Sub K] [Mul K] [IntCast K]

theorem applyPadding_periodic_fwd (lhs : Nat → K) (nL nR off : Nat) (h : nR < nL)
    (hoff : off + nR ≤ nL) (hl : off ≤ nR) (hr : nL - nR - off ≤ nR) :
    applyPadding .periodic .forward lhs nL nR off =
      fun i => if i < off then lhs (i + nR)
               else if off + nR ≤ i ∧ i < nL then lhs (i - nR) else lhs i := by
  funext i
  have hmin : min nL nR = nR := by omega
  have hmax : max nL nR = nL := by omega
  simp only [applyPadding, if_neg (Nat.not_le.2 h), hmin, hmax, PadSlices.outer, PadSlices.inner]
  rw [pySlice_upto _ _ (by omega) (by omega), pySlice_from _ _ (by omega) (by omega),
    pySlice_fwd _ _ _ (by omega) (by omega) (by omega),
    pySlice_fwd _ _ _ (by omega) (by omega) (by omega)]
  simp only [setSlc, getS, Slc.rel, Slc.idx, Bool.false_eq_true, ↓reduceIte]
  split_ifs <;> first | rfl | omega | (congr 1 <;> omega)

theorem applyPadding_symmetric_fwd (lhs : Nat → K) (nL nR off : Nat) (h : nR < nL)
    (hoff : off + nR ≤ nL) (hl : off < nR) (hr : nL - nR - off < nR) :
    applyPadding .symmetric .forward lhs nL nR off =
      fun i => if i < off then lhs (2 * off - i)
               else if off + nR ≤ i ∧ i < nL then lhs (2 * (off + nR - 1) - i) else lhs i := by
  funext i
  have hmin : min nL nR = nR := by omega
  have hmax : max nL nR = nL := by omega
  simp only [applyPadding, if_neg (Nat.not_le.2 h), hmin, hmax, PadSlices.outer, PadSlices.inner]
  rw [pySlice_upto _ _ (by omega) (by omega), pySlice_from _ _ (by omega) (by omega),
    pySlice_rev _ _ _ (by omega) (by omega) (by omega),
    pySlice_rev_fix _ _ _ (by omega) (by omega) (by omega) (by omega)]
  simp only [setSlc, getS, Slc.rel, Slc.idx, Bool.false_eq_true, ↓reduceIte]
  split_ifs <;> first | rfl | omega | (congr 1 <;> omega)

theorem applyPadding_order0_fwd (lhs : Nat → K) (nL nR off : Nat) (h : nR < nL)
    (hoff : off + nR ≤ nL) (hn : 1 ≤ nR) :
    applyPadding .order0 .forward lhs nL nR off =
      fun i => if i < off then lhs off
               else if off + nR ≤ i ∧ i < nL then lhs (off + nR - 1) else lhs i := by
  funext i
  have hmin : min nL nR = nR := by omega
  have hmax : max nL nR = nL := by omega
  simp only [applyPadding, if_neg (Nat.not_le.2 h), hmin, hmax, PadSlices.outer, PadSlices.inner]
  rw [pySlice_upto _ _ (by omega) (by omega), pySlice_from _ _ (by omega) (by omega),
    pySlice_fwd _ _ _ (by omega) (by omega) (by omega),
    pySlice_fwd _ _ _ (by omega) (by omega) (by omega)]
  simp only [setSlc, getS, Slc.rel, Slc.idx, Bool.false_eq_true, ↓reduceIte]
  split_ifs <;> first | rfl | omega | (congr 1 <;> omega)

end pad

section padring
variable [CommRing K]

theorem applyPadding_periodic_adj (lhs : Nat → K) (nL nR off : Nat) (h : nR < nL)
    (hoff : off + nR ≤ nL) (hl : off ≤ nR) (hr : nL - nR - off ≤ nR) :
    applyPadding .periodic .adjoint lhs nL nR off =
      fun i => lhs i + (if nR ≤ i ∧ i < nR + off then lhs (i - nR) else 0)
                     + (if off ≤ i ∧ i + nR < nL then lhs (i + nR) else 0) := by
  funext i
  have hmin : min nL nR = nR := by omega
  have hmax : max nL nR = nL := by omega
  simp only [applyPadding, if_neg (Nat.not_le.2 h), hmin, hmax, PadSlices.outer, PadSlices.inner]
  rw [pySlice_upto _ _ (by omega) (by omega), pySlice_from _ _ (by omega) (by omega),
    pySlice_fwd _ _ _ (by omega) (by omega) (by omega),
    pySlice_fwd _ _ _ (by omega) (by omega) (by omega)]
  simp only [addSlc, getS, Slc.rel, Slc.idx, Bool.false_eq_true, ↓reduceIte]
  split_ifs <;> grind

theorem sumN_congr {n : Nat} {f g : Nat → K} (h : ∀ k < n, f k = g k) : sumN n f = sumN n g := by
  induction n with
  | zero => rfl
  | succ n ih =>
    simp only [sumN]
    rw [ih (fun k hk => h k (by omega)), h n (by omega)]

theorem applyPadding_order0_adj (lhs : Nat → K) (nL nR off : Nat) (h : nR < nL)
    (hoff : off + nR ≤ nL) (hn : 1 ≤ nR) :
    applyPadding .order0 .adjoint lhs nL nR off =
      fun i => lhs i + (if i = off then sumN off lhs else 0)
                     + (if i = off + nR - 1 then
                          sumN (nL - nR - off) (fun k => lhs (off + nR + k)) else 0) := by
  funext i
  have hmin : min nL nR = nR := by omega
  have hmax : max nL nR = nL := by omega
  simp only [applyPadding, if_neg (Nat.not_le.2 h), hmin, hmax, PadSlices.outer, PadSlices.inner]
  rw [pySlice_upto _ _ (by omega) (by omega), pySlice_from _ _ (by omega) (by omega),
    pySlice_fwd _ _ _ (by omega) (by omega) (by omega),
    pySlice_fwd _ _ _ (by omega) (by omega) (by omega)]
  have c1 : ((off : Int) + 1 - off).toNat = 1 := by omega
  have c2 : ((off : Int) + nR - (off + nR - 1)).toNat = 1 := by omega
  have c3 : ((nL : Int) - (off + nR)).toNat = nL - nR - off := by omega
  have c4 : ((off : Int)).toNat = off := by omega
  rw [c1, c2, c3, c4]
  have e1 : sumN off (getS lhs ⟨0, off, false⟩) = sumN off lhs :=
    sumN_congr (fun k _ => by simp [getS, Slc.idx])
  have e2 : ∀ v : Nat → K, sumN (nL - nR - off)
      (getS (addSlc lhs ⟨off, 1, false⟩ v) ⟨(off : Int) + nR, nL - nR - off, false⟩) =
      sumN (nL - nR - off) (fun k => lhs (off + nR + k)) := by
    intro v
    apply sumN_congr
    intro k _
    simp only [getS, addSlc, Slc.idx, Slc.rel, Bool.false_eq_true, ↓reduceIte]
    split_ifs <;> first | omega | (congr 1 <;> omega)
  rw [e1, e2]
  simp only [addSlc, Slc.rel, Bool.false_eq_true, ↓reduceIte]
  split_ifs <;> first | omega | grind
theorem applyPadding_symmetric_adj (lhs : Nat → K) (nL nR off : Nat) (h : nR < nL)
    (hoff : off + nR ≤ nL) (hl : off < nR) (hr : nL - nR - off < nR) :
    applyPadding .symmetric .adjoint lhs nL nR off =
      fun i => lhs i + (if off < i ∧ i ≤ 2 * off then lhs (2 * off - i) else 0)
                     + (if i + 2 ≤ off + nR ∧ 2 * (off + nR) - 2 - i < nL
                          then lhs (2 * (off + nR) - 2 - i) else 0) := by
  funext i
  have hmin : min nL nR = nR := by omega
  have hmax : max nL nR = nL := by omega
  simp only [applyPadding, if_neg (Nat.not_le.2 h), hmin, hmax, PadSlices.outer, PadSlices.inner]
  rw [pySlice_upto _ _ (by omega) (by omega), pySlice_from _ _ (by omega) (by omega),
    pySlice_rev _ _ _ (by omega) (by omega) (by omega),
    pySlice_rev_fix _ _ _ (by omega) (by omega) (by omega) (by omega)]
  simp only [addSlc, getS, Slc.rel, Slc.idx, Bool.false_eq_true, ↓reduceIte]
  split_ifs <;> grind

theorem applyPadding_order1_fwd (lhs : Nat → K) (nL nR off : Nat) (h : nR < nL)
    (hoff : off + nR ≤ nL) (hn : 2 ≤ nR) :
    applyPadding .order1 .forward lhs nL nR off =
      fun i => if i < off then
                 lhs off + (((i : Int) - off : Int) : K) * (lhs (off + 1) - lhs off)
               else if off + nR ≤ i ∧ i < nL then
                 lhs (off + nR - 1) + (((i : Int) - (off + nR - 1) : Int) : K) *
                   (lhs (off + nR - 1) - lhs (off + nR - 2))
               else lhs i := by
  funext i
  have hmin : min nL nR = nR := by omega
  have hmax : max nL nR = nL := by omega
  simp only [applyPadding, if_neg (Nat.not_le.2 h), hmin, hmax, PadSlices.outer, PadSlices.inner,
    PadSlices.nPadL, PadSlices.nPadR, SliceSpec.widenStop, SliceSpec.widenStart, Option.map]
  rw [pySlice_upto _ _ (by omega) (by omega), pySlice_from _ _ (by omega) (by omega),
    pySlice_fwd _ _ _ (by omega) (by omega) (by omega),
    pySlice_fwd _ _ _ (by omega) (by omega) (by omega),
    pySlice_fwd _ _ _ (by omega) (by omega) (by omega),
    pySlice_fwd _ _ _ (by omega) (by omega) (by omega)]
  simp only [setSlc, getS, Slc.rel, Slc.idx, Bool.false_eq_true, ↓reduceIte]
  split_ifs <;> repeat' (first | rfl | omega | congr 1)


theorem applyPadding_order1_adj (lhs : Nat → K) (nL nR off : Nat) (h : nR < nL)
    (hoff : off + nR ≤ nL) (hn : 2 ≤ nR) :
    applyPadding .order1 .adjoint lhs nL nR off =
      fun i =>
        let SL := sumN off lhs
        let SR := sumN (nL - nR - off) (fun k => lhs (off + nR + k))
        let ML := sumN off (fun k => (((k : Int) - off : Int) : K) * lhs k)
        let MR := sumN (nL - nR - off) (fun k => (((k : Int) + 1 : Int) : K) * lhs (off + nR + k))
        lhs i + (if i = off then SL else 0) + (if i = off + nR - 1 then SR else 0)
          + (if i = off then -ML else if i = off + 1 then ML else 0)
          + (if i = off + nR - 2 then -MR else if i = off + nR - 1 then MR else 0) := by
  funext i
  have hmin : min nL nR = nR := by omega
  have hmax : max nL nR = nL := by omega
  simp only [applyPadding, if_neg (Nat.not_le.2 h), hmin, hmax, PadSlices.outer, PadSlices.inner,
    PadSlices.nPadL, PadSlices.nPadR, SliceSpec.widenStop, SliceSpec.widenStart, Option.map]
  rw [pySlice_upto _ _ (by omega) (by omega), pySlice_from _ _ (by omega) (by omega),
    pySlice_fwd _ _ _ (by omega) (by omega) (by omega),
    pySlice_fwd _ _ _ (by omega) (by omega) (by omega),
    pySlice_fwd _ _ _ (by omega) (by omega) (by omega),
    pySlice_fwd _ _ _ (by omega) (by omega) (by omega)]
  have c1 : ((off : Int) + 1 - off).toNat = 1 := by omega
  have c2 : ((off : Int) + nR - (off + nR - 1)).toNat = 1 := by omega
  have c3 : ((nL : Int) - (off + nR)).toNat = nL - nR - off := by omega
  have c4 : ((off : Int)).toNat = off := by omega
  have c5 : ((off : Int) + 1 + 1 - off).toNat = 2 := by omega
  have c6 : ((off : Int) + nR - (off + nR - 1 - 1)).toNat = 2 := by omega
  rw [c1, c2, c3, c4, c5, c6]
  have e1 : sumN off (getS lhs ⟨0, off, false⟩) = sumN off lhs :=
    sumN_congr (fun k _ => by simp [getS, Slc.idx])
  have e2 : ∀ v : Nat → K, sumN (nL - nR - off)
      (getS (addSlc lhs ⟨off, 1, false⟩ v) ⟨(off : Int) + nR, nL - nR - off, false⟩) =
      sumN (nL - nR - off) (fun k => lhs (off + nR + k)) := by
    intro v
    apply sumN_congr
    intro k _
    simp only [getS, addSlc, Slc.idx, Slc.rel, Bool.false_eq_true, ↓reduceIte]
    split_ifs <;> first | omega | (congr 1 <;> omega)
  have e3 : ∀ v w : Nat → K, sumN off (fun k => (((-(off : Int) + (k : Int) : Int) : K)) *
      getS (addSlc (addSlc lhs ⟨off, 1, false⟩ v) ⟨(off : Int) + nR - 1, 1, false⟩ w)
        ⟨0, off, false⟩ k) =
      sumN off (fun k => (((k : Int) - off : Int) : K) * lhs k) := by
    intro v w
    apply sumN_congr
    intro k _
    simp only [getS, addSlc, Slc.idx, Slc.rel, Bool.false_eq_true, ↓reduceIte]
    split_ifs <;> first | omega | (repeat' (first | rfl | omega | congr 1))
  have e4 : ∀ v w : Nat → K, sumN (nL - nR - off) (fun k => (((1 + (k : Int) : Int) : K)) *
      getS (addSlc (addSlc lhs ⟨off, 1, false⟩ v) ⟨(off : Int) + nR - 1, 1, false⟩ w)
        ⟨(off : Int) + nR, nL - nR - off, false⟩ k) =
      sumN (nL - nR - off) (fun k => (((k : Int) + 1 : Int) : K) * lhs (off + nR + k)) := by
    intro v w
    apply sumN_congr
    intro k _
    simp only [getS, addSlc, Slc.idx, Slc.rel, Bool.false_eq_true, ↓reduceIte]
    split_ifs <;> first | omega | (repeat' (first | rfl | omega | congr 1))
  rw [e1, e2, e3, e4]
  simp only [addSlc, Slc.rel, Bool.false_eq_true, ↓reduceIte]
  generalize sumN off lhs = SL
  generalize (sumN (nL - nR - off) fun k => lhs (off + nR + k)) = SR
  generalize (sumN off fun k => (((k : Int) - off : Int) : K) * lhs k) = ML
  generalize (sumN (nL - nR - off) fun k => (((k : Int) + 1 : Int) : K) * lhs (off + nR + k)) = MR
  generalize lhs i = a
  have k1 : (0 ≤ (i : Int) - off ∧ (i : Int) - off < ((1 : Nat) : Int)) ↔ i = off := by omega
  have k2 : (0 ≤ (i : Int) - (off + nR - 1) ∧ (i : Int) - (off + nR - 1) < ((1 : Nat) : Int)) ↔
      i = off + nR - 1 := by omega
  have k3 : (0 ≤ (i : Int) - off ∧ (i : Int) - off < ((2 : Nat) : Int)) ↔
      (i = off ∨ i = off + 1) := by omega
  have k4 : (0 ≤ (i : Int) - (off + nR - 1 - 1) ∧ (i : Int) - (off + nR - 1 - 1) < ((2 : Nat) : Int)) ↔
      (i = off + nR - 2 ∨ i = off + nR - 1) := by omega
  have k5 : ((i : Int) - off).toNat = 0 ↔ i ≤ off := by omega
  have k6 : ((i : Int) - (off + nR - 1 - 1)).toNat = 0 ↔ i ≤ off + nR - 2 := by omega
  simp only [k1, k2, k3, k4, k5, k6]
  split_ifs <;> first | omega | (push_cast; ring)

open Finset

theorem sumN_eq_sum (n : Nat) (f : Nat → K) : sumN n f = ∑ i ∈ range n, f i := by
  induction n with
  | zero => simp [sumN]
  | succ n ih => simp [sumN, sum_range_succ, ih]

theorem sum_split3 (a b c : Nat) (f : Nat → K) :
    ∑ i ∈ range (a + b + c), f i =
      ∑ i ∈ range a, f i + ∑ j ∈ range b, f (a + j) + ∑ k ∈ range c, f (a + b + k) := by
  rw [sum_range_add, sum_range_add]

theorem sum_scatter (m n : Nat) (src : Nat → Nat) (hsrc : ∀ i < m, src i < n) (x y : Nat → K) :
    ∑ i ∈ range m, y i * x (src i) =
      ∑ j ∈ range n, x j * ∑ i ∈ range m, (if src i = j then y i else 0) := by
  simp_rw [mul_sum]
  rw [sum_comm]
  apply sum_congr rfl
  intro i hi
  have := hsrc i (mem_range.1 hi)
  simp only [mul_ite, mul_zero]
  rw [sum_ite_eq]
  simp [this, mul_comm]

theorem sum_pick (p : Nat) (g : Nat → Nat) (j i0 : Nat) (f : Nat → K)
    (h : ∀ i < p, (g i = j ↔ i = i0)) :
    ∑ i ∈ range p, (if g i = j then f i else 0) = if i0 < p then f i0 else 0 := by
  have : ∑ i ∈ range p, (if g i = j then f i else 0) = ∑ i ∈ range p, (if i0 = i then f i else 0) := by
    apply sum_congr rfl
    intro i hi
    have := h i (mem_range.1 hi)
    by_cases hg : g i = j
    · have := this.1 hg; subst this; simp [hg]
    · have : ¬ (i0 = i) := fun e => hg (this.2 e.symm)
      simp [hg, this]
  rw [this, sum_ite_eq]
  simp

theorem sum_const_cond (p : Nat) (c : Prop) [Decidable c] (f : Nat → K) :
    ∑ i ∈ range p, (if c then f i else 0) = if c then ∑ i ∈ range p, f i else 0 := by
  split_ifs <;> simp


/-- piecewise form of NumPy's `wrap` index map when neither padding exceeds `n` -/
def srcPeriodic (n off i : Nat) : Nat :=
  if i < off then i + n - off else if off + n ≤ i then i - n - off else i - off
/-- piecewise form of NumPy's `reflect` index map when both paddings are `< n` -/
def srcSymmetric (n off i : Nat) : Nat :=
  if i < off then off - i else if off + n ≤ i then 2 * (n - 1) - (i - off) else i - off
/-- NumPy's `edge` index map -/
def srcEdge (n off i : Nat) : Nat :=
  if i < off then 0 else if off + n ≤ i then n - 1 else i - off

theorem emod_shift (t n k : Int) (h0 : 0 ≤ t + k * n) (h1 : t + k * n < n) :
    t % n = t + k * n := by
  rw [← Int.add_mul_emod_self_right t k n]
  exact Int.emod_eq_of_lt h0 h1

theorem wrap_eq_src (n off i : Nat) (hn : 0 < n) (hl : off ≤ n) (hi : i < off + n + n) :
    (((i : Int) - off) % (n : Int)).toNat = srcPeriodic n off i := by
  simp only [srcPeriodic]
  split_ifs with h1 h2
  · rw [emod_shift _ _ 1 (by omega) (by omega)]; omega
  · rw [emod_shift _ _ (-1) (by omega) (by omega)]; omega
  · rw [emod_shift _ _ 0 (by omega) (by omega)]; omega

theorem reflect_eq_src (n off i : Nat) (hn : 2 ≤ n) (hl : off < n) (hi : i < off + n + (n - 1)) :
    reflectIdx ((i : Int) - off) n = srcSymmetric n off i := by
  simp only [srcSymmetric, reflectIdx]
  have hp : (0 : Int) < 2 * ((n : Int) - 1) := by omega
  by_cases h1 : i < off
  · have hm := emod_shift ((i : Int) - off) (2 * ((n : Int) - 1)) 1 (by omega) (by omega)
    rw [hm]; simp only [h1, ↓reduceIte]; split_ifs <;> omega
  · by_cases h2 : off + n ≤ i
    · by_cases h3 : (i : Int) - off = 2 * ((n : Int) - 1)
      · have hm := emod_shift ((i : Int) - off) (2 * ((n : Int) - 1)) (-1) (by omega) (by omega)
        rw [hm]; simp only [h1, h2, ↓reduceIte]; split_ifs <;> omega
      · have hm := emod_shift ((i : Int) - off) (2 * ((n : Int) - 1)) 0 (by omega) (by omega)
        rw [hm]; simp only [h1, h2, ↓reduceIte]; split_ifs <;> omega
    · have hm := emod_shift ((i : Int) - off) (2 * ((n : Int) - 1)) 0 (by omega) (by omega)
      rw [hm]; simp only [h1, h2, ↓reduceIte]; split_ifs <;> omega

section core
variable [DecidableEq K]

theorem core_periodic_fwd (n m off : Nat) (c : K) (x : Nat → K) (h : n < m) (hoff : off + n ≤ m)
    (hl : off ≤ n) (hr : m - n - off ≤ n) (i : Nat) (hi : i < m) :
    resizeCore .periodic .forward n m off c x i = x (srcPeriodic n off i) := by
  simp only [resizeCore, reduceCtorEq, ↓reduceIte]
  rw [applyPadding_periodic_fwd _ _ _ _ h hoff hl hr, assignIntersection_grow _ _ _ _ _ h hoff]
  simp only [srcPeriodic]
  split_ifs <;> first | omega | (congr 1 <;> omega)

theorem core_periodic_adj (n m off : Nat) (c : K) (y : Nat → K) (h : n < m) (hoff : off + n ≤ m)
    (hl : off ≤ n) (hr : m - n - off ≤ n) (j : Nat) (hj : j < n) :
    resizeCore .periodic .adjoint m n off c y j =
      y (off + j) + (if n ≤ off + j then y (off + j - n) else 0)
        + (if off + j + n < m then y (off + j + n) else 0) := by
  simp only [resizeCore, reduceCtorEq, ↓reduceIte]
  rw [applyPadding_periodic_adj _ _ _ _ h hoff hl hr, assignIntersection_shrink _ _ _ _ _ h hoff]
  simp only [hj, ↓reduceIte]
  split_ifs <;> first | rfl | omega | grind

theorem periodic_transpose (n m off : Nat) (x y : Nat → K) (h : n < m) (hoff : off + n ≤ m)
    (hl : off ≤ n) (hr : m - n - off ≤ n) :
    ∑ i ∈ range m, y i * resizeCore .periodic .forward n m off 0 x i =
      ∑ j ∈ range n, x j * resizeCore .periodic .adjoint m n off 0 y j := by
  rw [sum_congr rfl (fun i hi => by
    rw [core_periodic_fwd n m off 0 x h hoff hl hr i (mem_range.1 hi)])]
  rw [sum_congr rfl (fun j hj => by
    rw [core_periodic_adj n m off 0 y h hoff hl hr j (mem_range.1 hj)]) (s₂ := range n)]
  rw [sum_scatter m n (srcPeriodic n off) (by
    intro i hi; simp only [srcPeriodic]; split_ifs <;> omega)]
  apply sum_congr rfl
  intro j hj
  have hj := mem_range.1 hj
  congr 1
  obtain ⟨r, rfl⟩ : ∃ r, m = off + n + r := ⟨m - off - n, by omega⟩
  rw [sum_split3]
  rw [sum_pick off (srcPeriodic n off) j (if n ≤ off + j then off + j - n else off) y (by
    intro i hi; simp only [srcPeriodic]; split_ifs <;> omega)]
  rw [sum_pick n (fun k => srcPeriodic n off (off + k)) j j (fun k => y (off + k)) (by
    intro i hi; simp only [srcPeriodic]; split_ifs <;> omega)]
  rw [sum_pick r (fun k => srcPeriodic n off (off + n + k)) j j (fun k => y (off + n + k)) (by
    intro i hi; simp only [srcPeriodic]; split_ifs <;> omega)]
  split_ifs <;> first | omega | grind

theorem core_symmetric_fwd (n m off : Nat) (c : K) (x : Nat → K) (h : n < m) (hoff : off + n ≤ m)
    (hl : off < n) (hr : m - n - off < n) (i : Nat) (hi : i < m) :
    resizeCore .symmetric .forward n m off c x i = x (srcSymmetric n off i) := by
  simp only [resizeCore, reduceCtorEq, ↓reduceIte]
  rw [applyPadding_symmetric_fwd _ _ _ _ h hoff hl hr, assignIntersection_grow _ _ _ _ _ h hoff]
  simp only [srcSymmetric]
  split_ifs <;> first | omega | (congr 1 <;> omega)

theorem core_symmetric_adj (n m off : Nat) (c : K) (y : Nat → K) (h : n < m) (hoff : off + n ≤ m)
    (hl : off < n) (hr : m - n - off < n) (j : Nat) (hj : j < n) :
    resizeCore .symmetric .adjoint m n off c y j =
      y (off + j) + (if 0 < j ∧ j ≤ off then y (off - j) else 0)
        + (if j + 2 ≤ n ∧ off + 2 * n - 2 - j < m then y (off + 2 * n - 2 - j) else 0) := by
  simp only [resizeCore, reduceCtorEq, ↓reduceIte]
  rw [applyPadding_symmetric_adj _ _ _ _ h hoff hl hr, assignIntersection_shrink _ _ _ _ _ h hoff]
  simp only [hj, ↓reduceIte]
  split_ifs <;> first | rfl | omega | grind

theorem symmetric_transpose (n m off : Nat) (x y : Nat → K) (h : n < m) (hoff : off + n ≤ m)
    (hl : off < n) (hr : m - n - off < n) :
    ∑ i ∈ range m, y i * resizeCore .symmetric .forward n m off 0 x i =
      ∑ j ∈ range n, x j * resizeCore .symmetric .adjoint m n off 0 y j := by
  rw [sum_congr rfl (fun i hi => by
    rw [core_symmetric_fwd n m off 0 x h hoff hl hr i (mem_range.1 hi)])]
  rw [sum_congr rfl (fun j hj => by
    rw [core_symmetric_adj n m off 0 y h hoff hl hr j (mem_range.1 hj)]) (s₂ := range n)]
  rw [sum_scatter m n (srcSymmetric n off) (by
    intro i hi; simp only [srcSymmetric]; split_ifs <;> omega)]
  apply sum_congr rfl
  intro j hj
  have hj := mem_range.1 hj
  congr 1
  obtain ⟨r, rfl⟩ : ∃ r, m = off + n + r := ⟨m - off - n, by omega⟩
  rw [sum_split3]
  rw [sum_pick off (srcSymmetric n off) j (if 0 < j ∧ j ≤ off then off - j else off) y (by
    intro i hi; simp only [srcSymmetric]; split_ifs <;> omega)]
  rw [sum_pick n (fun k => srcSymmetric n off (off + k)) j j (fun k => y (off + k)) (by
    intro i hi; simp only [srcSymmetric]; split_ifs <;> omega)]
  rw [sum_pick r (fun k => srcSymmetric n off (off + n + k)) j
    (if j + 2 ≤ n then n - 2 - j else r) (fun k => y (off + n + k)) (by
    intro i hi; simp only [srcSymmetric]; split_ifs <;> omega)]
  split_ifs <;> first | omega | grind

theorem core_order0_fwd (n m off : Nat) (c : K) (x : Nat → K) (h : n < m) (hoff : off + n ≤ m)
    (hn : 1 ≤ n) (i : Nat) (hi : i < m) :
    resizeCore .order0 .forward n m off c x i = x (srcEdge n off i) := by
  simp only [resizeCore, reduceCtorEq, ↓reduceIte]
  rw [applyPadding_order0_fwd _ _ _ _ h hoff hn, assignIntersection_grow _ _ _ _ _ h hoff]
  simp only [srcEdge]
  split_ifs <;> first | omega | (congr 1 <;> omega)

theorem core_order0_adj (n m off : Nat) (c : K) (y : Nat → K) (h : n < m) (hoff : off + n ≤ m)
    (hn : 1 ≤ n) (j : Nat) (hj : j < n) :
    resizeCore .order0 .adjoint m n off c y j =
      y (off + j) + (if j = 0 then ∑ i ∈ range off, y i else 0)
        + (if j = n - 1 then ∑ k ∈ range (m - n - off), y (off + n + k) else 0) := by
  simp only [resizeCore, reduceCtorEq, ↓reduceIte]
  rw [applyPadding_order0_adj _ _ _ _ h hoff hn, assignIntersection_shrink _ _ _ _ _ h hoff]
  simp only [hj, ↓reduceIte, sumN_eq_sum]
  split_ifs <;> first | rfl | omega | grind

theorem order0_transpose (n m off : Nat) (x y : Nat → K) (h : n < m) (hoff : off + n ≤ m)
    (hn : 1 ≤ n) :
    ∑ i ∈ range m, y i * resizeCore .order0 .forward n m off 0 x i =
      ∑ j ∈ range n, x j * resizeCore .order0 .adjoint m n off 0 y j := by
  rw [sum_congr rfl (fun i hi => by
    rw [core_order0_fwd n m off 0 x h hoff hn i (mem_range.1 hi)])]
  rw [sum_congr rfl (fun j hj => by
    rw [core_order0_adj n m off 0 y h hoff hn j (mem_range.1 hj)]) (s₂ := range n)]
  obtain ⟨r, rfl⟩ : ∃ r, m = off + n + r := ⟨m - off - n, by omega⟩
  have hr : off + n + r - n - off = r := by omega
  rw [sum_split3, hr]
  have s1 : ∑ i ∈ range off, y i * x (srcEdge n off i) = x 0 * ∑ i ∈ range off, y i := by
    rw [mul_sum]; apply sum_congr rfl; intro i hi
    have := mem_range.1 hi
    simp only [srcEdge, this, ↓reduceIte]; ring
  have s2 : ∑ j ∈ range n, y (off + j) * x (srcEdge n off (off + j)) =
      ∑ j ∈ range n, x j * y (off + j) := by
    apply sum_congr rfl; intro j hj
    have := mem_range.1 hj
    have e : srcEdge n off (off + j) = j := by simp only [srcEdge]; split_ifs <;> omega
    rw [e]; ring
  have s3 : ∑ k ∈ range r, y (off + n + k) * x (srcEdge n off (off + n + k)) =
      x (n - 1) * ∑ k ∈ range r, y (off + n + k) := by
    rw [mul_sum]; apply sum_congr rfl; intro k hk
    have e : srcEdge n off (off + n + k) = n - 1 := by simp only [srcEdge]; split_ifs <;> omega
    rw [e]; ring
  rw [s1, s2, s3]
  simp only [mul_add, sum_add_distrib, mul_ite, mul_zero, sum_ite_eq', mem_range]
  have h0 : 0 < n := by omega
  have h1 : n - 1 < n := by omega
  simp only [h0, h1, ↓reduceIte]
  ring
theorem core_order1_fwd (n m off : Nat) (c : K) (x : Nat → K) (h : n < m) (hoff : off + n ≤ m)
    (hn : 2 ≤ n) (i : Nat) (hi : i < m) :
    resizeCore .order1 .forward n m off c x i = linExtrap n off x i := by
  simp only [resizeCore, reduceCtorEq, ↓reduceIte]
  rw [applyPadding_order1_fwd _ _ _ _ h hoff hn, assignIntersection_grow _ _ _ _ _ h hoff]
  simp only [linExtrap]
  split_ifs <;> first | omega | (repeat' (first | rfl | omega | congr 1))

theorem core_order1_adj (n m off : Nat) (c : K) (y : Nat → K) (h : n < m) (hoff : off + n ≤ m)
    (hn : 2 ≤ n) (j : Nat) (hj : j < n) :
    resizeCore .order1 .adjoint m n off c y j =
      y (off + j) + (if j = 0 then ∑ i ∈ range off, y i else 0)
        + (if j = n - 1 then ∑ k ∈ range (m - n - off), y (off + n + k) else 0)
        + (if j = 0 then -∑ k ∈ range off, (((k : Int) - off : Int) : K) * y k else 0)
        + (if j = 1 then ∑ k ∈ range off, (((k : Int) - off : Int) : K) * y k else 0)
        + (if j = n - 2 then
            -∑ k ∈ range (m - n - off), (((k : Int) + 1 : Int) : K) * y (off + n + k) else 0)
        + (if j = n - 1 then
            ∑ k ∈ range (m - n - off), (((k : Int) + 1 : Int) : K) * y (off + n + k) else 0) := by
  simp only [resizeCore, reduceCtorEq, ↓reduceIte]
  rw [applyPadding_order1_adj _ _ _ _ h hoff hn, assignIntersection_shrink _ _ _ _ _ h hoff]
  simp only [hj, ↓reduceIte, sumN_eq_sum]
  split_ifs <;> first | omega | grind

theorem order1_transpose (n m off : Nat) (x y : Nat → K) (h : n < m) (hoff : off + n ≤ m)
    (hn : 2 ≤ n) :
    ∑ i ∈ range m, y i * resizeCore .order1 .forward n m off 0 x i =
      ∑ j ∈ range n, x j * resizeCore .order1 .adjoint m n off 0 y j := by
  rw [sum_congr rfl (fun i hi => by
    rw [core_order1_fwd n m off 0 x h hoff hn i (mem_range.1 hi)])]
  rw [sum_congr rfl (fun j hj => by
    rw [core_order1_adj n m off 0 y h hoff hn j (mem_range.1 hj)]) (s₂ := range n)]
  obtain ⟨r, rfl⟩ : ∃ r, m = off + n + r := ⟨m - off - n, by omega⟩
  have hr : off + n + r - n - off = r := by omega
  rw [sum_split3, hr]
  have s1 : ∑ i ∈ range off, y i * linExtrap n off x i =
      x 0 * ∑ i ∈ range off, y i +
        (x 1 - x 0) * ∑ k ∈ range off, (((k : Int) - off : Int) : K) * y k := by
    rw [mul_sum, mul_sum, ← sum_add_distrib]; apply sum_congr rfl; intro i hi
    have := mem_range.1 hi
    simp only [linExtrap, this, ↓reduceIte]; ring
  have s2 : ∑ j ∈ range n, y (off + j) * linExtrap n off x (off + j) =
      ∑ j ∈ range n, x j * y (off + j) := by
    apply sum_congr rfl; intro j hj
    have := mem_range.1 hj
    have e : linExtrap n off x (off + j) = x j := by
      simp only [linExtrap]; split_ifs <;> first | omega | (congr 1 <;> omega)
    rw [e]; ring
  have s3 : ∑ k ∈ range r, y (off + n + k) * linExtrap n off x (off + n + k) =
      x (n - 1) * ∑ k ∈ range r, y (off + n + k) +
        (x (n - 1) - x (n - 2)) *
          ∑ k ∈ range r, (((k : Int) + 1 : Int) : K) * y (off + n + k) := by
    rw [mul_sum, mul_sum, ← sum_add_distrib]; apply sum_congr rfl; intro k hk
    have e : linExtrap n off x (off + n + k) =
        x (n - 1) + (((k : Int) + 1 : Int) : K) * (x (n - 1) - x (n - 2)) := by
      simp only [linExtrap]
      split_ifs <;> first | omega | (repeat' (first | rfl | omega | congr 1))
    rw [e]; ring
  rw [s1, s2, s3]
  simp only [mul_add, sum_add_distrib, mul_ite, mul_zero, sum_ite_eq', mem_range]
  have h0 : 0 < n := by omega
  have h1 : 1 < n := by omega
  have h2 : n - 1 < n := by omega
  have h3 : n - 2 < n := by omega
  simp only [h0, h1, h2, h3, ↓reduceIte]
  ring

omit [DecidableEq K] in
theorem applyPadding_noop (mode : Mode) (dir : Dir) (lhs : Nat → K) (nL nR off : Nat)
    (h : nL ≤ nR) : applyPadding mode dir lhs nL nR off = lhs := by
  simp only [applyPadding, if_pos h]

/-- forward on a non-growing axis is cropping, whatever the mode -/
theorem core_fwd_crop (mode : Mode) (n m off : Nat) (c : K) (x : Nat → K) (h : m ≤ n)
    (hoff : off + m ≤ n) (i : Nat) (hi : i < m) :
    resizeCore mode .forward n m off c x i = x (off + i) := by
  simp only [resizeCore, applyPadding_noop _ _ _ _ _ _ h, ite_self]
  rcases Nat.lt_or_eq_of_le h with h' | rfl
  · rw [assignIntersection_shrink _ _ _ _ _ h' hoff]; simp [hi]
  · rw [assignIntersection_same]; have : off = 0 := by omega
    simp [hi, this]

/-- adjoint towards a non-smaller array is zero padding, whatever the mode -/
theorem core_adj_zeropad (mode : Mode) (n m off : Nat) (y : Nat → K) (h : m ≤ n)
    (hoff : off + m ≤ n) (j : Nat) (hj : j < n) :
    resizeCore mode .adjoint m n off 0 y j =
      if off ≤ j ∧ j < off + m then y (j - off) else 0 := by
  simp only [resizeCore, applyPadding_noop _ _ _ _ _ _ h, ite_self, reduceCtorEq, false_and,
    ↓reduceIte]
  rcases Nat.lt_or_eq_of_le h with h' | rfl
  · rw [assignIntersection_grow _ _ _ _ _ h' hoff]
  · rw [assignIntersection_same]; have : off = 0 := by omega
    simp [hj, this]

theorem crop_transpose (mode : Mode) (n m off : Nat) (x y : Nat → K) (h : m ≤ n)
    (hoff : off + m ≤ n) :
    ∑ i ∈ range m, y i * resizeCore mode .forward n m off 0 x i =
      ∑ j ∈ range n, x j * resizeCore mode .adjoint m n off 0 y j := by
  rw [sum_congr rfl (fun i hi => by
    rw [core_fwd_crop mode n m off 0 x h hoff i (mem_range.1 hi)])]
  rw [sum_congr rfl (fun j hj => by
    rw [core_adj_zeropad mode n m off y h hoff j (mem_range.1 hj)]) (s₂ := range n)]
  obtain ⟨r, rfl⟩ : ∃ r, n = off + m + r := ⟨n - off - m, by omega⟩
  rw [sum_split3]
  have s1 : ∑ j ∈ range off, x j * (if off ≤ j ∧ j < off + m then y (j - off) else 0) = 0 := by
    apply sum_eq_zero; intro j hj; have := mem_range.1 hj
    rw [if_neg (by omega)]; ring
  have s2 : ∑ k ∈ range m, x (off + k) *
      (if off ≤ off + k ∧ off + k < off + m then y (off + k - off) else 0) =
      ∑ i ∈ range m, y i * x (off + i) := by
    apply sum_congr rfl; intro k hk; have := mem_range.1 hk
    rw [if_pos (by omega), Nat.add_sub_cancel_left]; ring
  have s3 : ∑ k ∈ range r, x (off + m + k) *
      (if off ≤ off + m + k ∧ off + m + k < off + m then y (off + m + k - off) else 0) = 0 := by
    apply sum_eq_zero; intro j hj
    rw [if_neg (by omega)]; ring
  rw [s1, s2, s3]; ring

/-- on an axis of unchanged length every mode and direction is the identity; the offset is
ignored -/
theorem core_same (mode : Mode) (dir : Dir) (n off : Nat) (c : K) (x : Nat → K) (i : Nat)
    (hi : i < n) : resizeCore mode dir n n off c x i = x i := by
  cases dir <;>
    simp only [resizeCore, applyPadding_noop _ _ _ _ _ _ (le_refl n), ite_self,
      assignIntersection_same, hi, ↓reduceIte]

theorem same_transpose (mode : Mode) (n off : Nat) (x y : Nat → K) :
    ∑ i ∈ range n, y i * resizeCore mode .forward n n off 0 x i =
      ∑ j ∈ range n, x j * resizeCore mode .adjoint n n off 0 y j := by
  apply sum_congr rfl
  intro i hi
  rw [core_same mode .forward n off 0 x i (mem_range.1 hi),
    core_same mode .adjoint n off 0 y i (mem_range.1 hi)]
  ring

/-- forward constant padding with `c` -/
theorem core_constant_fwd (n m off : Nat) (c : K) (x : Nat → K) (h : n < m) (hoff : off + n ≤ m)
    (i : Nat) :
    resizeCore .constant .forward n m off c x i = npConstant n off c x i := by
  simp only [resizeCore, ↓reduceIte, true_and]
  rw [assignIntersection_grow _ _ _ _ _ h hoff]
  simp only [npConstant]
  split_ifs <;> first | rfl | omega | simp_all

theorem core_constant_adj (n m off : Nat) (y : Nat → K) (h : n < m) (hoff : off + n ≤ m)
    (j : Nat) (hj : j < n) :
    resizeCore .constant .adjoint m n off 0 y j = y (off + j) := by
  simp only [resizeCore, ↓reduceIte]
  rw [assignIntersection_shrink _ _ _ _ _ h hoff]; simp [hj]

theorem constant_transpose (n m off : Nat) (x y : Nat → K) (h : n < m) (hoff : off + n ≤ m) :
    ∑ i ∈ range m, y i * resizeCore .constant .forward n m off 0 x i =
      ∑ j ∈ range n, x j * resizeCore .constant .adjoint m n off 0 y j := by
  rw [sum_congr rfl (fun i hi => by rw [core_constant_fwd n m off 0 x h hoff i])]
  rw [sum_congr rfl (fun j hj => by
    rw [core_constant_adj n m off y h hoff j (mem_range.1 hj)]) (s₂ := range n)]
  obtain ⟨r, rfl⟩ : ∃ r, m = off + n + r := ⟨m - off - n, by omega⟩
  rw [sum_split3]
  have s1 : ∑ i ∈ range off, y i * npConstant n off 0 x i = 0 := by
    apply sum_eq_zero; intro j hj; have := mem_range.1 hj
    simp only [npConstant]; rw [if_neg (by omega)]; ring
  have s2 : ∑ k ∈ range n, y (off + k) * npConstant n off 0 x (off + k) =
      ∑ j ∈ range n, x j * y (off + j) := by
    apply sum_congr rfl; intro k hk; have := mem_range.1 hk
    simp only [npConstant]
    rw [if_pos (by omega), Nat.add_sub_cancel_left]; ring
  have s3 : ∑ k ∈ range r, y (off + n + k) * npConstant n off 0 x (off + n + k) = 0 := by
    apply sum_eq_zero; intro j hj
    simp only [npConstant]; rw [if_neg (by omega)]; ring
  rw [s1, s2, s3]; ring

end core
end padring
end OdlModel.Resize
