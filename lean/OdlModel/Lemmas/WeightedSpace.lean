/-
The weighted inner-product space `WSp w` on `Fin n → ℝ` (the inner product of rn / weighted rn /
uniform_discr) and the bridge to the weighted LISTS the drivers execute on: `wOps w` instantiates
the functional model on `WSp w` with the coordinate-wise built-ins computed by `listOps`.
-/
import OdlModel.Lemmas.Functionals
import Mathlib.Analysis.InnerProductSpace.Basic
import Mathlib.Analysis.Normed.Module.FiniteDimension
import Mathlib.LinearAlgebra.FiniteDimensional.Defs
import Mathlib.Tactic.Ring
import Mathlib.Tactic.Linarith
import Mathlib.Tactic.Positivity

open OdlModel.Functionals OdlModel.FunctionalsR
open scoped RealInnerProductSpace

namespace OdlModel.FunctionalsR

/-- `ℝⁿ` carrying the WEIGHTED inner product `⟨x, y⟩ = Σᵢ wᵢ xᵢ yᵢ`, `wᵢ > 0`: the inner
product of `rn(n)` (`w = 1`), `rn(n, weighting=c)` (`w = c`), `rn(n, weighting=array)` and of
`uniform_discr` (`w` = cell volume). -/
def WSp {n : ℕ} (_w : Fin n → ℝ) : Type := Fin n → ℝ

variable {n : ℕ} {w : Fin n → ℝ}

instance : AddCommGroup (WSp w) := inferInstanceAs (AddCommGroup (Fin n → ℝ))
instance : Module ℝ (WSp w) := inferInstanceAs (Module ℝ (Fin n → ℝ))
instance : FiniteDimensional ℝ (WSp w) := inferInstanceAs (FiniteDimensional ℝ (Fin n → ℝ))

variable [hw : Fact (∀ i, 0 < w i)]

noncomputable def WSp.core : InnerProductSpace.Core ℝ (WSp w) where
  inner x y := ∑ i, w i * x i * y i
  conj_inner_symm x y := by
    simp only [conj_trivial]
    exact Finset.sum_congr rfl fun i _ => by ring
  re_inner_nonneg x := by
    simp only [RCLike.re_to_real]
    exact Finset.sum_nonneg fun i _ => by
      have := (hw.out i).le
      have := mul_self_nonneg (x i)
      nlinarith
  add_left x y z := by
    simp only [← Finset.sum_add_distrib]
    exact Finset.sum_congr rfl fun i _ => by
      show w i * (x i + y i) * z i = _
      ring
  smul_left x y r := by
    simp only [conj_trivial, Finset.mul_sum]
    exact Finset.sum_congr rfl fun i _ => by
      show w i * (r * x i) * y i = _
      ring
  definite x hx := by
    have hnn : ∀ i ∈ Finset.univ, 0 ≤ w i * x i * x i := fun i _ => by
      have := (hw.out i).le
      have := mul_self_nonneg (x i)
      nlinarith
    have := (Finset.sum_eq_zero_iff_of_nonneg hnn).mp hx
    funext i
    have h0 := this i (Finset.mem_univ i)
    have hwi := hw.out i
    have : x i * x i = 0 := by
      rcases mul_eq_zero.mp (by rw [mul_assoc] at h0; exact h0) with h | h
      · exact absurd h (ne_of_gt hwi)
      · exact h
    exact mul_self_eq_zero.mp this

noncomputable instance : NormedAddCommGroup (WSp w) := (WSp.core (w := w)).toNormedAddCommGroup
noncomputable instance : InnerProductSpace ℝ (WSp w) :=
  InnerProductSpace.ofCore (WSp.core (w := w)).toCore

/-- The underlying function of a vector / the vector of a function. -/
def WSp.val (x : WSp w) : Fin n → ℝ := x
def WSp.of (f : Fin n → ℝ) : WSp w := f

theorem WSp.inner_def (x y : WSp w) : ⟪x, y⟫ = ∑ i, w i * x.val i * y.val i := rfl
theorem WSp.val_add (x y : WSp w) : (x + y).val = x.val + y.val := rfl
theorem WSp.val_sub (x y : WSp w) : (x - y).val = x.val - y.val := rfl
theorem WSp.val_smul (c : ℝ) (x : WSp w) : (c • x).val = c • x.val := rfl
theorem WSp.val_zero : (0 : WSp w).val = 0 := rfl
theorem WSp.val_of (f : Fin n → ℝ) : (WSp.of f : WSp w).val = f := rfl
theorem WSp.ext' {x y : WSp w} (h : x.val = y.val) : x = y := h

instance : CompleteSpace (WSp w) := FiniteDimensional.complete ℝ (WSp w)

end OdlModel.FunctionalsR

namespace OdlModel.FunctionalsR
open OdlModel.Functionals

/-! ### Bridge between functions on `Fin n` and the lists the driver executes on -/

theorem innerW_ofFn {n : ℕ} (w x y : Fin n → ℝ) :
    innerW (List.ofFn w) (List.ofFn x) (List.ofFn y) = ∑ i, w i * x i * y i := by
  induction n with
  | zero => simp [innerW]
  | succ n ih =>
      simp only [List.ofFn_succ, innerW, Fin.sum_univ_succ]
      rw [ih]

theorem l1W_ofFn {n : ℕ} (w x : Fin n → ℝ) :
    l1W (List.ofFn w) (List.ofFn x) = ∑ i, w i * absK (x i) := by
  induction n with
  | zero => simp [l1W]
  | succ n ih =>
      simp only [List.ofFn_succ, l1W, Fin.sum_univ_succ]
      rw [ih]

theorem huberW_ofFn {n : ℕ} (γ : ℝ) (w x : Fin n → ℝ) :
    huberW γ (List.ofFn w) (List.ofFn x) = ∑ i, w i * huberVal1 γ (x i) := by
  induction n with
  | zero => simp [huberW]
  | succ n ih =>
      simp only [List.ofFn_succ, huberW, Fin.sum_univ_succ]
      rw [ih]

theorem zipWith_ofFn {n : ℕ} (f : ℝ → ℝ → ℝ) (x y : Fin n → ℝ) :
    List.zipWith f (List.ofFn x) (List.ofFn y) = List.ofFn (fun i => f (x i) (y i)) := by
  induction n with
  | zero => simp
  | succ n ih =>
      simp only [List.ofFn_succ, List.zipWith_cons_cons]
      rw [ih]

/-- A list of length `n` read back as a function on `Fin n`. -/
def ofL {n : ℕ} (l : List ℝ) : Fin n → ℝ := fun i => l.getD i 0

theorem ofL_map_ofFn {n : ℕ} (φ : ℝ → ℝ) (x : Fin n → ℝ) :
    (ofL ((List.ofFn x).map φ) : Fin n → ℝ) = fun i => φ (x i) := by
  funext i
  simp [ofL, List.getD_eq_getElem?_getD]

variable {n : ℕ} (w : Fin n → ℝ) [hw : Fact (∀ i, 0 < w i)]

/-- The model's space operations on `WSp w`, with the coordinate-wise built-ins computed by
THE LIST FUNCTIONS THE DRIVER EXECUTES (`listOps (List.ofFn w)` on `List.ofFn x`). -/
noncomputable def wOps : VecOps (WSp w) ℝ :=
  eOps (fun v x => WSp.of (fun i => v.val i * x.val i))
    (fun b x => (listOps (List.ofFn w)).cval b (List.ofFn x.val))
    (fun b x => (listOps (List.ofFn w)).cdom b (List.ofFn x.val))
    (fun b x => WSp.of (ofL ((listOps (List.ofFn w)).cgrad b (List.ofFn x.val))))

theorem wOps_inner (x y : WSp w) :
    (wOps w).inner x y = (listOps (List.ofFn w)).inner (List.ofFn x.val) (List.ofFn y.val) := by
  show ⟪x, y⟫ = innerW (List.ofFn w) (List.ofFn x.val) (List.ofFn y.val)
  rw [innerW_ofFn, WSp.inner_def]

theorem wOps_mul_smul (v : WSp w) (c : ℝ) (y : WSp w) :
    (WSp.of (fun i => v.val i * (c • y).val i) : WSp w) = c • WSp.of (fun i => v.val i * y.val i) := by
  apply WSp.ext'
  funext i
  show v.val i * (c * y.val i) = c * (v.val i * y.val i)
  ring

theorem weights_nonneg : ∀ a ∈ List.ofFn w, (0 : ℝ) ≤ a := by
  intro a ha
  obtain ⟨i, rfl⟩ := (List.mem_ofFn' w a).mp ha
  exact (hw.out i).le

end OdlModel.FunctionalsR
