/-
Helper lemmas for C04: what each overload of the model (`Model/OpAlgebra.lean`) computes,
and which invariants it preserves.
-/
import OdlModel.Model.OpAlgebra
import Mathlib.Tactic.Ring
import Mathlib.Tactic.FieldSimp
import Mathlib.Algebra.Field.Basic

namespace OdlModel.OpAlgebra

variable {K : Type}

/-- `f (s • x) = s • f x` for the scalars `s` in `R` (`R` = the scalars the operator commutes
with: all of `K` for a `K`-linear operator, the real ones for an only real-linear operator
such as `RealPart` on a complex space). -/
def Homog [Mul K] (R : K → Prop) (f : Vec K → Vec K) : Prop :=
  ∀ (s : K), R s → ∀ (x : Vec K), f (fun j => s * x j) = fun j => s * f x j

/-- `f (x + y) = f x + f y` -/
def Additive [Add K] (f : Vec K → Vec K) : Prop :=
  ∀ x y : Vec K, f (fun j => x j + y j) = fun j => f x j + f y j

/-- An `R`-linear map: additive and homogeneous for the scalars in `R`. -/
def IsLin [Add K] [Mul K] (R : K → Prop) (f : Vec K → Vec K) : Prop := Homog R f ∧ Additive f

/-- The value is a constant family: the encoding of a scalar (functional value). -/
def ConstFam (f : Vec K → Vec K) : Prop := ∀ x j, f x j = f x 0

/-- Assumptions on the opaque leaves of an expression and on its `real` marks: a leaf flagged
`is_linear` is an `R`-linear map, a leaf that is a `Functional` returns a scalar (constant
family), and a scalar `s` marked `real` (`isinstance(s, Real)`) is in `R`, with `1/s`.  Nothing is assumed
about unflagged leaves.  Take `R = fun _ => True` when every flagged leaf is linear over the
field of the tree, `R = "is real"` when some are only real-linear. -/
def EnvOK [Add K] [Mul K] [Div K] [OfNat K 1] (R : K → Prop) (env : Nat → Vec K → Vec K) : Expr K → Prop
  | .leaf i => (i.lin = true → IsLin R (env i.id)) ∧ (i.fn = true → ConstFam (env i.id))
  | .neg a => EnvOK R env a
  | .pow a _ => EnvOK R env a
  | .bin _ a b => EnvOK R env a ∧ EnvOK R env b
  | .sc _ a s re => EnvOK R env a ∧ (re = true → R s ∧ R (1 / s))
  | .vc _ a _ => EnvOK R env a

/-- Leaves that are `Functional`s have the field as range (`Functional.__init__`). -/
def LeavesWf : Expr K → Prop
  | .leaf i => i.fn = true → i.ran = .fld
  | .neg a => LeavesWf a
  | .pow a _ => LeavesWf a
  | .bin _ a b => LeavesWf a ∧ LeavesWf b
  | .sc _ a _ _ => LeavesWf a
  | .vc _ a _ => LeavesWf a

/-! #### attribute equations of the constructors (`rfl`), used instead of unfolding -/

section attr
variable {K : Type}

@[simp] theorem Impl.dom_leaf (i : Leaf) : (Impl.leaf i : Impl K).dom = i.dom := rfl
@[simp] theorem Impl.dom_sum (fn : Bool) (l r : Impl K) : (Impl.sum fn l r : Impl K).dom = l.dom := rfl
@[simp] theorem Impl.dom_scalSum (f : Impl K) (c : K) : (Impl.scalSum f c : Impl K).dom = f.dom := rfl
@[simp] theorem Impl.dom_vecSum (a : Impl K) (v : Vec K) : (Impl.vecSum a v : Impl K).dom = a.dom := rfl
@[simp] theorem Impl.dom_comp (fn : Bool) (l r : Impl K) : (Impl.comp fn l r : Impl K).dom = r.dom := rfl
@[simp] theorem Impl.dom_pprod (fn : Bool) (l r : Impl K) : (Impl.pprod fn l r : Impl K).dom = l.dom := rfl
@[simp] theorem Impl.dom_quot (l r : Impl K) : (Impl.quot l r : Impl K).dom = l.dom := rfl
@[simp] theorem Impl.dom_lscal (fn : Bool) (a : Impl K) (s : K) : (Impl.lscal fn a s : Impl K).dom = a.dom := rfl
@[simp] theorem Impl.dom_rscal (fn : Bool) (a : Impl K) (s : K) : (Impl.rscal fn a s : Impl K).dom = a.dom := rfl
@[simp] theorem Impl.dom_lvec (a : Impl K) (v : Vec K) : (Impl.lvec a v : Impl K).dom = a.dom := rfl
@[simp] theorem Impl.dom_rvec (fn : Bool) (a : Impl K) (v : Vec K) : (Impl.rvec fn a v : Impl K).dom = a.dom := rfl
@[simp] theorem Impl.dom_flvec (a : Impl K) (v : VecLit K) : (Impl.flvec a v : Impl K).dom = a.dom := rfl
@[simp] theorem Impl.dom_const (d : Sp) (c : Vec K) : (Impl.const d c : Impl K).dom = d := rfl
@[simp] theorem Impl.dom_zero (d : Sp) : (Impl.zero d : Impl K).dom = d := rfl
@[simp] theorem Impl.ran_leaf (i : Leaf) : (Impl.leaf i : Impl K).ran = i.ran := rfl
@[simp] theorem Impl.ran_sum (fn : Bool) (l r : Impl K) : (Impl.sum fn l r : Impl K).ran = l.ran := rfl
@[simp] theorem Impl.ran_scalSum (f : Impl K) (c : K) : (Impl.scalSum f c : Impl K).ran = f.ran := rfl
@[simp] theorem Impl.ran_vecSum (a : Impl K) (v : Vec K) : (Impl.vecSum a v : Impl K).ran = a.ran := rfl
@[simp] theorem Impl.ran_comp (fn : Bool) (l r : Impl K) : (Impl.comp fn l r : Impl K).ran = l.ran := rfl
@[simp] theorem Impl.ran_pprod (fn : Bool) (l r : Impl K) : (Impl.pprod fn l r : Impl K).ran = l.ran := rfl
@[simp] theorem Impl.ran_quot (l r : Impl K) : (Impl.quot l r : Impl K).ran = Sp.fld := rfl
@[simp] theorem Impl.ran_lscal (fn : Bool) (a : Impl K) (s : K) : (Impl.lscal fn a s : Impl K).ran = a.ran := rfl
@[simp] theorem Impl.ran_rscal (fn : Bool) (a : Impl K) (s : K) : (Impl.rscal fn a s : Impl K).ran = a.ran := rfl
@[simp] theorem Impl.ran_lvec (a : Impl K) (v : Vec K) : (Impl.lvec a v : Impl K).ran = a.ran := rfl
@[simp] theorem Impl.ran_rvec (fn : Bool) (a : Impl K) (v : Vec K) : (Impl.rvec fn a v : Impl K).ran = a.ran := rfl
@[simp] theorem Impl.ran_flvec (a : Impl K) (v : VecLit K) : (Impl.flvec a v : Impl K).ran = Sp.vec v.n := rfl
@[simp] theorem Impl.ran_const (d : Sp) (c : Vec K) : (Impl.const d c : Impl K).ran = Sp.fld := rfl
@[simp] theorem Impl.ran_zero (d : Sp) : (Impl.zero d : Impl K).ran = Sp.fld := rfl
@[simp] theorem Impl.isFn_leaf (i : Leaf) : (Impl.leaf i : Impl K).isFn = i.fn := rfl
@[simp] theorem Impl.isFn_sum (fn : Bool) (l r : Impl K) : (Impl.sum fn l r : Impl K).isFn = fn := rfl
@[simp] theorem Impl.isFn_scalSum (f : Impl K) (c : K) : (Impl.scalSum f c : Impl K).isFn = true := rfl
@[simp] theorem Impl.isFn_vecSum (a : Impl K) (v : Vec K) : (Impl.vecSum a v : Impl K).isFn = false := rfl
@[simp] theorem Impl.isFn_comp (fn : Bool) (l r : Impl K) : (Impl.comp fn l r : Impl K).isFn = fn := rfl
@[simp] theorem Impl.isFn_pprod (fn : Bool) (l r : Impl K) : (Impl.pprod fn l r : Impl K).isFn = fn := rfl
@[simp] theorem Impl.isFn_quot (l r : Impl K) : (Impl.quot l r : Impl K).isFn = true := rfl
@[simp] theorem Impl.isFn_lscal (fn : Bool) (a : Impl K) (s : K) : (Impl.lscal fn a s : Impl K).isFn = fn := rfl
@[simp] theorem Impl.isFn_rscal (fn : Bool) (a : Impl K) (s : K) : (Impl.rscal fn a s : Impl K).isFn = fn := rfl
@[simp] theorem Impl.isFn_lvec (a : Impl K) (v : Vec K) : (Impl.lvec a v : Impl K).isFn = false := rfl
@[simp] theorem Impl.isFn_rvec (fn : Bool) (a : Impl K) (v : Vec K) : (Impl.rvec fn a v : Impl K).isFn = fn := rfl
@[simp] theorem Impl.isFn_flvec (a : Impl K) (v : VecLit K) : (Impl.flvec a v : Impl K).isFn = false := rfl
@[simp] theorem Impl.isFn_const (d : Sp) (c : Vec K) : (Impl.const d c : Impl K).isFn = true := rfl
@[simp] theorem Impl.isFn_zero (d : Sp) : (Impl.zero d : Impl K).isFn = true := rfl

variable [OfNat K 0] [DecidableEq K]

@[simp] theorem Impl.lin_leaf (i : Leaf) : (Impl.leaf i : Impl K).lin = i.lin := rfl
@[simp] theorem Impl.lin_sum (fn : Bool) (l r : Impl K) : (Impl.sum fn l r : Impl K).lin = (l.lin && r.lin) := rfl
@[simp] theorem Impl.lin_scalSum (f : Impl K) (c : K) : (Impl.scalSum f c : Impl K).lin = (f.lin && decide (c = 0)) := rfl
@[simp] theorem Impl.lin_vecSum (a : Impl K) (v : Vec K) : (Impl.vecSum a v : Impl K).lin = false := rfl
@[simp] theorem Impl.lin_comp (fn : Bool) (l r : Impl K) : (Impl.comp fn l r : Impl K).lin = (l.lin && r.lin) := rfl
@[simp] theorem Impl.lin_pprod (fn : Bool) (l r : Impl K) : (Impl.pprod fn l r : Impl K).lin = false := rfl
@[simp] theorem Impl.lin_quot (l r : Impl K) : (Impl.quot l r : Impl K).lin = false := rfl
@[simp] theorem Impl.lin_lscal (fn : Bool) (a : Impl K) (s : K) : (Impl.lscal fn a s : Impl K).lin = a.lin := rfl
@[simp] theorem Impl.lin_rscal (fn : Bool) (a : Impl K) (s : K) : (Impl.rscal fn a s : Impl K).lin = a.lin := rfl
@[simp] theorem Impl.lin_lvec (a : Impl K) (v : Vec K) : (Impl.lvec a v : Impl K).lin = a.lin := rfl
@[simp] theorem Impl.lin_rvec (fn : Bool) (a : Impl K) (v : Vec K) : (Impl.rvec fn a v : Impl K).lin = a.lin := rfl
@[simp] theorem Impl.lin_flvec (a : Impl K) (v : VecLit K) : (Impl.flvec a v : Impl K).lin = a.lin := rfl
@[simp] theorem Impl.lin_const (d : Sp) (c : Vec K) : (Impl.const d c : Impl K).lin = decide (c 0 = 0) := rfl
@[simp] theorem Impl.lin_zero (d : Sp) : (Impl.zero d : Impl K).lin = true := rfl
end attr

variable [Field K] [DecidableEq K]

/-- Invariant of every object the dispatch produces. -/
def Inv (R : K → Prop) (env : Nat → Vec K → Vec K) (i : Impl K) : Prop :=
  (i.isFn = true → ConstFam (run env i)) ∧ (i.lin = true → IsLin R (run env i))

section run_lemmas
variable {R : K → Prop} (env : Nat → Vec K → Vec K)

omit [DecidableEq K] in
theorem run_mkLScal (fn : Bool) (a : Impl K) (s : K) (x : Vec K) :
    run env (mkLScal fn a s) x = fun j => s * run env a x j := by
  cases a <;> simp [mkLScal, run, mul_assoc]

omit [DecidableEq K] in
theorem run_mkRScal (fn : Bool) (a : Impl K) (s : K) (x : Vec K) :
    run env (mkRScal fn a s) x = run env a (fun j => s * x j) := by
  cases a <;> simp [mkRScal, run]
  congr 1; funext j; ring

theorem lin_mkLScal (fn : Bool) (a : Impl K) (s : K) : (mkLScal fn a s).lin = a.lin := by
  cases a <;> simp [mkLScal, Impl.lin]

theorem lin_mkRScal (fn : Bool) (a : Impl K) (s : K) : (mkRScal fn a s).lin = a.lin := by
  cases a <;> simp [mkRScal, Impl.lin]

omit [Field K] [DecidableEq K] in
theorem isFn_mkLScal (fn : Bool) (a : Impl K) [Mul K] (s : K) : (mkLScal fn a s).isFn = fn := by
  cases a <;> simp [mkLScal, Impl.isFn]

omit [Field K] [DecidableEq K] in
theorem isFn_mkRScal (fn : Bool) (a : Impl K) [Mul K] (s : K) : (mkRScal fn a s).isFn = fn := by
  cases a <;> simp [mkRScal, Impl.isFn]

omit [Field K] [DecidableEq K] in
theorem dom_mkLScal (fn : Bool) (a : Impl K) [Mul K] (s : K) : (mkLScal fn a s).dom = a.dom := by
  cases a <;> simp [mkLScal, Impl.dom]

omit [Field K] [DecidableEq K] in
theorem ran_mkLScal (fn : Bool) (a : Impl K) [Mul K] (s : K) : (mkLScal fn a s).ran = a.ran := by
  cases a <;> simp [mkLScal, Impl.ran]

omit [Field K] [DecidableEq K] in
theorem dom_mkRScal (fn : Bool) (a : Impl K) [Mul K] (s : K) : (mkRScal fn a s).dom = a.dom := by
  cases a <;> simp [mkRScal, Impl.dom]

omit [Field K] [DecidableEq K] in
theorem ran_mkRScal (fn : Bool) (a : Impl K) [Mul K] (s : K) : (mkRScal fn a s).ran = a.ran := by
  cases a <;> simp [mkRScal, Impl.ran]

/-! #### `s * a` -/

theorem run_opRMulScal (a : Impl K) (s : K) (x : Vec K) :
    run env (opRMulScal s a) x = fun j => s * run env a x j := by
  unfold opRMulScal
  split_ifs with h1 h2
  · subst h2; simp [run]
  · exact run_mkLScal ..
  · exact run_mkLScal ..

theorem isFn_opRMulScal (a : Impl K) (s : K) : (opRMulScal s a).isFn = a.isFn := by
  unfold opRMulScal
  split_ifs with h1 h2
  · rw [h1]; rfl
  · rw [isFn_mkLScal, h1]
  · rw [isFn_mkLScal]; simpa using h1

theorem dom_opRMulScal (a : Impl K) (s : K) : (opRMulScal s a).dom = a.dom := by
  unfold opRMulScal
  split_ifs <;> simp [Impl.dom, dom_mkLScal]

theorem lin_opRMulScal (a : Impl K) (s : K) (h : (opRMulScal s a).lin = true) :
    a.lin = true ∨ s = 0 := by
  unfold opRMulScal at h
  split_ifs at h with h1 h2
  · exact Or.inr h2
  · rw [lin_mkLScal] at h; exact Or.inl h
  · rw [lin_mkLScal] at h; exact Or.inl h

omit [DecidableEq K] in
theorem isLin_smul {f : Vec K → Vec K} (s : K) (h : IsLin R f) :
    IsLin R (fun x j => s * f x j) := by
  refine ⟨fun t ht x => ?_, fun x y => ?_⟩
  · funext j; simp only [h.1 t ht x]; ring
  · funext j; simp only [h.2 x y]; ring

omit [DecidableEq K] in
theorem isLin_zero_smul (f : Vec K → Vec K) : IsLin R (fun x j => (0 : K) * f x j) := by
  refine ⟨fun t ht x => ?_, fun x y => ?_⟩ <;> funext j <;> simp

theorem inv_opRMulScal {a : Impl K} (s : K) (ha : Inv R env a) : Inv R env (opRMulScal s a) := by
  constructor
  · intro h
    rw [isFn_opRMulScal] at h
    intro x j
    simp only [run_opRMulScal, ha.1 h x j]
  · intro h
    have : run env (opRMulScal s a) = fun x j => s * run env a x j := by
      funext x; exact run_opRMulScal env a s x
    rw [this]
    rcases lin_opRMulScal a s h with h | h
    · exact isLin_smul s (ha.2 h)
    · subst h; exact isLin_zero_smul _

/-! #### `a * s` -/

omit [Field K] [DecidableEq K] in
theorem rscalParts_some {a a' : Impl K} {t : K} (h : rscalParts a = some (a', t)) :
    ∃ fn, a = .rscal fn a' t := by
  cases a <;> simp [rscalParts] at h
  obtain ⟨rfl, rfl⟩ := h
  exact ⟨_, rfl⟩

theorem run_opMulScal {a : Impl K} (s : K) (re : Bool) (hre : re = true → R s)
    (ha : Inv R env a) (x : Vec K) :
    run env (opMulScal env a s re) x = run env a (fun j => s * x j) := by
  unfold opMulScal
  by_cases h1 : a.isFn = true
  · rw [if_pos h1]
    by_cases h2 : s = 0
    · subst h2; simp [run]
    · rw [if_neg h2]
      by_cases h3 : (a.lin && re) = true
      · rw [if_pos h3]
        simp only [Bool.and_eq_true] at h3
        rw [run_mkLScal, (ha.2 h3.1).1 s (hre h3.2) x]
      · rw [if_neg h3]; exact run_mkRScal ..
  · rw [if_neg h1]
    cases hp : rscalParts a with
    | some p =>
      obtain ⟨a', t⟩ := p
      obtain ⟨fn, rfl⟩ := rscalParts_some hp
      simp only [run_mkRScal, run]
      congr 1; funext j; ring
    | none =>
      simp only
      by_cases h4 : (a.lin && re) = true
      · rw [if_pos h4]
        simp only [Bool.and_eq_true] at h4
        rw [run_opRMulScal, (ha.2 h4.1).1 s (hre h4.2) x]
      · rw [if_neg h4]; exact run_mkRScal ..

theorem isFn_opMulScal (a : Impl K) (s : K) (re : Bool) :
    (opMulScal env a s re).isFn = a.isFn := by
  unfold opMulScal
  by_cases h1 : a.isFn = true
  · rw [if_pos h1]
    by_cases h2 : s = 0
    · rw [if_pos h2, h1]; rfl
    · rw [if_neg h2]
      by_cases h3 : (a.lin && re) = true
      · rw [if_pos h3, isFn_mkLScal, h1]
      · rw [if_neg h3, isFn_mkRScal, h1]
  · rw [if_neg h1]
    have h1' : a.isFn = false := by simpa using h1
    cases hp : rscalParts a with
    | some p => simp only [isFn_mkRScal, h1']
    | none =>
      simp only
      by_cases h4 : (a.lin && re) = true
      · rw [if_pos h4]; exact isFn_opRMulScal a s
      · rw [if_neg h4, isFn_mkRScal, h1']

theorem dom_opMulScal (a : Impl K) (s : K) (re : Bool) :
    (opMulScal env a s re).dom = a.dom := by
  unfold opMulScal
  by_cases h1 : a.isFn = true
  · rw [if_pos h1]
    by_cases h2 : s = 0
    · rw [if_pos h2]; rfl
    · rw [if_neg h2]
      by_cases h3 : (a.lin && re) = true
      · rw [if_pos h3, dom_mkLScal]
      · rw [if_neg h3, dom_mkRScal]
  · rw [if_neg h1]
    cases hp : rscalParts a with
    | some p =>
      obtain ⟨a', t⟩ := p
      obtain ⟨fn, rfl⟩ := rscalParts_some hp
      simp only [dom_mkRScal]; rfl
    | none =>
      simp only
      by_cases h4 : (a.lin && re) = true
      · rw [if_pos h4]; exact dom_opRMulScal a s
      · rw [if_neg h4]; exact dom_mkRScal ..

/-- The flag of `a * s` is set only if `a` was flagged, or by the `f * 0 ↦ Constant(f(0))`
shortcut with `f(0) = 0`. -/
theorem lin_opMulScal (a : Impl K) (s : K) (re : Bool) (h : (opMulScal env a s re).lin = true) :
    a.lin = true ∨ (a.isFn = true ∧ s = 0 ∧ run env a (fun _ => 0) 0 = 0) := by
  unfold opMulScal at h
  by_cases h1 : a.isFn = true
  · rw [if_pos h1] at h
    by_cases h2 : s = 0
    · rw [if_pos h2] at h
      right; exact ⟨h1, h2, by simpa [Impl.lin] using h⟩
    · rw [if_neg h2] at h
      by_cases h3 : (a.lin && re) = true
      · simp only [Bool.and_eq_true] at h3; exact Or.inl h3.1
      · rw [if_neg h3, lin_mkRScal] at h; exact Or.inl h
  · rw [if_neg h1] at h
    left
    cases hp : rscalParts a with
    | some p =>
      obtain ⟨a', t⟩ := p
      obtain ⟨fn, rfl⟩ := rscalParts_some hp
      rw [hp] at h
      simpa [lin_mkRScal, Impl.lin] using h
    | none =>
      rw [hp] at h
      simp only at h
      by_cases h4 : (a.lin && re) = true
      · simp only [Bool.and_eq_true] at h4; exact h4.1
      · rw [if_neg h4, lin_mkRScal] at h; exact h

omit [DecidableEq K] in
theorem isLin_zero : IsLin R (fun (_ : Vec K) (_ : Nat) => (0 : K)) := by
  refine ⟨fun t ht x => ?_, fun x y => ?_⟩ <;> funext j <;> simp

theorem inv_opMulScal {a : Impl K} (s : K) (re : Bool) (hre : re = true → R s)
    (ha : Inv R env a) : Inv R env (opMulScal env a s re) := by
  have hrun : run env (opMulScal env a s re) = fun x => run env a (fun j => s * x j) := by
    funext x; exact run_opMulScal env s re hre ha x
  constructor
  · intro h
    rw [isFn_opMulScal] at h
    intro x j
    rw [hrun]; exact ha.1 h _ j
  · intro h
    rw [hrun]
    rcases lin_opMulScal env a s re h with h | ⟨hf, hs, h0⟩
    · have hl := ha.2 h
      refine ⟨fun t ht x => ?_, fun x y => ?_⟩
      · have : (fun j => s * (t * x j)) = fun j => t * (s * x j) := by funext j; ring
        simp only [this, hl.1 t ht]
      · have : (fun j => s * (x j + y j)) = fun j => s * x j + s * y j := by funext j; ring
        show run env a (fun j => s * (x j + y j)) = _
        rw [this]; exact hl.2 _ _
    · subst hs
      have hz : ∀ x : Vec K, run env a (fun j => 0 * x j) = fun _ => 0 := by
        intro x; funext j
        have : (fun j => (0 : K) * x j) = fun _ => 0 := by funext j; simp
        rw [this, ha.1 hf _ j, h0]
      simp only [hz]
      exact isLin_zero

/-! #### sums, compositions, vector forms -/

omit [DecidableEq K] in
theorem run_mkSum {a b c : Impl K} (h : mkSum a b = some c) (x : Vec K) :
    run env c x = fun j => run env a x j + run env b x j := by
  unfold mkSum at h
  split_ifs at h
  cases h; rfl

theorem inv_mkSum {a b c : Impl K} (h : mkSum a b = some c) (ha : Inv R env a) (hb : Inv R env b) :
    Inv R env c := by
  unfold mkSum at h
  split_ifs at h
  cases h
  constructor
  · intro hf
    simp only [Impl.isFn, Bool.and_eq_true] at hf
    intro x j
    simp only [run, ha.1 hf.1 x j, hb.1 hf.2 x j]
  · intro hl
    simp only [Impl.lin, Bool.and_eq_true] at hl
    have h1 := ha.2 hl.1; have h2 := hb.2 hl.2
    refine ⟨fun t ht x => ?_, fun x y => ?_⟩
    · funext j; simp only [run, h1.1 t ht x, h2.1 t ht x]; ring
    · funext j; simp only [run, h1.2 x y, h2.2 x y]; ring

omit [DecidableEq K] in
theorem run_opAdd {a b c : Impl K} (h : opAdd a b = some c) (x : Vec K) :
    run env c x = fun j => run env a x j + run env b x j := by
  unfold opAdd at h
  split_ifs at h
  · rw [run_mkSum env h]; funext j; ring
  · exact run_mkSum env h x

theorem inv_opAdd {a b c : Impl K} (h : opAdd a b = some c) (ha : Inv R env a) (hb : Inv R env b) :
    Inv R env c := by
  unfold opAdd at h
  split_ifs at h
  · exact inv_mkSum env h hb ha
  · exact inv_mkSum env h ha hb

theorem inv_opMul {a b c : Impl K} (h : opMul a b = some c) (ha : Inv R env a) (hb : Inv R env b) :
    Inv R env c := by
  unfold opMul at h
  split_ifs at h
  cases h
  constructor
  · intro hf
    simp only [Impl.isFn] at hf
    intro x j
    simp only [run, ha.1 hf _ j]
  · intro hl
    simp only [Impl.lin, Bool.and_eq_true] at hl
    have h1 := ha.2 hl.1; have h2 := hb.2 hl.2
    refine ⟨fun t ht x => ?_, fun x y => ?_⟩
    · simp only [run, h2.1 t ht x, h1.1 t ht]
    · simp only [run, h2.2 x y]; exact h1.2 _ _

theorem inv_opMulVec {a c : Impl K} {v : VecLit K} (h : opMulVec a v = some c) (ha : Inv R env a) :
    Inv R env c := by
  unfold opMulVec at h
  split_ifs at h
  cases h
  constructor
  · intro hf
    simp only [Impl.isFn] at hf
    intro x j
    simp only [run, ha.1 hf _ j]
  · intro hl
    simp only [Impl.lin] at hl
    have h1 := ha.2 hl
    refine ⟨fun t ht x => ?_, fun x y => ?_⟩
    · have : (fun j => t * x j * v.val j) = fun j => t * (x j * v.val j) := by funext j; ring
      simp only [run, this, h1.1 t ht]
    · have : (fun j => (x j + y j) * v.val j) = fun j => x j * v.val j + y j * v.val j := by
        funext j; ring
      simp only [run, this]; exact h1.2 _ _

theorem inv_opRMulVec {a c : Impl K} {v : VecLit K} (h : opRMulVec v a = some c) (ha : Inv R env a) :
    Inv R env c := by
  unfold opRMulVec at h
  split_ifs at h <;> cases h
  · refine ⟨fun hf => by simp [Impl.isFn] at hf, fun hl => ?_⟩
    simp only [Impl.lin] at hl
    have h1 := ha.2 hl
    refine ⟨fun t ht x => ?_, fun x y => ?_⟩
    · funext j; simp only [run, h1.1 t ht x]; ring
    · funext j; simp only [run, h1.2 x y]; ring
  · refine ⟨fun hf => by simp [Impl.isFn] at hf, fun hl => ?_⟩
    simp only [Impl.lin] at hl
    have h1 := ha.2 hl
    refine ⟨fun t ht x => ?_, fun x y => ?_⟩
    · funext j; simp only [run, h1.1 t ht x]; ring
    · funext j; simp only [run, h1.2 x y]; ring

theorem inv_opAddVec {a c : Impl K} {v : Vec K} {n : Nat} (h : opAddVec a v n = some c) :
    Inv R env c := by
  unfold opAddVec at h
  split_ifs at h
  cases h
  exact ⟨fun hf => by simp [Impl.isFn] at hf, fun hl => by simp [Impl.lin] at hl⟩

theorem inv_opAddScal {a c : Impl K} {s : K} (h : opAddScal a s = some c) (ha : Inv R env a) :
    Inv R env c := by
  unfold opAddScal at h
  split_ifs at h with hf
  · cases h
    constructor
    · intro _ x j
      simp only [run, ha.1 hf x j]
    · intro hl
      simp only [Impl.lin, Bool.and_eq_true, decide_eq_true_eq] at hl
      obtain ⟨hl, rfl⟩ := hl
      have h1 := ha.2 hl
      refine ⟨fun t ht x => ?_, fun x y => ?_⟩
      · funext j; simp only [run, h1.1 t ht x]; ring
      · funext j; simp only [run, h1.2 x y]; ring
  · cases hr : a.ran <;> rw [hr] at h <;> simp only at h
    · cases h
      exact ⟨fun hf => by simp [Impl.isFn] at hf, fun hl => by simp [Impl.lin] at hl⟩
    · cases h

omit [DecidableEq K] in
theorem run_powAux (a : Impl K) (k : Nat) (x : Vec K) :
    run env (powAux a k) x = iter (run env a) (k + 1) x := by
  induction k with
  | zero => rfl
  | succ k ih => simp only [powAux, run, ih]; rfl

theorem lin_powAux (a : Impl K) (k : Nat) : (powAux a k).lin = a.lin := by
  induction k with
  | zero => rfl
  | succ k ih => simp [powAux, Impl.lin, ih]

omit [DecidableEq K] in
theorem isLin_iter {f : Vec K → Vec K} (h : IsLin R f) (n : Nat) : IsLin R (iter f n) := by
  induction n with
  | zero => exact ⟨fun _ _ _ => rfl, fun _ _ => rfl⟩
  | succ n ih =>
    refine ⟨fun t ht x => ?_, fun x y => ?_⟩
    · simp only [iter, ih.1 t ht x, h.1 t ht]
    · simp only [iter, ih.2 x y]; exact h.2 _ _

theorem inv_powAux {a : Impl K} (ha : Inv R env a) (k : Nat) : Inv R env (powAux a (k + 1)) := by
  constructor
  · intro hf; simp [powAux, Impl.isFn] at hf
  · intro hl
    rw [lin_powAux] at hl
    have : run env (powAux a (k + 1)) = iter (run env a) (k + 2) := by
      funext x; exact run_powAux env a (k + 1) x
    rw [this]
    exact isLin_iter (ha.2 hl) _

theorem inv_mkPProd {a b c : Impl K} (h : mkPProd a b = some c) (ha : Inv R env a)
    (hb : Inv R env b) : Inv R env c := by
  unfold mkPProd at h
  split_ifs at h
  cases h
  constructor
  · intro hf
    simp only [Impl.isFn, Bool.and_eq_true] at hf
    intro x j
    simp only [run, ha.1 hf.1 x j, hb.1 hf.2 x j]
  · intro hl; simp [Impl.lin] at hl

theorem inv_mkQuot {a b c : Impl K} (h : mkQuot a b = some c) (ha : Inv R env a)
    (hb : Inv R env b) : Inv R env c := by
  unfold mkQuot at h
  split_ifs at h with hh
  cases h
  constructor
  · intro _ x j
    simp only [run, ha.1 hh.1 x j, hb.1 hh.2.1 x j]
  · intro hl; simp [Impl.lin] at hl

omit [DecidableEq K] in
theorem run_opAddScal {a c : Impl K} {s : K} (h : opAddScal a s = some c) (x : Vec K) :
    run env c x = fun j => run env a x j + s := by
  unfold opAddScal at h
  split_ifs at h with hf
  · cases h; rfl
  · cases hr : a.ran <;> rw [hr] at h <;> simp only at h
    · cases h; funext j; simp [run]
    · cases h

omit [DecidableEq K] in
theorem run_opAddVec {a c : Impl K} {v : Vec K} {n : Nat} (h : opAddVec a v n = some c)
    (x : Vec K) : run env c x = fun j => run env a x j + v j := by
  unfold opAddVec at h
  split_ifs at h
  cases h; rfl

omit [DecidableEq K] in
theorem run_opMulVec {a c : Impl K} {v : VecLit K} (h : opMulVec a v = some c) (x : Vec K) :
    run env c x = run env a (fun j => x j * v.val j) := by
  unfold opMulVec at h
  split_ifs at h
  cases h; rfl

omit [DecidableEq K] in
theorem run_opRMulVec {a c : Impl K} {v : VecLit K} (h : opRMulVec v a = some c) (x : Vec K) :
    run env c x = fun j => v.val j * run env a x j := by
  unfold opRMulVec at h
  split_ifs at h <;> cases h
  · funext j; simp only [run]; ring
  · rfl

end run_lemmas

/-! ### typing -/

/-- functionals have the field as range -/
def FnRan (i : Impl K) : Prop := i.isFn = true → i.ran = .fld

/-- type of a sum as the documented rule gives it -/
def sumTy (s t : Ty) : Option Ty :=
  if s.dom = t.dom ∧ s.ran = t.ran then some ⟨s.dom, s.ran, s.fn && t.fn⟩ else none

omit [Field K] [DecidableEq K] in
theorem ty_mkSum (a b : Impl K) : (mkSum a b).map Impl.ty = sumTy a.ty b.ty := by
  unfold mkSum sumTy
  split_ifs <;> simp_all [Impl.ty]

omit [Field K] [DecidableEq K] in
theorem sumTy_comm (s t : Ty) : sumTy s t = sumTy t s := by
  unfold sumTy
  split_ifs with h1 h2 h2
  · simp [h1.1, h1.2, Bool.and_comm]
  · exact absurd ⟨h1.1.symm, h1.2.symm⟩ h2
  · exact absurd ⟨h2.1.symm, h2.2.symm⟩ h1
  · rfl

omit [Field K] [DecidableEq K] in
theorem ty_opAdd (a b : Impl K) : (opAdd a b).map Impl.ty = sumTy a.ty b.ty := by
  unfold opAdd
  split_ifs
  · rw [ty_mkSum, sumTy_comm]
  · exact ty_mkSum a b

omit [Field K] [DecidableEq K] in
theorem fnRan_mkSum {a b c : Impl K} (h : mkSum a b = some c) (ha : FnRan a) : FnRan c := by
  unfold mkSum at h
  split_ifs at h; cases h
  intro hfn
  simp only [Impl.isFn_sum, Bool.and_eq_true] at hfn
  simpa using ha hfn.1

omit [Field K] [DecidableEq K] in
theorem fnRan_opAdd {a b c : Impl K} (h : opAdd a b = some c) (ha : FnRan a) (hb : FnRan b) :
    FnRan c := by
  unfold opAdd at h
  split_ifs at h
  · exact fnRan_mkSum h hb
  · exact fnRan_mkSum h ha


theorem ran_opRMulScal (a : Impl K) (s : K) (h : FnRan a) : (opRMulScal s a).ran = a.ran := by
  unfold opRMulScal
  split_ifs with h1 h2
  · rw [h h1]; rfl
  · exact ran_mkLScal ..
  · exact ran_mkLScal ..

theorem ty_opRMulScal (a : Impl K) (s : K) (h : FnRan a) : (opRMulScal s a).ty = a.ty := by
  simp only [Impl.ty, dom_opRMulScal, ran_opRMulScal a s h, isFn_opRMulScal]

theorem ran_opMulScal (env : Nat → Vec K → Vec K) (a : Impl K) (s : K) (re : Bool)
    (h : FnRan a) : (opMulScal env a s re).ran = a.ran := by
  unfold opMulScal
  by_cases h1 : a.isFn = true
  · rw [if_pos h1]
    by_cases h2 : s = 0
    · rw [if_pos h2, h h1]; rfl
    · rw [if_neg h2]
      by_cases h3 : (a.lin && re) = true
      · rw [if_pos h3, ran_mkLScal]
      · rw [if_neg h3, ran_mkRScal]
  · rw [if_neg h1]
    cases hp : rscalParts a with
    | some p =>
      obtain ⟨a', t⟩ := p
      obtain ⟨fn, rfl⟩ := rscalParts_some hp
      simp only [ran_mkRScal]; rfl
    | none =>
      simp only
      by_cases h4 : (a.lin && re) = true
      · rw [if_pos h4]; exact ran_opRMulScal a s h
      · rw [if_neg h4]; exact ran_mkRScal ..

theorem ty_opMulScal (env : Nat → Vec K → Vec K) (a : Impl K) (s : K) (re : Bool)
    (h : FnRan a) : (opMulScal env a s re).ty = a.ty := by
  simp only [Impl.ty, dom_opMulScal, ran_opMulScal env a s re h, isFn_opMulScal]

omit [Field K] [DecidableEq K] in
theorem fnRan_of_ty {a b : Impl K} (h : b.ty = a.ty) (ha : FnRan a) : FnRan b := by
  simp only [Impl.ty, Ty.mk.injEq] at h
  intro hb; rw [h.2.1]; exact ha (h.2.2 ▸ hb)

omit [Field K] [DecidableEq K] in
theorem dom_powAux (a : Impl K) (k : Nat) : (powAux a k).dom = a.dom := by
  induction k with
  | zero => rfl
  | succ k ih => simp [powAux, ih]

omit [Field K] [DecidableEq K] in
theorem ran_powAux (a : Impl K) (k : Nat) : (powAux a k).ran = a.ran := by
  cases k <;> simp [powAux]


/-- type of `A + scalar` -/
def addScalTy (t : Ty) : Option Ty :=
  if t.fn then some t else match t.ran with
    | .vec _ => some t
    | .fld => none

omit [DecidableEq K] in
theorem ty_opAddScal (a : Impl K) (s : K) : (opAddScal a s).map Impl.ty = addScalTy a.ty := by
  unfold opAddScal addScalTy
  by_cases hf : a.isFn = true
  · simp [hf, Impl.ty]
  · have hf' : a.isFn = false := by simpa using hf
    simp only [Impl.ty, hf', Bool.false_eq_true, if_false]
    cases hr : a.ran <;> simp [Impl.ty, hr, hf']

omit [DecidableEq K] in
theorem fnRan_opAddScal {a c : Impl K} {s : K} (h : opAddScal a s = some c) (ha : FnRan a) :
    FnRan c := by
  unfold opAddScal at h
  split_ifs at h with hf
  · cases h; intro _; simpa using ha hf
  · cases hr : a.ran <;> rw [hr] at h <;> simp only at h
    · cases h; intro hfn; simp at hfn
    · cases h

/-- type of `A + vector` -/
def addVecTy (t : Ty) (n : Nat) : Option Ty :=
  if t.ran = .vec n then some ⟨t.dom, t.ran, false⟩ else none

omit [Field K] [DecidableEq K] in
theorem ty_opAddVec (a : Impl K) (v : Vec K) (n : Nat) :
    (opAddVec a v n).map Impl.ty = addVecTy a.ty n := by
  unfold opAddVec addVecTy
  split_ifs <;> simp_all [Impl.ty]

omit [Field K] [DecidableEq K] in
theorem fnRan_opAddVec {a c : Impl K} {v : Vec K} {n : Nat} (h : opAddVec a v n = some c) :
    FnRan c := by
  unfold opAddVec at h
  split_ifs at h; cases h; intro hfn; simp at hfn

/-! ### completeness of the flag -/

theorem lin_opRMulScal_of (a : Impl K) (s : K) (h : a.lin = true) : (opRMulScal s a).lin = true := by
  unfold opRMulScal
  split_ifs
  · rfl
  · rw [lin_mkLScal]; exact h
  · rw [lin_mkLScal]; exact h

theorem lin_opMulScal_of {R : K → Prop} (env : Nat → Vec K → Vec K) {a : Impl K} (s : K)
    (re : Bool) (ha : Inv R env a) (h : a.lin = true) : (opMulScal env a s re).lin = true := by
  unfold opMulScal
  by_cases h1 : a.isFn = true
  · rw [if_pos h1]
    by_cases h2 : s = 0
    · rw [if_pos h2]
      -- an additive map sends 0 to 0
      have hadd := (ha.2 h).2 (fun _ => 0) (fun _ => 0)
      have h0 : (fun j : Nat => ((fun _ => (0 : K)) j + (fun _ => (0 : K)) j)) = fun _ => 0 := by
        funext j; simp
      rw [h0] at hadd
      have h3 : run env a (fun _ => 0) 0 = 0 := by
        have := congrFun hadd 0
        simpa using this
      simp only [Impl.lin_const, h3, decide_true]
    · rw [if_neg h2]
      by_cases h3 : (a.lin && re) = true
      · rw [if_pos h3, lin_mkLScal]; exact h
      · rw [if_neg h3, lin_mkRScal]; exact h
  · rw [if_neg h1]
    cases hp : rscalParts a with
    | some p =>
      obtain ⟨a', t⟩ := p
      obtain ⟨fn, rfl⟩ := rscalParts_some hp
      simp only [lin_mkRScal]; simpa using h
    | none =>
      simp only
      by_cases h4 : (a.lin && re) = true
      · rw [if_pos h4]; exact lin_opRMulScal_of a s h
      · rw [if_neg h4, lin_mkRScal]; exact h

theorem lin_opAdd {a b c : Impl K} (h : opAdd a b = some c) : c.lin = (a.lin && b.lin) := by
  unfold opAdd mkSum at h
  split_ifs at h <;> cases h <;> simp [Bool.and_comm]

theorem lin_opMul {a b c : Impl K} (h : opMul a b = some c) : c.lin = (a.lin && b.lin) := by
  unfold opMul at h
  split_ifs at h; cases h; rfl

theorem lin_opMulVec {a c : Impl K} {v : VecLit K} (h : opMulVec a v = some c) :
    c.lin = a.lin := by
  unfold opMulVec at h
  split_ifs at h; cases h; rfl

theorem lin_opRMulVec {a c : Impl K} {v : VecLit K} (h : opRMulVec v a = some c) :
    c.lin = a.lin := by
  unfold opRMulVec at h
  split_ifs at h <;> cases h <;> rfl

theorem lin_opPow {a c : Impl K} {n : Nat} (h : opPow a n = some c) : c.lin = a.lin := by
  match n, h with
  | 1, h => simp only [opPow, Option.some.injEq] at h; subst h; rfl
  | k + 2, h =>
    simp only [opPow] at h
    split_ifs at h; cases h; exact lin_powAux a _


/-! ### merged normal form -/

theorem merged_mkLScal (fn : Bool) (a : Impl K) (s : K) (h : a.merged = true) :
    (mkLScal fn a s).merged = true := by
  cases a <;> simp_all [mkLScal, Impl.merged, Impl.isLScal]

theorem merged_mkRScal (fn : Bool) (a : Impl K) (s : K) (h : a.merged = true) :
    (mkRScal fn a s).merged = true := by
  cases a <;> simp_all [mkRScal, Impl.merged, Impl.isRScal]

theorem merged_opRMulScal (a : Impl K) (s : K) (h : a.merged = true) :
    (opRMulScal s a).merged = true := by
  unfold opRMulScal
  split_ifs
  · rfl
  · exact merged_mkLScal _ _ _ h
  · exact merged_mkLScal _ _ _ h

theorem merged_opMulScal (env : Nat → Vec K → Vec K) (a : Impl K) (s : K) (re : Bool)
    (h : a.merged = true) : (opMulScal env a s re).merged = true := by
  unfold opMulScal
  by_cases h1 : a.isFn = true
  · rw [if_pos h1]
    by_cases h2 : s = 0
    · rw [if_pos h2]; rfl
    · rw [if_neg h2]
      by_cases h3 : (a.lin && re) = true
      · rw [if_pos h3]; exact merged_mkLScal _ _ _ h
      · rw [if_neg h3]; exact merged_mkRScal _ _ _ h
  · rw [if_neg h1]
    cases hp : rscalParts a with
    | some p =>
      obtain ⟨a', t⟩ := p
      obtain ⟨fn, rfl⟩ := rscalParts_some hp
      simp only [Impl.merged, Bool.and_eq_true] at h
      exact merged_mkRScal _ _ _ h.1
    | none =>
      simp only
      by_cases h4 : (a.lin && re) = true
      · rw [if_pos h4]; exact merged_opRMulScal a s h
      · rw [if_neg h4]; exact merged_mkRScal _ _ _ h

theorem merged_powAux (a : Impl K) (k : Nat) (h : a.merged = true) :
    (powAux a k).merged = true := by
  induction k with
  | zero => exact h
  | succ k ih => simp [powAux, Impl.merged, h, ih]

theorem merged_opAddScal {a c : Impl K} {s : K} (h : opAddScal a s = some c)
    (ha : a.merged = true) : c.merged = true := by
  unfold opAddScal at h
  split_ifs at h
  · cases h; simpa [Impl.merged] using ha
  · cases hr : a.ran <;> rw [hr] at h <;> simp only at h
    · cases h; simpa [Impl.merged] using ha
    · cases h

end OdlModel.OpAlgebra
