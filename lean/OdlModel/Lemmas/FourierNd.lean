/-
Helper lemmas for C18 (round 4): matrix maps along different axes of a C-ordered n-d array commute
(`alongAxis_comm`), hence the order of shape-preserving matrix steps of `applyAxes` along distinct
axes does not matter (`fold_reverse`).
-/
import OdlModel.Lemmas.Phase
import Mathlib.Tactic.Positivity

namespace OdlModel.Fourier

/-- `F` is the matrix map with matrix `M` on signals of length `n` -/
def IsMat {K : Type} [Field K] (F : (Nat → K) → Nat → K) (n : Nat) (M : Nat → Nat → K) : Prop :=
  ∀ f k, F f k = ∑ j ∈ Finset.range n, M k j * f j

theorem idx2_lt (a b n m : Nat) (ha : a < n) (hb : b < m) : a * m + b < n * m := by
  calc a * m + b < a * m + m := by omega
    _ = (a + 1) * m := by ring
    _ ≤ n * m := Nat.mul_le_mul_right m ha

theorem alongAxis_mat_get {K : Type} [Field K] [Inhabited K] (outer len inner : Nat)
    (F : (Nat → K) → Nat → K) (M : Nat → Nat → K) (hF : IsMat F len M) (x : Array K)
    (o k i : Nat) (ho : o < outer) (hk : k < len) (hi : i < inner) :
    (alongAxis outer len inner len F x).getD ((o * len + k) * inner + i) default
      = ∑ j ∈ Finset.range len, M k j * x.getD ((o * len + j) * inner + i) default := by
  have hb : (o * len + k) * inner + i < outer * len * inner :=
    idx2_lt _ _ _ _ (idx2_lt _ _ _ _ ho hk) hi
  rw [alongAxis_get _ _ _ _ _ _ _ hb]
  obtain ⟨a, b, c⟩ := fibre_index len inner o k i hk hi
  rw [a, b, c, hF]

theorem alongAxis_comm_get {K : Type} [Field K] [Inhabited K] (oa la M lb ib : Nat)
    (F G : (Nat → K) → Nat → K) (MF MG : Nat → Nat → K) (hF : IsMat F la MF) (hG : IsMat G lb MG)
    (x : Array K) (o ka rm kb ri : Nat) (ho : o < oa) (hka : ka < la) (hrm : rm < M) (hkb : kb < lb)
    (hri : ri < ib) :
    (alongAxis oa la (M * lb * ib) la F (alongAxis (oa * la * M) lb ib lb G x)).getD
        ((((o * la + ka) * M + rm) * lb + kb) * ib + ri) default
      = (alongAxis (oa * la * M) lb ib lb G (alongAxis oa la (M * lb * ib) la F x)).getD
        ((((o * la + ka) * M + rm) * lb + kb) * ib + ri) default := by
  have e1 : (((o * la + ka) * M + rm) * lb + kb) * ib + ri
      = (o * la + ka) * (M * lb * ib) + ((rm * lb + kb) * ib + ri) := by ring
  have hra : ∀ l, l < lb → (rm * lb + l) * ib + ri < M * lb * ib := fun l hl =>
    idx2_lt _ _ _ _ (idx2_lt _ _ _ _ hrm hl) hri
  have hob : ∀ k, k < la → (o * la + k) * M + rm < oa * la * M := fun k hk =>
    idx2_lt _ _ _ _ (idx2_lt _ _ _ _ ho hk) hrm
  -- left side
  have hL : (alongAxis oa la (M * lb * ib) la F (alongAxis (oa * la * M) lb ib lb G x)).getD
        ((((o * la + ka) * M + rm) * lb + kb) * ib + ri) default
      = ∑ k ∈ Finset.range la, MF ka k * ∑ l ∈ Finset.range lb, MG kb l *
          x.getD ((((o * la + k) * M + rm) * lb + l) * ib + ri) default := by
    rw [e1, alongAxis_mat_get oa la (M * lb * ib) F MF hF _ o ka _ ho hka (hra kb hkb)]
    apply Finset.sum_congr rfl
    intro k hk
    have hk' := Finset.mem_range.mp hk
    have e2 : (o * la + k) * (M * lb * ib) + ((rm * lb + kb) * ib + ri)
        = (((o * la + k) * M + rm) * lb + kb) * ib + ri := by ring
    rw [e2, alongAxis_mat_get (oa * la * M) lb ib G MG hG x _ kb ri (hob k hk') hkb hri]
  have hR : (alongAxis (oa * la * M) lb ib lb G (alongAxis oa la (M * lb * ib) la F x)).getD
        ((((o * la + ka) * M + rm) * lb + kb) * ib + ri) default
      = ∑ l ∈ Finset.range lb, MG kb l * ∑ k ∈ Finset.range la, MF ka k *
          x.getD ((((o * la + k) * M + rm) * lb + l) * ib + ri) default := by
    rw [alongAxis_mat_get (oa * la * M) lb ib G MG hG _ _ kb ri (hob ka hka) hkb hri]
    apply Finset.sum_congr rfl
    intro l hl
    have hl' := Finset.mem_range.mp hl
    have e3 : (((o * la + ka) * M + rm) * lb + l) * ib + ri
        = (o * la + ka) * (M * lb * ib) + ((rm * lb + l) * ib + ri) := by ring
    rw [e3, alongAxis_mat_get oa la (M * lb * ib) F MF hF x o ka _ ho hka (hra l hl')]
    congr 1
    apply Finset.sum_congr rfl
    intro k _
    have e4 : (o * la + k) * (M * lb * ib) + ((rm * lb + l) * ib + ri)
        = (((o * la + k) * M + rm) * lb + l) * ib + ri := by ring
    rw [e4]
  rw [hL, hR]
  simp only [Finset.mul_sum]
  rw [Finset.sum_comm]
  apply Finset.sum_congr rfl; intro l _
  apply Finset.sum_congr rfl; intro k _
  ring


theorem alongAxis_comm {K : Type} [Field K] [Inhabited K] (oa la M lb ib : Nat)
    (F G : (Nat → K) → Nat → K) (MF MG : Nat → Nat → K) (hF : IsMat F la MF) (hG : IsMat G lb MG)
    (x : Array K) :
    alongAxis oa la (M * lb * ib) la F (alongAxis (oa * la * M) lb ib lb G x)
      = alongAxis (oa * la * M) lb ib lb G (alongAxis oa la (M * lb * ib) la F x) := by
  apply Array.ext
  · rw [alongAxis_size, alongAxis_size]; ring
  · intro idx h1 h2
    rw [alongAxis_size] at h1
    have hpos : 0 < oa * la * (M * lb * ib) := Nat.lt_of_le_of_lt (Nat.zero_le _) h1
    have hib : 0 < ib := by
      rcases Nat.eq_zero_or_pos ib with h0 | h0
      · subst h0; simp at hpos
      · exact h0
    have hlb : 0 < lb := by
      rcases Nat.eq_zero_or_pos lb with h0 | h0
      · subst h0; simp at hpos
      · exact h0
    have hM : 0 < M := by
      rcases Nat.eq_zero_or_pos M with h0 | h0
      · subst h0; simp at hpos
      · exact h0
    have hla : 0 < la := by
      rcases Nat.eq_zero_or_pos la with h0 | h0
      · subst h0; simp at hpos
      · exact h0
    set ri := idx % ib with hri
    set q1 := idx / ib with hq1
    set kb := q1 % lb with hkb
    set q2 := q1 / lb with hq2
    set rm := q2 % M with hrm
    set q3 := q2 / M with hq3
    set ka := q3 % la with hka
    set o := q3 / la with ho
    have d1 : idx = q1 * ib + ri := (Nat.div_add_mod' idx ib).symm
    have d2 : q1 = q2 * lb + kb := (Nat.div_add_mod' q1 lb).symm
    have d3 : q2 = q3 * M + rm := (Nat.div_add_mod' q2 M).symm
    have d4 : q3 = o * la + ka := (Nat.div_add_mod' q3 la).symm
    have hidx : idx = (((o * la + ka) * M + rm) * lb + kb) * ib + ri := by
      rw [← d4, ← d3, ← d2, ← d1]
    have ho_lt : o < oa := by
      rw [ho, hq3, hq2, hq1, Nat.div_div_eq_div_mul, Nat.div_div_eq_div_mul, Nat.div_div_eq_div_mul,
        Nat.div_lt_iff_lt_mul (by positivity)]
      calc idx < oa * la * (M * lb * ib) := h1
        _ = _ := by ring
    have := alongAxis_comm_get oa la M lb ib F G MF MG hF hG x o ka rm kb ri ho_lt
      (Nat.mod_lt _ hla) (Nat.mod_lt _ hM) (Nat.mod_lt _ hlb) (Nat.mod_lt _ hib)
    rw [← hidx] at this
    have h2' : idx < oa * la * M * lb * ib := by rw [alongAxis_size] at h2; exact h2
    simpa [Array.getD, h1, h2', alongAxis_size] using this

theorem lprod_append_cons (X Z : List Nat) (y : Nat) :
    lprod (X ++ y :: Z) = lprod X * y * lprod Z := by
  unfold lprod
  rw [List.foldl_append, List.foldl_cons, foldl_mul_eq _ (_ * _)]

/-- the splits of two axes `a < b` of one shape -/
theorem axisSplit_two (sh : List Nat) (a b : Nat) (hab : a < b) (hb : b < sh.length) :
    ∃ M, (axisSplit sh a).2.2 = M * (axisSplit sh b).2.1 * (axisSplit sh b).2.2 ∧
      (axisSplit sh b).1 = (axisSplit sh a).1 * (axisSplit sh a).2.1 * M := by
  refine ⟨lprod ((sh.drop (a + 1)).take (b - a - 1)), ?_, ?_⟩
  · have h1 : sh.drop (a + 1) = (sh.drop (a + 1)).take (b - a - 1) ++ sh[b] :: sh.drop (b + 1) := by
      conv_lhs => rw [← List.take_append_drop (b - a - 1) (sh.drop (a + 1))]
      congr 1
      rw [List.drop_drop, show a + 1 + (b - a - 1) = b by omega, List.drop_eq_getElem_cons hb]
    generalize (sh.drop (a + 1)).take (b - a - 1) = X at h1 ⊢
    show lprod (sh.drop (a + 1)) = _
    rw [h1, lprod_append_cons]
    simp [axisSplit, lprod, List.getD_eq_getElem?_getD, hb]
  · have ha : a < sh.length := by omega
    have h2 : sh.take b = sh.take a ++ sh[a] :: (sh.drop (a + 1)).take (b - a - 1) := by
      calc sh.take b = sh.take ((a + 1) + (b - a - 1)) := by congr 1; omega
        _ = sh.take (a + 1) ++ (sh.drop (a + 1)).take (b - a - 1) := List.take_add
        _ = _ := by rw [List.take_succ_eq_append_getElem ha, List.append_assoc]; rfl
    generalize (sh.drop (a + 1)).take (b - a - 1) = X at h2 ⊢
    show lprod (sh.take b) = _
    rw [h2, lprod_append_cons]
    simp [axisSplit, lprod, List.getD_eq_getElem?_getD, ha]


/-- a shape-preserving step -/
theorem stepFn_keep {K : Type} [Inhabited K] (sh : List Nat) (y : Array K) (a l : Nat)
    (F : (Nat → K) → Nat → K) (ha : a < sh.length) (hl : sh.getD a 1 = l) :
    stepFn (sh, y) ((a, l, F) : Step K)
      = (sh, alongAxis (axisSplit sh a).1 l (axisSplit sh a).2.2 l F y) := by
  simp only [stepFn]
  apply Prod.ext
  · simp [← hl, List.getD_eq_getElem?_getD, ha]
  · simp only; rw [show (axisSplit sh a).2.1 = sh.getD a 1 from rfl, hl]

theorem stepFn_comm_lt {K : Type} [Field K] [Inhabited K] (sh : List Nat) (y : Array K)
    (a b la lb : Nat) (F G : (Nat → K) → Nat → K) (MF MG : Nat → Nat → K)
    (hF : IsMat F la MF) (hG : IsMat G lb MG) (hab : a < b) (hb : b < sh.length)
    (hla : sh.getD a 1 = la) (hlb : sh.getD b 1 = lb) :
    stepFn (stepFn (sh, y) ((b, lb, G) : Step K)) ((a, la, F) : Step K)
      = stepFn (stepFn (sh, y) ((a, la, F) : Step K)) ((b, lb, G) : Step K) := by
  have ha : a < sh.length := by omega
  rw [stepFn_keep sh y b lb G hb hlb, stepFn_keep sh _ a la F ha hla,
    stepFn_keep sh y a la F ha hla, stepFn_keep sh _ b lb G hb hlb]
  obtain ⟨M, h1, h2⟩ := axisSplit_two sh a b hab hb
  have e1 : (axisSplit sh a).2.1 = la := hla
  have e2 : (axisSplit sh b).2.1 = lb := hlb
  rw [h1, h2, e1, e2]
  congr 1
  exact alongAxis_comm _ la M lb _ F G MF MG hF hG y

theorem stepFn_comm {K : Type} [Field K] [Inhabited K] (sh : List Nat) (y : Array K)
    (a b la lb : Nat) (F G : (Nat → K) → Nat → K) (MF MG : Nat → Nat → K)
    (hF : IsMat F la MF) (hG : IsMat G lb MG) (hab : a ≠ b) (ha : a < sh.length) (hb : b < sh.length)
    (hla : sh.getD a 1 = la) (hlb : sh.getD b 1 = lb) :
    stepFn (stepFn (sh, y) ((b, lb, G) : Step K)) ((a, la, F) : Step K)
      = stepFn (stepFn (sh, y) ((a, la, F) : Step K)) ((b, lb, G) : Step K) := by
  rcases Nat.lt_or_gt_of_ne hab with h | h
  · exact stepFn_comm_lt sh y a b la lb F G MF MG hF hG h hb hla hlb
  · exact (stepFn_comm_lt sh y b a lb la G F MG MF hG hF h ha hlb hla).symm

/-- pushing one shape-preserving matrix step through a list of others (different axes) -/
theorem fold_push {K : Type} [Field K] [Inhabited K] (L : List Nat) (sh : List Nat) (len : Nat → Nat)
    (G : Nat → (Nat → K) → Nat → K) (MG : Nat → Nat → Nat → K)
    (hmat : ∀ a, IsMat (G a) (len a) (MG a))
    (a : Nat) (haL : a ∉ L) (ha : a < sh.length) (hla : sh.getD a 1 = len a)
    (hlt : ∀ b ∈ L, b < sh.length) (hlen : ∀ b ∈ L, sh.getD b 1 = len b) (y : Array K) :
    stepFn ((L.map fun b => ((b, len b, G b) : Step K)).foldl stepFn (sh, y)) ((a, len a, G a) : Step K)
      = (L.map fun b => ((b, len b, G b) : Step K)).foldl stepFn
          (stepFn (sh, y) ((a, len a, G a) : Step K)) := by
  induction L generalizing y with
  | nil => rfl
  | cons b L ih =>
    have hb := hlt b (by simp)
    have hlb := hlen b (by simp)
    have hab : a ≠ b := fun e => haL (by simp [e])
    simp only [List.map_cons, List.foldl_cons]
    rw [stepFn_keep sh y b (len b) (G b) hb hlb]
    rw [ih (fun h => haL (by simp [h])) (fun c hc => hlt c (by simp [hc]))
      (fun c hc => hlen c (by simp [hc]))]
    rw [← stepFn_keep sh y b (len b) (G b) hb hlb]
    rw [stepFn_comm sh y a b (len a) (len b) (G a) (G b) (MG a) (MG b) (hmat a) (hmat b) hab ha hb hla hlb]

/-- the order of shape-preserving matrix steps along distinct axes does not matter (reversal) -/
theorem fold_reverse {K : Type} [Field K] [Inhabited K] (L : List Nat) (sh : List Nat) (len : Nat → Nat)
    (G : Nat → (Nat → K) → Nat → K) (MG : Nat → Nat → Nat → K)
    (hmat : ∀ a, IsMat (G a) (len a) (MG a)) (hnd : L.Nodup)
    (hlt : ∀ b ∈ L, b < sh.length) (hlen : ∀ b ∈ L, sh.getD b 1 = len b) (y : Array K) :
    (L.reverse.map fun b => ((b, len b, G b) : Step K)).foldl stepFn (sh, y)
      = (L.map fun b => ((b, len b, G b) : Step K)).foldl stepFn (sh, y) := by
  induction L generalizing y with
  | nil => rfl
  | cons a L ih =>
    have hnd' := List.nodup_cons.mp hnd
    simp only [List.reverse_cons, List.map_append, List.map_cons, List.map_nil, List.foldl_append,
      List.foldl_cons, List.foldl_nil]
    rw [ih hnd'.2 (fun c hc => hlt c (by simp [hc])) (fun c hc => hlen c (by simp [hc]))]
    exact fold_push L sh len G MG hmat a hnd'.1 (hlt a (by simp)) (hlen a (by simp))
      (fun c hc => hlt c (by simp [hc])) (fun c hc => hlen c (by simp [hc])) y

theorem dftInverseNd_full_eq {K : Type} [Field K] [Inhabited K] (w : Nat → K) (σ re : K → K)
    (fftw plus : Bool) (rshape axes : List Nat) (x : Array K) :
    dftInverseNd (fun n => some (w n, (w n)⁻¹)) σ re fftw plus false rshape axes x
      = some (applyAxes rshape
          (axes.reverse.map fun a =>
          (a, rshape.getD a 1,
            if fftw then dftInverseFftw plus (w (rshape.getD a 1)) (w (rshape.getD a 1))⁻¹ (rshape.getD a 1)
            else dftInverseNp plus (w (rshape.getD a 1)) (w (rshape.getD a 1))⁻¹ (rshape.getD a 1))) x) := by
  have hsh : (rshape.zipIdx.map fun (n, a) => if false && some a == axes.getLast? then hcLen n else n)
      = rshape := by
    apply List.ext_getElem
    · simp
    · intro i h1 h2; simp
  simp only [dftInverseNd, Option.pure_def, Option.bind_eq_bind, Option.bind_some]
  rw [hsh]
  simp only [Bool.false_and, Bool.false_eq_true, if_false]
  rw [mapM_some']
  rfl

theorem dftInverseNp_isMat {K : Type} [Field K] (p : Bool) (w winv : K) (n : Nat) :
    IsMat (dftInverseNp p w winv n) n
      (fun k j => if p then winv ^ (j * k) / (n : K) else w ^ (j * k) / (n : K)) := by
  intro f k
  cases p
  · simp only [dftInverseNp, Bool.false_eq_true, if_false, dftSum_eq, div_eq_mul_inv, Finset.sum_mul]
    apply Finset.sum_congr rfl; intro j _; ring
  · simp only [dftInverseNp, npIfft, if_true, dftSum_eq, div_eq_mul_inv, Finset.sum_mul]
    apply Finset.sum_congr rfl; intro j _; ring

theorem zip_map_self {α β : Type} (l : List α) (f : α → β) :
    l.zip (l.map f) = l.map fun a => (a, f a) := by
  induction l with
  | nil => rfl
  | cons a t ih => simp [ih]

theorem ftInverseAxis_isMat {K : Type} [Field K] (e : Rat → K) (amp : Nat → K) (c : Nat → Rat)
    (t : Rat) (sh p : Bool) (w winv : K) (n : Nat) :
    IsMat (ftInverseAxis e amp c t sh p w winv n) n
      (fun k j => e (preExp n sh p k) *
        (if p then winv ^ (j * k) / (n : K) else w ^ (j * k) / (n : K)) *
        (e (postExp p t (c j)) / amp j)) := by
  intro f k
  unfold ftInverseAxis
  rw [dftInverseNp_isMat p w winv n _ k, Finset.mul_sum]
  apply Finset.sum_congr rfl; intro j _; ring

theorem ftSep_eq {K : Type} [Field K] [Inhabited K] (w : Nat → K) (e : Rat → K)
    (amp : Nat → Nat → K) (c : Nat → Nat → Rat) (t : Nat → Rat) (plus : Bool)
    (rshape axes : List Nat) (shiftOf : Nat → Bool) (x : Array K) :
    ftForwardSepNd (fun n => some (w n, (w n)⁻¹)) e amp c t plus rshape axes (axes.map shiftOf) x
      = some (applyAxes rshape (axes.reverse.map fun a =>
          (a, rshape.getD a 1, ftForwardAxis e (amp a) (c a) (t a) (shiftOf a) plus
            (w (rshape.getD a 1)) (w (rshape.getD a 1))⁻¹ (rshape.getD a 1))) x) ∧
    ftInverseSepNd (fun n => some (w n, (w n)⁻¹)) e amp c t plus rshape axes (axes.map shiftOf) x
      = some (applyAxes rshape (axes.reverse.map fun a =>
          (a, rshape.getD a 1, ftInverseAxis e (amp a) (c a) (t a) (shiftOf a) plus
            (w (rshape.getD a 1)) (w (rshape.getD a 1))⁻¹ (rshape.getD a 1))) x) := by
  constructor
  · simp only [ftForwardSepNd, Option.pure_def, Option.bind_eq_bind, Option.bind_some, zip_map_self,
      ← List.map_reverse]
    rw [mapM_some' (fun p : Nat × Bool => ((p.1, rshape.getD p.1 1, ftForwardAxis e (amp p.1) (c p.1) (t p.1) p.2 plus
        (w (rshape.getD p.1 1)) (w (rshape.getD p.1 1))⁻¹ (rshape.getD p.1 1)) : Step K))]
    simp [List.map_map, Function.comp_def]
  · simp only [ftInverseSepNd, Option.pure_def, Option.bind_eq_bind, Option.bind_some, zip_map_self,
      ← List.map_reverse]
    rw [mapM_some' (fun p : Nat × Bool => ((p.1, rshape.getD p.1 1, ftInverseAxis e (amp p.1) (c p.1) (t p.1) p.2 plus
        (w (rshape.getD p.1 1)) (w (rshape.getD p.1 1))⁻¹ (rshape.getD p.1 1)) : Step K))]
    simp [List.map_map, Function.comp_def]

end OdlModel.Fourier
