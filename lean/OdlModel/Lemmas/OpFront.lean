/-
Case evaluations about the tests in front of the `LinearSpaceElement` operators
(`Model/ElemOps.lean::opFront`, `Gen/OpFront.lean::progOf`), kept out of `Props/C01.lean`
so that the property file builds fast.  The property theorems `C01.extracted_opfront_is_model`
and `C01.opfront_write_only_if` are these statements.
-/
import OdlModel.Model.ElemOps
import OdlModel.Gen.OpFront
namespace OdlModel.Lemmas.OpFront
open OdlModel.ElemOps OdlModel.Gen.OpFront

/-- The extracted chain of every operator method evaluates to the specification `opFront`
(12 methods x 2^7 operand facts, by evaluation). -/
theorem eval_eq_opFront (m : Meth) (f : OFacts)
    (hwf : (f.inSpace = true → f.isElem = true) ∧ (f.isElem = true → f.inField = false)) :
    (progOf m).eval progOf 40 f = some (opFront m f) := by
  obtain ⟨prio, noField, inSpace, isElem, inField, noOne, coercible⟩ := f
  cases m <;> cases prio <;> cases noField <;> cases inSpace <;> cases isElem <;>
    cases inField <;> cases noOne <;> cases coercible <;>
    first | rfl | exact absurd (hwf.1 rfl) (by decide) | exact absurd (hwf.2 rfl) (by decide)

/-- The specification routes to a writing branch only for combinable operands. -/
theorem opFront_write_only_if (m : Meth) (f : OFacts)
    (hwf : (f.inSpace = true → f.isElem = true) ∧ (f.isElem = true → f.inField = false))
    (h : opFront m f = .write) :
    f.noField = false ∧ (f.inSpace = true ∨ f.inField = true ∨ f.coercible = true) ∧
      (f.isElem = true → f.inSpace = true) ∧ (m.inPlace = false → f.prio = false) := by
  obtain ⟨prio, noField, inSpace, isElem, inField, noOne, coercible⟩ := f
  cases m <;> cases prio <;> cases noField <;> cases inSpace <;> cases isElem <;>
    cases inField <;> cases noOne <;> cases coercible <;>
    simp_all [opFront, Meth.delegateTo, Meth.inPlace, Meth.needsOne]

end OdlModel.Lemmas.OpFront
