/-
C06: the executed model `Impl` over `ℝ` and real analysis: along every line every output entry
is a polynomial whose derivative at 0 is the entry of `derivative(x)(d)` (via `ℝ[X]`, the
homomorphism lemma `run_map_hom` and the dual-number theorem — no new induction).
-/
import OdlModel.Lemmas.Deriv
import Mathlib.Analysis.Calculus.Deriv.Polynomial
set_option linter.unusedSectionVars false
namespace OdlModel.Deriv
open Polynomial

theorem map_id' {K : Type} (i : Impl K) : i.map (fun a => a) = i := by
  induction i <;> simp_all [Impl.map]

theorem evalHom (s : ℝ) : IsHom (fun p : ℝ[X] => p.eval s) where
  add := fun _ _ => eval_add
  mul := fun _ _ => eval_mul
  zero := eval_zero
  one := eval_one

/-- Truncation `ℝ[X] → ℝ[ε]/(ε²)`. -/
noncomputable def polyToDual (p : ℝ[X]) : Dual ℝ := ⟨p.coeff 0, p.coeff 1⟩

theorem dual_ext' {p q : Dual ℝ} (h1 : p.re = q.re) (h2 : p.eps = q.eps) : p = q := by
  cases p; cases q; simp_all

theorem polyToDual_hom : IsHom polyToDual where
  add p q := by apply dual_ext' <;> simp [polyToDual]
  mul p q := by
    apply dual_ext'
    · simp [polyToDual, mul_coeff_zero]
    · simp [polyToDual, mul_coeff_one, mul_coeff_zero]
  zero := by apply dual_ext' <;> simp [polyToDual]
  one := by apply dual_ext' <;> simp [polyToDual, coeff_one]

/-- Over `ℝ`, along every line `s ↦ x + s d`, every output entry of every well-formed tree of
the EXECUTED model is a polynomial in `s` whose derivative at `0` is the same entry of
`derivative(x)(d)`. -/
theorem impl_hasDerivAt_line [DecidableEq ℝ] (i : Impl ℝ) (hwf : i.wf = true) (x d : Vec ℝ)
    (j : Impl ℝ) (hj : i.deriv x = some j) (k : Nat) :
    HasDerivAt (fun s : ℝ => i.run (fun m => x m + s * d m) k) (j.run d k) 0 := by
  let Xv : Vec ℝ[X] := fun m => C (x m) + X * C (d m)
  let P : ℝ[X] := (i.map C).run Xv k
  have h1 : ∀ s : ℝ, i.run (fun m => x m + s * d m) k = P.eval s := by
    intro s
    have h := run_map_hom (evalHom s) (i.map C) Xv k
    rw [map_map] at h
    have e1 : (fun a : ℝ => (C a : ℝ[X]).eval s) = fun a => a := by funext a; simp
    rw [e1, map_id'] at h
    have e2 : (fun m => (Xv m).eval s) = fun m => x m + s * d m := by
      funext m; simp [Xv]; ring
    rw [e2] at h
    exact h
  have h2 : polyToDual P = ⟨i.run x k, j.run d k⟩ := by
    have h := run_map_hom polyToDual_hom (i.map C) Xv k
    rw [map_map] at h
    have e1 : (fun a : ℝ => polyToDual (C a)) = Dual.C := by
      funext a; apply dual_ext' <;> simp [polyToDual, Dual.C, coeff_C]
    have e2 : (fun m => polyToDual (Xv m)) = fun m => (⟨x m, d m⟩ : Dual ℝ) := by
      funext m; apply dual_ext' <;> simp [polyToDual, Xv, coeff_C]
    rw [e1, e2] at h
    rw [← h]
    exact dual_ext' (run_map_re i _ k) (run_map_eps i hwf _ j hj k)
  have h3 : P.coeff 1 = j.run d k := congrArg Dual.eps h2
  have h4 := P.hasDerivAt 0
  have e3 : (derivative P).eval 0 = j.run d k := by
    rw [← coeff_zero_eq_eval_zero, coeff_derivative, h3]; simp
  rw [e3] at h4
  have e4 : (fun s : ℝ => i.run (fun m => x m + s * d m) k) = fun s => P.eval s := funext h1
  rw [e4]; exact h4

end OdlModel.Deriv
