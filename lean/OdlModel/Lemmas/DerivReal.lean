/-
C06: the executed model `Impl` over `ℝ` and real analysis: along every line every output entry
is a polynomial whose derivative at 0 is the entry of `derivative(x)(d)` (via `ℝ[X]`, the
homomorphism lemma `run_map_hom` and the dual-number theorem — no new induction).
-/
import OdlModel.Lemmas.Deriv
import Mathlib.Analysis.Calculus.Deriv.Polynomial
import Mathlib.Algebra.Polynomial.Div
import Mathlib.Tactic.IntervalCases
import Mathlib.Tactic.FieldSimp
import Mathlib.Tactic.Linarith
set_option linter.unusedSectionVars false
namespace OdlModel.Deriv
open Polynomial

theorem map_id' {K : Type} (i : Impl K) : i.map (fun a => a) = i := by
  induction i <;> simp_all [Impl.map]

theorem evalHom (s : ℝ) : IsHom (fun p : ℝ[X] => p.eval s) where
  add := fun _ _ => eval_add
  mul := fun _ _ => eval_mul
  zero := eval_zero
  one := eval_one

/-- Truncation `ℝ[X] → ℝ[ε]/(ε²)`. -/
noncomputable def polyToDual (p : ℝ[X]) : Dual ℝ := ⟨p.coeff 0, p.coeff 1⟩

theorem dual_ext' {p q : Dual ℝ} (h1 : p.re = q.re) (h2 : p.eps = q.eps) : p = q := by
  cases p; cases q; simp_all

theorem polyToDual_hom : IsHom polyToDual where
  add p q := by apply dual_ext' <;> simp [polyToDual]
  mul p q := by
    apply dual_ext'
    · simp [polyToDual, mul_coeff_zero]
    · simp [polyToDual, mul_coeff_one, mul_coeff_zero]
  zero := by apply dual_ext' <;> simp [polyToDual]
  one := by apply dual_ext' <;> simp [polyToDual, coeff_one]

/-- Over `ℝ`, along every line `s ↦ x + s d`, every output entry of every well-formed tree of
the EXECUTED model is a polynomial in `s` whose derivative at `0` is the same entry of
`derivative(x)(d)`. -/
theorem impl_hasDerivAt_line [DecidableEq ℝ] (i : Impl ℝ) (hwf : i.wf = true) (x d : Vec ℝ)
    (j : Impl ℝ) (hj : i.deriv x = some j) (k : Nat) :
    HasDerivAt (fun s : ℝ => i.run (fun m => x m + s * d m) k) (j.run d k) 0 := by
  let Xv : Vec ℝ[X] := fun m => C (x m) + X * C (d m)
  let P : ℝ[X] := (i.map C).run Xv k
  have h1 : ∀ s : ℝ, i.run (fun m => x m + s * d m) k = P.eval s := by
    intro s
    have h := run_map_hom (evalHom s) (i.map C) Xv k
    rw [map_map] at h
    have e1 : (fun a : ℝ => (C a : ℝ[X]).eval s) = fun a => a := by funext a; simp
    rw [e1, map_id'] at h
    have e2 : (fun m => (Xv m).eval s) = fun m => x m + s * d m := by
      funext m; simp [Xv]; ring
    rw [e2] at h
    exact h
  have h2 : polyToDual P = ⟨i.run x k, j.run d k⟩ := by
    have h := run_map_hom polyToDual_hom (i.map C) Xv k
    rw [map_map] at h
    have e1 : (fun a : ℝ => polyToDual (C a)) = Dual.C := by
      funext a; apply dual_ext' <;> simp [polyToDual, Dual.C, coeff_C]
    have e2 : (fun m => polyToDual (Xv m)) = fun m => (⟨x m, d m⟩ : Dual ℝ) := by
      funext m; apply dual_ext' <;> simp [polyToDual, Xv, coeff_C]
    rw [e1, e2] at h
    rw [← h]
    exact dual_ext' (run_map_re i _ k) (run_map_eps i hwf _ j hj k)
  have h3 : P.coeff 1 = j.run d k := congrArg Dual.eps h2
  have h4 := P.hasDerivAt 0
  have e3 : (derivative P).eval 0 = j.run d k := by
    rw [← coeff_zero_eq_eval_zero, coeff_derivative, h3]; simp
  rw [e3] at h4
  have e4 : (fun s : ℝ => i.run (fun m => x m + s * d m) k) = fun s => P.eval s := funext h1
  rw [e4]; exact h4


noncomputable def polyToTrunc3 (p : ℝ[X]) : Trunc3 ℝ := ⟨p.coeff 0, p.coeff 1, p.coeff 2⟩

theorem mul_coeff_two' (p q : ℝ[X]) :
    (p * q).coeff 2 = p.coeff 0 * q.coeff 2 + p.coeff 1 * q.coeff 1 + p.coeff 2 * q.coeff 0 := by
  rw [coeff_mul]
  have : Finset.antidiagonal 2 = {(0, 2), (1, 1), (2, 0)} := by decide
  rw [this]
  simp [Finset.sum_insert, add_assoc]

theorem polyToTrunc3_hom : IsHom polyToTrunc3 where
  add p q := by apply Trunc3.ext' <;> simp [polyToTrunc3]
  mul p q := by
    apply Trunc3.ext'
    · simp [polyToTrunc3, mul_coeff_zero]
    · simp [polyToTrunc3, mul_coeff_one, mul_coeff_zero]
    · simp [polyToTrunc3, mul_coeff_two']
  zero := by apply Trunc3.ext' <;> simp [polyToTrunc3]
  one := by apply Trunc3.ext' <;> simp [polyToTrunc3, coeff_one]

/-- The exact `O(h²)` rate of central differences for the executed model over `ℝ`. -/
theorem impl_central_diff_rate [DecidableEq ℝ] (i : Impl ℝ) (hwf : i.wf = true) (x d : Vec ℝ)
    (j : Impl ℝ) (hj : i.deriv x = some j) (k : Nat) :
    ∃ Q : ℝ[X], ∀ h : ℝ, h ≠ 0 →
      (2 * h)⁻¹ * (i.run (fun m => x m + h * d m) k - i.run (fun m => x m + (-h) * d m) k)
        - j.run d k = h ^ 2 * Q.eval h := by
  let Xp : Vec ℝ[X] := fun m => C (x m) + X * C (d m)
  let Xm : Vec ℝ[X] := fun m => C (x m) + X * C (- d m)
  let P : ℝ[X] := (i.map C).run Xp k
  let M : ℝ[X] := (i.map C).run Xm k
  have evalP : ∀ s : ℝ, i.run (fun m => x m + s * d m) k = P.eval s := by
    intro s
    have h := run_map_hom (evalHom s) (i.map C) Xp k
    rw [map_map] at h
    have e1 : (fun a : ℝ => (C a : ℝ[X]).eval s) = fun a => a := by funext a; simp
    rw [e1, map_id'] at h
    have e2 : (fun m => (Xp m).eval s) = fun m => x m + s * d m := by
      funext m; simp [Xp]; ring
    rw [e2] at h; exact h
  have evalM : ∀ s : ℝ, i.run (fun m => x m + (-s) * d m) k = M.eval s := by
    intro s
    have h := run_map_hom (evalHom s) (i.map C) Xm k
    rw [map_map] at h
    have e1 : (fun a : ℝ => (C a : ℝ[X]).eval s) = fun a => a := by funext a; simp
    rw [e1, map_id'] at h
    have e2 : (fun m => (Xm m).eval s) = fun m => x m + (-s) * d m := by
      funext m; simp [Xm]; ring
    rw [e2] at h; exact h
  -- coefficients 0, 1, 2 through the truncation to R[h]/(h³)
  have cd := central_diff i hwf x d j hj k
  have tP : polyToTrunc3 P = (i.map Trunc3.C).run (fun m => ⟨x m, d m, 0⟩) k := by
    have h := run_map_hom polyToTrunc3_hom (i.map C) Xp k
    rw [map_map] at h
    have e1 : (fun a : ℝ => polyToTrunc3 (C a)) = Trunc3.C := by
      funext a; apply Trunc3.ext' <;> simp [polyToTrunc3, Trunc3.C, coeff_C]
    have e2 : (fun m => polyToTrunc3 (Xp m)) = fun m => (⟨x m, d m, 0⟩ : Trunc3 ℝ) := by
      funext m; apply Trunc3.ext' <;> simp [polyToTrunc3, Xp, coeff_C, coeff_X]
    rw [e1, e2] at h; exact h.symm
  have tM : polyToTrunc3 M = (i.map Trunc3.C).run (fun m => ⟨x m, - d m, 0⟩) k := by
    have h := run_map_hom polyToTrunc3_hom (i.map C) Xm k
    rw [map_map] at h
    have e1 : (fun a : ℝ => polyToTrunc3 (C a)) = Trunc3.C := by
      funext a; apply Trunc3.ext' <;> simp [polyToTrunc3, Trunc3.C, coeff_C]
    have e2 : (fun m => polyToTrunc3 (Xm m)) = fun m => (⟨x m, - d m, 0⟩ : Trunc3 ℝ) := by
      funext m; apply Trunc3.ext' <;> simp [polyToTrunc3, Xm, coeff_C, coeff_X]
    rw [e1, e2] at h; exact h.symm
  obtain ⟨ha, ha', hb, hb', hc⟩ := cd
  rw [← tP] at ha hb hc
  rw [← tM] at ha' hb' hc
  simp only [polyToTrunc3] at ha ha' hb hb' hc
  -- R := P - M - 2 b X has vanishing coefficients 0, 1, 2
  let Rp : ℝ[X] := P - M - C (2 * j.run d k) * X
  have hdiv : X ^ 3 ∣ Rp := by
    rw [X_pow_dvd_iff]
    intro n hn
    interval_cases n
    · simp [Rp, ha, ha']
    · simp [Rp, hb, hb']; ring
    · simp [Rp, hc]
  obtain ⟨Q, hQ⟩ := hdiv
  refine ⟨C (1 / 2 : ℝ) * Q, fun h hh => ?_⟩
  rw [evalP h, evalM h]
  have e : P.eval h - M.eval h = 2 * j.run d k * h + h ^ 3 * Q.eval h := by
    have := congrArg (fun p : ℝ[X] => p.eval h) hQ
    simp only [Rp, eval_sub, eval_mul, eval_C, eval_X, eval_pow] at this
    linarith
  rw [e]
  simp only [eval_mul, eval_C]
  field_simp
  ring


end OdlModel.Deriv
