/-
C02 helper lemmas, part 2: every norm branch of the model is a weighted p-norm `wpn` of the
moduli of its entries (tensor / discretized spaces) or of its component norms (product
spaces); homogeneity, monotonicity and the triangle (Minkowski) inequality of `wpn`.
-/
import OdlModel.Lemmas.Weighting
import Mathlib.Analysis.MeanInequalities

namespace OdlModel.C02
open OdlModel.Weighting Finset

/-- `(Σ_{i<n} aᵢ^q ωᵢ)^{1/q}` -/
noncomputable def wp (q : ℝ) (n : Nat) (ω a : Nat → ℝ) : ℝ :=
  (∑ i ∈ range n, a i ^ q * ω i) ^ (1 / q)

/-- `max_{i<n} aᵢ ωᵢ` (starting from 0) -/
noncomputable def wmax (n : Nat) (ω a : Nat → ℝ) : ℝ := maxTo n (fun i => a i * ω i)

/-- weighted p-norm in the model's convention (`‖·‖_{ω,∞} = max aᵢ ωᵢ`) -/
noncomputable def wpn : Expo ℝ → Nat → (Nat → ℝ) → (Nat → ℝ) → ℝ
  | .one => wp 1
  | .two => wp 2
  | .inf => wmax
  | .gen q => wp q

/-- exponent admissible for homogeneity: a generic exponent is positive -/
def ExpoPos : Expo ℝ → Prop
  | .gen q => 0 < q
  | _ => True

/-- exponent admissible for the triangle inequality: a generic exponent is `≥ 1` -/
def ExpoGe1 : Expo ℝ → Prop
  | .gen q => 1 ≤ q
  | _ => True

theorem ExpoGe1.pos {p : Expo ℝ} (h : ExpoGe1 p) : ExpoPos p := by
  cases p <;> simp_all [ExpoGe1, ExpoPos]; linarith

section wp
variable (q : ℝ) (n : Nat) (ω : Nat → ℝ) (hω : ∀ i, i < n → 0 ≤ ω i)
include hω

theorem wp_sum_nonneg (a : Nat → ℝ) (ha : ∀ i, i < n → 0 ≤ a i) :
    0 ≤ ∑ i ∈ range n, a i ^ q * ω i :=
  Finset.sum_nonneg (fun i hi => mul_nonneg (Real.rpow_nonneg (ha i (mem_range.mp hi)) _)
    (hω i (mem_range.mp hi)))

theorem wp_nonneg (a : Nat → ℝ) (ha : ∀ i, i < n → 0 ≤ a i) : 0 ≤ wp q n ω a :=
  Real.rpow_nonneg (wp_sum_nonneg q n ω hω a ha) _

theorem wp_smul (hq : 0 < q) (k : ℝ) (hk : 0 ≤ k) (a : Nat → ℝ) (ha : ∀ i, i < n → 0 ≤ a i) :
    wp q n ω (fun i => k * a i) = k * wp q n ω a := by
  unfold wp
  have : ∑ i ∈ range n, (k * a i) ^ q * ω i = k ^ q * ∑ i ∈ range n, a i ^ q * ω i := by
    rw [Finset.mul_sum]
    exact Finset.sum_congr rfl (fun i hi => by
      rw [Real.mul_rpow hk (ha i (mem_range.mp hi))]; ring)
  rw [this, Real.mul_rpow (Real.rpow_nonneg hk _) (wp_sum_nonneg q n ω hω a ha),
    ← Real.rpow_mul hk, mul_one_div_cancel hq.ne', Real.rpow_one]

theorem wp_mono (hq : 0 < q) (a b : Nat → ℝ) (ha : ∀ i, i < n → 0 ≤ a i)
    (hab : ∀ i, i < n → a i ≤ b i) : wp q n ω a ≤ wp q n ω b := by
  unfold wp
  refine Real.rpow_le_rpow (wp_sum_nonneg q n ω hω a ha) ?_ (by positivity)
  refine Finset.sum_le_sum (fun i hi => ?_)
  have hi' := mem_range.mp hi
  exact mul_le_mul_of_nonneg_right (Real.rpow_le_rpow (ha i hi') (hab i hi') hq.le) (hω i hi')

theorem wp_add (hq : 1 ≤ q) (a b : Nat → ℝ) (ha : ∀ i, i < n → 0 ≤ a i)
    (hb : ∀ i, i < n → 0 ≤ b i) :
    wp q n ω (fun i => a i + b i) ≤ wp q n ω a + wp q n ω b := by
  have hq0 : 0 < q := by linarith
  unfold wp
  have key : ∀ c : Nat → ℝ, (∀ i, i < n → 0 ≤ c i) →
      ∑ i ∈ range n, c i ^ q * ω i = ∑ i ∈ range n, (c i * ω i ^ (1 / q)) ^ q := by
    intro c hc
    refine Finset.sum_congr rfl (fun i hi => ?_)
    have hi' := mem_range.mp hi
    rw [Real.mul_rpow (hc i hi') (Real.rpow_nonneg (hω i hi') _), ← Real.rpow_mul (hω i hi'),
      one_div_mul_cancel hq0.ne', Real.rpow_one]
  rw [key _ (fun i hi => add_nonneg (ha i hi) (hb i hi)), key a ha, key b hb]
  have := Real.Lp_add_le_of_nonneg (range n) (f := fun i => a i * ω i ^ (1 / q))
    (g := fun i => b i * ω i ^ (1 / q)) hq
    (fun i hi => mul_nonneg (ha i (mem_range.mp hi)) (Real.rpow_nonneg (hω i (mem_range.mp hi)) _))
    (fun i hi => mul_nonneg (hb i (mem_range.mp hi)) (Real.rpow_nonneg (hω i (mem_range.mp hi)) _))
  simpa [add_mul] using this

theorem wmax_nonneg (a : Nat → ℝ) : 0 ≤ wmax n ω a := maxTo_nonneg _ _

theorem wmax_smul (k : ℝ) (hk : 0 ≤ k) (a : Nat → ℝ) :
    wmax n ω (fun i => k * a i) = k * wmax n ω a := by
  unfold wmax
  rw [← maxTo_mul_left k hk]
  congr 1; funext i; ring

theorem wmax_mono (a b : Nat → ℝ) (hab : ∀ i, i < n → a i ≤ b i) : wmax n ω a ≤ wmax n ω b :=
  maxTo_mono n _ _ (fun i hi => mul_le_mul_of_nonneg_right (hab i hi) (hω i hi))

theorem wmax_add (a b : Nat → ℝ) : wmax n ω (fun i => a i + b i) ≤ wmax n ω a + wmax n ω b := by
  unfold wmax
  refine le_trans (le_of_eq ?_) (maxTo_add_le n _ _)
  congr 1; funext i; ring

theorem wpn_nonneg (p : Expo ℝ) (a : Nat → ℝ) (ha : ∀ i, i < n → 0 ≤ a i) : 0 ≤ wpn p n ω a := by
  cases p <;> simp only [wpn]
  all_goals first | exact wp_nonneg _ n ω hω a ha | exact wmax_nonneg n ω hω a

theorem wpn_smul (p : Expo ℝ) (hp : ExpoPos p) (k : ℝ) (hk : 0 ≤ k) (a : Nat → ℝ)
    (ha : ∀ i, i < n → 0 ≤ a i) : wpn p n ω (fun i => k * a i) = k * wpn p n ω a := by
  cases p with
  | one => exact wp_smul 1 n ω hω one_pos k hk a ha
  | two => exact wp_smul 2 n ω hω two_pos k hk a ha
  | inf => exact wmax_smul n ω hω k hk a
  | gen q => exact wp_smul q n ω hω hp k hk a ha

theorem wpn_mono (p : Expo ℝ) (hp : ExpoPos p) (a b : Nat → ℝ) (ha : ∀ i, i < n → 0 ≤ a i)
    (hab : ∀ i, i < n → a i ≤ b i) : wpn p n ω a ≤ wpn p n ω b := by
  cases p with
  | one => exact wp_mono 1 n ω hω one_pos a b ha hab
  | two => exact wp_mono 2 n ω hω two_pos a b ha hab
  | inf => exact wmax_mono n ω hω a b hab
  | gen q => exact wp_mono q n ω hω hp a b ha hab

theorem wpn_add (p : Expo ℝ) (hp : ExpoGe1 p) (a b : Nat → ℝ) (ha : ∀ i, i < n → 0 ≤ a i)
    (hb : ∀ i, i < n → 0 ≤ b i) :
    wpn p n ω (fun i => a i + b i) ≤ wpn p n ω a + wpn p n ω b := by
  cases p with
  | one => exact wp_add 1 n ω hω le_rfl a b ha hb
  | two => exact wp_add 2 n ω hω one_le_two a b ha hb
  | inf => exact wmax_add n ω hω a b
  | gen q => exact wp_add q n ω hω hp a b ha hb

end wp

theorem wpn_congr (p : Expo ℝ) (n : Nat) (ω ω' a b : Nat → ℝ)
    (h : ∀ i, i < n → a i = b i) (hω : ∀ i, i < n → ω i = ω' i) :
    wpn p n ω a = wpn p n ω' b := by
  have hs : ∀ q : ℝ, wp q n ω a = wp q n ω' b := fun q => by
    unfold wp
    rw [Finset.sum_congr rfl (fun i hi => by rw [h i (mem_range.mp hi), hω i (mem_range.mp hi)])]
  have hm : ∀ m : Nat, m ≤ n → maxTo m (fun i => a i * ω i) = maxTo m (fun i => b i * ω' i) := by
    intro m hm
    induction m with
    | zero => rfl
    | succ m ih => simp only [maxTo, ih (by omega), h m (by omega), hω m (by omega)]
  cases p <;> simp only [wpn, hs, wmax, hm n le_rfl]

variable {𝕜 : Type} [RCLike 𝕜]

theorem wp_const (q : ℝ) (n : Nat) (c : ℝ) (hc : 0 ≤ c) (a : Nat → ℝ) (ha : ∀ i, 0 ≤ a i) :
    wp q n (fun _ => c) a = c ^ (1 / q) * (∑ i ∈ range n, a i ^ q) ^ (1 / q) := by
  unfold wp
  rw [← Finset.sum_mul, mul_comm, Real.mul_rpow hc
    (Finset.sum_nonneg (fun i _ => Real.rpow_nonneg (ha i) _))]

theorem tNorm_eq_wpn (close1 : ℝ → Bool) (w : TW ℝ) (n : Nat) (hw : twPos w n) (p : Expo ℝ)
    (hp : ExpoPos p) (x : Nat → 𝕜) :
    tNorm (ops 𝕜) (roots close1) w p n x = wpn p n (twFn w) (fun i => ‖x i‖) := by
  cases w with
  | const c =>
    rcases Nat.eq_zero_or_pos n with rfl | hn
    · cases p with
      | gen q =>
        have : q⁻¹ ≠ 0 := inv_ne_zero (ne_of_gt hp)
        simp [tNorm, vecNorm, sumTo, wpn, wp, Real.zero_rpow this]
      | _ => simp [tNorm, vecNorm, sumTo, maxTo, wpn, wp, wmax]
    have hc : 0 ≤ c := (hw 0 hn).le
    have hn0 : ∀ i, 0 ≤ ‖x i‖ := fun i => norm_nonneg _
    cases p with
    | one =>
      simp only [tNorm, vecNorm, sumTo_eq_sum, roots_rpow, ops_abs, wpn, twFn,
        wp_const 1 n c hc _ hn0, Real.rpow_one, div_one]
    | two =>
      simp only [tNorm, vecNorm, sumTo_eq_sum, roots_sqrt, ops_abs, wpn, twFn,
        wp_const 2 n c hc _ hn0, Real.sqrt_eq_rpow]
      congr 2
      exact Finset.sum_congr rfl (fun i _ => by rw [Real.rpow_two]; ring)
    | inf =>
      simp only [tNorm, vecNorm, ops_abs, wpn, wmax, twFn, ← maxTo_mul_left c hc]
      congr 1; funext i; ring
    | gen q =>
      simp only [tNorm, vecNorm, sumTo_eq_sum, roots_rpow, ops_abs, wpn, twFn,
        wp_const q n c hc _ hn0]
  | arr w =>
    cases p with
    | one => simp only [tNorm, sumTo_eq_sum, roots_rpow, ops_abs, wpn, wp, twFn]
    | two =>
      have hre : RCLike.re (tInner (ops 𝕜).toIOps (.arr w) n x x) = ∑ i ∈ range n, ‖x i‖ ^ 2 * w i := by
        rw [tInner_eq_wsum, wsum_self, RCLike.ofReal_re]; rfl
      have hS : 0 ≤ ∑ i ∈ range n, ‖x i‖ ^ 2 * w i :=
        Finset.sum_nonneg (fun i hi => mul_nonneg (sq_nonneg _) (hw i (mem_range.mp hi)).le)
      simp only [tNorm, roots_sqrt, ops_re, hre, max_eq_left hS, wpn, wp, twFn, Real.sqrt_eq_rpow]
      congr 1
      exact Finset.sum_congr rfl (fun i _ => by rw [Real.rpow_two])
    | inf => simp only [tNorm, ops_abs, wpn, wmax, twFn]
    | gen q => simp only [tNorm, sumTo_eq_sum, roots_rpow, ops_abs, wpn, wp, twFn]

theorem wp_absorb (q : ℝ) (n : Nat) (ω a g G : Nat → ℝ) (ha : ∀ i, i < n → 0 ≤ a i)
    (hg : ∀ i, i < n → 0 ≤ g i) (hG : ∀ i, i < n → g i ^ q = G i) :
    wp q n ω (fun i => a i * g i) = wp q n (fun i => ω i * G i) a := by
  unfold wp
  congr 1
  refine Finset.sum_congr rfl (fun i hi => ?_)
  have hi' := mem_range.mp hi
  rw [Real.mul_rpow (ha i hi') (hg i hi'), hG i hi']; ring

theorem maxTo_congr (n : Nat) (f g : Nat → ℝ) (h : ∀ i, i < n → f i = g i) :
    maxTo n f = maxTo n g := by
  induction n with
  | zero => rfl
  | succ n ih => simp only [maxTo, ih (fun i hi => h i (by omega)), h n (by omega)]

theorem vecNorm_eq_wpn (close1 : ℝ → Bool) (p : Expo ℝ) (m : Nat) (b : Nat → ℝ) :
    vecNorm (roots close1) p m b = wpn p m (fun _ => 1) b := by
  cases p with
  | one => simp [vecNorm, sumTo_eq_sum, wpn, wp]
  | two =>
    simp only [vecNorm, sumTo_eq_sum, roots_sqrt, wpn, wp, mul_one, Real.sqrt_eq_rpow]
    congr 1
    exact Finset.sum_congr rfl (fun i _ => by rw [Real.rpow_two]; ring)
  | inf => simp [vecNorm, wpn, wmax]
  | gen q => simp [vecNorm, sumTo_eq_sum, wpn, wp]

/-- real exponent of a finite `Expo` -/
noncomputable def qv : Expo ℝ → ℝ
  | .one => 1 | .two => 2 | .inf => 1 | .gen q => q

theorem qv_pos (p : Expo ℝ) (hp : ExpoPos p) : 0 < qv p := by
  cases p <;> simp_all [qv, ExpoPos]

theorem wpn_finite (p : Expo ℝ) (hp : p.isInf = false) (n : Nat) (ω a : Nat → ℝ) :
    wpn p n ω a = wp (qv p) n ω a := by
  cases p <;> simp_all [wpn, qv, Expo.isInf]

theorem inv_eq_qv (p : Expo ℝ) (hp : p.isInf = false) : (Expo.inv p : ℝ) = 1 / qv p := by
  cases p <;> simp_all [Expo.inv, qv, Expo.isInf]

theorem rpow_inv_rpow (f q : ℝ) (hf : 0 ≤ f) (hq : q ≠ 0) : (f ^ (1 / q)) ^ q = f := by
  rw [← Real.rpow_mul hf, one_div_mul_cancel hq, Real.rpow_one]

theorem sideFac_rpow (close1 : ℝ → Bool) (q : ℝ) (hq : q ≠ 0) (a : Axis ℝ)
    (ha : 0 < a.fl ∧ 0 < a.fr) (k : Nat) :
    (sideFac close1 (fun f => f ^ (1 / q)) a k) ^ q = sideFac close1 (fun f => f) a k := by
  have h1 := rpow_inv_rpow a.fl q ha.1.le hq
  have h2 := rpow_inv_rpow a.fr q ha.2.le hq
  have p1 : 0 ≤ a.fl ^ (1 / q) := Real.rpow_nonneg ha.1.le _
  have p2 : 0 ≤ a.fr ^ (1 / q) := Real.rpow_nonneg ha.2.le _
  unfold sideFac
  split_ifs <;> simp only [Real.mul_rpow, p1, p2, zero_le_one, h1, h2, Real.one_rpow]

theorem bfac_rpow (close1 : ℝ → Bool) (q : ℝ) (hq : q ≠ 0) (axes : List (Axis ℝ))
    (h : axesPos axes) (i : Nat) :
    (bfac close1 (fun f => f ^ (1 / q)) axes i) ^ q = bfac close1 (fun f => f) axes i := by
  induction axes generalizing i with
  | nil => simp [bfac]
  | cons a l ih =>
    simp only [bfac]
    rw [Real.mul_rpow (sideFac_pos close1 _ (fun f hf => Real.rpow_pos_of_pos hf _) a (h a (by simp)) _).le
      (bfac_pos close1 _ (fun f hf => Real.rpow_pos_of_pos hf _) l (fun b hb => h b (by simp [hb])) _).le,
      sideFac_rpow close1 q hq a (h a (by simp)), ih (fun b hb => h b (by simp [hb]))]

theorem dNorm_eq_wpn (close1 : ℝ → Bool) (u : Bool) (axes : List (Axis ℝ)) (w : TW ℝ)
    (hw : twPos w (axesSize axes)) (ha : axesPos axes) (p : Expo ℝ) (hp : ExpoPos p)
    (x : Nat → 𝕜) :
    dNorm (ops 𝕜) (roots close1) u axes w p x =
      wpn p (axesSize axes) (dW close1 u axes w p) (fun i => ‖x i‖) := by
  unfold dNorm dW
  simp only [roots_close1]
  by_cases h : scalesBoundary close1 u axes w p = true
  · simp only [h, ↓reduceIte]
    have hfin : p.isInf = false := by
      cases p <;> simp_all [scalesBoundary, uniformlyWeighted, Expo.isInf]
    have hq := qv_pos p hp
    rw [tNorm_eq_wpn close1 w _ hw p hp, wpn_finite p hfin, wpn_finite p hfin]
    simp only [ops_rK, roots_rpow, norm_mul, RCLike.norm_ofReal, inv_eq_qv p hfin]
    have hpos := fun i => bfac_pos close1 (fun f => f ^ (1 / qv p))
      (fun f hf => Real.rpow_pos_of_pos hf _) axes ha i
    simp only [abs_of_pos (hpos _)]
    exact wp_absorb (qv p) _ _ _ _ _ (fun i _ => norm_nonneg _) (fun i _ => (hpos i).le)
      (fun i _ => bfac_rpow close1 (qv p) hq.ne' axes ha i)
  · simp only [h]
    exact tNorm_eq_wpn close1 w _ hw p hp x

theorem wpn_const (p : Expo ℝ) (hp : ExpoPos p) (m : Nat) (c : ℝ) (hc : 0 < c ∨ m = 0)
    (b : Nat → ℝ) (hb : ∀ i, 0 ≤ b i) :
    wpn p m (fun _ => c) b =
      (match p with | .inf => c | .one => c | .two => c ^ ((1 : ℝ) / 2) | .gen q => c ^ (1 / q)) *
        wpn p m (fun _ => 1) b := by
  rcases hc with hc | rfl
  · cases p with
    | one =>
      show wp 1 m (fun _ => c) b = c * wp 1 m (fun _ => 1) b
      rw [wp_const 1 m c hc.le b hb, wp_const 1 m 1 zero_le_one b hb]; simp
    | two =>
      show wp 2 m (fun _ => c) b = c ^ ((1 : ℝ) / 2) * wp 2 m (fun _ => 1) b
      rw [wp_const 2 m c hc.le b hb, wp_const 2 m 1 zero_le_one b hb]; simp
    | inf =>
      simp only [wpn, wmax, mul_one, ← maxTo_mul_left c hc.le]
      congr 1; funext i; ring
    | gen q =>
      show wp q m (fun _ => c) b = c ^ (1 / q) * wp q m (fun _ => 1) b
      rw [wp_const q m c hc.le b hb, wp_const q m 1 zero_le_one b hb]; simp
  · cases p with
    | gen q =>
      have : q⁻¹ ≠ 0 := inv_ne_zero (ne_of_gt hp)
      simp [wpn, wp, Real.zero_rpow this]
    | _ => simp [wpn, wp, wmax, maxTo]

theorem pNorm_eq_wpn (close1 : ℝ → Bool) (w : PW ℝ) (m : Nat) (hw : pwPos w m) (p : Expo ℝ)
    (hp : ExpoPos p) (nr : Nat → ℝ) :
    pNorm (roots close1) w p m nr = wpn p m (pwFn w) (fun k => |nr k|) := by
  cases w with
  | const c =>
    have hc : 0 < c ∨ m = 0 := by
      rcases Nat.eq_zero_or_pos m with h | h
      · exact Or.inr h
      · exact Or.inl (hw 0 h)
    have := wpn_const p hp m c hc (fun k => |nr k|) (fun _ => abs_nonneg _)
    simp only [pwFn]
    rw [this]
    cases p <;> simp only [pNorm, roots_rpow, roots_rabs, vecNorm_eq_wpn]
  | arr w =>
    have hw' : ∀ i, i < m → 0 < w i := hw
    simp only [pwFn]
    cases p with
    | one =>
      simp only [pNorm, roots_rabs, vecNorm_eq_wpn, wpn]
      have := wp_absorb 1 m (fun _ => 1) (fun k => |nr k|) w w (fun _ _ => abs_nonneg _)
        (fun i hi => (hw' i hi).le) (fun i _ => Real.rpow_one _)
      simp only [one_mul] at this
      rw [← this]
      unfold wp
      congr 1
      exact Finset.sum_congr rfl (fun i hi => by
        beta_reduce; rw [abs_mul, abs_of_pos (hw' i (mem_range.mp hi))])
    | inf =>
      simp only [pNorm, roots_rabs, vecNorm_eq_wpn, wpn, wmax, mul_one]
      exact maxTo_congr m _ _ (fun i hi => by rw [abs_mul, abs_of_pos (hw' i hi)])
    | two =>
      simp only [pNorm, roots_rabs, roots_rpow, vecNorm_eq_wpn, wpn]
      have := wp_absorb 2 m (fun _ => 1) (fun k => |nr k|) (fun k => w k ^ ((1 : ℝ) / 2)) w
        (fun _ _ => abs_nonneg _) (fun i hi => Real.rpow_nonneg (hw' i hi).le _)
        (fun i hi => rpow_inv_rpow (w i) 2 (hw' i hi).le two_ne_zero)
      simp only [one_mul] at this
      rw [← this]
      unfold wp
      congr 1
      exact Finset.sum_congr rfl (fun i hi => by
        beta_reduce; rw [abs_mul, abs_of_nonneg (Real.rpow_nonneg (hw' i (mem_range.mp hi)).le _)])
    | gen q =>
      simp only [pNorm, roots_rabs, roots_rpow, vecNorm_eq_wpn, wpn]
      have := wp_absorb q m (fun _ => 1) (fun k => |nr k|) (fun k => w k ^ (1 / q)) w
        (fun _ _ => abs_nonneg _) (fun i hi => Real.rpow_nonneg (hw' i hi).le _)
        (fun i hi => rpow_inv_rpow (w i) q (hw' i hi).le (ne_of_gt hp))
      simp only [one_mul] at this
      rw [← this]
      unfold wp
      congr 1
      exact Finset.sum_congr rfl (fun i hi => by
        beta_reduce; rw [abs_mul, abs_of_nonneg (Real.rpow_nonneg (hw' i (mem_range.mp hi)).le _)])

/-- every exponent in the space tree satisfies `P` -/
def AllExpo (P : Expo ℝ → Prop) : Space ℝ → Prop
  | .tens _ _ p => P p
  | .discr _ _ _ p => P p
  | .prod m _ p comp => P p ∧ ∀ k, k < m → AllExpo P (comp k)

theorem AllExpo.mono {P Q : Expo ℝ → Prop} (h : ∀ p, P p → Q p) (s : Space ℝ) (hs : AllExpo P s) :
    AllExpo Q s := by
  induction s with
  | tens n w p => exact h _ hs
  | discr u axes w p => exact h _ hs
  | prod m w p comp ih => exact ⟨h _ hs.1, fun k hk => ih k (hs.2 k hk)⟩

theorem shaped_add (s : Space ℝ) (x y : El 𝕜) (hx : Shaped s x) (hy : Shaped s y) :
    Shaped s (x.add y) := by
  induction s generalizing x y with
  | tens n w p => cases x <;> cases y <;> simp_all [Shaped, El.add]
  | discr u axes w p => cases x <;> cases y <;> simp_all [Shaped, El.add]
  | prod m w p comp ih =>
    cases x <;> cases y <;> simp_all [Shaped, El.add]

theorem shaped_sub (s : Space ℝ) (x y : El 𝕜) (hx : Shaped s x) (hy : Shaped s y) :
    Shaped s (x.sub y) := by
  induction s generalizing x y with
  | tens n w p => cases x <;> cases y <;> simp_all [Shaped, El.sub]
  | discr u axes w p => cases x <;> cases y <;> simp_all [Shaped, El.sub]
  | prod m w p comp ih =>
    cases x <;> cases y <;> simp_all [Shaped, El.sub]

theorem shaped_smul (s : Space ℝ) (a : 𝕜) (x : El 𝕜) (hx : Shaped s x) :
    Shaped s (x.smul a) := by
  induction s generalizing x with
  | tens n w p => cases x <;> simp_all [Shaped, El.smul]
  | discr u axes w p => cases x <;> simp_all [Shaped, El.smul]
  | prod m w p comp ih =>
    cases x <;> simp_all [Shaped, El.smul]

theorem sub_eq_smul_neg (s : Space ℝ) (x y : El 𝕜) (hx : Shaped s x) (hy : Shaped s y) :
    x.sub y = (y.sub x).smul (-1) := by
  induction s generalizing x y with
  | tens n w p =>
    cases x <;> cases y <;> simp_all [Shaped, El.sub, El.smul]
  | discr u axes w p =>
    cases x <;> cases y <;> simp_all [Shaped, El.sub, El.smul]
  | prod m w p comp ih =>
    cases x with
    | vec => simp [Shaped] at hx
    | tup xs =>
    cases y with
    | vec => simp [Shaped] at hy
    | tup ys =>
      simp only [Shaped] at hx hy
      simp only [El.sub, El.smul]
      congr 1; funext k
      exact ih k (xs k) (ys k) (hx k) (hy k)

theorem norm_nonneg_tree (close1 : ℝ → Bool) (s : Space ℝ) (hs : SpacePos s)
    (he : AllExpo ExpoPos s) (x : El 𝕜) (hx : Shaped s x) :
    0 ≤ Space.norm (ops 𝕜) (roots close1) s x := by
  cases s with
  | tens n w p =>
    cases x with
    | tup => simp [Shaped] at hx
    | vec x =>
      simp only [Space.norm, tNorm_eq_wpn close1 w n hs p he]
      exact wpn_nonneg n _ (fun i hi => (hs i hi).le) p _ (fun _ _ => norm_nonneg _)
  | discr u axes w p =>
    cases x with
    | tup => simp [Shaped] at hx
    | vec x =>
      simp only [Space.norm, dNorm_eq_wpn close1 u axes w hs.1 hs.2 p he]
      exact wpn_nonneg _ _ (fun i hi => (dW_pos close1 u axes w p hs.1 hs.2 i hi).le) p _
        (fun _ _ => norm_nonneg _)
  | prod m w p comp =>
    cases x with
    | vec => simp [Shaped] at hx
    | tup xs =>
      simp only [Space.norm, pNorm_eq_wpn close1 w m hs.1 p he.1]
      exact wpn_nonneg m _ (fun i hi => (hs.1 i hi).le) p _ (fun _ _ => abs_nonneg _)

theorem norm_smul_tree (close1 : ℝ → Bool) (s : Space ℝ) (hs : SpacePos s)
    (he : AllExpo ExpoPos s) (a : 𝕜) (x : El 𝕜) (hx : Shaped s x) :
    Space.norm (ops 𝕜) (roots close1) s (x.smul a) =
      ‖a‖ * Space.norm (ops 𝕜) (roots close1) s x := by
  induction s generalizing x with
  | tens n w p =>
    cases x with
    | tup => simp [Shaped] at hx
    | vec x =>
      simp only [Space.norm, El.smul, tNorm_eq_wpn close1 w n hs p he, norm_mul]
      exact wpn_smul n _ (fun i hi => (hs i hi).le) p he _ (norm_nonneg a) _
        (fun _ _ => norm_nonneg _)
  | discr u axes w p =>
    cases x with
    | tup => simp [Shaped] at hx
    | vec x =>
      simp only [Space.norm, El.smul, dNorm_eq_wpn close1 u axes w hs.1 hs.2 p he, norm_mul]
      exact wpn_smul _ _ (fun i hi => (dW_pos close1 u axes w p hs.1 hs.2 i hi).le) p he _
        (norm_nonneg a) _ (fun _ _ => norm_nonneg _)
  | prod m w p comp ih =>
    cases x with
    | vec => simp [Shaped] at hx
    | tup xs =>
      simp only [Shaped] at hx
      simp only [Space.norm, El.smul, pNorm_eq_wpn close1 w m hs.1 p he.1]
      rw [← wpn_smul m _ (fun i hi => (hs.1 i hi).le) p he.1 _ (norm_nonneg a) _
        (fun _ _ => abs_nonneg _)]
      refine wpn_congr p m _ _ _ _ (fun k hk => ?_) (fun _ _ => rfl)
      rw [ih k (hs.2 k hk) (he.2 k hk) (xs k) (hx k), abs_mul, abs_of_nonneg (norm_nonneg a)]

theorem norm_triangle_tree (close1 : ℝ → Bool) (s : Space ℝ) (hs : SpacePos s)
    (he : AllExpo ExpoGe1 s) (x y : El 𝕜) (hx : Shaped s x) (hy : Shaped s y) :
    Space.norm (ops 𝕜) (roots close1) s (x.add y) ≤
      Space.norm (ops 𝕜) (roots close1) s x + Space.norm (ops 𝕜) (roots close1) s y := by
  have he' : AllExpo ExpoPos s := AllExpo.mono (fun _ h => ExpoGe1.pos h) s he
  induction s generalizing x y with
  | tens n w p =>
    cases x with
    | tup => simp [Shaped] at hx
    | vec x =>
    cases y with
    | tup => simp [Shaped] at hy
    | vec y =>
      simp only [Space.norm, El.add, tNorm_eq_wpn close1 w n hs p he']
      have hω : ∀ i, i < n → 0 ≤ twFn w i := fun i hi => (hs i hi).le
      exact (wpn_mono n _ hω p he' _ _ (fun _ _ => norm_nonneg _)
        (fun i _ => norm_add_le _ _)).trans
        (wpn_add n _ hω p he _ _ (fun _ _ => norm_nonneg _) (fun _ _ => norm_nonneg _))
  | discr u axes w p =>
    cases x with
    | tup => simp [Shaped] at hx
    | vec x =>
    cases y with
    | tup => simp [Shaped] at hy
    | vec y =>
      simp only [Space.norm, El.add, dNorm_eq_wpn close1 u axes w hs.1 hs.2 p he']
      have hω : ∀ i, i < axesSize axes → 0 ≤ dW close1 u axes w p i :=
        fun i hi => (dW_pos close1 u axes w p hs.1 hs.2 i hi).le
      exact (wpn_mono _ _ hω p he' _ _ (fun _ _ => norm_nonneg _)
        (fun i _ => norm_add_le _ _)).trans
        (wpn_add _ _ hω p he _ _ (fun _ _ => norm_nonneg _) (fun _ _ => norm_nonneg _))
  | prod m w p comp ih =>
    cases x with
    | vec => simp [Shaped] at hx
    | tup xs =>
    cases y with
    | vec => simp [Shaped] at hy
    | tup ys =>
      simp only [Shaped] at hx hy
      simp only [Space.norm, El.add, pNorm_eq_wpn close1 w m hs.1 p he'.1]
      have hω : ∀ i, i < m → 0 ≤ pwFn w i := fun i hi => (hs.1 i hi).le
      refine (wpn_mono m _ hω p he'.1 _ _ (fun _ _ => abs_nonneg _) (fun k hk => ?_)).trans
        (wpn_add m _ hω p he.1 _ _ (fun _ _ => abs_nonneg _) (fun _ _ => abs_nonneg _))
      have h1 := ih k (hs.2 k hk) (he.2 k hk) (xs k) (ys k) (hx k) (hy k) (he'.2 k hk)
      have h0 := norm_nonneg_tree (𝕜 := 𝕜) close1 (comp k) (hs.2 k hk) (he'.2 k hk) _
        (shaped_add (comp k) (xs k) (ys k) (hx k) (hy k))
      rw [abs_of_nonneg h0]
      exact h1.trans (add_le_add (le_abs_self _) (le_abs_self _))

/-- Documented geometry, stated without the model's fractions: the cell of node `k` of an axis
with nodes `g0 + k·h` (`k < n`) inside `[a, b]` reaches from the midpoint with the previous
node (or from `a` for the first node) to the midpoint with the next node (or to `b` for the
last node). -/
noncomputable def cellSize (a b g0 h : ℝ) (n k : Nat) : ℝ :=
  (if k + 1 = n then b else g0 + (k : ℝ) * h + h / 2) -
    (if k = 0 then a else g0 + (k : ℝ) * h - h / 2)

/-- first node of the axis as placed by `uniform_grid_fromintv` -/
noncomputable def node0 (s : AxSpec ℝ) : ℝ := (gridEnds (fun k => (k : ℝ)) s.a s.b s.n s.l s.r).1

/-- `cell side × boundary factor of node k` (what the model multiplies into the sum) is the
geometric size of the cell of node `k`, for every axis built by `uniform_discr`. -/
theorem mkAxis_cellSize (close1 : ℝ → Bool) (hc : Ideal close1) (s : AxSpec ℝ)
    (hab : s.a < s.b) (hn : 1 ≤ s.n) (k : Nat) (hk : k < s.n) :
    (mkAxis (fun k => (k : ℝ)) s.a s.b s.n s.l s.r).2 *
        sideFac close1 (fun f => f) (mkAxis (fun k => (k : ℝ)) s.a s.b s.n s.l s.r).1 k =
      cellSize s.a s.b (node0 s) (mkAxis (fun k => (k : ℝ)) s.a s.b s.n s.l s.r).2 s.n k := by
  obtain ⟨a, b, n, l, r⟩ := s
  simp only at hab hn hk ⊢
  by_cases h1 : n = 1
  · subst h1
    have : k = 0 := by omega
    subst this
    simp [mkAxis, sideFac_ideal close1 hc, cellSize]
  · obtain ⟨m, rfl⟩ : ∃ m, n = m + 2 := ⟨n - 2, by omega⟩
    have e1 : m + 2 - 1 = m + 1 := by omega
    have hlt := gridEnds_lt a b hab m l r
    have hN : ((m + 1 : ℕ) : ℝ) ≠ 0 := by positivity
    set g := gridEnds (fun k => (k : ℝ)) a b (m + 2) l r with hg
    set h := (g.2 - g.1) / ((m + 1 : ℕ) : ℝ) with hh'
    have hh : h ≠ 0 := div_ne_zero (sub_ne_zero.mpr hlt.ne') hN
    have hNh : ((m : ℝ) + 1) * h = g.2 - g.1 := by
      rw [hh']; push_cast at hN ⊢; field_simp
    have hfrac : ∀ c : ℝ, h * (1 / 2 + c / h) = h / 2 + c := fun c => by field_simp
    simp only [mkAxis, if_neg h1, e1, node0, ← hg, ← hh', sideFac_ideal close1 hc, cellSize]
    by_cases k0 : k = 0
    · subst k0
      rw [if_pos rfl, if_neg (by omega), if_pos rfl, if_neg (by omega), mul_one, hfrac]
      push_cast; ring
    · rw [if_neg k0, if_neg k0]
      by_cases kl : k + 1 = m + 2
      · rw [if_pos kl, if_pos kl, one_mul, hfrac]
        have hk' : (k : ℝ) = (m : ℝ) + 1 := by
          have : k = m + 1 := by omega
          subst this; push_cast; ring
        rw [hk']
        linarith
      · rw [if_neg kl, if_neg kl]
        ring

/-- number of entries of a `uniform_discr` shape -/
def specSize : List (AxSpec ℝ) → Nat
  | [] => 1
  | s :: l => s.n * specSize l

/-- product over the axes of the geometric cell sizes at the C-order multi-index of the flat
index `i` (`i / Π rest`, `i % Π rest`): the volume of the cell of entry `i`. -/
noncomputable def cellProd : List (AxSpec ℝ) → Nat → ℝ
  | [], _ => 1
  | s :: l, i =>
      cellSize s.a s.b (node0 s) (mkAxis (fun k => (k : ℝ)) s.a s.b s.n s.l s.r).2 s.n
          (i / specSize l) * cellProd l (i % specSize l)

theorem axesSize_specAxes (specs : List (AxSpec ℝ)) (hs : ∀ s ∈ specs, 1 ≤ s.n) :
    axesSize (specAxes (fun k => (k : ℝ)) specs) = specSize specs := by
  induction specs with
  | nil => rfl
  | cons s l ih =>
    have hn : (mkAxis (fun k => (k : ℝ)) s.a s.b s.n s.l s.r).1.n = s.n := by
      unfold mkAxis; split_ifs with h <;> simp [h]
    simp only [specAxes, List.map_cons, axesSize, specSize, hn]
    rw [← ih (fun t ht => hs t (by simp [ht]))]; rfl

theorem specSize_pos (specs : List (AxSpec ℝ)) (hs : ∀ s ∈ specs, 1 ≤ s.n) : 0 < specSize specs := by
  induction specs with
  | nil => simp [specSize]
  | cons s l ih =>
    exact Nat.mul_pos (hs s (by simp)) (ih (fun t ht => hs t (by simp [ht])))

theorem cellVolume_bfac_eq_cellProd (close1 : ℝ → Bool) (hc : Ideal close1)
    (specs : List (AxSpec ℝ)) (hs : ∀ s ∈ specs, s.a < s.b ∧ 1 ≤ s.n) (i : Nat)
    (hi : i < specSize specs) :
    cellVolume specs * bfac close1 (fun f => f) (specAxes (fun k => (k : ℝ)) specs) i =
      cellProd specs i := by
  induction specs generalizing i with
  | nil => simp [cellVolume, prodL, specAxes, bfac, cellProd]
  | cons s l ih =>
    have hl : ∀ t ∈ l, t.a < t.b ∧ 1 ≤ t.n := fun t ht => hs t (by simp [ht])
    have hpos := specSize_pos l (fun t ht => (hl t ht).2)
    have hsz := axesSize_specAxes l (fun t ht => (hl t ht).2)
    have hk : i / specSize l < s.n := by
      rw [Nat.div_lt_iff_lt_mul hpos]; simpa [specSize] using hi
    have h1 := mkAxis_cellSize close1 hc s (hs s (by simp)).1 (hs s (by simp)).2 _ hk
    have h2 := ih hl (i % specSize l) (Nat.mod_lt _ hpos)
    simp only [cellVolume, specAxes, List.map_cons, prodL, bfac, cellProd] at h2 ⊢
    rw [← h1, ← h2]
    simp only [specAxes] at hsz
    rw [hsz]
    ring

theorem dW_uniformDiscr (close1 : ℝ → Bool) (hc : Ideal close1) (specs : List (AxSpec ℝ))
    (hs : ∀ s ∈ specs, s.a < s.b ∧ 1 ≤ s.n) (p : Expo ℝ) (hp : p.isInf = false) (i : Nat)
    (hi : i < specSize specs) :
    dW close1 true (specAxes (fun k => (k : ℝ)) specs) (.const (cellVolume specs)) p i =
      cellProd specs i := by
  rw [← cellVolume_bfac_eq_cellProd close1 hc specs hs i hi]
  unfold dW
  split_ifs with h
  · simp [twFn]
  · have : allClose1 close1 (specAxes (fun k => (k : ℝ)) specs) = true := by
      simpa [scalesBoundary, uniformlyWeighted, hp] using h
    simp [twFn, bfac_of_allClose close1 _ _ this]

theorem gridEnds_ge (a b : ℝ) (hab : a < b) (n : Nat) (hn : 1 ≤ n) (l r : Bool) :
    a ≤ (gridEnds (fun k => (k : ℝ)) a b n l r).1 ∧ (gridEnds (fun k => (k : ℝ)) a b n l r).2 ≤ b := by
  have hba : 0 ≤ b - a := by linarith
  have h1 : (0 : ℝ) ≤ ((2 * n - 1 : ℕ) : ℝ) := Nat.cast_nonneg _
  have h2 : (0 : ℝ) ≤ ((2 * n : ℕ) : ℝ) := Nat.cast_nonneg _
  have d1 := div_nonneg hba h1
  have d2 := div_nonneg hba h2
  cases l <;> cases r <;> simp only [gridEnds] <;> constructor <;> linarith

theorem mkAxis_pos (a b : ℝ) (hab : a < b) (n : Nat) (hn : 1 ≤ n) (l r : Bool) :
    0 < (mkAxis (fun k => (k : ℝ)) a b n l r).2 ∧
      0 < (mkAxis (fun k => (k : ℝ)) a b n l r).1.fl ∧
      0 < (mkAxis (fun k => (k : ℝ)) a b n l r).1.fr := by
  by_cases h1 : n = 1
  · subst h1; simp [mkAxis]; linarith
  · obtain ⟨m, rfl⟩ : ∃ m, n = m + 2 := ⟨n - 2, by omega⟩
    have e1 : m + 2 - 1 = m + 1 := by omega
    have hlt := gridEnds_lt a b hab m l r
    obtain ⟨ga, gb⟩ := gridEnds_ge a b hab (m + 2) hn l r
    have hN : (0 : ℝ) < ((m + 1 : ℕ) : ℝ) := by positivity
    have hh : 0 < ((gridEnds (fun k => (k : ℝ)) a b (m + 2) l r).2 -
        (gridEnds (fun k => (k : ℝ)) a b (m + 2) l r).1) / ((m + 1 : ℕ) : ℝ) :=
      div_pos (sub_pos.mpr hlt) hN
    simp only [mkAxis, if_neg h1, e1]
    refine ⟨hh, ?_, ?_⟩
    · have := div_nonneg (sub_nonneg.mpr ga) hh.le
      linarith
    · have := div_nonneg (sub_nonneg.mpr gb) hh.le
      linarith

theorem specAxes_pos (specs : List (AxSpec ℝ)) (hs : ∀ s ∈ specs, s.a < s.b ∧ 1 ≤ s.n) :
    axesPos (specAxes (fun k => (k : ℝ)) specs) ∧ 0 < cellVolume specs := by
  induction specs with
  | nil => simp [axesPos, specAxes, cellVolume, prodL]
  | cons s l ih =>
    obtain ⟨ih1, ih2⟩ := ih (fun t ht => hs t (by simp [ht]))
    obtain ⟨p1, p2, p3⟩ := mkAxis_pos s.a s.b (hs s (by simp)).1 s.n (hs s (by simp)).2 s.l s.r
    constructor
    · intro a ha
      simp only [specAxes, List.map_cons, List.mem_cons] at ha
      rcases ha with rfl | ha
      · exact ⟨p2, p3⟩
      · exact ih1 a ha
    · simp only [cellVolume, List.map_cons, prodL] at ih2 ⊢
      exact mul_pos p1 ih2

theorem sum_cellProd (close1 : ℝ → Bool) (hc : Ideal close1) (specs : List (AxSpec ℝ))
    (hs : ∀ s ∈ specs, s.a < s.b ∧ 1 ≤ s.n) :
    ∑ i ∈ range (specSize specs), cellProd specs i = (specs.map (fun s => s.b - s.a)).prod := by
  rw [← discr_one_sum close1 hc specs hs, axesSize_specAxes specs (fun s h => (hs s h).2)]
  exact Finset.sum_congr rfl (fun i hi =>
    (dW_uniformDiscr close1 hc specs hs .two rfl i (mem_range.mp hi)).symm)

theorem defaultWeight_eq (specs : List (AxSpec ℝ)) (p : Expo ℝ) (hp : p.isInf = false) :
    defaultWeight (fun k => (k : ℝ)) specs p = .const (cellVolume specs) := by
  cases specs with
  | nil => simp [defaultWeight, cellVolume, prodL]
  | cons s l => simp [defaultWeight, hp, cellVolume]

theorem sub_eq_add_sub (s : Space ℝ) (x y z : El 𝕜) (hx : Shaped s x) (hy : Shaped s y)
    (hz : Shaped s z) : x.sub z = (x.sub y).add (y.sub z) := by
  induction s generalizing x y z with
  | tens n w p =>
    cases x <;> cases y <;> cases z <;> simp_all [Shaped, El.sub, El.add]
  | discr u axes w p =>
    cases x <;> cases y <;> cases z <;> simp_all [Shaped, El.sub, El.add]
  | prod m w p comp ih =>
    cases x with
    | vec => simp [Shaped] at hx
    | tup xs =>
    cases y with
    | vec => simp [Shaped] at hy
    | tup ys =>
    cases z with
    | vec => simp [Shaped] at hz
    | tup zs =>
      simp only [Shaped] at hx hy hz
      simp only [El.sub, El.add]
      congr 1; funext k
      exact ih k (xs k) (ys k) (zs k) (hx k) (hy k) (hz k)

theorem sub_self_eq_smul_zero (s : Space ℝ) (x : El 𝕜) (hx : Shaped s x) :
    x.sub x = (x.sub x).smul 0 := by
  induction s generalizing x with
  | tens n w p => cases x <;> simp_all [Shaped, El.sub, El.smul]
  | discr u axes w p => cases x <;> simp_all [Shaped, El.sub, El.smul]
  | prod m w p comp ih =>
    cases x with
    | vec => simp [Shaped] at hx
    | tup xs =>
      simp only [Shaped] at hx
      simp only [El.sub, El.smul]
      congr 1; funext k
      exact ih k (xs k) (hx k)

/-- total boundary factor of one axis: `n - 2 + fl + fr` for `n ≥ 2` nodes -/
noncomputable def axisTotal (a : Axis ℝ) : ℝ := (a.n : ℝ) - 2 + a.fl + a.fr

/-- the same with the fractions the code actually applies: a side whose fraction passes
`np.isclose(frac, 1.0)` is not scaled (factor 1) -/
noncomputable def axisTotalTol (close1 : ℝ → Bool) (a : Axis ℝ) : ℝ :=
  (a.n : ℝ) - 2 + (if close1 a.fl then 1 else a.fl) + (if close1 a.fr then 1 else a.fr)

/-- `close1` only fires within `ε` of 1 (`np.isclose`: `ε = 1e-5 + 1e-8`) -/
def Tol (close1 : ℝ → Bool) (ε : ℝ) : Prop := ∀ r, close1 r = true → |r - 1| ≤ ε

theorem sideFac_effective (close1 : ℝ → Bool) (a : Axis ℝ) (k : Nat) :
    sideFac close1 (fun f => f) a k =
      sideFac (fun _ => false) (fun f => f)
        ⟨a.n, if close1 a.fl then 1 else a.fl, if close1 a.fr then 1 else a.fr⟩ k := by
  unfold sideFac
  by_cases h1 : close1 a.fl = true <;> by_cases h2 : close1 a.fr = true <;> simp [h1, h2]

theorem sideFac_sum_tol (close1 : ℝ → Bool) (a : Axis ℝ) (hn : 2 ≤ a.n) :
    ∑ k ∈ range a.n, sideFac close1 (fun f => f) a k = axisTotalTol close1 a := by
  simp only [sideFac_effective close1 a]
  exact sideFac_sum (fun _ => false) (fun r h => by simp at h)
    ⟨a.n, if close1 a.fl then 1 else a.fl, if close1 a.fr then 1 else a.fr⟩ hn

theorem axisTotalTol_close (close1 : ℝ → Bool) (ε : ℝ) (hε : 0 ≤ ε) (ht : Tol close1 ε)
    (a : Axis ℝ) : |axisTotalTol close1 a - axisTotal a| ≤ 2 * ε := by
  have e : axisTotalTol close1 a - axisTotal a =
      ((if close1 a.fl then 1 else a.fl) - a.fl) + ((if close1 a.fr then 1 else a.fr) - a.fr) := by
    unfold axisTotalTol axisTotal; ring
  have b1 : |(if close1 a.fl then 1 else a.fl) - a.fl| ≤ ε := by
    split_ifs with h
    · rw [abs_sub_comm]; exact ht _ h
    · simpa using hε
  have b2 : |(if close1 a.fr then 1 else a.fr) - a.fr| ≤ ε := by
    split_ifs with h
    · rw [abs_sub_comm]; exact ht _ h
    · simpa using hε
  rw [e]
  exact (abs_add_le _ _).trans (by linarith)

theorem bfac_total (close1 : ℝ → Bool) (hc : Ideal close1) (axes : List (Axis ℝ))
    (hn : ∀ a ∈ axes, 2 ≤ a.n) :
    ∑ i ∈ range (axesSize axes), bfac close1 (fun f => f) axes i =
      (axes.map axisTotal).prod := by
  rw [bfac_sum]
  congr 1
  refine List.map_congr_left (fun a ha => ?_)
  exact sideFac_sum close1 hc a (hn a ha)
/-- entry-wise domination of moduli inside the shape: `|xᵢ| ≤ |yᵢ|` for every entry of every
leaf -/
def ModLe : Space ℝ → El 𝕜 → El 𝕜 → Prop
  | .tens n _ _, .vec x, .vec y => ∀ i, i < n → ‖x i‖ ≤ ‖y i‖
  | .discr _ axes _ _, .vec x, .vec y => ∀ i, i < axesSize axes → ‖x i‖ ≤ ‖y i‖
  | .prod m _ _ comp, .tup xs, .tup ys => ∀ k, k < m → ModLe (comp k) (xs k) (ys k)
  | _, _, _ => False
end OdlModel.C02
