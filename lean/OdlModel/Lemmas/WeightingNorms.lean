/-
C02 helper lemmas, part 2: every norm branch of the model is a weighted p-norm `wpn` of the
moduli of its entries (tensor / discretized spaces) or of its component norms (product
spaces); homogeneity, monotonicity and the triangle (Minkowski) inequality of `wpn`.
-/
import OdlModel.Lemmas.Weighting
import Mathlib.Analysis.MeanInequalities

namespace OdlModel.C02
open OdlModel.Weighting Finset

/-- `(Σ_{i<n} aᵢ^q ωᵢ)^{1/q}` -/
noncomputable def wp (q : ℝ) (n : Nat) (ω a : Nat → ℝ) : ℝ :=
  (∑ i ∈ range n, a i ^ q * ω i) ^ (1 / q)

/-- `max_{i<n} aᵢ ωᵢ` (starting from 0) -/
noncomputable def wmax (n : Nat) (ω a : Nat → ℝ) : ℝ := maxTo n (fun i => a i * ω i)

/-- weighted p-norm in the model's convention (`‖·‖_{ω,∞} = max aᵢ ωᵢ`) -/
noncomputable def wpn : Expo ℝ → Nat → (Nat → ℝ) → (Nat → ℝ) → ℝ
  | .one => wp 1
  | .two => wp 2
  | .inf => wmax
  | .gen q => wp q

/-- exponent admissible for homogeneity: a generic exponent is positive -/
def ExpoPos : Expo ℝ → Prop
  | .gen q => 0 < q
  | _ => True

/-- exponent admissible for the triangle inequality: a generic exponent is `≥ 1` -/
def ExpoGe1 : Expo ℝ → Prop
  | .gen q => 1 ≤ q
  | _ => True

theorem ExpoGe1.pos {p : Expo ℝ} (h : ExpoGe1 p) : ExpoPos p := by
  cases p <;> simp_all [ExpoGe1, ExpoPos]; linarith

section wp
variable (q : ℝ) (n : Nat) (ω : Nat → ℝ) (hω : ∀ i, i < n → 0 ≤ ω i)
include hω

theorem wp_sum_nonneg (a : Nat → ℝ) (ha : ∀ i, i < n → 0 ≤ a i) :
    0 ≤ ∑ i ∈ range n, a i ^ q * ω i :=
  Finset.sum_nonneg (fun i hi => mul_nonneg (Real.rpow_nonneg (ha i (mem_range.mp hi)) _)
    (hω i (mem_range.mp hi)))

theorem wp_nonneg (a : Nat → ℝ) (ha : ∀ i, i < n → 0 ≤ a i) : 0 ≤ wp q n ω a :=
  Real.rpow_nonneg (wp_sum_nonneg q n ω hω a ha) _

theorem wp_smul (hq : 0 < q) (k : ℝ) (hk : 0 ≤ k) (a : Nat → ℝ) (ha : ∀ i, i < n → 0 ≤ a i) :
    wp q n ω (fun i => k * a i) = k * wp q n ω a := by
  unfold wp
  have : ∑ i ∈ range n, (k * a i) ^ q * ω i = k ^ q * ∑ i ∈ range n, a i ^ q * ω i := by
    rw [Finset.mul_sum]
    exact Finset.sum_congr rfl (fun i hi => by
      rw [Real.mul_rpow hk (ha i (mem_range.mp hi))]; ring)
  rw [this, Real.mul_rpow (Real.rpow_nonneg hk _) (wp_sum_nonneg q n ω hω a ha),
    ← Real.rpow_mul hk, mul_one_div_cancel hq.ne', Real.rpow_one]

theorem wp_mono (hq : 0 < q) (a b : Nat → ℝ) (ha : ∀ i, i < n → 0 ≤ a i)
    (hab : ∀ i, i < n → a i ≤ b i) : wp q n ω a ≤ wp q n ω b := by
  unfold wp
  refine Real.rpow_le_rpow (wp_sum_nonneg q n ω hω a ha) ?_ (by positivity)
  refine Finset.sum_le_sum (fun i hi => ?_)
  have hi' := mem_range.mp hi
  exact mul_le_mul_of_nonneg_right (Real.rpow_le_rpow (ha i hi') (hab i hi') hq.le) (hω i hi')

theorem wp_add (hq : 1 ≤ q) (a b : Nat → ℝ) (ha : ∀ i, i < n → 0 ≤ a i)
    (hb : ∀ i, i < n → 0 ≤ b i) :
    wp q n ω (fun i => a i + b i) ≤ wp q n ω a + wp q n ω b := by
  have hq0 : 0 < q := by linarith
  unfold wp
  have key : ∀ c : Nat → ℝ, (∀ i, i < n → 0 ≤ c i) →
      ∑ i ∈ range n, c i ^ q * ω i = ∑ i ∈ range n, (c i * ω i ^ (1 / q)) ^ q := by
    intro c hc
    refine Finset.sum_congr rfl (fun i hi => ?_)
    have hi' := mem_range.mp hi
    rw [Real.mul_rpow (hc i hi') (Real.rpow_nonneg (hω i hi') _), ← Real.rpow_mul (hω i hi'),
      one_div_mul_cancel hq0.ne', Real.rpow_one]
  rw [key _ (fun i hi => add_nonneg (ha i hi) (hb i hi)), key a ha, key b hb]
  have := Real.Lp_add_le_of_nonneg (range n) (f := fun i => a i * ω i ^ (1 / q))
    (g := fun i => b i * ω i ^ (1 / q)) hq
    (fun i hi => mul_nonneg (ha i (mem_range.mp hi)) (Real.rpow_nonneg (hω i (mem_range.mp hi)) _))
    (fun i hi => mul_nonneg (hb i (mem_range.mp hi)) (Real.rpow_nonneg (hω i (mem_range.mp hi)) _))
  simpa [add_mul] using this

theorem wmax_nonneg (a : Nat → ℝ) : 0 ≤ wmax n ω a := maxTo_nonneg _ _

theorem wmax_smul (k : ℝ) (hk : 0 ≤ k) (a : Nat → ℝ) :
    wmax n ω (fun i => k * a i) = k * wmax n ω a := by
  unfold wmax
  rw [← maxTo_mul_left k hk]
  congr 1; funext i; ring

theorem wmax_mono (a b : Nat → ℝ) (hab : ∀ i, i < n → a i ≤ b i) : wmax n ω a ≤ wmax n ω b :=
  maxTo_mono n _ _ (fun i hi => mul_le_mul_of_nonneg_right (hab i hi) (hω i hi))

theorem wmax_add (a b : Nat → ℝ) : wmax n ω (fun i => a i + b i) ≤ wmax n ω a + wmax n ω b := by
  unfold wmax
  refine le_trans (le_of_eq ?_) (maxTo_add_le n _ _)
  congr 1; funext i; ring

theorem wpn_nonneg (p : Expo ℝ) (a : Nat → ℝ) (ha : ∀ i, i < n → 0 ≤ a i) : 0 ≤ wpn p n ω a := by
  cases p <;> simp only [wpn]
  all_goals first | exact wp_nonneg _ n ω hω a ha | exact wmax_nonneg n ω hω a

theorem wpn_smul (p : Expo ℝ) (hp : ExpoPos p) (k : ℝ) (hk : 0 ≤ k) (a : Nat → ℝ)
    (ha : ∀ i, i < n → 0 ≤ a i) : wpn p n ω (fun i => k * a i) = k * wpn p n ω a := by
  cases p with
  | one => exact wp_smul 1 n ω hω one_pos k hk a ha
  | two => exact wp_smul 2 n ω hω two_pos k hk a ha
  | inf => exact wmax_smul n ω hω k hk a
  | gen q => exact wp_smul q n ω hω hp k hk a ha

theorem wpn_mono (p : Expo ℝ) (hp : ExpoPos p) (a b : Nat → ℝ) (ha : ∀ i, i < n → 0 ≤ a i)
    (hab : ∀ i, i < n → a i ≤ b i) : wpn p n ω a ≤ wpn p n ω b := by
  cases p with
  | one => exact wp_mono 1 n ω hω one_pos a b ha hab
  | two => exact wp_mono 2 n ω hω two_pos a b ha hab
  | inf => exact wmax_mono n ω hω a b hab
  | gen q => exact wp_mono q n ω hω hp a b ha hab

theorem wpn_add (p : Expo ℝ) (hp : ExpoGe1 p) (a b : Nat → ℝ) (ha : ∀ i, i < n → 0 ≤ a i)
    (hb : ∀ i, i < n → 0 ≤ b i) :
    wpn p n ω (fun i => a i + b i) ≤ wpn p n ω a + wpn p n ω b := by
  cases p with
  | one => exact wp_add 1 n ω hω le_rfl a b ha hb
  | two => exact wp_add 2 n ω hω one_le_two a b ha hb
  | inf => exact wmax_add n ω hω a b
  | gen q => exact wp_add q n ω hω hp a b ha hb

end wp

theorem wpn_congr (p : Expo ℝ) (n : Nat) (ω ω' a b : Nat → ℝ)
    (h : ∀ i, i < n → a i = b i) (hω : ∀ i, i < n → ω i = ω' i) :
    wpn p n ω a = wpn p n ω' b := by
  have hs : ∀ q : ℝ, wp q n ω a = wp q n ω' b := fun q => by
    unfold wp
    rw [Finset.sum_congr rfl (fun i hi => by rw [h i (mem_range.mp hi), hω i (mem_range.mp hi)])]
  have hm : ∀ m : Nat, m ≤ n → maxTo m (fun i => a i * ω i) = maxTo m (fun i => b i * ω' i) := by
    intro m hm
    induction m with
    | zero => rfl
    | succ m ih => simp only [maxTo, ih (by omega), h m (by omega), hω m (by omega)]
  cases p <;> simp only [wpn, hs, wmax, hm n le_rfl]

end OdlModel.C02
