/-
Helper lemmas for C18: abstract phase functions `q ↦ exp(iπ q)` over a field, and congruence of
the discrete transforms.
-/
import OdlModel.Lemmas.Fourier
import Mathlib.Tactic.Linarith

namespace OdlModel.C18
/-- Equality of phase exponents modulo 2 (`exp(iπ a) = exp(iπ b)`). -/
def EqMod2 (a b : Rat) : Prop := ∃ z : Int, a - b = 2 * (z : Rat)
end OdlModel.C18

namespace OdlModel.Fourier
open OdlModel.C18
variable {K : Type} [Field K]

/-- `e` behaves like `q ↦ exp(iπ q)`: a character of `(ℚ,+)` with period 2. -/
structure IsPhase (e : Rat → K) : Prop where
  add : ∀ a b, e (a + b) = e a * e b
  two : e 2 = 1

theorem IsPhase.zero {e : Rat → K} (h : IsPhase e) : e 0 = 1 := by
  have h2 := h.add 0 2
  rw [zero_add, h.two] at h2
  simpa using h2.symm

theorem IsPhase.neg_mul {e : Rat → K} (h : IsPhase e) (a : Rat) : e (-a) * e a = 1 := by
  rw [← h.add, neg_add_cancel, h.zero]

theorem IsPhase.ne_zero {e : Rat → K} (h : IsPhase e) (a : Rat) : e a ≠ 0 := by
  intro h0; have := h.neg_mul a; rw [h0, mul_zero] at this; exact zero_ne_one this

theorem IsPhase.two_mul_int {e : Rat → K} (h : IsPhase e) (z : Int) : e (2 * (z : Rat)) = 1 := by
  induction z using Int.induction_on with
  | zero => simpa using h.zero
  | succ i ih =>
    have : (2 : Rat) * ((i + 1 : Int) : Rat) = 2 * (i : Rat) + 2 := by push_cast; ring
    rw [this, h.add, h.two, mul_one]; exact_mod_cast ih
  | pred i ih =>
    have hm2 : e (-2) = 1 := by have := h.neg_mul 2; rwa [h.two, mul_one] at this
    have : (2 : Rat) * ((-i - 1 : Int) : Rat) = 2 * ((-i : Int) : Rat) + (-2) := by push_cast; ring
    rw [this, h.add, hm2, mul_one]; exact_mod_cast ih

theorem IsPhase.eq_of_eqMod2 {e : Rat → K} (h : IsPhase e) {a b : Rat} (hab : EqMod2 a b) : e a = e b := by
  obtain ⟨z, hz⟩ := hab
  have : a = b + 2 * (z : Rat) := by linarith
  rw [this, h.add, h.two_mul_int, mul_one]

theorem IsPhase.pow {e : Rat → K} (h : IsPhase e) (a : Rat) (m : Nat) : e a ^ m = e ((m : Rat) * a) := by
  induction m with
  | zero => simp [h.zero]
  | succ m ih => rw [pow_succ, ih, ← h.add]; congr 1; push_cast; ring

/-- the discrete transforms only read the first `n` entries -/
theorem dftSum_congr (w : K) (n : Nat) (f g : Nat → K) (h : ∀ j, j < n → f j = g j) (k : Nat) :
    dftSum w n f k = dftSum w n g k := by
  rw [dftSum_eq, dftSum_eq]
  exact Finset.sum_congr rfl fun j hj => by rw [h j (Finset.mem_range.mp hj)]

theorem dftInverseNp_congr (plus : Bool) (w winv : K) (n : Nat) (f g : Nat → K)
    (h : ∀ j, j < n → f j = g j) (k : Nat) :
    dftInverseNp plus w winv n f k = dftInverseNp plus w winv n g k := by
  cases plus <;> simp [dftInverseNp, npIfft, dftSum_congr _ n f g h]

end OdlModel.Fourier

namespace OdlModel.Fourier

theorem alongAxis_one {K : Type} [Inhabited K] (n m : Nat) (F : (Nat → K) → Nat → K)
    (x : Array K) (k : Nat) (hk : k < m) :
    (alongAxis 1 n 1 m F x).getD k default = F (fun j => x.getD j default) k := by
  unfold alongAxis
  have hk' : k < 1 * m * 1 := by omega
  rw [Array.getD_eq_getD_getElem?, Array.getElem?_ofFn]
  simp [hk, Nat.mod_eq_of_lt hk, Nat.div_eq_of_lt hk, Nat.mod_one]

end OdlModel.Fourier

namespace OdlModel.Fourier

/-- fibre semantics of `alongAxis` at an arbitrary flat index -/
theorem alongAxis_get {K : Type} [Inhabited K] (outer len inner outLen : Nat)
    (F : (Nat → K) → Nat → K) (x : Array K) (idx : Nat) (h : idx < outer * outLen * inner) :
    (alongAxis outer len inner outLen F x).getD idx default
      = F (fun k => x.getD ((idx / inner / outLen * len + k) * inner + idx % inner) default)
          (idx / inner % outLen) := by
  unfold alongAxis
  rw [Array.getD_eq_getD_getElem?, Array.getElem?_ofFn]
  simp [h]

theorem alongAxis_size {K : Type} [Inhabited K] (outer len inner outLen : Nat)
    (F : (Nat → K) → Nat → K) (x : Array K) :
    (alongAxis outer len inner outLen F x).size = outer * outLen * inner := by
  simp [alongAxis]

/-- index arithmetic: position `(o, k, i)` of a C-ordered `(outer, len, inner)` array -/
theorem fibre_index (len inner o k i : Nat) (hk : k < len) (hi : i < inner) :
    ((o * len + k) * inner + i) / inner / len = o ∧
    ((o * len + k) * inner + i) / inner % len = k ∧
    ((o * len + k) * inner + i) % inner = i := by
  have hinner : 0 < inner := by omega
  have h1 : ((o * len + k) * inner + i) / inner = o * len + k := by
    rw [Nat.add_comm, Nat.add_mul_div_right _ _ hinner, Nat.div_eq_of_lt hi, Nat.zero_add]
  have h2 : ((o * len + k) * inner + i) % inner = i := by
    rw [Nat.add_comm, Nat.add_mul_mod_self_right, Nat.mod_eq_of_lt hi]
  have hlen : 0 < len := by omega
  refine ⟨?_, ?_, h2⟩
  · rw [h1, Nat.add_comm, Nat.add_mul_div_right _ _ hlen, Nat.div_eq_of_lt hk, Nat.zero_add]
  · rw [h1, Nat.add_comm, Nat.add_mul_mod_self_right, Nat.mod_eq_of_lt hk]

end OdlModel.Fourier

namespace OdlModel.Fourier
/-- exchange of the two sums in `⟨F x, y⟩` -/
theorem adj_core {K : Type} [Field K] (n : Nat) (v : K) (x sy : Nat → K) :
    ∑ k ∈ Finset.range n, (∑ j ∈ Finset.range n, x j * v ^ (j * k)) * sy k
      = ∑ j ∈ Finset.range n, x j * ∑ k ∈ Finset.range n, sy k * v ^ (k * j) := by
  simp only [Finset.sum_mul, Finset.mul_sum]
  rw [Finset.sum_comm]
  apply Finset.sum_congr rfl; intro j _
  apply Finset.sum_congr rfl; intro k _
  rw [Nat.mul_comm k j]; ring
end OdlModel.Fourier
