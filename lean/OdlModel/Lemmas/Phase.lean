/-
Helper lemmas for C18: abstract phase functions `q ↦ exp(iπ q)` over a field, and congruence of
the discrete transforms.
-/
import OdlModel.Lemmas.Fourier
import Mathlib.Tactic.Linarith

namespace OdlModel.C18
/-- Equality of phase exponents modulo 2 (`exp(iπ a) = exp(iπ b)`). -/
def EqMod2 (a b : Rat) : Prop := ∃ z : Int, a - b = 2 * (z : Rat)
end OdlModel.C18

namespace OdlModel.Fourier
open OdlModel.C18
variable {K : Type} [Field K]

/-- `e` behaves like `q ↦ exp(iπ q)`: a character of `(ℚ,+)` with period 2. -/
structure IsPhase (e : Rat → K) : Prop where
  add : ∀ a b, e (a + b) = e a * e b
  two : e 2 = 1

theorem IsPhase.zero {e : Rat → K} (h : IsPhase e) : e 0 = 1 := by
  have h2 := h.add 0 2
  rw [zero_add, h.two] at h2
  simpa using h2.symm

theorem IsPhase.neg_mul {e : Rat → K} (h : IsPhase e) (a : Rat) : e (-a) * e a = 1 := by
  rw [← h.add, neg_add_cancel, h.zero]

theorem IsPhase.ne_zero {e : Rat → K} (h : IsPhase e) (a : Rat) : e a ≠ 0 := by
  intro h0; have := h.neg_mul a; rw [h0, mul_zero] at this; exact zero_ne_one this

theorem IsPhase.two_mul_int {e : Rat → K} (h : IsPhase e) (z : Int) : e (2 * (z : Rat)) = 1 := by
  induction z using Int.induction_on with
  | zero => simpa using h.zero
  | succ i ih =>
    have : (2 : Rat) * ((i + 1 : Int) : Rat) = 2 * (i : Rat) + 2 := by push_cast; ring
    rw [this, h.add, h.two, mul_one]; exact_mod_cast ih
  | pred i ih =>
    have hm2 : e (-2) = 1 := by have := h.neg_mul 2; rwa [h.two, mul_one] at this
    have : (2 : Rat) * ((-i - 1 : Int) : Rat) = 2 * ((-i : Int) : Rat) + (-2) := by push_cast; ring
    rw [this, h.add, hm2, mul_one]; exact_mod_cast ih

theorem IsPhase.eq_of_eqMod2 {e : Rat → K} (h : IsPhase e) {a b : Rat} (hab : EqMod2 a b) : e a = e b := by
  obtain ⟨z, hz⟩ := hab
  have : a = b + 2 * (z : Rat) := by linarith
  rw [this, h.add, h.two_mul_int, mul_one]

theorem IsPhase.pow {e : Rat → K} (h : IsPhase e) (a : Rat) (m : Nat) : e a ^ m = e ((m : Rat) * a) := by
  induction m with
  | zero => simp [h.zero]
  | succ m ih => rw [pow_succ, ih, ← h.add]; congr 1; push_cast; ring

/-- the discrete transforms only read the first `n` entries -/
theorem dftSum_congr (w : K) (n : Nat) (f g : Nat → K) (h : ∀ j, j < n → f j = g j) (k : Nat) :
    dftSum w n f k = dftSum w n g k := by
  rw [dftSum_eq, dftSum_eq]
  exact Finset.sum_congr rfl fun j hj => by rw [h j (Finset.mem_range.mp hj)]

theorem dftInverseNp_congr (plus : Bool) (w winv : K) (n : Nat) (f g : Nat → K)
    (h : ∀ j, j < n → f j = g j) (k : Nat) :
    dftInverseNp plus w winv n f k = dftInverseNp plus w winv n g k := by
  cases plus <;> simp [dftInverseNp, npIfft, dftSum_congr _ n f g h]

end OdlModel.Fourier

namespace OdlModel.Fourier

theorem alongAxis_one {K : Type} [Inhabited K] (n m : Nat) (F : (Nat → K) → Nat → K)
    (x : Array K) (k : Nat) (hk : k < m) :
    (alongAxis 1 n 1 m F x).getD k default = F (fun j => x.getD j default) k := by
  unfold alongAxis
  have hk' : k < 1 * m * 1 := by omega
  rw [Array.getD_eq_getD_getElem?, Array.getElem?_ofFn]
  simp [hk, Nat.mod_eq_of_lt hk, Nat.div_eq_of_lt hk, Nat.mod_one]

end OdlModel.Fourier

namespace OdlModel.Fourier

/-- fibre semantics of `alongAxis` at an arbitrary flat index -/
theorem alongAxis_get {K : Type} [Inhabited K] (outer len inner outLen : Nat)
    (F : (Nat → K) → Nat → K) (x : Array K) (idx : Nat) (h : idx < outer * outLen * inner) :
    (alongAxis outer len inner outLen F x).getD idx default
      = F (fun k => x.getD ((idx / inner / outLen * len + k) * inner + idx % inner) default)
          (idx / inner % outLen) := by
  unfold alongAxis
  rw [Array.getD_eq_getD_getElem?, Array.getElem?_ofFn]
  simp [h]

theorem alongAxis_size {K : Type} [Inhabited K] (outer len inner outLen : Nat)
    (F : (Nat → K) → Nat → K) (x : Array K) :
    (alongAxis outer len inner outLen F x).size = outer * outLen * inner := by
  simp [alongAxis]

/-- index arithmetic: position `(o, k, i)` of a C-ordered `(outer, len, inner)` array -/
theorem fibre_index (len inner o k i : Nat) (hk : k < len) (hi : i < inner) :
    ((o * len + k) * inner + i) / inner / len = o ∧
    ((o * len + k) * inner + i) / inner % len = k ∧
    ((o * len + k) * inner + i) % inner = i := by
  have hinner : 0 < inner := by omega
  have h1 : ((o * len + k) * inner + i) / inner = o * len + k := by
    rw [Nat.add_comm, Nat.add_mul_div_right _ _ hinner, Nat.div_eq_of_lt hi, Nat.zero_add]
  have h2 : ((o * len + k) * inner + i) % inner = i := by
    rw [Nat.add_comm, Nat.add_mul_mod_self_right, Nat.mod_eq_of_lt hi]
  have hlen : 0 < len := by omega
  refine ⟨?_, ?_, h2⟩
  · rw [h1, Nat.add_comm, Nat.add_mul_div_right _ _ hlen, Nat.div_eq_of_lt hk, Nat.zero_add]
  · rw [h1, Nat.add_comm, Nat.add_mul_mod_self_right, Nat.mod_eq_of_lt hk]

end OdlModel.Fourier

namespace OdlModel.Fourier
/-- exchange of the two sums in `⟨F x, y⟩` -/
theorem adj_core {K : Type} [Field K] (n : Nat) (v : K) (x sy : Nat → K) :
    ∑ k ∈ Finset.range n, (∑ j ∈ Finset.range n, x j * v ^ (j * k)) * sy k
      = ∑ j ∈ Finset.range n, x j * ∑ k ∈ Finset.range n, sy k * v ^ (k * j) := by
  simp only [Finset.sum_mul, Finset.mul_sum]
  rw [Finset.sum_comm]
  apply Finset.sum_congr rfl; intro j _
  apply Finset.sum_congr rfl; intro k _
  rw [Nat.mul_comm k j]; ring
end OdlModel.Fourier

/-! ### n-d: steps of `applyAxes`, cancellation of a forward step with its inverse step, telescoping -/

namespace OdlModel.Fourier

abbrev Step (K : Type) := Nat × Nat × ((Nat → K) → Nat → K)

/-- one step of `applyAxes` -/
def stepFn {K : Type} [Inhabited K] (acc : List Nat × Array K) (st : Step K) : List Nat × Array K :=
  let (o, l, i) := axisSplit acc.1 st.1
  (acc.1.set st.1 st.2.1, alongAxis o l i st.2.1 st.2.2 acc.2)

theorem applyAxes_eq_foldl {K : Type} [Inhabited K] (shape : List Nat) (steps : List (Step K))
    (x : Array K) : applyAxes shape steps x = steps.foldl stepFn (shape, x) := rfl

def lprod (l : List Nat) : Nat := l.foldl (· * ·) 1

theorem foldl_mul_eq (l : List Nat) (a : Nat) : l.foldl (· * ·) a = a * l.foldl (· * ·) 1 := by
  induction l generalizing a with
  | nil => simp
  | cons b t ih => simp only [List.foldl_cons]; rw [ih, ih (1 * b)]; ring

theorem axisSplit_prod (sh : List Nat) (a : Nat) (ha : a < sh.length) :
    (axisSplit sh a).1 * (axisSplit sh a).2.1 * (axisSplit sh a).2.2 = lprod sh := by
  unfold axisSplit lprod
  simp only
  conv_rhs => rw [← List.take_append_drop a sh, List.drop_eq_getElem_cons ha]
  rw [List.foldl_append, List.foldl_cons, foldl_mul_eq _ (_ * _)]
  simp [List.getD_eq_getElem?_getD, ha]

theorem axisSplit_set (sh : List Nat) (a m : Nat) (ha : a < sh.length) :
    axisSplit (sh.set a m) a = ((axisSplit sh a).1, m, (axisSplit sh a).2.2) := by
  unfold axisSplit
  have h1 : (sh.set a m).take a = sh.take a := List.take_set_of_le (Nat.le_refl a)
  have h2 : (sh.set a m).drop (a + 1) = sh.drop (a + 1) := List.drop_set_of_lt (Nat.lt_succ_self a)
  have h3 : (sh.set a m).getD a 1 = m := by
    simp [List.getD_eq_getElem?_getD, ha]
  rw [h1, h2, h3]


/-- `G` along an axis after `F` along the same axis (lengths `len → m → len`) returns the array
when `G ∘ F` is the identity on the fibres (which all satisfy `P`). -/
theorem alongAxis_cancel {K : Type} [Inhabited K] (outer len inner m : Nat)
    (F G : (Nat → K) → Nat → K) (P : (Nat → K) → Prop)
    (hcongr : ∀ f g : Nat → K, (∀ j, j < m → f j = g j) → ∀ k, G f k = G g k)
    (hGF : ∀ f : Nat → K, P f → ∀ k, k < len → G (F f) k = f k)
    (x : Array K) (hP : ∀ g : Nat → Nat, P (fun k => x.getD (g k) default))
    (idx : Nat) (h : idx < outer * len * inner) :
    (alongAxis outer m inner len G (alongAxis outer len inner m F x)).getD idx default
      = x.getD idx default := by
  have hinner : 0 < inner := by
    rcases Nat.eq_zero_or_pos inner with h0 | h0
    · subst h0; simp at h
    · exact h0
  have hlen : 0 < len := by
    rcases Nat.eq_zero_or_pos len with h0 | h0
    · subst h0; simp at h
    · exact h0
  rw [alongAxis_get _ _ _ _ _ _ _ h]
  set o := idx / inner / len with ho
  set k := idx / inner % len with hk
  set i := idx % inner with hi
  have hkl : k < len := Nat.mod_lt _ hlen
  have hil : i < inner := Nat.mod_lt _ hinner
  have hidx : idx = (o * len + k) * inner + i := by
    have h1 : idx = idx / inner * inner + idx % inner := (Nat.div_add_mod' idx inner).symm
    have h2 : idx / inner = idx / inner / len * len + idx / inner % len := (Nat.div_add_mod' _ len).symm
    rw [ho, hk, hi, ← h2, ← h1]
  have ho_lt : o < outer := by
    rw [ho, Nat.div_div_eq_div_mul, Nat.div_lt_iff_lt_mul (Nat.mul_pos hinner hlen)]
    calc idx < outer * len * inner := h
      _ = outer * (inner * len) := by ring
  have hfib : ∀ j, j < m →
      (alongAxis outer len inner m F x).getD ((o * m + j) * inner + i) default
        = F (fun k' => x.getD ((o * len + k') * inner + i) default) j := by
    intro j hj
    have hb : (o * m + j) * inner + i < outer * m * inner := by
      have : o * m + j < outer * m := by nlinarith
      nlinarith
    rw [alongAxis_get _ _ _ _ _ _ _ hb]
    obtain ⟨a, b, c⟩ := fibre_index m inner o j i hj hil
    rw [a, b, c]
  rw [hcongr _ (F (fun k' => x.getD ((o * len + k') * inner + i) default)) hfib k,
    hGF _ (hP _) k hkl, ← hidx]

theorem alongAxis_cancel_eq {K : Type} [Inhabited K] (outer len inner m : Nat)
    (F G : (Nat → K) → Nat → K) (P : (Nat → K) → Prop)
    (hcongr : ∀ f g : Nat → K, (∀ j, j < m → f j = g j) → ∀ k, G f k = G g k)
    (hGF : ∀ f : Nat → K, P f → ∀ k, k < len → G (F f) k = f k)
    (x : Array K) (hP : ∀ g : Nat → Nat, P (fun k => x.getD (g k) default))
    (hx : x.size = outer * len * inner) :
    alongAxis outer m inner len G (alongAxis outer len inner m F x) = x := by
  apply Array.ext
  · rw [alongAxis_size, hx]
  · intro i h1 h2
    have := alongAxis_cancel outer len inner m F G P hcongr hGF x hP i (by rw [← hx]; exact h2)
    simpa [Array.getD, h1, h2] using this

/-- a forward step along axis `a` followed by the inverse step along the same axis -/
theorem step_pair_cancel {K : Type} [Inhabited K] (sh : List Nat) (y : Array K) (a m : Nat)
    (F G : (Nat → K) → Nat → K) (P : (Nat → K) → Prop)
    (ha : a < sh.length) (hy : y.size = lprod sh)
    (hcongr : ∀ f g : Nat → K, (∀ j, j < m → f j = g j) → ∀ k, G f k = G g k)
    (hGF : ∀ f : Nat → K, P f → ∀ k, k < sh.getD a 1 → G (F f) k = f k)
    (hP : ∀ g : Nat → Nat, P (fun k => y.getD (g k) default)) :
    stepFn (stepFn (sh, y) (a, m, F)) (a, sh.getD a 1, G) = (sh, y) := by
  have hs := axisSplit_set sh a m ha
  have hp := axisSplit_prod sh a ha
  simp only [stepFn]
  rw [hs]
  have hl : (axisSplit sh a).2.1 = sh.getD a 1 := rfl
  apply Prod.ext
  · simp [List.getD_eq_getElem?_getD, ha]
  · simp only
    rw [← hl] at hGF ⊢
    exact alongAxis_cancel_eq _ _ _ m F G P hcongr hGF y hP (by rw [hy, ← hp])

/-- shape-preserving steps keep shape and size -/
theorem fold_shape {K : Type} [Inhabited K] (B : List Nat) (sh : List Nat) (len : Nat → Nat)
    (F : Nat → (Nat → K) → Nat → K)
    (hlt : ∀ a ∈ B, a < sh.length) (hlen : ∀ a ∈ B, sh.getD a 1 = len a) (y : Array K)
    (hy : y.size = lprod sh) :
    ((B.map fun a => ((a, len a, F a) : Step K)).foldl stepFn (sh, y)).1 = sh ∧
    ((B.map fun a => ((a, len a, F a) : Step K)).foldl stepFn (sh, y)).2.size = lprod sh := by
  induction B generalizing y with
  | nil => exact ⟨rfl, hy⟩
  | cons a B ih =>
    simp only [List.map_cons, List.foldl_cons]
    have ha := hlt a (by simp)
    have hla := hlen a (by simp)
    have h1 : stepFn (sh, y) ((a, len a, F a) : Step K)
        = (sh, alongAxis (axisSplit sh a).1 (axisSplit sh a).2.1 (axisSplit sh a).2.2 (len a) (F a) y) := by
      simp only [stepFn]
      apply Prod.ext
      · simp [← hla, List.getD_eq_getElem?_getD, ha]
      · rfl
    rw [h1]
    apply ih (fun b hb => hlt b (by simp [hb])) (fun b hb => hlen b (by simp [hb]))
    rw [alongAxis_size, ← hla]
    exact axisSplit_prod sh a ha

/-- telescoping of shape-preserving forward steps (applied last axis first) with their inverse
steps (applied first axis first) -/
theorem middle_cancel {K : Type} [Inhabited K] (B : List Nat) (sh : List Nat) (len : Nat → Nat)
    (F G : Nat → (Nat → K) → Nat → K)
    (hlt : ∀ a ∈ B, a < sh.length) (hlen : ∀ a ∈ B, sh.getD a 1 = len a)
    (hcongr : ∀ a ∈ B, ∀ f g : Nat → K, (∀ j, j < len a → f j = g j) → ∀ k, G a f k = G a g k)
    (hGF : ∀ a ∈ B, ∀ f : Nat → K, ∀ k, k < len a → G a (F a f) k = f k)
    (y : Array K) (hy : y.size = lprod sh) :
    (B.map fun a => ((a, len a, G a) : Step K)).foldl stepFn
      ((B.reverse.map fun a => ((a, len a, F a) : Step K)).foldl stepFn (sh, y)) = (sh, y) := by
  induction B with
  | nil => rfl
  | cons a B ih =>
    have hB1 : ∀ b ∈ B, b < sh.length := fun b hb => hlt b (by simp [hb])
    have hB2 : ∀ b ∈ B, sh.getD b 1 = len b := fun b hb => hlen b (by simp [hb])
    simp only [List.reverse_cons, List.map_append, List.map_cons, List.map_nil, List.foldl_append,
      List.foldl_cons, List.foldl_nil]
    obtain ⟨hs1, hs2⟩ := fold_shape B.reverse sh len F (fun b hb => hB1 b (by simpa using hb))
      (fun b hb => hB2 b (by simpa using hb)) y hy
    set S := (B.reverse.map fun a => ((a, len a, F a) : Step K)).foldl stepFn (sh, y) with hS
    have hSeq : S = (sh, S.2) := Prod.ext hs1 rfl
    have ha := hlt a (by simp)
    have hla := hlen a (by simp)
    have hc := step_pair_cancel sh S.2 a (len a) (F a) (G a) (fun _ => True) ha hs2
      (hcongr a (by simp)) (fun f _ k hk => hGF a (by simp) f k (by rw [← hla]; exact hk))
      (fun _ => trivial)
    rw [hla] at hc
    rw [hSeq, hc, ← hSeq, hS]
    exact ih hB1 hB2 (fun b hb => hcongr b (by simp [hb])) (fun b hb => hGF b (by simp [hb]))

end OdlModel.Fourier

namespace OdlModel.Fourier

/-! ### the n-d definitions as explicit step lists (roots total) -/

theorem mapM_some' {α β : Type} (f : α → β) (l : List α) :
    l.mapM (fun a => (some (f a) : Option β)) = some (l.map f) := by
  induction l with
  | nil => rfl
  | cons a t ih => simp [List.mapM_cons, ih]

theorem dftForwardNd_eq {K : Type} [Field K] [Inhabited K] (w : Nat → K)
    (fftw plus hc : Bool) (rshape axes : List Nat) (x : Array K) :
    dftForwardNd (fun n => some (w n, (w n)⁻¹)) fftw plus hc rshape axes x
      = some (applyAxes rshape (axes.reverse.map fun a =>
          (a, (if hc && some a == axes.getLast? then hcLen (rshape.getD a 1) else rshape.getD a 1),
            if fftw then dftForwardFftw plus (w (rshape.getD a 1)) (w (rshape.getD a 1))⁻¹ (rshape.getD a 1)
            else dftForwardNp plus (w (rshape.getD a 1)) (w (rshape.getD a 1))⁻¹ (rshape.getD a 1))) x) := by
  simp only [dftForwardNd, bind_pure_comp, Option.pure_def, Option.bind_eq_bind, Option.bind_some, Option.map_eq_map, Option.map_some]
  rw [mapM_some']
  rfl

theorem dftInverseNd_hc_eq {K : Type} [Field K] [Inhabited K] (w : Nat → K) (σ re : K → K)
    (fftw plus : Bool) (rshape axes : List Nat) (x : Array K) :
    dftInverseNd (fun n => some (w n, (w n)⁻¹)) σ re fftw plus true rshape axes x
      = some (applyAxes
          (rshape.zipIdx.map fun (n, a) => if true && some a == axes.getLast? then hcLen n else n)
          (axes.map fun a =>
          (a, rshape.getD a 1,
            if true && some a == axes.getLast? then
              fun g k => re (npIrfft σ (w (rshape.getD a 1))⁻¹ (rshape.getD a 1) g k)
            else if fftw then dftInverseFftw plus (w (rshape.getD a 1)) (w (rshape.getD a 1))⁻¹ (rshape.getD a 1)
            else dftInverseNp plus (w (rshape.getD a 1)) (w (rshape.getD a 1))⁻¹ (rshape.getD a 1))) x) := by
  simp only [dftInverseNd, Option.pure_def, Option.bind_eq_bind, Option.bind_some, if_true]
  rw [mapM_some']
  rfl

theorem fshape_eq_set (rshape : List Nat) (h : Nat) (hh : h < rshape.length) :
    (rshape.zipIdx.map fun (n, a) => if true && some a == some h then hcLen n else n)
      = rshape.set h (hcLen (rshape.getD h 1)) := by
  apply List.ext_getElem
  · simp
  · intro i h1 h2
    simp only [List.getElem_map, List.getElem_zipIdx, List.getElem_set]
    by_cases hi : h = i
    · subst hi; simp [List.getD_eq_getElem?_getD, hh]
    · have : i ≠ h := fun e => hi e.symm
      simp [hi, this]

theorem irfft_congr {K : Type} [Field K] (σ : K → K) (winv : K) (n : Nat) (f g : Nat → K)
    (h : ∀ j, j < hcLen n → f j = g j) (k : Nat) :
    npIrfft σ winv n f k = npIrfft σ winv n g k := by
  unfold npIrfft npIfft
  rw [dftSum_congr winv n (hermExt σ n f) (hermExt σ n g)]
  intro j hj
  unfold hermExt
  split_ifs with hle
  · exact h j (by unfold hcLen; omega)
  · rw [h (n - j) (by unfold hcLen; omega)]

end OdlModel.Fourier
