/-
C16: the vocabulary of the property statements (`PadOK`, `Admissible`, `npPad`,
`AdmissibleND`) and the helper lemmas that assemble the per-mode closed forms of
`Lemmas/Resize.lean` into statements over all modes.
-/
import OdlModel.Lemmas.ResizeND
import OdlModel.Model.ResizeRef

set_option linter.unusedVariables false
set_option linter.unusedTactic false
set_option linter.unreachableTactic false
set_option linter.unnecessarySeqFocus false

namespace OdlModel.C16
open OdlModel.Resize

/-- The documented requirement on a padded axis of original length `n`
(docstring of `resize_array`). -/
def PadOK (mode : Mode) (n padL padR : Nat) : Prop :=
  match mode with
  | .constant => True
  | .periodic => padL ≤ n ∧ padR ≤ n
  | .symmetric => padL < n ∧ padR < n
  | .order0 => 1 ≤ n
  | .order1 => 2 ≤ n

/-- `(n, m, off)` is an admissible resize of one axis from length `n` to length `m`:
on a resized axis the block fits (on an axis of unchanged length the offset is ignored), and
if the axis grows the padding lengths respect the mode's limit. -/
def Admissible (mode : Mode) (n m off : Nat) : Prop :=
  (n ≠ m → off + min n m ≤ max n m) ∧ (n < m → PadOK mode n off (m - n - off))

/-- Per-axis admissibility of an n-d resize. -/
def AdmissibleND (mode : Mode) : List Nat → List Nat → List Nat → Prop
  | n :: sIn, m :: sOut, off :: offs => Admissible mode n m off ∧ AdmissibleND mode sIn sOut offs
  | [], [], [] => True
  | _, _, _ => False

end OdlModel.C16

open OdlModel.C16 OdlModel.Resize Finset

namespace OdlModel.C16
section
variable {K : Type} [CommRing K] [DecidableEq K]

omit [DecidableEq K] in
theorem admissible_fits {mode : Mode} {n m off : Nat} (h : Admissible mode n m off)
    (hnm : n < m) : off + n ≤ m := by
  have := h.1 (by omega); omega

/-- A successful call returns `resizeCore`. -/
theorem ok_iff (mode : Mode) (dir : Dir) (n m off : Nat) (c : K) (x r : Nat → K) :
    resize1d mode dir n m off c x = .ok r ↔
      check mode dir n m off c = none ∧ r = resizeCore mode dir n m off c x := by
  unfold resize1d
  cases h : check mode dir n m off c <;> simp [eq_comm]

/-- One growing axis, forward direction, closed form for every mode:
`constant/periodic/symmetric/order0` read the input at NumPy's `constant/wrap/reflect/edge`
index, `order1` extrapolates linearly. -/
theorem core_fwd_grow (mode : Mode) (n m off : Nat) (c : K) (x : Nat → K) (hnm : n < m)
    (h : Admissible mode n m off) (i : Nat) (hi : i < m) :
    resizeCore mode .forward n m off c x i = npPad mode n off c x i := by
  have hoff := admissible_fits h hnm
  have hp := h.2 hnm
  cases mode <;> simp only [PadOK] at hp <;> simp only [npPad]
  · exact core_constant_fwd n m off c x hnm hoff i
  · rw [core_symmetric_fwd n m off c x hnm hoff hp.1 hp.2 i hi]
    simp only [npReflect]
    rw [reflect_eq_src n off i (by omega) hp.1 (by omega)]
  · rw [core_periodic_fwd n m off c x hnm hoff hp.1 hp.2 i hi]
    simp only [npWrap]
    rw [wrap_eq_src n off i (by omega) hp.1 (by omega)]
  · rw [core_order0_fwd n m off c x hnm hoff hp i hi]
    simp only [npEdge, srcEdge, ge_iff_le]
  · exact core_order1_fwd n m off c x hnm hoff hp i hi

/-- One axis: forward `n → m` and adjoint `m → n` are transposes, all modes and sizes. -/
theorem core_transpose (mode : Mode) (n m off : Nat) (h : Admissible mode n m off) :
    TransposePair n m (resizeCore mode .forward n m off (0 : K))
      (resizeCore mode .adjoint m n off (0 : K)) := by
  intro x y
  by_cases hnm : n < m
  · have hoff := admissible_fits h hnm
    have hp := h.2 hnm
    cases mode <;> simp only [PadOK] at hp
    · exact constant_transpose n m off x y hnm hoff
    · exact symmetric_transpose n m off x y hnm hoff hp.1 hp.2
    · exact periodic_transpose n m off x y hnm hoff hp.1 hp.2
    · exact order0_transpose n m off x y hnm hoff hp
    · exact order1_transpose n m off x y hnm hoff hp
  · by_cases hmn : m < n
    · have := h.1 (by omega)
      exact crop_transpose mode n m off x y (by omega) (by omega)
    · have e : n = m := by omega
      subst e
      exact same_transpose mode n off x y

omit [DecidableEq K] in
theorem admND_lengths {mode : Mode} : ∀ {sIn sOut offs : List Nat},
    AdmissibleND mode sIn sOut offs → sIn.length = sOut.length ∧ sIn.length = offs.length
  | [], [], [], _ => ⟨rfl, rfl⟩
  | _ :: _, _ :: _, _ :: _, h => by
    have := admND_lengths h.2
    simp only [List.length_cons]; omega
  | [], [], _ :: _, h => by simp [AdmissibleND] at h
  | [], _ :: _, _, h => by simp [AdmissibleND] at h
  | _ :: _, [], _, h => by simp [AdmissibleND] at h
  | _ :: _, _ :: _, [], h => by simp [AdmissibleND] at h

theorem axes_transpose (mode : Mode) :
    ∀ (sIn sOut offs pre : List Nat), AdmissibleND mode sIn sOut offs →
      TransposePairND (pre ++ sIn) (pre ++ sOut)
        (resizeAxes mode .forward (0 : K) pre.length sIn sOut offs)
        (resizeAxesRev mode .adjoint (0 : K) pre.length sOut sIn offs)
  | [], [], [], pre, _ => by
    intro X Y
    simp only [resizeAxes, resizeAxesRev]
    congr 1; funext idx; ring
  | n :: sIn, m :: sOut, off :: offs, pre, h => by
    have ih := axes_transpose mode sIn sOut offs (pre ++ [m]) h.2
    have h1 : TransposePairND (pre ++ n :: sIn) (pre ++ m :: sIn)
        (alongAxis pre.length (resizeCore mode .forward n m off (0 : K)))
        (alongAxis pre.length (resizeCore mode .adjoint m n off (0 : K))) := by
      intro X Y
      exact alongAxis_transpose n m _ _ (core_transpose mode n m off h.1) pre sIn X Y
    simp only [List.append_assoc, List.cons_append, List.nil_append, List.length_append,
      List.length_cons, List.length_nil, Nat.zero_add] at ih
    have := TransposePairND.comp h1 ih
    intro X Y
    simpa only [resizeAxes, resizeAxesRev, Function.comp] using this X Y
  | [], [], _ :: _, _, h => by simp [AdmissibleND] at h
  | [], _ :: _, _, _, h => by simp [AdmissibleND] at h
  | _ :: _, [], _, _, h => by simp [AdmissibleND] at h
  | _ :: _, _ :: _, [], _, h => by simp [AdmissibleND] at h

omit [DecidableEq K] in
theorem linExtrap_left (n off k : Nat) (x : Nat → K) (hn : 2 ≤ n) (hk : k ≤ off + 1) :
    linExtrap n off x k = x 0 + (((k : Int) - off : Int) : K) * (x 1 - x 0) := by
  simp only [linExtrap]
  split_ifs with h1 h2
  · rfl
  · omega
  · rcases Nat.lt_or_ge k (off + 1) with h | h
    · have e : k = off := by omega
      subst e; simp
    · have e : k = off + 1 := by omega
      subst e; simp

omit [DecidableEq K] in
theorem linExtrap_right (n off k : Nat) (x : Nat → K) (hn : 2 ≤ n) (hk : off + n - 2 ≤ k) :
    linExtrap n off x k =
      x (n - 1) + (((k : Int) - (off + n - 1) : Int) : K) * (x (n - 1) - x (n - 2)) := by
  simp only [linExtrap]
  split_ifs with h1 h2
  · omega
  · rfl
  · rcases Nat.lt_or_ge k (off + n - 1) with h | h
    · have e : k = off + n - 2 := by omega
      have e1 : k - off = n - 2 := by omega
      have e2 : ((k : Int) - (off + n - 1)) = -1 := by omega
      rw [e1, e2]; push_cast; ring
    · have e1 : k - off = n - 1 := by omega
      have e2 : ((k : Int) - (off + n - 1)) = 0 := by omega
      rw [e1, e2]; simp
omit [CommRing K] [DecidableEq K] in
/-- admissible axes have offsets in range -/
theorem offsetsBad_false_of_adm {mode : Mode} : ∀ {sIn sOut offs : List Nat},
    AdmissibleND mode sIn sOut offs → offsetsBad sIn sOut offs = false
  | [], [], [], _ => rfl
  | n :: _, m :: _, off :: _, h => by
    have h1 := h.1.1
    have := offsetsBad_false_of_adm h.2
    simp only [offsetsBad, this, Bool.or_false, decide_eq_false_iff_not]
    intro hh; have := h1 hh.1; omega
  | [], [], _ :: _, h => by simp [AdmissibleND] at h
  | [], _ :: _, _, h => by simp [AdmissibleND] at h
  | _ :: _, [], _, h => by simp [AdmissibleND] at h
  | _ :: _, _ :: _, [], h => by simp [AdmissibleND] at h

/-- the first `pre.length` coordinates of `idx` lie in the box `pre` -/
def Pref (pre idx : List Nat) : Prop := ∀ k < pre.length, idx.getD k 0 < pre.getD k 0

theorem core_eq_ref (mode : Mode) (n m off : Nat) (c : K) (x : Nat → K)
    (h : Admissible mode n m off) (i : Nat) (hi : i < m) :
    resizeCore mode .forward n m off c x i = ref1d mode n m off c x i := by
  unfold ref1d
  split_ifs with h1 h2
  · exact core_fwd_grow mode n m off c x h1 h i hi
  · have := h.1 (by omega)
    exact core_fwd_crop mode n m off c x (by omega) (by omega) i hi
  · have e : n = m := by omega
    subst e
    exact core_same mode .forward n off c x i hi

omit [CommRing K] [DecidableEq K] in
theorem Pref_set (pre idx : List Nat) (ax j : Nat) (h : pre.length ≤ ax) :
    Pref pre (idx.set ax j) ↔ Pref pre idx := by
  unfold Pref
  constructor <;> intro hp k hk <;> have := hp k hk <;>
    simpa [List.getD_eq_getElem?_getD, List.getElem?_set_ne (show ax ≠ k by omega)] using this

omit [CommRing K] [DecidableEq K] in
theorem Pref_snoc (pre idx : List Nat) (m : Nat) :
    Pref (pre ++ [m]) idx ↔ Pref pre idx ∧ idx.getD pre.length 0 < m := by
  unfold Pref
  have e1 : ∀ k, k < pre.length → (pre ++ [m]).getD k 0 = pre.getD k 0 := fun k hk => by
    simp [List.getD_eq_getElem?_getD, List.getElem?_append_left hk]
  have e2 : (pre ++ [m]).getD pre.length 0 = m := by
    simp [List.getD_eq_getElem?_getD]
  constructor
  · intro hp
    refine ⟨fun k hk => ?_, ?_⟩
    · have := hp k (by simp; omega)
      rwa [e1 k hk] at this
    · have := hp pre.length (by simp)
      rwa [e2] at this
  · rintro ⟨h1, h2⟩ k hk
    simp only [List.length_append, List.length_cons, List.length_nil] at hk
    by_cases hk' : k < pre.length
    · rw [e1 k hk']; exact h1 k hk'
    · have : k = pre.length := by omega
      subst this
      rw [e2]; exact h2

theorem fwd_axes_eq_ref (mode : Mode) (c : K) :
    ∀ (sIn sOut offs pre : List Nat) (Z Z' : List Nat → K), AdmissibleND mode sIn sOut offs →
      (∀ idx, Pref pre idx → Z idx = Z' idx) → ∀ idx, Pref (pre ++ sOut) idx →
      resizeAxes mode .forward c pre.length sIn sOut offs Z idx =
        refAxes mode c pre.length sIn sOut offs Z' idx
  | [], [], [], pre, Z, Z', _, hZ, idx, hp => by
    simp only [resizeAxes, refAxes]
    exact hZ idx (by simpa using hp)
  | n :: sIn, m :: sOut, off :: offs, pre, Z, Z', h, hZ, idx, hp => by
    simp only [resizeAxes, refAxes]
    have ih := fwd_axes_eq_ref mode c sIn sOut offs (pre ++ [m])
      (alongAxis pre.length (resizeCore mode .forward n m off c) Z)
      (alongAxis pre.length (ref1d mode n m off c) Z') h.2
    simp only [List.length_append, List.length_cons, List.length_nil, Nat.zero_add,
      List.append_assoc, List.cons_append, List.nil_append] at ih
    refine ih ?_ idx hp
    intro jdx hj
    obtain ⟨hj1, hj2⟩ := (Pref_snoc pre jdx m).1 hj
    simp only [alongAxis]
    have hf : (fun j => Z (jdx.set pre.length j)) = (fun j => Z' (jdx.set pre.length j)) := by
      funext j
      exact hZ _ ((Pref_set pre jdx pre.length j (le_refl _)).2 hj1)
    rw [hf]
    exact core_eq_ref mode n m off c _ h.1 _ hj2
  | [], [], _ :: _, _, _, _, h, _, _, _ => by simp [AdmissibleND] at h
  | [], _ :: _, _, _, _, _, h, _, _, _ => by simp [AdmissibleND] at h
  | _ :: _, [], _, _, _, _, h, _, _, _ => by simp [AdmissibleND] at h
  | _ :: _, _ :: _, [], _, _, _, h, _, _, _ => by simp [AdmissibleND] at h
omit [CommRing K] [DecidableEq K] in
theorem set_getD_self (idx : List Nat) (ax : Nat) : idx.set ax (idx.getD ax 0) = idx := by
  induction idx generalizing ax with
  | nil => simp
  | cons a t ih =>
    cases ax with
    | zero => simp
    | succ k => have := ih k; simp [List.getD_eq_getElem?_getD] at this ⊢; exact this

omit [DecidableEq K] in
theorem refAxes_same (mode : Mode) (c : K) :
    ∀ (s offs : List Nat) (ax : Nat) (X : List Nat → K) (idx : List Nat),
      refAxes mode c ax s s offs X idx = X idx
  | n :: s, off :: offs, ax, X, idx => by
    simp only [refAxes]
    rw [refAxes_same mode c s offs (ax + 1)]
    simp only [alongAxis, ref1d, lt_irrefl, ↓reduceIte, set_getD_self]
  | [], _, _, _, _ => by simp [refAxes]
  | _ :: _, [], _, _, _ => by simp [refAxes]

omit [CommRing K] [DecidableEq K] in
theorem admND_same (mode : Mode) : ∀ (s offs : List Nat), s.length = offs.length →
    AdmissibleND mode s s offs
  | [], [], _ => trivial
  | n :: s, off :: offs, h =>
    ⟨⟨fun hh => absurd rfl hh, fun hh => absurd hh (lt_irrefl n)⟩,
      admND_same mode s offs (by simpa using h)⟩
  | [], _ :: _, h => by simp at h
  | _ :: _, [], h => by simp at h

end
end OdlModel.C16
