/-
Meaning over `ℝ` of the generated `(f, f')` table of the ufunc operators (C06).
-/
import OdlModel.Gen.UfuncDeriv
import Mathlib.Analysis.SpecialFunctions.Trigonometric.Deriv
import Mathlib.Analysis.SpecialFunctions.Trigonometric.DerivHyp
import Mathlib.Analysis.SpecialFunctions.Trigonometric.ArctanDeriv
import Mathlib.Analysis.SpecialFunctions.Sqrt
import Mathlib.Analysis.SpecialFunctions.Log.Deriv
import Mathlib.Analysis.Calculus.Deriv.Inv
import Mathlib.Analysis.Calculus.Deriv.Pow
import Mathlib.Tactic.FieldSimp
import Mathlib.Analysis.Calculus.FDeriv.Pi
import Mathlib.Analysis.Calculus.Deriv.Comp

namespace OdlModel.UfuncDeriv

/-- The real function computed point-wise by the ufunc operator. -/
noncomputable def Fn.real : Fn → ℝ → ℝ
  | .sin => Real.sin | .cos => Real.cos | .tan => Real.tan | .sqrt => Real.sqrt
  | .square => fun t => t ^ 2 | .log => Real.log | .exp => Real.exp
  | .reciprocal => fun t => t⁻¹ | .sinh => Real.sinh | .cosh => Real.cosh

/-- Points where the ufunc is differentiable (and NumPy returns finite values). -/
def Fn.smoothAt : Fn → ℝ → Prop
  | .tan => fun t => Real.cos t ≠ 0
  | .sqrt => fun t => 0 < t
  | .log => fun t => 0 < t
  | .reciprocal => fun t => t ≠ 0
  | _ => fun _ => True

/-- Meaning of a multiplicand expression of the branch of ufunc `f` at the point `t`. -/
noncomputable def Expr.eval (f : Fn) (t : ℝ) : Expr → ℝ
  | .pt => t
  | .self => f.real t
  | .app g => g.real t
  | .const n d => (n : ℝ) / (d : ℝ)
  | .neg e => - e.eval f t
  | .add a b => a.eval f t + b.eval f t
  | .mul a b => a.eval f t * b.eval f t
  | .div a b => a.eval f t / b.eval f t
  | .pow e n => e.eval f t ^ n
  | .comp g e => g.real (e.eval f t)

end OdlModel.UfuncDeriv
