/-
Helper lemmas for C16, round 4: inverse and derivative of `ResizingOperator` (`Model/
ResizeOperator.lean`), the overlapping block in n dimensions and crop ∘ extend.

* the forward argument check does not look at `pad_const`;
* one axis, every mode: the difference of two forward results is the `pad_const = 0` resize of
  the difference of the inputs (for ALL indices, no condition on sizes/offsets), lifted to any
  number of axes;
* one axis: on the overlapping block the forward resize is an index map (`srcAx`), lifted to any
  number of axes (`srcIdx`), and the index maps of a crop after an extension cancel.
-/
import OdlModel.Lemmas.ResizeSpec
import OdlModel.Lemmas.ResizeLin
import OdlModel.Model.ResizeOperator
import Mathlib.Data.Rat.Floor
import Mathlib.Tactic.Linarith

set_option linter.unusedVariables false
set_option linter.unusedTactic false
set_option linter.unreachableTactic false
set_option linter.unnecessarySeqFocus false
set_option linter.unusedSimpArgs false

open OdlModel.Resize Finset

namespace OdlModel.C16

/-! ### vocabulary of the n-d overlap statements -/

/-- Position in the INPUT of the entry that the forward resize copies to position `i` of the
output (one axis): `i - off` on a growing axis, `off + i` on a shrinking one, `i` otherwise. -/
def srcAx (n m off i : Nat) : Nat := if n < m then i - off else if m < n then off + i else i

/-- `i` lies in the copied block of the output: `[off, off + n)` on a growing axis, the whole
output `[0, m)` otherwise. -/
def InOvAx (n m off i : Nat) : Prop := if n < m then off ≤ i ∧ i < off + n else i < m

/-- `srcAx` axis by axis. -/
def srcIdx : List Nat → List Nat → List Nat → List Nat → List Nat
  | n :: sIn, m :: sOut, off :: offs, i :: idx => srcAx n m off i :: srcIdx sIn sOut offs idx
  | _, _, _, idx => idx

/-- every coordinate lies in the copied block of its axis (and there are as many coordinates as
axes) -/
def InOverlap : List Nat → List Nat → List Nat → List Nat → Prop
  | n :: sIn, m :: sOut, off :: offs, i :: idx => InOvAx n m off i ∧ InOverlap sIn sOut offs idx
  | [], [], [], [] => True
  | _, _, _, _ => False

/-- `idx` is a multi-index of the box `shape` (same number of coordinates). -/
def InBox : List Nat → List Nat → Prop
  | n :: s, i :: idx => i < n ∧ InBox s idx
  | [], [] => True
  | _, _ => False

/-- no axis shrinks -/
def Extends : List Nat → List Nat → Prop
  | n :: sIn, m :: sOut => n ≤ m ∧ Extends sIn sOut
  | [], [] => True
  | _, _ => False

section
variable {K : Type} [CommRing K] [DecidableEq K]

/-! ### the forward check ignores `pad_const` -/

theorem check_fwd_c (mode : Mode) (n m off : Nat) (c c' : K) :
    check mode .forward n m off c = check mode .forward n m off c' := by
  simp [check]

theorem checkAxes_fwd_c (mode : Mode) (c c' : K) : ∀ (sIn sOut offs : List Nat),
    checkAxes mode .forward c sIn sOut offs = checkAxes mode .forward c' sIn sOut offs
  | n :: sIn, m :: sOut, off :: offs => by
    simp only [checkAxes]
    rw [check_fwd_c mode n m off c c', checkAxes_fwd_c mode c c' sIn sOut offs]
  | [], _, _ => by simp [checkAxes]
  | _ :: _, [], _ => by simp [checkAxes]
  | _ :: _, _ :: _, [] => by simp [checkAxes]

theorem checkND_fwd_c (mode : Mode) (c c' : K) (sIn sOut offs : List Nat) :
    checkND mode .forward c sIn sOut offs = checkND mode .forward c' sIn sOut offs := by
  simp only [checkND, checkAxes_fwd_c mode c c']

/-! ### the derivative: difference of two results = zero-constant resize of the difference -/

omit [DecidableEq K] in
theorem rowSum_sub (l : List (K × Nat)) (y z : Nat → K) :
    rowSum l (fun i => y i - z i) = rowSum l y - rowSum l z := by
  induction l with
  | nil => simp [rowSum_nil]
  | cons p l ih => simp only [rowSum_cons, ih]; ring

theorem core_nonconst_c (mode : Mode) (hm : mode ≠ .constant) (n m off : Nat) (c : K)
    (x : Nat → K) : resizeCore mode .forward n m off c x = resizeCore mode .forward n m off 0 x := by
  simp [resizeCore, hm]

/-- `pad_const` is not looked at unless the mode is `constant` (n axes) -/
theorem axes_c_irrelevant (mode : Mode) (hm : mode ≠ .constant) (c : K) :
    ∀ (sIn sOut offs : List Nat) (ax : Nat) (A : List Nat → K) (idx : List Nat),
      resizeAxes mode .forward c ax sIn sOut offs A idx =
        resizeAxes mode .forward 0 ax sIn sOut offs A idx
  | n :: sIn, m :: sOut, off :: offs, ax, A, idx => by
    simp only [resizeAxes]
    rw [axes_c_irrelevant mode hm c sIn sOut offs (ax + 1)]
    congr 2
    funext x
    exact core_nonconst_c mode hm n m off c x
  | [], _, _, _, _, _ => by simp [resizeAxes]
  | _ :: _, [], _, _, _, _ => by simp [resizeAxes]
  | _ :: _, _ :: _, [], _, _, _ => by simp [resizeAxes]

/-- one axis, every mode, ALL indices: `R_c x - R_c x' = R_0 (x - x')` -/
theorem core_fwd_sub (mode : Mode) (n m off : Nat) (c : K) (x x' : Nat → K) (i : Nat) :
    resizeCore mode .forward n m off c x i - resizeCore mode .forward n m off c x' i =
      resizeCore mode .forward n m off 0 (fun j => x j - x' j) i := by
  by_cases hm : mode = .constant
  · subst hm
    simp only [resizeCore, assignIntersection, ↓reduceIte]
    split_ifs <;> (simp only [setSlc, getS]; split_ifs <;> simp)
  · rw [core_nonconst_c mode hm n m off c x, core_nonconst_c mode hm n m off c x']
    obtain ⟨l, hl⟩ := LinArr.resizeCore (K := K) mode .forward n m off i
    have h1 := hl x
    have h2 := hl x'
    have h3 := hl (fun j => x j - x' j)
    simp only at h1 h2 h3
    rw [h1, h2, h3, rowSum_sub]

/-- … lifted to any number of axes (no condition on shapes, offsets, indices). -/
theorem axes_fwd_sub (mode : Mode) (c : K) :
    ∀ (sIn sOut offs : List Nat) (ax : Nat) (A A' D : List Nat → K),
      (∀ idx, A idx - A' idx = D idx) → ∀ idx,
      resizeAxes mode .forward c ax sIn sOut offs A idx -
        resizeAxes mode .forward c ax sIn sOut offs A' idx =
        resizeAxes mode .forward 0 ax sIn sOut offs D idx
  | n :: sIn, m :: sOut, off :: offs, ax, A, A', D, h, idx => by
    simp only [resizeAxes]
    apply axes_fwd_sub mode c sIn sOut offs (ax + 1)
    intro jdx
    simp only [alongAxis]
    rw [core_fwd_sub]
    congr 1
    funext j
    exact h _
  | [], _, _, _, _, _, _, h, idx => by simpa [resizeAxes] using h idx
  | _ :: _, [], _, _, _, _, _, h, idx => by simpa [resizeAxes] using h idx
  | _ :: _, _ :: _, [], _, _, _, _, h, idx => by simpa [resizeAxes] using h idx

/-! ### the overlapping block -/

/-- one axis: on the copied block the forward resize reads the input at `srcAx` -/
theorem core_overlap (mode : Mode) (n m off : Nat) (c : K) (x : Nat → K)
    (hadm : Admissible mode n m off) (i : Nat) (hi : InOvAx n m off i) :
    resizeCore mode .forward n m off c x i = x (srcAx n m off i) := by
  unfold InOvAx at hi
  unfold srcAx
  rcases Nat.lt_trichotomy n m with hlt | heq | hgt
  · rw [if_pos hlt] at hi ⊢
    have hoff := admissible_fits hadm hlt
    have hp := hadm.2 hlt
    rw [core_fwd_grow mode n m off c x hlt hadm i (by omega)]
    cases mode <;> simp only [PadOK] at hp <;> simp only [npPad]
    · simp only [npConstant]; rw [if_pos (by omega)]
    · simp only [npReflect]
      rw [reflect_eq_src n off i (by omega) hp.1 (by omega)]
      simp only [srcSymmetric]; split_ifs <;> first | omega | (congr 1 <;> omega)
    · simp only [npWrap]
      rw [wrap_eq_src n off i (by omega) hp.1 (by omega)]
      simp only [srcPeriodic]; split_ifs <;> first | omega | (congr 1 <;> omega)
    · simp only [npEdge]; split_ifs <;> first | omega | (congr 1 <;> omega)
    · simp only [linExtrap]; split_ifs <;> first | omega | (congr 1 <;> omega)
  · subst heq
    simp only [lt_irrefl, ↓reduceIte] at hi ⊢
    exact core_same mode .forward n off c x i hi
  · rw [if_neg (by omega)] at hi
    rw [if_neg (by omega), if_pos hgt]
    have := hadm.1 (by omega)
    exact core_fwd_crop mode n m off c x (by omega) (by omega) i hi

omit [CommRing K] [DecidableEq K] in
theorem alongAxis_at (L : (Nat → K) → (Nat → K)) (Z : List Nat → K) (pre : List Nat) (i : Nat)
    (rest : List Nat) :
    alongAxis pre.length L Z (pre ++ i :: rest) = L (fun j => Z (pre ++ j :: rest)) i := by
  simp [alongAxis, List.getD_eq_getElem?_getD]

/-- n axes: on the copied block the forward resize reads the input at `srcIdx` -/
theorem axes_overlap (mode : Mode) (c : K) :
    ∀ (sIn sOut offs pre idx : List Nat) (Z : List Nat → K), AdmissibleND mode sIn sOut offs →
      InOverlap sIn sOut offs idx →
      resizeAxes mode .forward c pre.length sIn sOut offs Z (pre ++ idx) =
        Z (pre ++ srcIdx sIn sOut offs idx)
  | [], [], [], pre, [], Z, _, _ => by simp [resizeAxes, srcIdx]
  | n :: sIn, m :: sOut, off :: offs, pre, i :: idx, Z, h, hi => by
    simp only [resizeAxes, srcIdx]
    have ih := axes_overlap mode c sIn sOut offs (pre ++ [i]) idx
      (alongAxis pre.length (resizeCore mode .forward n m off c) Z) h.2 hi.2
    simp only [List.length_append, List.length_cons, List.length_nil, Nat.zero_add,
      List.append_assoc, List.cons_append, List.nil_append] at ih
    rw [ih, alongAxis_at, core_overlap mode n m off c _ h.1 i hi.1]
  | [], [], [], _, _ :: _, _, _, hi => by simp [InOverlap] at hi
  | _ :: _, _ :: _, _ :: _, _, [], _, _, hi => by simp [InOverlap] at hi
  | [], [], _ :: _, _, _, _, h, _ => by simp [AdmissibleND] at h
  | [], _ :: _, _, _, _, _, h, _ => by simp [AdmissibleND] at h
  | _ :: _, [], _, _, _, _, h, _ => by simp [AdmissibleND] at h
  | _ :: _, _ :: _, [], _, _, _, h, _ => by simp [AdmissibleND] at h

/-! ### crop after extension -/

omit [CommRing K] [DecidableEq K] in
/-- an extension can be cropped back with the same offsets, in any mode -/
theorem admND_back (mode mode' : Mode) : ∀ (sIn sOut offs : List Nat),
    AdmissibleND mode sIn sOut offs → Extends sIn sOut → AdmissibleND mode' sOut sIn offs
  | [], [], [], _, _ => trivial
  | n :: sIn, m :: sOut, off :: offs, h, he =>
    ⟨⟨fun hne => by have := h.1.1 (by omega); have := he.1; omega, fun hh => by have := he.1; omega⟩,
      admND_back mode mode' sIn sOut offs h.2 he.2⟩
  | [], [], _ :: _, h, _ => by simp [AdmissibleND] at h
  | [], _ :: _, _, h, _ => by simp [AdmissibleND] at h
  | _ :: _, [], _, h, _ => by simp [AdmissibleND] at h
  | _ :: _, _ :: _, [], h, _ => by simp [AdmissibleND] at h

omit [CommRing K] [DecidableEq K] in
/-- index bookkeeping of crop ∘ extend: a multi-index of the small box lies in the copied block
of the crop, its source lies in the copied block of the extension, and the two index maps
cancel -/
theorem overlap_back (mode : Mode) : ∀ (sIn sOut offs idx : List Nat),
    AdmissibleND mode sIn sOut offs → Extends sIn sOut → InBox sIn idx →
      InOverlap sOut sIn offs idx ∧ InOverlap sIn sOut offs (srcIdx sOut sIn offs idx) ∧
        srcIdx sIn sOut offs (srcIdx sOut sIn offs idx) = idx
  | [], [], [], [], _, _, _ => by simp [InOverlap, srcIdx]
  | n :: sIn, m :: sOut, off :: offs, i :: idx, h, he, hb => by
    obtain ⟨h1, h2, h3⟩ := overlap_back mode sIn sOut offs idx h.2 he.2 hb.2
    have hnm := he.1
    have hi := hb.1
    have hfit : n ≠ m → off + n ≤ m := fun hne => by have := h.1.1 hne; omega
    refine ⟨⟨?_, h1⟩, ⟨?_, h2⟩, ?_⟩
    · unfold InOvAx; rw [if_neg (by omega)]; exact hi
    · unfold InOvAx srcAx
      rcases Nat.lt_or_eq_of_le hnm with hlt | heq
      · rw [if_pos hlt, if_neg (by omega), if_pos hlt]; omega
      · subst heq; simpa using hi
    · simp only [srcIdx, h3]
      congr 1
      unfold srcAx
      rcases Nat.lt_or_eq_of_le hnm with hlt | heq
      · rw [if_pos hlt, if_neg (by omega), if_pos hlt]; omega
      · subst heq; simp
  | [], [], [], _ :: _, _, _, hb => by simp [InBox] at hb
  | _ :: _, _ :: _, _ :: _, [], _, _, hb => by simp [InBox] at hb
  | [], [], _ :: _, _, h, _, _ => by simp [AdmissibleND] at h
  | [], _ :: _, _, _, h, _, _ => by simp [AdmissibleND] at h
  | _ :: _, [], _, _, h, _, _ => by simp [AdmissibleND] at h
  | _ :: _, _ :: _, [], _, h, _, _ => by simp [AdmissibleND] at h

/-! ### acceptance of the adjoint call -/

omit [CommRing K] [DecidableEq K] in
theorem offsetsBad_symm : ∀ (sIn sOut offs : List Nat),
    offsetsBad sOut sIn offs = offsetsBad sIn sOut offs
  | n :: sIn, m :: sOut, off :: offs => by
    simp only [offsetsBad, offsetsBad_symm sIn sOut offs]
    congr 1
    simp only [decide_eq_decide]
    constructor <;> rintro ⟨h1, h2⟩ <;>
      exact ⟨fun h => h1 h.symm, by rw [Nat.min_comm, Nat.max_comm]; exact h2⟩
  | [], [], _ => by simp [offsetsBad]
  | [], _ :: _, _ => by simp [offsetsBad]
  | _ :: _, [], _ => by simp [offsetsBad]
  | _ :: _, _ :: _, [] => by simp [offsetsBad]

/-- one axis: an admissible configuration is accepted in the adjoint direction (`pad_const = 0`) -/
theorem check_adj_of_adm (mode : Mode) (n m off : Nat) (h : Admissible mode n m off) :
    check mode .adjoint m n off (0 : K) = none := by
  revert h
  cases mode <;>
    simp only [check, paddingGuards, OdlModel.Gen.PadSlices.guards, Admissible, PadOK,
      reduceCtorEq, false_and, true_and, and_false, ne_eq, not_true_eq_false, ↓reduceIte,
      gt_iff_lt, ge_iff_le] <;>
    intro h <;> split_ifs <;> first | rfl | omega

theorem checkAxes_adj_of_adm (mode : Mode) : ∀ (sIn sOut offs : List Nat),
    AdmissibleND mode sIn sOut offs → checkAxes mode .adjoint (0 : K) sOut sIn offs = none
  | [], [], [], _ => by simp [checkAxes]
  | n :: sIn, m :: sOut, off :: offs, h => by
    simp only [checkAxes]
    rw [check_adj_of_adm mode n m off h.1]
    exact checkAxes_adj_of_adm mode sIn sOut offs h.2
  | [], [], _ :: _, h => by simp [AdmissibleND] at h
  | [], _ :: _, _, h => by simp [AdmissibleND] at h
  | _ :: _, [], _, h => by simp [AdmissibleND] at h
  | _ :: _, _ :: _, [], h => by simp [AdmissibleND] at h

end

/-! ### `np.around` / `np.isclose` on rationals -/

theorem ratAbs_eq (q : Rat) : ratAbs q = |q| := by
  unfold ratAbs; split_ifs with h
  · exact (abs_of_neg h).symm
  · exact (abs_of_nonneg (not_lt.1 h)).symm

theorem roundHalfEven_int (z : Int) : roundHalfEven (z : Rat) = z := by
  simp [roundHalfEven, Rat.floor_intCast]

/-- `np.around` returns a nearest integer -/
theorem roundHalfEven_near (q : Rat) : |q - (roundHalfEven q : Rat)| ≤ 1 / 2 := by
  have h1 : ((Rat.floor q : Int) : Rat) ≤ q := Int.floor_le q
  have h2 : q < ((Rat.floor q : Int) : Rat) + 1 := Int.lt_floor_add_one q
  rw [abs_le]
  unfold roundHalfEven
  simp only
  split_ifs <;> push_cast <;> constructor <;> linarith

/-- … and THE nearest integer when one is closer than half a cell -/
theorem roundHalfEven_eq_of_near (q : Rat) (z : Int) (h : |q - z| < 1 / 2) :
    roundHalfEven q = z := by
  have h1 := roundHalfEven_near q
  rw [abs_le] at h1
  rw [abs_lt] at h
  have h2 : ((roundHalfEven q - z : Int) : Rat) < 1 := by push_cast; linarith
  have h3 : (-1 : Rat) < ((roundHalfEven q - z : Int) : Rat) := by push_cast; linarith
  have h2' : roundHalfEven q - z < 1 := by exact_mod_cast h2
  have h3' : -1 < roundHalfEven q - z := by exact_mod_cast h3
  omega

theorem isClose_iff (rtol atol a b : Rat) :
    isClose rtol atol a b = true ↔ |a - b| ≤ atol + rtol * |b| := by
  simp [isClose, ratAbs_eq]

/-! ### `apply_on_boundary` / `_scale_bdry_cells` -/
section bdry
variable {K : Type} [CommRing K]

theorem aob_interior (once : Bool) (shape : List Nat) :
    ∀ (steps : List (BStep K)) (st : Nat → Bool × Bool) (A : List Nat → K) (idx : List Nat),
      (∀ s ∈ steps, idx.getD s.ax 0 ≠ 0 ∧ idx.getD s.ax 0 + 1 ≠ shape.getD s.ax 0) →
      applyOnBoundary once shape st steps A idx = A idx
  | [], st, A, idx, _ => rfl
  | s :: rest, st, A, idx, h => by
    simp only [applyOnBoundary]
    rw [aob_interior once shape rest _ _ idx (fun t ht => h t (List.mem_cons_of_mem _ ht))]
    have hs := h s (List.mem_cons_self ..)
    simp only [bStep]
    cases s.fl <;> cases s.fr <;> simp only [] <;>
      (try rw [if_neg (fun hh : idx.getD s.ax 0 + 1 = shape.getD s.ax 0 ∧ _ => hs.2 hh.1)]) <;>
      (try rw [if_neg (fun hh : idx.getD s.ax 0 = 0 ∧ _ => hs.1 hh.1)])

theorem bStep_scale (shape : List Nat) (st : Nat → Bool × Bool) (ax : Nat) (l r : K)
    (A : List Nat → K) (idx : List Nat) :
    bStep false shape st ⟨ax, some (l, 0), some (r, 0)⟩ A idx =
      A idx * bdryFrac 1 (shape.getD ax 0) l r (idx.getD ax 0) := by
  simp only [bStep, bdryFrac, affApply, Bool.not_false, Bool.true_or, and_true, add_zero]
  split_ifs <;> ring

theorem aob_scale (shape : List Nat) :
    ∀ (fracs : List (K × K)) (ax : Nat) (st : Nat → Bool × Bool) (A : List Nat → K)
      (idx : List Nat), fracs.length = (shape.drop ax).length →
      applyOnBoundary false shape st (scaleSteps ax fracs) A idx =
        A idx * bdryFracProd 1 ax (shape.drop ax) fracs idx
  | [], ax, st, A, idx, h => by
    have : shape.drop ax = [] := List.length_eq_zero_iff.1 h.symm
    simp [scaleSteps, applyOnBoundary, bdryFracProd, this]
  | (l, r) :: rest, ax, st, A, idx, h => by
    have hlt : ax < shape.length := by
      simp only [List.length_cons, List.length_drop] at h; omega
    have hd : shape.drop ax = shape[ax] :: shape.drop (ax + 1) := List.drop_eq_getElem_cons hlt
    have hg : shape.getD ax 0 = shape[ax] := by simp [List.getD_eq_getElem?_getD, hlt]
    simp only [scaleSteps, applyOnBoundary]
    rw [aob_scale shape rest (ax + 1) _ _ idx
      (by simp only [List.length_cons, List.length_drop] at h ⊢; omega), bStep_scale, hd]
    simp only [bdryFracProd, hg]
    ring

end bdry

end OdlModel.C16
