/-
Helper lemmas for C20: every `__eq__` of the model is, on the inputs where it is well
behaved, equality of a canonical key (`…key`), from which reflexivity, symmetry and
transitivity follow at once.
-/
import OdlModel.Model.Spaces

namespace OdlModel.Spaces

theorem Fl.numEq_iff (a b : Fl) : a.numEq b = true ↔ a.canon = b.canon := by
  simp [Fl.numEq]

theorem flAllEq_iff : ∀ (a b : List Fl), a.length = b.length →
    (flAllEq a b = true ↔ a.map Fl.canon = b.map Fl.canon)
  | [], [], _ => by simp [flAllEq]
  | [], _ :: _, h => by simp at h
  | _ :: _, [], h => by simp at h
  | x :: a, y :: b, h => by
      have ih := flAllEq_iff a b (by simpa using h)
      simp [flAllEq, Fl.numEq_iff, ih]

theorem arrayEqual_iff (a b : List Fl) :
    arrayEqual a b = true ↔ a.map Fl.canon = b.map Fl.canon := by
  unfold arrayEqual
  constructor
  · intro h
    simp only [Bool.and_eq_true, decide_eq_true_eq] at h
    exact (flAllEq_iff a b h.1).1 h.2
  · intro h
    have hl : a.length = b.length := by simpa using congrArg List.length h
    simp [hl, (flAllEq_iff a b hl).2 h]

theorem vecsAllEq_iff : ∀ (a b : List (List Fl)), a.length = b.length →
    (vecsAllEq a b = true ↔ a.map (List.map Fl.canon) = b.map (List.map Fl.canon))
  | [], [], _ => by simp [vecsAllEq]
  | [], _ :: _, h => by simp at h
  | _ :: _, [], h => by simp at h
  | x :: a, y :: b, h => by
      have ih := vecsAllEq_iff a b (by simpa using h)
      simp [vecsAllEq, arrayEqual_iff, ih]

theorem npAllEq_same {a b : List Fl} (h : a.length = b.length) :
    npAllEq a b = some (flAllEq a b) := by
  simp [npAllEq, h]

/-! ### weightings -/

/-- canonical key of a weighting: class family forgotten, floats as seen by `==` -/
def Weighting.key : Weighting → Weighting
  | .const _ c e => .const .np c.canon e.canon
  | .array _ i e => .array .np i e.canon
  | .inner _ f => .inner .np f
  | .norm _ f => .norm .np f
  | .dist _ f => .dist .np f

theorem Weighting.eqI_iff (a b : Weighting) : a.eqI b = true ↔ a.key = b.key := by
  cases a <;> cases b <;>
    simp [Weighting.eqI, Weighting.baseEq, Weighting.exponent, Weighting.key, Fl.numEq_iff] <;>
    grind

/-! ### interval products, grids, partitions -/

def IntervalProd.key (a : IntervalProd) : List Fl × List Fl :=
  (a.lo.map Fl.canon, a.hi.map Fl.canon)

def IntervalProd.wf (a : IntervalProd) : Prop := a.lo.length = a.hi.length

theorem IntervalProd.eqO_same {a b : IntervalProd} (ha : a.wf) (hb : b.wf)
    (h : a.ndim = b.ndim) : a.eqO b = some (flAllEq a.lo b.lo && flAllEq a.hi b.hi) := by
  have h1 : a.lo.length = b.lo.length := h
  have h2 : a.hi.length = b.hi.length := by rw [← ha, ← hb]; exact h
  unfold IntervalProd.eqO
  rw [npAllEq_same h1, npAllEq_same h2]
  cases flAllEq a.lo b.lo <;> simp

theorem IntervalProd.eqO_iff {a b : IntervalProd} (ha : a.wf) (hb : b.wf)
    (h : a.ndim = b.ndim) : a.eqO b = some true ↔ a.key = b.key := by
  have h1 : a.lo.length = b.lo.length := h
  have h2 : a.hi.length = b.hi.length := by rw [← ha, ← hb]; exact h
  rw [IntervalProd.eqO_same ha hb h]
  simp [IntervalProd.key, flAllEq_iff _ _ h1, flAllEq_iff _ _ h2]

theorem IntervalProd.hk_of_key {a b : IntervalProd} (h : a.key = b.key) : a.hk = b.hk := by
  have e : ∀ l : List Fl, l.map hkFloat = (l.map Fl.canon).map (fun f => [HTok.fl f]) := by
    intro l; simp [hkFloat]
  simp only [IntervalProd.key, Prod.mk.injEq] at h
  simp [IntervalProd.hk, e, h.1, h.2]

def Grid.key (g : Grid) : List (List Fl) := g.vecs.map (List.map Fl.canon)

theorem Grid.eqI_iff (a b : Grid) : a.eqI b = true ↔ a.key = b.key := by
  unfold Grid.eqI Grid.key
  constructor
  · intro h
    simp only [Bool.and_eq_true, decide_eq_true_eq] at h
    have hl : a.vecs.length = b.vecs.length := by
      simpa [Grid.shape] using congrArg List.length h.1
    exact (vecsAllEq_iff _ _ hl).1 h.2
  · intro h
    have hl : a.vecs.length = b.vecs.length := by simpa using congrArg List.length h
    have hs : a.shape = b.shape := by
      have := congrArg (List.map List.length) h
      simpa [Grid.shape, List.map_map, Function.comp_def] using this
    simp [hs, (vecsAllEq_iff _ _ hl).2 h]

/-- no coordinate is `-0.0` -/
def Grid.noNegZero (g : Grid) : Prop := ∀ v ∈ g.vecs, ∀ x ∈ v, x ≠ Fl.negZero

theorem Fl.canon_of_ne {x : Fl} (h : x ≠ Fl.negZero) : x.canon = x := by
  cases x <;> simp_all [Fl.canon]

theorem Grid.key_eq_vecs {g : Grid} (h : g.noNegZero) : g.key = g.vecs := by
  unfold Grid.key
  conv => rhs; rw [← List.map_id g.vecs]
  apply List.map_congr_left
  intro v hv
  conv => rhs; rw [id, ← List.map_id v]
  apply List.map_congr_left
  intro x hx
  exact Fl.canon_of_ne (h v hv x hx)

def Partition.wf (p : Partition) : Prop := p.set.wf ∧ p.set.ndim = p.grid.vecs.length

def Partition.key (p : Partition) : (List Fl × List Fl) × List (List Fl) := (p.set.key, p.grid.key)

theorem Partition.eqO_iff {a b : Partition} (ha : a.wf) (hb : b.wf)
    (h : a.set.ndim = b.set.ndim) : a.eqO b = some true ↔ a.key = b.key := by
  unfold Partition.eqO
  have := IntervalProd.eqO_iff ha.1 hb.1 h
  rw [IntervalProd.eqO_same ha.1 hb.1 h] at this ⊢
  cases hc : (flAllEq a.set.lo b.set.lo && flAllEq a.set.hi b.set.hi)
  · simp [hc] at this ⊢
    simp [Partition.key, this]
  · simp [hc] at this ⊢
    simp [Partition.key, this, Grid.eqI_iff]

/-! ### spaces -/

def TSpace.key (t : TSpace) : List Nat × DType × Weighting := (t.shape, t.dtype, t.w.key)

theorem TSpace.eqI_iff (a b : TSpace) : a.eqI b = true ↔ a.key = b.key := by
  simp [TSpace.eqI, TSpace.key, Weighting.eqI_iff, and_assoc]

theorem Discr.part_wf (d : Discr) : d.part.wf := by
  simp [Partition.wf, IntervalProd.wf, Discr.part, IntervalProd.ndim]

theorem Discr.ndim_of_shape {a b : Discr} (h : a.shape = b.shape) :
    a.part.set.ndim = b.part.set.ndim := by
  have := congrArg List.length h
  simpa [Discr.shape, Discr.part, IntervalProd.ndim] using this

/-- Once the shapes agree, the partition comparison inside `DiscretizedSpace.__eq__` cannot
raise (the `none` outcome of `Partition.eqO` is unreachable). -/
theorem Discr.part_eq_total {a b : Discr} (h : a.shape = b.shape) :
    (Partition.eqO b.part a.part).isSome = true := by
  have hn := (Discr.ndim_of_shape h).symm
  unfold Partition.eqO
  rw [IntervalProd.eqO_same b.part_wf.1 a.part_wf.1 hn]
  cases (flAllEq b.part.set.lo a.part.set.lo && flAllEq b.part.set.hi a.part.set.hi) <;> simp

def Discr.key (d : Discr) :=
  (d.shape, d.dtype, d.w.key, d.part.key)

theorem Discr.eqI_iff (a b : Discr) : a.eqI b = true ↔ a.key = b.key := by
  unfold Discr.eqI Discr.key
  constructor
  · intro h
    simp only [Bool.and_eq_true, decide_eq_true_eq, beq_iff_eq] at h
    obtain ⟨⟨⟨hs, hd⟩, ht⟩, hp⟩ := h
    have hn := (Discr.ndim_of_shape hs).symm
    have hk := (Partition.eqO_iff b.part_wf a.part_wf hn).1 hp
    have hw := ((TSpace.eqI_iff _ _).1 ht)
    simp only [TSpace.key, Discr.tspace, Prod.mk.injEq] at hw
    simp [hs, hd, hk, hw.2.2]
  · intro h
    simp only [Prod.mk.injEq] at h
    obtain ⟨hs, hd, hw, hp⟩ := h
    have hn := (Discr.ndim_of_shape hs).symm
    have hk := (Partition.eqO_iff b.part_wf a.part_wf hn).2 hp.symm
    have ht : b.tspace.eqI a.tspace = true := by
      rw [TSpace.eqI_iff]; simp [TSpace.key, Discr.tspace, hs, hd, hw]
    simp [hs, hd, ht, hk]

inductive SKey
  | tensor (k : List Nat × DType × Weighting)
  | discr (k : List Nat × DType × Weighting × (List Fl × List Fl) × List (List Fl))
  | prod (parts : List SKey) (w : Weighting)

mutual
def Space.key : Space → SKey
  | .tensor t => .tensor t.key
  | .discr d => .discr d.key
  | .prod l w _ => .prod (Space.keyL l) w.key
def Space.keyL : List Space → List SKey
  | [] => []
  | a :: l => a.key :: Space.keyL l
end

theorem Space.keyL_length : ∀ l : List Space, (Space.keyL l).length = l.length
  | [] => by simp [Space.keyL]
  | _ :: l => by simp [Space.keyL, Space.keyL_length l]

mutual
theorem Space.eqI_iff : (a b : Space) → (a.eqI b = true ↔ a.key = b.key)
  | .tensor a, .tensor b => by simp [Space.eqI, Space.key, TSpace.eqI_iff]
  | .discr a, .discr b => by simp [Space.eqI, Space.key, Discr.eqI_iff]
  | .prod l w _, .prod l' w' _ => by
      simp only [Space.eqI, Space.key, Bool.and_eq_true, decide_eq_true_eq, SKey.prod.injEq,
        Weighting.eqI_iff]
      constructor
      · rintro ⟨⟨hl, hw⟩, he⟩
        exact ⟨(Space.eqL_iff l l' hl).1 he, hw⟩
      · rintro ⟨hk, hw⟩
        have hl : l.length = l'.length := by
          rw [← Space.keyL_length l, ← Space.keyL_length l', hk]
        exact ⟨⟨hl, hw⟩, (Space.eqL_iff l l' hl).2 hk⟩
  | .tensor _, .discr _ | .tensor _, .prod .. | .discr _, .tensor _ | .discr _, .prod ..
  | .prod .., .tensor _ | .prod .., .discr _ => by simp [Space.eqI, Space.key]
theorem Space.eqL_iff : (l l' : List Space) → l.length = l'.length →
    (Space.eqL l l' = true ↔ Space.keyL l = Space.keyL l')
  | [], [], _ => by simp [Space.eqL, Space.keyL]
  | [], _ :: _, h => by simp at h
  | _ :: _, [], h => by simp at h
  | a :: l, b :: l', h => by
      have ih := Space.eqL_iff l l' (by simpa using h)
      simp [Space.eqL, Space.keyL, Space.eqI_iff a b, ih]
end

/-! ### hashes of spaces -/

theorem Fl.canon_canon (x : Fl) : x.canon.canon = x.canon := by
  cases x <;> simp [Fl.canon]

theorem Weighting.hk_of_key (heap : Nat → String) {a b : Weighting} (h : a.key = b.key)
    (hc : a.cls = b.cls) : a.hk heap = b.hk heap := by
  cases a <;> cases b <;> simp_all [Weighting.key, Weighting.cls, Weighting.hk, hkFloat,
    Weighting.baseHk]
  next c1 a1 e1 c2 a2 e2 => cases c2 <;> simp [h]

theorem TSpace.hk_of_key (heap : Nat → String) {a b : TSpace} (h : a.key = b.key)
    (hc : a.w.cls = b.w.cls) : a.hk heap = b.hk heap := by
  simp only [TSpace.key, Prod.mk.injEq] at h
  simp [TSpace.hk, h.1, h.2.1, Weighting.hk_of_key heap h.2.2 hc]

theorem Grid.hk_of_key {a b : Grid} (h : a.key = b.key) (ha : a.noNegZero) (hb : b.noNegZero) :
    a.hk = b.hk := by
  rw [Grid.key_eq_vecs ha, Grid.key_eq_vecs hb] at h
  simp [Grid.hk, h]

theorem Partition.hk_of_key {a b : Partition} (h : a.key = b.key) (ha : a.grid.noNegZero)
    (hb : b.grid.noNegZero) : a.hk = b.hk := by
  simp only [Partition.key, Prod.mk.injEq] at h
  simp [Partition.hk, IntervalProd.hk_of_key h.1, Grid.hk_of_key h.2 ha hb]

theorem Discr.hk_of_key (heap : Nat → String) {a b : Discr} (h : a.key = b.key)
    (hc : a.w.cls = b.w.cls) (ha : a.part.grid.noNegZero) (hb : b.part.grid.noNegZero) :
    a.hk heap = b.hk heap := by
  simp only [Discr.key, Prod.mk.injEq] at h
  obtain ⟨hs, hd, hw, hp⟩ := h
  have ht : a.tspace.hk heap = b.tspace.hk heap :=
    TSpace.hk_of_key heap (by simp [TSpace.key, Discr.tspace, hs, hd, hw]) hc
  have hpk : a.part.hk = b.part.hk := Partition.hk_of_key hp ha hb
  simp [Discr.hk, hs, hd, ht, hpk]

mutual
/-- Weighting classes are the native ones of the space class (tensor / discretized spaces
hold `NumpyTensorSpace…` weightings, product spaces `ProductSpace…` weightings) and no grid
coordinate is `-0.0`. -/
def Space.wfH : Space → Prop
  | .tensor t => t.w.cls = .np
  | .discr d => d.w.cls = .np ∧ d.part.grid.noNegZero
  | .prod l w _ => w.cls = .ps ∧ Space.wfHL l
def Space.wfHL : List Space → Prop
  | [] => True
  | a :: l => a.wfH ∧ Space.wfHL l
end

mutual
theorem Space.hk_of_key (heap : Nat → String) : (a b : Space) → a.key = b.key → a.wfH → b.wfH →
    a.hk heap = b.hk heap
  | .tensor a, .tensor b, h, ha, hb => by
      simp only [Space.key, SKey.tensor.injEq] at h
      simp only [Space.wfH] at ha hb
      simp [Space.hk, TSpace.hk_of_key heap h (by rw [ha, hb])]
  | .discr a, .discr b, h, ha, hb => by
      simp only [Space.key, SKey.discr.injEq] at h
      simp only [Space.wfH] at ha hb
      simp [Space.hk, Discr.hk_of_key heap h (by rw [ha.1, hb.1]) ha.2 hb.2]
  | .prod l w _, .prod l' w' _, h, ha, hb => by
      simp only [Space.key, SKey.prod.injEq] at h
      simp only [Space.wfH] at ha hb
      simp [Space.hk, Space.hkL_of_key heap l l' h.1 ha.2 hb.2,
        Weighting.hk_of_key heap h.2 (by rw [ha.1, hb.1])]
  | .tensor _, .discr _, h, _, _ | .tensor _, .prod .., h, _, _ | .discr _, .tensor _, h, _, _
  | .discr _, .prod .., h, _, _ | .prod .., .tensor _, h, _, _ | .prod .., .discr _, h, _, _ => by
      simp [Space.key] at h
theorem Space.hkL_of_key (heap : Nat → String) : (l l' : List Space) →
    Space.keyL l = Space.keyL l' → Space.wfHL l → Space.wfHL l' →
    Space.hkL heap l = Space.hkL heap l'
  | [], [], _, _, _ => rfl
  | [], _ :: _, h, _, _ => by simp [Space.keyL] at h
  | _ :: _, [], h, _, _ => by simp [Space.keyL] at h
  | a :: l, b :: l', h, ha, hb => by
      simp only [Space.keyL, List.cons.injEq] at h
      simp only [Space.wfHL] at ha hb
      simp [Space.hkL, Space.hk_of_key heap a b h.1 ha.1 hb.1,
        Space.hkL_of_key heap l l' h.2 ha.2 hb.2]
end

/-! ### composite sets over members whose `==` is total -/

section composite
variable {α κ : Type} (e : α → α → Option Bool) (r : α → α → Bool) (k : α → κ) (P : α → Prop)

theorem anyO_total (p : α → Option Bool) (q : α → Bool) :
    ∀ l : List α, (∀ x ∈ l, p x = some (q x)) → anyO p l = some (l.any q)
  | [], _ => by simp [anyO]
  | x :: l, h => by
      have hx := h x (by simp)
      have ih := anyO_total p q l (fun y hy => h y (by simp [hy]))
      simp only [anyO, hx, List.any_cons]
      cases q x <;> simp [ih]

theorem allO_total (p : α → Option Bool) (q : α → Bool) :
    ∀ l : List α, (∀ x ∈ l, p x = some (q x)) → allO p l = some (l.all q)
  | [], _ => by simp [allO]
  | x :: l, h => by
      have hx := h x (by simp)
      have ih := allO_total p q l (fun y hy => h y (by simp [hy]))
      simp only [allO, hx, List.all_cons]
      cases q x <;> simp [ih]

/-- Bool version of `mutualInclO` -/
def mutualInclB (a b : List α) : Bool :=
  a.all (fun s => b.any (fun item => r item s)) && b.all (fun s => a.any (fun item => r item s))

theorem mutualInclO_total (hr : ∀ x y, P x → P y → e x y = some (r x y)) (a b : List α)
    (ha : ∀ x ∈ a, P x) (hb : ∀ x ∈ b, P x) :
    mutualInclO e a b = some (mutualInclB r a b) := by
  have h1 : allO (fun s => memO e s b) a = some (a.all (fun s => b.any (fun item => r item s))) := by
    apply allO_total
    intro s hs
    exact anyO_total _ _ b (fun item hi => hr item s (hb item hi) (ha s hs))
  have h2 : allO (fun s => memO e s a) b = some (b.all (fun s => a.any (fun item => r item s))) := by
    apply allO_total
    intro s hs
    exact anyO_total _ _ a (fun item hi => hr item s (ha item hi) (hb s hs))
  unfold mutualInclO mutualInclB
  rw [h1, h2]
  cases (a.all fun s => b.any fun item => r item s) <;> simp

theorem mutualInclB_iff (hk : ∀ x y, P x → P y → (r x y = true ↔ k x = k y)) (a b : List α)
    (ha : ∀ x ∈ a, P x) (hb : ∀ x ∈ b, P x) :
    mutualInclB r a b = true ↔ ∀ z, z ∈ a.map k ↔ z ∈ b.map k := by
  simp only [mutualInclB, Bool.and_eq_true, List.all_eq_true, List.any_eq_true, List.mem_map]
  constructor
  · rintro ⟨h1, h2⟩ z
    constructor
    · rintro ⟨s, hs, rfl⟩
      obtain ⟨t, ht, hrt⟩ := h1 s hs
      exact ⟨t, ht, (hk t s (hb t ht) (ha s hs)).1 hrt⟩
    · rintro ⟨s, hs, rfl⟩
      obtain ⟨t, ht, hrt⟩ := h2 s hs
      exact ⟨t, ht, (hk t s (ha t ht) (hb s hs)).1 hrt⟩
  · intro h
    constructor
    · intro s hs
      obtain ⟨t, ht, hkt⟩ := (h (k s)).1 ⟨s, hs, rfl⟩
      exact ⟨t, ht, (hk t s (hb t ht) (ha s hs)).2 hkt⟩
    · intro s hs
      obtain ⟨t, ht, hkt⟩ := (h (k s)).2 ⟨s, hs, rfl⟩
      exact ⟨t, ht, (hk t s (ha t ht) (hb s hs)).2 hkt⟩

theorem tupleEqO_iff (hr : ∀ x y, P x → P y → e x y = some (r x y))
    (hk : ∀ x y, P x → P y → (r x y = true ↔ k x = k y)) :
    ∀ (a b : List α), (∀ x ∈ a, P x) → (∀ x ∈ b, P x) →
      ((tupleEqO e a b).isSome = true ∧ (tupleEqO e a b = some true ↔ a.map k = b.map k))
  | [], [], _, _ => by simp [tupleEqO]
  | [], _ :: _, _, _ => by simp [tupleEqO]
  | _ :: _, [], _, _ => by simp [tupleEqO]
  | x :: a, y :: b, ha, hb => by
      have hx := ha x (by simp)
      have hy := hb y (by simp)
      have ih := tupleEqO_iff hr hk a b (fun z hz => ha z (by simp [hz]))
        (fun z hz => hb z (by simp [hz]))
      have hxy := hk x y hx hy
      simp only [tupleEqO, hr x y hx hy, List.map_cons, List.cons.injEq]
      cases hc : r x y
      · simp [hc] at hxy ⊢
        exact fun h => absurd h hxy
      · simp [hc] at hxy ⊢
        simp [ih.1, ih.2, hxy]

end composite

/-! ### non-composite sets whose `==` cannot raise -/

inductive LKey
  | emptySet | universalSet | strings (n : Nat) | complexNumbers | realNumbers | integers
  | grid (k : List (List Fl)) | space (k : SKey) | other

def Leaf.key : Leaf → LKey
  | .emptySet => .emptySet | .universalSet => .universalSet | .strings n => .strings n
  | .complexNumbers => .complexNumbers | .realNumbers => .realNumbers | .integers => .integers
  | .grid g => .grid g.key | .space s => .space s.key
  | _ => .other

/-- members other than interval products (finding C20-F1) and finite sets -/
def Leaf.simple : Leaf → Prop
  | .interval _ => False
  | .finite _ => False
  | _ => True

def Leaf.eqB (a b : Leaf) : Bool := (a.eqO b).getD false

theorem Leaf.eqO_simple (a b : Leaf) (ha : a.simple) (hb : b.simple) :
    a.eqO b = some (a.eqB b) := by
  cases a <;> cases b <;> simp_all [Leaf.simple, Leaf.eqB, Leaf.eqO]

theorem Leaf.eqB_iff (a b : Leaf) (ha : a.simple) (hb : b.simple) :
    a.eqB b = true ↔ a.key = b.key := by
  cases a <;> cases b <;>
    simp_all [Leaf.simple, Leaf.eqB, Leaf.eqO, Leaf.key, Grid.eqI_iff, Space.eqI_iff] <;>
    exact eq_comm

end OdlModel.Spaces
