/-
Helper lemmas for C20: every `__eq__` of the model is, on the inputs where it is well
behaved, equality of a canonical key (`…key`), from which reflexivity, symmetry and
transitivity follow at once.
-/
import OdlModel.Model.Spaces

namespace OdlModel.Spaces

theorem Fl.numEq_iff (a b : Fl) : a.numEq b = true ↔ a.canon = b.canon := by
  simp [Fl.numEq]

theorem flAllEq_iff : ∀ (a b : List Fl), a.length = b.length →
    (flAllEq a b = true ↔ a.map Fl.canon = b.map Fl.canon)
  | [], [], _ => by simp [flAllEq]
  | [], _ :: _, h => by simp at h
  | _ :: _, [], h => by simp at h
  | x :: a, y :: b, h => by
      have ih := flAllEq_iff a b (by simpa using h)
      simp [flAllEq, Fl.numEq_iff, ih]

theorem arrayEqual_iff (a b : List Fl) :
    arrayEqual a b = true ↔ a.map Fl.canon = b.map Fl.canon := by
  unfold arrayEqual
  constructor
  · intro h
    simp only [Bool.and_eq_true, decide_eq_true_eq] at h
    exact (flAllEq_iff a b h.1).1 h.2
  · intro h
    have hl : a.length = b.length := by simpa using congrArg List.length h
    simp [hl, (flAllEq_iff a b hl).2 h]

theorem vecsAllEq_iff : ∀ (a b : List (List Fl)), a.length = b.length →
    (vecsAllEq a b = true ↔ a.map (List.map Fl.canon) = b.map (List.map Fl.canon))
  | [], [], _ => by simp [vecsAllEq]
  | [], _ :: _, h => by simp at h
  | _ :: _, [], h => by simp at h
  | x :: a, y :: b, h => by
      have ih := vecsAllEq_iff a b (by simpa using h)
      simp [vecsAllEq, arrayEqual_iff, ih]

theorem npAllEq_same {a b : List Fl} (h : a.length = b.length) :
    npAllEq a b = some (flAllEq a b) := by
  simp [npAllEq, h]

/-! ### weightings -/

/-- canonical key of a weighting: floats as seen by `==` -/
def Weighting.key : Weighting → Weighting
  | .const k c e => .const k c.canon e.canon
  | .array k i e => .array k i e.canon
  | .inner k f => .inner k f
  | .norm k f => .norm k f
  | .dist k f => .dist k f

theorem Weighting.eqI_iff (a b : Weighting) : a.eqI b = true ↔ a.key = b.key := by
  cases a <;> cases b <;>
    simp [Weighting.eqI, Weighting.baseEq, Weighting.exponent, Weighting.key, Weighting.cls,
      Fl.numEq_iff] <;>
    grind

/-! ### interval products, grids, partitions -/

def IntervalProd.key (a : IntervalProd) : List Fl × List Fl :=
  (a.lo.map Fl.canon, a.hi.map Fl.canon)

def IntervalProd.wf (a : IntervalProd) : Prop := a.lo.length = a.hi.length

theorem IntervalProd.eqOld_same {a b : IntervalProd} (ha : a.wf) (hb : b.wf)
    (h : a.ndim = b.ndim) : a.eqOld b = some (flAllEq a.lo b.lo && flAllEq a.hi b.hi) := by
  have h1 : a.lo.length = b.lo.length := h
  have h2 : a.hi.length = b.hi.length := by rw [← ha, ← hb]; exact h
  unfold IntervalProd.eqOld
  rw [npAllEq_same h1, npAllEq_same h2]
  cases flAllEq a.lo b.lo <;> simp

theorem IntervalProd.eqO_same {a b : IntervalProd} (ha : a.wf) (hb : b.wf)
    (h : a.ndim = b.ndim) : a.eqO b = some (flAllEq a.lo b.lo && flAllEq a.hi b.hi) := by
  unfold IntervalProd.eqO
  rw [if_pos h, IntervalProd.eqOld_same ha hb h]

/-- with the `ndim` guard the comparison never raises (on well-formed interval products) -/
theorem IntervalProd.eqO_total {a b : IntervalProd} (ha : a.wf) (hb : b.wf) :
    (a.eqO b).isSome = true := by
  by_cases h : a.ndim = b.ndim
  · rw [IntervalProd.eqO_same ha hb h]; rfl
  · simp [IntervalProd.eqO, h]

theorem IntervalProd.eqO_iff {a b : IntervalProd} (ha : a.wf) (hb : b.wf) :
    a.eqO b = some true ↔ a.key = b.key := by
  by_cases h : a.ndim = b.ndim
  · have h1 : a.lo.length = b.lo.length := h
    have h2 : a.hi.length = b.hi.length := by rw [← ha, ← hb]; exact h
    rw [IntervalProd.eqO_same ha hb h]
    simp [IntervalProd.key, flAllEq_iff _ _ h1, flAllEq_iff _ _ h2]
  · simp only [IntervalProd.eqO, h, if_false, Option.some.injEq, Bool.false_eq_true, false_iff]
    intro hk
    apply h
    have := congrArg (fun p => p.1.length) hk
    simpa [IntervalProd.key, IntervalProd.ndim] using this

theorem IntervalProd.hk_of_key {a b : IntervalProd} (h : a.key = b.key) : a.hk = b.hk := by
  have e : ∀ l : List Fl, l.map hkFloat = (l.map Fl.canon).map (fun f => [HTok.fl f]) := by
    intro l; simp [hkFloat]
  simp only [IntervalProd.key, Prod.mk.injEq] at h
  simp [IntervalProd.hk, e, h.1, h.2]

def Grid.key (g : Grid) : List (List Fl) := g.vecs.map (List.map Fl.canon)

theorem Grid.eqI_iff (a b : Grid) : a.eqI b = true ↔ a.key = b.key := by
  unfold Grid.eqI Grid.key
  constructor
  · intro h
    simp only [Bool.and_eq_true, decide_eq_true_eq] at h
    have hl : a.vecs.length = b.vecs.length := by
      simpa [Grid.shape] using congrArg List.length h.1
    exact (vecsAllEq_iff _ _ hl).1 h.2
  · intro h
    have hl : a.vecs.length = b.vecs.length := by simpa using congrArg List.length h
    have hs : a.shape = b.shape := by
      have := congrArg (List.map List.length) h
      simpa [Grid.shape, List.map_map, Function.comp_def] using this
    simp [hs, (vecsAllEq_iff _ _ hl).2 h]

theorem Grid.hk_of_key {a b : Grid} (h : a.key = b.key) : a.hk = b.hk := by
  have e : ∀ g : Grid, (g.vecs.map fun v => hkBytes (v.map Fl.canon)) = g.key.map hkBytes := by
    intro g; simp [Grid.key, List.map_map, Function.comp_def]
  simp [Grid.hk, e, h]

def Partition.wf (p : Partition) : Prop := p.set.wf ∧ p.set.ndim = p.grid.vecs.length

def Partition.key (p : Partition) : (List Fl × List Fl) × List (List Fl) := (p.set.key, p.grid.key)

theorem Partition.eqO_total {a b : Partition} (ha : a.wf) (hb : b.wf) :
    (a.eqO b).isSome = true := by
  unfold Partition.eqO
  have := IntervalProd.eqO_total ha.1 hb.1
  cases h : a.set.eqO b.set with
  | none => simp [h] at this
  | some r => cases r <;> simp

theorem Partition.eqO_iff {a b : Partition} (ha : a.wf) (hb : b.wf) :
    a.eqO b = some true ↔ a.key = b.key := by
  unfold Partition.eqO
  have hi := IntervalProd.eqO_iff ha.1 hb.1
  have ht := IntervalProd.eqO_total ha.1 hb.1
  cases h : a.set.eqO b.set with
  | none => simp [h] at ht
  | some r =>
    cases r
    · simp [h] at hi ⊢
      simp [Partition.key, hi]
    · simp [h] at hi ⊢
      simp [Partition.key, hi, Grid.eqI_iff]

/-! ### spaces -/

def TSpace.key (t : TSpace) : List Nat × DType × Weighting := (t.shape, t.dtype, t.w.key)

theorem TSpace.eqI_iff (a b : TSpace) : a.eqI b = true ↔ a.key = b.key := by
  simp [TSpace.eqI, TSpace.key, Weighting.eqI_iff, and_assoc]

theorem Discr.part_wf (d : Discr) : d.part.wf := by
  simp [Partition.wf, IntervalProd.wf, Discr.part, IntervalProd.ndim]

theorem Discr.ndim_of_shape {a b : Discr} (h : a.shape = b.shape) :
    a.part.set.ndim = b.part.set.ndim := by
  have := congrArg List.length h
  simpa [Discr.shape, Discr.part, IntervalProd.ndim] using this

/-- The partition comparison inside `DiscretizedSpace.__eq__` cannot raise (the `none`
outcome of `Partition.eqO` is unreachable). -/
theorem Discr.part_eq_total (a b : Discr) :
    (Partition.eqO b.part a.part).isSome = true :=
  Partition.eqO_total b.part_wf a.part_wf

def Discr.key (d : Discr) :=
  (d.shape, d.dtype, d.w.key, d.part.key)

theorem Discr.eqI_iff (a b : Discr) : a.eqI b = true ↔ a.key = b.key := by
  unfold Discr.eqI Discr.key
  constructor
  · intro h
    simp only [Bool.and_eq_true, decide_eq_true_eq, beq_iff_eq] at h
    obtain ⟨⟨⟨hs, hd⟩, ht⟩, hp⟩ := h
    have hk := (Partition.eqO_iff b.part_wf a.part_wf).1 hp
    have hw := ((TSpace.eqI_iff _ _).1 ht)
    simp only [TSpace.key, Discr.tspace, Prod.mk.injEq] at hw
    simp [hs, hd, hk, hw.2.2]
  · intro h
    simp only [Prod.mk.injEq] at h
    obtain ⟨hs, hd, hw, hp⟩ := h
    have hk := (Partition.eqO_iff b.part_wf a.part_wf).2 hp.symm
    have ht : b.tspace.eqI a.tspace = true := by
      rw [TSpace.eqI_iff]; simp [TSpace.key, Discr.tspace, hs, hd, hw]
    simp [hs, hd, ht, hk]

inductive SKey
  | tensor (k : List Nat × DType × Weighting)
  | discr (k : List Nat × DType × Weighting × (List Fl × List Fl) × List (List Fl))
  | prod (parts : List SKey) (w : Weighting)

mutual
def Space.key : Space → SKey
  | .tensor t => .tensor t.key
  | .discr d => .discr d.key
  | .prod l w _ => .prod (Space.keyL l) w.key
def Space.keyL : List Space → List SKey
  | [] => []
  | a :: l => a.key :: Space.keyL l
end

theorem Space.keyL_length : ∀ l : List Space, (Space.keyL l).length = l.length
  | [] => by simp [Space.keyL]
  | _ :: l => by simp [Space.keyL, Space.keyL_length l]

mutual
theorem Space.eqI_iff : (a b : Space) → (a.eqI b = true ↔ a.key = b.key)
  | .tensor a, .tensor b => by simp [Space.eqI, Space.key, TSpace.eqI_iff]
  | .discr a, .discr b => by simp [Space.eqI, Space.key, Discr.eqI_iff]
  | .prod l w _, .prod l' w' _ => by
      simp only [Space.eqI, Space.key, Bool.and_eq_true, decide_eq_true_eq, SKey.prod.injEq,
        Weighting.eqI_iff]
      constructor
      · rintro ⟨⟨hl, hw⟩, he⟩
        exact ⟨(Space.eqL_iff l l' hl).1 he, hw⟩
      · rintro ⟨hk, hw⟩
        have hl : l.length = l'.length := by
          rw [← Space.keyL_length l, ← Space.keyL_length l', hk]
        exact ⟨⟨hl, hw⟩, (Space.eqL_iff l l' hl).2 hk⟩
  | .tensor _, .discr _ | .tensor _, .prod .. | .discr _, .tensor _ | .discr _, .prod ..
  | .prod .., .tensor _ | .prod .., .discr _ => by simp [Space.eqI, Space.key]
theorem Space.eqL_iff : (l l' : List Space) → l.length = l'.length →
    (Space.eqL l l' = true ↔ Space.keyL l = Space.keyL l')
  | [], [], _ => by simp [Space.eqL, Space.keyL]
  | [], _ :: _, h => by simp at h
  | _ :: _, [], h => by simp at h
  | a :: l, b :: l', h => by
      have ih := Space.eqL_iff l l' (by simpa using h)
      simp [Space.eqL, Space.keyL, Space.eqI_iff a b, ih]
end

/-! ### hashes of spaces -/

theorem Fl.canon_canon (x : Fl) : x.canon.canon = x.canon := by
  cases x <;> simp [Fl.canon]

theorem Weighting.hk_of_key (heap : Nat → String) {a b : Weighting} (h : a.key = b.key) :
    a.hk heap = b.hk heap := by
  cases a <;> cases b <;> simp_all [Weighting.key, Weighting.hk, hkFloat, Weighting.baseHk]
  next c1 a1 e1 c2 a2 e2 => cases c2 <;> simp [h]

theorem TSpace.hk_of_key (heap : Nat → String) {a b : TSpace} (h : a.key = b.key) :
    a.hk heap = b.hk heap := by
  simp only [TSpace.key, Prod.mk.injEq] at h
  simp [TSpace.hk, h.1, h.2.1, Weighting.hk_of_key heap h.2.2]

theorem Partition.hk_of_key {a b : Partition} (h : a.key = b.key) : a.hk = b.hk := by
  simp only [Partition.key, Prod.mk.injEq] at h
  simp [Partition.hk, IntervalProd.hk_of_key h.1, Grid.hk_of_key h.2]

theorem Discr.hk_of_key (heap : Nat → String) {a b : Discr} (h : a.key = b.key) :
    a.hk heap = b.hk heap := by
  simp only [Discr.key, Prod.mk.injEq] at h
  obtain ⟨hs, hd, hw, hp⟩ := h
  have ht : a.tspace.hk heap = b.tspace.hk heap :=
    TSpace.hk_of_key heap (by simp [TSpace.key, Discr.tspace, hs, hd, hw])
  have hpk : a.part.hk = b.part.hk := Partition.hk_of_key hp
  simp [Discr.hk, hs, hd, ht, hpk]

mutual
theorem Space.hk_of_key (heap : Nat → String) : (a b : Space) → a.key = b.key →
    a.hk heap = b.hk heap
  | .tensor a, .tensor b, h => by
      simp only [Space.key, SKey.tensor.injEq] at h
      simp [Space.hk, TSpace.hk_of_key heap h]
  | .discr a, .discr b, h => by
      simp only [Space.key, SKey.discr.injEq] at h
      simp [Space.hk, Discr.hk_of_key heap h]
  | .prod l w _, .prod l' w' _, h => by
      simp only [Space.key, SKey.prod.injEq] at h
      simp [Space.hk, Space.hkL_of_key heap l l' h.1, Weighting.hk_of_key heap h.2]
  | .tensor _, .discr _, h | .tensor _, .prod .., h | .discr _, .tensor _, h
  | .discr _, .prod .., h | .prod .., .tensor _, h | .prod .., .discr _, h => by
      simp [Space.key] at h
theorem Space.hkL_of_key (heap : Nat → String) : (l l' : List Space) →
    Space.keyL l = Space.keyL l' → Space.hkL heap l = Space.hkL heap l'
  | [], [], _ => rfl
  | [], _ :: _, h => by simp [Space.keyL] at h
  | _ :: _, [], h => by simp [Space.keyL] at h
  | a :: l, b :: l', h => by
      simp only [Space.keyL, List.cons.injEq] at h
      simp [Space.hkL, Space.hk_of_key heap a b h.1, Space.hkL_of_key heap l l' h.2]
end

/-! ### composite sets over members whose `==` is total -/

section composite
variable {α κ : Type} (e : α → α → Option Bool) (r : α → α → Bool) (k : α → κ) (P : α → Prop)

theorem anyO_total (p : α → Option Bool) (q : α → Bool) :
    ∀ l : List α, (∀ x ∈ l, p x = some (q x)) → anyO p l = some (l.any q)
  | [], _ => by simp [anyO]
  | x :: l, h => by
      have hx := h x (by simp)
      have ih := anyO_total p q l (fun y hy => h y (by simp [hy]))
      simp only [anyO, hx, List.any_cons]
      cases q x <;> simp [ih]

theorem allO_total (p : α → Option Bool) (q : α → Bool) :
    ∀ l : List α, (∀ x ∈ l, p x = some (q x)) → allO p l = some (l.all q)
  | [], _ => by simp [allO]
  | x :: l, h => by
      have hx := h x (by simp)
      have ih := allO_total p q l (fun y hy => h y (by simp [hy]))
      simp only [allO, hx, List.all_cons]
      cases q x <;> simp [ih]

/-- Bool version of `mutualInclO` -/
def mutualInclB (a b : List α) : Bool :=
  a.all (fun s => b.any (fun item => r item s)) && b.all (fun s => a.any (fun item => r item s))

theorem mutualInclO_total (hr : ∀ x y, P x → P y → e x y = some (r x y)) (a b : List α)
    (ha : ∀ x ∈ a, P x) (hb : ∀ x ∈ b, P x) :
    mutualInclO e a b = some (mutualInclB r a b) := by
  have h1 : allO (fun s => memO e s b) a = some (a.all (fun s => b.any (fun item => r item s))) := by
    apply allO_total
    intro s hs
    exact anyO_total _ _ b (fun item hi => hr item s (hb item hi) (ha s hs))
  have h2 : allO (fun s => memO e s a) b = some (b.all (fun s => a.any (fun item => r item s))) := by
    apply allO_total
    intro s hs
    exact anyO_total _ _ a (fun item hi => hr item s (ha item hi) (hb s hs))
  unfold mutualInclO mutualInclB
  rw [h1, h2]
  cases (a.all fun s => b.any fun item => r item s) <;> simp

theorem mutualInclB_iff (hk : ∀ x y, P x → P y → (r x y = true ↔ k x = k y)) (a b : List α)
    (ha : ∀ x ∈ a, P x) (hb : ∀ x ∈ b, P x) :
    mutualInclB r a b = true ↔ ∀ z, z ∈ a.map k ↔ z ∈ b.map k := by
  simp only [mutualInclB, Bool.and_eq_true, List.all_eq_true, List.any_eq_true, List.mem_map]
  constructor
  · rintro ⟨h1, h2⟩ z
    constructor
    · rintro ⟨s, hs, rfl⟩
      obtain ⟨t, ht, hrt⟩ := h1 s hs
      exact ⟨t, ht, (hk t s (hb t ht) (ha s hs)).1 hrt⟩
    · rintro ⟨s, hs, rfl⟩
      obtain ⟨t, ht, hrt⟩ := h2 s hs
      exact ⟨t, ht, (hk t s (ha t ht) (hb s hs)).1 hrt⟩
  · intro h
    constructor
    · intro s hs
      obtain ⟨t, ht, hkt⟩ := (h (k s)).1 ⟨s, hs, rfl⟩
      exact ⟨t, ht, (hk t s (hb t ht) (ha s hs)).2 hkt⟩
    · intro s hs
      obtain ⟨t, ht, hkt⟩ := (h (k s)).2 ⟨s, hs, rfl⟩
      exact ⟨t, ht, (hk t s (ha t ht) (hb s hs)).2 hkt⟩

theorem tupleEqO_iff (hr : ∀ x y, P x → P y → e x y = some (r x y))
    (hk : ∀ x y, P x → P y → (r x y = true ↔ k x = k y)) :
    ∀ (a b : List α), (∀ x ∈ a, P x) → (∀ x ∈ b, P x) →
      ((tupleEqO e a b).isSome = true ∧ (tupleEqO e a b = some true ↔ a.map k = b.map k))
  | [], [], _, _ => by simp [tupleEqO]
  | [], _ :: _, _, _ => by simp [tupleEqO]
  | _ :: _, [], _, _ => by simp [tupleEqO]
  | x :: a, y :: b, ha, hb => by
      have hx := ha x (by simp)
      have hy := hb y (by simp)
      have ih := tupleEqO_iff hr hk a b (fun z hz => ha z (by simp [hz]))
        (fun z hz => hb z (by simp [hz]))
      have hxy := hk x y hx hy
      simp only [tupleEqO, hr x y hx hy, List.map_cons, List.cons.injEq]
      cases hc : r x y
      · simp [hc] at hxy ⊢
        exact fun h => absurd h hxy
      · simp [hc] at hxy ⊢
        simp [ih.1, ih.2, hxy]

end composite

/-! ### non-composite sets whose `==` cannot raise -/

inductive LKey
  | emptySet | universalSet | strings (n : Nat) | complexNumbers | realNumbers | integers
  | interval (k : List Fl × List Fl) | grid (k : List (List Fl)) | space (k : SKey)
  | finite (mem : Atom → Prop)

def Leaf.key : Leaf → LKey
  | .emptySet => .emptySet | .universalSet => .universalSet | .strings n => .strings n
  | .complexNumbers => .complexNumbers | .realNumbers => .realNumbers | .integers => .integers
  | .interval ip => .interval ip.key | .grid g => .grid g.key | .space s => .space s.key
  | .finite els => .finite (fun x => x ∈ els)

/-- interval products are well formed (`len(min_pt) == len(max_pt)`, enforced by the
constructor); no condition on the other classes -/
def Leaf.simple : Leaf → Prop
  | .interval ip => ip.wf
  | _ => True

/-- `FiniteSet.__eq__` is extensional equality of the element tuples -/
theorem finiteEq_iff (a b : List Atom) : finiteEq a b = true ↔ ∀ x, x ∈ a ↔ x ∈ b := by
  simp only [finiteEq, Bool.and_eq_true, List.all_eq_true, List.contains_iff_mem]
  constructor
  · rintro ⟨h1, h2⟩ x; exact ⟨h1 x, h2 x⟩
  · intro h; exact ⟨fun x hx => (h x).1 hx, fun x hx => (h x).2 hx⟩

def Leaf.eqB (a b : Leaf) : Bool := (a.eqO b).getD false

theorem Leaf.eqO_simple (a b : Leaf) (ha : a.simple) (hb : b.simple) :
    a.eqO b = some (a.eqB b) := by
  cases a <;> cases b <;> simp_all [Leaf.simple, Leaf.eqB, Leaf.eqO]
  next x y =>
    have := IntervalProd.eqO_total ha hb
    cases h : x.eqO y <;> simp_all

theorem Leaf.eqB_iff (a b : Leaf) (ha : a.simple) (hb : b.simple) :
    a.eqB b = true ↔ a.key = b.key := by
  cases a <;> cases b <;>
    simp_all [Leaf.simple, Leaf.eqB, Leaf.eqO, Leaf.key, Grid.eqI_iff, Space.eqI_iff]
  all_goals first
    | exact eq_comm
    | (next x y =>
        have := IntervalProd.eqO_iff ha hb
        cases h : x.eqO y with
        | none => simp_all
        | some r => cases r <;> simp_all)
    | (next x y =>
        rw [finiteEq_iff]
        constructor
        · intro h; funext z; exact propext (h z)
        · intro h z; exact Iff.of_eq (congrFun h z))

/-! ### hashes of sets -/

/-- members whose hash is a plain tuple key in the model (`FiniteSet` members hash through a
nested frozenset, which `Leaf.hkPlain` does not model) -/
def Leaf.plainHash : Leaf → Prop
  | .finite _ => False
  | _ => True

/-- hash key of a non-composite, non-finite set is determined by its `==` key -/
theorem Leaf.hkPlain_of_key (heap : Nat → String) (a b : Leaf) (h : a.key = b.key) :
    a.hkPlain heap = b.hkPlain heap := by
  cases a <;> cases b <;> simp_all [Leaf.key, Leaf.hkPlain]
  · exact IntervalProd.hk_of_key h
  · exact Grid.hk_of_key h
  · exact Space.hk_of_key heap _ _ h

/-- transport of a permutation of keys to a permutation of hash keys -/
theorem perm_map_of_perm_key {α κ β : Type} (k : α → κ) (g : α → β) :
    ∀ (l1 l2 : List α), (l1.map k).Perm (l2.map k) →
      (∀ x ∈ l1, ∀ y ∈ l2, k x = k y → g x = g y) → (l1.map g).Perm (l2.map g)
  | [], l2, hp, _ => by
      have : l2 = [] := by
        have := hp.length_eq
        simpa using this.symm
      subst this; simp
  | a :: l1, l2, hp, hg => by
      have hmem : k a ∈ l2.map k := hp.subset (by simp)
      obtain ⟨y, hy, hky⟩ := List.mem_map.1 hmem
      obtain ⟨s, t, rfl⟩ := List.append_of_mem hy
      have hp' : (l1.map k).Perm ((s ++ t).map k) := by
        have h1 : ((s ++ y :: t).map k).Perm (k y :: (s ++ t).map k) := by
          simpa using (List.perm_middle (a := k y) (l₁ := s.map k) (l₂ := t.map k))
        have h2 : (k a :: l1.map k).Perm (k a :: (s ++ t).map k) := by
          rw [hky] at h1
          exact (by simpa using hp : (k a :: l1.map k).Perm _).trans h1
        exact h2.cons_inv
      have ih := perm_map_of_perm_key k g l1 (s ++ t) hp'
        (fun x hx z hz hk => hg x (by simp [hx]) z (by
          rcases List.mem_append.1 hz with h | h
          · simp [h]
          · simp [h]) hk)
      have hga : g a = g y := hg a (by simp) y (by simp) hky.symm
      have h3 : ((s ++ y :: t).map g).Perm (g y :: (s ++ t).map g) := by
        simpa using (List.perm_middle (a := g y) (l₁ := s.map g) (l₂ := t.map g))
      simp only [List.map_cons]
      rw [hga]
      exact (List.Perm.cons _ ih).trans h3.symm

theorem map_eq_of_map_key_eq {α κ β : Type} (k : α → κ) (g : α → β)
    (hg : ∀ x y, k x = k y → g x = g y) :
    ∀ (l1 l2 : List α), l1.map k = l2.map k → l1.map g = l2.map g
  | [], [], _ => rfl
  | [], _ :: _, h => by simp at h
  | _ :: _, [], h => by simp at h
  | a :: l1, b :: l2, h => by
      simp only [List.map_cons, List.cons.injEq] at h ⊢
      exact ⟨hg a b h.1, map_eq_of_map_key_eq k g hg l1 l2 h.2⟩

/-! ### element values, selections -/

theorem castVal?_eq {T : DTables} {d : DType} {r x : Rat} (h : castVal? T d r = some x) :
    x = castVal T d r := by
  unfold castVal? at h
  split at h
  · cases h
  · split at h
    · cases h
    · cases h; rfl

theorem mapM_castVal?_eq (T : DTables) (d : DType) :
    ∀ (v v' : List Rat), v.mapM (castVal? T d) = some v' → v' = v.map (castVal T d)
  | [], v', h => by simp at h; simp [h]
  | r :: v, v', h => by
      simp only [List.mapM_cons] at h
      cases hr : castVal? T d r with
      | none => simp [hr] at h
      | some x =>
        cases hv : v.mapM (castVal? T d) with
        | none => simp [hr, hv] at h
        | some w =>
          simp [hr, hv] at h
          subst h
          simp [castVal?_eq hr, mapM_castVal?_eq T d v w hv]

theorem selList_getElem? {α} (l : List α) :
    ∀ (idx : List Nat) (sel : List α), selList l idx = some sel →
      ∀ j : Nat, sel[j]? = (idx[j]?).bind (fun (i : Nat) => l[i]?)
  | [], sel, h, j => by
      simp [selList] at h; subst h; simp
  | i :: idx, sel, h, j => by
      simp only [selList, List.mapM_cons] at h
      cases hi : l[i]? with
      | none => simp [hi] at h
      | some x =>
        cases hr : idx.mapM (fun (i : Nat) => l[i]?) with
        | none => simp [hi, hr] at h
        | some rest =>
          simp [hi, hr] at h
          subst h
          cases j with
          | zero => simp [hi]
          | succ j => simpa using selList_getElem? l idx rest hr j

/-! ### `astype` on arbitrarily nested product spaces (round 4) -/

theorem TSpace.astype_dtype (T : DTables) (t r : TSpace) (dt : DType) (ok : Bool)
    (h : t.astype T dt ok = some r) : r.dtype = dt := by
  unfold TSpace.astype at h
  split at h
  · next h1 => cases h; exact h1.symm
  · split at h
    · cases h
    · split at h
      · split at h
        · split at h
          · cases h; rfl
          · cases h
        · cases h; rfl
      · cases h; rfl

/-- `dtype == getattr(space, 'dtype', object)` for any space -/
def Space.hasDtype : Space → DType → Bool
  | .tensor t, dt => decide (t.dtype = dt)
  | .discr d, dt => decide (d.dtype = dt)
  | .prod l _ _, dt => Space.dtypeIs l dt

theorem Space.dtypeAll_cons (s : Space) (l : List Space) (dt : DType) :
    Space.dtypeAll (s :: l) dt = (s.hasDtype dt && Space.dtypeAll l dt) := by
  cases s <;> simp [Space.dtypeAll, Space.hasDtype]

theorem Space.dtypeIs_cons (s : Space) (l : List Space) (dt : DType) :
    Space.dtypeIs (s :: l) dt = Space.dtypeAll (s :: l) dt := by
  simp [Space.dtypeIs]

theorem Space.astype_of_hasDtype (T : DTables) (s : Space) (dt : DType)
    (h : s.hasDtype dt = true) : s.astype T dt = some s := by
  cases s with
  | tensor t => simp [Space.hasDtype] at h; simp [Space.astype, TSpace.astype, h]
  | discr d => simp [Space.hasDtype] at h; subst h; simp [Space.astype, Discr.astype, TSpace.astype, Discr.tspace]
  | prod l w f => simp [Space.hasDtype] at h; simp [Space.astype, h]

mutual
theorem Space.astype_hasDtype (T : DTables) : (s : Space) → (dt : DType) → (s' : Space) →
    s.astype T dt = some s' → s'.hasDtype dt = true
  | .tensor t, dt, s', h => by
      simp only [Space.astype, Option.map_eq_some_iff] at h
      obtain ⟨r, hr, rfl⟩ := h
      simp [Space.hasDtype, TSpace.astype_dtype T t r dt true hr]
  | .discr d, dt, s', h => by
      simp only [Space.astype, Discr.astype, Option.map_eq_some_iff] at h
      obtain ⟨r, ⟨r', hr, rfl⟩, rfl⟩ := h
      simp [Space.hasDtype, TSpace.astype_dtype T _ r' dt true hr]
  | .prod l w f, dt, s', h => by
      simp only [Space.astype] at h
      split at h
      · next h1 => cases h; simpa [Space.hasDtype] using h1
      · next h1 =>
        cases hl : Space.astypeL T l dt with
        | none => simp [hl] at h
        | some l' =>
          have ih := Space.astypeL_hasDtype T l dt l' hl
          simp only [hl] at h
          cases l' with
          | nil => split at h <;> simp [mkProdW, mkProd] at h
          | cons x r =>
            split at h <;> simp [mkProdW, mkProd] at h <;> subst h <;>
              simpa [Space.hasDtype, Space.dtypeIs] using ih
theorem Space.astypeL_hasDtype (T : DTables) : (l : List Space) → (dt : DType) →
    (l' : List Space) → Space.astypeL T l dt = some l' → Space.dtypeAll l' dt = true
  | [], dt, l', h => by simp [Space.astypeL] at h; subst h; simp [Space.dtypeAll]
  | s :: l, dt, l', h => by
      simp only [Space.astypeL] at h
      cases hs : Space.astype T s dt with
      | none => simp [hs] at h
      | some s' =>
        cases hl : Space.astypeL T l dt with
        | none => simp [hs, hl] at h
        | some l'' =>
          simp [hs, hl] at h; subst h
          rw [Space.dtypeAll_cons]
          simp [Space.astype_hasDtype T s dt s' hs, Space.astypeL_hasDtype T l dt l'' hl]
end
mutual
theorem Space.hasDtype_of_eq : (a b : Space) → a.eqI b = true → (dt : DType) →
    a.hasDtype dt = b.hasDtype dt
  | .tensor a, .tensor b, h, dt => by
      have := (TSpace.eqI_iff a b).1 h
      simp only [TSpace.key, Prod.mk.injEq] at this
      simp [Space.hasDtype, this.2.1]
  | .discr a, .discr b, h, dt => by
      have := (Discr.eqI_iff a b).1 h
      simp only [Discr.key, Prod.mk.injEq] at this
      simp [Space.hasDtype, this.2.1]
  | .prod l w _, .prod l' w' _, h, dt => by
      simp only [Space.eqI, Bool.and_eq_true, decide_eq_true_eq] at h
      simpa [Space.hasDtype] using Space.dtypeIs_of_eq l l' h.1.1 h.2 dt
  | .tensor _, .discr _, h, _ | .tensor _, .prod .., h, _ | .discr _, .tensor _, h, _
  | .discr _, .prod .., h, _ | .prod .., .tensor _, h, _ | .prod .., .discr _, h, _ => by
      simp [Space.eqI] at h
theorem Space.dtypeIs_of_eq : (l l' : List Space) → l.length = l'.length →
    Space.eqL l l' = true → (dt : DType) → Space.dtypeIs l dt = Space.dtypeIs l' dt
  | [], [], _, _, _ => rfl
  | [], _ :: _, h, _, _ => by simp at h
  | _ :: _, [], h, _, _ => by simp at h
  | a :: l, b :: l', hl, he, dt => by
      simp only [Space.eqL, Bool.and_eq_true] at he
      have h1 := Space.hasDtype_of_eq a b he.1 dt
      have h2 := Space.dtypeAll_of_eq l l' (by simpa using hl) he.2 dt
      simp [Space.dtypeIs_cons, Space.dtypeAll_cons, h1, h2]
theorem Space.dtypeAll_of_eq : (l l' : List Space) → l.length = l'.length →
    Space.eqL l l' = true → (dt : DType) → Space.dtypeAll l dt = Space.dtypeAll l' dt
  | [], [], _, _, _ => rfl
  | [], _ :: _, h, _, _ => by simp at h
  | _ :: _, [], h, _, _ => by simp at h
  | a :: l, b :: l', hl, he, dt => by
      simp only [Space.eqL, Bool.and_eq_true] at he
      have h1 := Space.hasDtype_of_eq a b he.1 dt
      have h2 := Space.dtypeAll_of_eq l l' (by simpa using hl) he.2 dt
      simp [Space.dtypeAll_cons, h1, h2]
end

end OdlModel.Spaces
