/-
Helper lemmas for C12 (real inner-product spaces): adjoint pairs, operator bounds.
-/
import OdlModel.Model.Solvers
import OdlModel.Lemmas.Solvers
import Mathlib.Analysis.InnerProductSpace.Basic
import Mathlib.Analysis.SpecialFunctions.Sqrt
import Mathlib.Algebra.Order.Field.Basic
import Mathlib.Tactic.Linarith
import Mathlib.Tactic.Ring
import Mathlib.Algebra.BigOperators.Group.List.Basic
import Mathlib.Tactic.Positivity
import Mathlib.Tactic.NormNum
import Mathlib.Tactic.Module
import Mathlib.Tactic.FieldSimp
import Mathlib.Tactic.LinearCombination

open OdlModel.Solvers
open RealInnerProductSpace

variable {E F : Type} [NormedAddCommGroup E] [InnerProductSpace ℝ E]
  [NormedAddCommGroup F] [InnerProductSpace ℝ F]

namespace OdlModel.Solvers
/-- `At` is the adjoint of `A`. -/
def AdjPair (A : E →ₗ[ℝ] F) (At : F →ₗ[ℝ] E) : Prop := ∀ x y, ⟪A x, y⟫ = ⟪x, At y⟫

theorem norm_le_of_sq_le {a b : ℝ} (hb : 0 ≤ b) (h : a ^ 2 ≤ b ^ 2) : a ≤ b := by
  nlinarith [sq_nonneg (a - b), sq_nonneg (a + b)]

/-- the adjoint has the same bound -/
theorem adj_bound (A : E →ₗ[ℝ] F) (At : F →ₗ[ℝ] E) (hadj : AdjPair A At) (c : ℝ) (hc0 : 0 ≤ c)
    (hc : ∀ u, ‖A u‖ ≤ c * ‖u‖) (w : F) : ‖At w‖ ≤ c * ‖w‖ := by
  have h1 : ‖At w‖ ^ 2 = ⟪A (At w), w⟫ := by rw [hadj (At w) w, real_inner_self_eq_norm_sq]
  have h2 : ⟪A (At w), w⟫ ≤ ‖A (At w)‖ * ‖w‖ := real_inner_le_norm _ _
  have h3 := hc (At w)
  by_cases h0 : ‖At w‖ = 0
  · rw [h0]; exact mul_nonneg hc0 (norm_nonneg w)
  · have hp : 0 < ‖At w‖ := lt_of_le_of_ne (norm_nonneg _) (Ne.symm h0)
    have : ‖At w‖ * ‖At w‖ ≤ (c * ‖w‖) * ‖At w‖ := by nlinarith [norm_nonneg w]
    exact le_of_mul_le_mul_right this hp
/-- one inner Kaczmarz step does not increase the distance to a solution -/
theorem kaczmarz_inner_mono (A : E →ₗ[ℝ] F) (At : F →ₗ[ℝ] E) (hadj : AdjPair A At)
    (c : ℝ) (hc0 : 0 ≤ c) (hc : ∀ u, ‖A u‖ ≤ c * ‖u‖) (b : F) (ω : ℝ) (h0 : 0 ≤ ω)
    (h1 : ω * c ^ 2 ≤ 2) (xs : E) (hxs : A xs = b) (x : E) :
    ‖lincomb (1 : ℝ) x (-ω) (At (A x - b)) - xs‖ ≤ ‖x - xs‖ := by
  set e := x - xs with he
  have hx : lincomb (1 : ℝ) x (-ω) (At (A x - b)) - xs = e - ω • At (A e) := by
    simp only [lincomb, he, ← hxs, map_sub]; module
  rw [hx]
  apply norm_le_of_sq_le (norm_nonneg _)
  rw [norm_sub_sq_real, norm_smul, inner_smul_right, ← hadj e (A e),
    real_inner_self_eq_norm_sq, mul_pow, Real.norm_eq_abs, sq_abs]
  have hb := adj_bound A At hadj c hc0 hc (A e)
  have hb2 : ‖At (A e)‖ ^ 2 ≤ c ^ 2 * ‖A e‖ ^ 2 := by
    have := mul_self_le_mul_self (norm_nonneg _) hb
    nlinarith
  nlinarith [sq_nonneg ‖A e‖, mul_nonneg h0 (sq_nonneg ‖A e‖), mul_nonneg h0 h0,
    mul_nonneg (mul_nonneg h0 h0) (sq_nonneg ‖A e‖)]

/-- The model of `conjugate_gradient` for a linear `A` on a real inner-product space. -/
def cgReal (A : E →ₗ[ℝ] E) (b : E) : CgP ℝ E := ⟨A, b, fun u v => ⟪u, v⟫, fun u => ‖u‖ ^ 2⟩

/-- Invariant carried by the loop of `conjugate_gradient`. -/
def CgInv (A : E →ₗ[ℝ] E) (b : E) (s : CgS ℝ E) : Prop :=
  s.r = b - A s.x ∧ ⟪s.r, s.p⟫ = ‖s.r‖ ^ 2 ∧ s.sqnormROld = ‖s.r‖ ^ 2

/-- twice the energy-norm error -/
def energy (A : E →ₗ[ℝ] E) (xs x : E) : ℝ := ⟪x - xs, A (x - xs)⟫

theorem cg_init_inv (A : E →ₗ[ℝ] E) (b x0 junk : E) : CgInv A b ((cgReal A b).init x0 junk) := by
  simp only [CgInv, CgP.init, cgReal, lincomb, real_inner_self_eq_norm_sq, and_true]
  module

theorem cg_step (A : E →ₗ[ℝ] E) (hsym : ∀ u v, ⟪A u, v⟫ = ⟪u, A v⟫) (hpsd : ∀ u, 0 ≤ ⟪u, A u⟫)
    (b xs : E) (hxs : A xs = b) (s : CgS ℝ E) (h : CgInv A b s) :
    CgInv A b ((cgReal A b).step s) ∧
      energy A xs ((cgReal A b).step s).x ≤ energy A xs s.x := by
  obtain ⟨hr, hrp, hsq⟩ := h
  unfold CgP.step
  by_cases hst : s.stopped = true
  · simp only [hst, if_true]; exact ⟨⟨hr, hrp, hsq⟩, le_rfl⟩
  simp only [hst, Bool.false_eq_true, if_false]
  by_cases hip : (cgReal A b).inner s.p ((cgReal A b).op s.p) = 0
  · simp only [hip, if_true]; exact ⟨⟨hr, hrp, hsq⟩, le_rfl⟩
  simp only [hip, if_false]
  simp only [cgReal] at hip ⊢
  set ipd := ⟪s.p, A s.p⟫ with hipd
  set α := s.sqnormROld / ipd with hα
  have hαi : α * ipd = ‖s.r‖ ^ 2 := by rw [hα, hsq]; field_simp
  have hpos : 0 < ipd := lt_of_le_of_ne (hpsd s.p) (Ne.symm hip)
  have hα0 : 0 ≤ α := by rw [hα, hsq]; positivity
  have hx' : lincomb (1 : ℝ) s.x α s.p = s.x + α • s.p := by simp only [lincomb]; module
  have hr' : lincomb (1 : ℝ) s.r (-α) (A s.p) = s.r - α • A s.p := by simp only [lincomb]; module
  rw [hx', hr']
  refine ⟨⟨?_, ?_, rfl⟩, ?_⟩
  · simp only [hr, map_add, map_smul]; abel
  · -- ⟪r', r' + β p⟫ = ‖r'‖² + β ⟪r', p⟫ and ⟪r', p⟫ = 0
    have h0 : ⟪s.r - α • A s.p, s.p⟫ = 0 := by
      rw [inner_sub_left, inner_smul_left, hrp, hsym, ← hipd]
      simp only [conj_trivial]; linarith
    simp only [lincomb, one_smul, inner_add_right, inner_smul_right, h0, mul_zero, add_zero,
      real_inner_self_eq_norm_sq]
  · -- energy decreases by α ‖r‖²
    have hAe : A (s.x - xs) = -s.r := by rw [map_sub, hxs, hr]; abel
    have e1 : s.x + α • s.p - xs = (s.x - xs) + α • s.p := by abel
    simp only [energy]
    rw [e1, map_add, map_smul, inner_add_left, inner_add_right, inner_add_right, inner_smul_left,
      inner_smul_right, inner_smul_right, inner_smul_left, hAe, ← hsym (s.x - xs) s.p, hAe]
    simp only [conj_trivial, inner_neg_left, inner_neg_right, ← hipd]
    rw [real_inner_comm s.r s.p] at *
    nlinarith [sq_nonneg ‖s.r‖, mul_nonneg hα0 (sq_nonneg ‖s.r‖)]
/-- The model of `conjugate_gradient_normal` for a linear `A` between real inner-product spaces. -/
def cgnReal (A : E →ₗ[ℝ] F) (At : F →ₗ[ℝ] E) (b : F) : CgnP ℝ E F :=
  ⟨A, fun _ => At, b, fun u => ‖u‖ ^ 2, fun w => ‖w‖ ^ 2⟩

def CgnInv (A : E →ₗ[ℝ] F) (At : F →ₗ[ℝ] E) (b : F) (s : CgnS ℝ E F) : Prop :=
  s.d = b - A s.x ∧ s.s = At s.d ∧ ⟪s.s, s.p⟫ = ‖s.s‖ ^ 2 ∧ s.sqnormSOld = ‖s.s‖ ^ 2

theorem cgn_init_inv (A : E →ₗ[ℝ] F) (At : F →ₗ[ℝ] E) (b : F) (x0 : E) (junk : F) :
    CgnInv A At b ((cgnReal A At b).init x0 junk) := by
  simp only [CgnInv, CgnP.init, cgnReal, lincomb, real_inner_self_eq_norm_sq, and_true]
  module

theorem cgn_step (A : E →ₗ[ℝ] F) (At : F →ₗ[ℝ] E) (hadj : AdjPair A At) (b : F)
    (s : CgnS ℝ E F) (h : CgnInv A At b s) :
    CgnInv A At b ((cgnReal A At b).step s) ∧ ‖((cgnReal A At b).step s).d‖ ≤ ‖s.d‖ := by
  obtain ⟨hd, hs, hsp, hsq⟩ := h
  unfold CgnP.step
  by_cases hst : s.stopped = true
  · simp only [hst, if_true]; exact ⟨⟨hd, hs, hsp, hsq⟩, le_rfl⟩
  simp only [hst, Bool.false_eq_true, if_false]
  by_cases hq : (cgnReal A At b).nsqW ((cgnReal A At b).op s.p) = 0
  · simp only [hq, if_true]; exact ⟨⟨hd, hs, hsp, hsq⟩, le_rfl⟩
  simp only [hq, if_false]
  simp only [cgnReal] at hq ⊢
  set q := A s.p with hqd
  set a := s.sqnormSOld / ‖q‖ ^ 2 with ha
  have hai : a * ‖q‖ ^ 2 = ‖s.s‖ ^ 2 := by rw [ha, hsq]; exact div_mul_cancel₀ _ hq
  have ha0 : 0 ≤ a := by rw [ha, hsq]; positivity
  have hx' : lincomb (1 : ℝ) s.x a s.p = s.x + a • s.p := by simp only [lincomb]; module
  have hd' : lincomb (1 : ℝ) s.d (-a) q = s.d - a • q := by simp only [lincomb]; module
  rw [hx', hd']
  have hdq : ⟪s.d, q⟫ = ‖s.s‖ ^ 2 := by
    rw [hqd, real_inner_comm, hadj, ← hs, real_inner_comm, hsp]
  refine ⟨⟨?_, rfl, ?_, rfl⟩, ?_⟩
  · simp only [hd, hqd, map_add, map_smul]; abel
  · have h0 : ⟪At (s.d - a • q), s.p⟫ = 0 := by
      rw [real_inner_comm, ← hadj, ← hqd, real_inner_comm, inner_sub_left, inner_smul_left, hdq,
        real_inner_self_eq_norm_sq]
      simp only [conj_trivial]; linarith
    simp only [lincomb, one_smul, inner_add_right, inner_smul_right, h0, mul_zero, add_zero,
      real_inner_self_eq_norm_sq]
  · apply norm_le_of_sq_le (norm_nonneg _)
    rw [norm_sub_sq_real, norm_smul, inner_smul_right, hdq, mul_pow, Real.norm_eq_abs, sq_abs]
    nlinarith [sq_nonneg ‖s.s‖, mul_nonneg ha0 (sq_nonneg ‖s.s‖)]
theorem absK_nonneg {K : Type} [Field K] [LinearOrder K] [IsStrictOrderedRing K] (a : K) :
    0 ≤ absK a := by
  unfold absK; split_ifs with h
  · exact le_of_lt (neg_pos.mpr h)
  · exact not_lt.mp h

noncomputable def powerReal (A : E →ₗ[ℝ] F) (At : F →ₗ[ℝ] E) (isZero : ℝ → Bool) (isClose : ℝ → ℝ → Bool) :
    PowerP ℝ E F := ⟨A, At, fun u => ‖u‖, Real.sqrt, isZero, isClose⟩

/-- loop invariant of `power_method_opnorm`: the vector is normalised while the loop runs -/
def PowerInv1 (s : PowerS ℝ E) : Prop := s.failed = false → s.done = false → ‖s.x‖ = 1
def PowerInv2 (c : ℝ) (s : PowerS ℝ E) : Prop :=
  s.failed = false → (s.done = false → ‖s.x‖ = 1) ∧ s.opnorm ≤ c

theorem norm_normalize (x : E) (h : ‖x‖ ≠ 0) : ‖((1 : ℝ) / ‖x‖) • x‖ = 1 := by
  rw [norm_smul, Real.norm_eq_abs, abs_of_nonneg (by positivity)]; field_simp

theorem power_init_inv (A : E →ₗ[ℝ] F) (At : F →ₗ[ℝ] E) (isZero : ℝ → Bool)
    (hz : ∀ k, k = 0 → isZero k = true) (isClose : ℝ → ℝ → Bool) (x0 : E) :
    PowerInv1 ((powerReal A At isZero isClose).init x0) := by
  unfold PowerInv1 PowerP.init
  simp only [powerReal]
  by_cases h : isZero ‖x0‖ = true
  · simp [h]
  · simp only [h, Bool.false_eq_true, if_false]
    intro _ _
    exact norm_normalize x0 (fun h0 => h (hz _ h0))

theorem power_step (A : E →ₗ[ℝ] F) (At : F →ₗ[ℝ] E) (c : ℝ) (hc0 : 0 ≤ c)
    (hA : ∀ u, ‖A u‖ ≤ c * ‖u‖) (hAt : ∀ w, ‖At w‖ ≤ c * ‖w‖) (isZero : ℝ → Bool)
    (hz : ∀ k, k = 0 → isZero k = true) (isClose : ℝ → ℝ → Bool) (s : PowerS ℝ E) :
    (PowerInv1 s → s.done = false → PowerInv2 c ((powerReal A At isZero isClose).stepNormal s)) ∧
    (PowerInv2 c s → PowerInv2 c ((powerReal A At isZero isClose).stepNormal s)) := by
  have key : (s.failed = false → s.done = false → ‖s.x‖ = 1) → (s.done = true → s.failed = false → s.opnorm ≤ c) →
      PowerInv2 c ((powerReal A At isZero isClose).stepNormal s) := by
    intro h1 h2
    unfold PowerP.stepNormal PowerInv2
    simp only [powerReal]
    by_cases hdf : (s.done || s.failed) = true
    · simp only [hdf, if_true]
      intro hf
      rcases Bool.or_eq_true _ _ |>.mp hdf with hd | hf'
      · exact ⟨fun h => by simp [hd] at h, h2 hd hf⟩
      · simp [hf'] at hf
    · simp only [hdf, Bool.false_eq_true, if_false]
      have hd : s.done = false := by cases hh : s.done <;> simp_all
      have hf : s.failed = false := by cases hh : s.failed <;> simp_all
      have hx := h1 hf hd
      have hest : Real.sqrt ‖At (A s.x)‖ ≤ c := by
        rw [show c = Real.sqrt (c * c) by rw [Real.sqrt_mul_self hc0]]
        apply Real.sqrt_le_sqrt
        calc ‖At (A s.x)‖ ≤ c * ‖A s.x‖ := hAt _
          _ ≤ c * (c * ‖s.x‖) := mul_le_mul_of_nonneg_left (hA _) hc0
          _ = c * c := by rw [hx, mul_one]
      by_cases hzn : isZero ‖At (A s.x)‖ = true
      · simp [hzn]
      · simp only [hzn, Bool.false_eq_true, if_false]
        by_cases hcl : isClose (Real.sqrt ‖At (A s.x)‖) s.opnorm = true
        · simp only [hcl, if_true]; intro _; exact ⟨fun h => by simp at h, hest⟩
        · simp only [hcl, Bool.false_eq_true, if_false]; intro _
          exact ⟨fun _ => norm_normalize _ (fun h0 => hzn (hz _ h0)), hest⟩
  constructor
  · intro h1 hd
    exact key h1 (fun h => by simp [hd] at h)
  · intro h2
    exact key (fun hf hd => (h2 hf).1 hd) (fun _ hf => (h2 hf).2)
/-- `prox` is the resolvent of the set-valued operator `∂f` with step `τ`:
`p = prox v  ↔  (v - p)/τ ∈ ∂f p`  (for a proper convex lsc `f`: `prox = prox_{τ f}`, C07). -/
def IsProx {X : Type} [AddCommGroup X] [Module ℝ X] (prox : X → X) (τ : ℝ) (sub : X → Set X) : Prop :=
  ∀ v p, prox v = p ↔ τ⁻¹ • (v - p) ∈ sub p


/-- `Σ L_i^*` is linear in the family it is applied to. -/
theorem sumAdj_lin {X Y : Type} [AddCommGroup X] [Module ℝ X] [AddCommGroup Y] [Module ℝ Y]
    (Lt : Nat → Y →ₗ[ℝ] X) (f g : Nat → Y) (a b : ℝ) (k : Nat) :
    sumAdj (fun i => ⇑(Lt i)) (fun i => lincomb a (f i) b (g i)) k =
      a • sumAdj (fun i => ⇑(Lt i)) f k + b • sumAdj (fun i => ⇑(Lt i)) g k := by
  induction k with
  | zero => simp only [sumAdj, lincomb, map_add, map_smul]
  | succ k ih =>
    simp only [sumAdj]
    rw [ih]
    simp only [lincomb, map_add, map_smul]; module


def powerSelfReal (A : E →ₗ[ℝ] E) (isZero : ℝ → Bool) (isClose : ℝ → ℝ → Bool) :
    PowerSelfP ℝ E := ⟨A, fun u => ‖u‖, isZero, isClose⟩

theorem powerSelf_init_inv (A : E →ₗ[ℝ] E) (isZero : ℝ → Bool)
    (hz : ∀ k, k = 0 → isZero k = true) (isClose : ℝ → ℝ → Bool) (x0 : E) :
    PowerInv1 ((powerSelfReal A isZero isClose).init x0) := by
  unfold PowerInv1 PowerSelfP.init
  simp only [powerSelfReal]
  by_cases h : isZero ‖x0‖ = true
  · simp [h]
  · simp only [h, Bool.false_eq_true, if_false]
    intro _ _
    exact norm_normalize x0 (fun h0 => h (hz _ h0))

theorem powerSelf_step (A : E →ₗ[ℝ] E) (c : ℝ)
    (hA : ∀ u, ‖A u‖ ≤ c * ‖u‖) (isZero : ℝ → Bool)
    (hz : ∀ k, k = 0 → isZero k = true) (isClose : ℝ → ℝ → Bool) (s : PowerS ℝ E) :
    (PowerInv1 s → s.done = false → PowerInv2 c ((powerSelfReal A isZero isClose).step s)) ∧
    (PowerInv2 c s → PowerInv2 c ((powerSelfReal A isZero isClose).step s)) := by
  have key : (s.failed = false → s.done = false → ‖s.x‖ = 1) → (s.done = true → s.failed = false → s.opnorm ≤ c) →
      PowerInv2 c ((powerSelfReal A isZero isClose).step s) := by
    intro h1 h2
    unfold PowerSelfP.step PowerInv2
    simp only [powerSelfReal]
    by_cases hdf : (s.done || s.failed) = true
    · simp only [hdf, if_true]
      intro hf
      rcases Bool.or_eq_true _ _ |>.mp hdf with hd | hf'
      · exact ⟨fun h => by simp [hd] at h, h2 hd hf⟩
      · simp [hf'] at hf
    · simp only [hdf, Bool.false_eq_true, if_false]
      have hd : s.done = false := by cases hh : s.done <;> simp_all
      have hf : s.failed = false := by cases hh : s.failed <;> simp_all
      have hx := h1 hf hd
      have hest : ‖A s.x‖ ≤ c := by have := hA s.x; rwa [hx, mul_one] at this
      by_cases hzn : isZero ‖A s.x‖ = true
      · simp [hzn]
      · simp only [hzn, Bool.false_eq_true, if_false]
        by_cases hcl : isClose ‖A s.x‖ s.opnorm = true
        · simp only [hcl, if_true]; intro _; exact ⟨fun h => by simp at h, hest⟩
        · simp only [hcl, Bool.false_eq_true, if_false]; intro _
          exact ⟨fun _ => norm_normalize _ (fun h0 => hzn (hz _ h0)), hest⟩
  constructor
  · intro h1 hd
    exact key h1 (fun h => by simp [hd] at h)
  · intro h2
    exact key (fun hf hd => (h2 hf).1 hd) (fun _ hf => (h2 hf).2)

/-- extended invariant of `conjugate_gradient`: additionally `⟪A p, r⟫ = ⟪A p, p⟫`
(`p − r` is a multiple of the previous direction, which is conjugate to `p`). -/
def CgInv2 (A : E →ₗ[ℝ] E) (b : E) (s : CgS ℝ E) : Prop :=
  CgInv A b s ∧ ⟪A s.p, s.r⟫ = ⟪A s.p, s.p⟫

theorem cg_init_inv2 (A : E →ₗ[ℝ] E) (b x0 junk : E) : CgInv2 A b ((cgReal A b).init x0 junk) :=
  ⟨cg_init_inv A b x0 junk, by simp only [CgP.init, cgReal]⟩

/-- One executed loop body (not stopped, `⟪p, A p⟫ ≠ 0`, `r ≠ 0`): the new residual is orthogonal
to the old one and to the old direction, the new direction is `A`-conjugate to the old one, and
the extended invariant is re-established. -/
theorem cg_step2 (A : E →ₗ[ℝ] E) (hsym : ∀ u v, ⟪A u, v⟫ = ⟪u, A v⟫) (b : E) (s : CgS ℝ E)
    (h : CgInv2 A b s) (hst : s.stopped = false) (hip : ⟪s.p, A s.p⟫ ≠ 0) (hr : s.sqnormROld ≠ 0) :
    let t := (cgReal A b).step s
    CgInv2 A b t ∧ ⟪t.r, s.r⟫ = 0 ∧ ⟪t.r, s.p⟫ = 0 ∧ ⟪t.p, A s.p⟫ = 0 := by
  obtain ⟨⟨hrr, hrp, hsq⟩, h5⟩ := h
  intro t
  have ht : t = (cgReal A b).step s := rfl
  unfold CgP.step at ht
  simp only [hst, Bool.false_eq_true, if_false, cgReal, hip] at ht
  set ipd := ⟪s.p, A s.p⟫ with hipd
  set α := s.sqnormROld / ipd with hα
  have hαi : α * ipd = ‖s.r‖ ^ 2 := by rw [hα, hsq]; field_simp
  have hα0 : α ≠ 0 := by rw [hα]; exact div_ne_zero hr hip
  have hr' : lincomb (1 : ℝ) s.r (-α) (A s.p) = s.r - α • A s.p := by simp only [lincomb]; module
  rw [hr'] at ht
  set r' := s.r - α • A s.p with hr'd
  have hsqr : s.sqnormROld = ‖s.r‖ ^ 2 := hsq
  -- ⟪r', r⟫ = 0
  have o1 : ⟪r', s.r⟫ = 0 := by
    rw [hr'd, inner_sub_left, inner_smul_left, real_inner_self_eq_norm_sq, h5, real_inner_comm, ← hipd]
    simp only [conj_trivial]; linarith
  -- ⟪r', p⟫ = 0
  have o2 : ⟪r', s.p⟫ = 0 := by
    rw [hr'd, inner_sub_left, inner_smul_left, hrp, real_inner_comm (s.p) (A s.p), ← hipd]
    simp only [conj_trivial]; linarith
  -- ⟪r', A p⟫ = -‖r'‖² / α
  have o3 : α * ⟪r', A s.p⟫ = -‖r'‖ ^ 2 := by
    have : α • A s.p = s.r - r' := by rw [hr'd]; abel
    have h2 : ⟪r', α • A s.p⟫ = ⟪r', s.r⟫ - ⟪r', r'⟫ := by rw [this, inner_sub_right]
    rw [inner_smul_right, o1, real_inner_self_eq_norm_sq] at h2
    linarith
  set β := ‖r'‖ ^ 2 / s.sqnormROld with hβ
  have hβi : β * ‖s.r‖ ^ 2 = ‖r'‖ ^ 2 := by
    rw [hβ, hsq]; exact div_mul_cancel₀ _ (by rw [← hsq]; exact hr)
  -- ⟪p', A p⟫ = 0
  have o4 : ⟪lincomb (1 : ℝ) r' β s.p, A s.p⟫ = 0 := by
    simp only [lincomb, one_smul, inner_add_left, inner_smul_left, conj_trivial, ← hipd]
    have e1 : α * (⟪r', A s.p⟫ + β * ipd) = 0 := by
      have : α * (β * ipd) = β * ‖s.r‖ ^ 2 := by rw [← hαi]; ring
      rw [mul_add, o3, this, hβi]; ring
    rcases mul_eq_zero.mp e1 with h0 | h0
    · exact absurd h0 hα0
    · exact h0
  have hx' : lincomb (1 : ℝ) s.x α s.p = s.x + α • s.p := by simp only [lincomb]; module
  rw [hx'] at ht
  have hp' : lincomb (1 : ℝ) r' β s.p = r' + β • s.p := by simp only [lincomb]; module
  rw [hp'] at o4 ht
  rw [ht]
  refine ⟨⟨⟨?_, ?_, rfl⟩, ?_⟩, o1, o2, o4⟩
  · show r' = b - A (s.x + α • s.p)
    rw [hr'd, hrr, map_add, map_smul]; abel
  · show ⟪r', r' + β • s.p⟫ = ‖r'‖ ^ 2
    rw [inner_add_right, inner_smul_right, o2, mul_zero, add_zero, real_inner_self_eq_norm_sq]
  · show ⟪A (r' + β • s.p), r'⟫ = ⟪A (r' + β • s.p), r' + β • s.p⟫
    rw [inner_add_right (A (r' + β • s.p)), inner_smul_right, hsym (r' + β • s.p) s.p, o4, mul_zero,
      add_zero]

/-- `forward_backward_pd` on the scalar bilinear problem `min_x ind_{b}(c x)`:
`f = 0` (prox = id), `h = 0`, `g = ind_{b}` (`prox_{σ g*}(w) = w − σ b`), `L = c·`, `m = 1`. -/
def fbpdBilinear {K : Type} [Field K] (c b τ σ : K) : FbpdP K K K :=
  ⟨1, fun _ x => c * x, fun _ y => c * y, id, fun _ => 0, fun _ w => w - σ * b, τ, fun _ => σ, none⟩

/-- invariant of the CODED (aliased) step: `σ e² + τ v² − σ τ c e v`, `e = x − x*` -/
def fbpdQ {K : Type} [Field K] (c τ σ xs : K) (s : FbpdS K K) : K :=
  σ * (s.x - xs) ^ 2 + τ * (s.v 0) ^ 2 - σ * τ * c * (s.x - xs) * s.v 0

/-- Lyapunov function of the DOCUMENTED step (`στ` times the `M`-norm of PDHG):
`σ e² − 2 σ τ c e v + τ v²`. -/
def fbpdN {K : Type} [Field K] (c τ σ : K) (e v : K) : K :=
  σ * e ^ 2 - 2 * σ * τ * c * e * v + τ * v ^ 2


theorem foldl_add_eq (l : List ℝ) (a : ℝ) : l.foldl (· + ·) a = a + l.sum := by
  induction l generalizing a with
  | nil => simp
  | cons x l ih => simp only [List.foldl_cons, ih, List.sum_cons]; ring

theorem sumK_eq_sum (l : List ℝ) : sumK l = l.sum := by
  unfold sumK; rw [foldl_add_eq]; simp

theorem natK_eq (n : Nat) : (natK n : ℝ) = n := by
  induction n with
  | zero => simp [natK]
  | succ n ih => simp [natK, ih]

/-- `Σ_i σ_i n_i²` as the code's condition reads it -/
noncomputable def drCond (sigma norms : List ℝ) : ℝ := sumK (List.zipWith (fun si n => si * (n * n)) sigma norms)

theorem drCond_default (norms : List ℝ) (hpos : ∀ n ∈ norms, 0 < n) (a : ℝ) :
    drCond (norms.map (fun n => a / (n * n))) norms = norms.length * a := by
  unfold drCond; rw [sumK_eq_sum]
  induction norms with
  | nil => simp
  | cons x l ih =>
    have hx : x ≠ 0 := ne_of_gt (hpos x (by simp))
    simp only [List.map_cons, List.zipWith_cons_cons, List.sum_cons, List.length_cons, Nat.cast_add,
      Nat.cast_one]
    rw [ih (fun n hn => hpos n (by simp [hn]))]
    field_simp; ring

/-- `∇l_i*(v)` when the `l` terms are given, `0` otherwise (`l = None`). -/
def lcGrad {Y : Type} [AddCommGroup Y] (gl : Option (Nat → Y → Y)) (i : Nat) (v : Y) : Y :=
  match gl with
  | some g => g i v
  | none => 0

/-- sub-differential of `|·|` on `ℝ` -/
def subAbs (p : ℝ) : Set ℝ := {g | (0 < p → g = 1) ∧ (p < 0 → g = -1) ∧ (p = 0 → |g| ≤ 1)}

end OdlModel.Solvers
