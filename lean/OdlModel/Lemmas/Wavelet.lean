/-
Helper lemma for C18 (wavelet coefficient layout).
-/
import OdlModel.Model.Wavelet
import Mathlib.Algebra.Field.Basic

namespace OdlModel.Wavelet
theorem unravel_aux {K : Type} (blocks : List (List K)) : ∀ (pre : List K) (suf : List K),
    unravel (slicesFrom pre.length (blocks.map List.length)) (pre ++ blocks.flatten ++ suf) = blocks := by
  induction blocks with
  | nil => intro pre suf; simp [unravel, slicesFrom]
  | cons b rest ih =>
    intro pre suf
    simp only [List.map_cons, slicesFrom, unravel, List.map_cons, List.flatten_cons]
    congr 1
    · simp [List.append_assoc, List.drop_left', List.take_left']
    · have := ih (pre ++ b) suf
      simp only [List.length_append, unravel, List.append_assoc] at this ⊢
      exact this

end OdlModel.Wavelet

namespace OdlModel.Wavelet
theorem slicesFrom_length (o : Nat) (l : List Nat) : (slicesFrom o l).length = l.length := by
  induction l generalizing o with
  | nil => rfl
  | cons a t ih => simp [slicesFrom, ih]
end OdlModel.Wavelet


namespace OdlModel.Wavelet
theorem foldl_weight_ones {K : Type} [Field K] (l : List ((K × K) × Nat × Nat))
    (h : ∀ t ∈ l, t.1 = ((1 : K), (1 : K))) (const : K) :
    l.foldl (fun acc (t : (K × K) × Nat × Nat) =>
      (acc * (if t.2.2 = 0 then t.1.1 else 1)) * (if t.2.2 + 1 = t.2.1 then t.1.2 else 1)) const
      = const := by
  induction l generalizing const with
  | nil => rfl
  | cons a r ih =>
    have ha : a.1 = ((1 : K), (1 : K)) := h a (by simp)
    rw [List.foldl_cons, ha]
    simp only [ite_self, mul_one]
    exact ih (fun t ht => h t (by simp [ht])) const
end OdlModel.Wavelet


namespace OdlModel.Wavelet
theorem crop_rule_aux (n r : Nat) (h : reconLenOk n r = true) : cropLen r n = .ok n := by
  simp only [reconLenOk, Bool.or_eq_true, beq_iff_eq, Bool.and_eq_true] at h
  unfold cropLen
  rcases h with h | ⟨h, _⟩
  · subst h; simp
  · subst h; simp
end OdlModel.Wavelet

namespace OdlModel.Wavelet
theorem mapM_crop (recon intended : List Nat) (hlen : recon.length = intended.length)
    (hok : ∀ p ∈ recon.zip intended, reconLenOk p.2 p.1 = true) :
    (recon.zip intended).mapM (fun (p : Nat × Nat) => cropLen p.1 p.2) = Except.ok intended := by
  induction recon generalizing intended with
  | nil => cases intended with
    | nil => rfl
    | cons a t => simp at hlen
  | cons r rs ih =>
    cases intended with
    | nil => simp at hlen
    | cons n ns =>
      have h1 : cropLen r n = .ok n := crop_rule_aux n r (hok (r, n) (by simp))
      have h2 := ih ns (by simpa using hlen) (fun p hp => hok p (by simp [hp]))
      simp only [List.zip_cons_cons, List.mapM_cons, h1, h2]
      rfl

end OdlModel.Wavelet

namespace OdlModel.Wavelet
theorem scaleBlocks_lengths_aux (details : List (List (String × List Nat))) (k : Nat) :
    ((details.zipIdx k).map fun (d, i) => (sortKeys d).map fun b => List.replicate (prod b.2) (i + 1)).flatten.map List.length
      = ((details.map sortKeys).flatten.map fun b => prod b.2) := by
  induction details generalizing k with
  | nil => rfl
  | cons d ds ih =>
    simp only [List.zipIdx_cons, List.map_cons, List.flatten_cons, List.map_append, ih (k + 1)]
    congr 1
    simp [List.map_map, Function.comp_def]
end OdlModel.Wavelet
