/-
Helper lemma for C18 (wavelet coefficient layout).
-/
import OdlModel.Model.Wavelet

namespace OdlModel.Wavelet
theorem unravel_aux {K : Type} (blocks : List (List K)) : ∀ (pre : List K) (suf : List K),
    unravel (slicesFrom pre.length (blocks.map List.length)) (pre ++ blocks.flatten ++ suf) = blocks := by
  induction blocks with
  | nil => intro pre suf; simp [unravel, slicesFrom]
  | cons b rest ih =>
    intro pre suf
    simp only [List.map_cons, slicesFrom, unravel, List.map_cons, List.flatten_cons]
    congr 1
    · simp [List.append_assoc, List.drop_left', List.take_left']
    · have := ih (pre ++ b) suf
      simp only [List.length_append, unravel, List.append_assoc] at this ⊢
      exact this

end OdlModel.Wavelet
