/-
C06 (round 4): real analysis for the norm-type leaves of `Model/DerivLeaves.lean` at `ℝ`
(`HasSqrt ℝ := Real.sqrt`): along every line `s ↦ x + s d` every output entry
`sqrt (sum of squares)` is differentiable at `0` wherever the sum of squares is non-zero, with
the derivative the returned linear operator computes.
-/
import OdlModel.Model.DerivLeaves
import OdlModel.Lemmas.Deriv
import Mathlib.Analysis.SpecialFunctions.Sqrt
import Mathlib.Analysis.Calculus.Deriv.Mul
import Mathlib.Analysis.Calculus.Deriv.Add
import Mathlib.Analysis.Calculus.Deriv.Abs
import Mathlib.Analysis.Calculus.Deriv.Comp
import Mathlib.Analysis.Calculus.FDeriv.Pi
import Mathlib.Analysis.Calculus.FDeriv.Mul
import Mathlib.Analysis.Calculus.FDeriv.Add
import Mathlib.Tactic.Ring
import Mathlib.Tactic.FieldSimp
import Mathlib.Tactic.Linarith
import Mathlib.Tactic.Positivity
namespace OdlModel.Deriv

noncomputable instance : HasSqrt ℝ := ⟨Real.sqrt⟩

theorem hasSqrt_real (a : ℝ) : HasSqrt.sqrt a = Real.sqrt a := rfl

section sumTo
variable {R : Type} [CommRing R]

theorem sumTo_congr_lt (m : Nat) (f g : Nat → R) (h : ∀ i, i < m → f i = g i) :
    sumTo m f = sumTo m g := by
  induction m with
  | zero => rfl
  | succ m ih =>
    simp only [sumTo]
    rw [ih (fun i hi => h i (Nat.lt_succ_of_lt hi)), h m (Nat.lt_succ_self m)]

end sumTo

theorem sumTo_sq_nonneg (m : Nat) (g : Nat → ℝ) : 0 ≤ sumTo m (fun i => g i * g i) := by
  induction m with
  | zero => simp [sumTo]
  | succ m ih => simp only [sumTo]; nlinarith [mul_self_nonneg (g m)]

theorem sumTo_sq_eq_zero (m : Nat) (g : Nat → ℝ) :
    sumTo m (fun i => g i * g i) = 0 ↔ ∀ i, i < m → g i = 0 := by
  induction m with
  | zero => simp [sumTo]
  | succ m ih =>
    simp only [sumTo]
    constructor
    · intro h i hi
      have h1 := sumTo_sq_nonneg m g
      have h2 := mul_self_nonneg (g m)
      have h3 : sumTo m (fun i => g i * g i) = 0 := by linarith
      have h4 : g m * g m = 0 := by linarith
      rcases Nat.lt_succ_iff_lt_or_eq.mp hi with hlt | rfl
      · exact ih.mp h3 i hlt
      · exact mul_self_eq_zero.mp h4
    · intro h
      rw [ih.mpr (fun i hi => h i (Nat.lt_succ_of_lt hi)), h m (Nat.lt_succ_self m)]
      ring

theorem sumTo_hasDerivAt (m : Nat) (f : Nat → ℝ → ℝ) (f' : Nat → ℝ) (s0 : ℝ)
    (h : ∀ i, HasDerivAt (f i) (f' i) s0) :
    HasDerivAt (fun s => sumTo m (fun i => f i s)) (sumTo m f') s0 := by
  induction m with
  | zero => simpa [sumTo] using hasDerivAt_const s0 (0 : ℝ)
  | succ m ih => exact ih.add (h m)

/-- The analytic core: `s ↦ sqrt (Σ_{i<m} (g_i + s e_i)²)` has derivative `Σ g_i e_i / sqrt (Σ g_i²)`
at `0` when `Σ g_i² ≠ 0`. -/
theorem sqrt_sumsq_line (m : Nat) (g e : Nat → ℝ) (hS : sumTo m (fun i => g i * g i) ≠ 0) :
    HasDerivAt (fun s : ℝ => Real.sqrt (sumTo m (fun i => (g i + s * e i) * (g i + s * e i))))
      (sumTo m (fun i => g i * e i) / Real.sqrt (sumTo m (fun i => g i * g i))) 0 := by
  have h1 : ∀ i, HasDerivAt (fun s : ℝ => (g i + s * e i) * (g i + s * e i)) (2 * (g i * e i)) 0 := by
    intro i
    have ha : HasDerivAt (fun s : ℝ => g i + s * e i) (e i) 0 := by
      simpa using ((hasDerivAt_id (0 : ℝ)).mul_const (e i)).const_add (g i)
    have hm : HasDerivAt (fun s : ℝ => (g i + s * e i) * (g i + s * e i))
        (e i * (g i + 0 * e i) + (g i + 0 * e i) * e i) 0 := ha.mul ha
    have e2 : 2 * (g i * e i) = e i * (g i + 0 * e i) + (g i + 0 * e i) * e i := by ring
    rw [e2]; exact hm
  have h2 := sumTo_hasDerivAt m (fun i s => (g i + s * e i) * (g i + s * e i)) _ 0 h1
  have e0 : sumTo m (fun i => (g i + (0 : ℝ) * e i) * (g i + (0 : ℝ) * e i))
      = sumTo m (fun i => g i * g i) := by
    apply sumTo_congr_lt; intro i _; ring
  have h3 := h2.sqrt (by simpa only [e0] using hS)
  simp only [e0] at h3
  convert h3 using 1
  rw [sumTo_mul_left]
  have hpos : Real.sqrt (sumTo m (fun i => g i * g i)) ≠ 0 :=
    Real.sqrt_ne_zero'.mpr (lt_of_le_of_ne (sumTo_sq_nonneg m g) (Ne.symm hS))
  field_simp

theorem sqrt_ne_zero_of_ne {a : ℝ} (h0 : 0 ≤ a) (h : a ≠ 0) : Real.sqrt a ≠ 0 :=
  Real.sqrt_ne_zero'.mpr (lt_of_le_of_ne h0 (Ne.symm h))

theorem sumTo_scale (m : Nat) (c : ℝ) (a b : Nat → ℝ) (h : ∀ i, i < m → b i = c * a i) :
    sumTo m b = c * sumTo m a := by
  rw [← sumTo_mul_left]; exact sumTo_congr_lt m _ _ h

theorem mul_add_mod_self (i n k : Nat) (hk : k < n) : (i * n + k) % n = k := by
  rw [Nat.mul_comm, Nat.mul_add_mod, Nat.mod_eq_of_lt hk]

/-- Every norm-type leaf over `ℝ`: where the sum of squares under the root of output entry `k` is
non-zero, `derivative(x)` does not raise and `s ↦ op(x + s d)_k` has the derivative
`derivative(x)(d)_k` at `0`. -/
theorem leaf_hasDerivAt_line [DecidableEq ℝ] (l : Leaf ℝ) (x d : Vec ℝ) (k : Nat)
    (hk : k < l.ran) (hs : l.ssq x k ≠ 0) :
    ∃ j, l.deriv x = some j ∧
      HasDerivAt (fun s : ℝ => l.run (fun m => x m + s * d m) k) (j.run d k) 0 := by
  cases l with
  | norm n =>
    have hS : sumTo n (fun j => x j * x j) ≠ 0 := hs
    have hne : Real.sqrt (sumTo n (fun j => x j * x j)) ≠ 0 :=
      sqrt_ne_zero_of_ne (sumTo_sq_nonneg n x) hS
    refine ⟨.inner n fun k => (1 / Real.sqrt (sumTo n (fun j => x j * x j))) * x k, ?_, ?_⟩
    · have hb : ¬ ((((Leaf.norm n : Leaf ℝ).run x 0) == (0 : ℝ)) = true) := by
        simpa [Leaf.run, Leaf.ssq, hasSqrt_real] using hne
      exact if_neg hb
    · have E : (Lin.inner n fun k => (1 / Real.sqrt (sumTo n (fun j => x j * x j))) * x k).run d k
          = sumTo n (fun j => x j * d j) / Real.sqrt (sumTo n (fun j => x j * x j)) := by
        simp only [Lin.run]
        rw [sumTo_scale n (1 / Real.sqrt (sumTo n (fun j => x j * x j))) (fun j => x j * d j) _
          (fun i _ => by ring)]
        ring
      rw [E]
      exact sqrt_sumsq_line n x d hS
  | l2norm n =>
    have hS : sumTo n (fun j => x j * x j) ≠ 0 := hs
    have hne : Real.sqrt (sumTo n (fun j => x j * x j)) ≠ 0 :=
      sqrt_ne_zero_of_ne (sumTo_sq_nonneg n x) hS
    refine ⟨.inner n fun k => (1 / Real.sqrt (sumTo n (fun j => x j * x j))) * x k, ?_, ?_⟩
    · have hb : ¬ ((((Leaf.l2norm n : Leaf ℝ).run x 0) == (0 : ℝ)) = true) := by
        simpa [Leaf.run, Leaf.ssq, hasSqrt_real] using hne
      exact if_neg hb
    · have E : (Lin.inner n fun k => (1 / Real.sqrt (sumTo n (fun j => x j * x j))) * x k).run d k
          = sumTo n (fun j => x j * d j) / Real.sqrt (sumTo n (fun j => x j * x j)) := by
        simp only [Lin.run]
        rw [sumTo_scale n (1 / Real.sqrt (sumTo n (fun j => x j * x j))) (fun j => x j * d j) _
          (fun i _ => by ring)]
        ring
      rw [E]
      exact sqrt_sumsq_line n x d hS
  | dist n y =>
    have hS : sumTo n (fun j => (y j - x j) * (y j - x j)) ≠ 0 := hs
    have hne : Real.sqrt (sumTo n (fun j => (y j - x j) * (y j - x j))) ≠ 0 :=
      sqrt_ne_zero_of_ne (sumTo_sq_nonneg n (fun j => y j - x j)) hS
    refine ⟨.inner n fun k =>
      (1 / Real.sqrt (sumTo n (fun j => (y j - x j) * (y j - x j)))) * (x k - y k), ?_, ?_⟩
    · have hb : ¬ ((((Leaf.dist n y).run x 0) == (0 : ℝ)) = true) := by
        simpa [Leaf.run, Leaf.ssq, hasSqrt_real] using hne
      exact if_neg hb
    · have E : (Lin.inner n fun k =>
            (1 / Real.sqrt (sumTo n (fun j => (y j - x j) * (y j - x j)))) * (x k - y k)).run d k
          = sumTo n (fun j => (y j - x j) * (- d j))
              / Real.sqrt (sumTo n (fun j => (y j - x j) * (y j - x j))) := by
        simp only [Lin.run]
        rw [sumTo_scale n (1 / Real.sqrt (sumTo n (fun j => (y j - x j) * (y j - x j))))
          (fun j => (y j - x j) * (- d j)) _ (fun i _ => by ring)]
        ring
      rw [E]
      have F : (fun s : ℝ => (Leaf.dist n y).run (fun m => x m + s * d m) k)
          = fun s : ℝ => Real.sqrt (sumTo n (fun j =>
              ((y j - x j) + s * (- d j)) * ((y j - x j) + s * (- d j)))) := by
        funext s
        simp only [Leaf.run, Leaf.ssq, hasSqrt_real]
        congr 1
        apply sumTo_congr_lt; intro i _; ring
      rw [F]
      exact sqrt_sumsq_line n (fun j => y j - x j) (fun j => - d j) hS
  | cmod n =>
    have hS : x k * x k + x (n + k) * x (n + k) ≠ 0 := hs
    refine ⟨.cmodd n x, rfl, ?_⟩
    let g : Nat → ℝ := fun i => if i = 0 then x k else x (n + k)
    let e : Nat → ℝ := fun i => if i = 0 then d k else d (n + k)
    have hS2 : sumTo 2 (fun i => g i * g i) ≠ 0 := by
      simpa [sumTo, g] using hS
    have h := sqrt_sumsq_line 2 g e hS2
    have F : (fun s : ℝ => (Leaf.cmod n : Leaf ℝ).run (fun m => x m + s * d m) k)
        = fun s : ℝ => Real.sqrt (sumTo 2 (fun i => (g i + s * e i) * (g i + s * e i))) := by
      funext s
      simp [Leaf.run, Leaf.ssq, hasSqrt_real, sumTo, g, e]
    have E : (Lin.cmodd n x).run d k
        = sumTo 2 (fun i => g i * e i) / Real.sqrt (sumTo 2 (fun i => g i * g i)) := by
      simp [Lin.run, hasSqrt_real, sumTo, g, e]
    rw [F, E]; exact h
  | pwnorm m n =>
    have hkn : k < n := hk
    have hS : sumTo m (fun i => x (i * n + k) * x (i * n + k)) ≠ 0 := hs
    have hne : Real.sqrt (sumTo m (fun i => x (i * n + k) * x (i * n + k))) ≠ 0 :=
      sqrt_ne_zero_of_ne (sumTo_sq_nonneg m (fun i => x (i * n + k))) hS
    refine ⟨_, rfl, ?_⟩
    have E : (Lin.pwinner m n fun t =>
          let fac := (Leaf.pwnorm m n : Leaf ℝ).run x (t % n)
          if fac == 0 then x t else x t / fac).run d k
        = sumTo m (fun i => x (i * n + k) * d (i * n + k))
            / Real.sqrt (sumTo m (fun i => x (i * n + k) * x (i * n + k))) := by
      simp only [Lin.run]
      rw [sumTo_scale m (1 / Real.sqrt (sumTo m (fun i => x (i * n + k) * x (i * n + k))))
        (fun i => x (i * n + k) * d (i * n + k)) _ ?_]
      · ring
      · intro i _
        have hb : ¬ ((((Leaf.pwnorm m n : Leaf ℝ).run x k) == (0 : ℝ)) = true) := by
          simpa [Leaf.run, Leaf.ssq, hasSqrt_real] using hne
        simp only [mul_add_mod_self i n k hkn]
        rw [if_neg hb]
        simp only [Leaf.run, Leaf.ssq, hasSqrt_real]
        ring
    rw [E]
    exact sqrt_sumsq_line m (fun i => x (i * n + k)) (fun i => d (i * n + k)) hS

/-- The returned operators are linear maps of the direction. -/
theorem lin_linear (j : Lin ℝ) (a : ℝ) (u v : Vec ℝ) (k : Nat) :
    j.run (fun t => a * u t + v t) k = a * j.run u k + j.run v k := by
  cases j with
  | inner n w =>
    simp only [Lin.run]
    rw [← sumTo_mul_left, ← sumTo_add]
    apply sumTo_congr_lt; intro i _; ring
  | cmodd n p =>
    simp only [Lin.run]; ring
  | pwinner m n g =>
    simp only [Lin.run]
    rw [← sumTo_mul_left, ← sumTo_add]
    apply sumTo_congr_lt; intro i _; ring

theorem norm_deriv_none_iff [DecidableEq ℝ] (n : Nat) (x : Vec ℝ) :
    (Leaf.norm n : Leaf ℝ).deriv x = none ↔ Real.sqrt (sumTo n fun j => x j * x j) = 0 := by
  by_cases hb : ((((Leaf.norm n : Leaf ℝ).run x 0) == (0 : ℝ)) = true)
  · have e : (Leaf.norm n : Leaf ℝ).deriv x = none := if_pos hb
    rw [e]
    have : (Leaf.norm n : Leaf ℝ).run x 0 = 0 := by simpa using hb
    exact ⟨fun _ => this, fun _ => rfl⟩
  · have e : (Leaf.norm n : Leaf ℝ).deriv x
        = some (.inner n fun k => (1 / (Leaf.norm n : Leaf ℝ).run x 0) * x k) := if_neg hb
    rw [e]
    have : (Leaf.norm n : Leaf ℝ).run x 0 ≠ 0 := by simpa using hb
    exact ⟨fun h => by simp at h, fun h => absurd h this⟩

theorem dist_deriv_none_iff [DecidableEq ℝ] (n : Nat) (y x : Vec ℝ) :
    (Leaf.dist n y).deriv x = none
      ↔ Real.sqrt (sumTo n fun j => (y j - x j) * (y j - x j)) = 0 := by
  by_cases hb : ((((Leaf.dist n y).run x 0) == (0 : ℝ)) = true)
  · have e : (Leaf.dist n y).deriv x = none := if_pos hb
    rw [e]
    have : (Leaf.dist n y).run x 0 = 0 := by simpa using hb
    exact ⟨fun _ => this, fun _ => rfl⟩
  · have e : (Leaf.dist n y).deriv x
        = some (.inner n fun k => (1 / (Leaf.dist n y).run x 0) * (x k - y k)) := if_neg hb
    rw [e]
    have : (Leaf.dist n y).run x 0 ≠ 0 := by simpa using hb
    exact ⟨fun h => by simp at h, fun h => absurd h this⟩

theorem l2norm_deriv_ne_none [DecidableEq ℝ] (n : Nat) (x : Vec ℝ) :
    (Leaf.l2norm n : Leaf ℝ).deriv x ≠ none := by
  by_cases hb : ((((Leaf.l2norm n : Leaf ℝ).run x 0) == (0 : ℝ)) = true)
  · have e : (Leaf.l2norm n : Leaf ℝ).deriv x = some (.inner n fun _ => 0) := if_pos hb
    rw [e]; simp
  · have e : (Leaf.l2norm n : Leaf ℝ).deriv x
        = some (.inner n fun k => (1 / (Leaf.l2norm n : Leaf ℝ).run x 0) * x k) := if_neg hb
    rw [e]; simp

/-! ### Fréchet form on `Fin N → ℝ` -/

/-- A vector of `rn(N)` as a model vector (entries beyond `N` are `0`). -/
def ext {N : Nat} (y : Fin N → ℝ) : Vec ℝ := fun j => if h : j < N then y ⟨j, h⟩ else 0

theorem ext_line {N : Nat} (x d : Fin N → ℝ) (s : ℝ) :
    ext (x + s • d) = fun m => ext x m + s * ext d m := by
  funext m
  by_cases h : m < N <;> simp [ext, h]

theorem differentiableAt_ext {N : Nat} (j : Nat) (x : Fin N → ℝ) :
    DifferentiableAt ℝ (fun y : Fin N → ℝ => ext y j) x := by
  by_cases h : j < N
  · simp only [ext, h, dite_true]
    exact differentiableAt_apply (𝕜 := ℝ) (⟨j, h⟩ : Fin N) x
  · simp only [ext, h, dite_false]
    exact differentiableAt_const _

theorem differentiableAt_sumTo {E : Type} [NormedAddCommGroup E] [NormedSpace ℝ E] (m : Nat)
    (f : Nat → E → ℝ) (x : E) (h : ∀ i, DifferentiableAt ℝ (f i) x) :
    DifferentiableAt ℝ (fun y => sumTo m (fun i => f i y)) x := by
  induction m with
  | zero => simp [sumTo]
  | succ m ih => exact ih.add (h m)

theorem differentiableAt_ssq {N : Nat} (l : Leaf ℝ) (k : Nat) (x : Fin N → ℝ) :
    DifferentiableAt ℝ (fun y : Fin N → ℝ => l.ssq (ext y) k) x := by
  cases l with
  | norm n =>
    exact differentiableAt_sumTo n _ x (fun i => (differentiableAt_ext i x).mul (differentiableAt_ext i x))
  | l2norm n =>
    exact differentiableAt_sumTo n _ x (fun i => (differentiableAt_ext i x).mul (differentiableAt_ext i x))
  | dist n y =>
    exact differentiableAt_sumTo n _ x (fun i =>
      ((differentiableAt_const (y i)).sub (differentiableAt_ext i x)).mul
        ((differentiableAt_const (y i)).sub (differentiableAt_ext i x)))
  | cmod n =>
    exact ((differentiableAt_ext k x).mul (differentiableAt_ext k x)).add
      ((differentiableAt_ext (n + k) x).mul (differentiableAt_ext (n + k) x))
  | pwnorm m n =>
    exact differentiableAt_sumTo m _ x (fun i =>
      (differentiableAt_ext (i * n + k) x).mul (differentiableAt_ext (i * n + k) x))

/-- Fréchet form. -/
theorem leaf_hasFDerivAt [DecidableEq ℝ] {N : Nat} (l : Leaf ℝ) (x : Fin N → ℝ) (k : Nat)
    (hk : k < l.ran) (hs : l.ssq (ext x) k ≠ 0) :
    ∃ j, l.deriv (ext x) = some j ∧ ∃ L : (Fin N → ℝ) →L[ℝ] ℝ,
      HasFDerivAt (fun y : Fin N → ℝ => l.run (ext y) k) L x ∧ ∀ d, L d = j.run (ext d) k := by
  have hdiff : DifferentiableAt ℝ (fun y : Fin N → ℝ => l.run (ext y) k) x := by
    have h1 := differentiableAt_ssq l k x
    exact h1.sqrt hs
  obtain ⟨j, hj, _⟩ := leaf_hasDerivAt_line l (ext x) (ext x) k hk hs
  refine ⟨j, hj, fderiv ℝ (fun y : Fin N → ℝ => l.run (ext y) k) x, hdiff.hasFDerivAt, fun d => ?_⟩
  obtain ⟨j', hj', hline⟩ := leaf_hasDerivAt_line l (ext x) (ext d) k hk hs
  have ej : j' = j := Option.some.inj (hj'.symm.trans hj)
  subst ej
  -- the line `s ↦ x + s • d`
  have hl : HasDerivAt (fun s : ℝ => x + s • d) d 0 := by
    simpa using ((hasDerivAt_id (0 : ℝ)).smul_const d).const_add x
  have hc := (hdiff.hasFDerivAt).comp_hasDerivAt_of_eq (0 : ℝ) hl (by simp)
  have e1 : ((fun y : Fin N → ℝ => l.run (ext y) k) ∘ fun s : ℝ => x + s • d)
      = fun s : ℝ => l.run (fun m => ext x m + s * ext d m) k := by
    funext s; simp only [Function.comp, ext_line]
  rw [e1] at hc
  exact hc.unique hline


/-! ### the singular points -/

theorem sqrt_sumsq_line_singular (m : Nat) (g e : Nat → ℝ) (hg : sumTo m (fun i => g i * g i) = 0)
    (he : sumTo m (fun i => e i * e i) ≠ 0) :
    ¬ DifferentiableAt ℝ
      (fun s : ℝ => Real.sqrt (sumTo m (fun i => (g i + s * e i) * (g i + s * e i)))) 0 := by
  have hg0 := (sumTo_sq_eq_zero m g).mp hg
  have hc : Real.sqrt (sumTo m (fun i => e i * e i)) ≠ 0 :=
    sqrt_ne_zero_of_ne (sumTo_sq_nonneg m e) he
  have F : (fun s : ℝ => Real.sqrt (sumTo m (fun i => (g i + s * e i) * (g i + s * e i))))
      = fun s : ℝ => |s| * Real.sqrt (sumTo m (fun i => e i * e i)) := by
    funext s
    have e1 : sumTo m (fun i => (g i + s * e i) * (g i + s * e i))
        = (s * s) * sumTo m (fun i => e i * e i) := by
      rw [← sumTo_mul_left]
      apply sumTo_congr_lt; intro i hi; rw [hg0 i hi]; ring
    rw [e1, Real.sqrt_mul (mul_self_nonneg s), Real.sqrt_mul_self_eq_abs]
  rw [F]
  intro h
  have h2 : DifferentiableAt ℝ
      (fun s : ℝ => |s| * Real.sqrt (sumTo m (fun i => e i * e i))
        * (Real.sqrt (sumTo m (fun i => e i * e i)))⁻¹) 0 := h.mul_const _
  have e2 : (fun s : ℝ => |s| * Real.sqrt (sumTo m (fun i => e i * e i))
        * (Real.sqrt (sumTo m (fun i => e i * e i)))⁻¹) = fun s : ℝ => |s| := by
    funext s; rw [mul_assoc, mul_inv_cancel₀ hc, mul_one]
  rw [e2] at h2
  exact not_differentiableAt_abs_zero h2

/-- The leaf with its reference vector removed: the directions along which `op` has a kink at a
singular point are measured by the sum of squares of the DIRECTION. -/
def Leaf.homog : Leaf ℝ → Leaf ℝ
  | .dist n _ => .norm n
  | l => l

/-- At a point of the non-differentiable set (sum of squares under the root `= 0`) and along every
direction that moves the entry, `s ↦ op(x + s d)_k` is NOT differentiable at `0`. -/
theorem leaf_not_differentiableAt_singular (l : Leaf ℝ) (x d : Vec ℝ) (k : Nat)
    (hs : l.ssq x k = 0) (hd : l.homog.ssq d k ≠ 0) :
    ¬ DifferentiableAt ℝ (fun s : ℝ => l.run (fun m => x m + s * d m) k) 0 := by
  cases l with
  | norm n => exact sqrt_sumsq_line_singular n x d hs hd
  | l2norm n => exact sqrt_sumsq_line_singular n x d hs hd
  | dist n y =>
    have hd' : sumTo n (fun j => (- d j) * (- d j)) ≠ 0 := by
      have : sumTo n (fun j => (- d j) * (- d j)) = sumTo n (fun j => d j * d j) := by
        apply sumTo_congr_lt; intro i _; ring
      rw [this]; exact hd
    have h := sqrt_sumsq_line_singular n (fun j => y j - x j) (fun j => - d j) hs hd'
    have F : (fun s : ℝ => (Leaf.dist n y).run (fun m => x m + s * d m) k)
        = fun s : ℝ => Real.sqrt (sumTo n (fun j =>
            ((y j - x j) + s * (- d j)) * ((y j - x j) + s * (- d j)))) := by
      funext s
      simp only [Leaf.run, Leaf.ssq, hasSqrt_real]
      congr 1
      apply sumTo_congr_lt; intro i _; ring
    rw [F]; exact h
  | cmod n =>
    let g : Nat → ℝ := fun i => if i = 0 then x k else x (n + k)
    let e : Nat → ℝ := fun i => if i = 0 then d k else d (n + k)
    have hs2 : sumTo 2 (fun i => g i * g i) = 0 := by
      have : x k * x k + x (n + k) * x (n + k) = 0 := hs
      simpa [sumTo, g] using this
    have hd2 : sumTo 2 (fun i => e i * e i) ≠ 0 := by
      have : d k * d k + d (n + k) * d (n + k) ≠ 0 := hd
      simpa [sumTo, e] using this
    have h := sqrt_sumsq_line_singular 2 g e hs2 hd2
    have F : (fun s : ℝ => (Leaf.cmod n : Leaf ℝ).run (fun m => x m + s * d m) k)
        = fun s : ℝ => Real.sqrt (sumTo 2 (fun i => (g i + s * e i) * (g i + s * e i))) := by
      funext s
      simp [Leaf.run, Leaf.ssq, hasSqrt_real, sumTo, g, e]
    rw [F]; exact h
  | pwnorm m n =>
    exact sqrt_sumsq_line_singular m (fun i => x (i * n + k)) (fun i => d (i * n + k)) hs hd


end OdlModel.Deriv
