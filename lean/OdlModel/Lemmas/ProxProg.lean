/-
Helper lemmas for the buffer-language proofs (C10, C03): pushing projections and
applications through `if`, so that `simp` can evaluate straight-line programs whose
data-dependent branches (`ifC`) stay symbolic.
-/
import OdlModel.Model.ProxProg

namespace OdlModel.Prox.Lemmas
open OdlModel.Prox

theorem ite_fst' {α β} (c : Prop) [Decidable c] (a b : α × β) :
    (if c then a else b).1 = if c then a.1 else b.1 := by split <;> rfl
theorem ite_snd' {α β} (c : Prop) [Decidable c] (a b : α × β) :
    (if c then a else b).2 = if c then a.2 else b.2 := by split <;> rfl
theorem ite_mem' {K} (c : Prop) [Decidable c] (a b : St K) :
    (if c then a else b).mem = if c then a.mem else b.mem := by split <;> rfl
theorem ite_app' {α β} (c : Prop) [Decidable c] (f g : α → β) (x : α) :
    (if c then f else g) x = if c then f x else g x := by split <;> rfl

end OdlModel.Prox.Lemmas
