/-
Helper lemmas for the round-4 theorems of C12: mutual conjugacy of ALL conjugate-gradient
directions (Krylov argument), the stop invariant of `conjugate_gradient` for definite operators,
and the monotonicity of the power-method estimates for symmetric operators.
-/
import OdlModel.Lemmas.SolversAnalysis
import Mathlib.LinearAlgebra.Dimension.Finite

open OdlModel.Solvers
open RealInnerProductSpace

variable {E F : Type} [NormedAddCommGroup E] [InnerProductSpace ℝ E]
  [NormedAddCommGroup F] [InnerProductSpace ℝ F]

namespace OdlModel.Solvers

/-- The CG recurrences (`r⁺ = r − α A p`, `p⁺ = r⁺ + β p`, `p₀ = r₀`, `α ≠ 0`) together with the
CONSECUTIVE relations imply orthogonality of ALL residuals and conjugacy of ALL directions. -/
theorem cg_all_conj_abstract (A : E →ₗ[ℝ] E) (hsym : ∀ u v, ⟪A u, v⟫ = ⟪u, A v⟫)
    (r p : ℕ → E) (α β : ℕ → ℝ) (n : ℕ)
    (H1 : ∀ k < n, r (k + 1) = r k - α k • A (p k))
    (H2 : ∀ k < n, p (k + 1) = r (k + 1) + β k • p k)
    (H3 : p 0 = r 0)
    (H4 : ∀ k < n, α k ≠ 0)
    (H5 : ∀ k < n, ⟪r (k + 1), r k⟫ = 0 ∧ ⟪p (k + 1), A (p k)⟫ = 0) :
    ∀ j ≤ n, ∀ i < j, ⟪r j, r i⟫ = 0 ∧ ⟪p j, A (p i)⟫ = 0 := by
  intro j
  induction j using Nat.strong_induction_on with
  | _ j ih =>
    intro hj i hi
    cases j with
    | zero => exact absurd hi (Nat.not_lt_zero _)
    | succ m =>
      have hm : m < n := hj
      have IH : ∀ i < m, ⟪r m, r i⟫ = 0 ∧ ⟪p m, A (p i)⟫ = 0 :=
        ih m (Nat.lt_succ_self m) (Nat.le_of_lt hm)
      -- (a) the new residual is orthogonal to all previous ones
      have ha : ∀ i ≤ m, ⟪r (m + 1), r i⟫ = 0 := by
        intro i him
        rcases Nat.lt_or_eq_of_le him with hlt | heq
        · have hApr : ⟪A (p m), r i⟫ = 0 := by
            cases i with
            | zero => rw [← H3, hsym]; exact (IH 0 hlt).2
            | succ i' =>
              have hi'n : i' < n := by omega
              have : r (i' + 1) = p (i' + 1) - β i' • p i' := by rw [H2 i' hi'n]; abel
              rw [this, inner_sub_right, inner_smul_right, hsym, hsym, (IH (i' + 1) hlt).2,
                (IH i' (by omega)).2]
              ring
          rw [H1 m hm, inner_sub_left, inner_smul_left, (IH i hlt).1, hApr]
          simp
        · rw [heq]; exact (H5 m hm).1
      refine ⟨ha i (Nat.le_of_lt_succ hi), ?_⟩
      rcases Nat.lt_or_eq_of_le (Nat.le_of_lt_succ hi) with hlt | heq
      · have hin : i < n := by omega
        have hr : ⟪r (m + 1), A (p i)⟫ = 0 := by
          have e : α i • A (p i) = r i - r (i + 1) := by rw [H1 i hin]; abel
          have h2 : ⟪r (m + 1), α i • A (p i)⟫ = 0 := by
            rw [e, inner_sub_right, ha i (by omega), ha (i + 1) (by omega)]; ring
          rw [inner_smul_right] at h2
          rcases mul_eq_zero.mp h2 with h | h
          · exact absurd h (H4 i hin)
          · exact h
        rw [H2 m hm, inner_add_left, inner_smul_left, hr, (IH i hlt).2]
        simp
      · rw [heq]; exact (H5 m hm).2


/-- explicit form of an executed loop body of `conjugate_gradient` -/
theorem cg_step_eqs (A : E →ₗ[ℝ] E) (b : E) (s : CgS ℝ E) (hst : s.stopped = false)
    (hip : ⟪s.p, A s.p⟫ ≠ 0) :
    ((cgReal A b).step s).r = s.r - (s.sqnormROld / ⟪s.p, A s.p⟫) • A s.p ∧
    ((cgReal A b).step s).p = ((cgReal A b).step s).r +
      (‖((cgReal A b).step s).r‖ ^ 2 / s.sqnormROld) • s.p ∧
    ((cgReal A b).step s).x = s.x + (s.sqnormROld / ⟪s.p, A s.p⟫) • s.p ∧
    ((cgReal A b).step s).stopped = false := by
  unfold CgP.step
  simp only [hst, Bool.false_eq_true, if_false, cgReal, hip, lincomb]
  refine ⟨by module, by module, by module, trivial⟩

/-- `CgInv2` is preserved by EVERY loop body (symmetric `A`). -/
theorem cg_inv2_step (A : E →ₗ[ℝ] E) (hsym : ∀ u v, ⟪A u, v⟫ = ⟪u, A v⟫) (b : E) (u : CgS ℝ E)
    (hu : CgInv2 A b u) : CgInv2 A b ((cgReal A b).step u) := by
  by_cases h1 : u.stopped = false
  · by_cases h2 : ⟪u.p, A u.p⟫ = 0
    · have : (cgReal A b).step u = { u with d := A u.p, stopped := true } := by
        unfold CgP.step; simp only [h1, Bool.false_eq_true, if_false, cgReal, h2, if_true]
      rw [this]; exact hu
    · by_cases h3 : u.sqnormROld = 0
      · have hr0 : u.r = 0 := by
          have := hu.1.2.2; rw [h3] at this
          exact norm_eq_zero.mp (pow_eq_zero_iff two_ne_zero |>.mp this.symm)
        have : (cgReal A b).step u =
            ⟨u.x, 0, (0 : E), A u.p, 0, false, u.log ++ [lincomb (1 : ℝ) u.x (0 : ℝ) u.p]⟩ := by
          unfold CgP.step
          simp only [h1, Bool.false_eq_true, if_false, cgReal, h2, h3, zero_div, neg_zero, hr0,
            lincomb, zero_smul, add_zero, one_smul, norm_zero, ne_eq, OfNat.ofNat_ne_zero,
            not_false_eq_true, zero_pow, div_zero, smul_zero]
        rw [this]
        refine ⟨⟨?_, ?_, ?_⟩, ?_⟩
        · show (0 : E) = b - A u.x; rw [← hu.1.1, hr0]
        · show ⟪(0 : E), (0 : E)⟫ = ‖(0 : E)‖ ^ 2; simp
        · show (0 : ℝ) = ‖(0 : E)‖ ^ 2; simp
        · show ⟪A (0 : E), (0 : E)⟫ = ⟪A (0 : E), (0 : E)⟫; rfl
      · exact (cg_step2 A hsym b u hu h1 h2 h3).1
  · have : (cgReal A b).step u = u := by
      unfold CgP.step; simp only [Bool.not_eq_false] at h1; simp only [h1, if_true]
    rw [this]; exact hu

/-- once the residual is zero it stays zero and the iterate no longer moves -/
theorem cg_r_zero_stays (A : E →ₗ[ℝ] E) (b : E) (s : CgS ℝ E) (h : CgInv A b s) (hr : s.r = 0) :
    ((cgReal A b).step s).r = 0 ∧ ((cgReal A b).step s).x = s.x := by
  by_cases h1 : s.stopped = false
  · by_cases h2 : ⟪s.p, A s.p⟫ = 0
    · have : (cgReal A b).step s = { s with d := A s.p, stopped := true } := by
        unfold CgP.step; simp only [h1, Bool.false_eq_true, if_false, cgReal, h2, if_true]
      rw [this]; exact ⟨hr, rfl⟩
    · obtain ⟨e1, _, e3, _⟩ := cg_step_eqs A b s h1 h2
      have hsq : s.sqnormROld = 0 := by rw [h.2.2, hr]; simp
      rw [e1, e3, hsq, hr]; simp
  · have : (cgReal A b).step s = s := by
      unfold CgP.step; simp only [Bool.not_eq_false] at h1; simp only [h1, if_true]
    rw [this]; exact ⟨hr, rfl⟩

/-- for a definite `A`: a stopped state has zero residual -/
def CgStopInv (s : CgS ℝ E) : Prop := s.stopped = true → s.r = 0

theorem cg_stop_init (A : E →ₗ[ℝ] E) (b x0 junk : E) : CgStopInv ((cgReal A b).init x0 junk) := by
  intro h
  simp only [CgP.init, cgReal] at h ⊢
  exact norm_eq_zero.mp (pow_eq_zero_iff two_ne_zero |>.mp (of_decide_eq_true h))

theorem cg_stop_step (A : E →ₗ[ℝ] E) (hdef : ∀ u, ⟪u, A u⟫ = 0 → u = 0) (b : E) (s : CgS ℝ E)
    (h : CgInv A b s) (hs : CgStopInv s) : CgStopInv ((cgReal A b).step s) := by
  by_cases h1 : s.stopped = false
  · by_cases h2 : ⟪s.p, A s.p⟫ = 0
    · have : (cgReal A b).step s = { s with d := A s.p, stopped := true } := by
        unfold CgP.step; simp only [h1, Bool.false_eq_true, if_false, cgReal, h2, if_true]
      rw [this]; intro _
      show s.r = 0
      have hp := hdef _ h2
      have := h.2.1; rw [hp, inner_zero_right] at this
      exact norm_eq_zero.mp (pow_eq_zero_iff two_ne_zero |>.mp this.symm)
    · intro hst; rw [(cg_step_eqs A b s h1 h2).2.2.2] at hst; cases hst
  · have : (cgReal A b).step s = s := by
      unfold CgP.step; simp only [Bool.not_eq_false] at h1; simp only [h1, if_true]
    rw [this]; exact hs


/-! ### power method -/

/-- symmetric `B`, `‖x‖ = 1`: the Rayleigh-type quotient grows along the power iteration -/
theorem power_sym_key (B : E →ₗ[ℝ] E) (hsym : ∀ u v, ⟪B u, v⟫ = ⟪u, B v⟫) (x : E) (hx : ‖x‖ = 1)
    (h0 : ‖B x‖ ≠ 0) : ‖B x‖ ≤ ‖B (((1 : ℝ) / ‖B x‖) • B x)‖ := by
  have hp : 0 < ‖B x‖ := lt_of_le_of_ne (norm_nonneg _) (Ne.symm h0)
  have h1 : ‖B x‖ ^ 2 ≤ ‖B (B x)‖ := by
    have : ‖B x‖ ^ 2 = ⟪x, B (B x)⟫ := by rw [← hsym, real_inner_self_eq_norm_sq]
    rw [this]
    have := real_inner_le_norm x (B (B x))
    rwa [hx, one_mul] at this
  rw [map_smul, norm_smul, Real.norm_eq_abs, abs_of_pos (by positivity)]
  rw [one_div, ← div_eq_inv_mul, le_div_iff₀ hp]
  nlinarith

/-- invariant: while running, `x` is normalised and the stored estimate is at most the next one -/
def PowerMonoInv (next : E → ℝ) (s : PowerS ℝ E) : Prop :=
  s.failed = false → s.done = false → ‖s.x‖ = 1 ∧ s.opnorm ≤ next s.x

theorem powerSelf_mono_step (A : E →ₗ[ℝ] E) (hsym : ∀ u v, ⟪A u, v⟫ = ⟪u, A v⟫) (isZero : ℝ → Bool)
    (hz : ∀ k, k = 0 → isZero k = true) (isClose : ℝ → ℝ → Bool) (s : PowerS ℝ E) :
    (PowerInv1 s → PowerMonoInv (fun x => ‖A x‖) ((powerSelfReal A isZero isClose).step s)) ∧
    (PowerMonoInv (fun x => ‖A x‖) s → s.opnorm ≤ ((powerSelfReal A isZero isClose).step s).opnorm) := by
  unfold PowerSelfP.step PowerMonoInv PowerInv1
  simp only [powerSelfReal]
  by_cases hdf : (s.done || s.failed) = true
  · simp only [hdf, if_true]
    refine ⟨fun _ hf hd => ?_, fun _ => le_rfl⟩
    rcases Bool.or_eq_true _ _ |>.mp hdf with h | h <;> simp_all
  · simp only [hdf, Bool.false_eq_true, if_false]
    have hd : s.done = false := by cases hh : s.done <;> simp_all
    have hf : s.failed = false := by cases hh : s.failed <;> simp_all
    by_cases hzn : isZero ‖A s.x‖ = true
    · simp only [hzn, if_true]
      exact ⟨fun _ h => by simp at h, fun _ => le_rfl⟩
    · simp only [hzn, Bool.false_eq_true, if_false]
      have hn0 : ‖A s.x‖ ≠ 0 := fun h0 => hzn (hz _ h0)
      by_cases hcl : isClose ‖A s.x‖ s.opnorm = true
      · simp only [hcl, if_true]
        exact ⟨fun _ _ h => by simp at h, fun h => (h hf hd).2⟩
      · simp only [hcl, Bool.false_eq_true, if_false]
        refine ⟨fun h _ _ => ⟨norm_normalize _ hn0, power_sym_key A hsym s.x (h hf hd) hn0⟩,
          fun h => (h hf hd).2⟩


theorem power_mono_step (A : E →ₗ[ℝ] F) (At : F →ₗ[ℝ] E) (hadj : AdjPair A At) (isZero : ℝ → Bool)
    (hz : ∀ k, k = 0 → isZero k = true) (isClose : ℝ → ℝ → Bool) (s : PowerS ℝ E) :
    (PowerInv1 s → PowerMonoInv (fun x => Real.sqrt ‖At (A x)‖) ((powerReal A At isZero isClose).stepNormal s)) ∧
    (PowerMonoInv (fun x => Real.sqrt ‖At (A x)‖) s →
      s.opnorm ≤ ((powerReal A At isZero isClose).stepNormal s).opnorm) := by
  have hsym : ∀ u v, ⟪(At ∘ₗ A) u, v⟫ = ⟪u, (At ∘ₗ A) v⟫ := by
    intro u v
    simp only [LinearMap.comp_apply]
    rw [← hadj u (A v), real_inner_comm, ← hadj v (A u), real_inner_comm]
  unfold PowerP.stepNormal PowerMonoInv PowerInv1
  simp only [powerReal]
  by_cases hdf : (s.done || s.failed) = true
  · simp only [hdf, if_true]
    refine ⟨fun _ hf hd => ?_, fun _ => le_rfl⟩
    rcases Bool.or_eq_true _ _ |>.mp hdf with h | h <;> simp_all
  · simp only [hdf, Bool.false_eq_true, if_false]
    have hd : s.done = false := by cases hh : s.done <;> simp_all
    have hf : s.failed = false := by cases hh : s.failed <;> simp_all
    by_cases hzn : isZero ‖At (A s.x)‖ = true
    · simp only [hzn, if_true]
      exact ⟨fun _ h => by simp at h, fun _ => le_rfl⟩
    · simp only [hzn, Bool.false_eq_true, if_false]
      have hn0 : ‖At (A s.x)‖ ≠ 0 := fun h0 => hzn (hz _ h0)
      by_cases hcl : isClose (Real.sqrt ‖At (A s.x)‖) s.opnorm = true
      · simp only [hcl, if_true]
        exact ⟨fun _ _ h => by simp at h, fun h => (h hf hd).2⟩
      · simp only [hcl, Bool.false_eq_true, if_false]
        refine ⟨fun h _ _ => ⟨norm_normalize _ hn0, Real.sqrt_le_sqrt ?_⟩, fun h => (h hf hd).2⟩
        exact power_sym_key (At ∘ₗ A) hsym s.x (h hf hd) hn0


end OdlModel.Solvers
