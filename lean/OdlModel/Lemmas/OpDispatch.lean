/-
C04: the dispatch tables extracted from the Python source (`Gen/AlgebraDispatch.lean`),
run through the interpreter of `Model/OpDispatch.lean`, coincide overload by overload with the
hand-written dispatch functions of `Model/OpAlgebra.lean`.  These lemmas are re-checked
whenever the generated file changes; they are closed by `simp` over the generated terms.
-/
import OdlModel.Lemmas.OpAlgebra
import OdlModel.Gen.AlgebraDispatch
open OdlModel.OpAlgebra OdlModel.Gen.AlgebraDispatch
namespace OdlModel.OpAlgebra
variable {K : Type} [Field K] [DecidableEq K]

theorem linBy_eq_lin (i : Impl K) : i.linBy flagOf = i.lin := by
  induction i with
  | leaf l => rfl
  | sum fn l r ihl ihr => cases fn <;> simp [Impl.linBy, flagOf, Flag.apply, ihl, ihr]
  | scalSum f c ih => simp [Impl.linBy, flagOf, Flag.apply, ih]
  | vecSum a v ih => simp [Impl.linBy, flagOf, Flag.apply]
  | comp fn l r ihl ihr => cases fn <;> simp [Impl.linBy, flagOf, Flag.apply, ihl, ihr]
  | pprod fn l r ihl ihr => cases fn <;> simp [Impl.linBy, flagOf, Flag.apply]
  | quot l r ihl ihr => simp [Impl.linBy, flagOf, Flag.apply]
  | lscal fn a s ih => cases fn <;> simp [Impl.linBy, flagOf, Flag.apply, ih]
  | rscal fn a s ih => cases fn <;> simp [Impl.linBy, flagOf, Flag.apply, ih]
  | lvec a v ih => simp [Impl.linBy, flagOf, Flag.apply, ih]
  | rvec fn a v ih => cases fn <;> simp [Impl.linBy, flagOf, Flag.apply, ih]
  | flvec a v ih => simp [Impl.linBy, flagOf, Flag.apply, ih]
  | const d c => simp [Impl.linBy, flagOf, Flag.apply]
  | zero d => simp [Impl.linBy, flagOf, Flag.apply]

theorem dRMul_scal (env : Nat → Vec K → Vec K) (a : Impl K) (s : K) (re : Bool) (h : FnRan a) :
    dispatchRMul tables env a (.scal s re) = some (opRMulScal s a) := by
  unfold dispatchRMul opRMulScal
  by_cases hf : a.isFn = true
  · have hr := h hf
    by_cases hs : s = 0 <;>
      simp [hf, hr, hs, tables, functionalRMul, operatorRMul, Act.eval, Guard.eval, construct, ctorLScal, ctorRScal]
  · have hf' : a.isFn = false := by simpa using hf
    simp [hf', tables, operatorRMul, Act.eval, Guard.eval, construct, ctorLScal, ctorRScal]

theorem dRMul_vec (env : Nat → Vec K → Vec K) (a : Impl K) (v : VecLit K) (h : FnRan a) :
    dispatchRMul tables env a (.vec v) = opRMulVec v a := by
  unfold dispatchRMul opRMulVec
  by_cases hf : a.isFn = true
  · have hr := h hf
    simp [hf, hr, tables, functionalRMul, operatorRMul, Act.eval, Guard.eval, construct, ctorLScal, ctorRScal]
  · have hf' : a.isFn = false := by simpa using hf
    by_cases h1 : a.ran = .vec v.n <;> by_cases h2 : a.ran = .fld <;>
      simp [hf', h1, h2, tables, operatorRMul, Act.eval, Guard.eval, construct, ctorLScal, ctorRScal]

theorem dMul_op (env : Nat → Vec K → Vec K) (a b : Impl K) (h : FnRan a) :
    dispatchMul tables env a (.op b) = opMul a b := by
  unfold dispatchMul opMul
  by_cases hf : a.isFn = true
  · have hr := h hf
    simp [hf, hr, tables, functionalMul, Act.eval, Guard.eval, construct, ctorLScal, ctorRScal, ctorComp]
  · have hf' : a.isFn = false := by simpa using hf
    cases hp : rscalParts a <;>
      simp [hf', hp, tables, rscalMul, operatorMul, Act.eval, Guard.eval, construct, ctorLScal, ctorRScal, ctorComp]

theorem dMul_scal (env : Nat → Vec K → Vec K) (a : Impl K) (s : K) (re : Bool) (h : FnRan a) :
    dispatchMul tables env a (.scal s re) = some (opMulScal env a s re) := by
  unfold dispatchMul opMulScal
  by_cases hf : a.isFn = true
  · have hr := h hf
    by_cases hs : s = 0 <;> by_cases hl : a.lin = true <;> cases re <;>
      simp [hf, hr, hs, hl, tables, functionalMul, Act.eval, Guard.eval, construct, ctorLScal, ctorRScal]
  · have hf' : a.isFn = false := by simpa using hf
    cases hp : rscalParts a with
    | some p =>
      obtain ⟨a', t⟩ := p
      simp [hf', hp, tables, rscalMul, Act.eval, Guard.eval, construct, ctorLScal, ctorRScal]
    | none =>
      by_cases hl : a.lin = true
      · cases re
        · simp [hf', hl, tables, operatorMul, Act.eval, Guard.eval, construct, ctorLScal, ctorRScal]
        · have := dRMul_scal env a s true h
          simp [hf', hl, tables, operatorMul, Act.eval, Guard.eval, ctorLScal, ctorRScal] at this ⊢
          exact this
      · simp [hf', hl, tables, operatorMul, Act.eval, Guard.eval, construct, ctorLScal, ctorRScal]

theorem dMul_vec (env : Nat → Vec K → Vec K) (a : Impl K) (v : VecLit K) (h : FnRan a) :
    dispatchMul tables env a (.vec v) = opMulVec a v := by
  unfold dispatchMul opMulVec
  by_cases hf : a.isFn = true
  · have hr := h hf
    by_cases h1 : a.dom = .vec v.n <;>
      cases hp : rscalParts a <;>
      simp [hf, hr, h1, hp, tables, functionalMul, rscalMul, operatorMul, Act.eval, Guard.eval,
        construct]
  · have hf' : a.isFn = false := by simpa using hf
    by_cases h1 : a.dom = .vec v.n <;>
      cases hp : rscalParts a <;>
      simp [hf', h1, hp, tables, rscalMul, operatorMul, Act.eval, Guard.eval, construct, ctorLScal, ctorRScal]

theorem dAdd_op (env : Nat → Vec K → Vec K) (a b : Impl K) :
    dispatchAdd tables env a (.op b) = mkSum a b := by
  unfold dispatchAdd mkSum
  by_cases hf : a.isFn = true
  · by_cases hb : b.isFn = true
    · simp [hf, hb, tables, functionalAdd, Act.eval, Guard.eval, construct, ctorLScal, ctorRScal, ctorSum]
    · have hb' : b.isFn = false := by simpa using hb
      simp [hf, hb', tables, functionalAdd, operatorAdd, Act.eval, Guard.eval, construct, ctorLScal, ctorRScal, ctorSum]
  · have hf' : a.isFn = false := by simpa using hf
    simp [hf', tables, operatorAdd, Act.eval, Guard.eval, construct, ctorLScal, ctorRScal, ctorSum]

theorem dAdd_scal (env : Nat → Vec K → Vec K) (a : Impl K) (s : K) (re : Bool) (h : FnRan a) :
    dispatchAdd tables env a (.scal s re) = opAddScal a s := by
  unfold dispatchAdd opAddScal
  by_cases hf : a.isFn = true
  · have hr := h hf
    simp [hf, hr, tables, functionalAdd, Act.eval, Guard.eval, construct, ctorLScal, ctorRScal]
  · have hf' : a.isFn = false := by simpa using hf
    cases hr : a.ran <;>
      simp [hf', hr, tables, operatorAdd, Act.eval, Guard.eval, construct, ctorLScal, ctorRScal]

theorem dAdd_vec (env : Nat → Vec K → Vec K) (a : Impl K) (v : VecLit K) (h : FnRan a) :
    dispatchAdd tables env a (.vec v) = opAddVec a v.val v.n := by
  unfold dispatchAdd opAddVec
  by_cases hf : a.isFn = true
  · have hr := h hf
    simp [hf, hr, tables, functionalAdd, operatorAdd, Act.eval, Guard.eval, construct, ctorLScal, ctorRScal]
  · have hf' : a.isFn = false := by simpa using hf
    by_cases h1 : a.ran = .vec v.n <;>
      simp [hf', h1, tables, operatorAdd, Act.eval, Guard.eval, construct, ctorLScal, ctorRScal]

theorem pyAdd_op (env : Nat → Vec K → Vec K) (a b : Impl K) :
    pyAdd tables env a (.op b) = opAdd a b := by
  simp only [pyAdd, opAdd]
  split_ifs <;> exact dAdd_op env _ _

omit [Field K] [DecidableEq K] in
theorem reflectedFirst_isFn {a b : Impl K} (h : reflectedFirst a b = true) :
    a.isFn = false ∧ b.isFn = true := by
  unfold reflectedFirst at h
  split at h <;> simp_all

theorem pyMul_op (env : Nat → Vec K → Vec K) (a b : Impl K) (ha : FnRan a) (hb : FnRan b) :
    pyMul tables env a (.op b) = opMul a b := by
  simp only [pyMul]
  split_ifs with h
  · obtain ⟨ha, hbf⟩ := reflectedFirst_isFn h
    have hr := hb hbf
    unfold dispatchRMul opMul
    simp [ha, hbf, hr, tables, functionalRMul, operatorRMul, Act.eval, Guard.eval, construct, ctorLScal, ctorRScal,
      ctorComp]
  · exact dMul_op env a b ha

/-- the extracted out-of-place `_call` table computes what `run` computes -/
theorem runBy_eq_run (env : Nat → Vec K → Vec K) (i : Impl K) :
    ∀ x, runBy callOf env i x = run env i x := by
  induction i with
  | leaf l => intro x; rfl
  | sum fn l r ihl ihr =>
    intro x; cases fn <;> simp [runBy, callOf, CExpr.eval, run, ihl, ihr]
  | scalSum f c ih => intro x; simp [runBy, callOf, CExpr.eval, run, ih]
  | vecSum a v ih => intro x; simp [runBy, callOf, CExpr.eval, run, ih]
  | comp fn l r ihl ihr =>
    intro x; cases fn <;> simp [runBy, callOf, CExpr.eval, run, ihl, ihr]
  | pprod fn l r ihl ihr =>
    intro x; cases fn <;> simp [runBy, callOf, CExpr.eval, run, ihl, ihr]
  | quot l r ihl ihr => intro x; simp [runBy, callOf, CExpr.eval, run, ihl, ihr]
  | lscal fn a s ih => intro x; cases fn <;> simp [runBy, callOf, CExpr.eval, run, ih]
  | rscal fn a s ih => intro x; cases fn <;> simp [runBy, callOf, CExpr.eval, run, ih]
  | lvec a v ih => intro x; simp [runBy, callOf, CExpr.eval, run, ih]
  | rvec fn a v ih => intro x; cases fn <;> simp [runBy, callOf, CExpr.eval, run, ih]
  | flvec a v ih => intro x; simp [runBy, callOf, CExpr.eval, run, ih]
  | const d c => intro x; simp [runBy, callOf, CExpr.eval, run]
  | zero d => intro x; simp only [runBy, callOf, CExpr.eval, run]; rfl

/-- the EXTRACTED in-place statement lists, interpreted with arbitrary contents of the `out`
buffer (`o`) and of every fresh temporary (`junk`), compute what `run` computes -/
theorem runInBy_eq_run (env : Nat → Vec K → Vec K) (junk : Vec K) (i : Impl K) :
    ∀ x o, runInBy inplaceOf callOf env junk i x o = run env i x := by
  have hb := runBy_eq_run env
  induction i with
  | leaf l => intro x o; rfl
  | sum fn l r ihl ihr =>
    intro x o; funext j
    cases fn <;> simp [runInBy, inplaceOf, Prog.exec, execStmts, Stmt.exec, St.set, St.get,
      Opd.val, run, ihl, ihr] <;> ring
  | scalSum f c ih => intro x o; simp only [runInBy, hb]
  | vecSum a v ih =>
    intro x o
    simp [runInBy, inplaceOf, Prog.exec, execStmts, Stmt.exec, St.set, St.get, Opd.val, run, ih]
  | comp fn l r ihl ihr =>
    intro x o
    cases fn <;> by_cases hr : r.ran = Sp.fld <;>
      simp [runInBy, inplaceOf, Prog.exec, execStmts, Stmt.exec, St.set, St.get, Opd.val, run,
        ihl, ihr, hb, hr]
  | pprod fn l r ihl ihr =>
    intro x o; funext j
    cases fn <;> simp [runInBy, inplaceOf, Prog.exec, execStmts, Stmt.exec, St.set, St.get,
      Opd.val, run, ihl, ihr] <;> ring
  | quot l r ihl ihr => intro x o; simp only [runInBy, hb]
  | lscal fn a s ih =>
    intro x o; funext j
    cases fn <;> simp [runInBy, inplaceOf, Prog.exec, execStmts, Stmt.exec, St.set, St.get,
      Opd.val, run, ih] <;> ring
  | rscal fn a s ih =>
    intro x o
    cases fn <;> simp [runInBy, inplaceOf, Prog.exec, execStmts, Stmt.exec, St.set, St.get,
      Opd.val, run, ih]
  | lvec a v ih =>
    intro x o
    simp [runInBy, inplaceOf, Prog.exec, execStmts, Stmt.exec, St.set, St.get, Opd.val, run, ih]
  | rvec fn a v ih =>
    intro x o
    cases fn <;> simp [runInBy, inplaceOf, Prog.exec, execStmts, Stmt.exec, St.set, St.get,
      Opd.val, run, ih]
  | flvec a v ih =>
    intro x o; funext j
    simp [runInBy, inplaceOf, Prog.exec, execStmts, Stmt.exec, St.set, St.get, Opd.val, run, hb]
    ring
  | const d c => intro x o; simp only [runInBy, hb]
  | zero d => intro x o; simp only [runInBy, hb]

theorem fnRan_opRMulScal (a : Impl K) (s : K) (h : FnRan a) : FnRan (opRMulScal s a) :=
  fnRan_of_ty (ty_opRMulScal a s h) h

end OdlModel.OpAlgebra
