/-
C04: the dispatch tables extracted from the Python source (`Gen/AlgebraDispatch.lean`),
run through the interpreter of `Model/OpDispatch.lean`, coincide overload by overload with the
hand-written dispatch functions of `Model/OpAlgebra.lean`.  These lemmas are re-checked
whenever the generated file changes; they are closed by `simp` over the generated terms.
-/
import OdlModel.Lemmas.OpAlgebra
import OdlModel.Gen.AlgebraDispatch
open OdlModel.OpAlgebra OdlModel.Gen.AlgebraDispatch
namespace OdlModel.OpAlgebra
variable {K : Type} [Field K] [DecidableEq K]

theorem linBy_eq_lin (i : Impl K) : i.linBy flagOf = i.lin := by
  induction i with
  | leaf l => rfl
  | sum fn l r ihl ihr => cases fn <;> simp [Impl.linBy, flagOf, Flag.apply, ihl, ihr]
  | scalSum f c ih => simp [Impl.linBy, flagOf, Flag.apply, ih]
  | vecSum a v ih => simp [Impl.linBy, flagOf, Flag.apply]
  | comp fn l r ihl ihr => cases fn <;> simp [Impl.linBy, flagOf, Flag.apply, ihl, ihr]
  | pprod fn l r ihl ihr => cases fn <;> simp [Impl.linBy, flagOf, Flag.apply]
  | quot l r ihl ihr => simp [Impl.linBy, flagOf, Flag.apply]
  | lscal fn a s ih => cases fn <;> simp [Impl.linBy, flagOf, Flag.apply, ih]
  | rscal fn a s ih => cases fn <;> simp [Impl.linBy, flagOf, Flag.apply, ih]
  | lvec a v ih => simp [Impl.linBy, flagOf, Flag.apply, ih]
  | rvec fn a v ih => cases fn <;> simp [Impl.linBy, flagOf, Flag.apply, ih]
  | flvec a v ih => simp [Impl.linBy, flagOf, Flag.apply, ih]
  | const d c => simp [Impl.linBy, flagOf, Flag.apply]
  | zero d => simp [Impl.linBy, flagOf, Flag.apply]

theorem dRMul_scal (env : Nat → Vec K → Vec K) (a : Impl K) (s : K) (re : Bool) (h : FnRan a) :
    dispatchRMul tables env a (.scal s re) = some (opRMulScal s a) := by
  unfold dispatchRMul opRMulScal
  by_cases hf : a.isFn = true
  · have hr := h hf
    by_cases hs : s = 0 <;>
      simp [hf, hr, hs, tables, functionalRMul, operatorRMul, Act.eval, Guard.eval, construct]
  · have hf' : a.isFn = false := by simpa using hf
    simp [hf', tables, operatorRMul, Act.eval, Guard.eval, construct]

theorem dRMul_vec (env : Nat → Vec K → Vec K) (a : Impl K) (v : VecLit K) (h : FnRan a) :
    dispatchRMul tables env a (.vec v) = opRMulVec v a := by
  unfold dispatchRMul opRMulVec
  by_cases hf : a.isFn = true
  · have hr := h hf
    simp [hf, hr, tables, functionalRMul, operatorRMul, Act.eval, Guard.eval, construct]
  · have hf' : a.isFn = false := by simpa using hf
    by_cases h1 : a.ran = .vec v.n <;> by_cases h2 : a.ran = .fld <;>
      simp [hf', h1, h2, tables, operatorRMul, Act.eval, Guard.eval, construct]

theorem dMul_op (env : Nat → Vec K → Vec K) (a b : Impl K) :
    dispatchMul tables env a (.op b) = opMul a b := by
  unfold dispatchMul opMul
  by_cases hf : a.isFn = true
  · simp [hf, tables, functionalMul, Act.eval, Guard.eval, construct, ctorComp]
  · have hf' : a.isFn = false := by simpa using hf
    cases hp : rscalParts a <;>
      simp [hf', hp, tables, rscalMul, operatorMul, Act.eval, Guard.eval, construct, ctorComp]

theorem dMul_scal (env : Nat → Vec K → Vec K) (a : Impl K) (s : K) (re : Bool) (h : FnRan a) :
    dispatchMul tables env a (.scal s re) = some (opMulScal env a s re) := by
  unfold dispatchMul opMulScal
  by_cases hf : a.isFn = true
  · have hr := h hf
    by_cases hs : s = 0 <;> by_cases hl : a.lin = true <;> cases re <;>
      simp [hf, hr, hs, hl, tables, functionalMul, Act.eval, Guard.eval, construct]
  · have hf' : a.isFn = false := by simpa using hf
    cases hp : rscalParts a with
    | some p =>
      obtain ⟨a', t⟩ := p
      simp [hf', hp, tables, rscalMul, Act.eval, Guard.eval, construct]
    | none =>
      by_cases hl : a.lin = true
      · cases re
        · simp [hf', hl, tables, operatorMul, Act.eval, Guard.eval, construct]
        · have := dRMul_scal env a s true h
          simp [hf', hl, tables, operatorMul, Act.eval, Guard.eval] at this ⊢
          exact this
      · simp [hf', hl, tables, operatorMul, Act.eval, Guard.eval, construct]

theorem dMul_vec (env : Nat → Vec K → Vec K) (a : Impl K) (v : VecLit K) (h : FnRan a) :
    dispatchMul tables env a (.vec v) = opMulVec a v := by
  unfold dispatchMul opMulVec
  by_cases hf : a.isFn = true
  · have hr := h hf
    by_cases h1 : a.dom = .vec v.n <;>
      cases hp : rscalParts a <;>
      simp [hf, hr, h1, hp, tables, functionalMul, rscalMul, operatorMul, Act.eval, Guard.eval,
        construct]
  · have hf' : a.isFn = false := by simpa using hf
    by_cases h1 : a.dom = .vec v.n <;>
      cases hp : rscalParts a <;>
      simp [hf', h1, hp, tables, rscalMul, operatorMul, Act.eval, Guard.eval, construct]

theorem dAdd_op (env : Nat → Vec K → Vec K) (a b : Impl K) :
    dispatchAdd tables env a (.op b) = mkSum a b := by
  unfold dispatchAdd mkSum
  by_cases hf : a.isFn = true
  · by_cases hb : b.isFn = true
    · simp [hf, hb, tables, functionalAdd, Act.eval, Guard.eval, construct, ctorSum]
    · have hb' : b.isFn = false := by simpa using hb
      simp [hf, hb', tables, functionalAdd, operatorAdd, Act.eval, Guard.eval, construct, ctorSum]
  · have hf' : a.isFn = false := by simpa using hf
    simp [hf', tables, operatorAdd, Act.eval, Guard.eval, construct, ctorSum]

theorem dAdd_scal (env : Nat → Vec K → Vec K) (a : Impl K) (s : K) (re : Bool) (h : FnRan a) :
    dispatchAdd tables env a (.scal s re) = opAddScal a s := by
  unfold dispatchAdd opAddScal
  by_cases hf : a.isFn = true
  · have hr := h hf
    simp [hf, hr, tables, functionalAdd, Act.eval, Guard.eval, construct]
  · have hf' : a.isFn = false := by simpa using hf
    cases hr : a.ran <;>
      simp [hf', hr, tables, operatorAdd, Act.eval, Guard.eval, construct]

theorem dAdd_vec (env : Nat → Vec K → Vec K) (a : Impl K) (v : VecLit K) (h : FnRan a) :
    dispatchAdd tables env a (.vec v) = opAddVec a v.val v.n := by
  unfold dispatchAdd opAddVec
  by_cases hf : a.isFn = true
  · have hr := h hf
    simp [hf, hr, tables, functionalAdd, operatorAdd, Act.eval, Guard.eval, construct]
  · have hf' : a.isFn = false := by simpa using hf
    by_cases h1 : a.ran = .vec v.n <;>
      simp [hf', h1, tables, operatorAdd, Act.eval, Guard.eval, construct]

theorem pyAdd_op (env : Nat → Vec K → Vec K) (a b : Impl K) :
    pyAdd tables env a (.op b) = opAdd a b := by
  simp only [pyAdd, opAdd]
  split_ifs <;> exact dAdd_op env _ _

omit [Field K] [DecidableEq K] in
theorem reflectedFirst_isFn {a b : Impl K} (h : reflectedFirst a b = true) :
    a.isFn = false ∧ b.isFn = true := by
  unfold reflectedFirst at h
  split at h <;> simp_all

theorem pyMul_op (env : Nat → Vec K → Vec K) (a b : Impl K) (hb : FnRan b) :
    pyMul tables env a (.op b) = opMul a b := by
  simp only [pyMul]
  split_ifs with h
  · obtain ⟨ha, hbf⟩ := reflectedFirst_isFn h
    have hr := hb hbf
    unfold dispatchRMul opMul
    simp [ha, hbf, hr, tables, functionalRMul, operatorRMul, Act.eval, Guard.eval, construct,
      ctorComp]
  · exact dMul_op env a b

theorem fnRan_opRMulScal (a : Impl K) (s : K) (h : FnRan a) : FnRan (opRMulScal s a) :=
  fnRan_of_ty (ty_opRMulScal a s h) h

end OdlModel.OpAlgebra
