/-
Helper lemmas for the solver state machines (C11, C12): the callback log of `runLog`,
simulation between two state machines, `forRange`.
-/
import OdlModel.Model.Solvers
import Mathlib.Logic.Function.Iterate
import Mathlib.Data.List.Range
import Mathlib.Algebra.Module.Basic
import Mathlib.Algebra.Order.Ring.Defs
import Mathlib.Tactic.Ring

namespace OdlModel.Solvers

/-- The loop with callback: final state is the `n`-fold iterate, and the callback has been
called exactly once per iteration, the `k`-th call with the `(k+1)`-st iterate. -/
theorem runLog_eq {S O : Type} (step : S → S) (obs : S → O) (n : Nat) (s : S) (log : List O) :
    runLog step obs n s log =
      (step^[n] s, log ++ (List.range n).map (fun k => obs (step^[k+1] s))) := by
  induction n generalizing s log with
  | zero => simp [runLog]
  | succ n ih =>
    simp only [runLog, ih, Function.iterate_succ, Function.comp]
    refine Prod.ext rfl ?_
    simp [List.range_succ_eq_map, List.map_map, Function.comp_def]

/-- The driver's loop `iter` is Mathlib's `step^[n]` used in the theorem statements. -/
theorem iter_eq {S : Type} (step : S → S) (n : Nat) (s : S) : iter step n s = step^[n] s := by
  induction n generalizing s with
  | zero => rfl
  | succ n ih => simp only [iter, ih, Function.iterate_succ, Function.comp]

/-- A relation preserved by a pair of steps is preserved by their iterates. -/
theorem iterate_sim {S T : Type} (f : S → S) (g : T → T) (R : S → T → Prop)
    (hstep : ∀ s t, R s t → R (f s) (g t)) (n : Nat) (s : S) (t : T) (h : R s t) :
    R (f^[n] s) (g^[n] t) := by
  induction n generalizing s t with
  | zero => exact h
  | succ n ih => simp only [Function.iterate_succ, Function.comp]; exact ih _ _ (hstep _ _ h)

/-- A property preserved by the step holds along the run. -/
theorem iterate_inv {S : Type} (f : S → S) (I : S → Prop) (hstep : ∀ s, I s → I (f s))
    (n : Nat) (s : S) (h : I s) : I (f^[n] s) := by
  induction n generalizing s with
  | zero => exact h
  | succ n ih => simp only [Function.iterate_succ, Function.comp]; exact ih _ (hstep _ h)

theorem forRange_succ {S : Type} (body : Nat → S → S) (m : Nat) (s : S) :
    forRange body (m + 1) s = body m (forRange body m s) := by
  simp [forRange, List.range_succ]

theorem forRange_zero {S : Type} (body : Nat → S → S) (s : S) : forRange body 0 s = s := rfl

/-- Simulation through a `for i in range(m)` loop. -/
theorem forRange_sim {S T : Type} (f : Nat → S → S) (g : Nat → T → T) (R : S → T → Prop)
    (hstep : ∀ i s t, R s t → R (f i s) (g i t)) (m : Nat) (s : S) (t : T) (h : R s t) :
    R (forRange f m s) (forRange g m t) := by
  induction m with
  | zero => exact h
  | succ m ih => rw [forRange_succ, forRange_succ]; exact hstep _ _ _ ih

theorem forRange_inv {S : Type} (f : Nat → S → S) (I : S → Prop)
    (hstep : ∀ i s, I s → I (f i s)) (m : Nat) (s : S) (h : I s) : I (forRange f m s) := by
  induction m with
  | zero => exact h
  | succ m ih => rw [forRange_succ]; exact hstep _ _ ih

/-- Resumption: if the observable part `obs` of the state determines the observable part
after a step, then running `n` steps, rebuilding a state from the observables only
(`reinit`, e.g. a fresh call of the solver with the returned `x`) and running `m` more steps
gives the same observables as `n + m` steps at once. -/
theorem resume_generic {S X : Type} (step : S → S) (obs : S → X) (reinit : X → S)
    (hobs : ∀ s t, obs s = obs t → obs (step s) = obs (step t))
    (hre : ∀ x, obs (reinit x) = x) (n m : Nat) (s : S) :
    obs (step^[m] (reinit (obs (step^[n] s)))) = obs (step^[n + m] s) := by
  rw [Nat.add_comm, Function.iterate_add_apply]
  exact iterate_sim step step (fun a b => obs a = obs b) hobs m _ _ (hre _)

theorem iterate_count {S : Type} (f : S → S) (len : S → Nat) (c : Nat)
    (h : ∀ s, len (f s) = len s + c) (n : Nat) (s : S) : len (f^[n] s) = len s + n * c := by
  induction n generalizing s with
  | zero => simp
  | succ n ih => simp only [Function.iterate_succ, Function.comp, ih, h]; ring

theorem forRange_count {S : Type} (f : Nat → S → S) (len : S → Nat) (c : Nat)
    (h : ∀ i s, len (f i s) = len s + c) (m : Nat) (s : S) :
    len (forRange f m s) = len s + m * c := by
  induction m with
  | zero => simp [forRange_zero]
  | succ m ih => rw [forRange_succ, h, ih]; ring

/-- convergence test of `steepest_descent` at `x` -/
def sdConverged {K V : Type} [Field K] [LinearOrder K] (P : SteepestP K V) (x : V) : Prop :=
  absK (-(P.nsq (P.grad x))) < P.tol

theorem sd_inv {K V : Type} [Field K] [LinearOrder K] [AddCommGroup V] [Module K V]
    (P : SteepestP K V) (s : SteepestS V)
    (h : s.stopped = true → sdConverged P s.x) :
    (P.step s).stopped = true → sdConverged P (P.step s).x := by
  unfold SteepestP.step
  by_cases h0 : (s.stopped || s.failed) = true
  · simp only [h0, if_true]; exact h
  · simp only [h0]
    by_cases hc : absK (-(P.nsq (P.grad s.x))) < P.tol
    · simp only [hc, if_true]; intro _; exact hc
    · simp only [hc, if_false]
      cases P.ls s.x (-(P.grad s.x)) (-(P.nsq (P.grad s.x))) <;> simp_all

theorem dr_step_log {K V W : Type} [Field K] [AddCommGroup V] [Module K V] [AddCommGroup W]
    [Module K W] (P : DrP K V W) (z : V) (s : DrS V W) :
    (P.step z s).log = s.log ++ [(P.step z s).p1] := by
  simp only [DrP.step]

end OdlModel.Solvers
