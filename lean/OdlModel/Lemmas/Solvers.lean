/-
Helper lemmas for the solver state machines (C11, C12): the callback log of `runLog`,
simulation between two state machines, `forRange`.
-/
import OdlModel.Model.Solvers
import Mathlib.Logic.Function.Iterate
import Mathlib.Data.List.Range

namespace OdlModel.Solvers

/-- The loop with callback: final state is the `n`-fold iterate, and the callback has been
called exactly once per iteration, the `k`-th call with the `(k+1)`-st iterate. -/
theorem runLog_eq {S O : Type} (step : S → S) (obs : S → O) (n : Nat) (s : S) (log : List O) :
    runLog step obs n s log =
      (step^[n] s, log ++ (List.range n).map (fun k => obs (step^[k+1] s))) := by
  induction n generalizing s log with
  | zero => simp [runLog]
  | succ n ih =>
    simp only [runLog, ih, Function.iterate_succ, Function.comp]
    refine Prod.ext rfl ?_
    simp [List.range_succ_eq_map, List.map_map, Function.comp_def]

/-- A relation preserved by a pair of steps is preserved by their iterates. -/
theorem iterate_sim {S T : Type} (f : S → S) (g : T → T) (R : S → T → Prop)
    (hstep : ∀ s t, R s t → R (f s) (g t)) (n : Nat) (s : S) (t : T) (h : R s t) :
    R (f^[n] s) (g^[n] t) := by
  induction n generalizing s t with
  | zero => exact h
  | succ n ih => simp only [Function.iterate_succ, Function.comp]; exact ih _ _ (hstep _ _ h)

/-- A property preserved by the step holds along the run. -/
theorem iterate_inv {S : Type} (f : S → S) (I : S → Prop) (hstep : ∀ s, I s → I (f s))
    (n : Nat) (s : S) (h : I s) : I (f^[n] s) := by
  induction n generalizing s with
  | zero => exact h
  | succ n ih => simp only [Function.iterate_succ, Function.comp]; exact ih _ (hstep _ h)

theorem forRange_succ {S : Type} (body : Nat → S → S) (m : Nat) (s : S) :
    forRange body (m + 1) s = body m (forRange body m s) := by
  simp [forRange, List.range_succ]

theorem forRange_zero {S : Type} (body : Nat → S → S) (s : S) : forRange body 0 s = s := rfl

/-- Simulation through a `for i in range(m)` loop. -/
theorem forRange_sim {S T : Type} (f : Nat → S → S) (g : Nat → T → T) (R : S → T → Prop)
    (hstep : ∀ i s t, R s t → R (f i s) (g i t)) (m : Nat) (s : S) (t : T) (h : R s t) :
    R (forRange f m s) (forRange g m t) := by
  induction m with
  | zero => exact h
  | succ m ih => rw [forRange_succ, forRange_succ]; exact hstep _ _ _ ih

theorem forRange_inv {S : Type} (f : Nat → S → S) (I : S → Prop)
    (hstep : ∀ i s, I s → I (f i s)) (m : Nat) (s : S) (h : I s) : I (forRange f m s) := by
  induction m with
  | zero => exact h
  | succ m ih => rw [forRange_succ]; exact hstep _ _ ih

end OdlModel.Solvers
