/-
C06 (round 4): chain rule for a norm-type leaf after a differentiable curve, and for
`OperatorComp(leaf, tree)` of `Model/DerivLeafComp.lean` over `ℝ`.
-/
import OdlModel.Lemmas.DerivLeaves
import OdlModel.Lemmas.DerivReal
import OdlModel.Model.DerivLeafComp
namespace OdlModel.Deriv

/-- `sqrt_sumsq_line` along differentiable curves. -/
theorem sqrt_sumsq_curve (m : Nat) (G : Nat → ℝ → ℝ) (G' : Nat → ℝ)
    (hG : ∀ i, HasDerivAt (G i) (G' i) 0)
    (hS : sumTo m (fun i => G i 0 * G i 0) ≠ 0) :
    HasDerivAt (fun s : ℝ => Real.sqrt (sumTo m (fun i => G i s * G i s)))
      (sumTo m (fun i => G i 0 * G' i) / Real.sqrt (sumTo m (fun i => G i 0 * G i 0))) 0 := by
  have h1 : ∀ i, HasDerivAt (fun s : ℝ => G i s * G i s) (2 * (G i 0 * G' i)) 0 := by
    intro i
    have hm : HasDerivAt (fun s : ℝ => G i s * G i s) (G' i * G i 0 + G i 0 * G' i) 0 :=
      (hG i).mul (hG i)
    have e2 : 2 * (G i 0 * G' i) = G' i * G i 0 + G i 0 * G' i := by ring
    rw [e2]; exact hm
  have h2 := sumTo_hasDerivAt m (fun i s => G i s * G i s) _ 0 h1
  have h3 := h2.sqrt hS
  convert h3 using 1
  rw [sumTo_mul_left]
  have hpos : Real.sqrt (sumTo m (fun i => G i 0 * G i 0)) ≠ 0 :=
    sqrt_ne_zero_of_ne (sumTo_sq_nonneg m (fun i => G i 0)) hS
  field_simp

/-- `leaf_hasDerivAt_line` along differentiable curves `s ↦ c s` (entry-wise differentiable at `0`
with derivative `c'`): the chain rule for a norm-type leaf after anything differentiable. -/
theorem leaf_hasDerivAt_curve [DecidableEq ℝ] (l : Leaf ℝ) (c : ℝ → Vec ℝ) (c' : Vec ℝ)
    (hc : ∀ m, HasDerivAt (fun s => c s m) (c' m) 0) (k : Nat)
    (hk : k < l.ran) (hs : l.ssq (c 0) k ≠ 0) :
    ∃ j, l.deriv (c 0) = some j ∧
      HasDerivAt (fun s : ℝ => l.run (c s) k) (j.run c' k) 0 := by
  obtain ⟨j, hj, _⟩ := leaf_hasDerivAt_line l (c 0) c' k hk hs
  refine ⟨j, hj, ?_⟩
  cases l with
  | norm n =>
    have hS : sumTo n (fun j => c 0 j * c 0 j) ≠ 0 := hs
    have hne : Real.sqrt (sumTo n (fun j => c 0 j * c 0 j)) ≠ 0 :=
      sqrt_ne_zero_of_ne (sumTo_sq_nonneg n (c 0)) hS
    have hb : ¬ ((((Leaf.norm n : Leaf ℝ).run (c 0) 0) == (0 : ℝ)) = true) := by
      simpa [Leaf.run, Leaf.ssq, hasSqrt_real] using hne
    have hj' : (Leaf.norm n : Leaf ℝ).deriv (c 0) = some
        (.inner n fun k => (1 / Real.sqrt (sumTo n (fun j => c 0 j * c 0 j))) * c 0 k) := if_neg hb
    obtain rfl := Option.some.inj (hj.symm.trans hj')
    have E : (Lin.inner n fun k => (1 / Real.sqrt (sumTo n (fun j => c 0 j * c 0 j))) * c 0 k).run c' k
        = sumTo n (fun j => c 0 j * c' j) / Real.sqrt (sumTo n (fun j => c 0 j * c 0 j)) := by
      simp only [Lin.run]
      rw [sumTo_scale n (1 / Real.sqrt (sumTo n (fun j => c 0 j * c 0 j))) (fun j => c 0 j * c' j) _
        (fun i _ => by ring)]
      ring
    rw [E]
    exact sqrt_sumsq_curve n (fun i s => c s i) c' hc hS
  | l2norm n =>
    have hS : sumTo n (fun j => c 0 j * c 0 j) ≠ 0 := hs
    have hne : Real.sqrt (sumTo n (fun j => c 0 j * c 0 j)) ≠ 0 :=
      sqrt_ne_zero_of_ne (sumTo_sq_nonneg n (c 0)) hS
    have hb : ¬ ((((Leaf.l2norm n : Leaf ℝ).run (c 0) 0) == (0 : ℝ)) = true) := by
      simpa [Leaf.run, Leaf.ssq, hasSqrt_real] using hne
    have hj' : (Leaf.l2norm n : Leaf ℝ).deriv (c 0) = some
        (.inner n fun k => (1 / Real.sqrt (sumTo n (fun j => c 0 j * c 0 j))) * c 0 k) := if_neg hb
    obtain rfl := Option.some.inj (hj.symm.trans hj')
    have E : (Lin.inner n fun k => (1 / Real.sqrt (sumTo n (fun j => c 0 j * c 0 j))) * c 0 k).run c' k
        = sumTo n (fun j => c 0 j * c' j) / Real.sqrt (sumTo n (fun j => c 0 j * c 0 j)) := by
      simp only [Lin.run]
      rw [sumTo_scale n (1 / Real.sqrt (sumTo n (fun j => c 0 j * c 0 j))) (fun j => c 0 j * c' j) _
        (fun i _ => by ring)]
      ring
    rw [E]
    exact sqrt_sumsq_curve n (fun i s => c s i) c' hc hS
  | dist n y =>
    have hS : sumTo n (fun j => (y j - c 0 j) * (y j - c 0 j)) ≠ 0 := hs
    have hne : Real.sqrt (sumTo n (fun j => (y j - c 0 j) * (y j - c 0 j))) ≠ 0 :=
      sqrt_ne_zero_of_ne (sumTo_sq_nonneg n (fun j => y j - c 0 j)) hS
    have hb : ¬ ((((Leaf.dist n y).run (c 0) 0) == (0 : ℝ)) = true) := by
      simpa [Leaf.run, Leaf.ssq, hasSqrt_real] using hne
    have hj' : (Leaf.dist n y).deriv (c 0) = some (.inner n fun k =>
        (1 / Real.sqrt (sumTo n (fun j => (y j - c 0 j) * (y j - c 0 j)))) * (c 0 k - y k)) :=
      if_neg hb
    obtain rfl := Option.some.inj (hj.symm.trans hj')
    have E : (Lin.inner n fun k =>
          (1 / Real.sqrt (sumTo n (fun j => (y j - c 0 j) * (y j - c 0 j)))) * (c 0 k - y k)).run c' k
        = sumTo n (fun j => (y j - c 0 j) * (- c' j))
            / Real.sqrt (sumTo n (fun j => (y j - c 0 j) * (y j - c 0 j))) := by
      simp only [Lin.run]
      rw [sumTo_scale n (1 / Real.sqrt (sumTo n (fun j => (y j - c 0 j) * (y j - c 0 j))))
        (fun j => (y j - c 0 j) * (- c' j)) _ (fun i _ => by ring)]
      ring
    rw [E]
    exact sqrt_sumsq_curve n (fun i s => y i - c s i) (fun i => - c' i)
      (fun i => by
        have h := (hasDerivAt_const (0 : ℝ) (y i)).sub (hc i)
        rw [zero_sub] at h
        exact h) hS
  | cmod n =>
    have hS : c 0 k * c 0 k + c 0 (n + k) * c 0 (n + k) ≠ 0 := hs
    obtain rfl : Lin.cmodd n (c 0) = j := Option.some.inj hj
    let G : Nat → ℝ → ℝ := fun i s => if i = 0 then c s k else c s (n + k)
    let G' : Nat → ℝ := fun i => if i = 0 then c' k else c' (n + k)
    have hG : ∀ i, HasDerivAt (G i) (G' i) 0 := by
      intro i
      by_cases h : i = 0
      · simpa [G, G', h] using hc k
      · simpa [G, G', h] using hc (n + k)
    have hS2 : sumTo 2 (fun i => G i 0 * G i 0) ≠ 0 := by
      simpa [sumTo, G] using hS
    have h := sqrt_sumsq_curve 2 G G' hG hS2
    have F : (fun s : ℝ => (Leaf.cmod n : Leaf ℝ).run (c s) k)
        = fun s : ℝ => Real.sqrt (sumTo 2 (fun i => G i s * G i s)) := by
      funext s
      simp [Leaf.run, Leaf.ssq, hasSqrt_real, sumTo, G]
    have E : (Lin.cmodd n (c 0)).run c' k
        = sumTo 2 (fun i => G i 0 * G' i) / Real.sqrt (sumTo 2 (fun i => G i 0 * G i 0)) := by
      simp [Lin.run, hasSqrt_real, sumTo, G, G']
    rw [F, E]; exact h
  | pwnorm m n =>
    have hkn : k < n := hk
    have hS : sumTo m (fun i => c 0 (i * n + k) * c 0 (i * n + k)) ≠ 0 := hs
    have hne : Real.sqrt (sumTo m (fun i => c 0 (i * n + k) * c 0 (i * n + k))) ≠ 0 :=
      sqrt_ne_zero_of_ne (sumTo_sq_nonneg m (fun i => c 0 (i * n + k))) hS
    obtain rfl := Option.some.inj hj
    have E : (Lin.pwinner m n fun t =>
          let fac := (Leaf.pwnorm m n : Leaf ℝ).run (c 0) (t % n)
          if fac == 0 then c 0 t else c 0 t / fac).run c' k
        = sumTo m (fun i => c 0 (i * n + k) * c' (i * n + k))
            / Real.sqrt (sumTo m (fun i => c 0 (i * n + k) * c 0 (i * n + k))) := by
      simp only [Lin.run]
      rw [sumTo_scale m (1 / Real.sqrt (sumTo m (fun i => c 0 (i * n + k) * c 0 (i * n + k))))
        (fun i => c 0 (i * n + k) * c' (i * n + k)) _ ?_]
      · ring
      · intro i _
        have hb : ¬ ((((Leaf.pwnorm m n : Leaf ℝ).run (c 0) k) == (0 : ℝ)) = true) := by
          simpa [Leaf.run, Leaf.ssq, hasSqrt_real] using hne
        simp only [mul_add_mod_self i n k hkn]
        rw [if_neg hb]
        simp only [Leaf.run, Leaf.ssq, hasSqrt_real]
        ring
    rw [E]
    exact sqrt_sumsq_curve m (fun i s => c s (i * n + k)) (fun i => c' (i * n + k))
      (fun i => hc (i * n + k)) hS

/-- Chain rule for `OperatorComp(leaf, tree)` over `ℝ` (`cast = id`). -/
theorem leaf_comp_hasDerivAt_line [DecidableEq ℝ] (l : Leaf ℝ) (i : Impl ℝ)
    (hwf : compWf l i = true) (x d : Vec ℝ) (k : Nat) (hk : k < l.ran)
    (hs : l.ssq (i.run x) k ≠ 0) :
    ∃ v, compDeriv id l i x d = some v ∧
      HasDerivAt (fun s : ℝ => compRun id l i (fun m => x m + s * d m) k) (v k) 0 := by
  have hiwf : i.wf = true := by
    simp only [compWf, Bool.and_eq_true] at hwf
    exact hwf.1.1.1.1.2
  obtain ⟨j, hj, _⟩ := deriv_type i x hiwf
  have hc : ∀ m, HasDerivAt (fun s : ℝ => i.run (fun m => x m + s * d m) m) (j.run d m) 0 :=
    fun m => impl_hasDerivAt_line i hiwf x d j hj m
  have e0 : (fun m => x m + (0 : ℝ) * d m) = x := by funext m; simp
  have hs' : l.ssq (i.run (fun m => x m + (0 : ℝ) * d m)) k ≠ 0 := by rw [e0]; exact hs
  obtain ⟨L, hL, hd⟩ := leaf_hasDerivAt_curve l (fun s => i.run (fun m => x m + s * d m))
    (j.run d) hc k hk hs'
  simp only [e0] at hL
  refine ⟨L.run (j.run d), ?_, hd⟩
  simp only [compDeriv, id_eq, hL, hj]

end OdlModel.Deriv
