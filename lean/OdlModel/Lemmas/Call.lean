/-
Helper lemmas about the store primitives of `Model/Call.lean` (allocation, write, `Res.bind`).
-/
import OdlModel.Model.Call

namespace OdlModel.Call.Lemmas
open OdlModel.Prox OdlModel.Call

variable {K : Type}

/-- Everything the proofs need to know about an allocation. -/
theorem alloc_spec (s : St K) (v : Vec K) :
    ∃ s0 : St K, alloc s v = (s.next, s0) ∧ s0.next = s.next + 1 ∧ s0.mem s.next = v ∧
      ∀ b : Nat, b ≠ s.next → s0.mem b = s.mem b :=
  ⟨_, rfl, rfl, by simp, by intro b hb; simp [hb]⟩

@[simp] theorem write_next (s : St K) (b : Nat) (v : Vec K) : (s.write b v).next = s.next := rfl

@[simp] theorem write_mem_same (s : St K) (b : Nat) (v : Vec K) : (s.write b v).mem b = v := by
  simp [St.write]

theorem write_mem_other (s : St K) (b b' : Nat) (v : Vec K) (h : b' ≠ b) :
    (s.write b v).mem b' = s.mem b' := by
  simp [St.write, h]

@[simp] theorem bind_ok (b : Nat) (s : St K) (f : Nat → St K → Res K) :
    (Res.ok b s).bind f = f b s := rfl

@[simp] theorem bind_err (e : Err) (s : St K) (f : Nat → St K → Res K) :
    (Res.err e s).bind f = Res.err e s := rfl

/-! ### Row values of the block lists built by `rowsFrom` / `colsFrom` (round 4) -/

section
variable [Add K] [Mul K]

/-- Blocks of other rows do not contribute to row `i`. -/
theorem rowDen_other (xv : Nat → Vec K) (i : Nat) (es : List (Entry K))
    (h : ∀ e ∈ es, e.row ≠ i) (acc : Vec K) : rowDen xv es i acc = acc := by
  induction es generalizing acc with
  | nil => rfl
  | cons e r ih =>
    simp only [rowDen]
    rw [if_neg (h e (by simp))]
    exact ih (fun e' he' => h e' (by simp [he'])) acc

omit [Add K] [Mul K] in
theorem rowsFrom_rows (colOf : Nat → Nat) (ops : List (Op K)) (k : Nat) :
    ∀ e ∈ rowsFrom colOf k ops, k ≤ e.row ∧ e.row < k + ops.length ∧ e.col = colOf e.row ∧
      e.op ∈ ops := by
  induction ops generalizing k with
  | nil => intro e he; simp [rowsFrom] at he
  | cons o r ih =>
    intro e he
    simp only [rowsFrom, List.mem_cons] at he
    rcases he with rfl | he
    · exact ⟨Nat.le_refl _, by simp, rfl, by simp⟩
    · obtain ⟨h1, h2, h3, h4⟩ := ih (k + 1) e he
      exact ⟨by omega, by simp only [List.length_cons]; omega, h3, by simp [h4]⟩

/-- Row `i` of a broadcast / diagonal block list holds `acc + ⟦op_i⟧(x_{colOf i})`. -/
theorem rowDen_rowsFrom (xv : Nat → Vec K) (colOf : Nat → Nat) (ops : List (Op K)) (k i : Nat)
    (op : Op K) (hk : k ≤ i) (hop : ops[i - k]? = some op) (acc : Vec K) :
    rowDen xv (rowsFrom colOf k ops) i acc = fun j => acc j + den op (xv (colOf i)) j := by
  induction ops generalizing k acc with
  | nil => simp at hop
  | cons o r ih =>
    simp only [rowsFrom, rowDen]
    by_cases hki : k = i
    · subst hki
      simp only [Nat.sub_self, List.getElem?_cons_zero, Option.some.injEq] at hop
      subst hop
      rw [if_pos rfl]
      exact rowDen_other xv k _ (fun e he => by
        have := (rowsFrom_rows colOf r (k + 1) e he).1; omega) _
    · rw [if_neg hki]
      have h1 : i - k = (i - (k + 1)) + 1 := by omega
      rw [h1, List.getElem?_cons_succ] at hop
      exact ih (k + 1) (by omega) hop acc

omit [Add K] [Mul K] in
theorem colsFrom_cols (ops : List (Op K)) (k : Nat) :
    ∀ e ∈ colsFrom k ops, e.row = 0 ∧ k ≤ e.col ∧ e.col < k + ops.length ∧ e.op ∈ ops := by
  induction ops generalizing k with
  | nil => intro e he; simp [colsFrom] at he
  | cons o r ih =>
    intro e he
    simp only [colsFrom, List.mem_cons] at he
    rcases he with rfl | he
    · exact ⟨rfl, Nat.le_refl _, by simp, by simp⟩
    · obtain ⟨h1, h2, h3, h4⟩ := ih (k + 1) e he
      exact ⟨h1, by omega, by simp only [List.length_cons]; omega, by simp [h4]⟩

/-- Row 0 of a reduction block list is the left-to-right sum `redSum`. -/
theorem rowDen_colsFrom (xv : Nat → Vec K) (ops : List (Op K)) (k : Nat) (acc : Vec K) :
    rowDen xv (colsFrom k ops) 0 acc = redSum xv k ops acc := by
  induction ops generalizing k acc with
  | nil => rfl
  | cons o r ih => simp only [colsFrom, rowDen, redSum, if_true]; exact ih (k + 1) _

end

end OdlModel.Call.Lemmas
