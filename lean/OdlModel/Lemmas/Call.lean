/-
Helper lemmas about the store primitives of `Model/Call.lean` (allocation, write, `Res.bind`).
-/
import OdlModel.Model.Call

namespace OdlModel.Call.Lemmas
open OdlModel.Prox OdlModel.Call

variable {K : Type}

/-- Everything the proofs need to know about an allocation. -/
theorem alloc_spec (s : St K) (v : Vec K) :
    ∃ s0 : St K, alloc s v = (s.next, s0) ∧ s0.next = s.next + 1 ∧ s0.mem s.next = v ∧
      ∀ b : Nat, b ≠ s.next → s0.mem b = s.mem b :=
  ⟨_, rfl, rfl, by simp, by intro b hb; simp [hb]⟩

@[simp] theorem write_next (s : St K) (b : Nat) (v : Vec K) : (s.write b v).next = s.next := rfl

@[simp] theorem write_mem_same (s : St K) (b : Nat) (v : Vec K) : (s.write b v).mem b = v := by
  simp [St.write]

theorem write_mem_other (s : St K) (b b' : Nat) (v : Vec K) (h : b' ≠ b) :
    (s.write b v).mem b' = s.mem b' := by
  simp [St.write, h]

@[simp] theorem bind_ok (b : Nat) (s : St K) (f : Nat → St K → Res K) :
    (Res.ok b s).bind f = f b s := rfl

@[simp] theorem bind_err (e : Err) (s : St K) (f : Nat → St K → Res K) :
    (Res.err e s).bind f = Res.err e s := rfl

end OdlModel.Call.Lemmas
