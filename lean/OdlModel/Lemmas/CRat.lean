/-
The Gaussian rationals `CRat` that the drivers compute with form a commutative ring under
exactly the `Add`/`Mul`/`Neg`/`OfNat` instances of `Model/CRat.lean`; hence theorems stated
for an arbitrary `[CommRing K]` apply verbatim to the executed instance.
-/
import OdlModel.Model.CRat
import Mathlib.Algebra.Ring.MinimalAxioms
import Mathlib.Tactic.Ring
import Mathlib.Algebra.Order.Field.Rat

namespace OdlModel.CRat

@[ext] theorem ext' {x y : CRat} (h1 : x.re = y.re) (h2 : x.im = y.im) : x = y := by
  cases x; cases y; simp_all

instance : Zero CRat := ⟨(0 : CRat)⟩
instance : One CRat := ⟨(1 : CRat)⟩

@[simp] theorem add_re (x y : CRat) : (x + y).re = x.re + y.re := rfl
@[simp] theorem add_im (x y : CRat) : (x + y).im = x.im + y.im := rfl
@[simp] theorem mul_re (x y : CRat) : (x * y).re = x.re * y.re - x.im * y.im := rfl
@[simp] theorem mul_im (x y : CRat) : (x * y).im = x.re * y.im + x.im * y.re := rfl
@[simp] theorem neg_re (x : CRat) : (-x).re = -x.re := rfl
@[simp] theorem neg_im (x : CRat) : (-x).im = -x.im := rfl
@[simp] theorem zero_re : (0 : CRat).re = 0 := by show ((0 : Nat) : Rat) = 0; simp
@[simp] theorem zero_im : (0 : CRat).im = 0 := rfl
@[simp] theorem one_re : (1 : CRat).re = 1 := by show ((1 : Nat) : Rat) = 1; simp
@[simp] theorem one_im : (1 : CRat).im = 0 := rfl

/-- `CRat` with the driver's own operations is a commutative ring. -/
instance instCommRing : CommRing CRat :=
  CommRing.ofMinimalAxioms
    (by intro a b c; ext <;> simp <;> ring)
    (by intro a; ext <;> simp)
    (by intro a; ext <;> simp)
    (by intro a b c; ext <;> simp <;> ring)
    (by intro a b; ext <;> simp <;> ring)
    (by intro a; ext <;> simp)
    (by intro a b c; ext <;> simp <;> ring)

end OdlModel.CRat
