/-
Helper lemmas for C15 (interpolation): the node search of `_find_indices` on a strictly
increasing coordinate vector.
-/
import OdlModel.Model.Interp
import Mathlib.Tactic.Ring
import Mathlib.Tactic.Linarith
import Mathlib.Algebra.Order.Field.Basic

namespace OdlModel.Interp

section
variable {K : Type} [Field K] [LinearOrder K] [IsStrictOrderedRing K]

/-- The coordinate vector is strictly increasing on its `n` nodes (what `RectGrid` guarantees
and the interpolators document as a precondition). -/
def Incr (c : Nat → K) (n : Nat) : Prop := ∀ i j, i < j → j < n → c i < c j

omit [Field K] [IsStrictOrderedRing K] in
theorem Incr.mono {c : Nat → K} {n : Nat} (h : Incr c n) {i j : Nat} (hij : i ≤ j) (hj : j < n) :
    c i ≤ c j := by
  rcases Nat.eq_or_lt_of_le hij with rfl | hlt
  · exact le_refl _
  · exact le_of_lt (h i j hlt hj)

theorem searchLeft_spec (c : Nat → K) (p : K) (n : Nat) (h : Incr c n) :
    searchLeft c p n ≤ n ∧ (∀ i, i < searchLeft c p n → c i < p) ∧
    (∀ i, searchLeft c p n ≤ i → i < n → p ≤ c i) := by
  induction n with
  | zero => simp [searchLeft]
  | succ n ih =>
    have h' : Incr c n := fun i j hij hj => h i j hij (by omega)
    obtain ⟨h1, h2, h3⟩ := ih h'
    simp only [searchLeft]
    by_cases hc : c n < p
    · simp only [hc, if_true]
      have hk : searchLeft c p n = n := by
        by_contra hne
        have hlt : searchLeft c p n < n := by omega
        have := h3 _ (le_refl _) hlt
        have := h _ n hlt (by omega)
        linarith
      refine ⟨by omega, ?_, ?_⟩
      · intro i hi
        by_cases hin : i = n
        · subst hin; exact hc
        · exact h2 i (by omega)
      · intro i hi hi2; omega
    · simp only [hc, if_false, Nat.add_zero]
      refine ⟨by omega, h2, ?_⟩
      intro i hi hi2
      by_cases hin : i = n
      · subst hin; exact not_lt.mp hc
      · exact h3 i hi (by omega)

omit [Field K] [IsStrictOrderedRing K] in
theorem findIndex_lt (c : Nat → K) (n : Nat) (p : K) (_hn : 2 ≤ n) : findIndex c n p + 1 < n := by
  unfold findIndex; omega

theorem findIndex_low (c : Nat → K) (n : Nat) (p : K) (h : Incr c n) (_hn : 2 ≤ n) (hp : p ≤ c 0) :
    findIndex c n p = 0 := by
  obtain ⟨h1, h2, h3⟩ := searchLeft_spec c p n h
  have : searchLeft c p n = 0 := by
    by_contra hne
    have := h2 0 (by omega)
    linarith
  simp [findIndex, this]

theorem findIndex_high (c : Nat → K) (n : Nat) (p : K) (h : Incr c n) (hn : 2 ≤ n)
    (hp : c (n - 1) < p) : findIndex c n p = n - 2 := by
  obtain ⟨h1, h2, h3⟩ := searchLeft_spec c p n h
  have : searchLeft c p n = n := by
    by_contra hne
    have := h3 (n - 1) (by omega) (by omega)
    linarith
  simp only [findIndex, this]; omega

theorem findIndex_inside (c : Nat → K) (n : Nat) (p : K) (h : Incr c n) (hn : 2 ≤ n)
    (hlo : c 0 < p) (hhi : p ≤ c (n - 1)) :
    c (findIndex c n p) < p ∧ p ≤ c (findIndex c n p + 1) := by
  obtain ⟨h1, h2, h3⟩ := searchLeft_spec c p n h
  have hk1 : 1 ≤ searchLeft c p n := by
    by_contra hne
    have := h3 0 (by omega) (by omega)
    linarith
  have hk2 : searchLeft c p n ≤ n - 1 := by
    by_contra hne
    have := h2 (n - 1) (by omega)
    linarith
  have hi : findIndex c n p = searchLeft c p n - 1 := by unfold findIndex; omega
  rw [hi]
  refine ⟨h2 _ (by omega), ?_⟩
  have : searchLeft c p n - 1 + 1 = searchLeft c p n := by omega
  rw [this]
  exact h3 _ (le_refl _) (by omega)

end

end OdlModel.Interp
