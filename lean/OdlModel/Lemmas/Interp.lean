/-
Helper lemmas for C15 (interpolation): the node search of `_find_indices` on a strictly
increasing coordinate vector.
-/
import OdlModel.Model.Interp
import Mathlib.Tactic.Ring
import Mathlib.Tactic.Linarith
import Mathlib.Tactic.Module
import Mathlib.Tactic.LinearCombination
import Mathlib.Algebra.Order.AbsoluteValue.Basic
import Mathlib.Tactic.FieldSimp
import Mathlib.Algebra.Order.Field.Basic
import Mathlib.Algebra.Module.Defs
import Mathlib.Data.List.Basic
import Mathlib.Data.Rat.Defs
import Mathlib.Algebra.Order.Ring.Rat

set_option linter.unusedSectionVars false

namespace OdlModel.Interp

section
variable {K : Type} [Field K] [LinearOrder K] [IsStrictOrderedRing K]

/-- The coordinate vector is strictly increasing on its `n` nodes (what `RectGrid` guarantees
and the interpolators document as a precondition). -/
def Incr (c : Nat → K) (n : Nat) : Prop := ∀ i j, i < j → j < n → c i < c j

omit [Field K] [IsStrictOrderedRing K] in
theorem Incr.mono {c : Nat → K} {n : Nat} (h : Incr c n) {i j : Nat} (hij : i ≤ j) (hj : j < n) :
    c i ≤ c j := by
  rcases Nat.eq_or_lt_of_le hij with rfl | hlt
  · exact le_refl _
  · exact le_of_lt (h i j hlt hj)

theorem searchLeft_spec (c : Nat → K) (p : K) (n : Nat) (h : Incr c n) :
    searchLeft c p n ≤ n ∧ (∀ i, i < searchLeft c p n → c i < p) ∧
    (∀ i, searchLeft c p n ≤ i → i < n → p ≤ c i) := by
  induction n with
  | zero => simp [searchLeft]
  | succ n ih =>
    have h' : Incr c n := fun i j hij hj => h i j hij (by omega)
    obtain ⟨h1, h2, h3⟩ := ih h'
    simp only [searchLeft]
    by_cases hc : c n < p
    · simp only [hc, if_true]
      have hk : searchLeft c p n = n := by
        by_contra hne
        have hlt : searchLeft c p n < n := by omega
        have := h3 _ (le_refl _) hlt
        have := h _ n hlt (by omega)
        linarith
      refine ⟨by omega, ?_, ?_⟩
      · intro i hi
        by_cases hin : i = n
        · subst hin; exact hc
        · exact h2 i (by omega)
      · intro i hi hi2; omega
    · simp only [hc, if_false, Nat.add_zero]
      refine ⟨by omega, h2, ?_⟩
      intro i hi hi2
      by_cases hin : i = n
      · subst hin; exact not_lt.mp hc
      · exact h3 i hi (by omega)

omit [Field K] [IsStrictOrderedRing K] in
theorem findIndex_lt (c : Nat → K) (n : Nat) (p : K) (_hn : 2 ≤ n) : findIndex c n p + 1 < n := by
  unfold findIndex; omega

theorem findIndex_low (c : Nat → K) (n : Nat) (p : K) (h : Incr c n) (_hn : 2 ≤ n) (hp : p ≤ c 0) :
    findIndex c n p = 0 := by
  obtain ⟨h1, h2, h3⟩ := searchLeft_spec c p n h
  have : searchLeft c p n = 0 := by
    by_contra hne
    have := h2 0 (by omega)
    linarith
  simp [findIndex, this]

theorem findIndex_high (c : Nat → K) (n : Nat) (p : K) (h : Incr c n) (hn : 2 ≤ n)
    (hp : c (n - 1) < p) : findIndex c n p = n - 2 := by
  obtain ⟨h1, h2, h3⟩ := searchLeft_spec c p n h
  have : searchLeft c p n = n := by
    by_contra hne
    have := h3 (n - 1) (by omega) (by omega)
    linarith
  simp only [findIndex, this]; omega

theorem findIndex_inside (c : Nat → K) (n : Nat) (p : K) (h : Incr c n) (hn : 2 ≤ n)
    (hlo : c 0 < p) (hhi : p ≤ c (n - 1)) :
    c (findIndex c n p) < p ∧ p ≤ c (findIndex c n p + 1) := by
  obtain ⟨h1, h2, h3⟩ := searchLeft_spec c p n h
  have hk1 : 1 ≤ searchLeft c p n := by
    by_contra hne
    have := h3 0 (by omega) (by omega)
    linarith
  have hk2 : searchLeft c p n ≤ n - 1 := by
    by_contra hne
    have := h2 (n - 1) (by omega)
    linarith
  have hi : findIndex c n p = searchLeft c p n - 1 := by unfold findIndex; omega
  rw [hi]
  refine ⟨h2 _ (by omega), ?_⟩
  have : searchLeft c p n - 1 + 1 = searchLeft c p n := by omega
  rw [this]
  exact h3 _ (le_refl _) (by omega)

end

section
variable {K : Type} [Field K] [LinearOrder K] [IsStrictOrderedRing K]
variable {V : Type} [AddCommGroup V] [Module K V]

/-! ### The corner loop is a tensor product -/

theorem foldl_cornerTerms (es : List (Edge K)) (w : K) (v : List Nat → V) (a : V) :
    (cornerTerms es w v).foldl (fun acc t => acc + t.1 • t.2) a = a + w • perAxisEval es v := by
  induction es generalizing w v a with
  | nil => simp [cornerTerms, perAxisEval]
  | cons e es ih =>
    have h0 : perAxisEval (e :: es) v =
        (0 + (1 * e.wlo) • perAxisEval es (fun idx => v (e.elo :: idx))) +
          (1 * e.whi) • perAxisEval es (fun idx => v (e.ehi :: idx)) := by
      show (cornerTerms (e :: es) 1 v).foldl _ 0 = _
      rw [cornerTerms, List.foldl_append, ih, ih]
    rw [cornerTerms, List.foldl_append, ih, ih, h0]
    module

theorem perAxisEval_nil (v : List Nat → V) : perAxisEval ([] : List (Edge K)) v = v [] := by
  simp [perAxisEval, cornerTerms]

theorem perAxisEval_cons (e : Edge K) (es : List (Edge K)) (v : List Nat → V) :
    perAxisEval (e :: es) v =
      e.wlo • perAxisEval es (fun idx => v (e.elo :: idx)) +
      e.whi • perAxisEval es (fun idx => v (e.ehi :: idx)) := by
  show (cornerTerms (e :: es) 1 v).foldl _ 0 = _
  rw [cornerTerms, List.foldl_append, foldl_cornerTerms, foldl_cornerTerms]
  module

/-! ### One axis -/

/-- A well-formed grid axis: at least two nodes, strictly increasing coordinates. -/
structure Axis.Good (a : Axis K) : Prop where
  two : 2 ≤ a.n
  incr : Incr a.c a.n

/-- The cell found by `_find_indices` for a point of the hull: `c i ≤ p ≤ c (i+1)`, with the
left end excluded except at the very first node. -/
theorem findIndex_cell (c : Nat → K) (n : Nat) (p : K) (h : Incr c n) (hn : 2 ≤ n)
    (hlo : c 0 ≤ p) (hhi : p ≤ c (n - 1)) :
    c (findIndex c n p) ≤ p ∧ p ≤ c (findIndex c n p + 1) ∧
      (p = c (findIndex c n p) → findIndex c n p = 0) := by
  rcases eq_or_lt_of_le hlo with heq | hlt
  · have hi := findIndex_low c n p h hn (le_of_eq heq.symm)
    rw [hi]
    refine ⟨hlo, ?_, fun _ => rfl⟩
    have := h 0 1 (by omega) (by omega)
    rw [← heq]; exact this.le
  · obtain ⟨h1, h2⟩ := findIndex_inside c n p h hn hlt hhi
    exact ⟨h1.le, h2, fun he => absurd he (ne_of_gt h1)⟩

theorem linear_edge_inside (a : Axis K) (ha : a.Good) (hs : a.scheme = .linear) (p : K)
    (hlo : a.c 0 ≤ p) (hhi : p ≤ a.c (a.n - 1)) :
    ∃ i t, i + 1 < a.n ∧ a.c i ≤ p ∧ p ≤ a.c (i + 1) ∧ 0 ≤ t ∧ t ≤ 1 ∧
      t * (a.c (i + 1) - a.c i) = p - a.c i ∧ (p = a.c i → i = 0) ∧
      a.edge p = ⟨1 - t, t, i, i + 1⟩ := by
  obtain ⟨h1, h2, h3⟩ := findIndex_cell a.c a.n p ha.incr ha.two hlo hhi
  have hilt := findIndex_lt a.c a.n p ha.two
  have hd : 0 < a.c (findIndex a.c a.n p + 1) - a.c (findIndex a.c a.n p) := by
    have := ha.incr (findIndex a.c a.n p) (findIndex a.c a.n p + 1) (by omega) hilt
    linarith
  refine ⟨findIndex a.c a.n p, normDist a.c (findIndex a.c a.n p) p, hilt, h1, h2, ?_, ?_, ?_, h3, ?_⟩
  · exact div_nonneg (by linarith) hd.le
  · unfold normDist; rw [div_le_one hd]; linarith
  · unfold normDist; field_simp
  · have t0 : ¬ normDist a.c (findIndex a.c a.n p) p < 0 :=
      not_lt.mpr (div_nonneg (by linarith) hd.le)
    have t1 : ¬ 1 < normDist a.c (findIndex a.c a.n p) p := by
      unfold normDist; rw [not_lt, div_le_one hd]; linarith
    simp only [Axis.edge, hs, linearEdge, t0, t1, if_false]

theorem linear_edge_low (a : Axis K) (ha : a.Good) (hs : a.scheme = .linear) (p : K)
    (hp : p < a.c 0) :
    a.edge p = ⟨0, (p - a.c 0) / (a.c 1 - a.c 0) + 1, 0, 0⟩ := by
  have hi := findIndex_low a.c a.n p ha.incr ha.two hp.le
  have hd : 0 < a.c 1 - a.c 0 := by
    have := ha.incr 0 1 (by omega) (by have := ha.two; omega); linarith
  have t0 : (p - a.c 0) / (a.c 1 - a.c 0) < 0 := div_neg_of_neg_of_pos (by linarith) hd
  simp only [Axis.edge, hs, linearEdge, hi, normDist, Nat.zero_add, t0, if_true]

theorem linear_edge_high (a : Axis K) (ha : a.Good) (hs : a.scheme = .linear) (p : K)
    (hp : a.c (a.n - 1) < p) :
    a.edge p = ⟨(1 - (p - a.c (a.n - 2)) / (a.c (a.n - 1) - a.c (a.n - 2))) + 1, 0,
      a.n - 1, a.n - 1⟩ := by
  have hi := findIndex_high a.c a.n p ha.incr ha.two hp
  have e : a.n - 2 + 1 = a.n - 1 := by have := ha.two; omega
  have hd : 0 < a.c (a.n - 1) - a.c (a.n - 2) := by
    have := ha.incr (a.n - 2) (a.n - 1) (by have := ha.two; omega) (by have := ha.two; omega)
    linarith
  have t1 : 1 < (p - a.c (a.n - 2)) / (a.c (a.n - 1) - a.c (a.n - 2)) := by
    rw [one_lt_div hd]; linarith
  have t0 : ¬ (p - a.c (a.n - 2)) / (a.c (a.n - 1) - a.c (a.n - 2)) < 0 := by
    rw [not_lt]; linarith
  simp only [Axis.edge, hs, linearEdge, hi, normDist, e, t0, t1, if_true, if_false]

/-- The weights/edges of `_compute_nearest_weights_edge` select exactly the node chosen by the
index rule of `_NearestInterpolator`, for every point (inside or outside). -/
theorem nearest_edge_select (a : Axis K) (ha : a.Good) (hs : a.scheme = .nearest) (p : K)
    (x : Nat → V) :
    (a.edge p).wlo • x (a.edge p).elo + (a.edge p).whi • x (a.edge p).ehi =
      x (nearestIndex a.c a.n p) := by
  have hn := ha.two
  have hilt := findIndex_lt a.c a.n p ha.two
  have hd : 0 < a.c (findIndex a.c a.n p + 1) - a.c (findIndex a.c a.n p) := by
    have := ha.incr (findIndex a.c a.n p) (findIndex a.c a.n p + 1) (by omega) hilt
    linarith
  have half : (0 : K) < 1 / 2 := by norm_num
  have hlow : normDist a.c (findIndex a.c a.n p) p < 0 → findIndex a.c a.n p = 0 := by
    intro hlo
    have hp : p < a.c (findIndex a.c a.n p) := by
      unfold normDist at hlo
      rw [div_neg_iff] at hlo
      rcases hlo with ⟨_, h2⟩ | ⟨h1, _⟩
      · linarith
      · linarith
    by_contra hne
    by_cases hp0 : p ≤ a.c 0
    · exact hne (findIndex_low a.c a.n p ha.incr ha.two hp0)
    · push Not at hp0
      by_cases hp1 : p ≤ a.c (a.n - 1)
      · have := (findIndex_inside a.c a.n p ha.incr ha.two hp0 hp1).1
        linarith
      · push Not at hp1
        have hi := findIndex_high a.c a.n p ha.incr ha.two hp1
        have := ha.incr.mono (i := findIndex a.c a.n p) (j := a.n - 1) (by omega) (by omega)
        linarith
  have hhigh : 1 < normDist a.c (findIndex a.c a.n p) p → findIndex a.c a.n p + 1 = a.n - 1 := by
    intro hhi
    have hp : a.c (findIndex a.c a.n p + 1) < p := by
      unfold normDist at hhi
      rw [one_lt_div hd] at hhi; linarith
    by_contra hne
    by_cases hp1 : a.c (a.n - 1) < p
    · have := findIndex_high a.c a.n p ha.incr ha.two hp1; omega
    · push Not at hp1
      by_cases hp0 : p ≤ a.c 0
      · have := ha.incr.mono (i := 0) (j := findIndex a.c a.n p + 1) (by omega) hilt
        linarith
      · push Not at hp0
        have := (findIndex_inside a.c a.n p ha.incr ha.two hp0 hp1).2
        linarith
  simp only [Axis.edge, hs, nearestEdge, nearestIndex]
  generalize findIndex a.c a.n p = i at *
  generalize normDist a.c i p = nd at *
  by_cases hlo : nd < 0
  · have hi := hlow hlo
    have h2 : nd < 1 / 2 := by linarith
    simp only [hlo, h2, if_true, hi, zero_smul, one_smul, zero_add]
  · by_cases hhi : 1 < nd
    · have hi := hhigh hhi
      have h2 : ¬ nd < 1 / 2 := by
        rw [not_lt]; linarith [(by norm_num : (1 : K) / 2 ≤ 1)]
      simp only [hlo, hhi, h2, if_true, if_false, hi, zero_smul, one_smul, add_zero]
    · by_cases hh : nd < 1 / 2
      · simp only [hlo, hhi, hh, if_true, if_false, zero_smul, one_smul, add_zero]
      · simp only [hlo, hhi, hh, if_false, zero_smul, one_smul, zero_add]

/-! ### Nearest rule, node exactness on one axis, unfolding of the N-d interpolant -/

theorem nearestIndex_closest (c : Nat → K) (n : Nat) (p : K) (h : Incr c n) (hn : 2 ≤ n) :
    nearestIndex c n p < n ∧
    ∀ k, k < n → |p - c (nearestIndex c n p)| ≤ |p - c k| ∧
      (|p - c k| = |p - c (nearestIndex c n p)| → k ≤ nearestIndex c n p) := by
  have hilt := findIndex_lt c n p hn
  have hd : 0 < c (findIndex c n p + 1) - c (findIndex c n p) := by
    have := h (findIndex c n p) (findIndex c n p + 1) (by omega) hilt
    linarith
  -- distances to nodes on either side
  have left : ∀ k, k < n → c k ≤ p → |p - c k| = p - c k := fun k _ hk =>
    abs_of_nonneg (by linarith)
  have right : ∀ k, k < n → p ≤ c k → |p - c k| = c k - p := fun k _ hk => by
    rw [abs_of_nonpos (by linarith)]; ring
  by_cases hlo : p ≤ c 0
  · -- below the first node
    have hi := findIndex_low c n p h hn hlo
    have hj : nearestIndex c n p = 0 := by
      simp only [nearestIndex, hi, normDist]
      rw [if_pos]
      rw [hi] at hd
      have : (p - c 0) / (c (0 + 1) - c 0) ≤ 0 := div_nonpos_of_nonpos_of_nonneg (by linarith) hd.le
      linarith [(by norm_num : (0:K) < 1 / 2)]
    rw [hj]
    refine ⟨by omega, fun k hk => ?_⟩
    have hck : c 0 ≤ c k := h.mono (Nat.zero_le k) hk
    rw [right 0 (by omega) hlo, right k hk (by linarith)]
    refine ⟨by linarith, fun heq => ?_⟩
    by_contra hne
    have := h 0 k (by omega) hk
    linarith
  · push Not at hlo
    by_cases hhi : c (n - 1) < p
    · -- above the last node
      have hi := findIndex_high c n p h hn hhi
      have hj : nearestIndex c n p = n - 1 := by
        simp only [nearestIndex, hi, normDist]
        have e : n - 2 + 1 = n - 1 := by omega
        rw [hi, e] at hd
        rw [if_neg, e]
        rw [e, not_lt, div_le_div_iff₀ (by norm_num) hd]
        linarith
      rw [hj]
      refine ⟨by omega, fun k hk => ?_⟩
      have hck : c k ≤ c (n - 1) := h.mono (by omega) (by omega)
      rw [left (n - 1) (by omega) hhi.le, left k hk (by linarith)]
      exact ⟨by linarith, fun _ => by omega⟩
    · push Not at hhi
      obtain ⟨h1, h2⟩ := findIndex_inside c n p h hn hlo hhi
      obtain ⟨i, hi⟩ : ∃ i, findIndex c n p = i := ⟨_, rfl⟩
      rw [hi] at h1 h2 hd hilt
      have hnd : normDist c i p < 1 / 2 ↔ p - c i < c (i + 1) - p := by
        unfold normDist
        rw [div_lt_div_iff₀ hd (by norm_num)]
        constructor <;> intro hh <;> linarith
      have below : ∀ k, k < n → k ≤ i → |p - c k| = p - c k ∧ p - c i ≤ p - c k := fun k hk hki => by
        have : c k ≤ c i := h.mono hki (by omega)
        exact ⟨left k hk (by linarith), by linarith⟩
      have above : ∀ k, k < n → i + 1 ≤ k → |p - c k| = c k - p ∧ c (i + 1) - p ≤ c k - p :=
        fun k hk hki => by
          have : c (i + 1) ≤ c k := h.mono hki hk
          exact ⟨right k hk (by linarith), by linarith⟩
      by_cases hlt : normDist c i p < 1 / 2
      · have hj : nearestIndex c n p = i := by simp only [nearestIndex, hi, hlt, if_true]
        rw [hj]
        have hlt' := hnd.mp hlt
        refine ⟨by omega, fun k hk => ?_⟩
        rw [(below i (by omega) (le_refl _)).1]
        by_cases hki : k ≤ i
        · obtain ⟨e, hle⟩ := below k hk hki
          rw [e]; exact ⟨hle, fun _ => hki⟩
        · obtain ⟨e, hle⟩ := above k hk (by omega)
          rw [e]; exact ⟨by linarith, fun heq => by linarith⟩
      · have hj : nearestIndex c n p = i + 1 := by simp only [nearestIndex, hi, hlt, if_false]
        rw [hj]
        have hge : c (i + 1) - p ≤ p - c i := by
          by_contra hh; exact hlt (hnd.mpr (by linarith))
        refine ⟨by omega, fun k hk => ?_⟩
        rw [(above (i + 1) (by omega) (le_refl _)).1]
        by_cases hki : k ≤ i
        · obtain ⟨e, hle⟩ := below k hk hki
          rw [e]; exact ⟨by linarith, fun _ => by omega⟩
        · obtain ⟨e, hle⟩ := above k hk (by omega)
          rw [e]
          refine ⟨hle, fun heq => ?_⟩
          by_contra hne
          have := h (i + 1) k (by omega) hk
          linarith


theorem nearestIndex_node (c : Nat → K) (n : Nat) (h : Incr c n) (hn : 2 ≤ n) (k : Nat) (hk : k < n) :
    nearestIndex c n (c k) = k := by
  obtain ⟨hj, hcl⟩ := nearestIndex_closest c n (c k) h hn
  have h1 := (hcl k hk).1
  rw [sub_self, abs_zero] at h1
  have h2 : c k - c (nearestIndex c n (c k)) = 0 := abs_eq_zero.mp (le_antisymm h1 (abs_nonneg _))
  by_contra hne
  rcases Nat.lt_or_gt_of_ne hne with hlt | hgt
  · have := h _ _ hlt hk; linarith
  · have := h _ _ hgt hj; linarith

omit [LinearOrder K] [IsStrictOrderedRing K] in
theorem Incr.lt_of_lt {c : Nat → K} {n : Nat} [LinearOrder K] (h : Incr c n) {i k : Nat} (hi : i < n)
    (hlt : c i < c k) : i < k := by
  by_contra hne
  have := h.mono (i := k) (j := i) (by omega) hi
  exact absurd hlt (not_lt.mpr this)

theorem perAxisInterp_cons (a : Axis K) (as : List (Axis K)) (v : List Nat → V) (x : K)
    (xs : List K) :
    perAxisInterp (a :: as) v (x :: xs) =
      (a.edge x).wlo • perAxisInterp as (fun idx => v ((a.edge x).elo :: idx)) xs +
      (a.edge x).whi • perAxisInterp as (fun idx => v ((a.edge x).ehi :: idx)) xs := by
  simp only [perAxisInterp, List.zipWith_cons_cons, perAxisEval_cons]

theorem perAxisInterp_nil (v : List Nat → V) (p : List K) :
    perAxisInterp ([] : List (Axis K)) v p = v [] := by
  simp [perAxisInterp, perAxisEval_nil]

/-- one axis, point at node `k`: the two weighted neighbours reduce to node `k` -/
theorem axis_node (a : Axis K) (ha : a.Good) (k : Nat) (hk : k < a.n) (X : Nat → V) :
    (a.edge (a.c k)).wlo • X (a.edge (a.c k)).elo + (a.edge (a.c k)).whi • X (a.edge (a.c k)).ehi
      = X k := by
  have hn := ha.two
  have hlo : a.c 0 ≤ a.c k := ha.incr.mono (Nat.zero_le _) hk
  have hhi : a.c k ≤ a.c (a.n - 1) := ha.incr.mono (by omega) (by omega)
  cases hs : a.scheme with
  | linear =>
    obtain ⟨i, t, hi, h1, h2, _, _, ht, h0, he⟩ := linear_edge_inside a ha hs (a.c k) hlo hhi
    rw [he]; simp only
    rcases eq_or_lt_of_le h1 with heq | hlt
    · have hi0 := h0 heq.symm
      subst hi0
      have hk0 : k = 0 := by
        by_contra hne
        have := ha.incr 0 k (by omega) hk
        rw [heq] at this; exact lt_irrefl _ this
      subst hk0
      have hd := ha.incr 0 1 (by omega) (by omega)
      have : t = 0 := by
        have : t * (a.c (0 + 1) - a.c 0) = 0 := by rw [ht]; ring
        rcases mul_eq_zero.mp this with h | h
        · exact h
        · simp only [Nat.zero_add] at h; linarith
      subst this; simp
    · have hik : i < k := ha.incr.lt_of_lt (by omega) hlt
      have hki : k = i + 1 := by
        by_contra hne
        have := ha.incr (i + 1) k (by omega) hk
        linarith
      subst hki
      have hd := ha.incr i (i + 1) (by omega) hk
      have : t = 1 := by
        have h3 : (t - 1) * (a.c (i + 1) - a.c i) = 0 := by linear_combination ht
        rcases mul_eq_zero.mp h3 with h | h
        · linarith
        · linarith
      subst this; simp
  | nearest =>
    rw [nearest_edge_select a ha hs]
    rw [nearestIndex_node a.c a.n ha.incr ha.two k hk]
end

/-- The corner loop is linear in the value array. -/
theorem perAxisEval_linear {K : Type} [Field K] [LinearOrder K] [IsStrictOrderedRing K]
    {V : Type} [AddCommGroup V] [Module K V]
    (es : List (Edge K)) (c : K) (v w : List Nat → V) :
    perAxisEval es (fun idx => c • v idx + w idx) = c • perAxisEval es v + perAxisEval es w := by
  induction es generalizing v w with
  | nil => simp [perAxisEval_nil]
  | cons e es ih =>
    rw [perAxisEval_cons, perAxisEval_cons, perAxisEval_cons, ih, ih]
    module

/-! ### Calling conventions: per-axis stage vectorised, then combined -/

theorem cartesian_zipWith_map {A α β : Type} (f : A → α → β) (axes : List A) (vecs : List (List α))
    (h : vecs.length = axes.length) :
    cartesian (List.zipWith (fun a l => l.map (f a)) axes vecs) =
      (cartesian vecs).map (List.zipWith f axes) := by
  induction axes generalizing vecs with
  | nil =>
    cases vecs with
    | nil => simp [cartesian]
    | cons l ls => simp at h
  | cons a as ih =>
    cases vecs with
    | nil => simp at h
    | cons l ls =>
      have h' : ls.length = as.length := by simpa using h
      simp only [List.zipWith_cons_cons, cartesian, ih ls h', List.flatMap_map, List.map_flatMap,
        List.map_map]
      congr

theorem columns_zipWith_map {A α β : Type} (f : A → α → β) (axes : List A) (rows : List (List α))
    (h : rows.length = axes.length) :
    columns (List.zipWith (fun a l => l.map (f a)) axes rows) =
      (columns rows).map (List.zipWith f axes) := by
  induction axes generalizing rows with
  | nil =>
    cases rows with
    | nil => simp [columns]
    | cons l ls => simp at h
  | cons a as ih =>
    cases rows with
    | nil => simp at h
    | cons r rs =>
      have h' : rs.length = as.length := by simpa using h
      cases as with
      | nil =>
        cases rs with
        | nil => simp [columns]
        | cons _ _ => simp at h'
      | cons a' as' =>
        cases rs with
        | nil => simp at h'
        | cons r' rs' =>
          have := ih (r' :: rs') h'
          simp only [List.zipWith_cons_cons] at this ⊢
          simp only [columns, this, List.zipWith_map_left, List.zipWith_map_right, List.map_zipWith,
            List.zipWith_cons_cons]

/-! ### Concrete coordinate vectors for the non-vacuity examples -/

theorem incr_sq (n : Nat) : Incr (fun i => ((i * i : Nat) : ℚ)) n := by
  intro i j hij _
  have : i * i < j * j := Nat.mul_self_lt_mul_self hij
  show ((i * i : Nat) : ℚ) < ((j * j : Nat) : ℚ)
  exact_mod_cast this

theorem incr_id (n : Nat) : Incr (fun i => (i : ℚ)) n := by
  intro i j hij _
  show (i : ℚ) < (j : ℚ)
  exact_mod_cast hij

/-! ### Round 4: uniform grids, `Resampling`, `linear_deform` -/

section
variable {K : Type} [Field K] [LinearOrder K] [IsStrictOrderedRing K]
variable {V : Type} [AddCommGroup V] [Module K V]

/-- The nodes computed by `uniform_grid_fromintv` + `np.linspace` are the cell midpoints. -/
theorem uniformNode_eq (lo hi : K) (n i : Nat) (hn : 1 ≤ n) (hi' : i < n) :
    uniformNode lo hi n i = lo + (2 * (i : K) + 1) * ((hi - lo) / (2 * (n : K))) := by
  have hn0 : (n : K) ≠ 0 := by
    have : (0 : K) < (n : K) := by exact_mod_cast hn
    exact ne_of_gt this
  unfold uniformNode
  simp only
  split_ifs with h
  · obtain ⟨h1, _⟩ := h
    have : (n : K) = (i : K) + 1 := by exact_mod_cast h1.symm
    rw [this] at hn0 ⊢
    field_simp
    ring
  · by_cases h1 : n = 1
    · subst h1
      have : i = 0 := by omega
      subst this
      simp
    · have h2 : i + 1 < n := by
        by_contra hc
        exact h ⟨by omega, by omega⟩
      have hn1 : (n : K) - 1 ≠ 0 := by
        have : (1 : K) < (n : K) := by exact_mod_cast (by omega : 1 < n)
        intro hh; linarith
      field_simp
      ring

theorem uniformAxis_good (lo hi : K) (n : Nat) (s : Scheme) (h : lo < hi) (hn : 2 ≤ n) :
    (uniformAxis lo hi n s).Good := by
  refine ⟨hn, ?_⟩
  intro i j hij hj
  have hj : j < n := hj
  show uniformNode lo hi n i < uniformNode lo hi n j
  rw [uniformNode_eq lo hi n i (by omega) (by omega), uniformNode_eq lo hi n j (by omega) hj]
  have hpos : 0 < (hi - lo) / (2 * (n : K)) := by
    have : (0 : K) < (n : K) := by exact_mod_cast (by omega : 0 < n)
    apply div_pos <;> linarith
  have : (i : K) < (j : K) := by exact_mod_cast hij
  nlinarith

/-- Every element of a cartesian product has its `j`-th entry from the `j`-th factor. -/
theorem cartesian_forall₂ {A α : Type} (P : A → α → Prop) (axes : List A) (ls : List (List α))
    (h : List.Forall₂ (fun a l => ∀ x ∈ l, P a x) axes ls) :
    ∀ t ∈ cartesian ls, List.Forall₂ P axes t := by
  induction h with
  | nil => intro t ht; simp [cartesian] at ht; subst ht; exact .nil
  | @cons a l as ls hal _ ih =>
    intro t ht
    simp only [cartesian, List.mem_flatMap, List.mem_map] at ht
    obtain ⟨x, hx, t', ht', rfl⟩ := ht
    exact .cons (hal x hx) (ih t' ht')

theorem forall₂_map_of_mem {A α : Type} (f : A → List α) (P : A → α → Prop) (axes : List A)
    (h : ∀ a ∈ axes, ∀ x ∈ f a, P a x) :
    List.Forall₂ (fun a l => ∀ x ∈ l, P a x) axes (axes.map f) := by
  induction axes with
  | nil => exact .nil
  | cons a as ih =>
    exact .cons (h a (by simp)) (ih (fun b hb => h b (by simp [hb])))

/-- Every multi-index listed by the C-order enumeration is inside the grid. -/
theorem mem_allIdx_lt (axes : List (Axis K)) (idx : List Nat)
    (h : idx ∈ cartesian (axes.map (fun a => List.range a.n))) :
    List.Forall₂ (fun (a : Axis K) i => i < a.n) axes idx :=
  cartesian_forall₂ (fun (a : Axis K) i => i < a.n) axes _
    (forall₂_map_of_mem (fun (a : Axis K) => List.range a.n) _ axes
      (fun a _ x hx => by simpa using hx)) idx h

theorem nodes_eq_zipWith (axes : List (Axis K)) :
    axes.map Axis.nodes =
      List.zipWith (fun a l => l.map (fun i => a.c i)) axes (axes.map (fun a => List.range a.n)) := by
  induction axes with
  | nil => rfl
  | cons a as ih => simp [Axis.nodes, ih]

/-- `space.points()` lists the grid points of all multi-indices in C order. -/
theorem gridPoints_eq (axes : List (Axis K)) :
    gridPoints axes = (cartesian (axes.map (fun a => List.range a.n))).map
      (List.zipWith (fun a i => a.c i) axes) := by
  unfold gridPoints
  rw [nodes_eq_zipWith, cartesian_zipWith_map (fun (a : Axis K) i => a.c i) axes _ (by simp)]

theorem perAxisInterp_allNearest (axes : List (Axis K))
    (hg : ∀ a ∈ axes, a.Good ∧ a.scheme = .nearest) (v : List Nat → V) (p : List K) :
    perAxisInterp axes v p = nearestInterp axes v p := by
  induction axes generalizing v p with
  | nil => simp [perAxisInterp_nil, nearestInterp]
  | cons a as ih =>
    cases p with
    | nil => simp [perAxisInterp, perAxisEval_nil, nearestInterp]
    | cons x xs =>
      have h := hg a (by simp)
      rw [perAxisInterp_cons,
        nearest_edge_select a h.1 h.2 x (fun k => perAxisInterp as (fun idx => v (k :: idx)) xs),
        ih (fun b hb => hg b (by simp [hb]))]
      simp [nearestInterp]

theorem perAxisInterpolator_eq (axes : List (Axis K)) (hg : ∀ a ∈ axes, a.Good)
    (v : List Nat → V) (p : List K) :
    perAxisInterpolator axes v p = perAxisInterp axes v p := by
  unfold perAxisInterpolator allNearest
  split
  · rename_i h
    refine (perAxisInterp_allNearest axes (fun a ha => ⟨hg a ha, ?_⟩) v p).symm
    have := List.all_eq_true.mp h a ha
    simpa using this
  · rfl

/-- Mesh-grid call of `per_axis_interpolator`: the single-point interpolant at every point of
the mesh, C order (dispatch + broadcasting of the per-axis stage). -/
theorem perAxisInterpolatorMesh_eq (axes : List (Axis K)) (hg : ∀ a ∈ axes, a.Good)
    (v : List Nat → V) (vecs : List (List K)) (h : vecs.length = axes.length) :
    perAxisInterpolatorMesh axes v vecs = (cartesian vecs).map (perAxisInterp axes v) := by
  unfold perAxisInterpolatorMesh
  split
  · rename_i hn
    have hall : ∀ a ∈ axes, a.Good ∧ a.scheme = .nearest := fun a ha =>
      ⟨hg a ha, by simpa using List.all_eq_true.mp hn a ha⟩
    simp only [nearestMesh,
      cartesian_zipWith_map (fun (a : Axis K) x => nearestIndex a.c a.n x) axes vecs h, List.map_map]
    apply List.map_congr_left
    intro p _
    simp only [Function.comp, perAxisInterp_allNearest axes hall v p, nearestInterp]
  · simp only [perAxisMesh, cartesian_zipWith_map Axis.edge axes vecs h, List.map_map]
    rfl

theorem zipWith_add_zero (G : List (List K)) :
    List.zipWith (List.zipWith (· + ·)) G (G.map (fun p => p.map (fun _ => (0 : K)))) = G := by
  induction G with
  | nil => rfl
  | cons p G ih =>
    simp only [List.map_cons, List.zipWith_cons_cons, ih]
    congr 1
    induction p with
    | nil => rfl
    | cons x xs ihx => simp only [List.map_cons, List.zipWith_cons_cons, add_zero, ihx]

/-- Transposing an `N × d` point list and reading the columns of the result gives the points
back (`d ≥ 1`, every point with `d` coordinates). -/
theorem columns_transposePts (d : Nat) (hd : 1 ≤ d) (pts : List (List K))
    (h : ∀ p ∈ pts, p.length = d) : columns (transposePts d pts) = pts := by
  induction d generalizing pts with
  | zero => omega
  | succ d ih =>
    cases d with
    | zero =>
      simp only [transposePts, columns, List.map_map]
      conv_rhs => rw [← List.map_id pts]
      apply List.map_congr_left
      intro p hp
      have := h p hp
      match p, this with
      | [x], _ => rfl
    | succ d =>
      have htail : ∀ q ∈ pts.map List.tail, q.length = d + 1 := by
        intro q hq
        obtain ⟨p, hp, rfl⟩ := List.mem_map.mp hq
        simp [h p hp]
      have ih' := ih (by omega) (pts.map List.tail) htail
      rw [transposePts]
      have hshape : ∃ r rs, transposePts (d + 1) (pts.map List.tail) = r :: rs := ⟨_, _, rfl⟩
      obtain ⟨r, rs, hr⟩ := hshape
      rw [hr, columns]
      · rw [← hr, ih']
        simp only [List.zipWith_map_left, List.zipWith_map_right, List.zipWith_self]
        conv_rhs => rw [← List.map_id pts]
        apply List.map_congr_left
        intro p hp
        have := h p hp
        match p, this with
        | x :: xs, _ => rfl
      · simp

theorem transposePts_length (d : Nat) (pts : List (List K)) : (transposePts d pts).length = d := by
  induction d generalizing pts with
  | zero => rfl
  | succ d ih => simp [transposePts, ih]

/-- Point-array call of `per_axis_interpolator`: the single-point interpolant at every column. -/
theorem perAxisInterpolatorArray_eq (axes : List (Axis K)) (hg : ∀ a ∈ axes, a.Good)
    (v : List Nat → V) (rows : List (List K)) (h : rows.length = axes.length) :
    perAxisInterpolatorArray axes v rows = (columns rows).map (perAxisInterp axes v) := by
  unfold perAxisInterpolatorArray
  split
  · rename_i hn
    have hall : ∀ a ∈ axes, a.Good ∧ a.scheme = .nearest := fun a ha =>
      ⟨hg a ha, by simpa using List.all_eq_true.mp hn a ha⟩
    simp only [nearestArray,
      columns_zipWith_map (fun (a : Axis K) x => nearestIndex a.c a.n x) axes rows h, List.map_map]
    apply List.map_congr_left
    intro p _
    simp only [Function.comp, perAxisInterp_allNearest axes hall v p, nearestInterp]
  · simp only [perAxisArray, columns_zipWith_map Axis.edge axes rows h, List.map_map]
    rfl

theorem gridPoints_length (axes : List (Axis K)) : ∀ p ∈ gridPoints axes, p.length = axes.length := by
  intro p hp
  have := cartesian_forall₂ (fun (_ : Axis K) (_ : K) => True) axes (axes.map Axis.nodes)
    (forall₂_map_of_mem Axis.nodes _ axes (fun _ _ _ _ => trivial)) p hp
  exact this.length_eq.symm

/-- The stride of `uniform_discr(lo, hi, n, nodes_on_bdry=(bl, br))`: the interval holds `n - 1`
strides between the extreme nodes plus half a stride at every end without a boundary node. -/
def bdryStride (bl br : Bool) (lo hi : K) (n : Nat) : K :=
  (hi - lo) / ((n : K) - 1 + (if bl then 0 else 1 / 2) + (if br then 0 else 1 / 2))

theorem uniformNodeBdry_eq (bl br : Bool) (lo hi : K) (n i : Nat) (hn : 2 ≤ n) (_hi' : i < n) :
    uniformNodeBdry bl br lo hi n i =
      lo + ((i : K) + (if bl then 0 else 1 / 2)) * bdryStride bl br lo hi n := by
  have hnK : (2 : K) ≤ (n : K) := by exact_mod_cast hn
  have h1 : (n : K) - 1 ≠ 0 := by intro h; linarith
  have h2 : 2 * (n : K) - 1 ≠ 0 := by intro h; linarith
  have h3 : (n : K) ≠ 0 := by intro h; linarith
  have h4 : (n : K) - 1 + 1 / 2 ≠ 0 := by intro h; linarith
  have h5 : (n : K) - 1 + 1 / 2 + 1 / 2 ≠ 0 := by intro h; linarith
  have hff : (n : K) - 1 + 1 / 2 + 1 / 2 = (n : K) := by ring
  have hft : (n : K) - 1 + 1 / 2 + 0 = (2 * (n : K) - 1) / 2 := by ring
  have htf : (n : K) - 1 + 0 + 1 / 2 = (2 * (n : K) - 1) / 2 := by ring
  have htt : (n : K) - 1 + 0 + 0 = (n : K) - 1 := by ring
  unfold uniformNodeBdry bdryStride
  by_cases hl : i + 1 = n ∧ 1 < n
  · have hiK : (i : K) = (n : K) - 1 := by
      have : (i : K) + 1 = (n : K) := by exact_mod_cast hl.1
      linarith
    simp only [hl, and_self, if_true, hiK]
    have h6 : (2 * (n : K) - 1) / 2 ≠ 0 := div_ne_zero h2 two_ne_zero
    have h7 : ((2 * (n : K) - 1) / 2) * ((hi - lo) / ((2 * (n : K) - 1) / 2)) = hi - lo := by
      field_simp
    cases bl <;> cases br <;>
      simp only [Bool.false_eq_true, if_false, if_true, hff, hft, htf, htt] <;>
      first
        | (field_simp <;> ring1)
        | linear_combination (-1 : K) * h7
  · simp only [hl, if_false]
    cases bl <;> cases br <;>
      simp only [Bool.false_eq_true, if_false, if_true, hff, hft, htf, htt] <;>
      field_simp <;> ring

theorem uniformAxisBdry_good (bl br : Bool) (lo hi : K) (n : Nat) (s : Scheme) (h : lo < hi)
    (hn : 2 ≤ n) : (uniformAxisBdry bl br lo hi n s).Good := by
  refine ⟨hn, ?_⟩
  intro i j hij hj
  have hj : j < n := hj
  show uniformNodeBdry bl br lo hi n i < uniformNodeBdry bl br lo hi n j
  rw [uniformNodeBdry_eq bl br lo hi n i hn (by omega), uniformNodeBdry_eq bl br lo hi n j hn hj]
  have hnK : (2 : K) ≤ (n : K) := by exact_mod_cast hn
  have hpos : 0 < bdryStride bl br lo hi n := by
    unfold bdryStride
    apply div_pos (by linarith)
    cases bl <;> cases br <;> simp <;> linarith
  have : (i : K) < (j : K) := by exact_mod_cast hij
  nlinarith

end

end OdlModel.Interp
