/-
Helper definitions and lemmas for the sampling half of C15: the shapes a NumPy-style callable
returns (`RetForm`), the value such an array carries for an output index (`view`), and the
behaviour of `assignTo`, `defaultIp`, `oopPost` of `Model/Sampling.lean` on them.
-/
import OdlModel.Model.Sampling
import Mathlib.Data.List.Basic
import Mathlib.Data.List.Forall2
import Mathlib.Tactic.Linarith

namespace OdlModel.Sampling
set_option linter.unusedSectionVars false

/-- `idx` is a valid multi-index of an array of shape `s`. -/
def Valid (s idx : List Nat) : Prop := List.Forall₂ (fun i n => i < n) idx s

/-- The shapes in which a NumPy-style scalar-valued callable returns its values for an input
whose scalar output shape is `s` (`d` = dimension of the domain). -/
inductive RetForm (d : Nat) (s : List Nat) : List Nat → Prop
  /-- full result, or partial-coordinate result with unit axes (same rank as `s`) -/
  | bcast {r : List Nat} : List.Forall₂ (fun a b => a = 1 ∨ a = b) r s → RetForm d s r
  /-- constant: Python scalar / 0-d array -/
  | const : RetForm d s []
  /-- 1d function written in terms of `x` (shape `(1, n)`) -/
  | lead1d {n : Nat} : d = 1 → s = [n] → RetForm d s (1 :: s)

variable {V : Type}

/-- The value the returned array `r` carries for output index `idx` under NumPy's rules. -/
def view (s : List Nat) (r : Arr V) (idx : List Nat) : V :=
  if r.shape = 1 :: s then r.get (0 :: idx) else r.get (bcastIndex r.shape idx)

theorem valid_length {s idx : List Nat} (h : Valid s idx) : idx.length = s.length := h.length_eq

theorem bcastIndex_self {s idx : List Nat} (h : Valid s idx) : bcastIndex s idx = idx := by
  unfold bcastIndex
  rw [valid_length h, Nat.sub_self, List.drop_zero]
  induction h with
  | nil => rfl
  | @cons i n is ns hin _ ih =>
    simp only [List.zipWith_cons_cons, ih]
    by_cases hn : n = 1
    · subst hn; simp; omega
    · simp [hn]

theorem broadcastable_of_form {r s : List Nat} (h : List.Forall₂ (fun a b => a = 1 ∨ a = b) r s) :
    broadcastable r s = true := by
  unfold broadcastable
  rw [h.length_eq, Nat.sub_self, List.drop_zero]
  simp only [le_refl, decide_true, Bool.true_and]
  induction h with
  | nil => rfl
  | @cons a b as bs hab _ ih =>
    simp only [List.zipWith_cons_cons, List.all_cons, ih, Bool.and_true, id]
    rcases hab with h | h <;> simp [h]

theorem broadcastable_nil (s : List Nat) : broadcastable [] s = true := by
  simp [broadcastable]

theorem size_pos {s : List Nat} (h : ∀ n ∈ s, 0 < n) : 0 < size s := by
  induction s with
  | nil => simp [size]
  | cons n ns ih =>
    have h1 := h n (by simp)
    have h2 := ih (fun m hm => h m (by simp [hm]))
    simp only [size, List.foldr_cons] at h2 ⊢
    exact Nat.mul_pos h1 h2

theorem size_form {r s : List Nat} (h : List.Forall₂ (fun a b => a = 1 ∨ a = b) r s)
    (hp : ∀ n ∈ s, 0 < n) : size r ≤ size s ∧ (size r = size s → r = s) := by
  induction h with
  | nil => simp
  | @cons a b as bs hab _ ih =>
    have hb := hp b (by simp)
    obtain ⟨ih1, ih2⟩ := ih (fun m hm => hp m (by simp [hm]))
    have hps := size_pos (s := bs) (fun m hm => hp m (by simp [hm]))
    have e1 : size (a :: as) = a * size as := by simp [size]
    have e2 : size (b :: bs) = b * size bs := by simp [size]
    rw [e1, e2]
    rcases hab with h | h
    · subst h
      by_cases hb1 : b = 1
      · subst hb1
        simp only [Nat.one_mul]
        exact ⟨ih1, fun e => by rw [ih2 e]⟩
      · have hb2 : 2 ≤ b := by omega
        have : size as < b * size bs := by nlinarith
        constructor
        · omega
        · intro e; omega
    · subst h
      constructor
      · exact Nat.mul_le_mul_left _ ih1
      · intro e
        have := Nat.eq_of_mul_eq_mul_left hb e
        rw [ih2 this]

/-- The wrapper delivers an array of shape `s` holding the target values. -/
def Delivers (s : List Nat) (tgt : List Nat → V) (o : Option (Arr V)) : Prop :=
  ∃ a, o = some a ∧ a.shape = s ∧ ∀ idx, Valid s idx → a.get idx = tgt idx

theorem leadDrop_zero {r : List Nat} {rank : Nat} (h : r.length ≤ rank) : leadDrop r rank = 0 := by
  unfold leadDrop
  split
  · rename_i ns rk
    simp only [List.length_cons] at h
    simp; omega
  · rfl

theorem form_ne_lead {s r : List Nat}
    (h : List.Forall₂ (fun a b => a = 1 ∨ a = b) r s) : r ≠ 1 :: s := by
  intro e
  have := h.length_eq
  rw [e] at this
  simp at this

theorem assignTo_delivers {d : Nat} {s : List Nat} {r : Arr V} (hf : RetForm d s r.shape)
    {tgt : List Nat → V} (hv : ∀ idx, Valid s idx → view s r idx = tgt idx) :
    Delivers s tgt (assignTo s r) := by
  unfold assignTo
  generalize hsh : r.shape = sh at hf
  cases hf with
  | bcast h =>
    rw [leadDrop_zero (by rw [h.length_eq])]
    simp only [List.drop_zero, List.replicate_zero, List.nil_append, broadcastTo,
      broadcastable_of_form h, if_true]
    refine ⟨_, rfl, rfl, fun idx hi => ?_⟩
    have := hv idx hi
    simp only [view, hsh, form_ne_lead h, if_false] at this
    exact this
  | const =>
    simp only [leadDrop, List.drop_nil, List.replicate_zero, List.nil_append, broadcastTo,
      broadcastable_nil, if_true]
    refine ⟨_, rfl, rfl, fun idx hi => ?_⟩
    have := hv idx hi
    simp only [view, hsh] at this
    simpa using this
  | @lead1d n hd hs =>
    subst hs
    have hk : leadDrop (1 :: [n]) [n].length = 1 := by
      simp [leadDrop]
      unfold leadDrop
      split <;> simp_all
    rw [hk]
    have hb : broadcastable [n] [n] = true := by simp [broadcastable]
    simp only [List.drop_succ_cons, List.drop_zero, broadcastTo, hb, if_true]
    refine ⟨_, rfl, rfl, fun idx hi => ?_⟩
    have := hv idx hi
    simp only [view, hsh, if_true] at this
    simp only [bcastIndex_self hi]
    simpa using this

theorem size_cons (a : Nat) (as : List Nat) : size (a :: as) = a * size as := by simp [size]

/-- `(1, n) → (n,)` by C-order reshape reads entry `(0, i)`. -/
theorem reshape_lead1d (r : Arr V) (n : Nat) (hsh : r.shape = [1, n]) :
    ∃ a, reshapeC r [n] = some a ∧ a.shape = [n] ∧
      ∀ idx, Valid [n] idx → a.get idx = r.get (0 :: idx) := by
  have hne : ¬ ([1, n] = [n]) := by simp
  refine ⟨⟨[n], fun idx => r.get (unravel r.shape (ravel [n] idx))⟩, ?_, rfl, ?_⟩
  · simp [reshapeC, hsh, size]
  · intro idx hi
    cases hi with
    | cons hin htl =>
      cases htl
      rename_i i
      simp only [hsh, ravel, unravel, size, List.foldr_cons, List.foldr_nil, Nat.mul_one,
        Nat.add_zero, Nat.mod_one, Nat.div_one]
      rw [Nat.mod_eq_of_lt hin, Nat.mod_eq_of_lt hin]

theorem defaultIp_delivers {d : Nat} {s : List Nat} (hp : ∀ n ∈ s, 0 < n) (hne : s ≠ [])
    {r : Arr V} (hf : RetForm d s r.shape)
    {tgt : List Nat → V} (hv : ∀ idx, Valid s idx → view s r idx = tgt idx) :
    Delivers s tgt (defaultIp s r) := by
  unfold defaultIp
  generalize hsh : r.shape = sh at hf
  cases hf with
  | bcast h =>
    obtain ⟨_, heq⟩ := size_form h hp
    by_cases hsz : size r.shape = size s
    · have hrs : r.shape = s := by rw [hsh]; exact heq (by rw [← hsh]; exact hsz)
      simp only [reshapeC, hsz, ne_eq, not_true_eq_false, if_false, hrs, if_true]
      refine ⟨r, rfl, hrs, fun idx hi => ?_⟩
      have := hv idx hi
      simp only [view, hsh, form_ne_lead h, if_false] at this
      rw [← hsh, hrs, bcastIndex_self hi] at this
      exact this
    · simp only [reshapeC, ne_eq, hsz, not_false_eq_true, if_true]
      exact assignTo_delivers (d := d) (by rw [hsh]; exact .bcast h) hv
  | const =>
    by_cases hsz : size r.shape = size s
    · have hrs : ¬ r.shape = s := by rw [hsh]; exact fun e => hne e.symm
      simp only [reshapeC, hsz, ne_eq, not_true_eq_false, if_false, hrs]
      refine ⟨_, rfl, rfl, fun idx hi => ?_⟩
      have := hv idx hi
      simp only [view, hsh] at this
      simp only [hsh, unravel]
      simpa [bcastIndex] using this
    · simp only [reshapeC, ne_eq, hsz, not_false_eq_true, if_true]
      exact assignTo_delivers (d := d) (by rw [hsh]; exact .const) hv
  | @lead1d n hd hs =>
    subst hs
    obtain ⟨a, ha, hshape, hget⟩ := reshape_lead1d r n hsh
    rw [ha]
    refine ⟨a, rfl, hshape, fun idx hi => ?_⟩
    rw [hget idx hi]
    have := hv idx hi
    simpa [view, hsh] using this

theorem oopPost_nonpoint (d : Nat) (s : List Nat) {inp : InputKind} (hinp : inp ≠ .point)
    (r : Arr V) :
    oopPost d inp s r =
      ((if d = 1 ∧ r.shape = 1 :: s then reshapeC r s else some r).bind fun r1 =>
        if s ≠ [] ∧ r1.shape ≠ s then broadcastTo r1 s else some r1) := by
  unfold oopPost
  simp [hinp]

theorem oopPost_delivers {d : Nat} {s : List Nat} (hne : s ≠ []) {inp : InputKind}
    (hinp : inp ≠ .point) {r : Arr V} (hf : RetForm d s r.shape)
    {tgt : List Nat → V} (hv : ∀ idx, Valid s idx → view s r idx = tgt idx) :
    Delivers s tgt (oopPost d inp s r) := by
  generalize hsh : r.shape = sh at hf
  cases hf with
  | bcast h =>
    have h1 : ¬ (d = 1 ∧ r.shape = 1 :: s) := fun e => form_ne_lead h (hsh ▸ e.2)
    rw [oopPost_nonpoint d s hinp, if_neg h1, Option.bind_some]
    by_cases hrs : r.shape = s
    · rw [if_neg (by simp [hrs])]
      refine ⟨r, rfl, hrs, fun idx hi => ?_⟩
      have := hv idx hi
      simp only [view, hsh, form_ne_lead h, if_false] at this
      rw [← hsh, hrs, bcastIndex_self hi] at this
      exact this
    · rw [if_pos ⟨hne, hrs⟩]
      simp only [broadcastTo, hsh, broadcastable_of_form h, if_true]
      refine ⟨_, rfl, rfl, fun idx hi => ?_⟩
      have := hv idx hi
      simp only [view, hsh, form_ne_lead h, if_false] at this
      exact this
  | const =>
    have h1 : ¬ (d = 1 ∧ r.shape = 1 :: s) := by rw [hsh]; simp
    have hrs : ¬ r.shape = s := by rw [hsh]; exact fun e => hne e.symm
    rw [oopPost_nonpoint d s hinp, if_neg h1, Option.bind_some, if_pos ⟨hne, hrs⟩]
    simp only [broadcastTo, hsh, broadcastable_nil, if_true]
    refine ⟨_, rfl, rfl, fun idx hi => ?_⟩
    have := hv idx hi
    simp only [view, hsh] at this
    simpa [bcastIndex] using this
  | @lead1d n hd hs =>
    subst hs
    obtain ⟨a, ha, hshape, hget⟩ := reshape_lead1d r n hsh
    have h1 : d = 1 ∧ r.shape = 1 :: [n] := ⟨hd, hsh⟩
    rw [oopPost_nonpoint d _ hinp, if_pos h1, ha, Option.bind_some, if_neg (by simp [hshape])]
    refine ⟨a, rfl, hshape, fun idx hi => ?_⟩
    rw [hget idx hi]
    have := hv idx hi
    simpa [view, hsh] using this

/-- An array that already has the output shape passes the out-of-place post-processing
unchanged. -/
theorem oopPost_id {d : Nat} {s : List Nat} {inp : InputKind} (hinp : inp ≠ .point)
    (a : Arr V) (ha : a.shape = s) : oopPost d inp s a = some a := by
  rw [oopPost_nonpoint d s hinp]
  have h1 : ¬ (d = 1 ∧ a.shape = 1 :: s) := by
    rw [ha]; intro e
    have := congrArg List.length e.2
    simp at this
  rw [if_neg h1, Option.bind_some, if_neg (by simp [ha])]

end OdlModel.Sampling
