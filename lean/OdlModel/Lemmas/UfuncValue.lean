/-
C17 — helper lemmas (mutual inductions over the nested tree type) for the value model of the
legacy product-space interface, `OdlModel/Model/UfuncValue.lean`.
-/
import OdlModel.Model.UfuncValue

namespace OdlModel.UfuncValue

variable {K : Type}

/-! ### folds -/

theorem foldl_assoc_shift (op : K → K → K) (assoc : ∀ a b c, op (op a b) c = op a (op b c))
    (a b : K) (l : List K) : op a (l.foldl op b) = l.foldl op (op a b) := by
  induction l generalizing b with
  | nil => rfl
  | cons x t ih => simp only [List.foldl_cons]; rw [ih, assoc]

/-- monoid: the fold of a concatenation is the product of the folds -/
theorem foldl_append_id (op : K → K → K) (e : K)
    (assoc : ∀ a b c, op (op a b) c = op a (op b c)) (_idl : ∀ a, op e a = a)
    (idr : ∀ a, op a e = a) (a b : List K) :
    (a ++ b).foldl op e = op (a.foldl op e) (b.foldl op e) := by
  rw [List.foldl_append, foldl_assoc_shift op assoc, idr]

/-! ### reductions with an identity -/

mutual
theorem psReduce_foldId (op : K → K → K) (e : K)
    (assoc : ∀ a b c, op (op a b) c = op a (op b c)) (idl : ∀ a, op e a = a)
    (idr : ∀ a, op a e = a) :
    ∀ t : PTree K, psReduce (foldId op e) t = some (t.flatten.foldl op e)
  | .leaf v => by simp [psReduce, foldId, PTree.flatten]
  | .node ps => by
      obtain ⟨rs, h1, h2⟩ := psReduceParts_foldId op e assoc idl idr ps
      simp [psReduce, h1, foldId, PTree.flatten, h2]
theorem psReduceParts_foldId (op : K → K → K) (e : K)
    (assoc : ∀ a b c, op (op a b) c = op a (op b c)) (idl : ∀ a, op e a = a)
    (idr : ∀ a, op a e = a) :
    ∀ ps : List (PTree K), ∃ rs, psReduceParts (foldId op e) ps = some rs ∧
      rs.foldl op e = (flattenParts ps).foldl op e
  | [] => ⟨[], by simp [psReduceParts], by simp [flattenParts]⟩
  | p :: t => by
      obtain ⟨rs, h1, h2⟩ := psReduceParts_foldId op e assoc idl idr t
      refine ⟨p.flatten.foldl op e :: rs, ?_, ?_⟩
      · simp [psReduceParts, psReduce_foldId op e assoc idl idr p, h1]
      · rw [flattenParts, foldl_append_id op e assoc idl idr, ← h2]
        simp only [List.foldl_cons, idl]
        rw [foldl_assoc_shift op assoc, idr]
end

/-! ### reductions without identity -/

mutual
/-- every leaf has a value and every product has a part -/
def PTree.full : PTree K → Bool
  | .leaf v => !v.isEmpty
  | .node ps => !ps.isEmpty && fullParts ps
def fullParts : List (PTree K) → Bool
  | [] => true
  | p :: t => p.full && fullParts t
end

theorem fold1_append_left (op : K → K → K) (a b : List K) (x : K) (ha : fold1 op a = some x) :
    fold1 op (a ++ b) = some (b.foldl op x) := by
  cases a with
  | nil => simp [fold1] at ha
  | cons a0 l =>
    simp only [fold1, Option.some.injEq] at ha
    simp [fold1, List.foldl_append, ha]

theorem fold1_foldl (op : K → K → K) (assoc : ∀ a b c, op (op a b) c = op a (op b c))
    (l : List K) (x : K) (h : fold1 op l = some x) (a : K) : l.foldl op a = op a x := by
  cases l with
  | nil => simp [fold1] at h
  | cons a0 t =>
    simp only [fold1, Option.some.injEq] at h
    rw [List.foldl_cons, ← h, foldl_assoc_shift op assoc]

mutual
theorem psReduce_fold1 (op : K → K → K) (assoc : ∀ a b c, op (op a b) c = op a (op b c)) :
    ∀ t : PTree K, t.full = true →
      ∃ x, psReduce (fold1 op) t = some x ∧ fold1 op t.flatten = some x
  | .leaf v, h => by
      cases v with
      | nil => simp [PTree.full] at h
      | cons a l => exact ⟨l.foldl op a, by simp [psReduce, fold1], by simp [PTree.flatten, fold1]⟩
  | .node ps, h => by
      simp only [PTree.full, Bool.and_eq_true, Bool.not_eq_true', List.isEmpty_eq_false_iff] at h
      obtain ⟨rs, h1, _, h3⟩ := psReduceParts_fold1 op assoc ps h.2
      obtain ⟨x, h4, h5⟩ := h3 h.1
      exact ⟨x, by simp [psReduce, h1, h4], by simpa [PTree.flatten] using h5⟩
theorem psReduceParts_fold1 (op : K → K → K)
    (assoc : ∀ a b c, op (op a b) c = op a (op b c)) :
    ∀ ps : List (PTree K), fullParts ps = true →
      ∃ rs, psReduceParts (fold1 op) ps = some rs ∧
        (∀ a, rs.foldl op a = (flattenParts ps).foldl op a) ∧
        (ps ≠ [] → ∃ x, fold1 op rs = some x ∧ fold1 op (flattenParts ps) = some x)
  | [], _ => ⟨[], by simp [psReduceParts], by simp [flattenParts], by simp⟩
  | p :: t, h => by
      simp only [fullParts, Bool.and_eq_true] at h
      obtain ⟨x, h1, h2⟩ := psReduce_fold1 op assoc p h.1
      obtain ⟨rs, h3, h4, _⟩ := psReduceParts_fold1 op assoc t h.2
      refine ⟨x :: rs, by simp [psReduceParts, h1, h3], ?_, ?_⟩
      · intro a
        rw [flattenParts, List.foldl_append, fold1_foldl op assoc _ x h2 a, List.foldl_cons, h4]
      · intro _
        exact ⟨rs.foldl op x, by simp [fold1], by
          rw [flattenParts, fold1_append_left op _ _ x h2, h4]⟩
end

mutual
theorem psReduce_fold1_none (op : K → K → K) :
    ∀ t : PTree K, t.full = false → psReduce (fold1 op) t = none
  | .leaf v, h => by
      cases v with
      | nil => simp [psReduce, fold1]
      | cons a l => simp [PTree.full] at h
  | .node ps, h => by
      cases ps with
      | nil => simp [psReduce, psReduceParts, fold1]
      | cons p t =>
        simp only [PTree.full, List.isEmpty_cons, Bool.not_false, Bool.true_and] at h
        simp [psReduce, psReduceParts_fold1_none op (p :: t) h]
theorem psReduceParts_fold1_none (op : K → K → K) :
    ∀ ps : List (PTree K), fullParts ps = false → psReduceParts (fold1 op) ps = none
  | [], h => by simp [fullParts] at h
  | p :: t, h => by
      simp only [fullParts, Bool.and_eq_false_iff] at h
      rcases h with h | h
      · simp [psReduceParts, psReduce_fold1_none op p h]
      · rw [psReduceParts, psReduceParts_fold1_none op t h]
        cases psReduce (fold1 op) p <;> rfl
end

/-! ### element-wise -/

mutual
theorem psMap_flatten' (f : K → K) : ∀ t : PTree K, (psMap f t).flatten = t.flatten.map f
  | .leaf v => by simp [psMap, PTree.flatten]
  | .node ps => by simp [psMap, PTree.flatten, psMapParts_flatten f ps]
theorem psMapParts_flatten (f : K → K) :
    ∀ ps : List (PTree K), flattenParts (psMapParts f ps) = (flattenParts ps).map f
  | [] => by simp [psMapParts, flattenParts]
  | p :: t => by simp [psMapParts, flattenParts, psMap_flatten' f p, psMapParts_flatten f t]
end

mutual
theorem psMap_sameShape' (f : K → K) : ∀ t : PTree K, (psMap f t).sameShape t = true
  | .leaf v => by simp [psMap, PTree.sameShape]
  | .node ps => by simp [psMap, PTree.sameShape, psMapParts_sameShape f ps]
theorem psMapParts_sameShape (f : K → K) :
    ∀ ps : List (PTree K), sameShapeParts (psMapParts f ps) ps = true
  | [] => by simp [psMapParts, sameShapeParts]
  | p :: t => by
      simp [psMapParts, sameShapeParts, psMap_sameShape' f p, psMapParts_sameShape f t]
end

mutual
theorem sameShape_flatten_length : ∀ x y : PTree K, x.sameShape y = true →
    x.flatten.length = y.flatten.length
  | .leaf v, .leaf w, h => by simpa [PTree.sameShape, PTree.flatten] using h
  | .node ps, .node qs, h => by
      simp only [PTree.sameShape] at h
      simpa [PTree.flatten] using sameShapeParts_flatten_length ps qs h
  | .leaf _, .node _, h => by simp [PTree.sameShape] at h
  | .node _, .leaf _, h => by simp [PTree.sameShape] at h
theorem sameShapeParts_flatten_length : ∀ ps qs : List (PTree K), sameShapeParts ps qs = true →
    (flattenParts ps).length = (flattenParts qs).length
  | [], [], _ => rfl
  | p :: ps, q :: qs, h => by
      simp only [sameShapeParts, Bool.and_eq_true] at h
      simp [flattenParts, sameShape_flatten_length p q h.1,
        sameShapeParts_flatten_length ps qs h.2]
  | [], _ :: _, h => by simp [sameShapeParts] at h
  | _ :: _, [], h => by simp [sameShapeParts] at h
end

theorem zipWith_append_eq_len {α β γ} (g : α → β → γ) (a a' : List α) (b b' : List β)
    (h : a.length = b.length) :
    List.zipWith g (a ++ a') (b ++ b') = List.zipWith g a b ++ List.zipWith g a' b' := by
  exact List.zipWith_append h

mutual
theorem psBin_scalar' (op : K → K → K) (c : K) :
    ∀ t : PTree K, psBin op t (.scalar c) = some (psMap (fun a => op a c) t)
  | .leaf v => by simp [psBin, psMap]
  | .node ps => by simp [psBin, psMap, psBinAll_scalar op c ps]
theorem psBinAll_scalar (op : K → K → K) (c : K) :
    ∀ ps : List (PTree K),
      psBinAll op ps (.scalar c) = some (psMapParts (fun a => op a c) ps)
  | [] => by simp [psBinAll, psMapParts]
  | p :: t => by simp [psBinAll, psMapParts, psBin_scalar' op c p, psBinAll_scalar op c t]
end

mutual
theorem psBin_zip' (op : K → K → K) : ∀ x y : PTree K, x.sameShape y = true →
    ∃ r, psBin op x (.elem y) = some r ∧
      r.flatten = List.zipWith op x.flatten y.flatten ∧ r.sameShape x = true
  | .leaf v, .leaf w, h => by
      have hl : v.length = w.length := by simpa [PTree.sameShape] using h
      exact ⟨.leaf (List.zipWith op v w), by simp [psBin, hl], by simp [PTree.flatten],
        by simp [PTree.sameShape, hl]⟩
  | .node ps, .node qs, h => by
      simp only [PTree.sameShape] at h
      obtain ⟨rs, h1, h2, h3⟩ := psBinZip_zip op ps qs h
      exact ⟨.node rs, by simp [psBin, h, h1], by simpa [PTree.flatten] using h2,
        by simpa [PTree.sameShape] using h3⟩
  | .leaf _, .node _, h => by simp [PTree.sameShape] at h
  | .node _, .leaf _, h => by simp [PTree.sameShape] at h
theorem psBinZip_zip (op : K → K → K) : ∀ ps qs : List (PTree K), sameShapeParts ps qs = true →
    ∃ rs, psBinZip op ps qs = some rs ∧
      flattenParts rs = List.zipWith op (flattenParts ps) (flattenParts qs) ∧
      sameShapeParts rs ps = true
  | [], [], _ => ⟨[], by simp [psBinZip], by simp [flattenParts], by simp [sameShapeParts]⟩
  | p :: ps, q :: qs, h => by
      simp only [sameShapeParts, Bool.and_eq_true] at h
      obtain ⟨r, h1, h2, h3⟩ := psBin_zip' op p q h.1
      obtain ⟨rs, h4, h5, h6⟩ := psBinZip_zip op ps qs h.2
      refine ⟨r :: rs, by simp [psBinZip, h1, h4], ?_, by simp [sameShapeParts, h3, h6]⟩
      simp only [flattenParts]
      rw [List.zipWith_append (sameShape_flatten_length p q h.1), h2, h5]
  | [], _ :: _, h => by simp [sameShapeParts] at h
  | _ :: _, [], h => by simp [sameShapeParts] at h
end

/-! ### buffer level -/

mutual
theorem psMapInto_frame' (f : K → K) : ∀ (x o : BTree) (h h' : Heap K),
    psMapInto f h x o = some h' →
      h'.length = h.length ∧ ∀ k, k ∉ o.bufs → h'[k]? = h[k]?
  | .buf i, .buf j, h, h', e => by
      simp only [psMapInto] at e
      split at e
      · split at e
        · injection e with e
          subst e
          refine ⟨by simp, fun k hk => ?_⟩
          have : j ≠ k := by
            intro c; apply hk; simp [BTree.bufs, c]
          simp [this]
        · cases e
      · cases e
  | .node ps, .node qs, h, h', e => by
      simp only [psMapInto] at e
      split at e
      · simpa [BTree.bufs] using psMapIntoParts_frame f ps qs h h' e
      · cases e
  | .buf _, .node _, _, _, e => by simp [psMapInto] at e
  | .node _, .buf _, _, _, e => by simp [psMapInto] at e
theorem psMapIntoParts_frame (f : K → K) : ∀ (ps qs : List BTree) (h h' : Heap K),
    psMapIntoParts f h ps qs = some h' →
      h'.length = h.length ∧ ∀ k, k ∉ bufsParts qs → h'[k]? = h[k]?
  | p :: ps, q :: qs, h, h', e => by
      simp only [psMapIntoParts] at e
      split at e
      · rename_i h1 e1
        obtain ⟨l1, f1⟩ := psMapInto_frame' f p q h h1 e1
        obtain ⟨l2, f2⟩ := psMapIntoParts_frame f ps qs h1 h' e
        refine ⟨l2.trans l1, fun k hk => ?_⟩
        simp only [bufsParts, List.mem_append, not_or] at hk
        rw [f2 k hk.2, f1 k hk.1]
      · cases e
  | [], _, h, h', e => by
      simp only [psMapIntoParts, Option.some.injEq] at e
      subst e
      simp
  | _ :: _, [], h, h', e => by
      simp only [psMapIntoParts, Option.some.injEq] at e
      subst e
      simp
end

mutual
theorem read_congr : ∀ (t : BTree) (h h' : Heap K), (∀ k ∈ t.bufs, h'[k]? = h[k]?) →
    t.read h' = t.read h
  | .buf i, h, h', e => by simp [BTree.read, e i (by simp [BTree.bufs])]
  | .node ps, h, h', e => by
      simp [BTree.read, readParts_congr ps h h' (by simpa [BTree.bufs] using e)]
theorem readParts_congr : ∀ (ps : List BTree) (h h' : Heap K),
    (∀ k ∈ bufsParts ps, h'[k]? = h[k]?) → readParts h' ps = readParts h ps
  | [], _, _, _ => by simp [readParts]
  | p :: t, h, h', e => by
      have e1 : ∀ k ∈ p.bufs, h'[k]? = h[k]? := fun k hk => e k (by simp [bufsParts, hk])
      have e2 : ∀ k ∈ bufsParts t, h'[k]? = h[k]? := fun k hk => e k (by simp [bufsParts, hk])
      simp [readParts, read_congr p h h' e1, readParts_congr t h h' e2]
end

mutual
theorem psMapInto_disjoint' (f : K → K) : ∀ (x o : BTree) (h h' : Heap K),
    x.sameTree o = true → o.bufs.Nodup → (∀ k ∈ o.bufs, k ∉ x.bufs) →
    psMapInto f h x o = some h' →
      ∃ t, x.read h = some t ∧ o.read h' = some (psMap f t)
  | .buf i, .buf j, h, h', _, _, dj, e => by
      have hij : j ≠ i := by
        intro c; exact dj j (by simp [BTree.bufs]) (by simp [BTree.bufs, c])
      simp only [psMapInto] at e
      split at e
      · rename_i v w hv hw
        split at e
        · injection e with e
          subst e
          have hj : j < h.length := by
            rcases List.getElem?_eq_some_iff.mp hw with ⟨hl, _⟩; exact hl
          exact ⟨.leaf v, by simp [BTree.read, hv], by simp [BTree.read, hj, psMap]⟩
        · cases e
      · cases e
  | .node ps, .node qs, h, h', st, nd, dj, e => by
      simp only [psMapInto] at e
      split at e
      case isFalse => cases e
      simp only [BTree.sameTree] at st
      simp only [BTree.bufs] at nd dj
      obtain ⟨xs, h1, h2⟩ := psMapIntoParts_disjoint f ps qs h h' st nd dj e
      exact ⟨.node xs, by simp [BTree.read, h1], by simp [BTree.read, h2, psMap]⟩
  | .buf _, .node _, _, _, st, _, _, _ => by simp [BTree.sameTree] at st
  | .node _, .buf _, _, _, st, _, _, _ => by simp [BTree.sameTree] at st
theorem psMapIntoParts_disjoint (f : K → K) : ∀ (ps qs : List BTree) (h h' : Heap K),
    sameTreeParts ps qs = true → (bufsParts qs).Nodup →
    (∀ k ∈ bufsParts qs, k ∉ bufsParts ps) →
    psMapIntoParts f h ps qs = some h' →
      ∃ xs, readParts h ps = some xs ∧ readParts h' qs = some (psMapParts f xs)
  | [], [], h, h', _, _, _, e => by
      simp only [psMapIntoParts, Option.some.injEq] at e
      subst e
      exact ⟨[], by simp [readParts], by simp [readParts, psMapParts]⟩
  | p :: ps, q :: qs, h, h', st, nd, dj, e => by
      simp only [sameTreeParts, Bool.and_eq_true] at st
      simp only [bufsParts] at nd dj
      rw [List.nodup_append] at nd
      simp only [psMapIntoParts] at e
      split at e
      · rename_i h1 e1
        obtain ⟨t, r1, r2⟩ := psMapInto_disjoint' f p q h h1 st.1 nd.1
          (fun k hk hk' => dj k (by simp [hk]) (by simp [hk'])) e1
        obtain ⟨xs, r3, r4⟩ := psMapIntoParts_disjoint f ps qs h1 h' st.2 nd.2.1
          (fun k hk hk' => dj k (by simp [hk]) (by simp [hk'])) e
        obtain ⟨_, f1⟩ := psMapInto_frame' f p q h h1 e1
        obtain ⟨_, f2⟩ := psMapIntoParts_frame f ps qs h1 h' e
        have c1 : readParts h1 ps = readParts h ps :=
          readParts_congr ps h h1 (fun k hk => f1 k (fun hq => dj k (by simp [hq]) (by simp [hk])))
        have c2 : q.read h' = q.read h1 :=
          read_congr q h1 h' (fun k hk => f2 k (fun hq => nd.2.2 k hk k hq rfl))
        refine ⟨t :: xs, by simp [readParts, r1, ← c1, r3], ?_⟩
        simp [readParts, c2, r2, r4, psMapParts]
      · cases e
  | [], _ :: _, _, _, st, _, _, _ => by simp [sameTreeParts] at st
  | _ :: _, [], _, _, st, _, _, _ => by simp [sameTreeParts] at st
end

mutual
theorem psMapInto_inplace' (f : K → K) : ∀ (x : BTree) (h h' : Heap K),
    x.bufs.Nodup → psMapInto f h x x = some h' →
      ∃ t, x.read h = some t ∧ x.read h' = some (psMap f t)
  | .buf i, h, h', _, e => by
      simp only [psMapInto] at e
      split at e
      · rename_i v w hv hw
        split at e
        · injection e with e
          subst e
          have hi : i < h.length := by
            rcases List.getElem?_eq_some_iff.mp hw with ⟨hl, _⟩; exact hl
          exact ⟨.leaf v, by simp [BTree.read, hv], by simp [BTree.read, hi, psMap]⟩
        · cases e
      · cases e
  | .node ps, h, h', nd, e => by
      simp only [psMapInto, if_true] at e
      simp only [BTree.bufs] at nd
      obtain ⟨xs, h1, h2⟩ := psMapIntoParts_inplace f ps h h' nd e
      exact ⟨.node xs, by simp [BTree.read, h1], by simp [BTree.read, h2, psMap]⟩
theorem psMapIntoParts_inplace (f : K → K) : ∀ (ps : List BTree) (h h' : Heap K),
    (bufsParts ps).Nodup → psMapIntoParts f h ps ps = some h' →
      ∃ xs, readParts h ps = some xs ∧ readParts h' ps = some (psMapParts f xs)
  | [], h, h', _, e => by
      simp only [psMapIntoParts, Option.some.injEq] at e
      subst e
      exact ⟨[], by simp [readParts], by simp [readParts, psMapParts]⟩
  | p :: ps, h, h', nd, e => by
      simp only [bufsParts] at nd
      rw [List.nodup_append] at nd
      simp only [psMapIntoParts] at e
      split at e
      · rename_i h1 e1
        obtain ⟨t, r1, r2⟩ := psMapInto_inplace' f p h h1 nd.1 e1
        obtain ⟨xs, r3, r4⟩ := psMapIntoParts_inplace f ps h1 h' nd.2.1 e
        obtain ⟨_, f1⟩ := psMapInto_frame' f p p h h1 e1
        obtain ⟨_, f2⟩ := psMapIntoParts_frame f ps ps h1 h' e
        have c1 : readParts h1 ps = readParts h ps :=
          readParts_congr ps h h1 (fun k hk => f1 k (fun hq => nd.2.2 k hq k hk rfl))
        have c2 : p.read h' = p.read h1 :=
          read_congr p h1 h' (fun k hk => f2 k (fun hq => nd.2.2 k hk k hq rfl))
        refine ⟨t :: xs, by simp [readParts, r1, ← c1, r3], ?_⟩
        simp [readParts, c2, r2, r4, psMapParts]
      · cases e
end

mutual
theorem psMapInto_sameTree (f : K → K) : ∀ (x o : BTree) (h h' : Heap K),
    psMapInto f h x o = some h' → x.sameTree o = true
  | .buf _, .buf _, _, _, _ => by simp [BTree.sameTree]
  | .node ps, .node qs, h, h', e => by
      simp only [psMapInto] at e
      split at e
      · rename_i hl
        simpa [BTree.sameTree] using psMapIntoParts_sameTree f ps qs h h' hl e
      · cases e
  | .buf _, .node _, _, _, e => by simp [psMapInto] at e
  | .node _, .buf _, _, _, e => by simp [psMapInto] at e
theorem psMapIntoParts_sameTree (f : K → K) : ∀ (ps qs : List BTree) (h h' : Heap K),
    ps.length = qs.length → psMapIntoParts f h ps qs = some h' → sameTreeParts ps qs = true
  | [], [], _, _, _, _ => by simp [sameTreeParts]
  | p :: ps, q :: qs, h, h', hl, e => by
      simp only [psMapIntoParts] at e
      split at e
      · rename_i h1 e1
        simp only [List.length_cons, Nat.add_right_cancel_iff] at hl
        simp [sameTreeParts, psMapInto_sameTree f p q h h1 e1,
          psMapIntoParts_sameTree f ps qs h1 h' hl e]
      · cases e
  | [], _ :: _, _, _, hl, _ => by simp at hl
  | _ :: _, [], _, _, hl, _ => by simp at hl
end

/-! ### second operand from the space of the parts (broadcast over the parts) -/

/-- `[x.ufuncs.f(x2) for x in self.elem]` when every part has the structure of `x2` -/
theorem psBinAll_sub (op : K → K → K) (y : PTree K) : ∀ ps : List (PTree K),
    (∀ p ∈ ps, p.sameShape y = true) →
    ∃ rs, psBinAll op ps (.elem y) = some rs ∧
      flattenParts rs = (ps.map (fun p => List.zipWith op p.flatten y.flatten)).flatten ∧
      sameShapeParts rs ps = true
  | [], _ => ⟨[], by simp [psBinAll], by simp [flattenParts], by simp [sameShapeParts]⟩
  | p :: t, h => by
      obtain ⟨r, h1, h2, h3⟩ := psBin_zip' op p y (h p (by simp))
      obtain ⟨rs, h4, h5, h6⟩ := psBinAll_sub op y t (fun q hq => h q (by simp [hq]))
      exact ⟨r :: rs, by simp [psBinAll, h1, h4], by simp [flattenParts, h2, h5],
        by simp [sameShapeParts, h3, h6]⟩

end OdlModel.UfuncValue
