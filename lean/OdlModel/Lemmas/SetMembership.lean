/-
Helper lemmas for the round-4 part of C20: membership `x in S`, `contains_set`, `contains_all`
of the plain sets (model: the last section of `OdlModel/Model/Spaces.lean`).
-/
import OdlModel.Lemmas.Spaces
import Mathlib.Tactic.Linarith

namespace OdlModel.Spaces

/-- what Python `==` sees of a scalar -/
def Scalar.key (a : Scalar) : Option (Rat × Rat) × Scalar :=
  match a.num? with
  | some x => (some x, .pynone)
  | none => (none, a)

theorem Scalar.pyEq_iff (a b : Scalar) : a.pyEq b = true ↔ a.key = b.key := by
  unfold Scalar.pyEq Scalar.key
  cases ha : a.num? <;> cases hb : b.num? <;> simp

theorem Scalar.real?_num? {s : Scalar} {x : Rat} (h : s.real? = some x) : s.num? = some (x, 0) := by
  cases s <;> simp_all [Scalar.real?, Scalar.num?]

theorem Scalar.isIntegral_real? {s : Scalar} (h : s.isIntegral = true) : s.real?.isSome = true := by
  cases s <;> simp_all [Scalar.isIntegral, Scalar.real?]

theorem Scalar.real?_isSome_num? {s : Scalar} (h : s.real?.isSome = true) : s.num?.isSome = true := by
  cases s <;> simp_all [Scalar.real?, Scalar.num?]

/-- no bound is violated -/
theorem distInf_nonneg : ∀ lo hi p : List Rat, 0 ≤ distInf lo hi p
  | [], _, _ | _ :: _, [], _ | _ :: _, _ :: _, [] => by simp [distInf]
  | l :: lo, h :: hi, x :: p => by
      simp only [distInf]
      exact le_trans (distInf_nonneg lo hi p) (le_max_right _ _)

theorem boxMem_of_distInf : ∀ lo hi p : List Rat, distInf lo hi p ≤ 0 → boxMem lo hi p = true
  | [], _, _ | _ :: _, [], _ | _ :: _, _ :: _, [] => by simp [boxMem]
  | l :: lo, h :: hi, x :: p => by
      intro hd
      simp only [distInf] at hd
      have h1 := le_trans (le_max_left _ _) hd
      have h2 := le_trans (le_max_right _ _) hd
      simp only [boxMem, Bool.and_eq_true, decide_eq_true_eq]
      refine ⟨⟨?_, ?_⟩, boxMem_of_distInf lo hi p h2⟩
      · by_contra hc
        have hc' : x < l := not_le.1 hc
        split_ifs at h1 <;> linarith
      · by_contra hc
        have hc' : h < x := not_le.1 hc
        split_ifs at h1 <;> linarith

theorem distInf_of_boxMem : ∀ lo hi p : List Rat, boxMem lo hi p = true → distInf lo hi p = 0
  | [], _, _ | _ :: _, [], _ | _ :: _, _ :: _, [] => by simp [distInf]
  | l :: lo, h :: hi, x :: p => by
      intro hb
      simp only [boxMem, Bool.and_eq_true, decide_eq_true_eq] at hb
      simp only [distInf, distInf_of_boxMem lo hi p hb.2]
      have h1 : ¬ x > h := not_lt.2 hb.1.2
      have h2 : ¬ x < l := not_lt.2 hb.1.1
      simp [h1, h2]

/-- a box that contains the two corner points `lo'`, `hi'` contains every point between them -/
theorem boxMem_mono : ∀ lo hi lo' hi' p : List Rat, lo'.length = lo.length → hi'.length = lo.length →
    hi.length = lo.length → p.length = lo.length →
    boxMem lo hi lo' = true → boxMem lo hi hi' = true → boxMem lo' hi' p = true →
    boxMem lo hi p = true
  | [], _, _, _, _ => by intros; simp [boxMem]
  | l :: lo, hi, lo', hi', p => by
      intro h1 h2 h3 h4
      match hi, lo', hi', p, h1, h2, h3, h4 with
      | h :: hi, l' :: lo', h' :: hi', x :: p, h1, h2, h3, h4 =>
        simp only [boxMem, Bool.and_eq_true, decide_eq_true_eq]
        intro a b c
        refine ⟨⟨le_trans a.1.1 c.1.1, le_trans c.1.2 b.1.2⟩,
          boxMem_mono lo hi lo' hi' p (by simpa using h1) (by simpa using h2) (by simpa using h3)
            (by simpa using h4) a.2 b.2 c.2⟩

/-- constructor invariants of `IntervalProd`: `len(min_pt) == len(max_pt)` -/
def PLeaf.wf : PLeaf → Prop
  | .interval lo hi => hi.length = lo.length
  | _ => True
/-- not the zero-dimensional interval product `IntervalProd([], [])` -/
def PLeaf.posDim : PLeaf → Prop
  | .interval lo _ => lo ≠ []
  | _ => True

theorem approxContains_zero {lo hi p : List Rat} (hp : p ≠ [])
    (h : approxContains lo hi p 0 = true) : p.length = lo.length ∧ boxMem lo hi p = true := by
  unfold approxContains at h
  have : p.isEmpty = false := by cases p <;> simp_all
  simp only [this, Bool.false_eq_true, if_false] at h
  split at h
  · cases h
  · next hl =>
    simp only [decide_eq_true_eq] at h
    exact ⟨by simpa using hl, boxMem_of_distInf lo hi p h⟩

theorem memAny_iff : ∀ (ms : List PSet) (v : Val),
    PSet.memAny ms v = true ↔ ∃ s ∈ ms, s.mem v = true
  | [], v => by simp [PSet.memAny]
  | s :: l, v => by simp [PSet.memAny, memAny_iff l v]

theorem memAll_iff : ∀ (ms : List PSet) (v : Val),
    PSet.memAll ms v = true ↔ ∀ s ∈ ms, s.mem v = true
  | [], v => by simp [PSet.memAll]
  | s :: l, v => by simp [PSet.memAll, memAll_iff l v]

theorem forall2_length {α β} {R : α → β → Prop} : ∀ {l : List α} {l' : List β},
    List.Forall₂ R l l' → l.length = l'.length
  | _, _, .nil => rfl
  | _, _, .cons _ h => by simp [forall2_length h]

theorem memZip_iff : ∀ (ms : List PSet) (ps : List Val), ps.length = ms.length →
    (PSet.memZip ms ps = true ↔ List.Forall₂ (fun s p => s.mem p = true) ms ps)
  | [], [], _ => by simp [PSet.memZip]
  | [], _ :: _, h => by simp at h
  | _ :: _, [], h => by simp at h
  | s :: l, p :: ps, h => by
      simp [PSet.memZip, memZip_iff l ps (by simpa using h)]

theorem boxMem_self : ∀ lo hi : List Rat, List.Forall₂ (· ≤ ·) lo hi →
    boxMem lo hi lo = true ∧ boxMem lo hi hi = true
  | [], _, _ => by simp [boxMem]
  | _ :: _, [], h => by cases h
  | l :: lo, h :: hi, hf => by
      cases hf with
      | cons h1 h2 =>
        have := boxMem_self lo hi h2
        simp [boxMem, h1, this.1, this.2]

theorem boxMem_antisymm : ∀ lo hi lo' hi' : List Rat, lo'.length = lo.length →
    hi.length = lo.length → hi'.length = lo.length →
    boxMem lo hi lo' = true → boxMem lo hi hi' = true →
    boxMem lo' hi' lo = true → boxMem lo' hi' hi = true → lo = lo' ∧ hi = hi'
  | [], hi, lo', hi', h1, h2, h3 => by
      intros
      simp at h1 h2 h3
      simp [h1, h2, h3]
  | l :: lo, hi, lo', hi', h1, h2, h3 => by
      match hi, lo', hi', h1, h2, h3 with
      | h :: hi, l' :: lo', h' :: hi', h1, h2, h3 =>
        simp only [boxMem, Bool.and_eq_true, decide_eq_true_eq]
        intro a b c d
        have := boxMem_antisymm lo hi lo' hi' (by simpa using h1) (by simpa using h2)
          (by simpa using h3) a.2 b.2 c.2 d.2
        refine ⟨?_, ?_⟩
        · rw [le_antisymm a.1.1 c.1.1, this.1]
        · rw [le_antisymm d.1.2 b.1.2, this.2]

/-! ### `closeAll` (approx_equals, round 5) -/

theorem closeAll_zero : ∀ a b : List Rat, a.length = b.length → (closeAll 0 a b = true ↔ a = b)
  | [], [], _ => by simp [closeAll]
  | [], _ :: _, h => by simp at h
  | _ :: _, [], h => by simp at h
  | x :: a, y :: b, h => by
      have ih := closeAll_zero a b (by simpa using h)
      simp only [closeAll, Bool.and_eq_true, decide_eq_true_eq, ih, List.cons.injEq]
      constructor
      · rintro ⟨⟨h1, h2⟩, h3⟩; exact ⟨by linarith, h3⟩
      · rintro ⟨h1, h3⟩; subst h1; exact ⟨⟨by simp, by simp⟩, h3⟩
theorem closeAll_symm (atol : Rat) : ∀ a b : List Rat, closeAll atol a b = closeAll atol b a
  | [], [] | [], _ :: _ | _ :: _, [] => by simp [closeAll]
  | x :: a, y :: b => by
      simp only [closeAll, closeAll_symm atol a b]
      cases decide (x - y ≤ atol) <;> cases decide (y - x ≤ atol) <;> simp
theorem closeAll_refl (atol : Rat) (h : 0 ≤ atol) : ∀ a : List Rat, closeAll atol a a = true
  | [] => by simp [closeAll]
  | x :: a => by simp [closeAll, closeAll_refl atol h a, h]
theorem closeAll_mono {atol atol' : Rat} (h : atol ≤ atol') : ∀ a b : List Rat,
    closeAll atol a b = true → closeAll atol' a b = true
  | [], [] | [], _ :: _ | _ :: _, [] => by simp [closeAll]
  | x :: a, y :: b => by
      simp only [closeAll, Bool.and_eq_true, decide_eq_true_eq]
      rintro ⟨⟨h1, h2⟩, h3⟩
      exact ⟨⟨le_trans h1 h, le_trans h2 h⟩, closeAll_mono h a b h3⟩

end OdlModel.Spaces
