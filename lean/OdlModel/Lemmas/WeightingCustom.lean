/-
Helper lemmas for the custom inner / norm / dist part of C02 (`Custom`, `cInner`, `cNorm`,
`cDist`, `cdInner`, `cdNorm`, `cdDist`, `gramInner`, `wMaxNorm`, `capDist` of
`Model/Weighting.lean`).
-/
import OdlModel.Lemmas.WeightingNorms
import Mathlib.Analysis.InnerProductSpace.Defs

namespace OdlModel.C02
open OdlModel.Weighting Finset

variable {𝕜 : Type} [RCLike 𝕜]

section abstract
variable {E : Type} [AddCommGroup E] [Module 𝕜 E]

/-- The conditions the docstring of `CustomInner` demands of the user's callable (ODL's inner
products are linear in the FIRST argument); only semi-definiteness is needed below. -/
structure IsInner (f : E → E → 𝕜) : Prop where
  conj_symm : ∀ x y, f y x = starRingEnd 𝕜 (f x y)
  add_left : ∀ x x' y, f (x + x') y = f x y + f x' y
  smul_left : ∀ (a : 𝕜) x y, f (a • x) y = a * f x y
  nonneg : ∀ x, 0 ≤ RCLike.re (f x x)

/-- The conditions the docstring of `CustomNorm` demands of the user's callable (without
definiteness, which is not needed below). -/
structure IsNorm (𝕜 : Type) [RCLike 𝕜] {E : Type} [AddCommGroup E] [Module 𝕜 E]
    (g : E → ℝ) : Prop where
  smul : ∀ (a : 𝕜) x, g (a • x) = ‖a‖ * g x
  tri : ∀ x y, g (x + y) ≤ g x + g y

/-- The conditions the docstring of `CustomDist` demands of the user's callable. -/
structure IsDist (d : E → E → ℝ) : Prop where
  self : ∀ x, d x x = 0
  symm : ∀ x y, d x y = d y x
  tri : ∀ x y z, d x z ≤ d x y + d y z

/-- Mathlib's pre-inner-product core (conjugate-linear in the first argument) of the flipped
form. -/
@[instance_reducible] noncomputable def IsInner.core {f : E → E → 𝕜} (h : IsInner f) :
    PreInnerProductSpace.Core 𝕜 E where
  inner x y := f y x
  conj_inner_symm x y := by rw [h.conj_symm x y]
  re_inner_nonneg x := h.nonneg x
  add_left x y z := by
    rw [h.conj_symm _ z, h.conj_symm x z, h.conj_symm y z, h.add_left]; simp
  smul_left x y r := by
    rw [h.conj_symm _ y, h.conj_symm x y, h.smul_left]; simp

/-- `x ↦ sqrt(re f(x, x))` is a seminorm and satisfies Cauchy–Schwarz. -/
theorem IsInner.norm_props {f : E → E → 𝕜} (h : IsInner f) :
    let N : E → ℝ := fun x => Real.sqrt (RCLike.re (f x x))
    (∀ (a : 𝕜) x, N (a • x) = ‖a‖ * N x) ∧ (∀ x y, N (x + y) ≤ N x + N y) ∧
    (∀ x y, ‖f x y‖ ≤ N x * N y) := by
  intro N
  let c : PreInnerProductSpace.Core 𝕜 E := h.core
  let _i1 : SeminormedAddCommGroup E := InnerProductSpace.Core.toSeminormedAddCommGroup (c := c)
  let _i2 : NormedSpace 𝕜 E := InnerProductSpace.Core.toNormedSpace (c := c)
  have hN : ∀ x : E, N x = ‖x‖ := fun x => rfl
  refine ⟨fun a x => ?_, fun x y => ?_, fun x y => ?_⟩
  · rw [hN, hN, norm_smul]
  · rw [hN, hN, hN]; exact norm_add_le x y
  · rw [hN, hN]
    have := InnerProductSpace.Core.norm_inner_le_norm (c := c) y x
    rw [mul_comm]; exact this

/-- `(x, y) ↦ g(x - y)` is a pseudo-metric when `g` is a seminorm. -/
theorem IsNorm.dist_props {g : E → ℝ} (h : IsNorm 𝕜 g) :
    IsDist (fun x y => g (x - y)) := by
  have hneg : ∀ x, g (-x) = g x := fun x => by
    have := h.smul (-1 : 𝕜) x
    simpa using this
  refine ⟨fun x => ?_, fun x y => ?_, fun x y z => ?_⟩
  · have := h.smul (0 : 𝕜) x
    simpa using this
  · rw [← hneg (x - y), neg_sub]
  · have := h.tri (x - y) (y - z)
    simpa using this

end abstract

/-! ### the callable families the check executes -/

theorem gramInner_eq (n : Nat) (B : Nat → Nat → 𝕜) (x y : Nat → 𝕜) :
    gramInner (ops 𝕜).toIOps n B x y =
      ∑ i ∈ range n, (∑ j ∈ range n, B i j * x j) * starRingEnd 𝕜 (∑ j ∈ range n, B i j * y j) := by
  simp [gramInner, innerDefault, matVec, sumTo_eq_sum]

theorem gramInner_isInner (n : Nat) (B : Nat → Nat → 𝕜) :
    IsInner (gramInner (ops 𝕜).toIOps n B) := by
  refine ⟨fun x y => ?_, fun x x' y => ?_, fun a x y => ?_, fun x => ?_⟩
  · simp only [gramInner_eq, map_sum, map_mul, RingHomCompTriple.comp_apply, RingHom.id_apply]
    exact Finset.sum_congr rfl (fun i _ => mul_comm _ _)
  · simp only [gramInner_eq, Pi.add_apply, mul_add, Finset.sum_add_distrib, add_mul]
  · simp only [gramInner_eq, Pi.smul_apply, smul_eq_mul, Finset.mul_sum]
    refine Finset.sum_congr rfl (fun i _ => ?_)
    rw [← mul_assoc]
    congr 1
    rw [Finset.mul_sum]
    exact Finset.sum_congr rfl (fun j _ => by ring)
  · rw [gramInner_eq, map_sum]
    refine Finset.sum_nonneg (fun i _ => ?_)
    rw [RCLike.mul_conj]
    norm_cast
    positivity

theorem wMaxNorm_isNorm (n : Nat) (w : Nat → ℝ) (hw : ∀ i, 0 ≤ w i) :
    IsNorm 𝕜 (wMaxNorm (ops 𝕜).abs n w) := by
  refine ⟨fun a x => ?_, fun x y => ?_⟩
  · simp only [wMaxNorm, ops_abs, Pi.smul_apply, smul_eq_mul, norm_mul]
    rw [← maxTo_mul_left _ (norm_nonneg a)]
    congr 1; funext i; ring
  · simp only [wMaxNorm, ops_abs, Pi.add_apply]
    refine le_trans (maxTo_mono n _ (fun i => w i * ‖x i‖ + w i * ‖y i‖) (fun i _ => ?_))
      (maxTo_add_le n _ _)
    rw [← mul_add]
    exact mul_le_mul_of_nonneg_left (norm_add_le _ _) (hw i)

theorem capDist_isDist (n : Nat) (w : Nat → ℝ) (hw : ∀ i, 0 ≤ w i) (cap : ℝ) (hc : 0 ≤ cap) :
    IsDist (capDist (K := 𝕜) (ops 𝕜).abs n w cap) := by
  have hs : ∀ x y : Nat → 𝕜, 0 ≤ ∑ i ∈ range n, w i * ‖x i - y i‖ := fun x y =>
    Finset.sum_nonneg (fun i _ => mul_nonneg (hw i) (norm_nonneg _))
  refine ⟨fun x => ?_, fun x y => ?_, fun x y z => ?_⟩
  · simp [capDist, sumTo_eq_sum, hc]
  · simp only [capDist, ops_abs, sumTo_eq_sum]
    congr 1
    exact Finset.sum_congr rfl (fun i _ => by rw [norm_sub_rev])
  · simp only [capDist, ops_abs, sumTo_eq_sum]
    have ht : ∑ i ∈ range n, w i * ‖x i - z i‖ ≤
        ∑ i ∈ range n, w i * ‖x i - y i‖ + ∑ i ∈ range n, w i * ‖y i - z i‖ := by
      rw [← Finset.sum_add_distrib]
      refine Finset.sum_le_sum (fun i _ => ?_)
      rw [← mul_add]
      refine mul_le_mul_of_nonneg_left ?_ (hw i)
      have := norm_add_le (x i - y i) (y i - z i)
      simpa using this
    have h1 := hs x y
    have h2 := hs y z
    rcases le_total cap (∑ i ∈ range n, w i * ‖x i - y i‖) with h | h <;>
      rcases le_total cap (∑ i ∈ range n, w i * ‖y i - z i‖) with h' | h' <;>
      simp only [min_eq_left, min_eq_right, h, h'] <;>
      first
        | exact (min_le_left _ _).trans (by linarith)
        | exact (min_le_right _ _).trans ht

end OdlModel.C02

theorem OdlModel.Weighting.Expo.isTwo_iff (p : OdlModel.Weighting.Expo ℝ) : p.isTwo = true ↔ p = .two := by
  cases p <;> simp [OdlModel.Weighting.Expo.isTwo]

