/-
C04: the concrete leaf operators of `Model/OpLeaves.lean` satisfy the leaf hypotheses of the
value theorems (linear-flagged ones are linear maps, functionals return scalars), for every
size, exponent, scalar and matrix.
-/
import OdlModel.Lemmas.OpAlgebra
import OdlModel.Model.OpLeaves
open OdlModel.OpAlgebra
namespace OdlModel.OpAlgebra
variable {K : Type} [Field K] [DecidableEq K]

def allK : K → Prop := fun _ => True

omit [DecidableEq K] in
theorem dotFrom_smul (s : K) (x : Vec K) (r : List K) (k : Nat) :
    dotFrom (fun j => s * x j) r k = s * dotFrom x r k := by
  induction r generalizing k with
  | nil => simp [dotFrom]
  | cons c cs ih => simp only [dotFrom, ih]; ring

omit [DecidableEq K] in
theorem dotFrom_add (x y : Vec K) (r : List K) (k : Nat) :
    dotFrom (fun j => x j + y j) r k = dotFrom x r k + dotFrom y r k := by
  induction r generalizing k with
  | nil => simp [dotFrom]
  | cons c cs ih => simp only [dotFrom, ih]; ring

theorem leafSpec_ok (id : Nat) (s : LeafSpec K) :
    ((s.info id).lin = true → IsLin allK s.map) ∧ ((s.info id).fn = true → ConstFam s.map) := by
  cases s with
  | scale n c =>
    refine ⟨fun _ => ⟨fun t _ x => ?_, fun x y => ?_⟩, fun h => by simp [LeafSpec.info] at h⟩ <;>
      funext j <;> simp only [LeafSpec.map] <;> split_ifs <;> ring
  | ident n =>
    refine ⟨fun _ => ⟨fun t _ x => ?_, fun x y => ?_⟩, fun h => by simp [LeafSpec.info] at h⟩ <;>
      funext j <;> simp only [LeafSpec.map] <;> split_ifs <;> ring
  | pow n p =>
    refine ⟨fun h => ?_, fun h => by simp [LeafSpec.info] at h⟩
    simp only [LeafSpec.info, decide_eq_true_eq] at h
    subst h
    refine ⟨fun t _ x => ?_, fun x y => ?_⟩ <;>
      funext j <;> simp only [LeafSpec.map, powK] <;> split_ifs <;> ring
  | shift n p =>
    refine ⟨fun h => ?_, fun h => by simp [LeafSpec.info] at h⟩
    simp only [LeafSpec.info, decide_eq_true_eq] at h
    subst h
    refine ⟨fun t _ x => ?_, fun x y => ?_⟩ <;>
      funext j <;> simp only [LeafSpec.map, powK] <;> split_ifs <;> ring
  | mat nd nr rows =>
    refine ⟨fun _ => ⟨fun t _ x => ?_, fun x y => ?_⟩, fun h => by simp [LeafSpec.info] at h⟩
    · funext j; simp only [LeafSpec.map, dotFrom_smul]; split_ifs <;> ring
    · funext j; simp only [LeafSpec.map, dotFrom_add]; split_ifs <;> ring
  | constf n c =>
    refine ⟨fun h => ?_, fun _ x j => rfl⟩
    simp only [LeafSpec.info, decide_eq_true_eq] at h
    subst h
    exact isLin_zero
  | zerof n => exact ⟨fun _ => isLin_zero, fun _ x j => rfl⟩

theorem zoo_envOK (specs : Nat → LeafSpec K) (e : Expr K) (h : ZooExpr specs e) :
    EnvOK allK (zooEnv specs) e := by
  induction e with
  | leaf i =>
    have := leafSpec_ok i.id (specs i.id)
    simp only [ZooExpr] at h
    rw [← h] at this
    exact this
  | neg a ih => exact ih h
  | pow a n ih => exact ih h
  | bin o a b iha ihb => exact ⟨iha h.1, ihb h.2⟩
  | sc o a s re ih => exact ⟨ih h, fun _ => ⟨trivial, trivial⟩⟩
  | vc o a v ih => exact ih h
end OdlModel.OpAlgebra
