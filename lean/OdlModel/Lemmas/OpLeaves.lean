/-
C04: the concrete leaf operators of `Model/OpLeaves.lean` satisfy the leaf hypotheses of the
value theorems (linear-flagged ones are linear maps, functionals return scalars), for every
size, exponent, scalar and matrix.
-/
import OdlModel.Lemmas.OpAlgebra
import OdlModel.Model.OpLeaves
import OdlModel.Lemmas.CRat
import Mathlib.Tactic.Linarith
import Mathlib.Data.Complex.Basic
namespace OdlModel.CRat

theorem normSq_ne_zero {a : CRat} (h : a ≠ 0) : a.normSq ≠ 0 := by
  intro hz
  apply h
  unfold normSq at hz
  have h1 : a.re = 0 := by nlinarith [mul_self_nonneg a.re, mul_self_nonneg a.im]
  have h2 : a.im = 0 := by nlinarith [mul_self_nonneg a.re, mul_self_nonneg a.im]
  ext <;> simp [h1, h2]

instance : Inv CRat := ⟨CRat.inv⟩

/-- The Gaussian rationals with EXACTLY the driver's operations (`Model/CRat.lean`: `+`, `*`,
unary and binary `-`, `/` = multiplication by `conj / normSq`, the numerals) form a field; the
`[Field K]` theorems of C04 therefore apply to the type the driver computes with. -/
instance instField : Field CRat :=
  { CRat.instCommRing with
    inv := CRat.inv
    sub := fun x y => CRat.instSub.sub x y
    sub_eq_add_neg := by
      intro a b
      show CRat.instSub.sub a b = a + -b
      ext
      · show a.re - b.re = a.re + -b.re; ring
      · show a.im - b.im = a.im + -b.im; ring
    div := fun x y => x / y
    div_eq_mul_inv := fun _ _ => rfl
    exists_pair_ne := ⟨0, 1, by intro h; have := congrArg CRat.re h; simp at this⟩
    mul_inv_cancel := by
      intro a ha
      have hd := normSq_ne_zero ha
      show a * a.inv = 1
      unfold normSq at hd
      ext
      · simp only [mul_re, inv, normSq, one_re]
        rw [show a.re * (a.re / (a.re * a.re + a.im * a.im)) - a.im * (-a.im / (a.re * a.re + a.im * a.im))
          = (a.re * a.re + a.im * a.im) / (a.re * a.re + a.im * a.im) by ring]
        exact div_self hd
      · simp only [mul_im, inv, normSq, one_im]; ring
    inv_zero := by
      show CRat.inv 0 = 0
      ext <;> simp [inv, normSq]
    nnqsmul := _
    nnqsmul_def := fun _ _ => rfl
    qsmul := _
    qsmul_def := fun _ _ => rfl
    nnratCast_def := fun _ => rfl
    ratCast_def := fun _ => rfl }

end OdlModel.CRat

open OdlModel.OpAlgebra
namespace OdlModel.OpAlgebra
variable {K : Type} [Field K] [DecidableEq K]

def allK : K → Prop := fun _ => True

omit [DecidableEq K] in
theorem dotFrom_smul (s : K) (x : Vec K) (r : List K) (k : Nat) :
    dotFrom (fun j => s * x j) r k = s * dotFrom x r k := by
  induction r generalizing k with
  | nil => simp [dotFrom]
  | cons c cs ih => simp only [dotFrom, ih]; ring

omit [DecidableEq K] in
theorem dotFrom_add (x y : Vec K) (r : List K) (k : Nat) :
    dotFrom (fun j => x j + y j) r k = dotFrom x r k + dotFrom y r k := by
  induction r generalizing k with
  | nil => simp [dotFrom]
  | cons c cs ih => simp only [dotFrom, ih]; ring

theorem leafSpec_ok (id : Nat) (s : LeafSpec K) :
    ((s.info id).lin = true → IsLin allK s.map) ∧ ((s.info id).fn = true → ConstFam s.map) := by
  cases s with
  | scale n c =>
    refine ⟨fun _ => ⟨fun t _ x => ?_, fun x y => ?_⟩, fun h => by simp [LeafSpec.info] at h⟩ <;>
      funext j <;> simp only [LeafSpec.map] <;> split_ifs <;> ring
  | ident n =>
    refine ⟨fun _ => ⟨fun t _ x => ?_, fun x y => ?_⟩, fun h => by simp [LeafSpec.info] at h⟩ <;>
      funext j <;> simp only [LeafSpec.map] <;> split_ifs <;> ring
  | pow n p =>
    refine ⟨fun h => ?_, fun h => by simp [LeafSpec.info] at h⟩
    simp only [LeafSpec.info, decide_eq_true_eq] at h
    subst h
    refine ⟨fun t _ x => ?_, fun x y => ?_⟩ <;>
      funext j <;> simp only [LeafSpec.map, powK] <;> split_ifs <;> ring
  | shift n p =>
    refine ⟨fun h => ?_, fun h => by simp [LeafSpec.info] at h⟩
    simp only [LeafSpec.info, decide_eq_true_eq] at h
    subst h
    refine ⟨fun t _ x => ?_, fun x y => ?_⟩ <;>
      funext j <;> simp only [LeafSpec.map, powK] <;> split_ifs <;> ring
  | mat nd nr rows =>
    refine ⟨fun _ => ⟨fun t _ x => ?_, fun x y => ?_⟩, fun h => by simp [LeafSpec.info] at h⟩
    · funext j; simp only [LeafSpec.map, dotFrom_smul]; split_ifs <;> ring
    · funext j; simp only [LeafSpec.map, dotFrom_add]; split_ifs <;> ring
  | constf n c =>
    refine ⟨fun h => ?_, fun _ x j => rfl⟩
    simp only [LeafSpec.info, decide_eq_true_eq] at h
    subst h
    exact isLin_zero
  | zerof n => exact ⟨fun _ => isLin_zero, fun _ x j => rfl⟩

theorem zoo_envOK (specs : Nat → LeafSpec K) (e : Expr K) (h : ZooExpr specs e) :
    EnvOK allK (zooEnv specs) e := by
  induction e with
  | leaf i =>
    have := leafSpec_ok i.id (specs i.id)
    simp only [ZooExpr] at h
    rw [← h] at this
    exact this
  | neg a ih => exact ih h
  | pow a n ih => exact ih h
  | bin o a b iha ihb => exact ⟨iha h.1, ihb h.2⟩
  | sc o a s re ih => exact ⟨ih h, fun _ => ⟨trivial, trivial⟩⟩
  | vc o a v ih => exact ih h
/-! ### Round 4: the full pool (inner / linf / l2sq / repart / impart / scalef / powf) -/

/-- the scalars `re` and `im` commute with (for `ℂ`, and for the driver's Gaussian rationals:
the real ones) -/
def CStruct.commutes (cs : CStruct K) : K → Prop :=
  fun s => ∀ z, cs.re (s * z) = s * cs.re z ∧ cs.im (s * z) = s * cs.im z

/-- `re` and `im` are additive -/
def CStruct.AddOK (cs : CStruct K) : Prop :=
  ∀ a b, cs.re (a + b) = cs.re a + cs.re b ∧ cs.im (a + b) = cs.im a + cs.im b

/-- every scalar marked `real` (`isinstance(s, numbers.Real)`) satisfies `P` -/
def MarksIn (P : K → Prop) : Expr K → Prop
  | .leaf _ => True
  | .neg a => MarksIn P a
  | .pow a _ => MarksIn P a
  | .bin _ a b => MarksIn P a ∧ MarksIn P b
  | .sc _ a s re => MarksIn P a ∧ (re = true → P s)
  | .vc _ a _ => MarksIn P a

/-- every scalar marked `real` is in `R`, with its inverse -/
def RealMarks (R : K → Prop) (e : Expr K) : Prop := MarksIn (fun s => R s ∧ R (1 / s)) e

omit [Field K] [DecidableEq K] in
theorem marksIn_mono {P Q : K → Prop} (hpq : ∀ s, P s → Q s) (e : Expr K) (h : MarksIn P e) :
    MarksIn Q e := by
  induction e with
  | leaf i => trivial
  | neg a ih => exact ih h
  | pow a n ih => exact ih h
  | bin o a b iha ihb => exact ⟨iha h.1, ihb h.2⟩
  | sc o a s re ih => exact ⟨ih h.1, fun hr => hpq _ (h.2 hr)⟩
  | vc o a v ih => exact ih h

omit [DecidableEq K] in
theorem isLin_mono {R : K → Prop} {f : Vec K → Vec K} (h : IsLin allK f) : IsLin R f :=
  ⟨fun s _ x => h.1 s trivial x, h.2⟩

omit [DecidableEq K] in
theorem dotConj_smul (cj : K → K) (s : K) (x : Vec K) (r : List K) (k : Nat) :
    dotConj cj (fun j => s * x j) r k = s * dotConj cj x r k := by
  induction r generalizing k with
  | nil => simp [dotConj]
  | cons c cs ih => simp only [dotConj, ih]; ring

omit [DecidableEq K] in
theorem dotConj_add (cj : K → K) (x y : Vec K) (r : List K) (k : Nat) :
    dotConj cj (fun j => x j + y j) r k = dotConj cj x r k + dotConj cj y r k := by
  induction r generalizing k with
  | nil => simp [dotConj]
  | cons c cs ih => simp only [dotConj, ih]; ring

/-- the linearity class of each leaf map of the full pool -/
theorem leafSpecC_class (cs : CStruct K) (hadd : cs.AddOK) (s : LeafSpecC K) :
    (s.cls = .all → IsLin allK (s.map cs)) ∧
    (s.cls = .realOnly → IsLin cs.commutes (s.map cs)) := by
  cases s with
  | base b =>
    refine ⟨fun h => ?_, fun h => ?_⟩
    · simp only [LeafSpecC.cls] at h
      split_ifs at h with hl
      exact (leafSpec_ok 0 b).1 hl
    · simp only [LeafSpecC.cls] at h
      split_ifs at h
  | inner n y fn =>
    refine ⟨fun _ => ⟨fun t _ x => ?_, fun x y' => ?_⟩, fun h => by simp [LeafSpecC.cls] at h⟩
    · funext j; simp only [LeafSpecC.map, dotConj_smul]
    · funext j; simp only [LeafSpecC.map, dotConj_add]
  | l2sq n => exact ⟨fun h => by simp [LeafSpecC.cls] at h, fun h => by simp [LeafSpecC.cls] at h⟩
  | repart n =>
    refine ⟨fun h => by simp [LeafSpecC.cls] at h, fun _ => ⟨fun t ht x => ?_, fun x y => ?_⟩⟩
    · funext j; simp only [LeafSpecC.map]; split_ifs
      · exact (ht (x j)).1
      · ring
    · funext j; simp only [LeafSpecC.map]; split_ifs
      · exact (hadd (x j) (y j)).1
      · ring
  | impart n =>
    refine ⟨fun h => by simp [LeafSpecC.cls] at h, fun _ => ⟨fun t ht x => ?_, fun x y => ?_⟩⟩
    · funext j; simp only [LeafSpecC.map]; split_ifs
      · exact (ht (x j)).2
      · ring
    · funext j; simp only [LeafSpecC.map]; split_ifs
      · exact (hadd (x j) (y j)).2
      · ring
  | scalef c =>
    refine ⟨fun _ => ⟨fun t _ x => ?_, fun x y => ?_⟩, fun h => by simp [LeafSpecC.cls] at h⟩ <;>
      funext j <;> simp only [LeafSpecC.map] <;> ring
  | powf p =>
    refine ⟨fun h => ?_, fun h => by simp only [LeafSpecC.cls] at h; split_ifs at h⟩
    simp only [LeafSpecC.cls] at h
    split_ifs at h with hp
    subst hp
    refine ⟨fun t _ x => ?_, fun x y => ?_⟩ <;>
      funext j <;> simp only [LeafSpecC.map, powK] <;> ring

/-- a leaf the library flags `is_linear` is in class `all` or `realOnly`; a `Functional`
leaf returns a scalar -/
theorem leafSpecC_ok (cs : CStruct K) (hadd : cs.AddOK) (id : Nat) (s : LeafSpecC K) :
    ((s.info id).lin = true → IsLin cs.commutes (s.map cs)) ∧
    ((s.info id).fn = true → ConstFam (s.map cs)) := by
  have hc := leafSpecC_class cs hadd s
  cases s with
  | base b =>
    exact ⟨fun h => isLin_mono ((leafSpec_ok id b).1 h), (leafSpec_ok id b).2⟩
  | inner n y fn => exact ⟨fun _ => isLin_mono (hc.1 rfl), fun _ x j => rfl⟩
  | l2sq n => exact ⟨fun h => by simp [LeafSpecC.info] at h, fun _ x j => rfl⟩
  | repart n => exact ⟨fun _ => hc.2 rfl, fun h => by simp [LeafSpecC.info] at h⟩
  | impart n => exact ⟨fun _ => hc.2 rfl, fun h => by simp [LeafSpecC.info] at h⟩
  | scalef c => exact ⟨fun _ => isLin_mono (hc.1 rfl), fun h => by simp [LeafSpecC.info] at h⟩
  | powf p =>
    refine ⟨fun h => ?_, fun h => by simp [LeafSpecC.info] at h⟩
    simp only [LeafSpecC.info, decide_eq_true_eq] at h
    exact isLin_mono (hc.1 (by simp [LeafSpecC.cls, h]))

theorem zooC_envOK (cs : CStruct K) (hadd : cs.AddOK) (specs : Nat → LeafSpecC K) (e : Expr K)
    (h : ZooExprC specs e) (hre : RealMarks cs.commutes e) :
    EnvOK cs.commutes (zooEnvC cs specs) e := by
  induction e with
  | leaf i =>
    have := leafSpecC_ok cs hadd i.id (specs i.id)
    simp only [ZooExprC] at h
    rw [← h] at this
    exact this
  | neg a ih => exact ih h hre
  | pow a n ih => exact ih h hre
  | bin o a b iha ihb => exact ⟨iha h.1 hre.1, ihb h.2 hre.2⟩
  | sc o a s re ih => exact ⟨ih h hre.1, hre.2⟩
  | vc o a v ih => exact ih h hre
/-! ### the driver's own instance -/

theorem cratStruct_addOK : cratStruct.AddOK := fun a b =>
  ⟨by ext <;> simp [cratStruct], by ext <;> simp [cratStruct]⟩

theorem cratStruct_commutes_of_real (s : CRat) (hs : s.im = 0) : cratStruct.commutes s := fun z =>
  ⟨by ext <;> simp [cratStruct, hs], by ext <;> simp [cratStruct, hs]⟩

theorem crat_inv_real (s : CRat) (hs : s.im = 0) : (1 / s).im = 0 := by
  show ((1 : CRat) * s.inv).im = 0
  simp [CRat.inv, hs]

theorem realMarks_crat (e : Expr CRat) (h : MarksIn (fun s => s.im = 0) e) :
    RealMarks cratStruct.commutes e :=
  marksIn_mono (fun s hs => ⟨cratStruct_commutes_of_real s hs,
    cratStruct_commutes_of_real _ (crat_inv_real s hs)⟩) e h

end OdlModel.OpAlgebra

namespace OdlModel.C04
open OdlModel.OpAlgebra
/-- the complex structure of `ℂ` (for the non-vacuity examples of Props/C04) -/
noncomputable def csC : CStruct ℂ := ⟨fun z => ⟨z.re, -z.im⟩, fun z => (z.re : ℂ), fun z => (z.im : ℂ)⟩

theorem csC_addOK : csC.AddOK := fun a b => ⟨by simp [csC], by simp [csC]⟩

theorem csC_commutes_of_real (s : ℂ) (hs : s.im = 0) : csC.commutes s := fun z =>
  ⟨by apply Complex.ext <;> simp [csC, hs], by apply Complex.ext <;> simp [csC, hs]⟩
end OdlModel.C04
