/-
Helper lemmas for C16: every one-axis resize with `pad_const = 0` is LINEAR in the strong,
syntactic sense that each entry of the result is a fixed finite linear combination of entries
of the input (proved structurally from the slice statements of the model, without any
condition on sizes or offsets).  Linear one-axis maps along different axes commute, hence the
order of the axes in `resize_array` is irrelevant.
-/
import OdlModel.Lemmas.ResizeND
import Mathlib.Algebra.BigOperators.Group.List.Basic
open OdlModel.Resize OdlModel.Gen Finset

set_option linter.unusedVariables false
set_option linter.unusedTactic false
set_option linter.unreachableTactic false
set_option linter.unusedSimpArgs false

namespace OdlModel.Resize
variable {K : Type} [CommRing K]

/-- finite linear combination of entries -/
def rowSum (l : List (K × Nat)) (y : Nat → K) : K := (l.map (fun p => p.1 * y p.2)).sum

/-- `G y` is a fixed finite linear combination of entries of `y`. -/
def IsRow (G : (Nat → K) → K) : Prop := ∃ l : List (K × Nat), ∀ y, G y = rowSum l y

/-- every entry of `G y` is a fixed finite linear combination of entries of `y`. -/
def LinArr (G : (Nat → K) → Nat → K) : Prop := ∀ i, IsRow (fun y => G y i)

theorem IsRow.zero : IsRow (fun _ : Nat → K => (0 : K)) := ⟨[], fun _ => by simp [rowSum]⟩
theorem IsRow.eval (e : Nat) : IsRow (fun y : Nat → K => y e) :=
  ⟨[(1, e)], fun _ => by simp [rowSum]⟩
theorem IsRow.add {G H : (Nat → K) → K} (hG : IsRow G) (hH : IsRow H) :
    IsRow (fun y => G y + H y) := by
  obtain ⟨l, hl⟩ := hG; obtain ⟨m, hm⟩ := hH
  exact ⟨l ++ m, fun y => by simp [rowSum, hl, hm]⟩
theorem IsRow.smul {G : (Nat → K) → K} (c : K) (hG : IsRow G) : IsRow (fun y => c * G y) := by
  obtain ⟨l, hl⟩ := hG
  refine ⟨l.map (fun p => (c * p.1, p.2)), fun y => ?_⟩
  simp only [hl, rowSum, List.map_map]
  rw [← List.sum_map_mul_left]
  congr 1; apply List.map_congr_left; intro p _; simp only [Function.comp]; ring
theorem IsRow.mul_const {G : (Nat → K) → K} (c : K) (hG : IsRow G) : IsRow (fun y => G y * c) := by
  have := hG.smul c
  simpa [mul_comm] using this
theorem IsRow.neg {G : (Nat → K) → K} (hG : IsRow G) : IsRow (fun y => -G y) := by
  have := hG.smul (-1); simpa using this
theorem IsRow.sub {G H : (Nat → K) → K} (hG : IsRow G) (hH : IsRow H) :
    IsRow (fun y => G y - H y) := by
  have := hG.add hH.neg; simpa [sub_eq_add_neg] using this
theorem IsRow.ite (c : Prop) [Decidable c] {G H : (Nat → K) → K} (hG : IsRow G) (hH : IsRow H) :
    IsRow (fun y => if c then G y else H y) := by
  by_cases h : c <;> simp [h, hG, hH]
theorem IsRow.sumN (n : Nat) {W : (Nat → K) → Nat → K} (hW : ∀ k, IsRow (fun y => W y k)) :
    IsRow (fun y => sumN n (W y)) := by
  induction n with
  | zero => exact IsRow.zero
  | succ n ih => exact ih.add (hW n)

theorem LinArr.id : LinArr (fun y : Nat → K => y) := fun i => IsRow.eval i
theorem LinArr.zero : LinArr (fun (_ : Nat → K) (_ : Nat) => (0 : K)) := fun _ => IsRow.zero
theorem LinArr.const {g : (Nat → K) → K} (hg : IsRow g) : LinArr (fun y _ => g y) := fun _ => hg
theorem LinArr.setSlc {G V : (Nat → K) → Nat → K} (d : Slc) (hG : LinArr G) (hV : LinArr V) :
    LinArr (fun y => setSlc (G y) d (V y)) := fun i => by
  simp only [OdlModel.Resize.setSlc]
  exact IsRow.ite _ (hV _) (hG i)
theorem LinArr.addSlc {G V : (Nat → K) → Nat → K} (d : Slc) (hG : LinArr G) (hV : LinArr V) :
    LinArr (fun y => addSlc (G y) d (V y)) := fun i => by
  simp only [OdlModel.Resize.addSlc]
  exact IsRow.ite _ ((hG i).add (hV _)) (hG i)
theorem LinArr.getS {G : (Nat → K) → Nat → K} (s : Slc) (hG : LinArr G) :
    LinArr (fun y => getS (G y) s) := fun k => by
  simp only [OdlModel.Resize.getS]; exact hG _
theorem LinArr.ite (c : Prop) [Decidable c] {G H : (Nat → K) → Nat → K} (hG : LinArr G)
    (hH : LinArr H) : LinArr (fun y => if c then G y else H y) := by
  by_cases h : c <;> simp [h, hG, hH]
theorem LinArr.mulLeft (coef : Nat → K) {W : (Nat → K) → Nat → K} (hW : LinArr W) :
    LinArr (fun y k => coef k * W y k) := fun k => (hW k).smul _
theorem LinArr.mulRight (coef : Nat → K) {g : (Nat → K) → K} (hg : IsRow g) :
    LinArr (fun y k => g y * coef k) := fun k => hg.mul_const _
theorem LinArr.addRow {g h : (Nat → K) → K} (coef : Nat → K) (hg : IsRow g) (hh : IsRow h) :
    LinArr (fun y k => g y + coef k * h y) := fun k => hg.add (hh.smul _)

theorem LinArr.assignIntersection {T : (Nat → K) → Nat → K} (nL nR off : Nat) (hT : LinArr T) :
    LinArr (fun y => assignIntersection (fun _ => (0 : K)) nL (T y) nR off) := by
  unfold OdlModel.Resize.assignIntersection
  simp only
  split_ifs
  all_goals exact LinArr.setSlc _ LinArr.zero (LinArr.getS _ hT)


theorem LinArr.applyPadding_adj (mode : Mode) (nL nR off : Nat) {T : (Nat → K) → Nat → K}
    (hT : LinArr T) : LinArr (fun y => applyPadding mode .adjoint (T y) nL nR off) := by
  unfold OdlModel.Resize.applyPadding
  simp only
  apply LinArr.ite _ hT
  cases mode <;> simp only
  · exact hT
  · -- symmetric
    have a1 := LinArr.addSlc
      (pySlice (PadSlices.inner .symmetric off (max nL nR : Nat) (min nL nR : Nat)).1 nL) hT
      (LinArr.getS (pySlice (PadSlices.outer off (max nL nR : Nat) (min nL nR : Nat)).1 nL) hT)
    exact LinArr.addSlc _ a1 (LinArr.getS _ a1)
  · -- periodic
    have a1 := LinArr.addSlc
      (pySlice (PadSlices.inner .periodic off (max nL nR : Nat) (min nL nR : Nat)).1 nL) hT
      (LinArr.getS (pySlice (PadSlices.outer off (max nL nR : Nat) (min nL nR : Nat)).1 nL) hT)
    exact LinArr.addSlc _ a1 (LinArr.getS _ a1)
  · -- order0
    have a1 := LinArr.addSlc
      (pySlice (PadSlices.inner .order0 off (max nL nR : Nat) (min nL nR : Nat)).1 nL) hT
      (LinArr.const (IsRow.sumN
        (pySlice (PadSlices.outer off (max nL nR : Nat) (min nL nR : Nat)).1 nL).count
        (LinArr.getS (pySlice (PadSlices.outer off (max nL nR : Nat) (min nL nR : Nat)).1 nL) hT)))
    exact LinArr.addSlc _ a1 (LinArr.const (IsRow.sumN _ (LinArr.getS _ a1)))
  · -- order1
    have a1 := LinArr.addSlc
      (pySlice (PadSlices.inner .order1 off (max nL nR : Nat) (min nL nR : Nat)).1 nL) hT
      (LinArr.const (IsRow.sumN
        (pySlice (PadSlices.outer off (max nL nR : Nat) (min nL nR : Nat)).1 nL).count
        (LinArr.getS (pySlice (PadSlices.outer off (max nL nR : Nat) (min nL nR : Nat)).1 nL) hT)))
    have a2 := LinArr.addSlc
      (pySlice (PadSlices.inner .order1 off (max nL nR : Nat) (min nL nR : Nat)).2 nL) a1
      (LinArr.const (IsRow.sumN
        (pySlice (PadSlices.outer off (max nL nR : Nat) (min nL nR : Nat)).2 nL).count
        (LinArr.getS (pySlice (PadSlices.outer off (max nL nR : Nat) (min nL nR : Nat)).2 nL) a1)))
    refine LinArr.addSlc _ (LinArr.addSlc _ a2 (LinArr.mulRight _ (IsRow.sumN _
      (LinArr.mulLeft _ (LinArr.getS _ a2))))) (LinArr.mulRight _ (IsRow.sumN _
      (LinArr.mulLeft _ (LinArr.getS _ a2))))

theorem LinArr.applyPadding_fwd (mode : Mode) (nL nR off : Nat) {T : (Nat → K) → Nat → K}
    (hT : LinArr T) : LinArr (fun y => applyPadding mode .forward (T y) nL nR off) := by
  unfold OdlModel.Resize.applyPadding
  simp only
  apply LinArr.ite _ hT
  cases mode <;> simp only
  · exact hT
  · have a1 := LinArr.setSlc
      (pySlice (PadSlices.outer off (max nL nR : Nat) (min nL nR : Nat)).1 nL) hT
      (LinArr.getS (pySlice (PadSlices.inner .symmetric off (max nL nR : Nat) (min nL nR : Nat)).1 nL) hT)
    exact LinArr.setSlc _ a1 (LinArr.getS _ a1)
  · have a1 := LinArr.setSlc
      (pySlice (PadSlices.outer off (max nL nR : Nat) (min nL nR : Nat)).1 nL) hT
      (LinArr.getS (pySlice (PadSlices.inner .periodic off (max nL nR : Nat) (min nL nR : Nat)).1 nL) hT)
    exact LinArr.setSlc _ a1 (LinArr.getS _ a1)
  · have a1 := LinArr.setSlc
      (pySlice (PadSlices.outer off (max nL nR : Nat) (min nL nR : Nat)).1 nL) hT
      (LinArr.const ((LinArr.getS
        (pySlice (PadSlices.inner .order0 off (max nL nR : Nat) (min nL nR : Nat)).1 nL) hT) 0))
    exact LinArr.setSlc _ a1 (LinArr.const ((LinArr.getS _ a1) 0))
  · have hs : ∀ (s : Slc) (k : Nat), IsRow (fun y => OdlModel.Resize.getS (T y) s k) :=
      fun s k => (LinArr.getS s hT) k
    refine LinArr.setSlc _ (LinArr.setSlc _ hT (LinArr.addRow _ (hs _ 0) ((hs _ 1).sub (hs _ 0))))
      (LinArr.addRow _ ?_ ((hs _ 1).sub (hs _ 0)))
    exact (LinArr.getS _
      (LinArr.setSlc _ hT (LinArr.addRow _ (hs _ 0) ((hs _ 1).sub (hs _ 0))))) 0

variable [DecidableEq K]

/-- every one-axis resize with `pad_const = 0` is linear: each entry of the result is a fixed
finite linear combination of entries of the input (no condition on sizes or offsets) -/
theorem LinArr.resizeCore (mode : Mode) (dir : Dir) (nIn nOut off : Nat) :
    LinArr (resizeCore mode dir nIn nOut off (0 : K)) := by
  unfold OdlModel.Resize.resizeCore
  cases dir <;> simp only [reduceCtorEq, false_and, ne_eq, not_true_eq_false, and_false, ↓reduceIte]
  · split_ifs
    · exact LinArr.assignIntersection _ _ _ LinArr.id
    · exact LinArr.applyPadding_fwd mode _ _ _ (LinArr.assignIntersection _ _ _ LinArr.id)
  · split_ifs
    · exact LinArr.assignIntersection _ _ _ LinArr.id
    · exact LinArr.assignIntersection _ _ _ (LinArr.applyPadding_adj mode _ _ _ LinArr.id)

omit [DecidableEq K] in
theorem rowSum_nil (y : Nat → K) : rowSum [] y = 0 := by simp [rowSum]
omit [DecidableEq K] in
theorem rowSum_cons (p : K × Nat) (l : List (K × Nat)) (y : Nat → K) :
    rowSum (p :: l) y = p.1 * y p.2 + rowSum l y := by simp [rowSum]
omit [DecidableEq K] in
theorem rowSum_add (l : List (K × Nat)) (y z : Nat → K) :
    rowSum l (fun i => y i + z i) = rowSum l y + rowSum l z := by
  induction l with
  | nil => simp [rowSum_nil]
  | cons p l ih => simp only [rowSum_cons, ih]; ring
omit [DecidableEq K] in
theorem rowSum_smul (l : List (K × Nat)) (c : K) (y : Nat → K) :
    rowSum l (fun i => c * y i) = c * rowSum l y := by
  induction l with
  | nil => simp [rowSum_nil]
  | cons p l ih => simp only [rowSum_cons, ih]; ring
omit [DecidableEq K] in
theorem rowSum_comm (l m : List (K × Nat)) (f : Nat → Nat → K) :
    rowSum l (fun j => rowSum m (fun k => f j k)) =
      rowSum m (fun k => rowSum l (fun j => f j k)) := by
  induction l with
  | nil =>
    simp only [rowSum_nil]
    induction m with
    | nil => simp [rowSum_nil]
    | cons q m ih => simp [rowSum_cons, ← ih]
  | cons p l ih =>
    simp only [rowSum_cons, ih, rowSum_add, rowSum_smul]

omit [DecidableEq K] in
/-- Linear one-axis maps along different axes commute. -/
theorem alongAxis_comm (a b : Nat) (hab : a ≠ b) {L M : (Nat → K) → Nat → K} (hL : LinArr L)
    (hM : LinArr M) (X : List Nat → K) :
    alongAxis a L (alongAxis b M X) = alongAxis b M (alongAxis a L X) := by
  funext idx
  simp only [alongAxis]
  have g1 : ∀ j, (idx.set a j).getD b 0 = idx.getD b 0 := fun j => by
    simp [List.getD_eq_getElem?_getD, List.getElem?_set_ne hab]
  have g2 : ∀ k, (idx.set b k).getD a 0 = idx.getD a 0 := fun k => by
    simp [List.getD_eq_getElem?_getD, List.getElem?_set_ne (Ne.symm hab)]
  simp only [g1, g2]
  obtain ⟨lL, hlL⟩ := hL (idx.getD a 0)
  obtain ⟨lM, hlM⟩ := hM (idx.getD b 0)
  simp only [] at hlL hlM
  rw [hlL, hlM]
  simp only [hlL, hlM]
  rw [rowSum_comm]
  congr 1; funext k; congr 1; funext j
  rw [List.set_comm _ _ hab]

/-- a linear map along an earlier axis commutes with the resize steps along all later axes -/
theorem alongAxis_resizeAxes_comm (mode : Mode) (dir : Dir) (a : Nat) {L : (Nat → K) → Nat → K}
    (hL : LinArr L) :
    ∀ (sIn sOut offs : List Nat) (ax : Nat) (X : List Nat → K), a < ax →
      alongAxis a L (resizeAxes mode dir (0 : K) ax sIn sOut offs X) =
        resizeAxes mode dir (0 : K) ax sIn sOut offs (alongAxis a L X)
  | n :: sIn, m :: sOut, off :: offs, ax, X, h => by
    simp only [resizeAxes]
    rw [alongAxis_resizeAxes_comm mode dir a hL sIn sOut offs (ax + 1) _ (by omega),
      alongAxis_comm a ax (by omega) hL (LinArr.resizeCore mode dir n m off)]
  | [], _, _, _, _, _ => by simp [resizeAxes]
  | _ :: _, [], _, _, _, _ => by simp [resizeAxes]
  | _ :: _, _ :: _, [], _, _, _ => by simp [resizeAxes]

/-- the per-axis steps in the code's axis order and in reversed order give the same array -/
theorem resizeAxes_eq_rev (mode : Mode) (dir : Dir) :
    ∀ (sIn sOut offs : List Nat) (ax : Nat) (X : List Nat → K),
      resizeAxes mode dir (0 : K) ax sIn sOut offs X =
        resizeAxesRev mode dir (0 : K) ax sIn sOut offs X
  | n :: sIn, m :: sOut, off :: offs, ax, X => by
    simp only [resizeAxes, resizeAxesRev]
    rw [← alongAxis_resizeAxes_comm mode dir ax (LinArr.resizeCore mode dir n m off) sIn sOut offs
      (ax + 1) X (by omega), resizeAxes_eq_rev mode dir sIn sOut offs (ax + 1) X]
  | [], _, _, _, _ => by simp [resizeAxes, resizeAxesRev]
  | _ :: _, [], _, _, _ => by simp [resizeAxes, resizeAxesRev]
  | _ :: _, _ :: _, [], _, _ => by simp [resizeAxes, resizeAxesRev]

omit [DecidableEq K] in
theorem LinArr.smul {G : (Nat → K) → Nat → K} (hG : LinArr G) (a : K)
    (y : Nat → K) (i : Nat) : G (fun t => a * y t) i = a * G y i := by
  obtain ⟨l, hl⟩ := hG i
  simp only [] at hl
  rw [hl, hl, rowSum_smul]

end OdlModel.Resize
