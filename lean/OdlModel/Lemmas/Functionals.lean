/-
Helper definitions and lemmas for C08/C09: the functional model instantiated on a real
inner-product space, and the real number denoted by a finite `grad_lipschitz`.
-/
import OdlModel.Model.Functionals
import Mathlib.Analysis.InnerProductSpace.Basic
import Mathlib.Analysis.SpecialFunctions.Sqrt
import Mathlib.Tactic.Ring
import Mathlib.Tactic.Linarith

open OdlModel.Functionals
open scoped RealInnerProductSpace

namespace OdlModel.FunctionalsR

variable {E : Type} [NormedAddCommGroup E] [InnerProductSpace ℝ E]

/-- The space operations of a real inner-product space `E`; the pointwise product `μ` and the
coordinate-wise built-ins are parameters (they need coordinates). -/
noncomputable def eOps (μ : E → E → E) (cv : Builtin ℝ → E → ℝ) (cd : Builtin ℝ → E → Bool)
    (cg : Builtin ℝ → E → E) : VecOps E ℝ where
  add := (· + ·)
  sub := (· - ·)
  smul := (· • ·)
  mul := μ
  inner := fun x y => ⟪x, y⟫
  zero := 0
  isZero := fun x => by classical exact decide (x = 0)
  cval := cv
  cdom := cd
  cgrad := cg

/-- The real number denoted by a finite `grad_lipschitz`. -/
noncomputable def rootsVal : List (ℝ × ℝ) → ℝ
  | [] => 0
  | (c, q) :: r => c * Real.sqrt q + rootsVal r

noncomputable def Lip.eval : Lip ℝ → Option ℝ
  | .fin r roots => some (r + rootsVal roots)
  | _ => none

theorem rootsVal_append (a b : List (ℝ × ℝ)) : rootsVal (a ++ b) = rootsVal a + rootsVal b := by
  induction a with
  | nil => simp [rootsVal]
  | cons h t ih => obtain ⟨c, q⟩ := h; simp [rootsVal, ih]; ring

theorem rootsVal_scale (m : ℝ) (a : List (ℝ × ℝ)) :
    rootsVal (a.map fun cq => (m * cq.1, cq.2)) = m * rootsVal a := by
  induction a with
  | nil => simp [rootsVal]
  | cons h t ih => obtain ⟨c, q⟩ := h; simp [rootsVal, ih]; ring

theorem Lip.eval_add {a b : Lip ℝ} {L : ℝ} (h : Lip.eval (Lip.add a b) = some L) :
    ∃ La Lb, Lip.eval a = some La ∧ Lip.eval b = some Lb ∧ L = La + Lb := by
  cases a <;> cases b <;> simp [Lip.add, Lip.eval] at h ⊢
  rw [rootsVal_append] at h
  linarith

theorem Lip.eval_scale {m : ℝ} {a : Lip ℝ} {L : ℝ} (h : Lip.eval (Lip.scale m a) = some L) :
    ∃ La, Lip.eval a = some La ∧ L = m * La := by
  cases a with
  | nan => simp [Lip.scale, Lip.eval] at h
  | inf => by_cases hm : m = 0 <;> simp [Lip.scale, hm, Lip.eval] at h
  | fin r a => simp [Lip.scale, Lip.eval] at h ⊢; rw [rootsVal_scale] at h; linarith

theorem absK_eq_abs (a : ℝ) : absK a = |a| := by
  unfold absK; split_ifs with h
  · rw [abs_of_neg h]
  · rw [abs_of_nonneg (le_of_not_gt h)]

/-- `L` is a Lipschitz constant of the map `G` (C09: `G = ∇f`, `L = f.grad_lipschitz`). -/
def LipOn (G : E → E) (L : ℝ) : Prop := ∀ x y, ‖G x - G y‖ ≤ L * ‖x - y‖

omit [InnerProductSpace ℝ E] in
theorem LipOn.mono {G : E → E} {L L' : ℝ} (h : LipOn G L) (hl : L ≤ L') : LipOn G L' :=
  fun x y => (h x y).trans (mul_le_mul_of_nonneg_right hl (norm_nonneg _))

end OdlModel.FunctionalsR
