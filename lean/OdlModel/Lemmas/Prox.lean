/-
Helper lemmas for C07: the model's core-class `absK/maxK/minK/signK` are Mathlib's
`|·|/max/min/sign` over a linearly ordered field.
-/
import OdlModel.Model.Prox
import Mathlib.Algebra.Order.Field.Basic
import Mathlib.Algebra.Order.AbsoluteValue.Basic
import Mathlib.Tactic.Ring
import Mathlib.Tactic.Linarith
import Mathlib.Tactic.FieldSimp
import Mathlib.Analysis.InnerProductSpace.Basic
import Mathlib.Algebra.BigOperators.Group.Finset.Basic
import Mathlib.Algebra.BigOperators.Ring.Finset
import Mathlib.Algebra.BigOperators.Intervals
import Mathlib.Analysis.Real.Sqrt

namespace OdlModel.Prox
variable {K : Type} [Field K] [LinearOrder K] [IsStrictOrderedRing K]

theorem absK_eq (a : K) : absK a = |a| := by
  unfold absK; split_ifs with h
  · exact (abs_of_neg h).symm
  · exact (abs_of_nonneg (not_lt.mp h)).symm

omit [Field K] [IsStrictOrderedRing K] in
theorem maxK_eq (a b : K) : maxK a b = max a b := by
  unfold maxK; split_ifs with h
  · exact (max_eq_right h).symm
  · exact (max_eq_left (le_of_lt (not_le.mp h))).symm

omit [Field K] [IsStrictOrderedRing K] in
theorem minK_eq (a b : K) : minK a b = min a b := by
  unfold minK; split_ifs with h
  · exact (min_eq_left h).symm
  · exact (min_eq_right (le_of_lt (not_le.mp h))).symm

theorem signK_mul_self (a : K) : signK a * a = |a| := by
  unfold signK; split_ifs with h1 h2
  · rw [one_mul, abs_of_pos h1]
  · rw [abs_of_neg h2]; ring
  · have : a = 0 := le_antisymm (not_lt.mp h1) (not_lt.mp h2)
    simp [this]


/-- The Huber function `f_γ` of `default_functionals.Huber` at one point (`γ > 0`). -/
def huberFn (gam t : K) : K := if |t| ≤ gam then t ^ 2 / (2 * gam) else |t| - gam / 2

theorem idxMap_length {K : Type} (x : List K) (f : Nat → K → K) :
    (idxMap x f).length = x.length := by
  simp [idxMap]

theorem idxMap_getD {K : Type} (x : List K) (f : Nat → K → K) (i : Nat) (d : K)
    (h : i < x.length) : (idxMap x f).getD i d = f i (x.getD i d) := by
  simp [idxMap, List.getD_eq_getElem?_getD, h]

/-- Example data for the simplex threshold: the sorted vector (1, 1/2, -1). -/
def uEx : ℕ → ℚ := fun k => if k = 0 then 1 else if k = 1 then 1 / 2 else -1

/-- entry of `proj_l1` in the thresholded branch -/
theorem l1entry_cases (x tau : K) (ht : 0 ≤ tau) :
    (|x| ≤ tau ∧ maxK (absK x - tau) 0 = 0 ∧ maxK (absK x - tau) 0 * signK x = 0) ∨
    (tau < |x| ∧ maxK (absK x - tau) 0 = |x| - tau ∧
      ((0 < x ∧ maxK (absK x - tau) 0 * signK x = x - tau) ∨
       (x < 0 ∧ maxK (absK x - tau) 0 * signK x = x + tau))) := by
  simp only [absK_eq, maxK_eq]
  rcases le_or_gt (|x|) tau with h | h
  · left
    have : max (|x| - tau) 0 = 0 := max_eq_right (by linarith)
    exact ⟨h, this, by rw [this, zero_mul]⟩
  · right
    have hm : max (|x| - tau) 0 = |x| - tau := max_eq_left (by linarith)
    refine ⟨h, hm, ?_⟩
    rcases lt_trichotomy x 0 with hx | hx | hx
    · right
      refine ⟨hx, ?_⟩
      rw [hm, abs_of_neg hx]
      unfold signK; rw [if_neg (by linarith), if_pos hx]; ring
    · subst hx; simp at h; linarith
    · left
      refine ⟨hx, ?_⟩
      rw [hm, abs_of_pos hx]
      unfold signK; rw [if_pos hx]; ring


/-! ## list sums and the fold of `proj_simplex` -/
section SimplexFold
open Finset

omit [LinearOrder K] [IsStrictOrderedRing K] in
theorem map_getD' (x : List K) (f : K → K) (i : ℕ) (hi : i < x.length) :
    (x.map f).getD i 0 = f (x.getD i 0) := by
  simp [List.getD_eq_getElem?_getD, hi]

omit [LinearOrder K] [IsStrictOrderedRing K] in
theorem zipWith_getD' (a b : List K) (f : K → K → K) (i : ℕ) (ha : i < a.length)
    (hb : i < b.length) : (List.zipWith f a b).getD i 0 = f (a.getD i 0) (b.getD i 0) := by
  simp [List.getD_eq_getElem?_getD, ha, hb]

omit [LinearOrder K] [IsStrictOrderedRing K] in
theorem foldl_count (x : List K) (a : K) :
    x.foldl (fun acc _ => acc + 1) a = a + (x.length : K) := by
  induction x generalizing a with
  | nil => simp
  | cons h t ih => simp only [List.foldl_cons, ih, List.length_cons]; push_cast; ring

/-- The prior of the KL proximal at entry `i`: `g_i`, or 1 when `g is None`. -/
def priorAt (g : Option (List K)) (i : ℕ) : K :=
  match g with
  | some _ => gAt g i
  | none => 1

omit [LinearOrder K] [IsStrictOrderedRing K] in
theorem sumK_eq_sum (l : List K) : sumK l = l.sum := by
  unfold sumK; exact List.sum_eq_foldl.symm

omit [LinearOrder K] [IsStrictOrderedRing K] in
theorem sum_range_getD (l : List K) (g : K → K) :
    ∑ k ∈ range l.length, g (l.getD k 0) = (l.map g).sum := by
  induction l with
  | nil => simp
  | cons a t ih =>
    rw [List.length_cons, Finset.sum_range_succ', List.map_cons, List.sum_cons]
    simp only [List.getD_cons_succ, List.getD_cons_zero]
    rw [ih]; ring

omit [LinearOrder K] [IsStrictOrderedRing K] in
theorem sum_range_getD_take (l : List K) (m : ℕ) (hm : m ≤ l.length) :
    ∑ k ∈ range m, l.getD k 0 = (l.take m).sum := by
  have := sum_range_getD (l.take m) id
  simp only [List.length_take, min_eq_left hm, List.map_id_fun, id] at this
  rw [← this]
  apply Finset.sum_congr rfl
  intro k hk
  have hk' := mem_range.mp hk
  simp [List.getD_eq_getElem?_getD, hk']

/-- Invariant of the fold `simplexTau.go` after `m` entries of the sorted list `u`. -/
def SimplexInv (u : ℕ → K) (r : K) (m : ℕ) : Option K → Prop
  | none => m = 0
  | some tau => ∃ i, 1 ≤ i ∧ i ≤ m ∧ tau = 1 / (i : K) * (∑ k ∈ range i, u k - r) ∧
      0 ≤ u (i - 1) - tau ∧
      (i = m ∨ u i - 1 / ((i : K) + 1) * (∑ k ∈ range (i + 1), u k - r) < 0)

theorem simplex_go_inv (r : K) (hr : 0 ≤ r) (xs : List K) :
    ∀ (d m : ℕ) (best : Option K), m + d = xs.length →
      SimplexInv (fun k => xs.getD k 0) r m best →
      SimplexInv (fun k => xs.getD k 0) r xs.length
        (simplexTau.go r (xs.drop m) ((m : K) + 1) (∑ k ∈ range m, xs.getD k 0) best) := by
  intro d
  induction d with
  | zero =>
    intro m best hm hinv
    have : m = xs.length := by omega
    subst this
    rw [List.drop_length]
    simp only [simplexTau.go]
    exact hinv
  | succ d ih =>
    intro m best hm hinv
    have hlt : m < xs.length := by omega
    rw [List.drop_eq_getElem_cons hlt]
    simp only [simplexTau.go]
    have hget : xs[m] = xs.getD m 0 := by simp [List.getD_eq_getElem?_getD, hlt]
    have hsum : ∑ k ∈ range m, xs.getD k 0 + xs[m] = ∑ k ∈ range (m + 1), xs.getD k 0 := by
      rw [Finset.sum_range_succ, hget]
    have hj : (m : K) + 1 + 1 = ((m + 1 : ℕ) : K) + 1 := by push_cast; ring
    rw [hsum, hj]
    apply ih (m + 1) _ (by omega)
    -- the invariant after processing entry m
    split_ifs with hc
    · refine ⟨m + 1, by omega, le_refl _, ?_, ?_, Or.inl rfl⟩
      · push_cast; ring
      · simpa [hget] using hc
    · -- crit < 0: best unchanged
      have hc' := not_le.mp hc
      cases best with
      | none =>
        -- m = 0: crit_1 = r ≥ 0, contradiction
        have hm0 : m = 0 := hinv
        subst hm0
        exfalso
        rw [hget] at hc'
        simp only [Nat.cast_zero, zero_add, Finset.sum_range_one, div_one, one_mul] at hc'
        linarith
      | some tau =>
        obtain ⟨i, hi1, him, htau, hcrit, hnext⟩ := hinv
        refine ⟨i, hi1, by omega, htau, hcrit, ?_⟩
        rcases hnext with h | h
        · right
          subst h
          simpa [hget] using hc'
        · right; exact h

end SimplexFold

/-! ## the abstract layer: functionals on a real inner product space -/
section Abstract
variable {E : Type} [NormedAddCommGroup E] [InnerProductSpace ℝ E]

/-- A functional on `E` is a pair `(C, f)`: finite with value `f z` on `C`, `+∞` outside.
`ProxVI C f σ x p`: `p ∈ C` and `(x − p)/σ` is a subgradient of `f` at `p` — the variational
inequality (resolvent characterisation) of `p = prox_{σ f}(x)`. -/
def ProxVI (C : Set E) (f : E → ℝ) (σ : ℝ) (x p : E) : Prop :=
  p ∈ C ∧ ∀ z ∈ C, σ * f p + inner ℝ (x - p) (z - p) ≤ σ * f z

/-- `P` is the proximal operator of `σ·(C, f)`. -/
def IsProx (C : Set E) (f : E → ℝ) (σ : ℝ) (P : E → E) : Prop := ∀ x, ProxVI C f σ x (P x)

/-- `(D, fs)` behaves as the convex conjugate of `(C, f)`: Fenchel–Young holds, with equality
at every subgradient pair.  (Both hold for the Fenchel conjugate of any `f`; neither convexity
nor closedness is needed for the direction used by `proximal_convex_conj`.) -/
def IsConjPair (C : Set E) (f : E → ℝ) (D : Set E) (fs : E → ℝ) : Prop :=
  (∀ z ∈ C, ∀ y ∈ D, inner ℝ z y ≤ f z + fs y) ∧
  (∀ p ∈ C, ∀ g : E, (∀ z ∈ C, f p + inner ℝ g (z - p) ≤ f z) →
    g ∈ D ∧ f p + fs g = inner ℝ p g)

/-- Functional expression trees over an inner product space: arbitrary leaves `(C, f, P)` and
the calculus nodes of `functional.py`.  `PTree.prox` is assembled from the SAME combinators
(`proxTranslation`, `proxArgScaling`, `proxLeftScale`, `proxQuadPerturb`, `proxConvexConj`)
that the executable `Fn.prox` calls on lists. -/
inductive PTree (E : Type) where
  | leaf (C : Set E) (f : E → ℝ) (P : ℝ → E → E)
  | trans (t : PTree E) (y : E)
  | argScale (t : PTree E) (s : ℝ)
  | leftScale (t : PTree E) (c : ℝ)
  | quad (t : PTree E) (a : ℝ) (u : E)
  | conj (t : PTree E) (D : Set E) (fs : E → ℝ)

/-- Effective domain of the denoted functional. -/
def PTree.dom : PTree E → Set E
  | .leaf C _ _ => C
  | .trans t y => {z | z - y ∈ t.dom}
  | .argScale t s => {z | s • z ∈ t.dom}
  | .leftScale t _ => t.dom
  | .quad t _ _ => t.dom
  | .conj _ D _ => D

/-- Value of the denoted functional on its domain. -/
def PTree.val : PTree E → E → ℝ
  | .leaf _ f _ => f
  | .trans t y => fun z => t.val (z - y)
  | .argScale t s => fun z => t.val (s • z)
  | .leftScale t c => fun z => c * t.val z
  | .quad t a u => fun z => t.val z + a * ‖z‖ ^ 2 + inner ℝ z u
  | .conj _ _ fs => fs

/-- The derived proximal factory, as `functional.py` derives it. -/
noncomputable def PTree.prox (rsqrt : ℝ → ℝ) : PTree E → ℝ → E → E
  | .leaf _ _ P => P
  | .trans t y => proxTranslation (t.prox rsqrt) y
  | .argScale t s => proxArgScaling0 (t.prox rsqrt) s
  | .leftScale t c => proxLeftScale (t.prox rsqrt) c
  | .quad t a u => proxQuadPerturb rsqrt (t.prox rsqrt) a (some u)
  | .conj t _ _ => proxConvexConj (t.prox rsqrt)

theorem proxArgScaling0_of_ne {V : Type} [Add V] [Sub V] [SMul ℝ V] (P : ℝ → V → V) (s : ℝ)
    (hs : s ≠ 0) : proxArgScaling0 P s = proxArgScaling P s := by
  funext σ x
  unfold proxArgScaling0
  rcases lt_or_gt_of_ne hs with h | h
  · rw [if_pos h]
  · rw [if_neg (not_lt.mpr (le_of_lt h)), if_pos h]

/-- Side conditions under which the code's rules are valid: correct leaves, non-zero argument
scaling, positive left scaling, non-negative quadratic coefficient, a genuine conjugate. -/
def PTree.WF : PTree E → Prop
  | .leaf C f P => ∀ σ, 0 < σ → IsProx C f σ (P σ)
  | .trans t _ => t.WF
  | .argScale t s => s ≠ 0 ∧ t.WF
  | .leftScale t c => 0 < c ∧ t.WF
  | .quad t a _ => 0 ≤ a ∧ t.WF
  | .conj t D fs => IsConjPair t.dom t.val D fs ∧ t.WF

/-- Example tree over `ℝ`: quad(leftScale(argScale(trans(leaf L2)))) with the model's L2
proximal at the leaf. -/
noncomputable def exTree : PTree ℝ :=
  .quad (.leftScale (.argScale (.trans
    (.leaf Set.univ (fun z : ℝ => 2 * ‖z - 1‖) (proxL2 (fun v : ℝ => ‖v‖) 0 2 (some 1)))
    5) (-3)) 4) (3 / 2) 7


/-- Example tree over `ℝ` with the executed soft threshold at the leaf:
`3·(2|(· − 5) − 1|) + ½‖·‖² + ⟪·, 7⟫`. -/
noncomputable def exTreeL1 : PTree ℝ :=
  .quad (.leftScale (.trans
    (.leaf Set.univ (fun z : ℝ => 2 * |z - 1|) (fun σ x => softCode (σ * 2) x 1)) 5) 3) (1 / 2) 7

/-- Example tree over `ℝ` with the executed Huber proximal at the leaf, under a negative
argument scaling and a translation. -/
noncomputable def exTreeHuber : PTree ℝ :=
  .trans (.argScale (.leaf Set.univ (huberFn (1 / 2)) (fun σ => huberCode (1 / 2) σ)) (-3)) 2

end Abstract

end OdlModel.Prox
