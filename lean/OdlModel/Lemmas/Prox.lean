/-
Helper lemmas for C07: the model's core-class `absK/maxK/minK/signK` are Mathlib's
`|·|/max/min/sign` over a linearly ordered field.
-/
import OdlModel.Model.Prox
import Mathlib.Algebra.Order.Field.Basic
import Mathlib.Algebra.Order.AbsoluteValue.Basic
import Mathlib.Tactic.Ring
import Mathlib.Tactic.Linarith
import Mathlib.Tactic.FieldSimp

namespace OdlModel.Prox
variable {K : Type} [Field K] [LinearOrder K] [IsStrictOrderedRing K]

theorem absK_eq (a : K) : absK a = |a| := by
  unfold absK; split_ifs with h
  · exact (abs_of_neg h).symm
  · exact (abs_of_nonneg (not_lt.mp h)).symm

omit [Field K] [IsStrictOrderedRing K] in
theorem maxK_eq (a b : K) : maxK a b = max a b := by
  unfold maxK; split_ifs with h
  · exact (max_eq_right h).symm
  · exact (max_eq_left (le_of_lt (not_le.mp h))).symm

omit [Field K] [IsStrictOrderedRing K] in
theorem minK_eq (a b : K) : minK a b = min a b := by
  unfold minK; split_ifs with h
  · exact (min_eq_left h).symm
  · exact (min_eq_right (le_of_lt (not_le.mp h))).symm

theorem signK_mul_self (a : K) : signK a * a = |a| := by
  unfold signK; split_ifs with h1 h2
  · rw [one_mul, abs_of_pos h1]
  · rw [abs_of_neg h2]; ring
  · have : a = 0 := le_antisymm (not_lt.mp h1) (not_lt.mp h2)
    simp [this]

end OdlModel.Prox
