/-
Helper lemmas for C07: the model's core-class `absK/maxK/minK/signK` are Mathlib's
`|·|/max/min/sign` over a linearly ordered field.
-/
import OdlModel.Model.Prox
import Mathlib.Algebra.Order.Field.Basic
import Mathlib.Algebra.Order.AbsoluteValue.Basic
import Mathlib.Tactic.Ring
import Mathlib.Tactic.Linarith
import Mathlib.Tactic.FieldSimp
import Mathlib.Analysis.InnerProductSpace.Basic
import Mathlib.Algebra.BigOperators.Group.Finset.Basic
import Mathlib.Algebra.BigOperators.Ring.Finset
import Mathlib.Algebra.BigOperators.Intervals
import Mathlib.Analysis.Real.Sqrt
import Mathlib.Algebra.Order.BigOperators.Ring.Finset

namespace OdlModel.Prox
variable {K : Type} [Field K] [LinearOrder K] [IsStrictOrderedRing K]

theorem absK_eq (a : K) : absK a = |a| := by
  unfold absK; split_ifs with h
  · exact (abs_of_neg h).symm
  · exact (abs_of_nonneg (not_lt.mp h)).symm

omit [Field K] [IsStrictOrderedRing K] in
theorem maxK_eq (a b : K) : maxK a b = max a b := by
  unfold maxK; split_ifs with h
  · exact (max_eq_right h).symm
  · exact (max_eq_left (le_of_lt (not_le.mp h))).symm

omit [Field K] [IsStrictOrderedRing K] in
theorem minK_eq (a b : K) : minK a b = min a b := by
  unfold minK; split_ifs with h
  · exact (min_eq_left h).symm
  · exact (min_eq_right (le_of_lt (not_le.mp h))).symm

theorem signK_mul_self (a : K) : signK a * a = |a| := by
  unfold signK; split_ifs with h1 h2
  · rw [one_mul, abs_of_pos h1]
  · rw [abs_of_neg h2]; ring
  · have : a = 0 := le_antisymm (not_lt.mp h1) (not_lt.mp h2)
    simp [this]


/-- The Huber function `f_γ` of `default_functionals.Huber` at one point (`γ > 0`). -/
def huberFn (gam t : K) : K := if |t| ≤ gam then t ^ 2 / (2 * gam) else |t| - gam / 2

theorem idxMap_length {K : Type} (x : List K) (f : Nat → K → K) :
    (idxMap x f).length = x.length := by
  simp [idxMap]

theorem idxMap_getD {K : Type} (x : List K) (f : Nat → K → K) (i : Nat) (d : K)
    (h : i < x.length) : (idxMap x f).getD i d = f i (x.getD i d) := by
  simp [idxMap, List.getD_eq_getElem?_getD, h]

/-- Example data for the simplex threshold: the sorted vector (1, 1/2, -1). -/
def uEx : ℕ → ℚ := fun k => if k = 0 then 1 else if k = 1 then 1 / 2 else -1

/-- entry of `proj_l1` in the thresholded branch -/
theorem l1entry_cases (x tau : K) (ht : 0 ≤ tau) :
    (|x| ≤ tau ∧ maxK (absK x - tau) 0 = 0 ∧ maxK (absK x - tau) 0 * signK x = 0) ∨
    (tau < |x| ∧ maxK (absK x - tau) 0 = |x| - tau ∧
      ((0 < x ∧ maxK (absK x - tau) 0 * signK x = x - tau) ∨
       (x < 0 ∧ maxK (absK x - tau) 0 * signK x = x + tau))) := by
  simp only [absK_eq, maxK_eq]
  rcases le_or_gt (|x|) tau with h | h
  · left
    have : max (|x| - tau) 0 = 0 := max_eq_right (by linarith)
    exact ⟨h, this, by rw [this, zero_mul]⟩
  · right
    have hm : max (|x| - tau) 0 = |x| - tau := max_eq_left (by linarith)
    refine ⟨h, hm, ?_⟩
    rcases lt_trichotomy x 0 with hx | hx | hx
    · right
      refine ⟨hx, ?_⟩
      rw [hm, abs_of_neg hx]
      unfold signK; rw [if_neg (by linarith), if_pos hx]; ring
    · subst hx; simp at h; linarith
    · left
      refine ⟨hx, ?_⟩
      rw [hm, abs_of_pos hx]
      unfold signK; rw [if_pos hx]; ring


/-! ## list sums and the fold of `proj_simplex` -/
section SimplexFold
open Finset

omit [LinearOrder K] [IsStrictOrderedRing K] in
theorem map_getD' (x : List K) (f : K → K) (i : ℕ) (hi : i < x.length) :
    (x.map f).getD i 0 = f (x.getD i 0) := by
  simp [List.getD_eq_getElem?_getD, hi]

omit [LinearOrder K] [IsStrictOrderedRing K] in
theorem zipWith_getD' (a b : List K) (f : K → K → K) (i : ℕ) (ha : i < a.length)
    (hb : i < b.length) : (List.zipWith f a b).getD i 0 = f (a.getD i 0) (b.getD i 0) := by
  simp [List.getD_eq_getElem?_getD, ha, hb]

omit [LinearOrder K] [IsStrictOrderedRing K] in
theorem foldl_count (x : List K) (a : K) :
    x.foldl (fun acc _ => acc + 1) a = a + (x.length : K) := by
  induction x generalizing a with
  | nil => simp
  | cons h t ih => simp only [List.foldl_cons, ih, List.length_cons]; push_cast; ring

/-- The prior of the KL proximal at entry `i`: `g_i`, or 1 when `g is None`. -/
def priorAt (g : Option (List K)) (i : ℕ) : K :=
  match g with
  | some _ => gAt g i
  | none => 1

omit [LinearOrder K] [IsStrictOrderedRing K] in
theorem sumK_eq_sum (l : List K) : sumK l = l.sum := by
  unfold sumK; exact List.sum_eq_foldl.symm

omit [LinearOrder K] [IsStrictOrderedRing K] in
theorem sum_range_getD (l : List K) (g : K → K) :
    ∑ k ∈ range l.length, g (l.getD k 0) = (l.map g).sum := by
  induction l with
  | nil => simp
  | cons a t ih =>
    rw [List.length_cons, Finset.sum_range_succ', List.map_cons, List.sum_cons]
    simp only [List.getD_cons_succ, List.getD_cons_zero]
    rw [ih]; ring

omit [LinearOrder K] [IsStrictOrderedRing K] in
theorem sum_range_getD_take (l : List K) (m : ℕ) (hm : m ≤ l.length) :
    ∑ k ∈ range m, l.getD k 0 = (l.take m).sum := by
  have := sum_range_getD (l.take m) id
  simp only [List.length_take, min_eq_left hm, List.map_id_fun, id] at this
  rw [← this]
  apply Finset.sum_congr rfl
  intro k hk
  have hk' := mem_range.mp hk
  simp [List.getD_eq_getElem?_getD, hk']

/-- Invariant of the fold `simplexTau.go` after `m` entries of the sorted list `u`. -/
def SimplexInv (u : ℕ → K) (r : K) (m : ℕ) : Option K → Prop
  | none => m = 0
  | some tau => ∃ i, 1 ≤ i ∧ i ≤ m ∧ tau = 1 / (i : K) * (∑ k ∈ range i, u k - r) ∧
      0 ≤ u (i - 1) - tau ∧
      (i = m ∨ u i - 1 / ((i : K) + 1) * (∑ k ∈ range (i + 1), u k - r) < 0)

theorem simplex_go_inv (r : K) (hr : 0 ≤ r) (xs : List K) :
    ∀ (d m : ℕ) (best : Option K), m + d = xs.length →
      SimplexInv (fun k => xs.getD k 0) r m best →
      SimplexInv (fun k => xs.getD k 0) r xs.length
        (simplexTau.go r (xs.drop m) ((m : K) + 1) (∑ k ∈ range m, xs.getD k 0) best) := by
  intro d
  induction d with
  | zero =>
    intro m best hm hinv
    have : m = xs.length := by omega
    subst this
    rw [List.drop_length]
    simp only [simplexTau.go]
    exact hinv
  | succ d ih =>
    intro m best hm hinv
    have hlt : m < xs.length := by omega
    rw [List.drop_eq_getElem_cons hlt]
    simp only [simplexTau.go]
    have hget : xs[m] = xs.getD m 0 := by simp [List.getD_eq_getElem?_getD, hlt]
    have hsum : ∑ k ∈ range m, xs.getD k 0 + xs[m] = ∑ k ∈ range (m + 1), xs.getD k 0 := by
      rw [Finset.sum_range_succ, hget]
    have hj : (m : K) + 1 + 1 = ((m + 1 : ℕ) : K) + 1 := by push_cast; ring
    rw [hsum, hj]
    apply ih (m + 1) _ (by omega)
    -- the invariant after processing entry m
    split_ifs with hc
    · refine ⟨m + 1, by omega, le_refl _, ?_, ?_, Or.inl rfl⟩
      · push_cast; ring
      · simpa [hget] using hc
    · -- crit < 0: best unchanged
      have hc' := not_le.mp hc
      cases best with
      | none =>
        -- m = 0: crit_1 = r ≥ 0, contradiction
        have hm0 : m = 0 := hinv
        subst hm0
        exfalso
        rw [hget] at hc'
        simp only [Nat.cast_zero, zero_add, Finset.sum_range_one, div_one, one_mul] at hc'
        linarith
      | some tau =>
        obtain ⟨i, hi1, him, htau, hcrit, hnext⟩ := hinv
        refine ⟨i, hi1, by omega, htau, hcrit, ?_⟩
        rcases hnext with h | h
        · right
          subst h
          simpa [hget] using hc'
        · right; exact h

end SimplexFold

/-! ## group (point-wise 2-norm) proximals on power spaces: weighted Cauchy–Schwarz with `sqrt`
as a parameter, and the entries of the executed `.l1l2` / `.huberG` / `.ccl1l2` (round 4) -/
section Group
open Finset

/-- Weighted Cauchy-Schwarz with the norms given as non-negative roots. -/
theorem group_cs {ι : Type} (I : Finset ι) (pw a b : ι → K) (ra rb : K)
    (hpw : ∀ k ∈ I, 0 ≤ pw k) (hra : 0 ≤ ra) (hrb : 0 ≤ rb)
    (ha : ∑ k ∈ I, pw k * (a k * a k) = ra * ra) (hb : ∑ k ∈ I, pw k * (b k * b k) = rb * rb) :
    ∑ k ∈ I, pw k * (a k * b k) ≤ ra * rb := by
  have h := Finset.sum_sq_le_sum_mul_sum_of_sq_le_mul I
    (r := fun k => pw k * (a k * b k)) (f := fun k => pw k * (a k * a k))
    (g := fun k => pw k * (b k * b k))
    (fun k hk => mul_nonneg (hpw k hk) (mul_self_nonneg _))
    (fun k hk => mul_nonneg (hpw k hk) (mul_self_nonneg _))
    (fun k _ => le_of_eq (by ring))
  rw [ha, hb] at h
  have h2 : (∑ k ∈ I, pw k * (a k * b k)) ^ 2 ≤ (ra * rb) ^ 2 := by
    calc _ ≤ ra * ra * (rb * rb) := h
      _ = (ra * rb) ^ 2 := by ring
  exact le_trans (le_abs_self _) (abs_le_of_sq_le_sq h2 (mul_nonneg hra hrb))

/-- Root of a radially scaled group. -/
theorem group_scale {ι : Type} (I : Finset ι) (pw a : ι → K) (ra th : K)
    (ha : ∑ k ∈ I, pw k * (a k * a k) = ra * ra) :
    ∑ k ∈ I, pw k * ((th * a k) * (th * a k)) = (th * ra) * (th * ra) := by
  have : ∀ k ∈ I, pw k * ((th * a k) * (th * a k)) = th * th * (pw k * (a k * a k)) := by
    intro k _; ring
  rw [Finset.sum_congr rfl this, ← Finset.mul_sum, ha]; ring

/-- Radial shrinkage `p = κ x` of one group, `0 ≤ κ ≤ 1`: the cross term is bounded by the
scalar cross term of the norms (Cauchy-Schwarz). -/
theorem group_radial {ι : Type} (I : Finset ι) (pw x z : ι → K) (rd re ka : K)
    (hpw : ∀ k ∈ I, 0 ≤ pw k) (hrd : 0 ≤ rd) (hre : 0 ≤ re) (hk1 : ka ≤ 1)
    (hd : ∑ k ∈ I, pw k * (x k * x k) = rd * rd)
    (he : ∑ k ∈ I, pw k * (z k * z k) = re * re) :
    ∑ k ∈ I, pw k * ((x k - ka * x k) * (z k - ka * x k)) ≤ (rd - ka * rd) * (re - ka * rd) := by
  have hcs := group_cs I pw x z rd re hpw hrd hre hd he
  have hsum : ∑ k ∈ I, pw k * ((x k - ka * x k) * (z k - ka * x k))
      = (1 - ka) * (∑ k ∈ I, pw k * (x k * z k)) - (1 - ka) * ka * (rd * rd) := by
    rw [← hd, Finset.mul_sum, Finset.mul_sum, ← Finset.sum_sub_distrib]
    exact Finset.sum_congr rfl (fun k _ => by ring)
  rw [hsum]
  have : (1 - ka) * (∑ k ∈ I, pw k * (x k * z k)) ≤ (1 - ka) * (rd * re) :=
    mul_le_mul_of_nonneg_left hcs (by linarith)
  nlinarith [this]

/-- The factor of `ProximalHuber._call` on a product space. -/
theorem huber_kappa (gam s rd : K) (hg : 0 ≤ gam) (hs : 0 < s) (hrd : 0 ≤ rd) :
    ∃ ka, 0 ≤ ka ∧ ka ≤ 1 ∧ huberCode gam s rd = ka * rd ∧
      ∀ v : K, (if rd ≤ gam + s then gam / (gam + s) * v else v - s * (v / rd)) = ka * v := by
  have hgs : 0 < gam + s := by positivity
  by_cases h : rd ≤ gam + s
  · refine ⟨gam / (gam + s), by positivity, ?_, ?_, ?_⟩
    · rw [div_le_one hgs]; linarith
    · unfold huberCode; rw [absK_eq, abs_of_nonneg hrd, if_pos h]
    · intro v; rw [if_pos h]
  · have hpos : 0 < rd := by linarith [not_le.mp h]
    refine ⟨1 - s / rd, ?_, ?_, ?_, ?_⟩
    · rw [sub_nonneg, div_le_one hpos]; linarith [not_le.mp h]
    · have : 0 ≤ s / rd := by positivity
      linarith
    · unfold huberCode; rw [absK_eq, abs_of_nonneg hrd, if_neg h]; field_simp
    · intro v; rw [if_neg h]; field_simp

omit [LinearOrder K] [IsStrictOrderedRing K] in
theorem list_range_map_sum (d : ℕ) (f : ℕ → K) :
    ((List.range d).map f).sum = ∑ k ∈ range d, f k := by
  induction d with
  | zero => simp
  | succ n ih => rw [List.range_succ, List.map_append, List.sum_append, ih,
      Finset.sum_range_succ]; simp

omit [LinearOrder K] [IsStrictOrderedRing K] in
/-- Entry `i` of the executed `pwNorm`. -/
theorem pwNorm_getD (sqrt : K → K) (pw : List K) (d m : ℕ) (y : List K) (i : ℕ) (dflt : K)
    (hi : i < m) :
    (pwNorm sqrt pw d m y).getD i dflt
      = sqrt (∑ k ∈ range d, pw.getD k 1 * (y.getD (k * m + i) 0 * y.getD (k * m + i) 0)) := by
  unfold pwNorm
  simp only [List.getD_eq_getElem?_getD, List.getElem?_map, List.getElem?_range hi,
    Option.map_some, Option.getD_some, sumK_eq_sum, list_range_map_sum]

theorem idx_lt {d m k i : ℕ} (hk : k < d) (hi : i < m) : k * m + i < d * m := by
  calc k * m + i < k * m + m := by omega
    _ = (k + 1) * m := by ring
    _ ≤ d * m := Nat.mul_le_mul_right m hk

theorem idx_mod {m k i : ℕ} (hi : i < m) : (k * m + i) % m = i := by
  rw [Nat.mul_comm, Nat.mul_add_mod, Nat.mod_eq_of_lt hi]

/-- From the group variational inequality to the objective with quadratic gap. -/
theorem group_lift {ι : Type} (I : Finset ι) (pw x p z : ι → K) (s Ap Az : K) (hs : 0 < s)
    (h : s * Ap + ∑ k ∈ I, pw k * ((x k - p k) * (z k - p k)) ≤ s * Az) :
    Ap + (∑ k ∈ I, pw k * ((p k - x k) ^ 2 + (z k - p k) ^ 2)) / (2 * s)
      ≤ Az + (∑ k ∈ I, pw k * (z k - x k) ^ 2) / (2 * s) := by
  have e : ∑ k ∈ I, pw k * (z k - x k) ^ 2
      = ∑ k ∈ I, pw k * ((p k - x k) ^ 2 + (z k - p k) ^ 2)
        - 2 * ∑ k ∈ I, pw k * ((x k - p k) * (z k - p k)) := by
    rw [Finset.mul_sum, ← Finset.sum_sub_distrib]
    exact Finset.sum_congr rfl (fun k _ => by ring)
  rw [e, sub_div, mul_div_mul_left _ _ (two_ne_zero)]
  have : (∑ k ∈ I, pw k * ((x k - p k) * (z k - p k))) / s ≤ Az - Ap := by
    rw [div_le_iff₀ hs]; linarith
  linarith

/-- Entries of the executed `.l1l2` proximal. -/
theorem l1l2_getD (E : Env K) (pw : List K) (d m : ℕ) (lam s : K) (g : Option (List K))
    (w x : List K) (hd : 0 < d) (hx : x.length = d * m) (k i : ℕ) (hk : k < d) (hi : i < m) :
    (Fn.prox E (.l1l2 pw d lam g) w (.sc s) x).getD (k * m + i) 0
      = x.getD (k * m + i) 0 - (x.getD (k * m + i) 0 - gAt g (k * m + i))
        / maxK (E.sqrt (∑ k' ∈ range d, pw.getD k' 1 *
            ((x.getD (k' * m + i) 0 - gAt g (k' * m + i))
              * (x.getD (k' * m + i) 0 - gAt g (k' * m + i)))) / (s * lam)) 1 := by
  have hm : x.length / d = m := by rw [hx]; exact Nat.mul_div_cancel_left m hd
  have hj := idx_lt (m := m) hk hi
  simp only [Fn.prox, hm, Sig.scalar]
  rw [idxMap_getD _ _ _ _ (by rw [hx]; exact hj), idx_mod hi]
  have hden : ∀ (l : List K) (f : K → K), i < l.length → (l.map f).getD i 1 = f (l.getD i 0) := by
    intro l f h; simp [List.getD_eq_getElem?_getD, h]
  rw [hden _ _ (by simp [pwNorm]; exact hi), pwNorm_getD _ _ _ _ _ _ _ hi]
  have hdiff : ∀ k' ∈ range d, (idxMap x fun i xi => xi - gAt g i).getD (k' * m + i) 0
      = x.getD (k' * m + i) 0 - gAt g (k' * m + i) := by
    intro k' hk'
    have hj' := idx_lt (m := m) (mem_range.mp hk') hi
    rw [idxMap_getD _ _ _ _ (by rw [hx]; exact hj')]
  rw [Finset.sum_congr rfl (fun k' hk' => by rw [hdiff k' hk'])]

/-- Entries of the executed `.huberG` proximal. -/
theorem huberG_getD (E : Env K) (pw : List K) (d m : ℕ) (gam s : K)
    (w x : List K) (hd : 0 < d) (hx : x.length = d * m) (k i : ℕ) (hk : k < d) (hi : i < m) :
    (Fn.prox E (.huberG pw d gam) w (.sc s) x).getD (k * m + i) 0
      = if E.sqrt (∑ k' ∈ range d, pw.getD k' 1 *
            (x.getD (k' * m + i) 0 * x.getD (k' * m + i) 0)) ≤ gam + s
        then gam / (gam + s) * x.getD (k * m + i) 0
        else x.getD (k * m + i) 0 - s * (x.getD (k * m + i) 0 /
          E.sqrt (∑ k' ∈ range d, pw.getD k' 1 *
            (x.getD (k' * m + i) 0 * x.getD (k' * m + i) 0))) := by
  have hm : x.length / d = m := by rw [hx]; exact Nat.mul_div_cancel_left m hd
  have hj := idx_lt (m := m) hk hi
  simp only [Fn.prox, hm, Sig.scalar]
  rw [idxMap_getD _ _ _ _ (by rw [hx]; exact hj), idx_mod hi, pwNorm_getD _ _ _ _ _ _ _ hi]

/-- Entries of the executed `.ccl1l2` proximal. -/
theorem ccl1l2_getD (E : Env K) (pw : List K) (d m : ℕ) (lam s : K) (g : Option (List K))
    (w x : List K) (hd : 0 < d) (hx : x.length = d * m) (k i : ℕ) (hk : k < d) (hi : i < m) :
    (Fn.prox E (.ccl1l2 pw d lam g) w (.sc s) x).getD (k * m + i) 0
      = (x.getD (k * m + i) 0 - s * gAt g (k * m + i))
        / (maxK (E.sqrt (∑ k' ∈ range d, pw.getD k' 1 *
            ((x.getD (k' * m + i) 0 - s * gAt g (k' * m + i))
              * (x.getD (k' * m + i) 0 - s * gAt g (k' * m + i))))) lam / lam) := by
  have hm : x.length / d = m := by rw [hx]; exact Nat.mul_div_cancel_left m hd
  have hj := idx_lt (m := m) hk hi
  simp only [Fn.prox, hm, Sig.scalar]
  have hdl : (idxMap x fun i xi => xi - s * gAt g i).length = d * m := by
    rw [idxMap_length, hx]
  rw [idxMap_getD _ _ _ _ (by rw [hdl]; exact hj), idx_mod hi]
  have hden : ∀ (l : List K) (f : K → K), i < l.length → (l.map f).getD i 1 = f (l.getD i 0) := by
    intro l f h; simp [List.getD_eq_getElem?_getD, h]
  rw [hden _ _ (by simp [pwNorm]; exact hi), pwNorm_getD _ _ _ _ _ _ _ hi]
  have hdiff : ∀ k' < d, (idxMap x fun i xi => xi - s * gAt g i).getD (k' * m + i) 0
      = x.getD (k' * m + i) 0 - s * gAt g (k' * m + i) := by
    intro k' hk'
    have hj' := idx_lt (m := m) hk' hi
    rw [idxMap_getD _ _ _ _ (by rw [hx]; exact hj')]
  rw [Finset.sum_congr rfl (fun k' hk' => by rw [hdiff k' (mem_range.mp hk')]), hdiff k hk]

/-! entries of an appended list (separable sums) -/
omit [LinearOrder K] [IsStrictOrderedRing K] in
theorem getD_app_left (A B : List K) (i : ℕ) (h : i < A.length) :
    (A ++ B).getD i 0 = A.getD i 0 := by
  simp [List.getD_eq_getElem?_getD, List.getElem?_append_left h]

omit [LinearOrder K] [IsStrictOrderedRing K] in
theorem getD_app_right (A B : List K) (n i : ℕ) (h : A.length = n) :
    (A ++ B).getD (n + i) 0 = B.getD i 0 := by
  simp [List.getD_eq_getElem?_getD, List.getElem?_append_right (l₁ := A) (l₂ := B)
    (i := n + i) (by omega), h]


/-! the executed objective `groupObj` -/
omit [LinearOrder K] [IsStrictOrderedRing K] in
/-- The executed `groupObj` written with finite sums. -/
theorem groupObj_eq (sqrt : K → K) (phi : K → K) (pw : List K) (d m : ℕ) (b : List K)
    (g : Option (List K)) (s : K) (x z : List K) (hz : z.length = d * m) :
    groupObj sqrt phi pw d m b g s x z
      = ∑ i ∈ range m, b.getD i 0 * (phi (sqrt (∑ k ∈ range d, pw.getD k 1 *
          ((z.getD (k * m + i) 0 - gAt g (k * m + i)) * (z.getD (k * m + i) 0 - gAt g (k * m + i)))))
        + (∑ k ∈ range d, pw.getD k 1 * (z.getD (k * m + i) 0 - x.getD (k * m + i) 0) ^ 2)
            / (2 * s)) := by
  unfold groupObj
  simp only [sumK_eq_sum, list_range_map_sum]
  apply Finset.sum_congr rfl
  intro i hi
  have hi' := mem_range.mp hi
  rw [pwNorm_getD _ _ _ _ _ _ _ hi']
  have hdiff : ∀ k ∈ range d, (idxMap z fun i zi => zi - gAt g i).getD (k * m + i) 0
      = z.getD (k * m + i) 0 - gAt g (k * m + i) := by
    intro k hk
    rw [idxMap_getD _ _ _ _ (by rw [hz]; exact idx_lt (mem_range.mp hk) hi')]
  rw [Finset.sum_congr rfl (fun k hk => by rw [hdiff k hk])]
  have h2 : (1 + 1 : K) = 2 := by norm_num
  rw [h2]
  congr 3
  apply Finset.sum_congr rfl
  intro k _
  ring

omit [LinearOrder K] [IsStrictOrderedRing K] in
theorem groupObj_add_quad (b A S1 S2 S12 s : K) (h : S12 = S1 + S2) :
    b * (A + S1 / (2 * s)) + b * (0 + S2 / (2 * s)) = b * (A + S12 / (2 * s)) := by
  rw [h]; ring

theorem huberValK_eq (gam t : K) (hg : 0 < gam) (ht : 0 ≤ t) : huberValK gam t = huberFn gam t := by
  unfold huberValK huberFn
  rw [if_pos hg, abs_of_nonneg ht]
  rcases lt_trichotomy t gam with h | h | h
  · rw [if_neg (not_le.mpr h), if_pos h.le]; field_simp; ring
  · subst h; rw [if_pos le_rfl, if_pos le_rfl]; field_simp; ring
  · rw [if_pos h.le, if_neg (not_le.mpr h)]; norm_num


/-! proximal point on lists (calculus nodes of the executed `Fn`) -/
/-- `p` is the proximal point of `F` at `x` with step `s` in the norm with flat weights `w`,
on lists: right length and minimiser of `F(z) + Σ w_i (z_i − x_i)²/(2s)` with the quadratic gap,
against every `z` of the same length. -/
def IsListProx (w : List K) (F : List K → K) (s : K) (x p : List K) : Prop :=
  p.length = x.length ∧ ∀ z : List K, z.length = x.length →
    F p + ∑ i ∈ range x.length, w.getD i 0 *
        (((p.getD i 0 - x.getD i 0) ^ 2 + (z.getD i 0 - p.getD i 0) ^ 2) / (2 * s))
      ≤ F z + ∑ i ∈ range x.length, w.getD i 0 * ((z.getD i 0 - x.getD i 0) ^ 2 / (2 * s))


end Group

/-! ## the abstract layer: functionals on a real inner product space -/
section Abstract
variable {E : Type} [NormedAddCommGroup E] [InnerProductSpace ℝ E]

/-- A functional on `E` is a pair `(C, f)`: finite with value `f z` on `C`, `+∞` outside.
`ProxVI C f σ x p`: `p ∈ C` and `(x − p)/σ` is a subgradient of `f` at `p` — the variational
inequality (resolvent characterisation) of `p = prox_{σ f}(x)`. -/
def ProxVI (C : Set E) (f : E → ℝ) (σ : ℝ) (x p : E) : Prop :=
  p ∈ C ∧ ∀ z ∈ C, σ * f p + inner ℝ (x - p) (z - p) ≤ σ * f z

/-- `P` is the proximal operator of `σ·(C, f)`. -/
def IsProx (C : Set E) (f : E → ℝ) (σ : ℝ) (P : E → E) : Prop := ∀ x, ProxVI C f σ x (P x)

/-- `(D, fs)` behaves as the convex conjugate of `(C, f)`: Fenchel–Young holds, with equality
at every subgradient pair.  (Both hold for the Fenchel conjugate of any `f`; neither convexity
nor closedness is needed for the direction used by `proximal_convex_conj`.) -/
def IsConjPair (C : Set E) (f : E → ℝ) (D : Set E) (fs : E → ℝ) : Prop :=
  (∀ z ∈ C, ∀ y ∈ D, inner ℝ z y ≤ f z + fs y) ∧
  (∀ p ∈ C, ∀ g : E, (∀ z ∈ C, f p + inner ℝ g (z - p) ≤ f z) →
    g ∈ D ∧ f p + fs g = inner ℝ p g)

/-- Functional expression trees over an inner product space: arbitrary leaves `(C, f, P)` and
the calculus nodes of `functional.py`.  `PTree.prox` is assembled from the SAME combinators
(`proxTranslation`, `proxArgScaling`, `proxLeftScale`, `proxQuadPerturb`, `proxConvexConj`)
that the executable `Fn.prox` calls on lists. -/
inductive PTree (E : Type) where
  | leaf (C : Set E) (f : E → ℝ) (P : ℝ → E → E)
  | trans (t : PTree E) (y : E)
  | argScale (t : PTree E) (s : ℝ)
  | leftScale (t : PTree E) (c : ℝ)
  | quad (t : PTree E) (a : ℝ) (u : E)
  | conj (t : PTree E) (D : Set E) (fs : E → ℝ)

/-- Effective domain of the denoted functional. -/
def PTree.dom : PTree E → Set E
  | .leaf C _ _ => C
  | .trans t y => {z | z - y ∈ t.dom}
  | .argScale t s => {z | s • z ∈ t.dom}
  | .leftScale t _ => t.dom
  | .quad t _ _ => t.dom
  | .conj _ D _ => D

/-- Value of the denoted functional on its domain. -/
def PTree.val : PTree E → E → ℝ
  | .leaf _ f _ => f
  | .trans t y => fun z => t.val (z - y)
  | .argScale t s => fun z => t.val (s • z)
  | .leftScale t c => fun z => c * t.val z
  | .quad t a u => fun z => t.val z + a * ‖z‖ ^ 2 + inner ℝ z u
  | .conj _ _ fs => fs

/-- The derived proximal factory, as `functional.py` derives it. -/
noncomputable def PTree.prox (rsqrt : ℝ → ℝ) : PTree E → ℝ → E → E
  | .leaf _ _ P => P
  | .trans t y => proxTranslation (t.prox rsqrt) y
  | .argScale t s => proxArgScaling0 (t.prox rsqrt) s
  | .leftScale t c => proxLeftScale (t.prox rsqrt) c
  | .quad t a u => proxQuadPerturb rsqrt (t.prox rsqrt) a (some u)
  | .conj t _ _ => proxConvexConj (t.prox rsqrt)

theorem proxArgScaling0_of_ne {V : Type} [Add V] [Sub V] [SMul ℝ V] (P : ℝ → V → V) (s : ℝ)
    (hs : s ≠ 0) : proxArgScaling0 P s = proxArgScaling P s := by
  funext σ x
  unfold proxArgScaling0
  rcases lt_or_gt_of_ne hs with h | h
  · rw [if_pos h]
  · rw [if_neg (not_lt.mpr (le_of_lt h)), if_pos h]

/-- Side conditions under which the code's rules are valid: correct leaves, non-zero argument
scaling, positive left scaling, non-negative quadratic coefficient, a genuine conjugate. -/
def PTree.WF : PTree E → Prop
  | .leaf C f P => ∀ σ, 0 < σ → IsProx C f σ (P σ)
  | .trans t _ => t.WF
  | .argScale t s => s ≠ 0 ∧ t.WF
  | .leftScale t c => 0 < c ∧ t.WF
  | .quad t a _ => 0 ≤ a ∧ t.WF
  | .conj t D fs => IsConjPair t.dom t.val D fs ∧ t.WF

/-- Example tree over `ℝ`: quad(leftScale(argScale(trans(leaf L2)))) with the model's L2
proximal at the leaf. -/
noncomputable def exTree : PTree ℝ :=
  .quad (.leftScale (.argScale (.trans
    (.leaf Set.univ (fun z : ℝ => 2 * ‖z - 1‖) (proxL2 (fun v : ℝ => ‖v‖) 0 2 (some 1)))
    5) (-3)) 4) (3 / 2) 7


/-- Example tree over `ℝ` with the executed soft threshold at the leaf:
`3·(2|(· − 5) − 1|) + ½‖·‖² + ⟪·, 7⟫`. -/
noncomputable def exTreeL1 : PTree ℝ :=
  .quad (.leftScale (.trans
    (.leaf Set.univ (fun z : ℝ => 2 * |z - 1|) (fun σ x => softCode (σ * 2) x 1)) 5) 3) (1 / 2) 7

/-- Example tree over `ℝ` with the executed Huber proximal at the leaf, under a negative
argument scaling and a translation. -/
noncomputable def exTreeHuber : PTree ℝ :=
  .trans (.argScale (.leaf Set.univ (huberFn (1 / 2)) (fun σ => huberCode (1 / 2) σ)) (-3)) 2

end Abstract

end OdlModel.Prox
