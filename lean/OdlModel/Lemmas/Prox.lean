/-
Helper lemmas for C07: the model's core-class `absK/maxK/minK/signK` are Mathlib's
`|·|/max/min/sign` over a linearly ordered field.
-/
import OdlModel.Model.Prox
import Mathlib.Algebra.Order.Field.Basic
import Mathlib.Algebra.Order.AbsoluteValue.Basic
import Mathlib.Tactic.Ring
import Mathlib.Tactic.Linarith
import Mathlib.Tactic.FieldSimp
import Mathlib.Analysis.InnerProductSpace.Basic

namespace OdlModel.Prox
variable {K : Type} [Field K] [LinearOrder K] [IsStrictOrderedRing K]

theorem absK_eq (a : K) : absK a = |a| := by
  unfold absK; split_ifs with h
  · exact (abs_of_neg h).symm
  · exact (abs_of_nonneg (not_lt.mp h)).symm

omit [Field K] [IsStrictOrderedRing K] in
theorem maxK_eq (a b : K) : maxK a b = max a b := by
  unfold maxK; split_ifs with h
  · exact (max_eq_right h).symm
  · exact (max_eq_left (le_of_lt (not_le.mp h))).symm

omit [Field K] [IsStrictOrderedRing K] in
theorem minK_eq (a b : K) : minK a b = min a b := by
  unfold minK; split_ifs with h
  · exact (min_eq_left h).symm
  · exact (min_eq_right (le_of_lt (not_le.mp h))).symm

theorem signK_mul_self (a : K) : signK a * a = |a| := by
  unfold signK; split_ifs with h1 h2
  · rw [one_mul, abs_of_pos h1]
  · rw [abs_of_neg h2]; ring
  · have : a = 0 := le_antisymm (not_lt.mp h1) (not_lt.mp h2)
    simp [this]


/-- The Huber function `f_γ` of `default_functionals.Huber` at one point (`γ > 0`). -/
def huberFn (gam t : K) : K := if |t| ≤ gam then t ^ 2 / (2 * gam) else |t| - gam / 2

theorem idxMap_length {K : Type} (x : List K) (f : Nat → K → K) :
    (idxMap x f).length = x.length := by
  simp [idxMap]

theorem idxMap_getD {K : Type} (x : List K) (f : Nat → K → K) (i : Nat) (d : K)
    (h : i < x.length) : (idxMap x f).getD i d = f i (x.getD i d) := by
  simp [idxMap, List.getD_eq_getElem?_getD, h]

/-- Example data for the simplex threshold: the sorted vector (1, 1/2, -1). -/
def uEx : ℕ → ℚ := fun k => if k = 0 then 1 else if k = 1 then 1 / 2 else -1

/-! ## the abstract layer: functionals on a real inner product space -/
section Abstract
variable {E : Type} [NormedAddCommGroup E] [InnerProductSpace ℝ E]

/-- A functional on `E` is a pair `(C, f)`: finite with value `f z` on `C`, `+∞` outside.
`ProxVI C f σ x p`: `p ∈ C` and `(x − p)/σ` is a subgradient of `f` at `p` — the variational
inequality (resolvent characterisation) of `p = prox_{σ f}(x)`. -/
def ProxVI (C : Set E) (f : E → ℝ) (σ : ℝ) (x p : E) : Prop :=
  p ∈ C ∧ ∀ z ∈ C, σ * f p + inner ℝ (x - p) (z - p) ≤ σ * f z

/-- `P` is the proximal operator of `σ·(C, f)`. -/
def IsProx (C : Set E) (f : E → ℝ) (σ : ℝ) (P : E → E) : Prop := ∀ x, ProxVI C f σ x (P x)

/-- `(D, fs)` behaves as the convex conjugate of `(C, f)`: Fenchel–Young holds, with equality
at every subgradient pair.  (Both hold for the Fenchel conjugate of any `f`; neither convexity
nor closedness is needed for the direction used by `proximal_convex_conj`.) -/
def IsConjPair (C : Set E) (f : E → ℝ) (D : Set E) (fs : E → ℝ) : Prop :=
  (∀ z ∈ C, ∀ y ∈ D, inner ℝ z y ≤ f z + fs y) ∧
  (∀ p ∈ C, ∀ g : E, (∀ z ∈ C, f p + inner ℝ g (z - p) ≤ f z) →
    g ∈ D ∧ f p + fs g = inner ℝ p g)

end Abstract

end OdlModel.Prox
