/-
Helper lemmas for C16, n-d part: an operation along one axis acts fibre-wise, so a transposed
pair of one-axis maps lifts to a transposed pair on the box, and transposed pairs compose
(in reversed order).
-/
import OdlModel.Lemmas.Resize
open OdlModel.Resize Finset

set_option linter.unusedVariables false
namespace OdlModel.Resize
variable {K : Type} [CommRing K]

/-- `Lt` is the transpose of `L` between lengths `n` and `m`:
`Σ_{i<m} y_i (L x)_i = Σ_{j<n} x_j (Lt y)_j` for all `x`, `y`. -/
def TransposePair (n m : Nat) (L Lt : (Nat → K) → (Nat → K)) : Prop :=
  ∀ x y, ∑ i ∈ range m, y i * L x i = ∑ j ∈ range n, x j * Lt y j

/-- The same for maps between boxes. -/
def TransposePairND (sIn sOut : List Nat) (F Ft : (List Nat → K) → (List Nat → K)) : Prop :=
  ∀ X Y, sumBox sOut (fun idx => Y idx * F X idx) = sumBox sIn (fun idx => X idx * Ft Y idx)

theorem sumBox_cons (n : Nat) (rest : List Nat) (f : List Nat → K) :
    sumBox (n :: rest) f = ∑ i ∈ range n, sumBox rest (fun idx => f (i :: idx)) := by
  simp only [sumBox, sumN_eq_sum]

theorem sumBox_sum_comm (m : Nat) (rest : List Nat) (g : Nat → List Nat → K) :
    ∑ i ∈ range m, sumBox rest (g i) = sumBox rest (fun idx => ∑ i ∈ range m, g i idx) := by
  induction rest generalizing g with
  | nil => simp [sumBox]
  | cons a rest ih =>
    simp only [sumBox_cons]
    rw [sum_comm]
    apply sum_congr rfl
    intro t _
    exact ih (fun i idx => g i (t :: idx))

theorem alongAxis_transpose (n m : Nat) (L Lt : (Nat → K) → (Nat → K))
    (hp : TransposePair n m L Lt) (pre post : List Nat) (X Y : List Nat → K) :
    sumBox (pre ++ m :: post) (fun idx => Y idx * alongAxis pre.length L X idx) =
      sumBox (pre ++ n :: post) (fun idx => X idx * alongAxis pre.length Lt Y idx) := by
  induction pre generalizing X Y with
  | nil =>
    simp only [List.nil_append, sumBox_cons, alongAxis, List.length_nil, List.set_cons_zero,
      List.getD_cons_zero]
    rw [sumBox_sum_comm, sumBox_sum_comm]
    congr 1
    funext idx
    exact hp (fun j => X (j :: idx)) (fun i => Y (i :: idx))
  | cons a pre ih =>
    simp only [List.cons_append, sumBox_cons, List.length_cons]
    apply sum_congr rfl
    intro t _
    have := ih (fun idx => X (t :: idx)) (fun idx => Y (t :: idx))
    simpa only [alongAxis, List.set_cons_succ, List.getD_cons_succ] using this

theorem TransposePairND.comp {s1 s2 s3 : List Nat} {F Ft G Gt : (List Nat → K) → (List Nat → K)}
    (h1 : TransposePairND s1 s2 F Ft) (h2 : TransposePairND s2 s3 G Gt) :
    TransposePairND s1 s3 (G ∘ F) (Ft ∘ Gt) := by
  intro X Y
  simp only [Function.comp]
  rw [h2 (F X) Y]
  have : (fun idx => F X idx * Gt Y idx) = (fun idx => Gt Y idx * F X idx) := by
    funext idx; ring
  rw [this, h1 X (Gt Y)]

end OdlModel.Resize
