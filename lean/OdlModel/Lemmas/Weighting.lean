/-
Helper definitions and lemmas for C02: the model of `Model/Weighting.lean` instantiated at
`RCLike 𝕜` (ℝ or ℂ) data with real weights, and the translation of the model's index-order
sums / maxima to `Finset` sums.
-/
import OdlModel.Model.Weighting
import Mathlib.Analysis.RCLike.Basic
import Mathlib.Algebra.BigOperators.Group.Finset.Basic
import Mathlib.Analysis.SpecialFunctions.Pow.Real

namespace OdlModel.C02
open OdlModel.Weighting

/-- Scalar operations of the model at `𝕜 = ℝ` or `ℂ`: complex conjugate, real part, modulus. -/
noncomputable def ops (𝕜 : Type) [RCLike 𝕜] : Ops 𝕜 ℝ :=
  { rK := fun r => (r : 𝕜), conj := fun z => starRingEnd 𝕜 z, re := fun z => RCLike.re z,
    abs := fun z => ‖z‖ }

/-- Real operations of the model: `Real.sqrt`, real power, absolute value; `np.isclose(·,1)`
is a parameter. -/
noncomputable def roots (close1 : ℝ → Bool) : Roots ℝ :=
  { sqrt := Real.sqrt, rpow := fun x p => x ^ p, rabs := fun x => |x|, close1 := close1 }

@[simp] theorem ops_rK (𝕜 : Type) [RCLike 𝕜] (r : ℝ) : (ops 𝕜).rK r = (r : 𝕜) := rfl
@[simp] theorem ops_conj (𝕜 : Type) [RCLike 𝕜] (z : 𝕜) : (ops 𝕜).conj z = starRingEnd 𝕜 z := rfl
@[simp] theorem ops_re (𝕜 : Type) [RCLike 𝕜] (z : 𝕜) : (ops 𝕜).re z = RCLike.re z := rfl
@[simp] theorem ops_abs (𝕜 : Type) [RCLike 𝕜] (z : 𝕜) : (ops 𝕜).abs z = ‖z‖ := rfl
@[simp] theorem roots_sqrt (c : ℝ → Bool) (x : ℝ) : (roots c).sqrt x = Real.sqrt x := rfl
@[simp] theorem roots_rpow (c : ℝ → Bool) (x p : ℝ) : (roots c).rpow x p = x ^ p := rfl
@[simp] theorem roots_rabs (c : ℝ → Bool) (x : ℝ) : (roots c).rabs x = |x| := rfl
@[simp] theorem roots_close1 (c : ℝ → Bool) : (roots c).close1 = c := rfl

theorem sumTo_eq_sum {M : Type} [AddCommMonoid M] (n : Nat) (f : Nat → M) :
    sumTo n f = ∑ i ∈ Finset.range n, f i := by
  induction n with
  | zero => simp [sumTo]
  | succ n ih => simp [sumTo, ih, Finset.sum_range_succ]

end OdlModel.C02
